/-
  C02 — assorter means exceed 1/2 exactly when the reported winners really won; every assorter value
  lies in [0, upper bound]; the margin derived from a vote tally equals 2·mean − 1 over the same cards.

  Theorems are about `Shangrla.Vote.*` and `Shangrla.Assorter.*`, the literal models of
  `shangrla/core/Audit.py` that the driver executes.
-/
import Shangrla.Model.Assorter
import Mathlib.Tactic.Linarith
import Mathlib.Tactic.FieldSimp
import Mathlib.Tactic.Ring
import Mathlib.Algebra.Order.Field.Basic
import Mathlib.Algebra.Order.Ring.Rat
import Mathlib.Algebra.BigOperators.Group.List.Basic

namespace Shangrla.C02
open Shangrla Shangrla.Vote Shangrla.Assorter

/-! ### Specification side: counting marks -/

/-- the card shows a mark for `cand` in `contest`: the stored value is truthy (a missing contest or
candidate is no mark) -/
def marked (contest cand : String) (c : CVR) : Bool := truthy (c.getVoteFor contest cand)

/-- number of cards with a truthy value for `cand` -/
def marks (contest cand : String) (B : List CVR) : Nat := B.countP (marked contest cand)

/-- number of the candidates `cands` marked on card `c` -/
def nCand (contest : String) (cands : List String) (c : CVR) : Nat :=
  cands.countP (fun x => marked contest x c)

/-- a valid super-majority vote: exactly one truthy mark among the candidates -/
def isValid (contest : String) (cands : List String) (c : CVR) : Bool := decide (nCand contest cands c = 1)

/-- number of valid cards -/
def valid (contest : String) (cands : List String) (B : List CVR) : Nat := B.countP (isValid contest cands)

/-- number of valid cards whose mark is for `w` -/
def wvalid (contest : String) (cands : List String) (w : String) (B : List CVR) : Nat :=
  B.countP (fun c => isValid contest cands c && marked contest w c)

/-- `1/2 < x` as numpy evaluates it (false for nan) -/
def gtHalf (x : XR) : Prop := XR.lt (XR.fin (1 / 2)) x = true

theorem gtHalf_fin (q : Rat) : gtHalf (XR.fin q) ↔ 1 / 2 < q := by
  simp [gtHalf, XR.lt]

theorem not_gtHalf_nan : ¬ gtHalf XR.nan := by
  simp [gtHalf, XR.lt]

/-! ### the mean -/

theorem styled_false (contest : String) (B : List CVR) : styled false contest B = B := by
  simp [styled]

theorem styled_true (contest : String) (B : List CVR) :
    styled true contest B = B.filter (fun c => c.hasContest contest) := by
  simp [styled]

/-- the style-filtered mean is the plain mean of the cards that list the contest -/
theorem mean_style_eq (contest : String) (a : CVR → Rat) (B : List CVR) :
    mean true contest a B = mean false contest a (B.filter (fun c => c.hasContest contest)) := by
  simp [mean, styled]

theorem mean_fin (contest : String) (a : CVR → Rat) (B : List CVR) (hB : B ≠ []) :
    mean false contest a B = XR.fin ((B.map a).sum / (B.length : Rat)) := by
  simp [mean, styled_false, hB]

theorem mean_nil (useStyle : Bool) (contest : String) (a : CVR → Rat) :
    mean useStyle contest a [] = XR.nan := by
  simp [mean, styled]

/-! ### plurality / approval -/

theorem asVote_eq (v : Val) : asVote v = if truthy v then 1 else 0 := rfl

theorem plurality_eq (contest w l : String) (c : CVR) :
    plurality contest w l c =
      ((if marked contest w c then 1 else 0 : Rat) - (if marked contest l c then 1 else 0) + 1) / 2 := by
  unfold plurality marked asVote
  cases truthy (c.getVoteFor contest w) <;> cases truthy (c.getVoteFor contest l) <;> norm_num

/-- **C02, range (plurality / approval).** Every value of the winner-versus-loser assorter lies in
`[0, upper_bound]`, `upper_bound = 1` (it is 0, 1/2 or 1). -/
theorem assort_range_plur (contest w l : String) (c : CVR) :
    0 ≤ plurality contest w l c ∧ plurality contest w l c ≤ 1 ∧
      (plurality contest w l c = 0 ∨ plurality contest w l c = 1 / 2 ∨ plurality contest w l c = 1) := by
  rw [plurality_eq]
  cases marked contest w c <;> cases marked contest l c <;> norm_num

theorem sum_plurality (contest w l : String) (B : List CVR) :
    (B.map (plurality contest w l)).sum =
      ((marks contest w B : Rat) - (marks contest l B : Rat) + (B.length : Rat)) / 2 := by
  induction B with
  | nil => simp [marks]
  | cons c B ih =>
    simp only [List.map_cons, List.sum_cons, ih, marks, List.countP_cons, List.length_cons, plurality_eq]
    cases marked contest w c <;> cases marked contest l c <;> push_cast <;> ring

theorem length_pos_rat {α : Type} (B : List α) (hB : B ≠ []) : (0 : Rat) < (B.length : Rat) := by
  have : 0 < B.length := List.length_pos_iff.mpr hB
  exact_mod_cast this

/-- one winner-loser pair -/
theorem plurality_pair_iff (contest w l : String) (B : List CVR) (hB : B ≠ []) :
    gtHalf (mean false contest (plurality contest w l) B) ↔ marks contest l B < marks contest w B := by
  rw [mean_fin _ _ _ hB, gtHalf_fin, sum_plurality]
  have hn := length_pos_rat B hB
  rw [lt_div_iff₀ hn]
  constructor
  · intro h
    have : (marks contest l B : Rat) < (marks contest w B : Rat) := by linarith
    exact_mod_cast this
  · intro h
    have : (marks contest l B : Rat) < (marks contest w B : Rat) := by exact_mod_cast h
    linarith

/-- **C02, plurality / approval.** For every non-empty list of cards (any marks, any encoding, blank
cards, cards lacking the contest), every winner set `W` and loser set `L`: all winner-versus-loser
assorter means exceed 1/2 exactly when every reported winner has strictly more marks than every
reported loser. -/
theorem plurality_iff (contest : String) (W L : List String) (B : List CVR) (hB : B ≠ []) :
    (∀ w ∈ W, ∀ l ∈ L, gtHalf (mean false contest (plurality contest w l) B)) ↔
      (∀ w ∈ W, ∀ l ∈ L, marks contest l B < marks contest w B) := by
  constructor
  · intro h w hw l hl; exact (plurality_pair_iff contest w l B hB).1 (h w hw l hl)
  · intro h w hw l hl; exact (plurality_pair_iff contest w l B hB).2 (h w hw l hl)

/-- a card that lacks the contest shows no mark -/
theorem marked_of_not_hasContest (contest cand : String) (c : CVR) (h : c.hasContest contest = false) :
    marked contest cand c = false := by
  unfold CVR.hasContest at h
  unfold marked CVR.getVoteFor
  cases hm : c.marksOf contest with
  | none => rfl
  | some m => simp [hm] at h

theorem marks_filter_hasContest (contest cand : String) (B : List CVR) :
    marks contest cand (B.filter (fun c => c.hasContest contest)) = marks contest cand B := by
  induction B with
  | nil => rfl
  | cons c B ih =>
    unfold marks at ih ⊢
    cases hc : c.hasContest contest
    · rw [List.filter_cons_of_neg (by simp [hc]), ih, List.countP_cons,
        marked_of_not_hasContest contest cand c hc]
      simp
    · rw [List.filter_cons_of_pos (by simp [hc]), List.countP_cons, List.countP_cons, ih]

theorem filter_ne_nil_of_exists (contest : String) (B : List CVR)
    (h : ∃ c ∈ B, c.hasContest contest = true) : B.filter (fun c => c.hasContest contest) ≠ [] := by
  obtain ⟨c, hc, hh⟩ := h
  intro hnil
  have : c ∈ B.filter (fun c => c.hasContest contest) := List.mem_filter.2 ⟨hc, hh⟩
  rw [hnil] at this
  cases this

/-- **C02, plurality / approval, style-filtered mean** (`use_style=True`: the assorter is applied only to
the cards that list the contest).  At least one card must list the contest — otherwise the mean is
`np.mean([]) = nan` (`mean_style_nan`). The vote counts are those of *all* the cards. -/
theorem plurality_iff_style (contest : String) (W L : List String) (B : List CVR)
    (hB : ∃ c ∈ B, c.hasContest contest = true) :
    (∀ w ∈ W, ∀ l ∈ L, gtHalf (mean true contest (plurality contest w l) B)) ↔
      (∀ w ∈ W, ∀ l ∈ L, marks contest l B < marks contest w B) := by
  have hne := filter_ne_nil_of_exists contest B hB
  simp only [mean_style_eq]
  rw [plurality_iff contest W L _ hne]
  simp only [marks_filter_hasContest]

/-- the guard of `plurality_iff_style`: with no card listing the contest the mean is nan, not `> 1/2` -/
theorem mean_style_nan (contest : String) (a : CVR → Rat) (B : List CVR)
    (h : ∀ c ∈ B, c.hasContest contest = false) : mean true contest a B = XR.nan := by
  have : B.filter (fun c => c.hasContest contest) = [] := by
    rw [List.filter_eq_nil_iff]; intro c hc; simp [h c hc]
  rw [mean_style_eq, this, mean_nil]

/-! ### super-majority -/

theorem getVoteFor_of_marksOf {contest : String} {c : CVR} {m : Marks} (hm : c.marksOf contest = some m)
    (x : String) : c.getVoteFor contest x = (match m.lookup x with | none => Val.b false | some v => v) := by
  simp only [CVR.getVoteFor, hm]
  cases List.lookup x m <;> rfl

theorem nMarked_eq {contest : String} {c : CVR} {m : Marks} (hm : c.marksOf contest = some m)
    (cands : List String) : CVR.nMarked m cands = nCand contest cands c := by
  unfold CVR.nMarked nCand
  induction cands with
  | nil => rfl
  | cons x xs ih =>
    rw [List.map_cons, List.sum_cons, List.countP_cons, ih]
    unfold marked
    rw [getVoteFor_of_marksOf hm x]
    cases m.lookup x with
    | none => simp [truthy]
    | some v => simp only [asVote]; cases truthy v <;> simp; omega

/-- `has_one_vote` is "exactly one truthy mark among the candidates" (false for a card lacking the contest) -/
theorem hasOneVote_eq (contest : String) (cands : List String) (c : CVR) :
    c.hasOneVote contest cands = isValid contest cands c := by
  unfold CVR.hasOneVote isValid
  cases hm : c.marksOf contest with
  | none =>
    have h0 : nCand contest cands c = 0 := by
      unfold nCand
      rw [List.countP_eq_zero]
      intro x _
      have : c.hasContest contest = false := by simp [CVR.hasContest, hm]
      simp [marked_of_not_hasContest contest x c this]
    simp [h0]
  | some m =>
    simp only [nMarked_eq hm]
    by_cases h : nCand contest cands c = 1 <;> simp [h]

theorem supermajority_eq (contest w : String) (cands : List String) (f : Rat) (c : CVR) :
    supermajority contest w cands f c =
      if isValid contest cands c then (if marked contest w c then 1 else 0 : Rat) / (2 * f) else 1 / 2 := by
  unfold supermajority
  rw [hasOneVote_eq]
  unfold marked asVote
  cases isValid contest cands c <;> cases truthy (c.getVoteFor contest w) <;> simp

/-- **C02, range (super-majority).** For a required share `0 < f < 1` every value of the assorter lies
in `[0, upper_bound]`, `upper_bound = 1/(2f)`. -/
theorem assort_range_super (contest w : String) (cands : List String) (f : Rat) (hf0 : 0 < f) (hf1 : f < 1)
    (c : CVR) :
    0 ≤ supermajority contest w cands f c ∧ supermajority contest w cands f c ≤ superUpper f := by
  rw [supermajority_eq]
  unfold superUpper
  have h2f : 0 < 2 * f := by linarith
  have hhalf : (1 : Rat) / 2 ≤ 1 / (2 * f) := by
    rw [div_le_div_iff₀ (by norm_num) h2f]; linarith
  cases isValid contest cands c <;> cases marked contest w c <;> simp only [if_true, if_false, Bool.false_eq_true]
  · exact ⟨by norm_num, hhalf⟩
  · exact ⟨by norm_num, hhalf⟩
  · exact ⟨by simp, by simp; positivity⟩
  · exact ⟨by positivity, le_refl _⟩

theorem wvalid_le_valid (contest : String) (cands : List String) (w : String) (B : List CVR) :
    wvalid contest cands w B ≤ valid contest cands B := by
  unfold wvalid valid
  apply List.countP_mono_left
  intro c _ h
  simp only [Bool.and_eq_true] at h
  exact h.1

theorem valid_le_length (contest : String) (cands : List String) (B : List CVR) :
    valid contest cands B ≤ B.length := List.countP_le_length

theorem sum_supermajority (contest w : String) (cands : List String) (f : Rat) (B : List CVR) :
    (B.map (supermajority contest w cands f)).sum =
      (wvalid contest cands w B : Rat) / (2 * f) + ((B.length : Rat) - (valid contest cands B : Rat)) / 2 := by
  induction B with
  | nil => simp [wvalid, valid]
  | cons c B ih =>
    simp only [List.map_cons, List.sum_cons, ih, wvalid, valid, List.countP_cons, List.length_cons,
      supermajority_eq]
    cases isValid contest cands c <;> cases marked contest w c <;>
      simp only [Bool.and_true, Bool.and_false, Bool.false_eq_true, if_true, if_false] <;>
      push_cast <;> ring

/-- **C02, super-majority.** For every required share `f > 0` (in particular `0 < f < 1`) and every
non-empty list of cards: the assorter mean exceeds 1/2 exactly when the winner's valid votes exceed
the share `f` of the valid votes — a card being a valid vote when it shows exactly one truthy mark
among the candidates (a card marking more than one candidate, a blank card and a card lacking the
contest are invalid). -/
theorem supermajority_iff (contest w : String) (cands : List String) (f : Rat) (hf0 : 0 < f)
    (B : List CVR) (hB : B ≠ []) :
    gtHalf (mean false contest (supermajority contest w cands f) B) ↔
      f * (valid contest cands B : Rat) < (wvalid contest cands w B : Rat) := by
  rw [mean_fin _ _ _ hB, gtHalf_fin, sum_supermajority]
  have hn := length_pos_rat B hB
  rw [lt_div_iff₀ hn]
  have h2f : 0 < 2 * f := by linarith
  have key : (wvalid contest cands w B : Rat) / (2 * f) * (2 * f) = (wvalid contest cands w B : Rat) := by
    field_simp
  constructor
  · intro h
    have h1 : (valid contest cands B : Rat) / 2 < (wvalid contest cands w B : Rat) / (2 * f) := by linarith
    have h2 := mul_lt_mul_of_pos_right h1 h2f
    rw [key] at h2
    linarith
  · intro h
    have h1 : (valid contest cands B : Rat) / 2 < (wvalid contest cands w B : Rat) / (2 * f) := by
      rw [lt_div_iff₀ h2f]; linarith
    linarith

theorem isValid_of_not_hasContest (contest : String) (cands : List String) (c : CVR)
    (h : c.hasContest contest = false) : isValid contest cands c = false := by
  rw [← hasOneVote_eq]
  unfold CVR.hasOneVote
  unfold CVR.hasContest at h
  cases hm : c.marksOf contest with
  | none => rfl
  | some m => simp [hm] at h

theorem valid_filter_hasContest (contest : String) (cands : List String) (B : List CVR) :
    valid contest cands (B.filter (fun c => c.hasContest contest)) = valid contest cands B := by
  unfold valid
  induction B with
  | nil => rfl
  | cons c B ih =>
    cases hc : c.hasContest contest
    · rw [List.filter_cons_of_neg (by simp [hc]), ih, List.countP_cons,
        isValid_of_not_hasContest contest cands c hc]
      simp
    · rw [List.filter_cons_of_pos (by simp [hc]), List.countP_cons, List.countP_cons, ih]

theorem wvalid_filter_hasContest (contest : String) (cands : List String) (w : String) (B : List CVR) :
    wvalid contest cands w (B.filter (fun c => c.hasContest contest)) = wvalid contest cands w B := by
  unfold wvalid
  induction B with
  | nil => rfl
  | cons c B ih =>
    cases hc : c.hasContest contest
    · rw [List.filter_cons_of_neg (by simp [hc]), ih, List.countP_cons,
        isValid_of_not_hasContest contest cands c hc]
      simp
    · rw [List.filter_cons_of_pos (by simp [hc]), List.countP_cons, List.countP_cons, ih]

/-- the same with the style-filtered mean, provided some card lists the contest -/
theorem supermajority_iff_style (contest w : String) (cands : List String) (f : Rat) (hf0 : 0 < f)
    (B : List CVR) (hB : ∃ c ∈ B, c.hasContest contest = true) :
    gtHalf (mean true contest (supermajority contest w cands f) B) ↔
      f * (valid contest cands B : Rat) < (wvalid contest cands w B : Rat) := by
  rw [mean_style_eq, supermajority_iff contest w cands f hf0 _ (filter_ne_nil_of_exists contest B hB),
    valid_filter_hasContest, wvalid_filter_hasContest]

/-! ### IRV assorters: range -/

theorem rcvLfuncWo_range (contest w l : String) (c : CVR) (n : Int)
    (h : rcvLfuncWo contest w l c = .ok n) : n = 0 ∨ n = 1 := by
  unfold rcvLfuncWo at h
  simp only [bind, Except.bind, pure, Except.pure] at h
  split at h
  · cases h; exact Or.inr rfl
  · split at h
    · cases hlt : pyLt (c.getVoteFor contest l) (c.getVoteFor contest w) with
      | error e => rw [hlt] at h; cases h
      | ok b =>
        rw [hlt] at h
        cases b <;> simp at h <;> cases h
        · exact Or.inl rfl
        · exact Or.inr rfl
    · cases h; exact Or.inl rfl

theorem nebWinner_range (contest w : String) (c : CVR) : nebWinner contest w c = 0 ∨ nebWinner contest w c = 1 := by
  unfold nebWinner; split
  · exact Or.inr rfl
  · exact Or.inl rfl

/-- **C02, range (IRV "winner only" / not-eliminated-before assorter).** Whenever the assorter
produces a value (ranks of incomparable Python types raise `TypeError` instead) it is 0, 1/2 or 1,
so it lies in `[0, upper_bound]` with `upper_bound = 1`. -/
theorem assort_range_neb (contest w l : String) (c : CVR) (v : Rat) (h : neb contest w l c = .ok v) :
    (v = 0 ∨ v = 1 / 2 ∨ v = 1) ∧ 0 ≤ v ∧ v ≤ 1 := by
  unfold neb at h
  simp only [bind, Except.bind, pure, Except.pure] at h
  cases hlo : rcvLfuncWo contest w l c with
  | error e => rw [hlo] at h; cases h
  | ok lo =>
    rw [hlo] at h
    simp only [Except.ok.injEq] at h
    subst h
    rcases rcvLfuncWo_range contest w l c lo hlo with h1 | h1 <;>
      rcases nebWinner_range contest w c with h2 | h2 <;> rw [h1, h2] <;> norm_num

theorem rcvLoop_range (contest cand : String) (rc : Val) (c : CVR) (rem : List String) (n : Int)
    (h : rcvLoop contest cand rc c rem = .ok n) : n = 0 ∨ n = 1 := by
  induction rem with
  | nil =>
    simp only [rcvLoop, pure, Except.pure] at h
    cases h; exact Or.inr rfl
  | cons a rest ih =>
    simp only [rcvLoop, bind, Except.bind, pure, Except.pure] at h
    split at h
    · exact ih h
    · split at h
      · cases hle : pyLe (c.getVoteFor contest a) rc with
        | error e => rw [hle] at h; cases h
        | ok b =>
          rw [hle] at h
          cases b
          · exact ih (by simpa using h)
          · simp at h; cases h; exact Or.inl rfl
      · exact ih h

theorem rcvVoteforCand_range (contest cand : String) (rem : List String) (c : CVR) (n : Int)
    (h : rcvVoteforCand contest cand rem c = .ok n) : n = 0 ∨ n = 1 := by
  unfold rcvVoteforCand at h
  simp only [pure, Except.pure] at h
  split at h
  · cases h; exact Or.inl rfl
  · split at h
    · cases h; exact Or.inl rfl
    · exact rcvLoop_range _ _ _ _ _ _ h

/-- **C02, range (IRV elimination / not-eliminated-next assorter).** Whenever the assorter produces a
value it is 0, 1/2 or 1 (`upper_bound = 1`). -/
theorem assort_range_nen (contest w l : String) (remn : List String) (c : CVR) (v : Rat)
    (h : nen contest w l remn c = .ok v) : (v = 0 ∨ v = 1 / 2 ∨ v = 1) ∧ 0 ≤ v ∧ v ≤ 1 := by
  unfold nen at h
  simp only [bind, Except.bind, pure, Except.pure] at h
  cases ha : rcvVoteforCand contest w remn c with
  | error e => rw [ha] at h; cases h
  | ok a =>
    rw [ha] at h
    cases hb : rcvVoteforCand contest l remn c with
    | error e => rw [hb] at h; cases h
    | ok b =>
      rw [hb] at h
      simp only [Except.ok.injEq] at h
      subst h
      rcases rcvVoteforCand_range _ _ _ _ _ ha with h1 | h1 <;>
        rcases rcvVoteforCand_range _ _ _ _ _ hb with h2 | h2 <;> rw [h1, h2] <;> norm_num

/-! ### Contest.tally -/

theorem tallyGet_nil (k : String) : tallyGet [] k = 0 := rfl

theorem tallyGet_cons (k0 : String) (n : Nat) (r : Tally) (k : String) :
    tallyGet ((k0, n) :: r) k = if k = k0 then n else tallyGet r k := by
  unfold tallyGet
  rw [List.lookup_cons]
  by_cases h : k = k0
  · simp [h]
  · have : (k == k0) = false := by simpa using h
    simp [this, h]

theorem tallyGet_bump (t : Tally) (k k' : String) (d : Nat) :
    tallyGet (bump t k d) k' = tallyGet t k' + if k = k' then d else 0 := by
  induction t with
  | nil =>
    simp only [bump, tallyGet_cons, tallyGet_nil]
    by_cases h : k' = k
    · simp [h]
    · have : ¬ k = k' := fun e => h e.symm
      simp [h, this]
  | cons p r ih =>
    obtain ⟨k0, n⟩ := p
    simp only [bump]
    by_cases h0 : k0 = k
    · subst h0
      simp only [if_true, tallyGet_cons]
      by_cases h : k' = k0
      · subst h; simp
      · have : ¬ k0 = k' := fun e => h e.symm
        simp [h, this]
    · simp only [h0, if_false, tallyGet_cons, ih]
      by_cases h : k' = k0
      · subst h
        have : ¬ k = k' := fun e => h0 e.symm
        simp [this]
      · simp [h]

/-- the marks a vote dict gives to the key `k` (for a dict, at most one entry has that key) -/
def markCount (m : Marks) (k : String) : Nat := (m.map (fun p => if p.1 = k then asVote p.2 else 0)).sum

theorem tallyGet_tallyMarks (m : Marks) (k : String) (hk : k ≠ "") :
    ∀ t : Tally, tallyGet (tallyMarks t m) k = tallyGet t k + markCount m k := by
  induction m with
  | nil => intro t; simp [tallyMarks, markCount]
  | cons p m ih =>
    intro t
    have hstep : tallyMarks t (p :: m) =
        tallyMarks (if p.1 != "" then bump t p.1 (asVote p.2) else t) m := by
      simp [tallyMarks]
    rw [hstep, ih]
    simp only [markCount, List.map_cons, List.sum_cons]
    by_cases hp : p.1 = ""
    · have hne : ¬ p.1 = k := fun e => hk (e ▸ hp)
      have hb : (p.1 != "") = false := by simp [hp]
      simp [hb, hne]
    · have : (p.1 != "") = true := by simpa using hp
      simp only [this, if_true, tallyGet_bump]
      omega

theorem markCount_of_not_mem (m : Marks) (k : String) (h : k ∉ m.map (·.1)) : markCount m k = 0 := by
  induction m with
  | nil => rfl
  | cons p m ih =>
    simp only [List.map_cons, List.mem_cons, not_or] at h
    simp only [markCount, List.map_cons, List.sum_cons]
    have : ¬ p.1 = k := fun e => h.1 e.symm
    simp only [this, if_false, Nat.zero_add]
    exact ih h.2

theorem markCount_eq_lookup (m : Marks) (hnd : (m.map (·.1)).Nodup) (k : String) :
    markCount m k = (match m.lookup k with | none => 0 | some v => asVote v) := by
  induction m with
  | nil => rfl
  | cons p m ih =>
    obtain ⟨k0, v⟩ := p
    simp only [List.map_cons, List.nodup_cons] at hnd
    simp only [markCount, List.map_cons, List.sum_cons, List.lookup_cons]
    by_cases h : k0 = k
    · subst h
      have h0 := markCount_of_not_mem m k0 hnd.1
      unfold markCount at h0
      simp [h0]
    · have hb : (k == k0) = false := by simpa using fun e : k = k0 => h e.symm
      simp only [h, if_false, Nat.zero_add, hb]
      exact ih hnd.2

theorem mem_of_lookup {β : Type} (l : List (String × β)) (k : String) (v : β) (h : l.lookup k = some v) :
    (k, v) ∈ l := by
  induction l with
  | nil => simp at h
  | cons p l ih =>
    obtain ⟨k0, v0⟩ := p
    rw [List.lookup_cons] at h
    by_cases hk : k = k0
    · subst hk; simp at h; subst h; simp
    · have : (k == k0) = false := by simpa using hk
      simp [this] at h
      exact List.mem_cons_of_mem _ (ih h)

theorem marks_nodup {c : CVR} (hwf : c.WF) {contest : String} {m : Marks} (hm : c.marksOf contest = some m) :
    (m.map (·.1)).Nodup :=
  hwf.2 (contest, m) (mem_of_lookup _ _ _ hm)

theorem markCount_eq_marked {c : CVR} (hwf : c.WF) {contest : String} {m : Marks}
    (hm : c.marksOf contest = some m) (k : String) :
    markCount m k = if marked contest k c then 1 else 0 := by
  rw [markCount_eq_lookup m (marks_nodup hwf hm) k]
  unfold marked
  rw [getVoteFor_of_marksOf hm k]
  cases m.lookup k with
  | none => simp [truthy]
  | some v => simp only [asVote]

/-- is the card tallied: it lists the contest and passes the `enforce_rules` test (L2844-2849) -/
def cardCounted (enforceRules : Bool) (nWinners : Nat) (contest : String) (c : CVR) : Bool :=
  match c.marksOf contest with
  | none => false
  | some m => counted enforceRules nWinners m

theorem tallyGet_tallyCard (enforce : Bool) (nW : Nat) (contest : String) (t : Tally) (c : CVR) (hwf : c.WF)
    (k : String) (hk : k ≠ "") :
    tallyGet (tallyCard enforce nW contest t c) k =
      tallyGet t k + if (cardCounted enforce nW contest c && marked contest k c) then 1 else 0 := by
  unfold tallyCard cardCounted
  cases hm : c.marksOf contest with
  | none => simp
  | some m =>
    simp only
    by_cases hc : counted enforce nW m = true
    · simp only [hc, if_true, Bool.true_and, tallyGet_tallyMarks m k hk, markCount_eq_marked hwf hm]
    · have hc' : counted enforce nW m = false := by simpa using hc
      simp [hc']

/-- `tally[k]` = number of tallied cards that mark `k` -/
theorem tallyGet_foldl (enforce : Bool) (nW : Nat) (contest : String) (k : String) (hk : k ≠ "") (B : List CVR)
    (hwf : ∀ c ∈ B, c.WF) :
    ∀ t : Tally, tallyGet (B.foldl (tallyCard enforce nW contest) t) k =
      tallyGet t k + B.countP (fun c => cardCounted enforce nW contest c && marked contest k c) := by
  induction B with
  | nil => intro t; simp
  | cons c B ih =>
    intro t
    rw [List.foldl_cons, ih (fun c' hc' => hwf c' (List.mem_cons_of_mem _ hc')),
      tallyGet_tallyCard enforce nW contest t c (hwf c List.mem_cons_self) k hk, List.countP_cons]
    omega

theorem tallyGet_tally (enforce : Bool) (nW : Nat) (contest : String) (k : String) (hk : k ≠ "") (B : List CVR)
    (hwf : ∀ c ∈ B, c.WF) :
    tallyGet (tally enforce nW contest B) k =
      B.countP (fun c => cardCounted enforce nW contest c && marked contest k c) := by
  unfold tally
  rw [tallyGet_foldl enforce nW contest k hk B hwf []]
  simp [tallyGet_nil]

/-! ### margin from the tally: plurality / approval -/

/-- no card is skipped by the tally: `enforce_rules` is off, or no card carries more than `n_winners`
truthy marks (on the keys of its own vote dict; keys that are falsy names are ignored by the tally) -/
def NoneSkipped (enforce : Bool) (nW : Nat) (contest : String) (B : List CVR) : Prop :=
  enforce = false ∨ ∀ c ∈ B, ∀ m, c.marksOf contest = some m → nVotes m ≤ nW

theorem cardCounted_of_noneSkipped {enforce : Bool} {nW : Nat} {contest : String} {B : List CVR}
    (h : NoneSkipped enforce nW contest B) {c : CVR} (hc : c ∈ B) :
    cardCounted enforce nW contest c = c.hasContest contest := by
  unfold cardCounted CVR.hasContest
  cases hm : c.marksOf contest with
  | none => rfl
  | some m =>
    simp only [Option.isSome_some, counted]
    rcases h with h | h
    · simp [h]
    · simp [h c hc m hm]

theorem marked_imp_hasContest (contest k : String) (c : CVR) (h : marked contest k c = true) :
    c.hasContest contest = true := by
  cases hc : c.hasContest contest
  · rw [marked_of_not_hasContest contest k c hc] at h; cases h
  · rfl

theorem tallyGet_tally_of_noneSkipped (enforce : Bool) (nW : Nat) (contest : String) (k : String) (hk : k ≠ "")
    (B : List CVR) (hwf : ∀ c ∈ B, c.WF) (h : NoneSkipped enforce nW contest B) :
    tallyGet (tally enforce nW contest B) k = marks contest k B := by
  rw [tallyGet_tally enforce nW contest k hk B hwf]
  unfold marks
  apply List.countP_congr
  intro c hc
  rw [cardCounted_of_noneSkipped h hc]
  constructor
  · intro h'; simp only [Bool.and_eq_true] at h'; exact h'.2
  · intro h'; simp only [Bool.and_eq_true]; exact ⟨marked_imp_hasContest contest k c h', h'⟩

theorem margin_fin (contest : String) (a : CVR → Rat) (B : List CVR) (μ : Rat)
    (h : mean false contest a B = XR.fin μ) : margin false contest a B = XR.fin (2 * μ - 1) := by
  unfold margin
  rw [h]
  show XR.sub (XR.mul (XR.fin 2) (XR.fin μ)) (XR.fin 1) = _
  simp only [XR.mul, XR.sub, XR.neg, XR.add]
  congr 1
  ring

/-- **C02, margin from tally (plurality / approval).** With `cards = |B|` and `tally = Contest.tally` of
the same cards, `find_margin_from_tally` returns exactly `Assertion.margin = 2·mean − 1` (the mean over
all the cards), provided no card is skipped by the tally: `enforce_rules` is off or no card carries
more than `n_winners` truthy marks.  (`w`, `l` are non-empty names — `Contest.tally` ignores keys that
are falsy — and cards are dicts: distinct keys.)  The excluded region is finding F19. -/
theorem margin_from_tally_plur (scf : Scf) (hscf : scf = Scf.plurality ∨ scf = Scf.approval)
    (contest w l : String) (candidates : List String) (share : Rat) (enforce : Bool) (nW : Nat)
    (B : List CVR) (hB : B ≠ []) (hwf : ∀ c ∈ B, c.WF) (hw : w ≠ "") (hl : l ≠ "")
    (hEnf : NoneSkipped enforce nW contest B) :
    findMarginFromTally scf w l candidates share B.length (tally enforce nW contest B)
        = .ok (margin false contest (plurality contest w l) B) ∧
      ∃ μ : Rat, mean false contest (plurality contest w l) B = XR.fin μ ∧
        margin false contest (plurality contest w l) B = XR.fin (2 * μ - 1) := by
  have hmean := mean_fin contest (plurality contest w l) B hB
  have hmargin := margin_fin contest _ B _ hmean
  refine ⟨?_, _, hmean, hmargin⟩
  rw [hmargin, sum_plurality]
  have hn := length_pos_rat B hB
  have hlen : B.length ≠ 0 := by
    intro h; rw [h] at hn; simp at hn
  have hfind : findMarginFromTally scf w l candidates share B.length (tally enforce nW contest B) =
      .ok (XR.fin (((((tallyGet (tally enforce nW contest B) w : Nat) : Int) -
        ((tallyGet (tally enforce nW contest B) l : Nat) : Int) : Int) : Rat) / (B.length : Rat))) := by
    rcases hscf with h | h <;> subst h <;> simp [findMarginFromTally, hlen, pure, Except.pure]
  rw [hfind, tallyGet_tally_of_noneSkipped enforce nW contest w hw B hwf hEnf,
    tallyGet_tally_of_noneSkipped enforce nW contest l hl B hwf hEnf]
  congr 2
  push_cast
  field_simp
  ring

/-! ### margin from the tally: super-majority (repaired formula `(tally[w]/f − Σ tally[c]) / cards`) -/

/-- The tally and the assorter agree on which cards are valid votes: a card the tally counts marks at
most one candidate, and a card the tally does not count (it lacks the contest, or `enforce_rules`
skipped it for carrying more than `n_winners` marks) does not mark exactly one candidate. -/
def TallyConsistent (enforce : Bool) (nW : Nat) (contest : String) (cands : List String) (c : CVR) : Prop :=
  (cardCounted enforce nW contest c = true → nCand contest cands c ≤ 1) ∧
  (cardCounted enforce nW contest c = false → nCand contest cands c ≠ 1)

theorem sum_indicator_eq_countP {α : Type} (q : α → Bool) (l : List α) :
    (l.map (fun x => if q x then 1 else 0)).sum = l.countP q := by
  induction l with
  | nil => rfl
  | cons a l ih =>
    rw [List.map_cons, List.sum_cons, List.countP_cons, ih]
    cases q a <;> simp
    omega

/-- exchanging the two sums: over candidates of (cards that mark the candidate) = over cards of
(candidates the card marks) -/
theorem sum_countP_swap (p : CVR → Bool) (contest : String) (cands : List String) (B : List CVR) :
    (cands.map (fun x => B.countP (fun c => p c && marked contest x c))).sum =
      (B.map (fun c => if p c then nCand contest cands c else 0)).sum := by
  induction B with
  | nil => simp
  | cons c B ih =>
    simp only [List.countP_cons, List.map_cons, List.sum_cons]
    rw [List.sum_map_add, ih, Nat.add_comm]
    congr 1
    cases hp : p c
    · simp
    · simp only [Bool.true_and, if_true]
      exact sum_indicator_eq_countP _ _

theorem valid_eq_sum (contest : String) (cands : List String) (B : List CVR) :
    valid contest cands B = (B.map (fun c => if isValid contest cands c then 1 else 0)).sum := by
  unfold valid; rw [sum_indicator_eq_countP]

theorem tally_total_eq_valid (enforce : Bool) (nW : Nat) (contest : String) (cands : List String)
    (hne : "" ∉ cands) (B : List CVR) (hwf : ∀ c ∈ B, c.WF)
    (hcons : ∀ c ∈ B, TallyConsistent enforce nW contest cands c) :
    (cands.map (tallyGet (tally enforce nW contest B))).sum = valid contest cands B := by
  have h1 : cands.map (tallyGet (tally enforce nW contest B)) =
      cands.map (fun x => B.countP (fun c => cardCounted enforce nW contest c && marked contest x c)) := by
    apply List.map_congr_left
    intro x hx
    exact tallyGet_tally enforce nW contest x (fun e => hne (e ▸ hx)) B hwf
  rw [h1, sum_countP_swap, valid_eq_sum]
  congr 1
  apply List.map_congr_left
  intro c hc
  obtain ⟨hA, hB⟩ := hcons c hc
  unfold isValid
  cases hcc : cardCounted enforce nW contest c
  · have := hB hcc
    simp [this]
  · have := hA hcc
    simp only [if_true]
    by_cases h1 : nCand contest cands c = 1
    · simp [h1]
    · have h0 : nCand contest cands c = 0 := by omega
      simp [h0]

theorem nCand_pos_of_marked (contest : String) (cands : List String) (w : String) (hw : w ∈ cands) (c : CVR)
    (h : marked contest w c = true) : 1 ≤ nCand contest cands c := by
  unfold nCand
  exact List.countP_pos_iff.2 ⟨w, hw, h⟩

theorem tally_winner_eq_wvalid (enforce : Bool) (nW : Nat) (contest : String) (cands : List String)
    (w : String) (hw : w ∈ cands) (hne : "" ∉ cands) (B : List CVR) (hwf : ∀ c ∈ B, c.WF)
    (hcons : ∀ c ∈ B, TallyConsistent enforce nW contest cands c) :
    tallyGet (tally enforce nW contest B) w = wvalid contest cands w B := by
  rw [tallyGet_tally enforce nW contest w (fun e => hne (e ▸ hw)) B hwf]
  unfold wvalid
  apply List.countP_congr
  intro c hc
  obtain ⟨hA, hB⟩ := hcons c hc
  simp only [Bool.and_eq_true, isValid, decide_eq_true_eq]
  constructor
  · rintro ⟨h1, h2⟩
    have := hA h1
    have := nCand_pos_of_marked contest cands w hw c h2
    exact ⟨by omega, h2⟩
  · rintro ⟨h1, h2⟩
    refine ⟨?_, h2⟩
    cases hcc : cardCounted enforce nW contest c
    · exact absurd h1 (hB hcc)
    · rfl

theorem nCand_perm (contest : String) {cands cands' : List String} (h : cands.Perm cands') (c : CVR) :
    nCand contest cands c = nCand contest cands' c := h.countP_eq _

theorem isValid_perm (contest : String) {cands cands' : List String} (h : cands.Perm cands') (c : CVR) :
    isValid contest cands c = isValid contest cands' c := by
  unfold isValid; rw [nCand_perm contest h]

theorem supermajority_perm (contest w : String) {cands cands' : List String} (h : cands.Perm cands') (f : Rat) :
    supermajority contest w cands f = supermajority contest w cands' f := by
  funext c
  rw [supermajority_eq, supermajority_eq, isValid_perm contest h]

/-- **C02, margin from tally (super-majority).** With `cards = |B|`, `tally = Contest.tally` of the same
cards and the assorter built over any enumeration `cands` of the contest's candidate list,
`find_margin_from_tally` returns exactly `Assertion.margin = 2·mean − 1`, provided the tally counts
exactly the valid votes (`TallyConsistent`, see `tallyConsistent_of_noenforce` /
`tallyConsistent_of_enforce` for the two natural regimes).  Candidate names are non-empty
(`Contest.tally` ignores falsy keys), the winner is a listed candidate and `share ≠ 0`. -/
theorem margin_from_tally_super (contest w : String) (candidates cands : List String) (f : Rat)
    (enforce : Bool) (nW : Nat) (B : List CVR) (hB : B ≠ []) (hwf : ∀ c ∈ B, c.WF) (hf : f ≠ 0)
    (hperm : cands.Perm candidates) (hw : w ∈ candidates) (hne : "" ∉ candidates) (hNC : w ≠ NO_CANDIDATE)
    (hcons : ∀ c ∈ B, TallyConsistent enforce nW contest candidates c) :
    findMarginFromTally Scf.supermajority w ALL_OTHERS candidates f B.length (tally enforce nW contest B)
        = .ok (margin false contest (supermajority contest w cands f) B) ∧
      ∃ μ : Rat, mean false contest (supermajority contest w cands f) B = XR.fin μ ∧
        margin false contest (supermajority contest w cands f) B = XR.fin (2 * μ - 1) := by
  rw [supermajority_perm contest w hperm f]
  have hmean := mean_fin contest (supermajority contest w candidates f) B hB
  have hmargin := margin_fin contest _ B _ hmean
  refine ⟨?_, _, hmean, hmargin⟩
  rw [hmargin, sum_supermajority]
  have hn := length_pos_rat B hB
  have hn' : (B.length : Rat) ≠ 0 := ne_of_gt hn
  have hfind : findMarginFromTally Scf.supermajority w ALL_OTHERS candidates f B.length
        (tally enforce nW contest B) =
      .ok (XR.fin (((tallyGet (tally enforce nW contest B) w : Nat) : Rat) / f -
        (((candidates.map (tallyGet (tally enforce nW contest B))).sum : Nat) : Rat)) / XR.fin (B.length : Rat)) := by
    simp [findMarginFromTally, hNC, hf, pure, Except.pure]
  rw [hfind, tally_total_eq_valid enforce nW contest candidates hne B hwf hcons,
    tally_winner_eq_wvalid enforce nW contest candidates w hw hne B hwf hcons]
  show Except.ok (XR.div _ _) = _
  simp only [XR.div, hn', if_false]
  congr 2
  field_simp
  ring

/-! ### when is the tally consistent with the assorter's notion of a valid vote -/

theorem nCand_of_not_hasContest (contest : String) (cands : List String) (c : CVR)
    (h : c.hasContest contest = false) : nCand contest cands c = 0 := by
  unfold nCand
  rw [List.countP_eq_zero]
  intro x _
  simp [marked_of_not_hasContest contest x c h]

theorem hasContest_of_cardCounted_false_noenforce (nW : Nat) (contest : String) (c : CVR)
    (h : cardCounted false nW contest c = false) : c.hasContest contest = false := by
  unfold cardCounted at h
  unfold CVR.hasContest
  cases hm : c.marksOf contest with
  | none => rfl
  | some m => rw [hm] at h; simp [counted] at h

/-- Regime 1: `enforce_rules=False` and no card marks more than one candidate. (With an overvoted
card the tally counts both marks while the assorter scores the card 1/2: see `witness_super_noenforce`.) -/
theorem tallyConsistent_of_noenforce (nW : Nat) (contest : String) (cands : List String) (c : CVR)
    (h : nCand contest cands c ≤ 1) : TallyConsistent false nW contest cands c := by
  refine ⟨fun _ => h, fun hc => ?_⟩
  rw [nCand_of_not_hasContest contest cands c (hasContest_of_cardCounted_false_noenforce nW contest c hc)]
  decide

theorem sum_indicator_mem (l : List String) (hnd : l.Nodup) (a : String) (d : Nat) :
    (l.map (fun x => if a = x then d else 0)).sum = if a ∈ l then d else 0 := by
  induction l with
  | nil => simp
  | cons x l ih =>
    rw [List.nodup_cons] at hnd
    rw [List.map_cons, List.sum_cons, ih hnd.2]
    by_cases h : a = x
    · subst h; simp [hnd.1]
    · simp [h]

/-- the marks the tally sees on a card (`n_votes`) are the marks on candidates, when every truthy mark
of the card is for a listed candidate -/
theorem sum_markCount_eq_nVotes (cands : List String) (hnd : cands.Nodup) (hne : "" ∉ cands) (m : Marks)
    (hIn : ∀ p ∈ m, truthy p.2 = true → p.1 ∈ cands) :
    (cands.map (markCount m)).sum = nVotes m := by
  induction m with
  | nil =>
    have h0 : cands.map (markCount []) = cands.map (fun _ => 0) := List.map_congr_left (fun x _ => rfl)
    rw [h0]
    simp [nVotes]
  | cons p m ih =>
    have h1 : cands.map (markCount (p :: m)) =
        cands.map (fun x => (if p.1 = x then asVote p.2 else 0) + markCount m x) := by
      apply List.map_congr_left; intro x _; simp [markCount]
    rw [h1, List.sum_map_add, ih (fun q hq => hIn q (List.mem_cons_of_mem _ hq)),
      sum_indicator_mem cands hnd]
    simp only [nVotes, List.map_cons, List.sum_cons]
    congr 1
    by_cases ht : truthy p.2 = true
    · have hin := hIn p List.mem_cons_self ht
      have hne' : p.1 ≠ "" := fun e => hne (e ▸ hin)
      simp [hin, hne']
    · have : asVote p.2 = 0 := by simp [asVote, ht]
      simp [this]

theorem nCand_eq_nVotes {c : CVR} (hwf : c.WF) {contest : String} {m : Marks} (hm : c.marksOf contest = some m)
    (cands : List String) (hnd : cands.Nodup) (hne : "" ∉ cands)
    (hIn : ∀ p ∈ m, truthy p.2 = true → p.1 ∈ cands) : nCand contest cands c = nVotes m := by
  rw [← sum_markCount_eq_nVotes cands hnd hne m hIn]
  unfold nCand
  rw [← sum_indicator_eq_countP]
  congr 1
  apply List.map_congr_left
  intro x _
  rw [markCount_eq_marked hwf hm]

/-- Regime 2 (the defaults): `enforce_rules=True`, `n_winners = 1`, and every truthy mark of the card is
for a listed candidate. (A card with one candidate mark plus a truthy mark for a name outside the
candidate list is skipped by the tally but is a valid vote for the assorter: `witness_super_outside`.) -/
theorem tallyConsistent_of_enforce (contest : String) (cands : List String) (hnd : cands.Nodup)
    (hne : "" ∉ cands) (c : CVR) (hwf : c.WF)
    (hIn : ∀ m, c.marksOf contest = some m → ∀ p ∈ m, truthy p.2 = true → p.1 ∈ cands) :
    TallyConsistent true 1 contest cands c := by
  unfold TallyConsistent cardCounted
  cases hm : c.marksOf contest with
  | none =>
    have : c.hasContest contest = false := by simp [CVR.hasContest, hm]
    simp [nCand_of_not_hasContest contest cands c this]
  | some m =>
    have := nCand_eq_nVotes hwf hm cands hnd hne (hIn m hm)
    simp only [counted, Bool.not_true, Bool.false_or, decide_eq_true_eq, decide_eq_false_iff_not, this]
    exact ⟨fun h => h, fun h => by omega⟩

theorem eraseDups_of_nodup (l : List String) (h : l.Nodup) : l.eraseDups = l := by
  induction l with
  | nil => rfl
  | cons a l ih =>
    rw [List.nodup_cons] at h
    rw [List.eraseDups_cons]
    have : l.filter (fun b => !b == a) = l := by
      rw [List.filter_eq_self]
      intro b hb
      have : b ≠ a := fun e => h.1 (e ▸ hb)
      simpa using this
    rw [this, ih h.2]

theorem filter_ne_append_perm (l : List String) (hnd : l.Nodup) (w : String) (hw : w ∈ l) :
    (l.filter (fun c => !([w].contains c)) ++ [w]).Perm l := by
  induction l with
  | nil => cases hw
  | cons x l ih =>
    rw [List.nodup_cons] at hnd
    by_cases hx : x = w
    · subst hx
      have hf : l.filter (fun c => !([x].contains c)) = l := by
        rw [List.filter_eq_self]
        intro b hb
        have : b ≠ x := fun e => hnd.1 (e ▸ hb)
        simpa using this
      rw [List.filter_cons_of_neg (by simp), hf]
      exact List.perm_append_singleton x l
    · have hw' : w ∈ l := by
        rcases List.mem_cons.1 hw with h | h
        · exact absurd h.symm hx
        · exact h
      rw [List.filter_cons_of_pos (by simpa using hx)]
      exact List.Perm.cons x (ih hnd.2 hw')

/-- the candidate list `make_all_assertions` / `make_supermajority_assertion` hand to `has_one_vote`
(`list(set(candidates) - {w}) + [w]`) is a rearrangement of the contest's candidate list -/
theorem superCands_perm (candidates : List String) (hnd : candidates.Nodup) (w : String) (hw : w ∈ candidates) :
    (superCands (losers candidates [w]) w).Perm candidates := by
  unfold superCands losers
  rw [eraseDups_of_nodup _ (hnd.filter _)]
  exact filter_ne_append_perm candidates hnd w hw

/-- executable form of "every truthy mark of the card is for a listed candidate" -/
def onlyCands (contest : String) (cands : List String) (c : CVR) : Bool :=
  match c.marksOf contest with
  | none => true
  | some m => m.all (fun p => !truthy p.2 || cands.contains p.1)

theorem onlyCands_spec (contest : String) (cands : List String) (c : CVR) (h : onlyCands contest cands c = true) :
    ∀ m, c.marksOf contest = some m → ∀ p ∈ m, truthy p.2 = true → p.1 ∈ cands := by
  intro m hm p hp ht
  unfold onlyCands at h
  rw [hm] at h
  simp only [List.all_eq_true] at h
  have := h p hp
  simpa [ht] using this

/-! ### Non-vacuity and witnesses of the excluded regions (tests of the statements, not the theorems) -/

def card (id : String) (m : Marks) : CVR := { id := id, votes := [("AvB", m)] }

/-- the cards of finding F19 — `{a}`, `{a, c}`, `{b}` — in mixed encodings (`True`, `5`, `"marked"`, a falsy
`""` for `a` on the third card), plus a card that lacks the contest -/
def B19 : List CVR :=
  [card "1" [("a", .b true)], card "2" [("a", .i 5), ("c", .s "marked")], card "3" [("b", .b true), ("a", .s "")],
   { id := "4", votes := [] }]

theorem B19_wf : ∀ c ∈ B19, c.WF := by
  simp [B19, card, CVR.WF]

-- plurality_iff: the hypothesis is satisfiable and both sides are true on B19 (a:2, b:1, c:1)
example : ∀ w ∈ ["a"], ∀ l ∈ ["b", "c"], gtHalf (mean false "AvB" (plurality "AvB" w l) B19) :=
  (plurality_iff "AvB" ["a"] ["b", "c"] B19 (List.cons_ne_nil _ _)).2 (by decide)
-- … and both sides are false for the wrong winner
example : ¬ ∀ w ∈ ["b"], ∀ l ∈ ["a", "c"], gtHalf (mean false "AvB" (plurality "AvB" w l) B19) := by
  rw [plurality_iff "AvB" ["b"] ["a", "c"] B19 (List.cons_ne_nil _ _)]; decide
example : ∀ w ∈ ["a"], ∀ l ∈ ["b", "c"], gtHalf (mean true "AvB" (plurality "AvB" w l) B19) :=
  (plurality_iff_style "AvB" ["a"] ["b", "c"] B19 ⟨_, List.mem_cons_self, by decide⟩).2 (by decide)
-- supermajority_iff with f = 1/2 : valid = 2 (cards 1 and 3), winner's = 1: exact threshold, not a win
example : ¬ gtHalf (mean false "AvB" (supermajority "AvB" "a" ["b", "c", "a"] (1/2)) B19) := by
  rw [supermajority_iff "AvB" "a" ["b", "c", "a"] (1/2) (by norm_num) B19 (List.cons_ne_nil _ _)]
  have h1 : valid "AvB" ["b", "c", "a"] B19 = 2 := by decide
  have h2 : wvalid "AvB" ["b", "c", "a"] "a" B19 = 1 := by decide
  rw [h1, h2]; norm_num
-- … and with f = 1/3 it is a win
example : gtHalf (mean false "AvB" (supermajority "AvB" "a" ["b", "c", "a"] (1/3)) B19) := by
  rw [supermajority_iff "AvB" "a" ["b", "c", "a"] (1/3) (by norm_num) B19 (List.cons_ne_nil _ _)]
  have h1 : valid "AvB" ["b", "c", "a"] B19 = 2 := by decide
  have h2 : wvalid "AvB" ["b", "c", "a"] "a" B19 = 1 := by decide
  rw [h1, h2]; norm_num



-- margin_from_tally_plur: hypotheses hold on B19 with enforce_rules=True, n_winners = 2 (no card has 3 marks) …
example : NoneSkipped true 2 "AvB" B19 := by
  refine Or.inr ?_
  simp [B19, card, CVR.marksOf, nVotes, asVote, truthy]
example : NoneSkipped false 1 "AvB" B19 := Or.inl rfl

/-- **witness of the region excluded from `margin_from_tally_plur` (finding F19)**: `enforce_rules=True`,
`n_winners = 1`, card 2 carries two marks: the tally skips it (`a:1, b:1`, margin 0) but the assorter
counts it for `a` (mean 5/8 over the 4 cards, margin 1/4). -/
theorem witness_F19 :
    findMarginFromTally .plurality "a" "b" ["a", "b", "c"] (1/2) B19.length (tally true 1 "AvB" B19)
      = .ok (XR.fin 0) ∧
    margin false "AvB" (plurality "AvB" "a" "b") B19 = XR.fin (1/4) := by
  constructor
  · have ta : tallyGet (tally true 1 "AvB" B19) "a" = 1 := by decide
    have tb : tallyGet (tally true 1 "AvB" B19) "b" = 1 := by decide
    have hl : B19.length = 4 := rfl
    simp [findMarginFromTally, ta, tb, hl, pure, Except.pure]
  · have hne : B19 ≠ [] := by simp [B19]
    have hl : B19.length = 4 := rfl
    rw [margin_fin _ _ _ _ (mean_fin _ _ _ hne), sum_plurality]
    have ha : marks "AvB" "a" B19 = 2 := by decide
    have hb : marks "AvB" "b" B19 = 1 := by decide
    rw [ha, hb, hl]
    norm_num



/-- valid votes for a, a, b; a blank card; an overvote; a card lacking the contest -/
def BS : List CVR :=
  [card "1" [("a", .b true)], card "2" [("a", .i 1), ("b", .i 0)], card "3" [("b", .s "marked")], card "4" [],
   card "5" [("a", .b true), ("b", .b true)], { id := "6", votes := [("other", [("a", .b true)])] }]

theorem BS_wf : ∀ c ∈ BS, c.WF := by
  simp [BS, card, CVR.WF]

theorem BS_in : ∀ c ∈ BS, ∀ m, c.marksOf "AvB" = some m → ∀ p ∈ m, truthy p.2 = true → p.1 ∈ ["a", "b"] :=
  fun c hc => onlyCands_spec "AvB" ["a", "b"] c ((by decide : ∀ c ∈ BS, onlyCands "AvB" ["a", "b"] c = true) c hc)

-- margin_from_tally_super: all hypotheses hold on BS in the default regime (enforce_rules=True, n_winners=1)
example :
    findMarginFromTally .supermajority "a" ALL_OTHERS ["a", "b"] (3/4) BS.length (tally true 1 "AvB" BS)
      = .ok (margin false "AvB" (supermajority "AvB" "a" (superCands (losers ["a", "b"] ["a"]) "a") (3/4)) BS) :=
  (margin_from_tally_super "AvB" "a" ["a", "b"] _ (3/4) true 1 BS (by simp [BS]) BS_wf (by norm_num)
    (superCands_perm ["a", "b"] (by decide) "a" (by decide)) (by decide) (by decide) (by decide)
    (fun c hc => tallyConsistent_of_enforce "AvB" ["a", "b"] (by decide) (by decide) c (BS_wf c hc) (BS_in c hc))).1

def BO : List CVR := [card "1" [("a", .b true)], card "2" [("a", .b true), ("b", .b true)]]

/-- **witness of a region excluded from `margin_from_tally_super`**: `enforce_rules=False` and an overvoted
card: the tally counts both marks (`a:2, b:1`; share 3/4: margin (2/(3/4) − 3)/2 = −1/6) while the assorter
scores the overvote 1/2 (values 2/3, 1/2: mean 7/12, margin 1/6). -/
theorem witness_super_noenforce :
    findMarginFromTally .supermajority "a" ALL_OTHERS ["a", "b"] (3/4) BO.length (tally false 1 "AvB" BO)
      = .ok (XR.fin (-1/6)) ∧
    margin false "AvB" (supermajority "AvB" "a" ["b", "a"] (3/4)) BO = XR.fin (1/6) := by
  constructor
  · have ta : tallyGet (tally false 1 "AvB" BO) "a" = 2 := by decide
    have tb : tallyGet (tally false 1 "AvB" BO) "b" = 1 := by decide
    have hl : BO.length = 2 := rfl
    simp only [findMarginFromTally, NO_CANDIDATE, ALL_OTHERS, ta, tb, hl, pure, Except.pure, List.map_cons, List.map_nil,
      List.sum_cons, List.sum_nil]
    norm_num
    rw [if_neg (by decide)]
    congr 1
    show XR.div _ _ = _
    simp only [XR.div]
    norm_num
  · have hne : BO ≠ [] := by simp [BO]
    have hl : BO.length = 2 := rfl
    rw [margin_fin _ _ _ _ (mean_fin _ _ _ hne), sum_supermajority]
    have ha : wvalid "AvB" ["b", "a"] "a" BO = 1 := by decide
    have hb : valid "AvB" ["b", "a"] BO = 1 := by decide
    rw [ha, hb, hl]
    norm_num

def BW : List CVR := [card "1" [("a", .b true), ("zz", .b true)], card "2" [("b", .b true)]]

/-- **witness of a region excluded from `margin_from_tally_super`**: `enforce_rules=True`, `n_winners=1` and a
card with one candidate mark plus a truthy mark for a name outside the candidate list: the tally skips
the card (`b:1`; margin (0 − 1)/2 = −1/2) while `has_one_vote` calls it a valid vote for `a`
(values 1, 0: mean 1/2, margin 0). -/
theorem witness_super_outside :
    findMarginFromTally .supermajority "a" ALL_OTHERS ["a", "b"] (1/2) BW.length (tally true 1 "AvB" BW)
      = .ok (XR.fin (-1/2)) ∧
    margin false "AvB" (supermajority "AvB" "a" ["b", "a"] (1/2)) BW = XR.fin 0 := by
  constructor
  · have ta : tallyGet (tally true 1 "AvB" BW) "a" = 0 := by decide
    have tb : tallyGet (tally true 1 "AvB" BW) "b" = 1 := by decide
    have hl : BW.length = 2 := rfl
    simp only [findMarginFromTally, NO_CANDIDATE, ALL_OTHERS, ta, tb, hl, pure, Except.pure, List.map_cons, List.map_nil,
      List.sum_cons, List.sum_nil]
    norm_num
    rw [if_neg (by decide)]
    congr 1
    show XR.div _ _ = _
    simp only [XR.div]
    norm_num
  · have hne : BW ≠ [] := by simp [BW]
    have hl : BW.length = 2 := rfl
    rw [margin_fin _ _ _ _ (mean_fin _ _ _ hne), sum_supermajority]
    have ha : wvalid "AvB" ["b", "a"] "a" BW = 1 := by decide
    have hb : valid "AvB" ["b", "a"] BW = 2 := by decide
    rw [ha, hb, hl]
    norm_num


-- ranges: the IRV assorters produce values (and raise TypeError on ranks of incomparable types)
example : neb "AvB" "a" "b" (card "1" [("a", .i 1), ("b", .i 2)]) = .ok 1 := by
  have h1 : rcvLfuncWo "AvB" "a" "b" (card "1" [("a", .i 1), ("b", .i 2)]) = .ok 0 := by decide
  have h2 : nebWinner "AvB" "a" (card "1" [("a", .i 1), ("b", .i 2)]) = 1 := by decide
  simp [neb, h1, h2, bind, Except.bind, pure, Except.pure]
example : nen "AvB" "a" "b" ["a", "b"] (card "1" [("a", .i 2), ("b", .i 1)]) = .ok 0 := by
  have h1 : rcvVoteforCand "AvB" "a" ["a", "b"] (card "1" [("a", .i 2), ("b", .i 1)]) = .ok 0 := by decide
  have h2 : rcvVoteforCand "AvB" "b" ["a", "b"] (card "1" [("a", .i 2), ("b", .i 1)]) = .ok 1 := by decide
  simp [nen, h1, h2, bind, Except.bind, pure, Except.pure]
example : neb "AvB" "a" "b" (card "1" [("a", .s "1"), ("b", .i 2)]) = .error .TypeError := by
  have h1 : rcvLfuncWo "AvB" "a" "b" (card "1" [("a", .s "1"), ("b", .i 2)]) = .error .TypeError := by decide
  simp [neb, h1, bind, Except.bind]

end Shangrla.C02
