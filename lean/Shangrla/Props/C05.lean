/-
  C05 — non-anticipation: the p-value after j draws depends only on those j draws.

  Theorems are about the definitions of `Shangrla.NM` (the literal model of `NonnegMean.py` that
  the driver executes).  Positions in vectors are 0-based: entry `j` is what is applied to
  observation `j+1`.

  * `estim_predictable_*`, `bet_predictable_*`: entry `j <= |x|` of the estimate / bet computed from
    `x ++ y` equals that computed from `x ++ z` (`y`, `z` non-empty): the parameter applied to
    observation `j+1` depends only on observations `1..j`.  `*_ok_*`: when the call raises.
  * `hist_prefix_*`: two samples sharing the head `x` and both continuing have p-value histories
    that agree in the first `|x|` entries.
  * `hist_truncate_*`: truncating `x ++ y` to `x` changes nothing before entry `|x|-1`; entry
    `|x|-1` changes only through the final-sample clamp (`terms[-1] = inf if Stot > N*t`), in which
    case it becomes 0.  For kk/km/kw/sprt nothing changes at all.
-/
import Shangrla.Lemmas.NMCausal

namespace Shangrla.C05
open Shangrla Shangrla.NM

/-! ### predictability of functions that may raise -/

/-- `StrictlyCausal` for a function that may raise: whenever both calls return -/
def StrictlyCausalE (f : List Rat → Except Err (List XR)) : Prop :=
  ∀ x y z l1 l2, y ≠ [] → z ≠ [] → f (x ++ y) = .ok l1 → f (x ++ z) = .ok l2 →
    l1.take (x.length + 1) = l2.take (x.length + 1)

/-- a returned vector is as long as the sample -/
def LenPresE (f : List Rat → Except Err (List XR)) : Prop :=
  ∀ x l, f x = .ok l → l.length = x.length

theorem scE_of_pure {f : List Rat → Except Err (List XR)} {fp : List Rat → List XR}
    (h : ∀ x l, f x = .ok l → l = fp x) (hs : StrictlyCausal fp) : StrictlyCausalE f := by
  intro x y z l1 l2 hy hz h1 h2
  rw [h _ _ h1, h _ _ h2]
  exact hs x y z hy hz

theorem lpE_of_pure {f : List Rat → Except Err (List XR)} {fp : List Rat → List XR}
    (h : ∀ x l, f x = .ok l → l = fp x) (hl : LenPres fp) : LenPresE f := by
  intro x l hx
  rw [h _ _ hx]
  exact hl x

theorem StrictlyCausalE.take_le {f : List Rat → Except Err (List XR)} (h : StrictlyCausalE f)
    {x y z : List Rat} {l1 l2 : List XR} (hy : y ≠ []) (hz : z ≠ []) (h1 : f (x ++ y) = .ok l1)
    (h2 : f (x ++ z) = .ok l2) (k : Nat) (hk : k ≤ x.length + 1) : l1.take k = l2.take k := by
  have := congrArg (List.take k) (h x y z l1 l2 hy hz h1 h2)
  rwa [List.take_take, List.take_take, Nat.min_eq_left hk] at this

/-- entry form: entries `0..|x|` exist and coincide -/
theorem StrictlyCausalE.entry {f : List Rat → Except Err (List XR)} (h : StrictlyCausalE f)
    (hl : LenPresE f) {x y z : List Rat} {l1 l2 : List XR} (hy : y ≠ []) (hz : z ≠ [])
    (h1 : f (x ++ y) = .ok l1) (h2 : f (x ++ z) = .ok l2) (j : Nat) (hj : j ≤ x.length) :
    ∃ v, l1[j]? = some v ∧ l2[j]? = some v := by
  have hlen : j < l1.length := by
    rw [hl _ _ h1, List.length_append]
    have := List.length_pos_iff.mpr hy
    omega
  have e := congrArg (fun l => l[j]?) (h x y z l1 l2 hy hz h1 h2)
  simp only [List.getElem?_take, Nat.lt_succ_of_le hj, if_true] at e
  exact ⟨l1[j], List.getElem?_eq_getElem hlen, by rw [← e]; exact List.getElem?_eq_getElem hlen⟩

/-- a predictable, length-preserving function is causal: the call on the head `x` returns the
first `|x|` entries of the call on `x ++ y` -/
theorem StrictlyCausalE.causal {f : List Rat → Except Err (List XR)} (h : StrictlyCausalE f)
    (hl : LenPresE f) {x y : List Rat} {e0 e1 : List XR} (hx : x ≠ []) (h0 : f x = .ok e0)
    (h1 : f (x ++ y) = .ok e1) : e1.take x.length = e0 := by
  by_cases hy : y = []
  · subst hy
    rw [List.append_nil] at h1
    rw [h0] at h1
    cases h1
    exact List.take_of_length_le (by rw [hl _ _ h0]; exact Nat.le_refl _)
  · rcases List.eq_nil_or_concat x with rfl | ⟨x', a, rfl⟩
    · exact absurd rfl hx
    · have e : x'.concat a ++ y = x' ++ ([a] ++ y) := by simp
      have e' : x'.concat a = x' ++ [a] := by simp
      rw [e] at h1
      rw [e'] at h0
      have := h x' ([a] ++ y) [a] e1 e0 (by simp) (by simp) h1 h0
      rw [e']
      simp only [List.length_append, List.length_cons, List.length_nil, Nat.zero_add]
      rw [this]
      exact List.take_of_length_le (by rw [hl _ _ h0]; simp)

/-! ### `sjm`: when it raises, what it returns -/

/-- the sample is non-empty and not longer than the population -/
def SizeOk (N : Option Nat) (x : List Rat) : Prop := x ≠ [] ∧ ∀ n, N = some n → x.length ≤ n

theorem sjm_of_sizeOk {N : Option Nat} {t : Rat} {x : List Rat} (h : SizeOk N x) :
    sjm N t x = .ok (prefixSums x, xsum x, nullMeansFrom N t 0 1 x) := by
  obtain ⟨h1, h2⟩ := h
  unfold sjm
  cases N with
  | none => simp [h1]
  | some n =>
    have := h2 n rfl
    simp [h1, Nat.not_lt.mpr this]

theorem sjm_error_of_not {N : Option Nat} {t : Rat} {x : List Rat} (h : ¬ SizeOk N x) :
    ∃ e, sjm N t x = .error e := by
  unfold sjm
  by_cases h1 : x = []
  · exact ⟨.index, by simp [h1]⟩
  · cases N with
    | none => exact absurd ⟨h1, by simp⟩ h
    | some n =>
      by_cases h2 : x.length ≤ n
      · exact absurd ⟨h1, by intro m hm; cases hm; exact h2⟩ h
      · exact ⟨.assertion, by simp [h1, Nat.lt_of_not_le h2]⟩

theorem sjm_ok_iff {N : Option Nat} {t : Rat} {x : List Rat} {r : List Rat × Rat × List Rat} :
    sjm N t x = .ok r ↔ SizeOk N x ∧ r = (prefixSums x, xsum x, nullMeansFrom N t 0 1 x) := by
  constructor
  · intro h
    by_cases hs : SizeOk N x
    · rw [sjm_of_sizeOk hs] at h
      exact ⟨hs, (Except.ok.inj h).symm⟩
    · obtain ⟨e, he⟩ := sjm_error_of_not (t := t) hs
      rw [he] at h; cases h
  · rintro ⟨hs, rfl⟩
    exact sjm_of_sizeOk hs

/-- whether `sjm` raises depends on the sample only through its length -/
theorem sizeOk_congr_length {N : Option Nat} {x x' : List Rat} (h : x.length = x'.length) :
    SizeOk N x ↔ SizeOk N x' := by
  unfold SizeOk
  rw [← List.length_pos_iff, ← List.length_pos_iff, h]

/-- two continuations of the same length raise together -/
theorem sizeOk_append_congr {N : Option Nat} (x : List Rat) {y z : List Rat} (h : y.length = z.length) :
    SizeOk N (x ++ y) ↔ SizeOk N (x ++ z) :=
  sizeOk_congr_length (by simp [h])

/-- ... and continuations of different lengths need not (population of 2: one more draw is fine,
two more are not) -/
example : SizeOk (some 2) ([1] ++ [1]) ∧ ¬ SizeOk (some 2) ([1] ++ [1, 1]) := by
  constructor
  · exact ⟨by simp, by intro n hn; cases hn; simp⟩
  · intro h
    have := h.2 2 rfl
    simp at this

/-! ### estimators -/

/-- what `fixed_alternative_mean` returns when it returns -/
def fixedAltPure (cfg : Cfg) (x : List Rat) : List XR :=
  (nullMeansFrom cfg.N (cfg.kw.eta.getD (cfg.u * (1 - eps))) 0 1 x).map
    (fun mj => XR.fin (if cfg.u < mj then cfg.u else mj))

theorem fixed_ok_iff (cfg : Cfg) (x : List Rat) (l : List XR) :
    fixedAlternativeMean cfg x = .ok l ↔ SizeOk cfg.N x ∧ l = fixedAltPure cfg x := by
  unfold fixedAlternativeMean
  dsimp only
  by_cases hs : SizeOk cfg.N x
  · rw [sjm_of_sizeOk hs]
    simp [hs, fixedAltPure, bind, Except.bind, pure, Except.pure, eq_comm]
  · obtain ⟨e, he⟩ := sjm_error_of_not (t := cfg.kw.eta.getD (cfg.u * (1 - eps))) hs
    rw [he]
    simp [hs, bind, Except.bind]

theorem sc_fixedAltPure (cfg : Cfg) : StrictlyCausal (fixedAltPure cfg) :=
  (strictlyCausal_nullMeansFrom _ _ _ _).map _

theorem lp_fixedAltPure (cfg : Cfg) : LenPres (fixedAltPure cfg) := fun x => by simp [fixedAltPure]

/-- what `shrink_trunc` returns when it returns -/
def shrinkPure (sqrtF : Rat → Rat) (cfg : Cfg) (x : List Rat) : List XR :=
  let u := cfg.u
  let eta := cfg.kw.eta.getD (u * (1 - eps))
  let c := cfg.kw.c.getD (1 / 2)
  let d := cfg.kw.d.getD 100
  let f := cfg.kw.f.getD 0
  let minsd := cfg.kw.minsd.getD (1 / 1000000)
  mapIdxFrom (fun j (row : Rat × Rat × XR) =>
    let (s, mj, sd) := row
    let dj : XR := .fin (d + (j : Rat) - 1)
    let weighted : XR := ((XR.fin (d * eta + s)) / dj + (XR.fin (u * f)) / sd) / ((1 : XR) + (XR.fin f) / sd)
    let lower : XR := (XR.fin mj) + (XR.fin c) / sqrtX sqrtF dj
    XR.npmin (.fin (u * (1 - eps))) (XR.npmax weighted lower)) 1
    ((prefixSums x).zip ((nullMeansFrom cfg.N cfg.t 0 1 x).zip
      (mapIdxFrom (fun i s => if i = 1 then (1 : XR) else s) 0
        (shiftIn (1 : XR) ((welford x).2.map (fun vi => XR.npmax (sqrtX sqrtF (.fin vi)) (.fin minsd)))))))

theorem shrink_ok_iff (sqrtF : Rat → Rat) (cfg : Cfg) (x : List Rat) (l : List XR) :
    shrinkTrunc sqrtF cfg x = .ok l ↔ SizeOk cfg.N x ∧ l = shrinkPure sqrtF cfg x := by
  unfold shrinkTrunc
  by_cases hs : SizeOk cfg.N x
  · rw [sjm_of_sizeOk hs]
    simp only [bind, Except.bind, pure, Except.pure, hs, true_and]
    constructor
    · intro h; exact (Except.ok.inj h).symm
    · intro h; rw [h]; rfl
  · obtain ⟨e, he⟩ := sjm_error_of_not (t := cfg.t) hs
    rw [he]
    simp [hs, bind, Except.bind]

/-- the running standard deviation is shifted by one before use (L313-318), the running sums and
null means exclude the current draw (L167-170) -/
theorem sc_shrinkPure (sqrtF : Rat → Rat) (cfg : Cfg) : StrictlyCausal (shrinkPure sqrtF cfg) := by
  unfold shrinkPure
  exact (strictlyCausal_prefixSums.zip ((strictlyCausal_nullMeansFrom _ _ _ _).zip
    (((causal_welford_snd.map _).shiftIn (lenPres_welford_snd.map _) _).mapIdxFrom _ 0))).mapIdxFrom _ 1

theorem lp_shrinkPure (sqrtF : Rat → Rat) (cfg : Cfg) : LenPres (shrinkPure sqrtF cfg) :=
  fun x => by simp [shrinkPure]

/-- what `optimal_comparison` returns when it returns -/
def optimalPure (cfg : Cfg) (x : List Rat) : List XR :=
  let u := cfg.u
  let p2 := cfg.kw.rateError2.getD (1 / 10000)
  let eta := (1 - u * (1 - p2)) / (2 - 2 * u) + u * (1 - p2) - 1 / 2
  let e1 := if 0 < eta then eta else 0
  let e2 := if e1 < u then e1 else u
  x.map (fun _ => XR.fin e2)

theorem optimal_ok_iff (cfg : Cfg) (x : List Rat) (l : List XR) :
    optimalComparison cfg x = .ok l ↔ 2 - 2 * cfg.u ≠ 0 ∧ l = optimalPure cfg x := by
  unfold optimalComparison
  dsimp only
  by_cases h : 2 - 2 * cfg.u = 0
  · simp [h]
  · rw [if_neg h]
    simp only [ne_eq, h, not_false_eq_true, true_and]
    constructor
    · intro h; exact (Except.ok.inj h).symm
    · intro h; rw [h]; rfl

theorem sc_optimalPure (cfg : Cfg) : StrictlyCausal (optimalPure cfg) := strictlyCausal_const _

theorem lp_optimalPure (cfg : Cfg) : LenPres (optimalPure cfg) := fun x => by simp [optimalPure]

/-! ### bets -/

/-- what `fixed_bet` returns when it returns -/
def fixedBetPure (cfg : Cfg) (x : List Rat) : List XR := x.map (fun _ => XR.fin (cfg.kw.lam.getD 0))

theorem fixedBet_ok_iff (cfg : Cfg) (x : List Rat) (l : List XR) :
    fixedBet cfg x = .ok l ↔ cfg.kw.lam ≠ none ∧ l = fixedBetPure cfg x := by
  unfold fixedBet fixedBetPure
  cases cfg.kw.lam with
  | none => simp
  | some lam => simp [eq_comm]

theorem sc_fixedBetPure (cfg : Cfg) : StrictlyCausal (fixedBetPure cfg) := strictlyCausal_const _

theorem lp_fixedBetPure (cfg : Cfg) : LenPres (fixedBetPure cfg) := fun x => by simp [fixedBetPure]

/-- the null mean before each draw as `agrapa` computes it (L415-417) -/
def tAdjPure (N : Option Nat) (t : Rat) (x : List Rat) : List XR :=
  match N with
  | none => x.map (fun _ => XR.fin t)
  | some n => mapIdxFrom (fun i s => (XR.fin ((n : Rat) * t - s)) / (XR.fin ((n : Rat) - (i : Rat)))) 0
      (prefixSums x)

theorem sc_tAdjPure (N : Option Nat) (t : Rat) : StrictlyCausal (tAdjPure N t) := by
  cases N with
  | none => exact strictlyCausal_const _
  | some n => exact strictlyCausal_prefixSums.mapIdxFrom _ 0

theorem causal_tAdjPure (N : Option Nat) (t : Rat) : Causal (tAdjPure N t) := by
  cases N with
  | none => exact causal_id.map _
  | some n => exact causal_prefixSums.mapIdxFrom _ 0

@[simp] theorem length_tAdjPure (N : Option Nat) (t : Rat) (x : List Rat) :
    (tAdjPure N t x).length = x.length := by
  cases N <;> simp [tAdjPure]

/-- what `agrapa` returns when it returns -/
def agrapaPure (sqrtF : Rat → Rat) (cfg : Cfg) (x : List Rat) : List XR :=
  let lam := cfg.kw.lam.getD (1 / 2)
  let c0 := cfg.kw.cG0.getD (1 - eps)
  let cm := cfg.kw.cGmax.getD (1 - eps)
  let cg := cfg.kw.cGgrow.getD 0
  mapIdxFrom (fun i (row : XR × XR) =>
      let (l, ta) := row
      let c : XR := (XR.fin c0) + (XR.fin (cm - c0)) *
        ((1 : XR) - (1 : XR) / ((1 : XR) + (XR.fin cg) * sqrtX sqrtF (.fin (i : Rat))))
      XR.npmax (0 : XR) (XR.npmin (c / ta) l)) 0
    ((shiftIn (XR.fin lam)
      (((welford x).1.zip ((welford x).2.zip (tAdjPure cfg.N cfg.t x))).map fun (mu, s2, ta) =>
        let r : XR := ((XR.fin mu) - ta) / ((XR.fin s2) + (ta - (XR.fin mu)) * (ta - (XR.fin mu)))
        if r.isNan then (0 : XR) else r)).zip (tAdjPure cfg.N cfg.t x))

theorem agrapa_ok_iff (sqrtF : Rat → Rat) (cfg : Cfg) (x : List Rat) (l : List XR) :
    agrapa sqrtF cfg x = .ok l ↔ x ≠ [] ∧ l = agrapaPure sqrtF cfg x := by
  unfold agrapa
  by_cases h : x = []
  · simp [h]
  · have h' : x.isEmpty = false := by simpa using h
    rw [h']
    simp only [Bool.false_eq_true, if_false, ne_eq, h, not_false_eq_true, true_and]
    constructor
    · intro h; exact (Except.ok.inj h).symm
    · intro h; rw [h]; rfl

/-- the running mean and variance are shifted by one before use (L422-431) -/
theorem sc_agrapaPure (sqrtF : Rat → Rat) (cfg : Cfg) : StrictlyCausal (agrapaPure sqrtF cfg) := by
  unfold agrapaPure
  exact ((((causal_welford_fst.zip (causal_welford_snd.zip (causal_tAdjPure _ _))).map _).shiftIn
    (fun x => by simp) _).zip (sc_tAdjPure _ _)).mapIdxFrom _ 0

theorem lp_agrapaPure (sqrtF : Rat → Rat) (cfg : Cfg) : LenPres (agrapaPure sqrtF cfg) :=
  fun x => by simp [agrapaPure]

/-! ### dispatch: every shipped estimator and bet is predictable -/

theorem estim_pure (sqrtF : Rat → Rat) (cfg : Cfg) (e : Estim) :
    ∃ fp, StrictlyCausal fp ∧ LenPres fp ∧ ∀ x l, estim sqrtF cfg e x = .ok l → l = fp x := by
  cases e with
  | fixedAlt => exact ⟨_, sc_fixedAltPure cfg, lp_fixedAltPure cfg, fun x l h => ((fixed_ok_iff cfg x l).1 h).2⟩
  | shrinkTrunc =>
    exact ⟨_, sc_shrinkPure sqrtF cfg, lp_shrinkPure sqrtF cfg, fun x l h => ((shrink_ok_iff sqrtF cfg x l).1 h).2⟩
  | optimalComparison =>
    exact ⟨_, sc_optimalPure cfg, lp_optimalPure cfg, fun x l h => ((optimal_ok_iff cfg x l).1 h).2⟩

theorem bet_pure (sqrtF : Rat → Rat) (cfg : Cfg) (b : Bet) :
    ∃ fp, StrictlyCausal fp ∧ LenPres fp ∧ ∀ x l, bet sqrtF cfg b x = .ok l → l = fp x := by
  cases b with
  | fixed => exact ⟨_, sc_fixedBetPure cfg, lp_fixedBetPure cfg, fun x l h => ((fixedBet_ok_iff cfg x l).1 h).2⟩
  | agrapa =>
    exact ⟨_, sc_agrapaPure sqrtF cfg, lp_agrapaPure sqrtF cfg, fun x l h => ((agrapa_ok_iff sqrtF cfg x l).1 h).2⟩

theorem scE_estim (sqrtF : Rat → Rat) (cfg : Cfg) (e : Estim) : StrictlyCausalE (estim sqrtF cfg e) := by
  obtain ⟨fp, h1, _, h3⟩ := estim_pure sqrtF cfg e
  exact scE_of_pure h3 h1

theorem lpE_estim (sqrtF : Rat → Rat) (cfg : Cfg) (e : Estim) : LenPresE (estim sqrtF cfg e) := by
  obtain ⟨fp, _, h2, h3⟩ := estim_pure sqrtF cfg e
  exact lpE_of_pure h3 h2

theorem scE_bet (sqrtF : Rat → Rat) (cfg : Cfg) (b : Bet) : StrictlyCausalE (bet sqrtF cfg b) := by
  obtain ⟨fp, h1, _, h3⟩ := bet_pure sqrtF cfg b
  exact scE_of_pure h3 h1

theorem lpE_bet (sqrtF : Rat → Rat) (cfg : Cfg) (b : Bet) : LenPresE (bet sqrtF cfg b) := by
  obtain ⟨fp, _, h2, h3⟩ := bet_pure sqrtF cfg b
  exact lpE_of_pure h3 h2

/-! ### C05, first part: the parameter applied to observation `j+1` depends only on observations `1..j` -/

/-- shared data of the non-vacuity examples: population of 5, `u = 1`, null mean `1/2` -/
def cfgEx : Cfg :=
  { N := some 5, u := 1, t := 1 / 2, randomOrder := true,
    kw := { eta := some (3 / 4), lam := some (1 / 2), d := some 10, g := some (1 / 10) } }

/-- the same with sampling with replacement -/
def cfgInf : Cfg := { cfgEx with N := none }

/-- the square root used in the examples (the theorems hold for every `sqrtF`) -/
def sqrtEx : Rat → Rat := fun q => q

def histOfRun (r : Except Err (XR × List XR)) : List XR :=
  match r with
  | .ok (_, h) => h
  | .error _ => []

def valOf (r : Except Err (List XR)) : List XR :=
  match r with
  | .ok l => l
  | .error _ => []

def isOk {α} : Except Err α → Bool
  | .ok _ => true
  | .error _ => false

instance {α} [DecidableEq α] : DecidableEq (Except Err α) := fun a b =>
  match a, b with
  | .ok x, .ok y => if h : x = y then isTrue (h ▸ rfl) else isFalse (fun e => h (Except.ok.inj e))
  | .error x, .error y => if h : x = y then isTrue (h ▸ rfl) else isFalse (fun e => h (Except.error.inj e))
  | .ok _, .error _ => isFalse (fun e => by cases e)
  | .error _, .ok _ => isFalse (fun e => by cases e)

theorem estim_predictable_fixed (cfg : Cfg) (x y z : List Rat) (hy : y ≠ []) (hz : z ≠ [])
    (l1 l2 : List XR) (h1 : fixedAlternativeMean cfg (x ++ y) = .ok l1)
    (h2 : fixedAlternativeMean cfg (x ++ z) = .ok l2) :
    l1.take (x.length + 1) = l2.take (x.length + 1) ∧
      ∀ j, j ≤ x.length → ∃ v, l1[j]? = some v ∧ l2[j]? = some v :=
  ⟨scE_estim (fun q => q) cfg .fixedAlt x y z l1 l2 hy hz h1 h2,
   (scE_estim (fun q => q) cfg .fixedAlt).entry (lpE_estim _ cfg .fixedAlt) hy hz h1 h2⟩

-- hypotheses are satisfiable; the tails differ (also in length) and the full vectors differ
example : isOk (fixedAlternativeMean cfgEx ([1, 0] ++ [1])) = true
    ∧ isOk (fixedAlternativeMean cfgEx ([1, 0] ++ [0, 1, 1])) = true
    ∧ (valOf (fixedAlternativeMean cfgEx ([1, 0] ++ [1, 1]))).take 4
        ≠ (valOf (fixedAlternativeMean cfgEx ([1, 0] ++ [0, 1, 1]))).take 4 := by decide +kernel

/-- `fixed_alternative_mean` raises iff `sjm` does: empty sample, or sample longer than the population -/
theorem estim_ok_fixed (cfg : Cfg) (x : List Rat) :
    (∃ l, fixedAlternativeMean cfg x = .ok l) ↔ SizeOk cfg.N x :=
  ⟨fun ⟨l, h⟩ => ((fixed_ok_iff cfg x l).1 h).1, fun h => ⟨_, (fixed_ok_iff cfg x _).2 ⟨h, rfl⟩⟩⟩

theorem estim_predictable_shrink (sqrtF : Rat → Rat) (cfg : Cfg) (x y z : List Rat) (hy : y ≠ [])
    (hz : z ≠ []) (l1 l2 : List XR) (h1 : shrinkTrunc sqrtF cfg (x ++ y) = .ok l1)
    (h2 : shrinkTrunc sqrtF cfg (x ++ z) = .ok l2) :
    l1.take (x.length + 1) = l2.take (x.length + 1) ∧
      ∀ j, j ≤ x.length → ∃ v, l1[j]? = some v ∧ l2[j]? = some v :=
  ⟨scE_estim sqrtF cfg .shrinkTrunc x y z l1 l2 hy hz h1 h2,
   (scE_estim sqrtF cfg .shrinkTrunc).entry (lpE_estim sqrtF cfg .shrinkTrunc) hy hz h1 h2⟩

example : isOk (shrinkTrunc sqrtEx cfgEx ([1, 0] ++ [1, 1])) = true
    ∧ isOk (shrinkTrunc sqrtEx cfgEx ([1, 0] ++ [0, 1, 1])) = true
    ∧ (valOf (shrinkTrunc sqrtEx cfgEx ([1, 0] ++ [1, 1]))).take 4
        ≠ (valOf (shrinkTrunc sqrtEx cfgEx ([1, 0] ++ [0, 1, 1]))).take 4 := by decide +kernel

/-- `shrink_trunc` raises iff `sjm` does -/
theorem estim_ok_shrink (sqrtF : Rat → Rat) (cfg : Cfg) (x : List Rat) :
    (∃ l, shrinkTrunc sqrtF cfg x = .ok l) ↔ SizeOk cfg.N x :=
  ⟨fun ⟨l, h⟩ => ((shrink_ok_iff sqrtF cfg x l).1 h).1, fun h => ⟨_, (shrink_ok_iff sqrtF cfg x _).2 ⟨h, rfl⟩⟩⟩

theorem estim_predictable_optimal (cfg : Cfg) (x y z : List Rat) (hy : y ≠ []) (hz : z ≠ [])
    (l1 l2 : List XR) (h1 : optimalComparison cfg (x ++ y) = .ok l1)
    (h2 : optimalComparison cfg (x ++ z) = .ok l2) :
    l1.take (x.length + 1) = l2.take (x.length + 1) ∧
      ∀ j, j ≤ x.length → ∃ v, l1[j]? = some v ∧ l2[j]? = some v :=
  ⟨scE_estim (fun q => q) cfg .optimalComparison x y z l1 l2 hy hz h1 h2,
   (scE_estim (fun q => q) cfg .optimalComparison).entry (lpE_estim _ cfg .optimalComparison) hy hz h1 h2⟩

example : isOk (optimalComparison { cfgEx with u := 3 / 2 } ([1, 0] ++ [1])) = true
    ∧ isOk (optimalComparison { cfgEx with u := 3 / 2 } ([1, 0] ++ [0, 1, 1])) = true := by decide +kernel

/-- `optimal_comparison` raises iff `u = 1` (`ZeroDivisionError`), whatever the sample -/
theorem estim_ok_optimal (cfg : Cfg) (x : List Rat) :
    (∃ l, optimalComparison cfg x = .ok l) ↔ 2 - 2 * cfg.u ≠ 0 :=
  ⟨fun ⟨l, h⟩ => ((optimal_ok_iff cfg x l).1 h).1, fun h => ⟨_, (optimal_ok_iff cfg x _).2 ⟨h, rfl⟩⟩⟩

theorem bet_predictable_fixed (cfg : Cfg) (x y z : List Rat) (hy : y ≠ []) (hz : z ≠ [])
    (l1 l2 : List XR) (h1 : fixedBet cfg (x ++ y) = .ok l1) (h2 : fixedBet cfg (x ++ z) = .ok l2) :
    l1.take (x.length + 1) = l2.take (x.length + 1) ∧
      ∀ j, j ≤ x.length → ∃ v, l1[j]? = some v ∧ l2[j]? = some v :=
  ⟨scE_bet (fun q => q) cfg .fixed x y z l1 l2 hy hz h1 h2,
   (scE_bet (fun q => q) cfg .fixed).entry (lpE_bet _ cfg .fixed) hy hz h1 h2⟩

example : isOk (fixedBet cfgEx ([1, 0] ++ [1])) = true
    ∧ isOk (fixedBet cfgEx ([1, 0] ++ [0, 1, 1])) = true := by decide +kernel

/-- `fixed_bet` raises iff no `lam` was given, whatever the sample -/
theorem bet_ok_fixed (cfg : Cfg) (x : List Rat) :
    (∃ l, fixedBet cfg x = .ok l) ↔ cfg.kw.lam ≠ none :=
  ⟨fun ⟨l, h⟩ => ((fixedBet_ok_iff cfg x l).1 h).1, fun h => ⟨_, (fixedBet_ok_iff cfg x _).2 ⟨h, rfl⟩⟩⟩

theorem bet_predictable_agrapa (sqrtF : Rat → Rat) (cfg : Cfg) (x y z : List Rat) (hy : y ≠ [])
    (hz : z ≠ []) (l1 l2 : List XR) (h1 : agrapa sqrtF cfg (x ++ y) = .ok l1)
    (h2 : agrapa sqrtF cfg (x ++ z) = .ok l2) :
    l1.take (x.length + 1) = l2.take (x.length + 1) ∧
      ∀ j, j ≤ x.length → ∃ v, l1[j]? = some v ∧ l2[j]? = some v :=
  ⟨scE_bet sqrtF cfg .agrapa x y z l1 l2 hy hz h1 h2,
   (scE_bet sqrtF cfg .agrapa).entry (lpE_bet sqrtF cfg .agrapa) hy hz h1 h2⟩

example : isOk (agrapa sqrtEx cfgEx ([1, 0] ++ [1, 1])) = true
    ∧ isOk (agrapa sqrtEx cfgEx ([1, 0] ++ [0, 1, 1])) = true
    ∧ (valOf (agrapa sqrtEx cfgEx ([1, 0] ++ [1, 1]))).take 4
        ≠ (valOf (agrapa sqrtEx cfgEx ([1, 0] ++ [0, 1, 1]))).take 4 := by decide +kernel

/-- `agrapa` raises iff the sample is empty (it never looks at `N` to reject a long sample) -/
theorem bet_ok_agrapa (sqrtF : Rat → Rat) (cfg : Cfg) (x : List Rat) :
    (∃ l, agrapa sqrtF cfg x = .ok l) ↔ x ≠ [] :=
  ⟨fun ⟨l, h⟩ => ((agrapa_ok_iff sqrtF cfg x l).1 h).1, fun h => ⟨_, (agrapa_ok_iff sqrtF cfg x _).2 ⟨h, rfl⟩⟩⟩

/-- summary of the error behaviour: for every shipped estimator and bet, whether the call raises
depends on the sample only through its length, so two continuations of the same length raise
together; continuations of different lengths can differ only through `sjm`'s
"Sample size is larger than the population!" (see the `example` after `sizeOk_append_congr`). -/
theorem estim_ok_congr (sqrtF : Rat → Rat) (cfg : Cfg) (e : Estim) (x y z : List Rat)
    (h : y.length = z.length) :
    (∃ l, estim sqrtF cfg e (x ++ y) = .ok l) ↔ (∃ l, estim sqrtF cfg e (x ++ z) = .ok l) := by
  cases e with
  | fixedAlt =>
    show (∃ l, fixedAlternativeMean cfg _ = _) ↔ (∃ l, fixedAlternativeMean cfg _ = _)
    rw [estim_ok_fixed, estim_ok_fixed]; exact sizeOk_append_congr x h
  | shrinkTrunc =>
    show (∃ l, shrinkTrunc sqrtF cfg _ = _) ↔ (∃ l, shrinkTrunc sqrtF cfg _ = _)
    rw [estim_ok_shrink, estim_ok_shrink]; exact sizeOk_append_congr x h
  | optimalComparison =>
    show (∃ l, optimalComparison cfg _ = _) ↔ (∃ l, optimalComparison cfg _ = _)
    rw [estim_ok_optimal, estim_ok_optimal]

theorem bet_ok_congr (sqrtF : Rat → Rat) (cfg : Cfg) (b : Bet) (x y z : List Rat)
    (h : y.length = z.length) :
    (∃ l, bet sqrtF cfg b (x ++ y) = .ok l) ↔ (∃ l, bet sqrtF cfg b (x ++ z) = .ok l) := by
  cases b with
  | fixed =>
    show (∃ l, fixedBet cfg _ = _) ↔ (∃ l, fixedBet cfg _ = _)
    rw [bet_ok_fixed, bet_ok_fixed]
  | agrapa =>
    show (∃ l, agrapa sqrtF cfg _ = _) ↔ (∃ l, agrapa sqrtF cfg _ = _)
    rw [bet_ok_agrapa, bet_ok_agrapa, ← List.length_pos_iff, ← List.length_pos_iff]
    simp [h]

/-! ### C05, second part: histories.  Building blocks of `alpha_mart` / `betting_mart` -/

/-- `np.minimum(1, 1/terms)` -/
def histOf (terms : List XR) : List XR := terms.map (fun T => XR.npmin (1 : XR) ((1 : XR) / T))

/-- the boolean-mask assignments L129-135 -/
def masked (cfg : Cfg) (m : List Rat) (terms : List XR) : List XR :=
  (m.zip terms).map (fun (mj, T) => maskTerm cfg.u cfg.atol cfg.rtol mj T)

def alphaFactors (cfg : Cfg) (x m : List Rat) (eta0 : List XR) : List XR :=
  (x.zip (((eta0.zip m).map (fun (e, mj) => XR.npmin (.fin cfg.u) (XR.npmax e (.fin mj)))).zip m)).map
    fun (xj, e, mj) =>
      ((XR.fin xj) * e / (XR.fin mj) + (XR.fin (cfg.u - xj)) * ((XR.fin cfg.u) - e) / (XR.fin (cfg.u - mj)))
        / (XR.fin cfg.u)

/-- the masked running product of `alpha_mart` before the final-sample clamp -/
def alphaMasked (cfg : Cfg) (x m : List Rat) (eta0 : List XR) : List XR :=
  masked cfg m (XR.cumprod (alphaFactors cfg x m eta0))

def bettingFactors (x m : List Rat) (lam : List XR) : List XR :=
  (x.zip (lam.zip m)).map fun (xj, l, mj) => (1 : XR) + l * (XR.fin (xj - mj))

/-- the masked running product of `betting_mart` before the final-sample clamp -/
def bettingMasked (cfg : Cfg) (x m : List Rat) (lam : List XR) : List XR :=
  masked cfg m (XR.cumprod (bettingFactors x m lam))

/-- the final-sample clamp fires on the sample `x`: `Stot > N*t` -/
def Clamped (cfg : Cfg) (x : List Rat) : Prop := ∃ n, cfg.N = some n ∧ (n : Rat) * cfg.t < xsum x

/-- shape shared by `alpha_mart` and `betting_mart`: when the test `T` returns, `sjm` and the
estimator/bet `par` returned, and the history is `histOf (clampLast … (M x m par(x)))` -/
def MartSpec (cfg : Cfg) (par : List Rat → Except Err (List XR))
    (M : List Rat → List Rat → List XR → List XR) (T : List Rat → Except Err (XR × List XR)) : Prop :=
  ∀ x p h, T x = .ok (p, h) → SizeOk cfg.N x ∧ ∃ e, par x = .ok e ∧
    h = histOf (clampLast cfg.N cfg.t (xsum x) (M x (nullMeansFrom cfg.N cfg.t 0 1 x) e))

def TakeComm3 (M : List Rat → List Rat → List XR → List XR) : Prop :=
  ∀ x m e k, (M x m e).take k = M (x.take k) (m.take k) (e.take k)

def Len3 (M : List Rat → List Rat → List XR → List XR) : Prop :=
  ∀ x m e, m.length = x.length → e.length = x.length → (M x m e).length = x.length

theorem histOf_take (L : List XR) (k : Nat) : (histOf L).take k = histOf (L.take k) := by
  unfold histOf; rw [List.map_take]

@[simp] theorem length_histOf (L : List XR) : (histOf L).length = L.length := by simp [histOf]

theorem histOf_append (A B : List XR) : histOf (A ++ B) = histOf A ++ histOf B := by simp [histOf]

/-- `min(1, 1/inf) = 0` -/
theorem histOf_pinf : histOf [XR.pinf] = [XR.fin 0] := by decide +kernel

theorem masked_take (cfg : Cfg) (m : List Rat) (T : List XR) (k : Nat) :
    (masked cfg m T).take k = masked cfg (m.take k) (T.take k) := by
  simp only [masked, ← List.map_take, take_zip]

theorem alphaFactors_take (cfg : Cfg) (x m : List Rat) (e : List XR) (k : Nat) :
    (alphaFactors cfg x m e).take k = alphaFactors cfg (x.take k) (m.take k) (e.take k) := by
  simp only [alphaFactors, ← List.map_take, take_zip]

theorem alphaMasked_take (cfg : Cfg) : TakeComm3 (alphaMasked cfg) := by
  intro x m e k
  simp only [alphaMasked, masked_take, cumprod_take, alphaFactors_take]

theorem length_alphaMasked (cfg : Cfg) : Len3 (alphaMasked cfg) := by
  intro x m e hm he
  simp [alphaMasked, masked, alphaFactors, hm, he]

theorem bettingFactors_take (x m : List Rat) (e : List XR) (k : Nat) :
    (bettingFactors x m e).take k = bettingFactors (x.take k) (m.take k) (e.take k) := by
  simp only [bettingFactors, ← List.map_take, take_zip]

theorem bettingMasked_take (cfg : Cfg) : TakeComm3 (bettingMasked cfg) := by
  intro x m e k
  simp only [bettingMasked, masked_take, cumprod_take, bettingFactors_take]

theorem length_bettingMasked (cfg : Cfg) : Len3 (bettingMasked cfg) := by
  intro x m e hm he
  simp [bettingMasked, masked, bettingFactors, hm, he]

theorem alphaMart_spec (cfg : Cfg) (estim : List Rat → Except Err (List XR)) :
    MartSpec cfg estim (alphaMasked cfg) (alphaMart cfg estim) := by
  intro x p h H
  unfold alphaMart alphaTerms at H
  dsimp only at H
  by_cases hs : SizeOk cfg.N x
  · rw [sjm_of_sizeOk hs] at H
    cases he : estim x with
    | error e => rw [he] at H; cases H
    | ok e =>
      rw [he] at H
      exact ⟨hs, e, rfl, (congrArg Prod.snd (Except.ok.inj H)).symm⟩
  · obtain ⟨e, he⟩ := sjm_error_of_not (t := cfg.t) hs
    rw [he] at H; cases H

theorem bettingMart_spec (cfg : Cfg) (bet : List Rat → Except Err (List XR)) :
    MartSpec cfg bet (bettingMasked cfg) (bettingMart cfg bet) := by
  intro x p h H
  unfold bettingMart bettingTerms at H
  dsimp only at H
  by_cases hs : SizeOk cfg.N x
  · rw [sjm_of_sizeOk hs] at H
    cases he : bet x with
    | error e => rw [he] at H; cases H
    | ok e =>
      rw [he] at H
      exact ⟨hs, e, rfl, (congrArg Prod.snd (Except.ok.inj H)).symm⟩
  · obtain ⟨e, he⟩ := sjm_error_of_not (t := cfg.t) hs
    rw [he] at H; cases H

/-! #### the final-sample clamp touches the last entry only -/

theorem clampLast_eq_or (N : Option Nat) (t S : Rat) (L : List XR) :
    clampLast N t S L = L ∨ clampLast N t S L = L.dropLast ++ [XR.pinf] := by
  unfold clampLast
  cases N with
  | none => exact Or.inl rfl
  | some n =>
    dsimp only
    split
    · exact Or.inr rfl
    · exact Or.inl rfl

theorem clampLast_take {N : Option Nat} {t S : Rat} {L : List XR} {k : Nat} (h : k < L.length) :
    (clampLast N t S L).take k = L.take k := by
  rcases clampLast_eq_or N t S L with e | e <;> rw [e]
  rw [List.take_append_of_le_length (by rw [List.length_dropLast]; omega), List.dropLast_eq_take,
    List.take_take, Nat.min_eq_left (by omega)]

theorem length_clampLast {N : Option Nat} {t S : Rat} {L : List XR} (h : L ≠ []) :
    (clampLast N t S L).length = L.length := by
  rcases clampLast_eq_or N t S L with e | e <;> rw [e]
  have := List.length_pos_iff.mpr h
  simp only [List.length_append, List.length_dropLast, List.length_cons, List.length_nil]
  omega

theorem clampLast_of_not {N : Option Nat} {t S : Rat} {L : List XR}
    (h : ¬ ∃ n, N = some n ∧ (n : Rat) * t < S) : clampLast N t S L = L := by
  unfold clampLast
  cases N with
  | none => rfl
  | some n =>
    dsimp only
    rw [if_neg]
    intro hlt
    exact h ⟨n, rfl, hlt⟩

theorem clampLast_of {N : Option Nat} {t S : Rat} {L : List XR} {n : Nat} (hN : N = some n)
    (h : (n : Rat) * t < S) : clampLast N t S L = L.dropLast ++ [XR.pinf] := by
  subst hN
  unfold clampLast
  dsimp only
  rw [if_pos h]

theorem le_self_of_zero_le {b : XR} (h : XR.le (XR.fin 0) b = true) : XR.le b b = true := by
  cases b with
  | fin q => exact decide_eq_true (Rat.le_refl)
  | pinf => rfl
  | ninf => rfl
  | nan => cases h

/-! #### generic theorems for a test of the `MartSpec` shape -/

section mart
variable {cfg : Cfg} {par : List Rat → Except Err (List XR)}
  {M : List Rat → List Rat → List XR → List XR} {T : List Rat → Except Err (XR × List XR)}

theorem mart_length (hT : MartSpec cfg par M T) (hMl : Len3 M) (hl : LenPresE par)
    {x : List Rat} {p : XR} {h : List XR} (H : T x = .ok (p, h)) : h.length = x.length := by
  obtain ⟨hs, e, he, rfl⟩ := hT _ _ _ H
  have hL : (M x (nullMeansFrom cfg.N cfg.t 0 1 x) e).length = x.length :=
    hMl _ _ _ (by simp) (hl _ _ he)
  rw [length_histOf, length_clampLast, hL]
  intro h0
  rw [h0] at hL
  exact hs.1 (List.eq_nil_of_length_eq_zero hL.symm)

theorem mart_prefix (hT : MartSpec cfg par M T) (hMt : TakeComm3 M) (hMl : Len3 M)
    (hsc : StrictlyCausalE par) (hl : LenPresE par) {x y z : List Rat} (hy : y ≠ []) (hz : z ≠ [])
    {p1 p2 : XR} {h1 h2 : List XR} (H1 : T (x ++ y) = .ok (p1, h1)) (H2 : T (x ++ z) = .ok (p2, h2)) :
    h1.take x.length = h2.take x.length := by
  obtain ⟨-, e1, he1, rfl⟩ := hT _ _ _ H1
  obtain ⟨-, e2, he2, rfl⟩ := hT _ _ _ H2
  have hy' := List.length_pos_iff.mpr hy
  have hz' := List.length_pos_iff.mpr hz
  have hL1 : x.length < (M (x ++ y) (nullMeansFrom cfg.N cfg.t 0 1 (x ++ y)) e1).length := by
    rw [hMl _ _ _ (by simp) (hl _ _ he1), List.length_append]; omega
  have hL2 : x.length < (M (x ++ z) (nullMeansFrom cfg.N cfg.t 0 1 (x ++ z)) e2).length := by
    rw [hMl _ _ _ (by simp) (hl _ _ he2), List.length_append]; omega
  rw [histOf_take, histOf_take, clampLast_take hL1, clampLast_take hL2, hMt, hMt,
    nullMeansFrom_take, nullMeansFrom_take, List.take_left, List.take_left,
    hsc.take_le hy hz he1 he2 x.length (by omega)]

theorem mart_truncate (hT : MartSpec cfg par M T) (hMt : TakeComm3 M) (hMl : Len3 M)
    (hsc : StrictlyCausalE par) (hl : LenPresE par) {x y : List Rat}
    {p0 p1 : XR} {h0 h1 : List XR} (H0 : T x = .ok (p0, h0)) (H1 : T (x ++ y) = .ok (p1, h1)) :
    h0.take (x.length - 1) = h1.take (x.length - 1) ∧
    (¬ Clamped cfg x → h0 = h1.take x.length) ∧
    (h0[x.length - 1]? = h1[x.length - 1]? ∨ (Clamped cfg x ∧ h0[x.length - 1]? = some (XR.fin 0))) ∧
    (∀ a b, h0[x.length - 1]? = some a → h1[x.length - 1]? = some b →
      XR.le (XR.fin 0) b = true → XR.le a b = true) := by
  have hlen0 := mart_length hT hMl hl H0
  -- (c) implies (d)
  have hd : (h0[x.length - 1]? = h1[x.length - 1]? ∨ (Clamped cfg x ∧ h0[x.length - 1]? = some (XR.fin 0))) →
      (∀ a b, h0[x.length - 1]? = some a → h1[x.length - 1]? = some b →
        XR.le (XR.fin 0) b = true → XR.le a b = true) := by
    intro hc a b ha hb hle
    rcases hc with e | ⟨_, e⟩
    · rw [e, hb] at ha
      cases ha
      exact le_self_of_zero_le hle
    · rw [e] at ha
      cases ha
      exact hle
  by_cases hy : y = []
  · subst hy
    rw [List.append_nil] at H1
    have e : h0 = h1 := by
      have := H0.symm.trans H1
      cases this; rfl
    subst e
    have ht : h0.take x.length = h0 := List.take_of_length_le (by omega)
    exact ⟨rfl, fun _ => ht.symm, Or.inl rfl, hd (Or.inl rfl)⟩
  · obtain ⟨hs0, e0, he0, rfl⟩ := hT _ _ _ H0
    obtain ⟨-, e1, he1, rfl⟩ := hT _ _ _ H1
    have hx : x ≠ [] := hs0.1
    have hxpos : 0 < x.length := List.length_pos_iff.mpr hx
    have hypos : 0 < y.length := List.length_pos_iff.mpr hy
    have hL0 : (M x (nullMeansFrom cfg.N cfg.t 0 1 x) e0).length = x.length :=
      hMl _ _ _ (by simp) (hl _ _ he0)
    have hL1 : x.length < (M (x ++ y) (nullMeansFrom cfg.N cfg.t 0 1 (x ++ y)) e1).length := by
      rw [hMl _ _ _ (by simp) (hl _ _ he1), List.length_append]; omega
    have hkey : (M (x ++ y) (nullMeansFrom cfg.N cfg.t 0 1 (x ++ y)) e1).take x.length
        = M x (nullMeansFrom cfg.N cfg.t 0 1 x) e0 := by
      rw [hMt, nullMeansFrom_take, List.take_left, hsc.causal hl hx he0 he1]
    have hA : (histOf (clampLast cfg.N cfg.t (xsum (x ++ y))
          (M (x ++ y) (nullMeansFrom cfg.N cfg.t 0 1 (x ++ y)) e1))).take x.length
        = histOf (M x (nullMeansFrom cfg.N cfg.t 0 1 x) e0) := by
      rw [histOf_take, clampLast_take hL1, hkey]
    generalize histOf (clampLast cfg.N cfg.t (xsum (x ++ y))
      (M (x ++ y) (nullMeansFrom cfg.N cfg.t 0 1 (x ++ y)) e1)) = h1 at hA hd ⊢
    generalize M x (nullMeansFrom cfg.N cfg.t 0 1 x) e0 = L0 at hA hL0 hd hlen0 ⊢
    have hc : (histOf (clampLast cfg.N cfg.t (xsum x) L0))[x.length - 1]? = h1[x.length - 1]? ∨
        (Clamped cfg x ∧ (histOf (clampLast cfg.N cfg.t (xsum x) L0))[x.length - 1]? = some (XR.fin 0)) := by
      by_cases hcl : Clamped cfg x
      · right
        refine ⟨hcl, ?_⟩
        obtain ⟨n, hN, hlt⟩ := hcl
        rw [clampLast_of hN hlt, histOf_append, histOf_pinf]
        have : x.length - 1 = (histOf L0.dropLast).length := by
          rw [length_histOf, List.length_dropLast, hL0]
        rw [this]
        exact List.getElem?_concat_length
      · left
        rw [clampLast_of_not hcl]
        have := congrArg (fun l => l[x.length - 1]?) hA
        simp only [List.getElem?_take] at this
        rw [if_pos (by omega)] at this
        exact this.symm
    refine ⟨?_, ?_, hc, hd hc⟩
    · rw [histOf_take, clampLast_take (by omega)]
      have := congrArg (List.take (x.length - 1)) hA
      rw [List.take_take, Nat.min_eq_left (by omega)] at this
      rw [this, histOf_take]
    · intro hcl
      rw [clampLast_of_not hcl, hA]

end mart

/-- shape of the tests without a clamp: the history is a causal function of the sample -/
theorem causal_prefix {T : List Rat → Except Err (XR × List XR)} {Hf : List Rat → List XR}
    (hT : ∀ x p h, T x = .ok (p, h) → h = Hf x) (hc : Causal Hf) {x y z : List Rat}
    {p1 p2 : XR} {h1 h2 : List XR} (H1 : T (x ++ y) = .ok (p1, h1)) (H2 : T (x ++ z) = .ok (p2, h2)) :
    h1.take x.length = h2.take x.length := by
  rw [hT _ _ _ H1, hT _ _ _ H2, hc, hc]

theorem causal_truncate {T : List Rat → Except Err (XR × List XR)} {Hf : List Rat → List XR}
    (hT : ∀ x p h, T x = .ok (p, h) → h = Hf x) (hc : Causal Hf) {x y : List Rat}
    {p0 p1 : XR} {h0 h1 : List XR} (H0 : T x = .ok (p0, h0)) (H1 : T (x ++ y) = .ok (p1, h1)) :
    h0 = h1.take x.length := by
  rw [hT _ _ _ H0, hT _ _ _ H1, hc]

/-! ### `alpha_mart` -/

/-- two samples sharing the head `x` and both continuing: the first `|x|` p-values agree.
For an arbitrary estimator that is predictable (`StrictlyCausalE`) and returns one value per
observation (`LenPresE`; numpy would refuse to broadcast anything else). -/
theorem hist_prefix_alpha (cfg : Cfg) (estim : List Rat → Except Err (List XR))
    (hsc : StrictlyCausalE estim) (hl : LenPresE estim) (x y z : List Rat) (hy : y ≠ []) (hz : z ≠ [])
    (p1 p2 : XR) (h1 h2 : List XR) (H1 : alphaMart cfg estim (x ++ y) = .ok (p1, h1))
    (H2 : alphaMart cfg estim (x ++ z) = .ok (p2, h2)) : h1.take x.length = h2.take x.length :=
  mart_prefix (alphaMart_spec cfg estim) (alphaMasked_take cfg) (length_alphaMasked cfg) hsc hl hy hz H1 H2

/-- the same for the shipped estimators, through `run` -/
theorem hist_prefix_alpha_run (sqrtF : Rat → Rat) (cfg : Cfg) (e : Estim) (x y z : List Rat)
    (hy : y ≠ []) (hz : z ≠ []) (p1 p2 : XR) (h1 h2 : List XR)
    (H1 : run sqrtF cfg (.alpha e) (x ++ y) = .ok (p1, h1))
    (H2 : run sqrtF cfg (.alpha e) (x ++ z) = .ok (p2, h2)) : h1.take x.length = h2.take x.length :=
  hist_prefix_alpha cfg _ (scE_estim sqrtF cfg e) (lpE_estim sqrtF cfg e) x y z hy hz p1 p2 h1 h2 H1 H2

example : isOk (run sqrtEx cfgEx (.alpha .shrinkTrunc) ([1, 1] ++ [1, 0])) = true
    ∧ isOk (run sqrtEx cfgEx (.alpha .shrinkTrunc) ([1, 1] ++ [0, 1, 1])) = true
    ∧ histOfRun (run sqrtEx cfgEx (.alpha .shrinkTrunc) ([1, 1] ++ [1, 0])) = [2 / 3, 11 / 34, 22 / 323, 0]
    ∧ (histOfRun (run sqrtEx cfgEx (.alpha .shrinkTrunc) ([1, 1] ++ [0, 1, 1]))).take 4
        ≠ histOfRun (run sqrtEx cfgEx (.alpha .shrinkTrunc) ([1, 1] ++ [1, 0])) := by decide +kernel

/-- truncation (`_partial`: see `hist_truncate_alpha_full` below for the part that is false).
Truncating `x ++ y` to `x`: (1) entries before the last are unchanged; (2) if the clamp does not
fire on `x` (`¬ N*t < Σx`) the whole history of `x` is the prefix of that of `x ++ y`; (3) the last
entry is unchanged or the clamp fired and it became `0`; (4) hence it is `≤` the corresponding entry
of the longer sample whenever that entry is a number `≥ 0` (which is what C11/C12 establish under
their hypotheses on the configuration). -/
theorem hist_truncate_alpha_partial (cfg : Cfg) (estim : List Rat → Except Err (List XR))
    (hsc : StrictlyCausalE estim) (hl : LenPresE estim) (x y : List Rat)
    (p0 p1 : XR) (h0 h1 : List XR) (H0 : alphaMart cfg estim x = .ok (p0, h0))
    (H1 : alphaMart cfg estim (x ++ y) = .ok (p1, h1)) :
    h0.take (x.length - 1) = h1.take (x.length - 1) ∧
    (¬ Clamped cfg x → h0 = h1.take x.length) ∧
    (h0[x.length - 1]? = h1[x.length - 1]? ∨ (Clamped cfg x ∧ h0[x.length - 1]? = some (XR.fin 0))) ∧
    (∀ a b, h0[x.length - 1]? = some a → h1[x.length - 1]? = some b →
      XR.le (XR.fin 0) b = true → XR.le a b = true) :=
  mart_truncate (alphaMart_spec cfg estim) (alphaMasked_take cfg) (length_alphaMasked cfg) hsc hl H0 H1

/-- the histories have one entry per observation (so the entries named above exist) -/
theorem hist_length_alpha (cfg : Cfg) (estim : List Rat → Except Err (List XR)) (hl : LenPresE estim)
    (x : List Rat) (p : XR) (h : List XR) (H : alphaMart cfg estim x = .ok (p, h)) :
    h.length = x.length :=
  mart_length (alphaMart_spec cfg estim) (length_alphaMasked cfg) hl H

theorem hist_truncate_alpha_run_partial (sqrtF : Rat → Rat) (cfg : Cfg) (e : Estim) (x y : List Rat)
    (p0 p1 : XR) (h0 h1 : List XR) (H0 : run sqrtF cfg (.alpha e) x = .ok (p0, h0))
    (H1 : run sqrtF cfg (.alpha e) (x ++ y) = .ok (p1, h1)) :
    h0.length = x.length ∧ h1.length = x.length + y.length ∧
    h0.take (x.length - 1) = h1.take (x.length - 1) ∧
    (¬ Clamped cfg x → h0 = h1.take x.length) ∧
    (h0[x.length - 1]? = h1[x.length - 1]? ∨ (Clamped cfg x ∧ h0[x.length - 1]? = some (XR.fin 0))) ∧
    (∀ a b, h0[x.length - 1]? = some a → h1[x.length - 1]? = some b →
      XR.le (XR.fin 0) b = true → XR.le a b = true) :=
  ⟨hist_length_alpha cfg _ (lpE_estim sqrtF cfg e) x p0 h0 H0,
   by rw [hist_length_alpha cfg _ (lpE_estim sqrtF cfg e) _ p1 h1 H1, List.length_append],
   hist_truncate_alpha_partial cfg _ (scE_estim sqrtF cfg e) (lpE_estim sqrtF cfg e) x y p0 p1 h0 h1 H0 H1⟩

-- the clamp fires on x = [1,1,1] (Σx = 3 > 5/2 = N t): entry 2 drops from 22/323 to 0
example : run sqrtEx cfgEx (.alpha .shrinkTrunc) [1, 1, 1] = .ok (0, [2 / 3, 11 / 34, 0])
    ∧ run sqrtEx cfgEx (.alpha .shrinkTrunc) ([1, 1, 1] ++ [0]) = .ok (0, [2 / 3, 11 / 34, 22 / 323, 0])
    ∧ (∃ n, cfgEx.N = some n ∧ decide ((n : Rat) * cfgEx.t < xsum [1, 1, 1]) = true) :=
  ⟨by decide +kernel, by decide +kernel, 5, rfl, by decide +kernel⟩

/-- THE FULL STATEMENT of the truncation property as asked ("the last entry of the truncated
history is `≤` the corresponding entry of the longer one"), for the shipped estimators.  It is FALSE
of the model (and of the code) for degenerate tuning parameters: with `d = 0` `shrink_trunc`'s first
estimate is `0/0 = nan`, every p-value of the history is `nan`, and `nan ≤ nan` is false.
`hist_truncate_alpha_partial` is the strongest true version: the comparison holds whenever the
entry of the longer history is a number `≥ 0`. -/
def hist_truncate_alpha_full : Prop :=
  ∀ (sqrtF : Rat → Rat) (cfg : Cfg) (e : Estim) (x y : List Rat) (p0 p1 : XR) (h0 h1 : List XR),
    run sqrtF cfg (.alpha e) x = .ok (p0, h0) → run sqrtF cfg (.alpha e) (x ++ y) = .ok (p1, h1) →
    ∃ a b, h0[x.length - 1]? = some a ∧ h1[x.length - 1]? = some b ∧ XR.le a b = true

def cfgD0 : Cfg := { cfgEx with kw := { cfgEx.kw with d := some 0 } }

theorem hist_truncate_alpha_full_false : ¬ hist_truncate_alpha_full := by
  intro H
  have e0 : run sqrtEx cfgD0 (.alpha .shrinkTrunc) [1 / 2] = .ok (1, [XR.nan]) := by decide +kernel
  have e1 : run sqrtEx cfgD0 (.alpha .shrinkTrunc) ([1 / 2] ++ [1 / 2]) = .ok (1, [XR.nan, XR.nan]) := by
    decide +kernel
  obtain ⟨a, b, ha, _, hle⟩ := H _ _ _ _ _ _ _ _ _ e0 e1
  have : a = XR.nan := by
    simp at ha
    exact ha.symm
  subst this
  cases hle

/-! ### `betting_mart` -/

theorem hist_prefix_betting (cfg : Cfg) (bet : List Rat → Except Err (List XR))
    (hsc : StrictlyCausalE bet) (hl : LenPresE bet) (x y z : List Rat) (hy : y ≠ []) (hz : z ≠ [])
    (p1 p2 : XR) (h1 h2 : List XR) (H1 : bettingMart cfg bet (x ++ y) = .ok (p1, h1))
    (H2 : bettingMart cfg bet (x ++ z) = .ok (p2, h2)) : h1.take x.length = h2.take x.length :=
  mart_prefix (bettingMart_spec cfg bet) (bettingMasked_take cfg) (length_bettingMasked cfg) hsc hl hy hz H1 H2

theorem hist_prefix_betting_run (sqrtF : Rat → Rat) (cfg : Cfg) (b : Bet) (x y z : List Rat)
    (hy : y ≠ []) (hz : z ≠ []) (p1 p2 : XR) (h1 h2 : List XR)
    (H1 : run sqrtF cfg (.betting b) (x ++ y) = .ok (p1, h1))
    (H2 : run sqrtF cfg (.betting b) (x ++ z) = .ok (p2, h2)) : h1.take x.length = h2.take x.length :=
  hist_prefix_betting cfg _ (scE_bet sqrtF cfg b) (lpE_bet sqrtF cfg b) x y z hy hz p1 p2 h1 h2 H1 H2

example : isOk (run sqrtEx cfgEx (.betting .agrapa) ([1, 1] ++ [1, 0])) = true
    ∧ isOk (run sqrtEx cfgEx (.betting .agrapa) ([1, 1] ++ [0, 1, 1])) = true
    ∧ histOfRun (run sqrtEx cfgEx (.betting .agrapa) ([1, 1] ++ [1, 0])) = [4 / 5, 16 / 45, 16 / 105, 0]
    ∧ (histOfRun (run sqrtEx cfgEx (.betting .agrapa) ([1, 1] ++ [0, 1, 1]))).take 4
        ≠ histOfRun (run sqrtEx cfgEx (.betting .agrapa) ([1, 1] ++ [1, 0])) := by decide +kernel

/-- truncation for `betting_mart` (`_partial`: see `hist_truncate_betting_full`) -/
theorem hist_truncate_betting_partial (cfg : Cfg) (bet : List Rat → Except Err (List XR))
    (hsc : StrictlyCausalE bet) (hl : LenPresE bet) (x y : List Rat)
    (p0 p1 : XR) (h0 h1 : List XR) (H0 : bettingMart cfg bet x = .ok (p0, h0))
    (H1 : bettingMart cfg bet (x ++ y) = .ok (p1, h1)) :
    h0.take (x.length - 1) = h1.take (x.length - 1) ∧
    (¬ Clamped cfg x → h0 = h1.take x.length) ∧
    (h0[x.length - 1]? = h1[x.length - 1]? ∨ (Clamped cfg x ∧ h0[x.length - 1]? = some (XR.fin 0))) ∧
    (∀ a b, h0[x.length - 1]? = some a → h1[x.length - 1]? = some b →
      XR.le (XR.fin 0) b = true → XR.le a b = true) :=
  mart_truncate (bettingMart_spec cfg bet) (bettingMasked_take cfg) (length_bettingMasked cfg) hsc hl H0 H1

theorem hist_length_betting (cfg : Cfg) (bet : List Rat → Except Err (List XR)) (hl : LenPresE bet)
    (x : List Rat) (p : XR) (h : List XR) (H : bettingMart cfg bet x = .ok (p, h)) :
    h.length = x.length :=
  mart_length (bettingMart_spec cfg bet) (length_bettingMasked cfg) hl H

theorem hist_truncate_betting_run_partial (sqrtF : Rat → Rat) (cfg : Cfg) (b : Bet) (x y : List Rat)
    (p0 p1 : XR) (h0 h1 : List XR) (H0 : run sqrtF cfg (.betting b) x = .ok (p0, h0))
    (H1 : run sqrtF cfg (.betting b) (x ++ y) = .ok (p1, h1)) :
    h0.length = x.length ∧ h1.length = x.length + y.length ∧
    h0.take (x.length - 1) = h1.take (x.length - 1) ∧
    (¬ Clamped cfg x → h0 = h1.take x.length) ∧
    (h0[x.length - 1]? = h1[x.length - 1]? ∨ (Clamped cfg x ∧ h0[x.length - 1]? = some (XR.fin 0))) ∧
    (∀ a b, h0[x.length - 1]? = some a → h1[x.length - 1]? = some b →
      XR.le (XR.fin 0) b = true → XR.le a b = true) :=
  ⟨hist_length_betting cfg _ (lpE_bet sqrtF cfg b) x p0 h0 H0,
   by rw [hist_length_betting cfg _ (lpE_bet sqrtF cfg b) _ p1 h1 H1, List.length_append],
   hist_truncate_betting_partial cfg _ (scE_bet sqrtF cfg b) (lpE_bet sqrtF cfg b) x y p0 p1 h0 h1 H0 H1⟩

example : run sqrtEx cfgEx (.betting .agrapa) [1, 1, 1] = .ok (0, [4 / 5, 16 / 45, 0])
    ∧ run sqrtEx cfgEx (.betting .agrapa) ([1, 1, 1] ++ [0]) = .ok (0, [4 / 5, 16 / 45, 16 / 105, 0]) :=
  ⟨by decide +kernel, by decide +kernel⟩

/-- THE FULL STATEMENT for `betting_mart`; FALSE of the model (and of the code) when the bet is not a
legitimate one: with the fixed bet `lam = -3` the running product, hence the "p-value" `1/T`, becomes
negative, and the clamp's `0` is above it. -/
def hist_truncate_betting_full : Prop :=
  ∀ (sqrtF : Rat → Rat) (cfg : Cfg) (b : Bet) (x y : List Rat) (p0 p1 : XR) (h0 h1 : List XR),
    run sqrtF cfg (.betting b) x = .ok (p0, h0) → run sqrtF cfg (.betting b) (x ++ y) = .ok (p1, h1) →
    ∃ a b, h0[x.length - 1]? = some a ∧ h1[x.length - 1]? = some b ∧ XR.le a b = true

def cfgNegBet : Cfg := { cfgEx with kw := { cfgEx.kw with lam := some (-3) } }

theorem hist_truncate_betting_full_false : ¬ hist_truncate_betting_full := by
  intro H
  have e0 : run sqrtEx cfgNegBet (.betting .fixed) [1, 1, 1] = .ok (0, [XR.fin (-2), 1, 0]) := by
    decide +kernel
  have e1 : run sqrtEx cfgNegBet (.betting .fixed) ([1, 1, 1] ++ [0])
      = .ok (0, [XR.fin (-2), 1, XR.fin (-32 / 21), 0]) := by decide +kernel
  obtain ⟨a, b, ha, hb, hle⟩ := H _ _ _ _ _ _ _ _ _ e0 e1
  have ea : a = (0 : XR) := by
    simp at ha
    exact ha.symm
  have eb : b = XR.fin (-32 / 21) := by
    simp at hb
    exact hb.symm
  subst ea eb
  revert hle
  decide +kernel

/-! ### the Kaplan tests and Wald's SPRT: the history is a causal function of the sample -/

def kkHist (cfg : Cfg) (x : List Rat) : List XR :=
  let g := cfg.kw.g.getD 0
  let xg := x.map (· + g)
  let m := nullMeansFrom cfg.N (cfg.t + g) 0 1 xg
  let factors := (xg.zip m).map fun (a, mj) => (XR.fin a) / (XR.fin mj)
  let terms := (XR.cumprod factors).map (fun T => if T.isNan then (1 : XR) else T)
  let masked := (m.zip terms).map (fun (mj, T) => if mj < 0 then XR.pinf else T)
  masked.map (fun T => XR.npmin ((1 : XR) / T) (1 : XR))

theorem kk_ok {cfg : Cfg} {x : List Rat} {p : XR} {h : List XR}
    (H : kaplanKolmogorov cfg x = .ok (p, h)) : h = kkHist cfg x := by
  unfold kaplanKolmogorov at H
  dsimp only at H
  cases hs : sjm cfg.N (cfg.t + cfg.kw.g.getD 0) (x.map (fun x => x + cfg.kw.g.getD 0)) with
  | error e =>
    rw [hs] at H
    repeat' split at H
    all_goals cases H
  | ok r =>
    obtain ⟨-, rfl⟩ := sjm_ok_iff.1 hs
    rw [hs] at H
    repeat' split at H
    all_goals first | (cases H; done) | exact (congrArg Prod.snd (Except.ok.inj H)).symm

theorem causal_kkHist (cfg : Cfg) : Causal (kkHist cfg) := by
  apply causal_of_take
  intro l k
  simp only [kkHist, ← List.map_take, take_zip, cumprod_take, nullMeansFrom_take]

theorem hist_prefix_kk (cfg : Cfg) (x y z : List Rat) (p1 p2 : XR) (h1 h2 : List XR)
    (H1 : kaplanKolmogorov cfg (x ++ y) = .ok (p1, h1)) (H2 : kaplanKolmogorov cfg (x ++ z) = .ok (p2, h2)) :
    h1.take x.length = h2.take x.length :=
  causal_prefix (fun _ _ _ => kk_ok) (causal_kkHist cfg) H1 H2

theorem hist_truncate_kk (cfg : Cfg) (x y : List Rat) (p0 p1 : XR) (h0 h1 : List XR)
    (H0 : kaplanKolmogorov cfg x = .ok (p0, h0)) (H1 : kaplanKolmogorov cfg (x ++ y) = .ok (p1, h1)) :
    h0 = h1.take x.length :=
  causal_truncate (fun _ _ _ => kk_ok) (causal_kkHist cfg) H0 H1

example : isOk (kaplanKolmogorov cfgEx ([1, 0] ++ [1, 1])) = true
    ∧ isOk (kaplanKolmogorov cfgEx ([1, 0] ++ [0, 1, 1])) = true
    ∧ isOk (kaplanKolmogorov cfgEx [1, 0]) = true
    ∧ (histOfRun (kaplanKolmogorov cfgEx ([1, 0] ++ [0, 1, 1]))).take 4
        ≠ histOfRun (kaplanKolmogorov cfgEx ([1, 0] ++ [1, 1])) := by decide +kernel

def kmHist (cfg : Cfg) (x : List Rat) : List XR :=
  let g := cfg.kw.g.getD 0
  (XR.cumprod (x.map fun a => (XR.fin (cfg.t + g)) / (XR.fin (a + g)))).map (fun p => XR.npmin p (1 : XR))

theorem km_ok {cfg : Cfg} {x : List Rat} {p : XR} {h : List XR}
    (H : kaplanMarkov cfg x = .ok (p, h)) : h = kmHist cfg x := by
  unfold kaplanMarkov at H
  dsimp only at H
  repeat' split at H
  all_goals first | (cases H; done) | exact (congrArg Prod.snd (Except.ok.inj H)).symm

theorem causal_kmHist (cfg : Cfg) : Causal (kmHist cfg) := by
  apply causal_of_take
  intro l k
  simp only [kmHist, ← List.map_take, cumprod_take]

theorem hist_prefix_km (cfg : Cfg) (x y z : List Rat) (p1 p2 : XR) (h1 h2 : List XR)
    (H1 : kaplanMarkov cfg (x ++ y) = .ok (p1, h1)) (H2 : kaplanMarkov cfg (x ++ z) = .ok (p2, h2)) :
    h1.take x.length = h2.take x.length :=
  causal_prefix (fun _ _ _ => km_ok) (causal_kmHist cfg) H1 H2

theorem hist_truncate_km (cfg : Cfg) (x y : List Rat) (p0 p1 : XR) (h0 h1 : List XR)
    (H0 : kaplanMarkov cfg x = .ok (p0, h0)) (H1 : kaplanMarkov cfg (x ++ y) = .ok (p1, h1)) :
    h0 = h1.take x.length :=
  causal_truncate (fun _ _ _ => km_ok) (causal_kmHist cfg) H0 H1

example : isOk (kaplanMarkov cfgEx ([1, 0] ++ [1, 1])) = true
    ∧ isOk (kaplanMarkov cfgEx ([1, 0] ++ [0, 1, 1])) = true
    ∧ isOk (kaplanMarkov cfgEx [1, 0]) = true
    ∧ (histOfRun (kaplanMarkov cfgEx ([1, 0] ++ [0, 1, 1]))).take 4
        ≠ histOfRun (kaplanMarkov cfgEx ([1, 0] ++ [1, 1])) := by decide +kernel

def kwHist (cfg : Cfg) (x : List Rat) : List XR :=
  let g := cfg.kw.g.getD 0
  (XR.cumprod (x.map fun a => (XR.fin ((1 - g) * a)) / (XR.fin cfg.t) + (XR.fin g))).map
    (fun p => XR.npmin ((1 : XR) / p) (1 : XR))

theorem kw_ok {cfg : Cfg} {x : List Rat} {p : XR} {h : List XR}
    (H : kaplanWald cfg x = .ok (p, h)) : h = kwHist cfg x := by
  unfold kaplanWald at H
  dsimp only at H
  repeat' split at H
  all_goals first | (cases H; done) | exact (congrArg Prod.snd (Except.ok.inj H)).symm

theorem causal_kwHist (cfg : Cfg) : Causal (kwHist cfg) := by
  apply causal_of_take
  intro l k
  simp only [kwHist, ← List.map_take, cumprod_take]

theorem hist_prefix_kw (cfg : Cfg) (x y z : List Rat) (p1 p2 : XR) (h1 h2 : List XR)
    (H1 : kaplanWald cfg (x ++ y) = .ok (p1, h1)) (H2 : kaplanWald cfg (x ++ z) = .ok (p2, h2)) :
    h1.take x.length = h2.take x.length :=
  causal_prefix (fun _ _ _ => kw_ok) (causal_kwHist cfg) H1 H2

theorem hist_truncate_kw (cfg : Cfg) (x y : List Rat) (p0 p1 : XR) (h0 h1 : List XR)
    (H0 : kaplanWald cfg x = .ok (p0, h0)) (H1 : kaplanWald cfg (x ++ y) = .ok (p1, h1)) :
    h0 = h1.take x.length :=
  causal_truncate (fun _ _ _ => kw_ok) (causal_kwHist cfg) H0 H1

example : isOk (kaplanWald cfgEx ([1, 0] ++ [1, 1])) = true
    ∧ isOk (kaplanWald cfgEx ([1, 0] ++ [0, 1, 1])) = true
    ∧ isOk (kaplanWald cfgEx [1, 0]) = true
    ∧ (histOfRun (kaplanWald cfgEx ([1, 1] ++ [0, 1, 1]))).take 4
        ≠ histOfRun (kaplanWald cfgEx ([1, 1] ++ [1, 1])) := by decide +kernel

/-- the null means and the alternative means of `wald_sprt` -/
def sprtME (cfg : Cfg) (x : List Rat) : List XR × List XR :=
  match cfg.N with
  | some n =>
    (mapIdxFrom (fun j s => (XR.fin ((n : Rat) * cfg.t - s)) / XR.fin ((n : Rat) - (j : Rat) + 1)) 1 (prefixSums x),
     mapIdxFrom (fun j s => XR.npmin (.fin cfg.u)
       ((XR.fin ((n : Rat) * (cfg.kw.eta.getD (cfg.u * (1 - eps))) - s)) / XR.fin ((n : Rat) - (j : Rat) + 1))) 1
       (prefixSums x))
  | none => (x.map (fun _ => XR.fin cfg.t), x.map (fun _ => XR.fin (cfg.kw.eta.getD (cfg.u * (1 - eps)))))

def sprtHist (cfg : Cfg) (x : List Rat) : List XR :=
  let u := cfg.u
  let m := (sprtME cfg x).1
  let etas := (((sprtME cfg x).2).zip m).map (fun (e, mj) => XR.npmax e mj)
  let factors := (x.zip (etas.zip m)).map fun (xj, e, mj) =>
    ((XR.fin xj) * e / mj + (XR.fin (u - xj)) * ((XR.fin u) - e) / ((XR.fin u) - mj)) / (XR.fin u)
  ((m.zip (XR.cumprod factors)).map (fun (mj, T) => maskTermX u (2 * eps) (1 / 1000000) mj T)).map
    (fun T => XR.npmin (1 : XR) ((1 : XR) / T))

theorem sprt_ok {cfg : Cfg} {x : List Rat} {p : XR} {h : List XR}
    (H : waldSprt cfg x = .ok (p, h)) : h = sprtHist cfg x := by
  unfold waldSprt at H
  unfold sprtHist sprtME
  dsimp only at H ⊢
  cases hN : cfg.N with
  | none =>
    rw [hN] at H
    dsimp only at H ⊢
    repeat' split at H
    all_goals try (simp only [bind, Except.bind, pure, Except.pure] at H)
    all_goals repeat' split at H
    all_goals first | (cases H; done) | exact (congrArg Prod.snd (Except.ok.inj H)).symm
  | some n =>
    rw [hN] at H
    dsimp only at H ⊢
    cases hro : cfg.randomOrder with
    | false =>
      rw [hro] at H
      simp only [Bool.not_false, if_true] at H
      repeat' split at H
      all_goals cases H
    | true =>
      rw [hro] at H
      simp only [Bool.not_true, Bool.false_eq_true, if_false, bind, Except.bind, pure, Except.pure] at H
      repeat' split at H
      all_goals try (simp only [bind, Except.bind, pure, Except.pure] at H)
      all_goals repeat' split at H
      all_goals first | (cases H; done) | exact (congrArg Prod.snd (Except.ok.inj H)).symm

theorem sprtME_take (cfg : Cfg) (l : List Rat) (k : Nat) :
    ((sprtME cfg l).1.take k = (sprtME cfg (l.take k)).1) ∧
    ((sprtME cfg l).2.take k = (sprtME cfg (l.take k)).2) := by
  unfold sprtME
  cases cfg.N with
  | none => simp only [← List.map_take, and_self]
  | some n => simp only [mapIdxFrom_take, prefixSumsFrom_take, prefixSums, and_self]

theorem causal_sprtHist (cfg : Cfg) : Causal (sprtHist cfg) := by
  apply causal_of_take
  intro l k
  simp only [sprtHist, ← List.map_take, take_zip, cumprod_take, (sprtME_take cfg l k).1,
    (sprtME_take cfg l k).2]

theorem hist_prefix_sprt (cfg : Cfg) (x y z : List Rat) (p1 p2 : XR) (h1 h2 : List XR)
    (H1 : waldSprt cfg (x ++ y) = .ok (p1, h1)) (H2 : waldSprt cfg (x ++ z) = .ok (p2, h2)) :
    h1.take x.length = h2.take x.length :=
  causal_prefix (fun _ _ _ => sprt_ok) (causal_sprtHist cfg) H1 H2

theorem hist_truncate_sprt (cfg : Cfg) (x y : List Rat) (p0 p1 : XR) (h0 h1 : List XR)
    (H0 : waldSprt cfg x = .ok (p0, h0)) (H1 : waldSprt cfg (x ++ y) = .ok (p1, h1)) :
    h0 = h1.take x.length :=
  causal_truncate (fun _ _ _ => sprt_ok) (causal_sprtHist cfg) H0 H1

example : isOk (waldSprt cfgEx ([1, 0] ++ [1, 1])) = true
    ∧ isOk (waldSprt cfgEx ([1, 0] ++ [0, 1, 1])) = true
    ∧ isOk (waldSprt cfgEx [1, 0]) = true
    ∧ isOk (waldSprt cfgInf ([1, 0] ++ [1, 1])) = true
    ∧ (histOfRun (waldSprt cfgEx ([1, 0] ++ [0, 1, 1]))).take 4
        ≠ histOfRun (waldSprt cfgEx ([1, 0] ++ [1, 1])) := by decide +kernel

/-! ### every test, through `run` -/

/-- C05, histories: two samples that agree in their first `|x|` observations and both continue
have p-value histories that agree in the first `|x|` entries — every test, estimator, bet,
configuration, `sqrtF`; finite and infinite `N`. -/
theorem hist_prefix_run (sqrtF : Rat → Rat) (cfg : Cfg) (test : Test) (x y z : List Rat)
    (hy : y ≠ []) (hz : z ≠ []) (p1 p2 : XR) (h1 h2 : List XR)
    (H1 : run sqrtF cfg test (x ++ y) = .ok (p1, h1)) (H2 : run sqrtF cfg test (x ++ z) = .ok (p2, h2)) :
    h1.take x.length = h2.take x.length := by
  cases test with
  | alpha e => exact hist_prefix_alpha_run sqrtF cfg e x y z hy hz p1 p2 h1 h2 H1 H2
  | betting b => exact hist_prefix_betting_run sqrtF cfg b x y z hy hz p1 p2 h1 h2 H1 H2
  | kk => exact hist_prefix_kk cfg x y z p1 p2 h1 h2 H1 H2
  | km => exact hist_prefix_km cfg x y z p1 p2 h1 h2 H1 H2
  | kw => exact hist_prefix_kw cfg x y z p1 p2 h1 h2 H1 H2
  | sprt => exact hist_prefix_sprt cfg x y z p1 p2 h1 h2 H1 H2

/-- the tests with a final-sample clamp -/
def isMart : Test → Bool
  | .alpha _ => true
  | .betting _ => true
  | _ => false

/-- C05, truncation, tests without a clamp: nothing changes -/
theorem hist_truncate_run_nonmart (sqrtF : Rat → Rat) (cfg : Cfg) (test : Test) (ht : isMart test = false)
    (x y : List Rat) (p0 p1 : XR) (h0 h1 : List XR)
    (H0 : run sqrtF cfg test x = .ok (p0, h0)) (H1 : run sqrtF cfg test (x ++ y) = .ok (p1, h1)) :
    h0 = h1.take x.length := by
  cases test with
  | alpha e => cases ht
  | betting b => cases ht
  | kk => exact hist_truncate_kk cfg x y p0 p1 h0 h1 H0 H1
  | km => exact hist_truncate_km cfg x y p0 p1 h0 h1 H0 H1
  | kw => exact hist_truncate_kw cfg x y p0 p1 h0 h1 H0 H1
  | sprt => exact hist_truncate_sprt cfg x y p0 p1 h0 h1 H0 H1

/-- C05, truncation, `alpha_mart` and `betting_mart` (strongest true version, see
`hist_truncate_alpha_full`, `hist_truncate_betting_full`) -/
theorem hist_truncate_run_mart_partial (sqrtF : Rat → Rat) (cfg : Cfg) (test : Test) (ht : isMart test = true)
    (x y : List Rat) (p0 p1 : XR) (h0 h1 : List XR)
    (H0 : run sqrtF cfg test x = .ok (p0, h0)) (H1 : run sqrtF cfg test (x ++ y) = .ok (p1, h1)) :
    h0.length = x.length ∧ h1.length = x.length + y.length ∧
    h0.take (x.length - 1) = h1.take (x.length - 1) ∧
    (¬ Clamped cfg x → h0 = h1.take x.length) ∧
    (h0[x.length - 1]? = h1[x.length - 1]? ∨ (Clamped cfg x ∧ h0[x.length - 1]? = some (XR.fin 0))) ∧
    (∀ a b, h0[x.length - 1]? = some a → h1[x.length - 1]? = some b →
      XR.le (XR.fin 0) b = true → XR.le a b = true) := by
  cases test with
  | alpha e => exact hist_truncate_alpha_run_partial sqrtF cfg e x y p0 p1 h0 h1 H0 H1
  | betting b => exact hist_truncate_betting_run_partial sqrtF cfg b x y p0 p1 h0 h1 H0 H1
  | kk => cases ht
  | km => cases ht
  | kw => cases ht
  | sprt => cases ht

end Shangrla.C05
