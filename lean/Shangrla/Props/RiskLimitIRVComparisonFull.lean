/-
  C04 ∘ C14 ∘ C03 ∘ C06 ∘ C09 ∘ C01: an instant-runoff (IRV) contest under a card-level COMPARISON (or ONEAudit)
  audit of RAIRE assertions, on the LITERAL overstatement model of `Model/Overstatement.lean` — pooled cards, phantom
  CVRs inside or outside pools, unfindable cards (phantom manual records), manual records lacking the contest, the
  style filter on or off.

  `RiskLimitIRVComparison.lean` joined "a wrong IRV outcome makes some RAIRE assertion false" to a comparison audit at
  the level of VALUES only (no pools, no phantoms, no style filter).  Here the probability part is
  `comparison_full_risk_limit_cards` (RiskLimitComparisonOutcome.lean), whose manual records `Mvr` carry the assorter
  value as a parameter.  The IRV assorters of `Model/Assorter.lean` are partial (`Except`), so — as `RiskLimitIRV.lean`
  does — the parameter is instantiated with the TOTAL audit-side assorter `irvAssort` of C14's model
  (`Model/IrvBallot.lean`: `make_assertions_from_json`'s lambdas on `CVR.get_vote_for` / `rcv_lfunc_wo` /
  `rcv_votefor_cand`):

  * `IrvMvr`, `mvrOfIRV A cid b` — the `Mvr` the overstatement reads off a manual record of an IRV contest
    (`has_contest`, `phantom`, `A(mvr)`);
  * `irv_comparison_null_iff` — exactly when a RAIRE assertion is false on the manual records AS THE OVERSTATEMENT
    SCORES THEM, in terms of the generator-side tallies over the FOUND ballots;
  * `irv_comparison_false_assertion` — a wrong outcome on the found ballots, however the records scored 0 are
    completed, makes some assertion of a `Sufficient` set false in that sense;
  * `irv_comparison_full_risk_limit` (one assertion), `irv_comparison_full_wrong_winner_risk_limit`,
    `raire_comparison_full_wrong_winner_risk_limit` — the capstones.
-/
import Shangrla.Props.RiskLimitIRV
import Shangrla.Props.RiskLimitComparisonOutcome

namespace Shangrla.RiskLimit
open Shangrla Shangrla.Ville Shangrla.Status Shangrla.AuditLoop Shangrla.Overstatement
open Shangrla.Raire.Spec Shangrla.IrvBallot

set_option linter.unusedSectionVars false

/-! ### the manual record of a card of an IRV contest, as the overstatement reads it -/

section Records
variable {κ α : Type} [DecidableEq κ] [DecidableEq α]

/-- **A manual record (MVR) of an IRV contest.**  `ballot.1` is `mvr.votes` as the audit reads it
(`{contest ↦ {candidate ↦ rank}}`, ranks 1-based), `ballot.2` the same card in the generator's encoding (the form the
RAIRE side — `raire_utils.py` — and `RaireSpec.tallies` / `validIRV` take; the two are tied by `C14.Aligned`);
`phantom` is `mvr.phantom`: the card could not be found. -/
structure IrvMvr (κ α : Type) where
  ballot : Votes κ α × GCvr κ α
  phantom : Bool := false

/-- **The overstatement model's manual record of an IRV card.**  `Assorter.overstatement(mvr, cvr, use_style)`
(Audit.py L2578-2585) reads three things off `mvr`: `mvr.has_contest(self.contest.id)` (`IrvBallot.hasContest` on the
votes dict, L207-208), `mvr.phantom`, and `self.assort(mvr)` — here `assort` applied to the ballot, with
`assort = irvAssort cid cands kind w l E`, the assorter `make_assertions_from_json` builds for a RAIRE assertion. -/
def mvrOfIRV (assort : Votes κ α × GCvr κ α → ℚ) (cid : κ) (b : IrvMvr κ α) : Mvr :=
  { hasContest := hasContest b.ballot.1 cid, phantom := b.phantom, a := assort b.ballot }

/-- the manual record is scored 0 instead of `A(mvr)` (L2578-2585): the card could not be found, or under style-based
sampling its manual record does not list the contest -/
def zeroedIRV (useStyle : Bool) (cid : κ) (b : IrvMvr κ α) : Bool :=
  b.phantom || (useStyle && !hasContest b.ballot.1 cid)

theorem mvrAssort_mvrOfIRV (useStyle : Bool) (assort : Votes κ α × GCvr κ α → ℚ) (cid : κ) (b : IrvMvr κ α) :
    mvrAssort useStyle (mvrOfIRV assort cid b) = if zeroedIRV useStyle cid b then 0 else assort b.ballot := rfl

/-- the manual records of the cards under audit: those whose CVR passes the style filter -/
def audRecs {β : Type} (useStyle : Bool) (mvr : β → IrvMvr κ α) (cv : β → Cvr) (cards : List β) :
    List (IrvMvr κ α) :=
  (cards.filter (fun x => passes useStyle (cv x))).map mvr

/-- the FOUND ballots of the cards under audit (audit reading, generator encoding): the card was found and (under
style) its manual record lists the contest — the cards whose manual record enters the overstatement with its own
assorter value -/
def foundRecs {β : Type} (useStyle : Bool) (cid : κ) (mvr : β → IrvMvr κ α) (cv : β → Cvr) (cards : List β) :
    List (Votes κ α × GCvr κ α) :=
  ((audRecs useStyle mvr cv cards).filter (fun b => !zeroedIRV useStyle cid b)).map (·.ballot)

/-- the number of cards under audit whose manual record is scored 0 -/
def lostRecs {β : Type} (useStyle : Bool) (cid : κ) (mvr : β → IrvMvr κ α) (cv : β → Cvr) (cards : List β) : Nat :=
  (audRecs useStyle mvr cv cards).countP (zeroedIRV useStyle cid)

theorem mvrA_irv {β : Type} (useStyle : Bool) (assort : Votes κ α × GCvr κ α → ℚ) (cid : κ) (mvr : β → IrvMvr κ α)
    (cv : β → Cvr) (cards : List β) :
    C03.mvrA useStyle (cards.map (fun x => mvrOfIRV assort cid (mvr x))) (cards.map cv)
      = (audRecs useStyle mvr cv cards).map
          (fun b => if zeroedIRV useStyle cid b then 0 else assort b.ballot) := by
  rw [mvrA_cards]
  unfold audRecs
  rw [List.map_map]
  rfl

/-- the manual assorter values of the cards under audit add up to the assorter's sum over the FOUND ballots -/
theorem sum_mvrA_irv {β : Type} (useStyle : Bool) (assort : Votes κ α × GCvr κ α → ℚ) (cid : κ)
    (mvr : β → IrvMvr κ α) (cv : β → Cvr) (cards : List β) :
    (C03.mvrA useStyle (cards.map (fun x => mvrOfIRV assort cid (mvr x))) (cards.map cv)).sum
      = ((foundRecs useStyle cid mvr cv cards).map assort).sum := by
  rw [mvrA_irv, sum_zeroed (zeroedIRV useStyle cid) (fun b => assort b.ballot)]
  unfold foundRecs
  rw [List.map_map]
  rfl

/-- the cards under audit are the found ones and the ones scored 0 -/
theorem length_mvrA_irv {β : Type} (useStyle : Bool) (assort : Votes κ α × GCvr κ α → ℚ) (cid : κ)
    (mvr : β → IrvMvr κ α) (cv : β → Cvr) (cards : List β) :
    (C03.mvrA useStyle (cards.map (fun x => mvrOfIRV assort cid (mvr x))) (cards.map cv)).length
      = (foundRecs useStyle cid mvr cv cards).length + lostRecs useStyle cid mvr cv cards := by
  rw [mvrA_irv, List.length_map, length_zeroed (zeroedIRV useStyle cid)]
  unfold foundRecs lostRecs
  rw [List.length_map]

/-- a CVR record with its assorter value replaced: the flags, pool label and sample number belong to the card, the
reported assorter value to the assertion -/
def cvFor {β : Type} (cv : β → Cvr) (ca : β → ℚ) (x : β) : Cvr := { cv x with a := ca x }

@[simp] theorem passes_cvFor {β : Type} (useStyle : Bool) (cv : β → Cvr) (ca : β → ℚ) (x : β) :
    passes useStyle (cvFor cv ca x) = passes useStyle (cv x) := rfl

theorem foundRecs_cvFor {β : Type} (useStyle : Bool) (cid : κ) (mvr : β → IrvMvr κ α) (cv : β → Cvr) (ca : β → ℚ)
    (cards : List β) :
    foundRecs useStyle cid mvr (cvFor cv ca) cards = foundRecs useStyle cid mvr cv cards := rfl

theorem lostRecs_cvFor {β : Type} (useStyle : Bool) (cid : κ) (mvr : β → IrvMvr κ α) (cv : β → Cvr) (ca : β → ℚ)
    (cards : List β) :
    lostRecs useStyle cid mvr (cvFor cv ca) cards = lostRecs useStyle cid mvr cv cards := rfl

theorem aud_cvFor_length {β : Type} (useStyle : Bool) (cv : β → Cvr) (ca : β → ℚ) (cards : List β) :
    (C03.aud useStyle (cards.map (cvFor cv ca))).length = (C03.aud useStyle (cards.map cv)).length := by
  rw [aud_cards, aud_cards, List.length_map, List.length_map]
  rfl

end Records

/-! ### a failed tally comparison on the found ballots ⇔ the assertion is false on the manual records -/

section Null
variable {κ α : Type} [DecidableEq κ] [DecidableEq α]

/-- arithmetic core, as an identity: values `(w - l + 1)/2` sum to `(Σ w − Σ l + n)/2` -/
theorem sum_of_tally {π : Type} (ps : List π) (assort : π → ℚ) (gw gl : π → Int)
    (h1 : ∀ p ∈ ps, assort p = ((gw p - gl p + 1 : Int) : ℚ) / 2) :
    (ps.map assort).sum
      = ((((ps.map gw).sum : Int) : ℚ) - (((ps.map gl).sum : Int) : ℚ) + (ps.length : ℚ)) / 2 := by
  rw [List.map_congr_left h1, C14.sum_half]
  push_cast
  ring

/-- **the IRV assorter's sum over aligned cards, in generator-side tallies** (`irv_assertion_null` as an identity):
`Σ A_r = (W − L + n)/2` with `W`, `L` the two tallies the RAIRE assertion compares, recomputed on the ballots of the
cards -/
theorem irvAssort_sum (cid : κ) (cands : List α) (k : Raire.Kind) (w l : α) (E : List α)
    (hwl : k = .nen → w ∈ cands ∧ l ∈ cands)
    (ps : List (Votes κ α × GCvr κ α)) (h : ∀ p ∈ ps, C14.Aligned cid cands p) :
    (ps.map (irvAssort cid cands k w l E)).sum
      = (((tallies (trueBallots cid ps) k w l E).1 : ℚ) - ((tallies (trueBallots cid ps) k w l E).2 : ℚ)
          + (ps.length : ℚ)) / 2 := by
  obtain ⟨b1, b2, b3, b4⟩ := tallies_bridge cid ps w l E
  cases k with
  | neb =>
    rw [sum_of_tally ps _ (fun p => nebWinner cid w p.2) (fun p => nebLoser cid w l p.2), ← b1, ← b2]
    · push_cast; rfl
    · intro p hp
      rcases h p hp with ⟨ha, hg⟩ | ⟨r, g, _, _, ha, hg, hs⟩
      · exact (C14.neb_agree_absent ha hg w l).2.2
      · exact (C14.agree_sameMap ha hg hs w l).1
  | nen =>
    obtain ⟨hw, hl⟩ := hwl rfl
    rw [sum_of_tally ps _ (fun p => nenWinner cid w E p.2) (fun p => nenLoser cid l E p.2), ← b3, ← b4]
    · push_cast; rfl
    · intro p hp
      rcases h p hp with ⟨ha, hg⟩ | ⟨r, g, _, hr, ha, hg, hs⟩
      · exact (C14.nen_agree_absent ha hg w l E _).2.2
      · exact (C14.agree_sameMap ha hg hs w l).2 cands E hr hw hl

/-!
DIRECTION (conservative).  The overstatement scores a manual record 0 when the card cannot be found and, under
style-based sampling, when the record does not list the contest.  For an IRV assorter `(W − L + 1)/2` the value 0 is
that of a ballot counted for the assertion's LOSER and not for its winner; a card without the contest is "really" a
non-vote (1/2).  So a record scored 0 is scored worse for the reported winner than anything that could be on the card,
for EVERY assertion at once.  Consequently "the assertion is false on the manual records" (`Σ mvrAssort ≤ n/2`, the
hypothesis of `comparison_full_risk_limit`) holds EXACTLY when, over the FOUND ballots of the cards under audit, the
winner-side tally is at most the loser-side tally PLUS the number of records scored 0 (`irv_comparison_null_iff`).
The plain "the comparison fails on the found ballots" (`W ≤ L`) is stronger than needed.
-/

/-- **exactly when** is a RAIRE assertion false on the manual records as the overstatement scores them.
`hal`: the found ballots are aligned (C14: the audit reads `{c ↦ k+1}` for a duplicate-free ranking of listed
candidates and the generator side holds the same ranking as `{c ↦ k}`, or the contest is absent on both — the latter
only without style, a found record listing the contest under style).  Nothing is assumed of the records scored 0:
the code does not look at their votes. -/
theorem irv_comparison_null_iff {β : Type} (useStyle : Bool) (cid : κ) (cands : List α) (k : Raire.Kind) (w l : α)
    (E : List α) (hwl : k = .nen → w ∈ cands ∧ l ∈ cands) (mvr : β → IrvMvr κ α) (cv : β → Cvr) (cards : List β)
    (hal : ∀ p ∈ foundRecs useStyle cid mvr cv cards, C14.Aligned cid cands p) :
    (C03.mvrA useStyle (cards.map (fun x => mvrOfIRV (irvAssort cid cands k w l E) cid (mvr x))) (cards.map cv)).sum
      ≤ ((C03.mvrA useStyle (cards.map (fun x => mvrOfIRV (irvAssort cid cands k w l E) cid (mvr x)))
          (cards.map cv)).length : ℚ) / 2
    ↔ (tallies (trueBallots cid (foundRecs useStyle cid mvr cv cards)) k w l E).1
        ≤ (tallies (trueBallots cid (foundRecs useStyle cid mvr cv cards)) k w l E).2
          + lostRecs useStyle cid mvr cv cards := by
  rw [sum_mvrA_irv, length_mvrA_irv, irvAssort_sum cid cands k w l E hwl _ hal]
  push_cast
  set W : Nat := (tallies (trueBallots cid (foundRecs useStyle cid mvr cv cards)) k w l E).1
  set L : Nat := (tallies (trueBallots cid (foundRecs useStyle cid mvr cv cards)) k w l E).2
  constructor
  · intro h
    have : (W : ℚ) ≤ (L : ℚ) + (lostRecs useStyle cid mvr cv cards : ℚ) := by linarith
    exact_mod_cast this
  · intro h
    have : (W : ℚ) ≤ (L : ℚ) + (lostRecs useStyle cid mvr cv cards : ℚ) := by exact_mod_cast h
    linarith

theorem irv_comparison_null {β : Type} (useStyle : Bool) (cid : κ) (cands : List α) (k : Raire.Kind) (w l : α)
    (E : List α) (hwl : k = .nen → w ∈ cands ∧ l ∈ cands) (mvr : β → IrvMvr κ α) (cv : β → Cvr) (cards : List β)
    (hal : ∀ p ∈ foundRecs useStyle cid mvr cv cards, C14.Aligned cid cands p)
    (hwrong : (tallies (trueBallots cid (foundRecs useStyle cid mvr cv cards)) k w l E).1
        ≤ (tallies (trueBallots cid (foundRecs useStyle cid mvr cv cards)) k w l E).2
          + lostRecs useStyle cid mvr cv cards) :
    (C03.mvrA useStyle (cards.map (fun x => mvrOfIRV (irvAssort cid cands k w l E) cid (mvr x))) (cards.map cv)).sum
      ≤ ((C03.mvrA useStyle (cards.map (fun x => mvrOfIRV (irvAssort cid cands k w l E) cid (mvr x)))
          (cards.map cv)).length : ℚ) / 2 :=
  (irv_comparison_null_iff useStyle cid cands k w l E hwl mvr cv cards hal).2 hwrong

end Null

/-! ### a wrong outcome makes some assertion false on the manual records -/

section Outcome
variable {α : Type} [DecidableEq α] {D : Type}

theorem sum_map_le_length {π : Type} (f : π → Nat) (hf : ∀ x, f x ≤ 1) : ∀ L : List π, (L.map f).sum ≤ L.length
  | [] => Nat.le_refl _
  | x :: L => by
    have := sum_map_le_length f hf L
    have := hf x
    simp only [List.map_cons, List.sum_cons, List.length_cons]
    omega

theorem raire_voteForCand_le_one (c : α) (E : List α) (b : Raire.Ballot α) : Raire.voteForCand c E b ≤ 1 := by
  unfold Raire.voteForCand
  split
  · omega
  · split
    · omega
    · split <;> omega

theorem raire_nebVoteL_le_one (w l : α) (b : Option (Raire.Ballot α)) : Raire.nebVoteL w l b ≤ 1 := by
  cases b with
  | none => simp [Raire.nebVoteL]
  | some b =>
    simp only [Raire.nebVoteL]
    split
    · omega
    · split
      · omega
      · split <;> omega

/-- both tallies are additive over the list of cards -/
theorem tallies_append (A B : List (Option (Raire.Ballot α))) (k : Raire.Kind) (w l : α) (E : List α) :
    (tallies (A ++ B) k w l E).1 = (tallies A k w l E).1 + (tallies B k w l E).1 ∧
    (tallies (A ++ B) k w l E).2 = (tallies A k w l E).2 + (tallies B k w l E).2 := by
  cases k <;> simp [tallies, Raire.tally, List.filterMap_append]

/-- a card adds at most one to the loser-side tally -/
theorem tallies_snd_le_length (B : List (Option (Raire.Ballot α))) (k : Raire.Kind) (w l : α) (E : List α) :
    (tallies B k w l E).2 ≤ B.length := by
  cases k with
  | neb => exact sum_map_le_length _ (raire_nebVoteL_le_one w l) B
  | nen =>
    simp only [tallies, Raire.tally]
    exact Nat.le_trans (sum_map_le_length _ (raire_voteForCand_le_one l E) _) (List.length_filterMap_le _ _)

/-- **Wrong outcome ⇒ some assertion is false on the manual records, in the sense of `irv_comparison_null_iff`.**
`found` are the found ballots (aligned); `extra` is ANY list of well-formed ballots — what might be on the cards
whose record was scored 0 (none, some or all of them).  If some possible IRV count of the found ballots together with
`extra` ends in a candidate other than `winner`, some member of the `Sufficient` set `S` has winner-side tally over
the found ballots at most its loser-side tally plus `|extra|`: the extra ballots can only add to the winner side of
the completed count, and add at most one each to its loser side. -/
theorem irv_comparison_false_assertion {κ : Type} [DecidableEq κ] (cands : List α) (hcands : cands.Nodup)
    (winner : α) (S : List (Raire.Assertion α D)) (hS : Sufficient cands winner S)
    (cid : κ) (found : List (Votes κ α × GCvr κ α)) (hal : ∀ p ∈ found, C14.Aligned cid cands p)
    (extra : List (Raire.Ballot α)) (hex : ∀ b ∈ extra, BallotWF b)
    (π : List α) (hπ : Alt cands winner π)
    (hv : validIRV ((trueBallots cid found).filterMap id ++ extra) π) :
    ∃ r ∈ S, (tallies (trueBallots cid found) r.kind r.winner r.loser r.eliminated).1
        ≤ (tallies (trueBallots cid found) r.kind r.winner r.loser r.eliminated).2 + extra.length := by
  have hfm : (trueBallots cid found ++ extra.map some).filterMap id
      = (trueBallots cid found).filterMap id ++ extra := by
    rw [List.filterMap_append]
    congr 1
    induction extra with
    | nil => rfl
    | cons b bs ih => simp
  obtain ⟨r, hr, hfalse⟩ := irv_wrong_outcome_false_assertion cands hcands winner S hS
    (trueBallots cid found ++ extra.map some)
    (by
      rw [hfm]
      intro b hb
      rcases List.mem_append.1 hb with hb | hb
      · exact trueBallots_wf hal b hb
      · exact hex b hb)
    π hπ (by rw [hfm]; exact hv)
  refine ⟨r, hr, ?_⟩
  obtain ⟨h1, h2⟩ := tallies_append (trueBallots cid found) (extra.map some) r.kind r.winner r.loser r.eliminated
  have h3 := tallies_snd_le_length (extra.map some) r.kind r.winner r.loser r.eliminated
  rw [List.length_map] at h3
  omega

end Outcome

/-! ### the risk limit -/

section Risk
variable {κ α : Type} [DecidableEq κ] [DecidableEq α]

/-- **Risk limit of a comparison / ONEAudit audit of an IRV contest on the literal model: one false RAIRE assertion.**

* `cards : List β` — the population; a card `x` carries its manual record `mvr x : IrvMvr` (votes as the audit reads
  them, the same card in the generator's encoding, `phantom` = the card could not be found) and the CVR `cv x` as the
  overstatement model reads it — ANY `Cvr`s: phantoms, pooled or not, any pool labelling, any reported assorter values
  in `[0,1]` (`hcv`), whatever they say about who won.
* assertion `a` of contest `c` is the RAIRE assertion `(k, w, l, E)` (NEB "`w` never eliminated before `l`" / NEN "`w`
  not eliminated next when exactly `E` are gone"; for NEN `w`, `l ∈ cands`): its datum for a card is what
  `mvrs_to_data` returns for the manual record `mvrOfIRV (irvAssort cid cands k w l E) cid (mvr x)` and the CVR `cv x`
  (`hdata`), assorter upper bound 1; `ty`, `useStyle`, `means`, `hm`, `hne`, `hph`, `margin`, `U`, `hmargin`, the test
  (`N` = number of cards under audit, `t = 1/2`, `u = U`, any shipped `NonnegMean` test in its documented range) are
  as in `comparison_full_risk_limit`.
* `hal`: the FOUND ballots of the cards under audit are aligned (C14's hypothesis; nothing is assumed of the records
  scored 0 or of the cards not under audit).
* `hwrong`: the assertion's comparison fails on the found ballots, every record scored 0 counting as one more vote on
  the loser side (`irv_comparison_null_iff`: this is EXACTLY "false on the manual records").

Then the audit is EVER reported complete with probability at most the contest's risk limit. -/
theorem irv_comparison_full_risk_limit {β : Type} (mvr : β → IrvMvr κ α) (cv : β → Cvr) (cards : List β)
    (cid : κ) (cands : List α) (k : Raire.Kind) (w l : α) (E : List α) (hwl : k = .nen → w ∈ cands ∧ l ∈ cands)
    (ty : AuditType) (hty : ty = .cardComparison ∨ ty = .oneaudit)
    (useStyle : Bool) (means : Option Means)
    (hm : MeansFrom useStyle (cards.map cv) means)
    (hcv : ∀ c ∈ cards.map cv, 0 ≤ c.a ∧ c.a ≤ 1)
    (hne : C03.aud useStyle (cards.map cv) ≠ [])
    (hph : ∀ c ∈ C03.aud useStyle (cards.map cv), c.phantom = true → usesPool means c = false → c.a = 1 / 2)
    (margin U : XR) (hmargin : setMarginFromCvrs 1 useStyle ty 1 (cards.map cv) = .ok (margin, U))
    (data : String → String → β → Option ℚ) (T : String → String → SeqTest) (s : State)
    (c : Contest) (hc : c ∈ s) (a : Assertion) (ha : a ∈ c.assertions)
    (hdata : data c.id a.name = fun x =>
      cardDatum ty useStyle margin 1 means (mvrOfIRV (irvAssort cid cands k w l E) cid (mvr x), cv x))
    (sqrtF : ℚ → ℚ) (cfg : NM.Cfg) (test : NM.Test)
    (hN : cfg.N = some (C03.aud useStyle (cards.map cv)).length) (ht : cfg.t = 1 / 2) (hcu : XR.fin cfg.u = U)
    (hT : T c.id a.name = NM.run sqrtF cfg test)
    (hdoc : C01.DocumentedFinite sqrtF cfg test)
    (hr0 : 0 < c.riskLimit) (hr1 : c.riskLimit < 1)
    (hal : ∀ p ∈ foundRecs useStyle cid mvr cv cards, C14.Aligned cid cands p)
    (hwrong : (tallies (trueBallots cid (foundRecs useStyle cid mvr cv cards)) k w l E).1
        ≤ (tallies (trueBallots cid (foundRecs useStyle cid mvr cv cards)) k w l E).2
          + lostRecs useStyle cid mvr cv cards) :
    hitG (auditCompleteOpt data T s) cards.length cards [] ≤ c.riskLimit :=
  comparison_full_risk_limit_cards (fun x => mvrOfIRV (irvAssort cid cands k w l E) cid (mvr x)) cv cards
    ty hty useStyle 1 means hm one_pos hcv
    (by
      intro m hmm
      obtain ⟨x, _, rfl⟩ := List.mem_map.mp hmm
      exact irvAssort_range cid cands k w l E (mvr x).ballot)
    hne hph margin U hmargin data T s c hc a ha hdata sqrtF cfg test hN ht hcu hT hdoc hr0 hr1
    (irv_comparison_null useStyle cid cands k w l E hwl mvr cv cards hal hwrong)

/-- **every assertion of the RAIRE set `S` is audited by comparison on the literal model.**  For each `r ∈ S` the
audit state's contest `c` has an assertion `a` set up as `Assertion.set_tally_pool_means` / `set_margin_from_cvrs` /
`mvrs_to_data` / `set_p_values` set it up from the CVRs, whose reported assorter values for `r` are `ca r x` (the
flags, pool label and sample number of the CVR of card `x` are `cv x`'s; `cvFor cv (ca r) x` is the CVR record the
overstatement of `r` reads):

* `means`: never set, or computed by `poolMeans` from these CVRs under the same style flag (`MeansFrom`);
* the reported values lie in `[0,1]` (the range of every IRV assorter, `irvAssort_range`) and a phantom CVR under
  audit that is not scored through a pool has the value 1/2 (C03's hypothesis; a `make_phantoms` phantom lists the
  contest with no votes, on which both IRV assorters are `(0 − 0 + 1)/2`);
* `(margin, U)` as `setMarginFromCvrs` returns them for these CVRs, assorter bound `u = 1`;
* the datum of a card is `cardDatum … (mvrOfIRV (irvAssort … r) cid (mvr x), cvFor cv (ca r) x)`;
* the test is a shipped `NonnegMean` test inside its documented range with `N` = number of cards under audit,
  `t = 1/2`, `u = U`. -/
def AuditedComparisonFull {β D : Type} (data : String → String → β → Option ℚ) (T : String → String → SeqTest)
    (c : Contest) (cid : κ) (cands : List α) (ty : AuditType) (useStyle : Bool)
    (mvr : β → IrvMvr κ α) (cv : β → Cvr) (ca : Raire.Assertion α D → β → ℚ) (cards : List β)
    (S : List (Raire.Assertion α D)) : Prop :=
  ∀ r ∈ S, ∃ a ∈ c.assertions, ∃ (means : Option Means) (margin U : XR),
    MeansFrom useStyle (cards.map (cvFor cv (ca r))) means ∧
    (∀ x ∈ cards, 0 ≤ ca r x ∧ ca r x ≤ 1) ∧
    (∀ x ∈ cards, passes useStyle (cv x) = true → (cv x).phantom = true →
      usesPool means (cv x) = false → ca r x = 1 / 2) ∧
    setMarginFromCvrs 1 useStyle ty 1 (cards.map (cvFor cv (ca r))) = .ok (margin, U) ∧
    data c.id a.name = (fun x => cardDatum ty useStyle margin 1 means
      (mvrOfIRV (irvAssort cid cands r.kind r.winner r.loser r.eliminated) cid (mvr x), cvFor cv (ca r) x)) ∧
    ∃ (sqrtF : ℚ → ℚ) (cfg : NM.Cfg) (test : NM.Test),
      cfg.N = some (C03.aud useStyle (cards.map cv)).length ∧ cfg.t = 1 / 2 ∧ XR.fin cfg.u = U ∧
      T c.id a.name = NM.run sqrtF cfg test ∧ C01.DocumentedFinite sqrtF cfg test

/-- **Risk limit of a RAIRE card-level comparison / ONEAudit audit of an IRV contest, on the literal model with
pools, phantoms, unfindable cards and the style filter.**

* `cands` (duplicate-free) are the contest's candidates, `winner` the reported winner, `S` a `Sufficient` set of
  NEB/NEN assertions (what `C04.raire_sufficient` proves of RAIRE's output), the winner and loser of every NEN member
  being candidates.
* `cards : List β` — the population, of any type.  Card `x` has the manual record `mvr x` and the CVR flags `cv x`
  (`has_contest`, `phantom`, `pool`, `tally_pool`, `sample_num` — anything); `ca r x ∈ [0,1]` is the value the
  machine's record gives to assertion `r` — anything.  `ty`: card comparison or ONEAudit; `useStyle` on or off; some
  card is under audit (`hne`).
* every member of `S` is audited in contest `c` (`AuditedComparisonFull`), `0 < c.riskLimit < 1`.
* WHICH BALLOTS COUNT.  The cards under audit are those whose CVR passes the style filter (all cards without style;
  under style the cards whose CVR lists the contest — a card whose CVR does not list it is never used for this
  contest, whatever is on the paper: style-based sampling presupposes that the CVRs, padded with phantoms, list the
  contest on every card that has it).  Of their manual records, the FOUND ones (`foundRecs`: card found and, under
  style, record listing the contest) enter with their own assorter value and must be aligned (`hal`, C14); the
  `lostRecs` others are scored 0 by the code, worse for the reported winner than any ballot that could be on the card
  (see `irv_comparison_null_iff`).  The hypothesis on the true ballots is therefore stated generously: the reported
  winner is wrong for SOME way of completing the records scored 0 — `extra` is any list of at most `lostRecs`
  well-formed ballots (what is "really" on none, some or all of the unfindable cards; a record lacking the contest is
  really a non-vote, i.e. contributes nothing to `extra`), and `π` a possible IRV count (`validIRV`: at every round a
  candidate with a smallest tally is eliminated, ties broken any way) of the found ballots together with `extra` that
  ends in a candidate other than `winner`.  `extra = []` is the plain statement "the reported winner is not the winner
  of some possible IRV count of the manual records that could be examined"
  (`irv_comparison_full_wrong_winner_risk_limit_found`).

Then, whatever the CVRs say, whatever the other assertions, contests and tests are and however often the status is
looked at while the cards are drawn in uniformly random order without replacement, the audit is EVER reported
complete with probability at most `c.riskLimit`. -/
theorem irv_comparison_full_wrong_winner_risk_limit {β D : Type}
    (data : String → String → β → Option ℚ) (T : String → String → SeqTest) (s : State)
    (c : Contest) (hc : c ∈ s) (hr0 : 0 < c.riskLimit) (hr1 : c.riskLimit < 1)
    (cid : κ) (cands : List α) (hcands : cands.Nodup) (winner : α)
    (S : List (Raire.Assertion α D)) (hS : Sufficient cands winner S)
    (hSc : ∀ r ∈ S, r.kind = .nen → r.winner ∈ cands ∧ r.loser ∈ cands)
    (ty : AuditType) (hty : ty = .cardComparison ∨ ty = .oneaudit) (useStyle : Bool)
    (mvr : β → IrvMvr κ α) (cv : β → Cvr) (ca : Raire.Assertion α D → β → ℚ) (cards : List β)
    (hne : C03.aud useStyle (cards.map cv) ≠ [])
    (haud : AuditedComparisonFull data T c cid cands ty useStyle mvr cv ca cards S)
    (hal : ∀ p ∈ foundRecs useStyle cid mvr cv cards, C14.Aligned cid cands p)
    (extra : List (Raire.Ballot α)) (hex : ∀ b ∈ extra, BallotWF b)
    (hexn : extra.length ≤ lostRecs useStyle cid mvr cv cards)
    (π : List α) (hπ : Alt cands winner π)
    (hv : validIRV ((trueBallots cid (foundRecs useStyle cid mvr cv cards)).filterMap id ++ extra) π) :
    hitG (auditCompleteOpt data T s) cards.length cards [] ≤ c.riskLimit := by
  obtain ⟨r, hr, hfalse⟩ := irv_comparison_false_assertion cands hcands winner S hS cid
    (foundRecs useStyle cid mvr cv cards) hal extra hex π hπ hv
  obtain ⟨a, ha, means, margin, U, hm, hcv, hph, hmargin, hdata, sqrtF, cfg, test, hN, ht, hcu, hT, hdoc⟩ :=
    haud r hr
  refine irv_comparison_full_risk_limit mvr (cvFor cv (ca r)) cards cid cands r.kind r.winner r.loser r.eliminated
    (hSc r hr) ty hty useStyle means hm ?_ ?_ ?_ margin U hmargin data T s c hc a ha hdata sqrtF cfg test ?_ ht hcu
    hT hdoc hr0 hr1 hal (Nat.le_trans hfalse (Nat.add_le_add_left hexn _))
  · intro c' hc'
    obtain ⟨x, hx, rfl⟩ := List.mem_map.mp hc'
    exact hcv x hx
  · intro h0
    apply hne
    rw [aud_cards] at h0 ⊢
    rw [List.map_eq_nil_iff] at h0 ⊢
    exact h0
  · intro c' hc' hp hu
    rw [aud_cards] at hc'
    obtain ⟨x, hx, rfl⟩ := List.mem_map.mp hc'
    obtain ⟨hx1, hx2⟩ := List.mem_filter.mp hx
    exact hph x hx1 hx2 hp hu
  · rw [aud_cvFor_length]; exact hN

/-- the plain form: the reported winner is not the winner of some possible IRV count of the FOUND manual records of
the cards under audit -/
theorem irv_comparison_full_wrong_winner_risk_limit_found {β D : Type}
    (data : String → String → β → Option ℚ) (T : String → String → SeqTest) (s : State)
    (c : Contest) (hc : c ∈ s) (hr0 : 0 < c.riskLimit) (hr1 : c.riskLimit < 1)
    (cid : κ) (cands : List α) (hcands : cands.Nodup) (winner : α)
    (S : List (Raire.Assertion α D)) (hS : Sufficient cands winner S)
    (hSc : ∀ r ∈ S, r.kind = .nen → r.winner ∈ cands ∧ r.loser ∈ cands)
    (ty : AuditType) (hty : ty = .cardComparison ∨ ty = .oneaudit) (useStyle : Bool)
    (mvr : β → IrvMvr κ α) (cv : β → Cvr) (ca : Raire.Assertion α D → β → ℚ) (cards : List β)
    (hne : C03.aud useStyle (cards.map cv) ≠ [])
    (haud : AuditedComparisonFull data T c cid cands ty useStyle mvr cv ca cards S)
    (hal : ∀ p ∈ foundRecs useStyle cid mvr cv cards, C14.Aligned cid cands p)
    (π : List α) (hπ : Alt cands winner π)
    (hv : validIRV ((trueBallots cid (foundRecs useStyle cid mvr cv cards)).filterMap id) π) :
    hitG (auditCompleteOpt data T s) cards.length cards [] ≤ c.riskLimit :=
  irv_comparison_full_wrong_winner_risk_limit data T s c hc hr0 hr1 cid cands hcands winner S hS hSc ty hty useStyle
    mvr cv ca cards hne haud hal [] (by simp) (Nat.zero_le _) π hπ (by rw [List.append_nil]; exact hv)

/-- **The same for the assertions the modelled RAIRE search returns** (`compute_raire_assertions` on the REPORTED
cvrs `cvrs`, any difficulty function with a lawful order, any fuel, result non-empty): sufficiency is
`C04.raire_sufficient`, the NEN members' winner and loser are candidates by `C04.raire_true`. -/
theorem raire_comparison_full_wrong_winner_risk_limit {β D : Type} [Raire.DiffOrd D] [Raire.DiffOrd.Lawful D]
    (data : String → String → β → Option ℚ) (T : String → String → SeqTest) (s : State)
    (c : Contest) (hc : c ∈ s) (hr0 : 0 < c.riskLimit) (hr1 : c.riskLimit < 1)
    (asn : Nat → Nat → Nat → Nat → D) (C : Raire.Contest α) (cvrs : List (Option (Raire.Ballot α)))
    (winner : α) (hC : C.candidates.Nodup) (hn : 2 ≤ C.candidates.length) (fuel : Nat)
    (as : List (Raire.Assertion α D))
    (h : Raire.computeRaireAssertions asn C cvrs winner fuel = Raire.Res.ok as) (hne' : as ≠ [])
    (cid : κ) (ty : AuditType) (hty : ty = .cardComparison ∨ ty = .oneaudit) (useStyle : Bool)
    (mvr : β → IrvMvr κ α) (cv : β → Cvr) (ca : Raire.Assertion α D → β → ℚ) (cards : List β)
    (hne : C03.aud useStyle (cards.map cv) ≠ [])
    (haud : AuditedComparisonFull data T c cid C.candidates ty useStyle mvr cv ca cards as)
    (hal : ∀ p ∈ foundRecs useStyle cid mvr cv cards, C14.Aligned cid C.candidates p)
    (extra : List (Raire.Ballot α)) (hex : ∀ b ∈ extra, BallotWF b)
    (hexn : extra.length ≤ lostRecs useStyle cid mvr cv cards)
    (π : List α) (hπ : Alt C.candidates winner π)
    (hv : validIRV ((trueBallots cid (foundRecs useStyle cid mvr cv cards)).filterMap id ++ extra) π) :
    hitG (auditCompleteOpt data T s) cards.length cards [] ≤ c.riskLimit := by
  refine irv_comparison_full_wrong_winner_risk_limit data T s c hc hr0 hr1 cid C.candidates hC winner as
    (C04.raire_sufficient asn C cvrs winner hC hn fuel as h hne') ?_ ty hty useStyle mvr cv ca cards hne haud hal
    extra hex hexn π hπ hv
  intro r hr _
  obtain ⟨hw, hl, _⟩ := (C04.raire_true asn C cvrs winner hC hn fuel as h r hr).2
  exact ⟨hw, hl⟩

end Risk

/-! ### non-vacuity

Candidates 0, 1, 2; card comparison under style-based sampling; five cards.  The machine reported the rankings
(0,1), (1,0), (1,0), (2,1) and one `make_phantoms` phantom CVR (the contest listed, no votes, not pooled): candidate 2
is eliminated first and 1 beats 0 by 3 to 1 — reported winner 1.  On these CVRs the modelled RAIRE search returns
NEB(1, 2) (2 v 1) and NEN(1, 0 | 2 eliminated) (3 v 1); their reported assorter values are 1/2, 1, 1, 0, 1/2 (margin 1/5,
test bound 10/9) and 0, 1, 1, 1, 1/2 (margin 2/5, test bound 5/4).
The manual records: (0,1); (0,1) (the CVR said (1,0)); a record that does not list the contest; (2,1); the phantom's card
cannot be found.  Found ballots (0,1), (0,1), (2,1): candidate 1 has no first preference and is eliminated first, then 2,
and 0 wins — the reported winner is wrong, also if the unfindable card "really" holds (0,2).  Two records are scored 0.
Data 5/9, 5/18, 0, 5/9, 5/18 and 5/8, 0, 0, 5/8, 5/16 (means 1/3 and 5/16). -/

section example_
open Shangrla.NM

/-- a card of the example: its manual record; the votes dict and the phantom flag of its CVR -/
abbrev CardV := IrvMvr String Nat × (Votes String Nat × Bool)

/-- a found manual record / a CVR holding the ranking `r` -/
def mvrV (r : List Nat) : IrvMvr String Nat := { ballot := cardI r }
def cvrV (r : List Nat) : Votes String Nat × Bool := (fromVote (auditEnc r) "c", false)

def cardsV : List CardV :=
  [(mvrV [0, 1], cvrV [0, 1]), (mvrV [0, 1], cvrV [1, 0]),
   ({ ballot := ([("other", auditEnc [7])], [("other", genEnc [7])]) }, cvrV [1, 0]),
   (mvrV [2, 1], cvrV [2, 1]),
   ({ ballot := ([], []), phantom := true }, ([("c", [])], true))]

/-- the CVR of a card as the overstatement model reads it (no pools); the `a` field is set per assertion (`cvFor`) -/
def cvF (x : CardV) : Cvr :=
  { hasContest := hasContest x.2.1 "c", phantom := x.2.2, pool := false, tallyPool := none, a := 0, sampleNum := 0 }

/-- the reported assorter value of a card for the assertion `(k, w, l, E)`: the audit-side assorter
(`make_assertions_from_json`) applied to the CVR's votes -/
def caK (k : Raire.Kind) (w l : Nat) (E : List Nat) (x : CardV) : ℚ :=
  irvAssort "c" [0, 1, 2] k w l E (x.2.1, [])
def caV (r : Raire.Assertion Nat Nat) : CardV → ℚ := caK r.kind r.winner r.loser r.eliminated

/-- what the generator is given: the reported rankings; the phantom lists the contest with no ranking -/
def cvrsGenV : List (Option (Raire.Ballot Nat)) :=
  [C04.balEx [0, 1], C04.balEx [1, 0], C04.balEx [1, 0], C04.balEx [2, 1], some []]
def CV : Raire.Contest Nat := { candidates := [0, 1, 2], totBallots := 5, outcome := [] }

def cfgVb : Cfg := { N := some 5, u := 10/9, t := 1/2, randomOrder := true, kw := { eta := some 1 } }
def cfgVn : Cfg := { N := some 5, u := 5/4, t := 1/2, randomOrder := true, kw := { eta := some 1 } }
def dataV : String → String → CardV → Option ℚ := fun _ name x =>
  if name = "neb" then
    cardDatum .cardComparison true (XR.fin (1/5)) 1 none
      (mvrOfIRV (irvAssort "c" [0, 1, 2] .neb 1 2 []) "c" x.1, cvFor cvF (caK .neb 1 2 []) x)
  else
    cardDatum .cardComparison true (XR.fin (2/5)) 1 none
      (mvrOfIRV (irvAssort "c" [0, 1, 2] .nen 1 0 [2]) "c" x.1, cvFor cvF (caK .nen 1 0 [2]) x)
def TV : String → String → SeqTest := fun _ name =>
  if name = "neb" then NM.run sqrtRat cfgVb (.alpha .fixedAlt) else NM.run sqrtRat cfgVn (.alpha .fixedAlt)
def cV : Contest := { id := "c", riskLimit := 9/10, assertions := [{ name := "neb" }, { name := "nen" }] }
def sV : State := [cV]

theorem cfgVb_documented : C01.DocumentedFinite sqrtRat cfgVb (.alpha .fixedAlt) :=
  ⟨by norm_num [cfgVb], ⟨by norm_num [cfgVb, eps], by norm_num [cfgVb, eps], by norm_num [cfgVb]⟩, trivial⟩
theorem cfgVn_documented : C01.DocumentedFinite sqrtRat cfgVn (.alpha .fixedAlt) :=
  ⟨by norm_num [cfgVn], ⟨by norm_num [cfgVn, eps], by norm_num [cfgVn, eps], by norm_num [cfgVn]⟩, trivial⟩

/-- what the CVRs say: reported assorter values, margins and test bounds of the two assertions -/
example : cardsV.map (caK .neb 1 2 []) = [1/2, 1, 1, 0, 1/2] ∧ cardsV.map (caK .nen 1 0 [2]) = [0, 1, 1, 1, 1/2] ∧
    setMarginFromCvrs 1 true .cardComparison 1 (cardsV.map (cvFor cvF (caK .neb 1 2 [])))
      = .ok (XR.fin (1/5), XR.fin (10/9)) ∧
    setMarginFromCvrs 1 true .cardComparison 1 (cardsV.map (cvFor cvF (caK .nen 1 0 [2])))
      = .ok (XR.fin (2/5), XR.fin (5/4)) := by decide +kernel

/-- the data are read off the two models: `mvrOfIRV` of the manual record, then `mvrs_to_data` -/
example : cardsV.map (dataV "c" "neb") = [some (5/9), some (5/18), some 0, some (5/9), some (5/18)] ∧
    cardsV.map (dataV "c" "nen") = [some (5/8), some 0, some 0, some (5/8), some (5/16)] := by
  decide +kernel

/-- the found ballots, in the form `validIRV` takes them; two records are scored 0 (a record lacking the contest, an
unfindable card) -/
example : trueBallots "c" (foundRecs true "c" Prod.fst cvF cardsV)
      = [some [(0, 0), (1, 1)], some [(0, 0), (1, 1)], some [(2, 0), (1, 1)]] ∧
    lostRecs true "c" Prod.fst cvF cardsV = 2 := by decide +kernel

theorem foundV_aligned : ∀ p ∈ foundRecs true "c" Prod.fst cvF cardsV, C14.Aligned "c" [0, 1, 2] p := by
  intro p hp
  have h : foundRecs true "c" Prod.fst cvF cardsV = [cardI [0, 1], cardI [0, 1], cardI [2, 1]] := rfl
  rw [h] at hp
  simp only [List.mem_cons, List.not_mem_nil, or_false] at hp
  rcases hp with rfl | rfl | rfl <;> exact aligned_card _ _ _ (by decide) (by decide)

/-- `[1, 2, 0]` is a possible IRV count of the three found ballots together with the ballot (0,2) for the unfindable
card (tallies 0 ≤ 1, 0 ≤ 3; then 1 ≤ 3): candidate 0 wins -/
theorem validIRV_V :
    validIRV ((trueBallots "c" (foundRecs true "c" Prod.fst cvF cardsV)).filterMap id ++ [[(0, 0), (2, 1)]])
      [1, 2, 0] := by
  intro pre x post h y hy
  rcases pre with _ | ⟨p1, _ | ⟨p2, _ | ⟨p3, pre⟩⟩⟩
  · simp only [List.nil_append, List.cons.injEq] at h
    obtain ⟨rfl, rfl⟩ := h
    simp only [List.mem_cons, List.not_mem_nil, or_false] at hy
    rcases hy with rfl | rfl <;> decide +kernel
  · simp only [List.cons_append, List.nil_append, List.cons.injEq] at h
    obtain ⟨rfl, rfl, rfl⟩ := h
    simp only [List.mem_cons, List.not_mem_nil, or_false] at hy
    subst hy
    decide +kernel
  · simp only [List.cons_append, List.nil_append, List.cons.injEq] at h
    obtain ⟨rfl, rfl, rfl, rfl⟩ := h
    cases hy
  · simp at h

/-- ... and of the found ballots alone -/
theorem validIRV_V_found :
    validIRV ((trueBallots "c" (foundRecs true "c" Prod.fst cvF cardsV)).filterMap id) [1, 2, 0] := by
  intro pre x post h y hy
  rcases pre with _ | ⟨p1, _ | ⟨p2, _ | ⟨p3, pre⟩⟩⟩
  · simp only [List.nil_append, List.cons.injEq] at h
    obtain ⟨rfl, rfl⟩ := h
    simp only [List.mem_cons, List.not_mem_nil, or_false] at hy
    rcases hy with rfl | rfl <;> decide +kernel
  · simp only [List.cons_append, List.nil_append, List.cons.injEq] at h
    obtain ⟨rfl, rfl, rfl⟩ := h
    simp only [List.mem_cons, List.not_mem_nil, or_false] at hy
    subst hy
    decide +kernel
  · simp only [List.cons_append, List.nil_append, List.cons.injEq] at h
    obtain ⟨rfl, rfl, rfl, rfl⟩ := h
    cases hy
  · simp at h

/-- both assertions are false on the manual records in the sense of `irv_comparison_null_iff` (tallies over the found
ballots 0 v 1 and 1 v 2, two records scored 0) — and even in the plain sense -/
example :
    tallies (trueBallots "c" (foundRecs true "c" Prod.fst cvF cardsV)) .neb 1 2 [] = (0, 1) ∧
    tallies (trueBallots "c" (foundRecs true "c" Prod.fst cvF cardsV)) .nen 1 0 [2] = (1, 2) := by decide +kernel

/-- every hypothesis of `AuditedComparisonFull` holds for the set the modelled RAIRE search returns on the reported
CVRs -/
theorem auditedV (as : List (Raire.Assertion Nat Nat))
    (h : Raire.computeRaireAssertions C04.asnEx CV cvrsGenV 1 100 = Raire.Res.ok as) :
    as ≠ [] ∧ AuditedComparisonFull dataV TV cV "c" [0, 1, 2] .cardComparison true Prod.fst cvF caV cardsV as := by
  have hs : C04.summary (Raire.computeRaireAssertions C04.asnEx CV cvrsGenV 1 100) =
      some [(true, 1, 2, [], 2, 1, 5000), (false, 1, 0, [2], 3, 1, 2500)] := by rfl
  rw [h] at hs
  simp only [C04.summary, Option.some.injEq, List.map_eq_cons_iff, List.map_eq_nil_iff, Prod.mk.injEq] at hs
  obtain ⟨a1, l1, rfl, ⟨k1, w1, lo1, e1, -⟩, a2, l2, rfl, ⟨k2, w2, lo2, e2, -⟩, rfl⟩ := hs
  have hk1 : a1.kind = .neb := by simpa using k1
  have hk2 : a2.kind = .nen := by
    cases hk : a2.kind
    · rw [hk] at k2; cases k2
    · rfl
  refine ⟨by simp, ?_⟩
  intro r hr
  simp only [List.mem_cons, List.not_mem_nil, or_false] at hr
  rcases hr with rfl | rfl
  · unfold caV
    rw [hk1, w1, lo1, e1]
    exact ⟨{ name := "neb" }, by simp [cV], none, XR.fin (1/5), XR.fin (10/9), MeansFrom.unset,
      fun x _ => irvAssort_range _ _ _ _ _ _ _, by decide +kernel, by decide +kernel, rfl,
      sqrtRat, cfgVb, .alpha .fixedAlt, by decide +kernel, rfl, rfl, rfl, cfgVb_documented⟩
  · unfold caV
    rw [hk2, w2, lo2, e2]
    exact ⟨{ name := "nen" }, by simp [cV], none, XR.fin (2/5), XR.fin (5/4), MeansFrom.unset,
      fun x _ => irvAssort_range _ _ _ _ _ _ _, by decide +kernel, by decide +kernel, rfl,
      sqrtRat, cfgVn, .alpha .fixedAlt, by decide +kernel, rfl, rfl, rfl, cfgVn_documented⟩

/-- capstone: every hypothesis of `raire_comparison_full_wrong_winner_risk_limit` is satisfiable — the RAIRE output
for the reported CVRs (non-empty), both returned assertions audited on the literal model, aligned found ballots, a
ballot for the unfindable card (`extra`, at most `lostRecs` = 2 of them), and an IRV count of found ballots + `extra`
ending in candidate 0 rather than the reported winner 1 -/
example : hitG (auditCompleteOpt dataV TV sV) 5 cardsV [] ≤ 9/10 := by
  cases h : Raire.computeRaireAssertions C04.asnEx CV cvrsGenV 1 100 with
  | fuel =>
    have hs : C04.summary (Raire.computeRaireAssertions C04.asnEx CV cvrsGenV 1 100) ≠ none := by
      intro h0; cases h0
    rw [h] at hs; exact absurd rfl hs
  | err e =>
    have hs : C04.summary (Raire.computeRaireAssertions C04.asnEx CV cvrsGenV 1 100) ≠ none := by
      intro h0; cases h0
    rw [h] at hs; exact absurd rfl hs
  | ok as =>
    obtain ⟨hne, haud⟩ := auditedV as h
    exact raire_comparison_full_wrong_winner_risk_limit dataV TV sV cV (List.mem_singleton.2 rfl) (by norm_num [cV])
      (by norm_num [cV]) C04.asnEx CV cvrsGenV 1 (by decide) (by decide) 100 as h hne
      "c" .cardComparison (Or.inl rfl) true Prod.fst cvF caV cardsV (by decide +kernel) haud foundV_aligned
      [[(0, 0), (2, 1)]] (by intro b hb; rw [List.mem_singleton.1 hb]; exact ⟨by decide, by decide⟩)
      (by decide +kernel) [1, 2, 0] ⟨by decide, [1, 2], 0, rfl, by decide⟩ validIRV_V

/-- the plain form (`extra = []`) on a `Sufficient` set given directly -/
example (S : List (Raire.Assertion Nat Nat)) (hS : Sufficient [0, 1, 2] 1 S)
    (hSc : ∀ r ∈ S, r.kind = .nen → r.winner ∈ [0, 1, 2] ∧ r.loser ∈ [0, 1, 2])
    (haud : AuditedComparisonFull dataV TV cV "c" [0, 1, 2] .cardComparison true Prod.fst cvF caV cardsV S) :
    hitG (auditCompleteOpt dataV TV sV) 5 cardsV [] ≤ 9/10 :=
  irv_comparison_full_wrong_winner_risk_limit_found dataV TV sV cV (List.mem_singleton.2 rfl) (by norm_num [cV])
    (by norm_num [cV]) "c" [0, 1, 2] (by decide) 1 S hS hSc .cardComparison (Or.inl rfl) true Prod.fst cvF caV cardsV
    (by decide +kernel) haud foundV_aligned [1, 2, 0] ⟨by decide, [1, 2], 0, rfl, by decide⟩ validIRV_V_found

/-- ... and the bounded event really happens: although on the manual records candidate 0 beats the reported winner 1,
over the 120 orders of the five cards the audit is reported complete with probability 1/10 (kernel-computed) — below
the bound 9/10.  The real library on the same five cards (`make_assertions_from_json`, `set_all_margins_from_cvrs`,
`mvrs_to_data`, `set_p_values`, `summarize_status`; tools/example_irv_comparison_full.py) gives the same margins, test
bounds and data and completes in 12 of the 120 orders. -/
theorem example_irv_comparison_full_exact : hitG (auditCompleteOpt dataV TV sV) 5 cardsV [] = 1/10 := by
  decide +kernel

end example_

end Shangrla.RiskLimit
