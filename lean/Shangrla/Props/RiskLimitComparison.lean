/-
  C03 ∘ C06 ∘ C09 ∘ C01 for a card-level comparison audit (no style filter, no pools).

  Each card carries the assorter value of its CVR (`ca`) and of its manual record (`ma`), both in `[0,u]`; the
  margin `v = 2·mean(ca) − 1` is the reported one.  The assertion's data are the overstatement-assorter values
  `ovA v u ca ma = (1 − (ca − ma)/u)/(2 − v/u)`, its test a shipped `NonnegMean` test with `N` = number of cards,
  `t = 1/2`, `u = 2/(2 − v/u)`.  If the assertion is FALSE on the manual records (their assorter mean is at most
  1/2) the audit is ever reported complete with probability at most the contest's risk limit.
-/
import Shangrla.Props.RiskLimit
import Shangrla.Props.C03
import Shangrla.Props.C06

namespace Shangrla.RiskLimit
open Shangrla Shangrla.Ville Shangrla.Status Shangrla.AuditLoop Shangrla.Overstatement

theorem sum_le_length_mul {α : Type} (f : α → ℚ) (u : ℚ) : ∀ (l : List α), (∀ x ∈ l, f x ≤ u) →
    (l.map f).sum ≤ (l.length : ℚ) * u
  | [], _ => by simp
  | a :: l, h => by
    have h1 := h a (by simp)
    have h2 := sum_le_length_mul f u l (fun x hx => h x (by simp [hx]))
    simp only [List.map_cons, List.sum_cons, List.length_cons]
    push_cast
    linarith

/-- the overstatement values of a population whose manual records make the assertion false average at most
1/2 (C03's identity, at the level of values) -/
theorem comparison_null {α : Type} (ca ma : α → ℚ) (u : ℚ) (cards : List α) (hne : cards ≠ [])
    (hu : 0 < u) (hca : ∀ x ∈ cards, 0 ≤ ca x ∧ ca x ≤ u)
    (hfalse : (cards.map ma).sum ≤ (cards.length : ℚ) * (1 / 2)) :
    let v := 2 * ((cards.map ca).sum / cards.length) - 1
    (cards.map (fun x => ovA v u (ca x) (ma x))).sum ≤ (cards.length : ℚ) * (1 / 2) := by
  intro v
  have hn : (0 : ℚ) < cards.length := by
    have : 0 < cards.length := List.length_pos_iff.mpr hne
    exact_mod_cast this
  rw [C03.sum_ovA v u ca ma cards]
  -- mean(ca) ≤ u, so v ≤ 2u − 1 < 2u and the denominator is positive
  have hsum_le : (cards.map ca).sum ≤ (cards.length : ℚ) * u :=
    sum_le_length_mul ca u cards (fun x hx => (hca x hx).2)
  have hmean : (cards.map ca).sum / cards.length ≤ u := by
    rw [div_le_iff₀ hn]; linarith
  have hD : 0 < 2 - v / u := by
    have : v / u < 2 := by rw [div_lt_iff₀ hu]; simp only [v]; linarith
    linarith
  rw [div_le_iff₀ hD]
  -- n − (Σca − Σma)/u ≤ (n/2)(2 − v/u)  ⇔  Σma ≤ Σca − n v/2 = n/2   (as Σca = n (v+1)/2)
  have hSca : (cards.map ca).sum = (v + 1) / 2 * cards.length := by
    simp only [v]; field_simp; ring
  rw [hSca]
  have hune : u ≠ 0 := ne_of_gt hu
  have : ((cards.length : ℚ) - ((v + 1) / 2 * cards.length - (cards.map ma).sum) / u)
      = (cards.length : ℚ) * (1 / 2) * (2 - v / u) - ((cards.length : ℚ) * (1 / 2) - (cards.map ma).sum) / u := by
    field_simp; ring
  rw [this]
  have : 0 ≤ ((cards.length : ℚ) * (1 / 2) - (cards.map ma).sum) / u :=
    div_nonneg (by linarith) hu.le
  linarith

/-- **Risk limit of a card-level comparison audit** -/
theorem comparison_risk_limit {α : Type} (data : String → String → α → ℚ)
    (T : String → String → SeqTest) (s : State) (c : Contest) (hc : c ∈ s) (a : Assertion)
    (ha : a ∈ c.assertions) (cards : List α) (hne : cards ≠ []) (ca ma : α → ℚ) (u : ℚ) (hu : 0 < u)
    (hca : ∀ x ∈ cards, 0 ≤ ca x ∧ ca x ≤ u) (hma : ∀ x ∈ cards, 0 ≤ ma x ∧ ma x ≤ u)
    (hdata : data c.id a.name = fun x => ovA (2 * ((cards.map ca).sum / cards.length) - 1) u (ca x) (ma x))
    (sqrtF : ℚ → ℚ) (cfg : NM.Cfg) (test : NM.Test)
    (hN : cfg.N = some cards.length) (ht : cfg.t = 1 / 2)
    (hcu : cfg.u = 2 / (2 - (2 * ((cards.map ca).sum / cards.length) - 1) / u))
    (hT : T c.id a.name = NM.run sqrtF cfg test)
    (hdoc : C01.DocumentedFinite sqrtF cfg test)
    (hr0 : 0 < c.riskLimit) (hr1 : c.riskLimit < 1)
    (hfalse : (cards.map ma).sum ≤ (cards.length : ℚ) * (1 / 2)) :
    hitG (auditComplete data T s) cards.length cards [] ≤ c.riskLimit := by
  have hn : (0 : ℚ) < cards.length := by
    have : 0 < cards.length := List.length_pos_iff.mpr hne
    exact_mod_cast this
  have hsum_le : (cards.map ca).sum ≤ (cards.length : ℚ) * u :=
    sum_le_length_mul ca u cards (fun x hx => (hca x hx).2)
  have hv : 2 * ((cards.map ca).sum / cards.length) - 1 < 2 * u := by
    have : (cards.map ca).sum / cards.length ≤ u := by rw [div_le_iff₀ hn]; linarith
    linarith
  apply audit_risk_limit_run data T s c hc a ha cards sqrtF cfg test hN hT hdoc hr0 hr1
  · intro x hx
    rw [hdata, hcu]
    exact C06.ovA_range hu hv (hca x hx) (hma x hx)
  · rw [hdata, ht]
    exact comparison_null ca ma u cards hne hu hca hfalse

end Shangrla.RiskLimit
