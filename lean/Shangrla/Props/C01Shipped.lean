/-
  C01 for the shipped adaptive estimator and bet: ALPHA with shrink-truncate, betting with aGRAPA.
  Their predictable form is derived from the C05 theorems (strict causality, one value per observation)
  and the C13 theorems (finite values, range of the aGRAPA bet).
-/
import Shangrla.Props.C01IID
import Shangrla.Props.C13
import Shangrla.Lemmas.NMPredictable

namespace Shangrla.C01
open Shangrla Shangrla.NM XR Shangrla.C12 Shangrla.Ville Shangrla.C11 Shangrla.C05

/-- samples the tests accept: non-empty and no longer than the population -/
def ValidLen (N : Option Nat) (x : List ℚ) : Prop := x ≠ [] ∧ ∀ n, N = some n → x.length ≤ n

instance (N : Option Nat) : DecidablePred (ValidLen N) := by
  intro x
  unfold ValidLen
  cases N with
  | none => exact decidable_of_iff (x ≠ []) (by simp)
  | some n => exact decidable_of_iff (x ≠ [] ∧ x.length ≤ n) (by simp)

theorem validLen_prefix (N : Option Nat) (x : List ℚ) (i : Nat) (hx : ValidLen N x) (hi : i < x.length) :
    ValidLen N (x.take i ++ [0]) := by
  refine ⟨by simp, ?_⟩
  intro n hn
  have := hx.2 n hn
  simp only [List.length_append, List.length_take, List.length_cons, List.length_nil]
  omega

/-- **shrink-truncate in predictable form** (for `d > 0`, `minsd > 0`, `f ≥ 0`, positive square roots) -/
theorem shrink_predictable (sqrtF : ℚ → ℚ) (hs : ∀ q, 0 < q → 0 < sqrtF q) (cfg : Cfg)
    (hd : 0 < cfg.dV) (hf : 0 ≤ cfg.fV) (hmin : 0 < cfg.minsdV) (x : List ℚ) (hx : ValidLen cfg.N x) :
    shrinkTrunc sqrtF cfg x
      = .ok ((params (gOf (shrinkTrunc sqrtF cfg) (ValidLen cfg.N)) x).map XR.fin) := by
  apply predictable_of_causal (shrinkTrunc sqrtF cfg) (ValidLen cfg.N)
    (scE_estim sqrtF cfg .shrinkTrunc) (lpE_estim sqrtF cfg .shrinkTrunc)
  · intro y hy
    obtain ⟨l, h1, _, h3⟩ := NMRange.shrinkTrunc_all_fin sqrtF hs cfg y hy.1 hy.2 hd hf hmin
    exact ⟨l, h1, h3⟩
  · exact validLen_prefix cfg.N
  · exact hx

/-- **C01 for ALPHA with the shrink-truncate estimator, sampling without replacement** -/
theorem C01_finite_alpha_shrink (sqrtF : ℚ → ℚ) (hs : ∀ q, 0 < q → 0 < sqrtF q) (cfg : Cfg) (n : Nat)
    (hN : cfg.N = some n) (hd : 0 < cfg.dV) (hf : 0 ≤ cfg.fV) (hmin : 0 < cfg.minsdV)
    (hu : 0 ≤ cfg.u) (hat : 0 ≤ cfg.atol) (hat2 : cfg.atol < 1 / 2) (hrt : 0 ≤ cfg.rtol)
    (alpha : ℚ) (ha0 : 0 < alpha) (ha1 : alpha < 1)
    (pop : List ℚ) (hlen : pop.length = n) (hrange : ∀ a ∈ pop, 0 ≤ a ∧ a ≤ cfg.u)
    (hnull : pop.sum ≤ (n : ℚ) * cfg.t) :
    hitEv (reportedLast cfg (shrinkTrunc sqrtF cfg) alpha) pop.length pop [] ≤ alpha :=
  C01_finite_alpha cfg n hN (gOf (shrinkTrunc sqrtF cfg) (ValidLen cfg.N)) (shrinkTrunc sqrtF cfg)
    (fun h hne hl => shrink_predictable sqrtF hs cfg hd hf hmin h
      ⟨hne, by intro k hk; rw [hN] at hk; cases hk; exact hl⟩)
    hu hat hat2 hrt alpha ha0 ha1 pop hlen hrange hnull

/-- **C01 for ALPHA with the shrink-truncate estimator, independent draws** -/
theorem C01_iid_alpha_shrink (sqrtF : ℚ → ℚ) (hs : ∀ q, 0 < q → 0 < sqrtF q) (cfg : Cfg)
    (hN : cfg.N = none) (hd : 0 < cfg.dV) (hf : 0 ≤ cfg.fV) (hmin : 0 < cfg.minsdV)
    (ht0 : 0 < cfg.t) (htu : cfg.t < cfg.u)
    (hat : 0 ≤ cfg.atol) (hat2 : cfg.atol < 1 / 2) (hrt : 0 ≤ cfg.rtol)
    (alpha : ℚ) (ha0 : 0 < alpha) (ha1 : alpha < 1)
    (L : List (ℚ × ℚ)) (hL : IsLaw cfg.u L) (hmean : lawMean L ≤ cfg.t) (n : Nat) :
    hitIID L (reportedLast cfg (shrinkTrunc sqrtF cfg) alpha) n [] ≤ alpha :=
  C01_iid_alpha cfg hN (gOf (shrinkTrunc sqrtF cfg) (ValidLen cfg.N)) (shrinkTrunc sqrtF cfg)
    (fun h hne => shrink_predictable sqrtF hs cfg hd hf hmin h
      ⟨hne, by intro k hk; rw [hN] at hk; cases hk⟩)
    ht0 htu hat hat2 hrt alpha ha0 ha1 L hL hmean n

/-! ### aGRAPA -/

/-- the aGRAPA truncation levels are positive when `0 < cG0 ≤ cGmax` and `cGgrow ≥ 0` -/
theorem cJ_ne_zero (sqrtF : ℚ → ℚ) (hs : C13.SqrtOK sqrtF) (cfg : Cfg)
    (h0 : 0 < cfg.c0V) (h0m : cfg.c0V ≤ cfg.cmV) (hg : 0 ≤ cfg.cgV) (i : Nat) :
    NMRange.cJ sqrtF cfg.c0V cfg.cmV cfg.cgV i ≠ 0 := by
  have := (NMRange.cJ_between sqrtF hs.nonneg cfg.c0V cfg.cmV cfg.cgV hg h0m i).1
  linarith

/-- the aGRAPA bet as a function of the earlier draws -/
noncomputable def gAgrapa (sqrtF : ℚ → ℚ) (cfg : Cfg) : List ℚ → ℚ :=
  gOf (agrapa sqrtF cfg) (ValidLen cfg.N)

theorem agrapa_predictable (sqrtF : ℚ → ℚ) (hs : C13.SqrtOK sqrtF) (cfg : Cfg)
    (h0 : 0 < cfg.c0V) (h0m : cfg.c0V ≤ cfg.cmV) (hg : 0 ≤ cfg.cgV) (x : List ℚ) (hx : ValidLen cfg.N x) :
    agrapa sqrtF cfg x = .ok ((params (gAgrapa sqrtF cfg) x).map XR.fin) := by
  apply predictable_of_causal (agrapa sqrtF cfg) (ValidLen cfg.N)
    (scE_bet sqrtF cfg .agrapa) (lpE_bet sqrtF cfg .agrapa)
  · intro y hy
    obtain ⟨l, h1, _, h3⟩ := NMRange.agrapa_all_fin sqrtF hs.nonneg cfg y hy.1 hy.2 hg
      (cJ_ne_zero sqrtF hs cfg h0 h0m hg)
    exact ⟨l, h1, fun e he => by obtain ⟨b, hb, _⟩ := h3 e he; exact ⟨b, hb⟩⟩
  · exact validLen_prefix cfg.N
  · exact hx

theorem gAgrapa_nonneg (sqrtF : ℚ → ℚ) (hs : C13.SqrtOK sqrtF) (cfg : Cfg)
    (h0 : 0 < cfg.c0V) (h0m : cfg.c0V ≤ cfg.cmV) (hg : 0 ≤ cfg.cgV) (h : List ℚ) :
    0 ≤ gAgrapa sqrtF cfg h := by
  unfold gAgrapa gOf
  split
  · rename_i hv
    obtain ⟨l, h1, h2, h3⟩ := NMRange.agrapa_all_fin sqrtF hs.nonneg cfg (h ++ [0]) hv.1 hv.2 hg
      (cJ_ne_zero sqrtF hs cfg h0 h0m hg)
    rw [h1]
    simp only
    have hlt : h.length < l.length := by rw [h2]; simp
    rw [List.getD_eq_getElem?_getD, List.getElem?_eq_getElem hlt]
    obtain ⟨b, hb, hb0⟩ := h3 _ (List.getElem_mem hlt)
    simp only [Option.getD_some, hb, XR.toQ]
    exact hb0
  · exact le_refl _

theorem gAgrapa_le (sqrtF : ℚ → ℚ) (hs : C13.SqrtOK sqrtF) (cfg : Cfg)
    (h0 : 0 < cfg.c0V) (h0m : cfg.c0V ≤ cfg.cmV) (hm1 : cfg.cmV ≤ 1) (hg : 0 ≤ cfg.cgV) (h : List ℚ)
    (hm : 0 < muAfter cfg.N cfg.t h) : gAgrapa sqrtF cfg h * muAfter cfg.N cfg.t h ≤ 1 := by
  unfold gAgrapa gOf
  split
  · rename_i hv
    obtain ⟨l, h1, h2, h3⟩ := C13.agrapa_range sqrtF hs cfg (h ++ [0]) hv.1 hv.2 h0.le h0m hm1 hg
    rw [h1]
    simp only
    have hmu : (C13.mus cfg (h ++ [0]))[h.length]? = some (muAfter cfg.N cfg.t h) := by
      unfold C13.mus
      rw [nullMeans_params]
      unfold params
      simp only [List.length_append, List.length_cons, List.length_nil, Nat.zero_add]
      rw [List.getElem?_map, List.getElem?_range (by omega)]
      simp
    obtain ⟨b, hb, _, _, _, hb1⟩ := h3 h.length _ hmu hm
    rw [List.getD_eq_getElem?_getD, hb]
    simp only [Option.getD_some, XR.toQ]
    rw [le_div_iff₀ hm] at hb1
    exact hb1
  · simp

/-- **C01 for the betting martingale with the aGRAPA bet, sampling without replacement**
(`0 < c_grapa_0 ≤ c_grapa_max ≤ 1`, `c_grapa_grow ≥ 0`) -/
theorem C01_finite_betting_agrapa (sqrtF : ℚ → ℚ) (hs : C13.SqrtOK sqrtF) (cfg : Cfg) (n : Nat)
    (hN : cfg.N = some n)
    (h0 : 0 < cfg.c0V) (h0m : cfg.c0V ≤ cfg.cmV) (hm1 : cfg.cmV ≤ 1) (hg : 0 ≤ cfg.cgV)
    (hu : 0 ≤ cfg.u) (hat : 0 ≤ cfg.atol) (hat2 : cfg.atol < 1 / 2) (hrt : 0 ≤ cfg.rtol)
    (alpha : ℚ) (ha0 : 0 < alpha) (ha1 : alpha < 1)
    (pop : List ℚ) (hlen : pop.length = n) (hrange : ∀ a ∈ pop, 0 ≤ a ∧ a ≤ cfg.u)
    (hnull : pop.sum ≤ (n : ℚ) * cfg.t) :
    hitEv (reportedLastB cfg (agrapa sqrtF cfg) alpha) pop.length pop [] ≤ alpha := by
  refine C01_finite_betting cfg n hN (gAgrapa sqrtF cfg) (agrapa sqrtF cfg) ?_
    (gAgrapa_nonneg sqrtF hs cfg h0 h0m hg) ?_ hu hat hat2 hrt alpha ha0 ha1 pop hlen hrange hnull
  · intro h hne hl
    exact agrapa_predictable sqrtF hs cfg h0 h0m hg h ⟨hne, by intro k hk; rw [hN] at hk; cases hk; exact hl⟩
  · intro h hm0 _
    have := gAgrapa_le sqrtF hs cfg h0 h0m hm1 hg h (by rw [hN]; exact hm0)
    rwa [hN] at this

/-- **C01 for the betting martingale with the aGRAPA bet, independent draws** -/
theorem C01_iid_betting_agrapa (sqrtF : ℚ → ℚ) (hs : C13.SqrtOK sqrtF) (cfg : Cfg) (hN : cfg.N = none)
    (h0 : 0 < cfg.c0V) (h0m : cfg.c0V ≤ cfg.cmV) (hm1 : cfg.cmV ≤ 1) (hg : 0 ≤ cfg.cgV)
    (ht0 : 0 < cfg.t) (htu : cfg.t < cfg.u)
    (hat : 0 ≤ cfg.atol) (hat2 : cfg.atol < 1 / 2) (hrt : 0 ≤ cfg.rtol)
    (alpha : ℚ) (ha0 : 0 < alpha) (ha1 : alpha < 1)
    (L : List (ℚ × ℚ)) (hL : IsLaw cfg.u L) (hmean : lawMean L ≤ cfg.t) (n : Nat) :
    hitIID L (reportedLastB cfg (agrapa sqrtF cfg) alpha) n [] ≤ alpha := by
  refine C01_iid_betting cfg hN (gAgrapa sqrtF cfg) (agrapa sqrtF cfg) ?_
    (gAgrapa_nonneg sqrtF hs cfg h0 h0m hg) ?_ ht0 htu hat hat2 hrt alpha ha0 ha1 L hL hmean n
  · intro h hne
    exact agrapa_predictable sqrtF hs cfg h0 h0m hg h ⟨hne, by intro k hk; rw [hN] at hk; cases hk⟩
  · intro h
    have := gAgrapa_le sqrtF hs cfg h0 h0m hm1 hg h (by rw [hN]; exact ht0)
    rwa [hN] at this

end Shangrla.C01
