/-
  The audit-level risk limit when an assertion uses only SOME of the drawn cards (style-based sampling:
  `mvrs_to_data` keeps the cards that list the contest; C06/C07).

  `d : α → Option ℚ` gives the assertion's datum for a card, `none` when the card is not used for it.  Drawing
  the whole population in uniformly random order and looking only at the used cards is drawing the used cards in
  uniformly random order (`hitG_filterMap`): so a test that is sequentially valid on the sub-population of used
  cards bounds the probability that the audit is ever reported complete (`audit_risk_limit_style`).
-/
import Shangrla.Props.RiskLimit

namespace Shangrla.RiskLimit
open Shangrla Shangrla.Ville Shangrla.Status Shangrla.AuditLoop

/-! ### draws as (picked item, rest) pairs -/

/-- every way to take one item out of a list, in index order -/
def picks {α : Type} : List α → List (α × List α)
  | [] => []
  | a :: R => (a, R) :: (picks R).map (fun x => (x.1, a :: x.2))

theorem picks_length {α : Type} : ∀ R : List α, (picks R).length = R.length
  | [] => rfl
  | a :: R => by simp [picks, picks_length R]

/-- the sum over indices used by the draw trees is the sum over `picks` -/
theorem sum_range_picks {α : Type} : ∀ (R : List α) (F : α → List α → ℚ),
    ((List.range R.length).map (fun i => match R[i]? with
      | some a => F a (R.eraseIdx i)
      | none => 0)).sum = ((picks R).map (fun x => F x.1 x.2)).sum
  | [], F => by simp [picks]
  | a :: R, F => by
    have ih := sum_range_picks R (fun b r => F b (a :: r))
    simp only [List.length_cons, List.range_succ_eq_map, List.map_cons, List.sum_cons, List.map_map, picks]
    congr 1

theorem avgIdx_picks {α : Type} (R : List α) (F : α → List α → ℚ) :
    avgIdx R.length (fun i => match R[i]? with
      | some a => F a (R.eraseIdx i)
      | none => 0) = ((picks R).map (fun x => F x.1 x.2)).sum / R.length := by
  unfold avgIdx
  rw [sum_range_picks]

/-- `hitG` one step, in terms of `picks` -/
theorem hitG_succ {α : Type} (ev : List α → Bool) (fuel : Nat) (R h : List α) :
    hitG ev (fuel + 1) R h =
      if ev h then 1 else if R = [] then 0
      else ((picks R).map (fun x => hitG ev fuel x.2 (h ++ [x.1]))).sum / R.length := by
  conv_lhs => unfold hitG
  split
  · rfl
  · split
    · rfl
    · exact avgIdx_picks R (fun a r => hitG ev fuel r (h ++ [a]))

/-- `hitEv` one step, in terms of `picks` -/
theorem hitEv_succ (ev : List ℚ → Bool) (fuel : Nat) (R h : List ℚ) :
    hitEv ev (fuel + 1) R h =
      if ev h then 1 else if R = [] then 0
      else ((picks R).map (fun x => hitEv ev fuel x.2 (h ++ [x.1]))).sum / R.length := by
  conv_lhs => unfold hitEv
  split
  · rfl
  · split
    · rfl
    · rw [← avgIdx_picks R (fun a r => hitEv ev fuel r (h ++ [a]))]
      apply avgIdx_congr
      intro i hi
      rw [List.getElem?_eq_getElem hi]
      simp [List.getD_eq_getElem?_getD, hi]

/-! ### fuel beyond the number of remaining items changes nothing -/

theorem mem_picks_length {α : Type} : ∀ (R : List α) (x : α × List α), x ∈ picks R → x.2.length + 1 = R.length
  | [], x, hx => by simp [picks] at hx
  | a :: R, x, hx => by
    simp only [picks, List.mem_cons, List.mem_map] at hx
    rcases hx with rfl | ⟨y, hy, rfl⟩
    · simp
    · have := mem_picks_length R y hy
      simp; omega

theorem mem_picks_filterMap_length {α : Type} (d : α → Option ℚ) : ∀ (R : List α) (x : α × List α),
    x ∈ picks R → (x.2.filterMap d).length ≤ (R.filterMap d).length
  | [], x, hx => by simp [picks] at hx
  | a :: R, x, hx => by
    simp only [picks, List.mem_cons, List.mem_map] at hx
    rcases hx with rfl | ⟨y, hy, rfl⟩
    · simp only [List.filterMap_cons]
      split <;> simp
    · have := mem_picks_filterMap_length d R y hy
      simp only [List.filterMap_cons]
      split <;> simp <;> omega

theorem hitEv_fuel (ev : List ℚ → Bool) : ∀ (f1 f2 : Nat) (R h : List ℚ), R.length ≤ f1 → R.length ≤ f2 →
    hitEv ev f1 R h = hitEv ev f2 R h := by
  intro f1
  induction f1 with
  | zero =>
    intro f2 R h h1 _
    have hR : R = [] := List.length_eq_zero_iff.mp (by omega)
    subst hR
    cases f2 with
    | zero => rfl
    | succ f2 => rw [hitEv_succ]; unfold hitEv; split <;> simp
  | succ f1 ih =>
    intro f2 R h h1 h2
    cases f2 with
    | zero =>
      have hR : R = [] := List.length_eq_zero_iff.mp (by omega)
      subst hR
      rw [hitEv_succ]; unfold hitEv; split <;> simp
    | succ f2 =>
      rw [hitEv_succ, hitEv_succ]
      split
      · rfl
      · split
        · rfl
        · congr 2
          apply List.map_congr_left
          intro x hx
          have := mem_picks_length R x hx
          exact ih f2 x.2 _ (by omega) (by omega)

/-! ### the sub-population lemma -/

/-- splitting a sum over the draws of `R` into the draws of used cards (which are the draws of the
sub-population `R.filterMap d`) and the draws of unused cards (which leave the sub-population as it is) -/
theorem sum_picks_filterMap {α : Type} (d : α → Option ℚ) : ∀ (R : List α) (c : List ℚ → ℚ) (Ψ : ℚ → List ℚ → ℚ),
    ((picks R).map (fun x => match d x.1 with
      | none => c (x.2.filterMap d)
      | some y => Ψ y (x.2.filterMap d))).sum
      = ((R.length : ℚ) - ((R.filterMap d).length : ℚ)) * c (R.filterMap d)
        + ((picks (R.filterMap d)).map (fun x => Ψ x.1 x.2)).sum
  | [], c, Ψ => by simp [picks]
  | a :: R, c, Ψ => by
    cases hda : d a with
    | none =>
      have ih := sum_picks_filterMap d R c Ψ
      simp only [picks, List.map_cons, List.sum_cons, List.map_map, hda, List.filterMap_cons, List.length_cons]
      have : ((picks R).map ((fun x : α × List α => match d x.1 with
          | none => c (x.2.filterMap d)
          | some y => Ψ y (x.2.filterMap d)) ∘ fun x => (x.1, a :: x.2))).sum
          = ((picks R).map (fun x => match d x.1 with
          | none => c (x.2.filterMap d)
          | some y => Ψ y (x.2.filterMap d))).sum := by
        congr 1
        apply List.map_congr_left
        intro x _
        simp [hda]
      rw [this, ih]
      push_cast
      ring
    | some y =>
      have ih := sum_picks_filterMap d R (fun r => c (y :: r)) (fun z r => Ψ z (y :: r))
      simp only [picks, List.map_cons, List.sum_cons, List.map_map, hda, List.filterMap_cons, List.length_cons]
      have : ((picks R).map ((fun x : α × List α => match d x.1 with
          | none => c (x.2.filterMap d)
          | some y => Ψ y (x.2.filterMap d)) ∘ fun x => (x.1, a :: x.2))).sum
          = ((picks R).map (fun x => match d x.1 with
          | none => c (y :: x.2.filterMap d)
          | some z => Ψ z (y :: x.2.filterMap d))).sum := by
        congr 1
        apply List.map_congr_left
        intro x _
        simp [hda]
      rw [this, ih]
      simp only [Function.comp_def]
      push_cast
      ring

/-- **drawing the population and looking at the used cards = drawing the used cards.**  An event that sees
the drawn cards only through the data of the used ones has, on the draw tree of the whole population, the
probability it has on the draw tree of the sub-population. -/
theorem hitG_filterMap {α : Type} (d : α → Option ℚ) (ev : List ℚ → Bool) :
    ∀ (fuel : Nat) (R h : List α) (fuel' : Nat), R.length ≤ fuel → (R.filterMap d).length ≤ fuel' →
      hitG (fun h => ev (h.filterMap d)) fuel R h = hitEv ev fuel' (R.filterMap d) (h.filterMap d) := by
  intro fuel
  induction fuel with
  | zero =>
    intro R h fuel' h1 _
    have hR : R = [] := List.length_eq_zero_iff.mp (by omega)
    subst hR
    cases fuel' with
    | zero => simp [hitG, hitEv]
    | succ f => rw [hitEv_succ]; unfold hitG; split <;> simp
  | succ fuel ih =>
    intro R h fuel' h1 h2
    rw [hitG_succ]
    by_cases he : ev (h.filterMap d) = true
    · rw [if_pos he]
      cases fuel' with
      | zero => unfold hitEv; rw [if_pos he]
      | succ f => rw [hitEv_succ, if_pos he]
    · rw [if_neg he]
      by_cases hR : R = []
      · subst hR
        rw [if_pos rfl]
        cases fuel' with
        | zero => unfold hitEv; rw [if_neg he]
        | succ f => rw [hitEv_succ, if_neg he]; simp
      · rw [if_neg hR]
        have hn : (0 : ℚ) < R.length := by
          have : 0 < R.length := List.length_pos_iff.mpr hR
          exact_mod_cast this
        -- every branch, by the induction hypothesis, is a value on the sub-population with fuel `fuel'`
        have hbranch : ((picks R).map (fun x => hitG (fun h => ev (h.filterMap d)) fuel x.2 (h ++ [x.1]))).sum
            = ((picks R).map (fun x => match d x.1 with
                | none => hitEv ev fuel' (x.2.filterMap d) (h.filterMap d)
                | some y => hitEv ev fuel' (x.2.filterMap d) (h.filterMap d ++ [y]))).sum := by
          congr 1
          apply List.map_congr_left
          intro x hx
          have hl := mem_picks_length R x hx
          have hsub : (x.2.filterMap d).length ≤ fuel' := by
            have := mem_picks_filterMap_length d R x hx
            omega
          rw [ih x.2 (h ++ [x.1]) fuel' (by omega) hsub]
          cases hdx : d x.1 with
          | none => simp [List.filterMap_append, hdx]
          | some y => simp [List.filterMap_append, hdx]
        rw [hbranch, sum_picks_filterMap d R (fun r => hitEv ev fuel' r (h.filterMap d))
          (fun y r => hitEv ev fuel' r (h.filterMap d ++ [y]))]
        -- the draws of used cards add up to k times the sub-population value
        set R' := R.filterMap d with hR'
        set V := hitEv ev fuel' R' (h.filterMap d) with hV
        have hk : ((picks R').map (fun x => hitEv ev fuel' x.2 (h.filterMap d ++ [x.1]))).sum
            = (R'.length : ℚ) * V := by
          by_cases hR0 : R' = []
          · rw [hR0]; simp [picks]
          · have hkpos : (0 : ℚ) < R'.length := by
              have : 0 < R'.length := List.length_pos_iff.mpr hR0
              exact_mod_cast this
            obtain ⟨f, rfl⟩ : ∃ f, fuel' = f + 1 := by
              have : 0 < R'.length := List.length_pos_iff.mpr hR0
              exact ⟨fuel' - 1, by omega⟩
            have hVe : V = ((picks R').map (fun x => hitEv ev f x.2 (h.filterMap d ++ [x.1]))).sum / R'.length := by
              rw [hV, hitEv_succ, if_neg he, if_neg hR0]
            have hsame : ((picks R').map (fun x => hitEv ev (f + 1) x.2 (h.filterMap d ++ [x.1]))).sum
                = ((picks R').map (fun x => hitEv ev f x.2 (h.filterMap d ++ [x.1]))).sum := by
              congr 1
              apply List.map_congr_left
              intro x hx
              have := mem_picks_length R' x hx
              exact hitEv_fuel ev (f + 1) f x.2 _ (by omega) (by omega)
            rw [hsame, hVe]
            field_simp
        rw [hk]
        field_simp
        ring

/-! ### the audit with per-assertion card filters -/

-- `testOnOpt`, `auditCompleteOpt`: Model/AuditLoop.lean

/-- when every card is used, the style-based loop is the plain one -/
theorem auditCompleteOpt_some {α : Type} (data : String → String → α → ℚ) (T : String → String → SeqTest)
    (s : State) (h : List α) :
    auditCompleteOpt (fun c n x => some (data c n x)) T s h = auditComplete data T s h := by
  unfold auditCompleteOpt auditComplete testOnOpt testOn
  simp [List.filterMap_eq_map']

/-- **Risk limit of the audit, style-based.**  As `audit_risk_limit`, each assertion using only the drawn
cards for which its `data` is `some _` (the cards listing its contest): if the test of one assertion of one
contest is sequentially valid on the sub-population of the cards it uses, the audit is ever reported complete
with probability at most that contest's risk limit. -/
theorem audit_risk_limit_style {α : Type} (data : String → String → α → Option ℚ)
    (T : String → String → SeqTest) (s : State) (c : Contest) (hc : c ∈ s) (a : Assertion)
    (ha : a ∈ c.assertions) (cards : List α)
    (hC01 : hitEv (pLe (T c.id a.name) c.riskLimit) (cards.filterMap (data c.id a.name)).length
      (cards.filterMap (data c.id a.name)) [] ≤ c.riskLimit) :
    hitG (auditCompleteOpt data T s) cards.length cards [] ≤ c.riskLimit := by
  calc hitG (auditCompleteOpt data T s) cards.length cards []
      ≤ hitG (fun h => pLe (T c.id a.name) c.riskLimit (h.filterMap (data c.id a.name))) cards.length cards [] := by
        apply hitG_mono
        intro h hcomp
        unfold auditCompleteOpt at hcomp
        have := ((C09.complete_after_set (testOnOpt data T h) s).1 hcomp c hc).2 a ha
        unfold testOnOpt at this
        unfold pLe
        cases hT : T c.id a.name (h.filterMap (data c.id a.name)) with
        | ok r => rw [hT] at this; simpa using this
        | error e => rw [hT] at this; simp [XR.le] at this
    _ = hitEv (pLe (T c.id a.name) c.riskLimit) (cards.filterMap (data c.id a.name)).length
          (cards.filterMap (data c.id a.name)) [] := by
        rw [hitG_filterMap (data c.id a.name) (pLe (T c.id a.name) c.riskLimit) cards.length cards []
          (cards.filterMap (data c.id a.name)).length (le_refl _) (le_refl _)]
        simp
    _ ≤ c.riskLimit := hC01

/-- the same with `NonnegMean.test` in its documented range, `N` = the number of cards the assertion uses -/
theorem audit_risk_limit_style_run {α : Type} (data : String → String → α → Option ℚ)
    (T : String → String → SeqTest) (s : State) (c : Contest) (hc : c ∈ s) (a : Assertion)
    (ha : a ∈ c.assertions) (cards : List α) (sqrtF : ℚ → ℚ) (cfg : NM.Cfg) (test : NM.Test)
    (hN : cfg.N = some (cards.filterMap (data c.id a.name)).length)
    (hT : T c.id a.name = NM.run sqrtF cfg test)
    (hdoc : C01.DocumentedFinite sqrtF cfg test)
    (hr0 : 0 < c.riskLimit) (hr1 : c.riskLimit < 1)
    (hrange : ∀ v ∈ cards.filterMap (data c.id a.name), 0 ≤ v ∧ v ≤ cfg.u)
    (hnull : (cards.filterMap (data c.id a.name)).sum
      ≤ ((cards.filterMap (data c.id a.name)).length : ℚ) * cfg.t) :
    hitG (auditCompleteOpt data T s) cards.length cards [] ≤ c.riskLimit := by
  apply audit_risk_limit_style data T s c hc a ha cards
  have h := C01.C01_finite_run sqrtF cfg _ hN test hdoc c.riskLimit hr0 hr1
    (cards.filterMap (data c.id a.name)) rfl hrange hnull
  refine le_trans (hitEv_mono _ _ ?_ _ _ _) h
  intro dd hd
  rw [hT] at hd
  unfold pLe at hd
  unfold C01.reportedAnyRun C01.reportedAnyOf C01.anyLe
  cases hTd : NM.run sqrtF cfg test dd with
  | ok r => rw [hTd] at hd; simp only [Bool.or_eq_true]; exact Or.inl hd
  | error e => rw [hTd] at hd; cases hd

/-! ### non-vacuity -/

section example_
open Shangrla.NM

/-- a card either lists the contest (with the values of assertions `a` and `b`) or does not -/
def dataS : String → String → Option (ℚ × ℚ) → Option ℚ :=
  fun _ name x => x.map (fun p => if name = "a" then p.1 else p.2)
/-- five cards, one of which does not list the contest; on the other four assertion `a` is false -/
def cardsS : List (Option (ℚ × ℚ)) := [some (1, 1), none, some (0, 1), some (1/2, 1), some (1/2, 1)]

example : hitG (auditCompleteOpt dataS TX sX) 5 cardsS [] ≤ 3/5 :=
  audit_risk_limit_style_run dataS TX sX _ (List.mem_singleton.2 rfl) { name := "a" } (by simp)
    cardsS sqrtRat cfgX (.alpha .fixedAlt) rfl rfl
    ⟨by norm_num [cfgX], ⟨by norm_num [cfgX, eps], by norm_num [cfgX, eps], by norm_num [cfgX]⟩, trivial⟩
    (by norm_num) (by norm_num)
    (by intro v hv; simp [cardsS, dataS] at hv; rcases hv with rfl | rfl | rfl <;> norm_num [cfgX])
    (by simp [cardsS, dataS, cfgX]; norm_num)

/-- the unused cards change nothing: the probability is that of the four-card example (`example_exact`) -/
theorem example_style_exact : hitG (auditCompleteOpt dataS TX sX) 5 cardsS [] = 5/12 := by decide +kernel

end example_

end Shangrla.RiskLimit
