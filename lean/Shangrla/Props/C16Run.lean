/-
C16 ∘ C05: `prefix_crossing` with its non-anticipation hypothesis discharged for EVERY test, estimator and bet.

`C16.prefix_crossing` takes as hypothesis `hcausal` that the histories of the simulated populations `x ++ y` share
their first `|x|` entries.  That is property C05 (`C05.hist_prefix_run`).  Composed: if the test runs on every
simulated population, and on ONE of them the first `|x|` history entries first reach `≤ alpha` at index `i`, then
every simulation-based estimate with prefix `x` is `i + 1` — for every test, estimator, bet, configuration, `sqrtF`,
all non-empty tails, all repetition counts `≥ 1`, all quantiles `q ≤ 1`, whatever the seed.
-/
import Shangrla.Props.C16
import Shangrla.Props.C05

namespace Shangrla.C16
open Shangrla Shangrla.NM Shangrla.SS

/-- **prefix_crossing, every test** (the hypothesis about the test reduced to "it runs").  `y0` is any one of the
tails; `h0` the history on `x ++ y0`. -/
theorem prefix_crossing_run (sqrtF : Rat → Rat) (cfg : Cfg) (test : Test) (x : List Rat) (alpha : Rat)
    (n : Nat) (hN : cfg.N = some n) (tails : List (List Rat)) (hne : tails ≠ [])
    (hty : ∀ y ∈ tails, y ≠ [])
    (hruns : ∀ y ∈ tails, ∃ p h, run sqrtF cfg test (x ++ y) = .ok (p, h))
    (y0 : List Rat) (hy0 : y0 ∈ tails) (p0 : XR) (h0 : List XR)
    (hr0 : run sqrtF cfg test (x ++ y0) = .ok (p0, h0))
    (i : Nat) (hi : i < (h0.take x.length).length)
    (hp : XR.le (h0.take x.length)[i] (.fin alpha) = true)
    (hlt : ∀ j (hj : j < i), XR.le ((h0.take x.length)[j]'(Nat.lt_trans hj hi)) (.fin alpha) = false)
    (q : Rat) (hq : q ≤ 1) :
    sampleSize sqrtF cfg test x alpha (some tails) true q = .ok (i + 1) := by
  apply prefix_crossing sqrtF cfg test x alpha n hN (h0.take x.length) tails hne _ i hi hp hlt q hq
  intro y hy
  obtain ⟨p, h, hr⟩ := hruns y hy
  refine ⟨p, h, hr, ?_⟩
  exact C05.hist_prefix_run sqrtF cfg test x y y0 (hty y hy) (hty y0 hy0) p p0 h h0 hr hr0

/-- the deterministic-looking consequence: two runs with the same prefix data but different tails (seeds),
repetition counts and quantiles return the same estimate -/
theorem prefix_estimate_seed_irrelevant (sqrtF : Rat → Rat) (cfg : Cfg) (test : Test) (x : List Rat) (alpha : Rat)
    (n : Nat) (hN : cfg.N = some n) (tails tails' : List (List Rat)) (hne : tails ≠ []) (hne' : tails' ≠ [])
    (hty : ∀ y ∈ tails ++ tails', y ≠ [])
    (hruns : ∀ y ∈ tails ++ tails', ∃ p h, run sqrtF cfg test (x ++ y) = .ok (p, h))
    (y0 : List Rat) (hy0 : y0 ∈ tails) (p0 : XR) (h0 : List XR)
    (hr0 : run sqrtF cfg test (x ++ y0) = .ok (p0, h0))
    (i : Nat) (hi : i < (h0.take x.length).length)
    (hp : XR.le (h0.take x.length)[i] (.fin alpha) = true)
    (hlt : ∀ j (hj : j < i), XR.le ((h0.take x.length)[j]'(Nat.lt_trans hj hi)) (.fin alpha) = false)
    (q q' : Rat) (hq : q ≤ 1) (hq' : q' ≤ 1) :
    sampleSize sqrtF cfg test x alpha (some tails) true q
      = sampleSize sqrtF cfg test x alpha (some tails') true q' := by
  rw [prefix_crossing_run sqrtF cfg test x alpha n hN tails hne
    (fun y hy => hty y (List.mem_append_left _ hy)) (fun y hy => hruns y (List.mem_append_left _ hy))
    y0 hy0 p0 h0 hr0 i hi hp hlt q hq]
  -- the same crossing index is seen from any tail of the second family
  obtain ⟨y1, hy1⟩ := List.exists_mem_of_ne_nil tails' hne'
  obtain ⟨p1, h1, hr1⟩ := hruns y1 (List.mem_append_right _ hy1)
  have heq : h1.take x.length = h0.take x.length :=
    C05.hist_prefix_run sqrtF cfg test x y1 y0 (hty y1 (List.mem_append_right _ hy1))
      (hty y0 (List.mem_append_left _ hy0)) p1 p0 h1 h0 hr1 hr0
  have hi' : i < (h1.take x.length).length := by rw [heq]; exact hi
  symm
  apply prefix_crossing_run sqrtF cfg test x alpha n hN tails' hne'
    (fun y hy => hty y (List.mem_append_right _ hy)) (fun y hy => hruns y (List.mem_append_right _ hy))
    y1 hy1 p1 h1 hr1 i hi' _ _ q' hq'
  · simp only [heq]; exact hp
  · intro j hj; simp only [heq]; exact hlt j hj

theorem exists_of_isOk {r : Except NM.Err (XR × List XR)} (h : C05.isOk r = true) : ∃ p hh, r = .ok (p, hh) := by
  cases r with
  | ok v => exact ⟨v.1, v.2, rfl⟩
  | error e => cases h

/-- non-vacuity: ALPHA with the shrink-truncate estimator (C16's own example is Kaplan-Markov): the history on
`[1,1,1,0] ++ zeros` is `2/3, 20/51, 64/323, ...`, first `≤ 1/4` at index 2, so every estimate is 3 -/
example : sampleSize sqrtRat (Cfg.init true false 1 (some 12) (1/2) true { eta := some (3/4), d := some 10, c := some (1/4) })
    (.alpha .shrinkTrunc) [1, 1, 1, 0] (1/4)
    (some [[0, 0, 0, 0, 0, 0, 0, 0], [1, 0, 1, 1, 0, 1, 1, 1]]) true (9/10) = .ok 3 := by
  apply prefix_crossing_run sqrtRat _ (.alpha .shrinkTrunc) [1, 1, 1, 0] (1/4) 12 rfl _ (by simp)
    (by intro y hy; simp at hy; rcases hy with rfl | rfl <;> simp)
    (by intro y hy; simp at hy; rcases hy with rfl | rfl <;> exact exists_of_isOk (by decide +kernel))
    [0, 0, 0, 0, 0, 0, 0, 0] (by simp) (XR.fin (64/323))
    [XR.fin (2/3), XR.fin (20/51), XR.fin (64/323), XR.fin (3328/4845), 1, 1, 1, 1, 1, 1, 1, 1]
    (by decide +kernel) 2 (by decide +kernel) (by decide +kernel) (by decide +kernel) (9/10) (by norm_num)

end Shangrla.C16
