/-
  Consistent sampling inside the audit-level risk limit (C07 ∘ C10 ∘ C09 ∘ C01).

  `RiskLimit.lean` / `RiskLimitStyle.lean` bound the probability that the audit is EVER reported complete when the
  status is looked at after every draw of one uniformly random order of the cards.  A real audit with style
  information does not draw cards one by one: `assign_sample_nums` gives every card a pseudo-random sample number,
  and in each round `consistent_sampling` selects, for per-contest sample sizes `n_c` chosen by the auditors from what
  they have seen so far, the cards with the `n_c` smallest numbers among those listing `c`; `mvrs_to_data` then hands
  every assertion of `c` the cards of the sample that list `c` and whose number is at most `c`'s threshold.  This file
  puts that procedure (the literal models `assignSampleNums`, `consistentSampling`, `Rounds.step`, `dataIndices`,
  `setPValues`, `summarizeStatus`) under the risk limit.

  What "uniformly random sample numbers" is taken to mean.  `base` is `cvr_list` in its own (manifest) order; an
  order `π` is a list of card indices, a rearrangement of `0..n-1`.  The card at position `k` of `π` receives the
  number `num k`, `num` ANY strictly increasing function (it may even depend on `π`):
  `cvrList base num π = assignSampleNums (fun i => num (π.idxOf i)) base` — the literal `assign_sample_nums` with a
  generator whose `i`-th output is `num (position of i in π)`.  Every assignment of pairwise distinct numbers arises
  this way from exactly one `π` (`sortedPairs_cvrList`: sorting by sample number gives back `π`).  The probability
  space is the list `orders (List.range n)` of the `n!` orders, each with weight `1/n!` (`orders_length`,
  `mem_orders_iff`, `orders_nodup`: every rearrangement exactly once) — i.e. the numbers are pairwise distinct and
  the order they induce on the cards is uniformly distributed, as for independent draws from a continuous law or any
  exchangeable assignment of distinct numbers.  That SHA-256 outputs behave like this is outside the proof (DESIGN 4).
  `hitG_eq_count`: the draw-tree probability `hitG ev n R []` of the earlier files IS the fraction of these orders some
  prefix of which satisfies `ev`.

  Results (all for every `base`, every contest list with distinct ids, every data function `val`, every choice of tests):
  1. `cs_contest_data_prefix` (every order, every size vector within range, every acceptable carried-over list):
     the cards handed to a contest with `n_c ≥ 1` are the first `n_c` entries of the sub-order of `π` of the cards listing
     it (`C07.contest_data_eq` / `C10.contest_data_eq_any_prev` restated on `π`), and their values are the used values
     `(π.take k).filterMap datum` of a prefix of `π` itself.
  2. `csLoop_prefix` / `csAudit_ever` (every order, every ADAPTIVE policy, any number of rounds, redraw or continue in
     every round): reported complete at some round ⟹ the false assertion's p-value is at most the risk limit on the
     used values of some prefix of `π` — the event of `audit_risk_limit_style_run`.
  3. `consistent_sampling_audit_risk_limit`: the fraction of the `n!` orders on which `csAudit` reports completion is at
     most the risk limit of a contest one of whose assertions is false (`csAudit_fraction_le_hitG`, `hitG_filterMap`,
     `C01_finite_run`).
  4. `csAudit_eq_spec` (closed form without sorting) and a kernel-checked example: 5 cards, two contests of different
     styles, a two-round data-dependent policy; complete on 50 of the 120 orders (40 after round 1), bound 3/5.

  Hypotheses, and why.  Distinct sample numbers: built in (`num` strictly increasing); with ties `sorted` falls back on
  list order and C07 does not apply.  `SizesIn`: one size per contest and `n_c ≤ #cards listing c` (otherwise
  `consistent_sampling` raises).  `PolicyOk`: the contest with the false assertion gets `n_c ≥ 1` in every round unless
  that assertion was confirmed in an earlier round (see `PolicyOk`).  Sizes need NOT be non-decreasing from round to
  round: since repair F24 a contest's data are its first `n_c` cards whatever list is carried over
  (`C10.contest_data_eq_any_prev`), and the bound is on the event "ever, on some prefix", so a smaller later sample is
  another prefix.  Style information on (`Rounds.step true`): without it `mvrs_to_data` does not filter by contest and
  "a contest's own order" is not what an assertion sees.  The other contests, their assertions, tests, sizes (0 allowed)
  and data are unconstrained; the policy may be any function of the outputs so far (and, in the capstone, even of `π`).
-/
import Shangrla.Props.C10
import Shangrla.Props.RiskLimitStyle
import Mathlib.Data.Nat.Factorial.Basic

namespace Shangrla.RiskLimit
open Shangrla Shangrla.Ville Shangrla.Status Shangrla.AuditLoop

/-! ### the `n!` draw orders, and `hitG` as a count over them -/

/-- all draw orders of `R`, by the index of the item drawn first (then recursively): `n!` lists -/
def ordersF {α : Type} : Nat → List α → List (List α)
  | 0, _ => [[]]
  | _ + 1, [] => [[]]
  | f + 1, a :: R => (picks (a :: R)).flatMap (fun x => (ordersF f x.2).map (x.1 :: ·))

/-- the `n!` orders of a population (as index orderings: equal items are NOT identified) -/
def orders {α : Type} (R : List α) : List (List α) := ordersF R.length R

/-- `ev` holds on `h ++ p` for some prefix `p` of `σ` -/
def ever {α : Type} (ev : List α → Bool) : List α → List α → Bool
  | h, [] => ev h
  | h, a :: σ => ev h || ever ev (h ++ [a]) σ

theorem ever_iff {α : Type} (ev : List α → Bool) : ∀ (σ h : List α),
    ever ev h σ = true ↔ ∃ k, ev (h ++ σ.take k) = true
  | [], h => by simp [ever]
  | a :: σ, h => by
    simp only [ever, Bool.or_eq_true, ever_iff ev σ (h ++ [a])]
    constructor
    · rintro (h0 | ⟨k, hk⟩)
      · exact ⟨0, by simpa using h0⟩
      · exact ⟨k + 1, by simpa using hk⟩
    · rintro ⟨k, hk⟩
      cases k with
      | zero => left; simpa using hk
      | succ k => right; exact ⟨k, by simpa using hk⟩

theorem ever_of_ev {α : Type} (ev : List α → Bool) (h σ : List α) (he : ev h = true) : ever ev h σ = true :=
  (ever_iff ev σ h).2 ⟨0, by simpa using he⟩

theorem mem_picks_perm {α : Type} : ∀ (R : List α) (x : α × List α), x ∈ picks R → (x.1 :: x.2).Perm R
  | [], x, hx => by simp [picks] at hx
  | a :: R, x, hx => by
    simp only [picks, List.mem_cons, List.mem_map] at hx
    rcases hx with rfl | ⟨y, hy, rfl⟩
    · exact List.Perm.refl _
    · exact (List.Perm.swap _ _ _).trans ((mem_picks_perm R y hy).cons a)

/-- every member of `orders R` is a rearrangement of `R` -/
theorem mem_ordersF_perm {α : Type} : ∀ (f : Nat) (R σ : List α), R.length ≤ f → σ ∈ ordersF f R → σ.Perm R
  | 0, R, σ, hl, hm => by
    have hR : R = [] := List.length_eq_zero_iff.mp (by omega)
    subst hR; simp [ordersF] at hm; subst hm; exact List.Perm.refl _
  | f + 1, [], σ, _, hm => by simp [ordersF] at hm; subst hm; exact List.Perm.refl _
  | f + 1, a :: R, σ, hl, hm => by
    simp only [ordersF, List.mem_flatMap, List.mem_map] at hm
    obtain ⟨x, hx, τ, hτ, rfl⟩ := hm
    have hlen := mem_picks_length (a :: R) x hx
    have := mem_ordersF_perm f x.2 τ (by simp at hl hlen; omega) hτ
    exact (this.cons x.1).trans (mem_picks_perm _ x hx)

theorem mem_orders_perm {α : Type} {R σ : List α} (h : σ ∈ orders R) : σ.Perm R :=
  mem_ordersF_perm _ _ _ (le_refl _) h

theorem ordersF_length {α : Type} : ∀ (f : Nat) (R : List α), R.length ≤ f →
    (ordersF f R).length = R.length.factorial
  | 0, R, hl => by
    have hR : R = [] := List.length_eq_zero_iff.mp (by omega)
    subst hR; simp [ordersF]
  | f + 1, [], _ => by simp [ordersF]
  | f + 1, a :: R, hl => by
    simp only [ordersF, List.length_flatMap, List.length_map]
    have : (picks (a :: R)).map (fun x => (ordersF f x.2).length)
        = (picks (a :: R)).map (fun _ => R.length.factorial) := by
      apply List.map_congr_left
      intro x hx
      have hlen := mem_picks_length (a :: R) x hx
      simp only [List.length_cons] at hl hlen
      rw [ordersF_length f x.2 (by omega)]
      congr 1; omega
    rw [this]
    simp [picks_length, Nat.factorial_succ]

theorem orders_length {α : Type} (R : List α) : (orders R).length = R.length.factorial :=
  ordersF_length _ _ (le_refl _)

theorem sum_map_cast (l : List Nat) : (Nat.cast (l.sum) : ℚ) = (l.map (Nat.cast : Nat → ℚ)).sum := by
  induction l with
  | nil => simp
  | cons a l ih => simp [ih]

/-- **`hitG` is counting over the `n!` orders**: the number of orders some prefix of which satisfies `ev`
is `hitG · n!` -/
theorem count_ordersF {α : Type} (ev : List α → Bool) : ∀ (f : Nat) (R h : List α), R.length ≤ f →
    (((ordersF f R).filter (ever ev h)).length : ℚ) = hitG ev f R h * (R.length.factorial : ℚ)
  | 0, R, h, hl => by
    have hR : R = [] := List.length_eq_zero_iff.mp (by omega)
    subst hR
    by_cases he : ev h = true <;> simp [ordersF, hitG, ever, he]
  | f + 1, [], h, _ => by
    rw [hitG_succ]
    by_cases he : ev h = true <;> simp [ordersF, ever, he]
  | f + 1, a :: R, h, hl => by
    rw [hitG_succ]
    by_cases he : ev h = true
    · rw [if_pos he, one_mul]
      have : (ordersF (f + 1) (a :: R)).filter (ever ev h) = ordersF (f + 1) (a :: R) := by
        rw [List.filter_eq_self]
        intro σ _; exact ever_of_ev ev h σ he
      rw [this, ordersF_length _ _ hl]
    · rw [if_neg he, if_neg (by simp)]
      simp only [ordersF, List.filter_flatMap, List.length_flatMap, List.filter_map, List.length_map]
      rw [sum_map_cast, List.map_map]
      have hb : (picks (a :: R)).map ((Nat.cast : Nat → ℚ) ∘ fun x =>
            ((ordersF f x.2).filter (ever ev h ∘ fun τ => x.1 :: τ)).length)
          = (picks (a :: R)).map (fun x => hitG ev f x.2 (h ++ [x.1]) * (R.length.factorial : ℚ)) := by
        apply List.map_congr_left
        intro x hx
        have hlen := mem_picks_length (a :: R) x hx
        simp only [List.length_cons] at hl hlen
        have hf : (ever ev h ∘ fun τ => x.1 :: τ) = ever ev (h ++ [x.1]) := by
          funext τ
          simp only [Function.comp, ever]
          simp only [Bool.not_eq_true] at he
          simp [he]
        simp only [Function.comp_apply]
        rw [hf, count_ordersF ev f x.2 (h ++ [x.1]) (by omega)]
        congr 2; congr 1; omega
      rw [hb]
      have hsum : ∀ (l : List (α × List α)) (g : α × List α → ℚ) (c : ℚ),
          (l.map (fun x => g x * c)).sum = (l.map g).sum * c := by
        intro l g c
        induction l with
        | nil => simp
        | cons y l ih => simp [ih, add_mul]
      rw [hsum]
      simp only [List.length_cons, Nat.factorial_succ]
      push_cast
      have : ((R.length : ℚ) + 1) ≠ 0 := by positivity
      field_simp

/-- the fraction of the `n!` orders on which `ev` holds for some prefix is `hitG ev n R []` -/
theorem hitG_eq_count {α : Type} (ev : List α → Bool) (R : List α) :
    (((orders R).filter (ever ev [])).length : ℚ) / (R.length.factorial : ℚ) = hitG ev R.length R [] := by
  unfold orders
  rw [count_ordersF ev _ R [] (le_refl _)]
  have : (R.length.factorial : ℚ) ≠ 0 := by positivity
  field_simp

/-! ### `orders R` is exactly the set of rearrangements of `R`, each listed once -/

theorem exists_pick {α : Type} : ∀ (R : List α) (b : α), b ∈ R → ∃ x ∈ picks R, x.1 = b
  | a :: R, b, hb => by
    rcases List.mem_cons.1 hb with rfl | hb
    · exact ⟨(b, R), by simp [picks], rfl⟩
    · obtain ⟨y, hy, rfl⟩ := exists_pick R b hb
      exact ⟨(y.1, a :: y.2), by simp only [picks, List.mem_cons, List.mem_map]; exact Or.inr ⟨y, hy, rfl⟩, rfl⟩

theorem mem_ordersF_of_perm {α : Type} : ∀ (f : Nat) (R σ : List α), R.length ≤ f → σ.Perm R → σ ∈ ordersF f R
  | 0, R, σ, hl, hp => by
    have hR : R = [] := List.length_eq_zero_iff.mp (by omega)
    subst hR; simp [ordersF, hp.eq_nil]
  | f + 1, [], σ, _, hp => by simp [ordersF, hp.eq_nil]
  | f + 1, a :: R, σ, hl, hp => by
    cases σ with
    | nil => exact absurd hp.symm.eq_nil (by simp)
    | cons b τ =>
      obtain ⟨x, hx, rfl⟩ := exists_pick (a :: R) b (hp.mem_iff.1 (by simp))
      have hτ : τ.Perm x.2 := (hp.trans (mem_picks_perm _ x hx).symm).cons_inv
      have hlen := mem_picks_length (a :: R) x hx
      simp only [ordersF, List.mem_flatMap, List.mem_map]
      exact ⟨x, hx, τ, mem_ordersF_of_perm f x.2 τ (by simp at hl hlen; omega) hτ, rfl⟩

/-- the members of `orders R` are exactly the rearrangements of `R` -/
theorem mem_orders_iff {α : Type} {R σ : List α} : σ ∈ orders R ↔ σ.Perm R :=
  ⟨mem_orders_perm, mem_ordersF_of_perm _ _ _ (le_refl _)⟩

theorem picks_map_fst {α : Type} : ∀ R : List α, (picks R).map (·.1) = R
  | [] => rfl
  | a :: R => by simp [picks, List.map_map, Function.comp_def, picks_map_fst R]

theorem ordersF_nodup {α : Type} : ∀ (f : Nat) (R : List α), R.length ≤ f → R.Nodup → (ordersF f R).Nodup
  | 0, R, _, _ => by simp [ordersF]
  | f + 1, [], _, _ => by simp [ordersF]
  | f + 1, a :: R, hl, hnd => by
    simp only [ordersF]
    rw [List.nodup_flatMap]
    constructor
    · intro x hx
      have hlen := mem_picks_length (a :: R) x hx
      have hsub : x.2.Nodup := ((mem_picks_perm _ x hx).symm.nodup hnd).of_cons
      exact (ordersF_nodup f x.2 (by simp at hl hlen; omega) hsub).map (fun _ _ h => (List.cons.inj h).2)
    · have hp : (picks (a :: R)).Pairwise (fun x y => x.1 ≠ y.1) := by
        have := hnd
        rw [← picks_map_fst (a :: R), List.nodup_iff_pairwise_ne, List.pairwise_map] at this
        exact this
      refine hp.imp ?_
      intro x y hxy
      simp only [Function.onFun, List.disjoint_left, List.mem_map]
      rintro σ ⟨τ, _, rfl⟩ ⟨τ', _, h⟩
      exact hxy (List.cons.inj h).1.symm

/-- no order is listed twice when the items are distinct (as the card indices `List.range n` are): with
`orders_length` and `mem_orders_iff`, the fraction of `orders R` satisfying an event IS its probability under the
uniform distribution on the `n!` rearrangements -/
theorem orders_nodup {α : Type} {R : List α} (h : R.Nodup) : (orders R).Nodup := ordersF_nodup _ _ (le_refl _) h

/-! ### sample numbers from an order -/

/-- the value of the `i`-th call of the generator when the induced order of the cards is `π`: the card at
position `k` of `π` gets the number `num k` -/
def numsOf (num : Nat → Nat) (π : List Nat) : Nat → Nat := fun i => num (π.idxOf i)

/-- `cvr_list` after `assign_sample_nums`: `base` in its own (manifest) order with the sample numbers that put
the cards into the order `π` -/
def cvrList (base : List Sampling.Card) (num : Nat → Nat) (π : List Nat) : List Sampling.Card :=
  Sampling.assignSampleNums (numsOf num π) base

/-- card `i` lists contest `cid` -/
def lists (base : List Sampling.Card) (cid : String) (i : Nat) : Bool :=
  match base[i]? with
  | some cd => cd.has cid
  | none => false

/-- the (card, index) pair of index `i` -/
def pairAt (cl : List Sampling.Card) (i : Nat) : Sampling.Card × Nat := ((cl[i]?).getD ⟨[], 0, false⟩, i)

theorem cvrList_getElem? (base : List Sampling.Card) (num : Nat → Nat) (π : List Nat) (i : Nat) :
    (cvrList base num π)[i]? = base[i]?.map (fun cd => { cd with sampleNum := num (π.idxOf i) }) := by
  unfold cvrList Sampling.assignSampleNums numsOf
  rw [List.getElem?_map, List.getElem?_zipIdx]
  cases base[i]? <;> simp

theorem cvrList_length (base : List Sampling.Card) (num : Nat → Nat) (π : List Nat) :
    (cvrList base num π).length = base.length := by
  unfold cvrList Sampling.assignSampleNums; simp

theorem pairAt_has (base : List Sampling.Card) (num : Nat → Nat) (π : List Nat) (cid : String) (i : Nat) :
    (pairAt (cvrList base num π) i).1.has cid = lists base cid i := by
  unfold pairAt lists
  rw [cvrList_getElem?]
  cases base[i]? <;> simp [Sampling.Card.has]

theorem pairAt_num (base : List Sampling.Card) (num : Nat → Nat) (π : List Nat) (i : Nat) (hi : i < base.length) :
    (pairAt (cvrList base num π) i).1.sampleNum = num (π.idxOf i) := by
  unfold pairAt
  rw [cvrList_getElem?, List.getElem?_eq_getElem hi]
  simp

theorem idxOf_pairwise : ∀ {l : List Nat}, l.Nodup → l.Pairwise (fun a b => l.idxOf a < l.idxOf b)
  | [], _ => List.Pairwise.nil
  | x :: t, h => by
    rw [List.nodup_cons] at h
    rw [List.pairwise_cons]
    constructor
    · intro b hb
      have : x ≠ b := fun e => h.1 (e ▸ hb)
      simp [this]
    · refine List.Pairwise.imp_of_mem ?_ (idxOf_pairwise h.2)
      intro a b ha hb hab
      have h1 : x ≠ a := fun e => h.1 (e ▸ ha)
      have h2 : x ≠ b := fun e => h.1 (e ▸ hb)
      simp [h1, h2, hab]

theorem cvrList_distinct (base : List Sampling.Card) (num : Nat → Nat) (hnum : StrictMono num) (π : List Nat)
    (hπ : π.Perm (List.range base.length)) : Sampling.DistinctNums (cvrList base num π) := by
  unfold Sampling.DistinctNums cvrList
  rw [(C07.sample_nums_function_of_seed_and_position _ base).1]
  apply List.Nodup.map_on _ List.nodup_range
  intro x hx y _ hxy
  unfold numsOf at hxy
  exact (List.idxOf_inj (hπ.mem_iff.2 hx)).1 (hnum.injective hxy)

/-- **a uniformly random assignment of sample numbers IS a uniformly random order**: the cards sorted by the
sample numbers `numsOf num π` are the cards in the order `π` -/
theorem sortedPairs_cvrList (base : List Sampling.Card) (num : Nat → Nat) (hnum : StrictMono num) (π : List Nat)
    (hπ : π.Perm (List.range base.length)) :
    Sampling.sortedPairs (cvrList base num π) = π.map (pairAt (cvrList base num π)) := by
  set cl := cvrList base num π with hcl
  have hd := cvrList_distinct base num hnum π hπ
  apply Sampling.eq_of_perm_of_strict (R := Sampling.numLT)
  · intro a b h1 h2; unfold Sampling.numLT at h1 h2; omega
  · refine (Sampling.sortedPairs_perm cl).trans ?_
    have hz : cl.zipIdx = (List.range base.length).map (pairAt cl) := by
      apply List.ext_getElem?
      intro i
      rw [List.getElem?_zipIdx, List.getElem?_map]
      by_cases hi : i < base.length
      · have hi' : i < cl.length := by rw [hcl, cvrList_length]; exact hi
        rw [List.getElem?_range hi, List.getElem?_eq_getElem hi']
        simp [pairAt, List.getElem?_eq_getElem hi']
      · have hi' : ¬ i < cl.length := by rw [hcl, cvrList_length]; exact hi
        rw [List.getElem?_eq_none (by omega), List.getElem?_eq_none (by simp; omega)]
        rfl
    rw [hz]
    exact (hπ.map _).symm
  · exact Sampling.sortedPairs_strict hd
  · rw [List.pairwise_map]
    have hnd : π.Nodup := hπ.symm.nodup List.nodup_range
    refine List.Pairwise.imp_of_mem ?_ (idxOf_pairwise hnd)
    intro a b ha hb hab
    have ha' : a < base.length := List.mem_range.1 (hπ.mem_iff.1 ha)
    have hb' : b < base.length := List.mem_range.1 (hπ.mem_iff.1 hb)
    unfold Sampling.numLT
    rw [hcl, pairAt_num _ _ _ _ ha', pairAt_num _ _ _ _ hb']
    exact hnum hab

/-! ### one call of `consistent_sampling` along an order -/

theorem firstCards_cvrList (base : List Sampling.Card) (num : Nat → Nat) (hnum : StrictMono num) (π : List Nat)
    (hπ : π.Perm (List.range base.length)) (cid : String) (n : Nat) :
    (Sampling.firstCards (Sampling.sortedPairs (cvrList base num π)) cid n).map (·.2)
      = (π.filter (lists base cid)).take n := by
  unfold Sampling.firstCards Sampling.cCards
  rw [sortedPairs_cvrList base num hnum π hπ, List.filter_map]
  have h1 : ((fun p : Sampling.Card × Nat => p.1.has cid) ∘ pairAt (cvrList base num π)) = lists base cid := by
    funext i; exact pairAt_has base num π cid i
  rw [h1, ← List.map_take, List.map_map]
  have h2 : ((fun p : Sampling.Card × Nat => p.2) ∘ pairAt (cvrList base num π)) = id := by
    funext i; rfl
  rw [h2, List.map_id]

theorem filter_has_length (l : List Sampling.Card) (cid : String) :
    (l.filter (fun cd => cd.has cid)).length = ((l.map (·.styles)).filter (fun s => s.contains cid)).length := by
  rw [List.filter_map, List.length_map]
  rfl

theorem cvrList_count (base : List Sampling.Card) (num : Nat → Nat) (π : List Nat) (cid : String) :
    ((cvrList base num π).filter (fun cd => cd.has cid)).length = (base.filter (fun cd => cd.has cid)).length := by
  rw [filter_has_length, filter_has_length]
  unfold cvrList
  rw [(C07.sample_nums_function_of_seed_and_position _ base).2.1]

/-- the datum of card `i` for assertion `name` of contest `cid`: `val cid name i` if the card lists the contest
(`mvrs_to_data` under style), nothing otherwise -/
def datum (base : List Sampling.Card) (val : String → String → Nat → ℚ) (cid name : String) (i : Nat) : Option ℚ :=
  if lists base cid i then some (val cid name i) else none

theorem filter_map_eq_filterMap {α β : Type} (p : α → Bool) (f : α → β) : ∀ l : List α,
    (l.filter p).map f = l.filterMap (fun i => if p i then some (f i) else none)
  | [] => rfl
  | x :: l => by
    by_cases hx : p x = true
    · simp [hx, filter_map_eq_filterMap p f l]
    · simp [hx, filter_map_eq_filterMap p f l]

/-- a prefix of the used items is the used part of a prefix of all items -/
theorem take_filterMap_prefix {α β : Type} (d : α → Option β) : ∀ (L : List α) (m : Nat),
    ∃ k, (L.take k).filterMap d = (L.filterMap d).take m
  | [], m => ⟨0, by simp⟩
  | x :: L, 0 => ⟨0, by simp⟩
  | x :: L, m + 1 => by
    cases hx : d x with
    | none =>
      obtain ⟨k, hk⟩ := take_filterMap_prefix d L (m + 1)
      exact ⟨k + 1, by simp [hx, hk]⟩
    | some y =>
      obtain ⟨k, hk⟩ := take_filterMap_prefix d L m
      exact ⟨k + 1, by simp [hx, hk]⟩

/-- the data values of a contest's first `n` cards are the values of the used cards of a prefix of the order -/
theorem data_prefix (base : List Sampling.Card) (val : String → String → Nat → ℚ) (cid name : String)
    (π : List Nat) (n : Nat) :
    ∃ k, ((π.filter (lists base cid)).take n).map (val cid name) = (π.take k).filterMap (datum base val cid name) := by
  obtain ⟨k, hk⟩ := take_filterMap_prefix (datum base val cid name) π n
  refine ⟨k, ?_⟩
  rw [hk, List.map_take, filter_map_eq_filterMap]
  rfl

theorem cvrList_wf (base : List Sampling.Card) (num : Nat → Nat) (hnum : StrictMono num) (π : List Nat)
    (hπ : π.Perm (List.range base.length)) (contests : List Sampling.Contest)
    (hids : (contests.map (·.id)).Nodup)
    (hsz : ∀ con ∈ contests, con.sampleSize ≤ (base.filter (fun cd => cd.has con.id)).length) :
    C07.Wf (cvrList base num π) contests :=
  ⟨cvrList_distinct base num hnum π hπ, hids, fun con hm => by rw [cvrList_count]; exact hsz con hm⟩

/-- **Part 1 (deterministic, for every order).**  `base` is the card list in manifest order, `π` any order of
its indices, the sample numbers any strictly increasing numbering along `π`.  For every contest list with distinct
ids and sizes within range, every acceptable carried-over list (or none): `consistent_sampling` succeeds, and for
every contest `c` with `n_c ≥ 1` the cards that pass `mvrs_to_data`'s filter are the first `n_c` entries of the
sub-order of `π` of the cards listing `c`; the data values handed to any of its assertions are the used values of
a prefix of `π` itself. -/
theorem cs_contest_data_prefix (base : List Sampling.Card) (num : Nat → Nat) (hnum : StrictMono num) (π : List Nat)
    (hπ : π.Perm (List.range base.length)) (contests : List Sampling.Contest)
    (hids : (contests.map (·.id)).Nodup)
    (hsz : ∀ con ∈ contests, con.sampleSize ≤ (base.filter (fun cd => cd.has con.id)).length)
    (prev : Option (List Nat)) (hp : C10.PrevOk (cvrList base num π) (prev.getD [])) :
    ∃ sel flags, Sampling.consistentSampling (cvrList base num π) contests prev =
        .ok (sel, contests.map (C07.outContest (cvrList base num π)), flags) ∧
      ∀ con ∈ contests, 1 ≤ con.sampleSize →
        Sampling.Rounds.dataCards true (cvrList base num π) (C07.outContest (cvrList base num π) con) sel =
          .ok ((π.filter (lists base con.id)).take con.sampleSize) ∧
        ∀ (val : String → String → Nat → ℚ) (name : String), ∃ k,
          ((π.filter (lists base con.id)).take con.sampleSize).map (val con.id name)
            = (π.take k).filterMap (datum base val con.id name) := by
  obtain ⟨sel, flags, he, hd⟩ := C10.contest_data_eq_any_prev (cvrList_wf base num hnum π hπ contests hids hsz) prev hp
  refine ⟨sel, flags, he, ?_⟩
  intro con hm h1
  refine ⟨?_, fun val name => data_prefix base val con.id name π con.sampleSize⟩
  rw [hd con hm h1, firstCards_cvrList base num hnum π hπ]

/-! ### the multi-round audit with consistent sampling -/

abbrev CsOut := Sampling.Rounds.Out
abbrev CsRound := Sampling.Rounds.Round
abbrev CsState := Sampling.Rounds.State

/-- the card indices that are the data of contest `cid` in a round whose per-contest data (in dict order `ids`)
are `dc`; `none` when `mvrs_to_data` raised for that contest or the contest is not there -/
def dataOf (ids : List String) (dc : List (Except Sampling.Err (List Nat))) (cid : String) : Option (List Nat) :=
  match (ids.zip dc).lookup cid with
  | some (.ok idx) => some idx
  | _ => none

/-- what `set_p_values` evaluates after a round: the test of (contest, assertion) on the values of the contest's
data cards, in sample-number order; no data or an exception of the test = no p-value (NaN, never `≤`) -/
def roundTest (ids : List String) (val : String → String → Nat → ℚ) (T : String → String → SeqTest)
    (dc : List (Except Sampling.Err (List Nat))) : Status.Test :=
  fun cid name => match dataOf ids dc cid with
    | some idx => (match T cid name (idx.map (val cid name)) with
        | .ok r => r
        | .error _ => (XR.nan, []))
    | none => (XR.nan, [])

/-- `summarize_status` after `set_p_values` on a round's data -/
def roundComplete (ids : List String) (val : String → String → Nat → ℚ) (T : String → String → SeqTest)
    (s : Status.State) (dc : List (Except Sampling.Err (List Nat))) : Bool :=
  summarizeStatus (setPValues (roundTest ids val T dc) s).2

/-- the audit loop: at most `K` rounds; each round the policy — ANY function of the outputs of the rounds so far
(selected cards, thresholds, every contest's data cards; hence of every value seen) — chooses the new
`sample_size` of every contest and whether to continue from the previous selection or redraw; `Rounds.step` (the
literal model: set sizes, `consistent_sampling`, `mvrs_to_data` filter per contest, thresholds and selection
carried over) is run; the audit is reported complete at the first round whose data confirm every assertion.
An exception of `consistent_sampling` ends the audit without a report. -/
def csLoop (ids : List String) (val : String → String → Nat → ℚ) (T : String → String → SeqTest)
    (s : Status.State) (pol : List CsOut → CsRound) : Nat → CsState → List CsOut → Bool
  | 0, _, _ => false
  | K + 1, st, seen =>
    match Sampling.Rounds.step true st (pol seen) with
    | .error _ => false
    | .ok (st', o) => roundComplete ids val T s o.dataCards || csLoop ids val T s pol K st' (seen ++ [o])

/-- the state before the first round: `cvr_list` = `base` with the sample numbers of the order `π`, nothing
sampled, nothing carried over -/
def csInit (base : List Sampling.Card) (num : Nat → Nat) (cons0 : List Sampling.Contest) (π : List Nat) : CsState :=
  { cards := cvrList base num π, contests := cons0, sampled := base.map (fun _ => false), prev := [] }

/-- **the audit as a function of the order `π`**: reported complete at some round -/
def csAudit (base : List Sampling.Card) (num : Nat → Nat) (cons0 : List Sampling.Contest) (s : Status.State)
    (T : String → String → SeqTest) (val : String → String → Nat → ℚ) (pol : List CsOut → CsRound) (K : Nat)
    (π : List Nat) : Bool :=
  csLoop (cons0.map (·.id)) val T s pol K (csInit base num cons0 π) []

/-- sizes a call of `consistent_sampling` accepts (`ids` = the contests in dict order): one size per contest and
`n_c ≤ #cards listing c` (beyond it the walk runs off the list: `IndexError`) -/
def SizesIn (base : List Sampling.Card) (ids : List String) (sizes : List Nat) : Prop :=
  sizes.length = ids.length ∧ ∀ (k : Nat) (id : String) (n : Nat), ids[k]? = some id → sizes[k]? = some n →
    n ≤ (base.filter (fun cd => cd.has id)).length

/-- the simple condition on a round: sizes within range and at least one card for contest `cid` -/
def SizesOk (base : List Sampling.Card) (ids : List String) (cid : String) (sizes : List Nat) : Prop :=
  sizes.length = ids.length ∧ ∀ (k : Nat) (id : String) (n : Nat), ids[k]? = some id → sizes[k]? = some n →
    n ≤ (base.filter (fun cd => cd.has id)).length ∧ (id = cid → 1 ≤ n)

/-- assertion `a` of contest `c` was confirmed on the data of the round with output `o` -/
def confirmedIn (ids : List String) (val : String → String → Nat → ℚ) (T : String → String → SeqTest)
    (c : Status.Contest) (a : Assertion) (o : CsOut) : Bool :=
  match dataOf ids o.dataCards c.id with
  | some idx => pLe (T c.id a.name) c.riskLimit (idx.map (val c.id a.name))
  | none => false

/-- **what the policy must respect** in the round that follows the outputs `seen` (`cid` = the contest with the
false assertion, `conf o` = "that assertion was confirmed on the data of round `o`"): sizes within range, and
contest `cid` gets at least one card UNLESS the assertion has been confirmed in an earlier round.  With `n_c = 0`
the call does not set the contest's threshold and `mvrs_to_data` uses a stale one or raises (DESIGN F20), so its
data need not be a prefix of anything; `Audit.find_sample_size` (L1080-1122) sets `sample_size = 0` exactly for a
contest all of whose assertions are already `proved`, which is the exception allowed here. -/
def PolicyOk (base : List Sampling.Card) (ids : List String) (conf : CsOut → Bool) (cid : String)
    (seen : List CsOut) (sizes : List Nat) : Prop :=
  sizes.length = ids.length ∧ ∀ (k : Nat) (id : String) (n : Nat), ids[k]? = some id → sizes[k]? = some n →
    n ≤ (base.filter (fun cd => cd.has id)).length ∧ (id = cid → 1 ≤ n ∨ ∃ o ∈ seen, conf o = true)

theorem SizesOk.sizesIn {base : List Sampling.Card} {ids : List String} {cid : String} {sizes : List Nat}
    (h : SizesOk base ids cid sizes) : SizesIn base ids sizes :=
  ⟨h.1, fun k id n h1 h2 => (h.2 k id n h1 h2).1⟩

theorem PolicyOk.sizesIn {base : List Sampling.Card} {ids : List String} {conf : CsOut → Bool} {cid : String}
    {seen : List CsOut} {sizes : List Nat} (h : PolicyOk base ids conf cid seen sizes) : SizesIn base ids sizes :=
  ⟨h.1, fun k id n h1 h2 => (h.2 k id n h1 h2).1⟩

theorem SizesOk.policyOk {base : List Sampling.Card} {ids : List String} {cid : String} {sizes : List Nat}
    (h : SizesOk base ids cid sizes) (conf : CsOut → Bool) (seen : List CsOut) :
    PolicyOk base ids conf cid seen sizes :=
  ⟨h.1, fun k id n h1 h2 => ⟨(h.2 k id n h1 h2).1, fun e => Or.inl ((h.2 k id n h1 h2).2 e)⟩⟩

theorem setSizes_eq_zipWith : ∀ (cons : List Sampling.Contest) (ns : List Nat), cons.length = ns.length →
    Sampling.Rounds.setSizes cons ns = List.zipWith (fun con n => { con with sampleSize := n }) cons ns
  | [], [], _ => rfl
  | [], _ :: _, h => by simp at h
  | _ :: _, [], h => by simp at h
  | con :: cs, n :: ns, h => by
    simp only [Sampling.Rounds.setSizes, List.zipWith_cons_cons]
    rw [setSizes_eq_zipWith cs ns (by simpa using h)]

theorem setSizes_getElem? (cons : List Sampling.Contest) (ns : List Nat) (hl : cons.length = ns.length) (k : Nat)
    (con : Sampling.Contest) (h : (Sampling.Rounds.setSizes cons ns)[k]? = some con) :
    ∃ con0 n, cons[k]? = some con0 ∧ ns[k]? = some n ∧ con = { con0 with sampleSize := n } := by
  rw [setSizes_eq_zipWith cons ns hl, List.getElem?_zipWith] at h
  cases h1 : cons[k]? with
  | none => rw [h1] at h; simp at h
  | some con0 =>
    cases h2 : ns[k]? with
    | none => rw [h1, h2] at h; simp at h
    | some n =>
      rw [h1, h2] at h
      simp only [Option.some.injEq] at h
      exact ⟨con0, n, rfl, rfl, h.symm⟩

theorem setSizes_map_id : ∀ (cons : List Sampling.Contest) (ns : List Nat),
    (Sampling.Rounds.setSizes cons ns).map (·.id) = cons.map (·.id)
  | [], _ => by cases ‹List Nat› <;> rfl
  | _ :: _, [] => rfl
  | con :: cs, n :: ns => by simp [Sampling.Rounds.setSizes, setSizes_map_id cs ns]

theorem wf_setSizes (base : List Sampling.Card) (num : Nat → Nat) (hnum : StrictMono num) (π : List Nat)
    (hπ : π.Perm (List.range base.length)) (cons : List Sampling.Contest) (hids : (cons.map (·.id)).Nodup)
    (sizes : List Nat) (hs : SizesIn base (cons.map (·.id)) sizes) :
    C07.Wf (cvrList base num π) (Sampling.Rounds.setSizes cons sizes) := by
  apply cvrList_wf base num hnum π hπ
  · rw [setSizes_map_id]; exact hids
  · intro con hm
    obtain ⟨k, hk⟩ := List.mem_iff_getElem?.1 hm
    obtain ⟨con0, n, h1, h2, rfl⟩ := setSizes_getElem? cons sizes (by rw [hs.1]; simp) k con hk
    exact hs.2 k con0.id n (by rw [List.getElem?_map, h1]; rfl) h2

/-- the invariant of the loop -/
structure CsInv (cl : List Sampling.Card) (ids : List String) (st : CsState) : Prop where
  cards : st.cards = cl
  ids : st.contests.map (·.id) = ids
  prev : C10.PrevOk cl st.prev

/-- **one round in closed form**: it succeeds, the invariant is kept, and every contest given `n ≥ 1` cards has as
its data the first `n` entries of the sub-order of `π` of the cards listing it -/
theorem step_closed (base : List Sampling.Card) (num : Nat → Nat) (hnum : StrictMono num) (π : List Nat)
    (hπ : π.Perm (List.range base.length)) (ids : List String) (hids : ids.Nodup)
    (st : CsState) (hinv : CsInv (cvrList base num π) ids st) (r : CsRound) (hs : SizesIn base ids r.sizes) :
    ∃ st' o, Sampling.Rounds.step true st r = .ok (st', o) ∧ CsInv (cvrList base num π) ids st' ∧
      o.dataCards.length = ids.length ∧
      ∀ (k : Nat) (id : String) (n : Nat), ids[k]? = some id → r.sizes[k]? = some n → 1 ≤ n →
        o.dataCards[k]? = some (.ok ((π.filter (lists base id)).take n)) := by
  obtain ⟨hcards, hidsEq, hprev⟩ := hinv
  have hids' : (st.contests.map (·.id)).Nodup := by rw [hidsEq]; exact hids
  have hs' : SizesIn base (st.contests.map (·.id)) r.sizes := by rw [hidsEq]; exact hs
  have hwf : C07.Wf st.cards (Sampling.Rounds.setSizes st.contests r.sizes) := by
    rw [hcards]; exact wf_setSizes base num hnum π hπ st.contests hids' r.sizes hs'
  obtain ⟨st', o, e, hc, hcon, hpv, hsel, hdata⟩ := C10.step_eq st r hwf (by rw [hcards]; exact hprev)
  have hlen : st.contests.length = r.sizes.length := by
    have := hs'.1; simp at this; exact this.symm
  refine ⟨st', o, e, ⟨hc.trans hcards, ?_, ?_⟩, ?_, ?_⟩
  · rw [hcon, List.map_map]
    have : ((fun c : Sampling.Contest => c.id) ∘ C07.outContest st.cards) = fun c => c.id := by funext c; rfl
    rw [this, setSizes_map_id, hidsEq]
  · rw [hpv, hsel, ← hcards]; exact C10.selSpec_ok _ _
  · rw [hdata, List.length_map, List.length_map, ← hidsEq]
    have := congrArg List.length (setSizes_map_id st.contests r.sizes)
    simpa using this
  · intro k id n hk hn h1
    rw [← hidsEq, List.getElem?_map] at hk
    cases hk0 : st.contests[k]? with
    | none => rw [hk0] at hk; simp at hk
    | some con0 =>
      rw [hk0] at hk
      simp only [Option.map_some, Option.some.injEq] at hk
      have hk' : (Sampling.Rounds.setSizes st.contests r.sizes)[k]? = some { con0 with sampleSize := n } := by
        rw [setSizes_eq_zipWith _ _ hlen, List.getElem?_zipWith, hk0, hn]
      rw [hdata, List.getElem?_map, List.getElem?_map, hk', hsel]
      simp only [Option.map_some]
      rw [C10.dataCards_selSpec hwf _ _ (List.mem_iff_getElem?.2 ⟨k, hk'⟩) h1]
      simp only [hcards]
      rw [firstCards_cvrList base num hnum π hπ, hk]

theorem lookup_zip_some {β : Type} : ∀ (ids : List String) (ds : List β) (cid : String) (d : β),
    (ids.zip ds).lookup cid = some d → ∃ k : Nat, ids[k]? = some cid ∧ ds[k]? = some d
  | [], _, _, _, h => by simp at h
  | _ :: _, [], _, _, h => by simp at h
  | id :: ids, d0 :: ds, cid, d, h => by
    rw [List.zip_cons_cons, List.lookup_cons] at h
    by_cases hb : (cid == id) = true
    · rw [hb] at h
      simp only [Option.some.injEq] at h
      exact ⟨0, by simp [(beq_iff_eq.1 hb)], by simp [h]⟩
    · simp only [Bool.not_eq_true] at hb
      rw [hb] at h
      obtain ⟨k, h1, h2⟩ := lookup_zip_some ids ds cid d h
      exact ⟨k + 1, by simpa using h1, by simpa using h2⟩

/-- completion of a round forces the p-value of every assertion, on the data cards of its contest, below the
contest's risk limit (C09) -/
theorem roundComplete_forces (ids : List String) (val : String → String → Nat → ℚ) (T : String → String → SeqTest)
    (s : Status.State) (c : Status.Contest) (hc : c ∈ s) (a : Assertion) (ha : a ∈ c.assertions)
    (dc : List (Except Sampling.Err (List Nat))) (hcomp : roundComplete ids val T s dc = true) :
    ∃ idx, dataOf ids dc c.id = some idx ∧ pLe (T c.id a.name) c.riskLimit (idx.map (val c.id a.name)) = true := by
  unfold roundComplete at hcomp
  have := ((C09.complete_after_set (roundTest ids val T dc) s).1 hcomp c hc).2 a ha
  unfold roundTest at this
  cases hd : dataOf ids dc c.id with
  | none => rw [hd] at this; simp [XR.le] at this
  | some idx =>
    rw [hd] at this
    dsimp only at this
    refine ⟨idx, rfl, ?_⟩
    unfold pLe
    cases hT : T c.id a.name (idx.map (val c.id a.name)) with
    | ok r => rw [hT] at this; simpa using this
    | error e => rw [hT] at this; simp [XR.le] at this

/-- **Part 2 (event inclusion, for every order).**  Whatever the policy and the number of rounds: if the audit is
reported complete at some round, the p-value of assertion `a` of contest `c` is at most `c`'s risk limit on the
used values of SOME prefix of the order `π`.  (`seen` = the outputs of the rounds already run; `hseen`: a
confirmation of `a` among them was on a prefix.) -/
theorem csLoop_prefix (base : List Sampling.Card) (num : Nat → Nat) (hnum : StrictMono num) (π : List Nat)
    (hπ : π.Perm (List.range base.length)) (ids : List String) (hids : ids.Nodup)
    (val : String → String → Nat → ℚ) (T : String → String → SeqTest)
    (s : Status.State) (c : Status.Contest) (hc : c ∈ s) (a : Assertion) (ha : a ∈ c.assertions)
    (pol : List CsOut → CsRound)
    (hpol : ∀ seen, PolicyOk base ids (confirmedIn ids val T c a) c.id seen (pol seen).sizes) :
    ∀ (K : Nat) (st : CsState) (seen : List CsOut), CsInv (cvrList base num π) ids st →
      ((∃ o ∈ seen, confirmedIn ids val T c a o = true) →
        ∃ k, pLe (T c.id a.name) c.riskLimit ((π.take k).filterMap (datum base val c.id a.name)) = true) →
      csLoop ids val T s pol K st seen = true →
      ∃ k, pLe (T c.id a.name) c.riskLimit ((π.take k).filterMap (datum base val c.id a.name)) = true
  | 0, _, _, _, _, h => by simp [csLoop] at h
  | K + 1, st, seen, hinv, hseen, h => by
    obtain ⟨st', o, e, hinv', hlen, hdata⟩ :=
      step_closed base num hnum π hπ ids hids st hinv (pol seen) (hpol seen).sizesIn
    -- a confirmation of `a` in this round is on a prefix, or `a` was confirmed before
    have hthis : confirmedIn ids val T c a o = true →
        ∃ k, pLe (T c.id a.name) c.riskLimit ((π.take k).filterMap (datum base val c.id a.name)) = true := by
      intro hconf
      unfold confirmedIn dataOf at hconf
      cases hl : (ids.zip o.dataCards).lookup c.id with
      | none => rw [hl] at hconf; simp at hconf
      | some d =>
        rw [hl] at hconf
        cases d with
        | error e => simp at hconf
        | ok idx =>
          dsimp only at hconf
          obtain ⟨k, hk1, hk2⟩ := lookup_zip_some ids o.dataCards c.id _ hl
          have hklt : k < (pol seen).sizes.length := by
            rw [(hpol seen).1]; exact (List.getElem?_eq_some_iff.1 hk1).1
          have hn : (pol seen).sizes[k]? = some (pol seen).sizes[k] := List.getElem?_eq_getElem hklt
          rcases ((hpol seen).2 k c.id _ hk1 hn).2 rfl with h1 | hbefore
          · rw [hdata k c.id _ hk1 hn h1] at hk2
            simp only [Option.some.injEq, Except.ok.injEq] at hk2
            obtain ⟨j, hj⟩ := data_prefix base val c.id a.name π (pol seen).sizes[k]
            exact ⟨j, by rw [← hj, hk2]; exact hconf⟩
          · exact hseen hbefore
    unfold csLoop at h
    rw [e] at h
    simp only [Bool.or_eq_true] at h
    rcases h with h | h
    · obtain ⟨idx, hd, hp⟩ := roundComplete_forces ids val T s c hc a ha o.dataCards h
      exact hthis (by unfold confirmedIn; rw [hd]; exact hp)
    · refine csLoop_prefix base num hnum π hπ ids hids val T s c hc a ha pol hpol K st' _ hinv' ?_ h
      rintro ⟨o', ho', hc'⟩
      rcases List.mem_append.1 ho' with ho' | ho'
      · exact hseen ⟨o', ho', hc'⟩
      · rw [List.mem_singleton.1 ho'] at hc'; exact hthis hc'

theorem csInit_inv (base : List Sampling.Card) (num : Nat → Nat) (cons0 : List Sampling.Contest) (π : List Nat) :
    CsInv (cvrList base num π) (cons0.map (·.id)) (csInit base num cons0 π) :=
  ⟨rfl, rfl, ⟨by simp [csInit], by simp [csInit]⟩⟩

/-- Part 2 for `csAudit`, as the event of the draw tree: "ever, on a prefix of the order" -/
theorem csAudit_ever (base : List Sampling.Card) (num : Nat → Nat) (hnum : StrictMono num) (π : List Nat)
    (hπ : π.Perm (List.range base.length)) (cons0 : List Sampling.Contest) (hids : (cons0.map (·.id)).Nodup)
    (val : String → String → Nat → ℚ) (T : String → String → SeqTest)
    (s : Status.State) (c : Status.Contest) (hc : c ∈ s) (a : Assertion) (ha : a ∈ c.assertions)
    (pol : List CsOut → CsRound)
    (hpol : ∀ seen, PolicyOk base (cons0.map (·.id)) (confirmedIn (cons0.map (·.id)) val T c a) c.id seen
      (pol seen).sizes) (K : Nat)
    (h : csAudit base num cons0 s T val pol K π = true) :
    ever (fun h => pLe (T c.id a.name) c.riskLimit (h.filterMap (datum base val c.id a.name))) [] π = true := by
  rw [ever_iff]
  obtain ⟨k, hk⟩ := csLoop_prefix base num hnum π hπ _ hids val T s c hc a ha pol hpol K _ []
    (csInit_inv base num cons0 π) (by rintro ⟨o, ho, _⟩; simp at ho) h
  exact ⟨k, by simpa using hk⟩

/-! ### the risk limit of the audit with consistent sampling -/

theorem filter_length_le_of_imp {α : Type} (l : List α) (p q : α → Bool)
    (h : ∀ x ∈ l, p x = true → q x = true) : (l.filter p).length ≤ (l.filter q).length :=
  (C10.filter_sublist_of_imp h).length_le

/-- the fraction of the `n!` orders on which the audit is reported complete at some round is at most the
probability, on the draw tree of the card population, that the p-value of the false assertion is at most the risk
limit on the used values of some prefix — the event the audit-level risk limits bound -/
theorem csAudit_fraction_le_hitG (base : List Sampling.Card) (num : List Nat → Nat → Nat)
    (hnum : ∀ π, StrictMono (num π)) (cons0 : List Sampling.Contest) (hids : (cons0.map (·.id)).Nodup)
    (val : String → String → Nat → ℚ) (T : String → String → SeqTest)
    (s : Status.State) (c : Status.Contest) (hc : c ∈ s) (a : Assertion) (ha : a ∈ c.assertions)
    (policy : List Nat → List CsOut → CsRound)
    (hpol : ∀ π, π.Perm (List.range base.length) → ∀ seen,
      PolicyOk base (cons0.map (·.id)) (confirmedIn (cons0.map (·.id)) val T c a) c.id seen (policy π seen).sizes)
    (K : Nat) :
    (((orders (List.range base.length)).filter
        (fun π => csAudit base (num π) cons0 s T val (policy π) K π)).length : ℚ) / (base.length.factorial : ℚ)
      ≤ hitG (fun h => pLe (T c.id a.name) c.riskLimit (h.filterMap (datum base val c.id a.name)))
          base.length (List.range base.length) [] := by
  have hcount := hitG_eq_count
    (fun h => pLe (T c.id a.name) c.riskLimit (h.filterMap (datum base val c.id a.name))) (List.range base.length)
  rw [List.length_range] at hcount
  rw [← hcount]
  have hpos : (0 : ℚ) < (base.length.factorial : ℚ) := by exact_mod_cast Nat.factorial_pos _
  apply div_le_div_of_nonneg_right _ hpos.le
  have := filter_length_le_of_imp (orders (List.range base.length))
    (fun π => csAudit base (num π) cons0 s T val (policy π) K π)
    (ever (fun h => pLe (T c.id a.name) c.riskLimit (h.filterMap (datum base val c.id a.name))) [])
    (fun π hπ h => by
      have hp : π.Perm (List.range base.length) := mem_orders_perm hπ
      exact csAudit_ever base (num π) (hnum π) π hp cons0 hids val T s c hc a ha (policy π) (hpol π hp) K h)
  exact_mod_cast this

/-- `NonnegMean.test` in its documented range on the sub-population of used cards: the probability that its
p-value is ever at most `alpha` on the used values of a prefix of the draw order is at most `alpha`
(`hitG_filterMap` + `C01_finite_run`; the middle step of `audit_risk_limit_style_run`) -/
theorem pLe_style_run_bound {α : Type} (d : α → Option ℚ) (T0 : SeqTest) (alpha : ℚ) (cards : List α)
    (sqrtF : ℚ → ℚ) (cfg : NM.Cfg) (test : NM.Test)
    (hN : cfg.N = some (cards.filterMap d).length) (hT : T0 = NM.run sqrtF cfg test)
    (hdoc : C01.DocumentedFinite sqrtF cfg test) (hr0 : 0 < alpha) (hr1 : alpha < 1)
    (hrange : ∀ v ∈ cards.filterMap d, 0 ≤ v ∧ v ≤ cfg.u)
    (hnull : (cards.filterMap d).sum ≤ ((cards.filterMap d).length : ℚ) * cfg.t) :
    hitG (fun h => pLe T0 alpha (h.filterMap d)) cards.length cards [] ≤ alpha := by
  rw [hitG_filterMap d (pLe T0 alpha) cards.length cards [] (cards.filterMap d).length (le_refl _) (le_refl _)]
  have h := C01.C01_finite_run sqrtF cfg _ hN test hdoc alpha hr0 hr1 (cards.filterMap d) rfl hrange hnull
  simp only [List.filterMap_nil]
  refine le_trans (hitEv_mono _ _ ?_ _ _ _) h
  intro dd hd
  rw [hT] at hd
  unfold pLe at hd
  unfold C01.reportedAnyRun C01.reportedAnyOf C01.anyLe
  cases hTd : NM.run sqrtF cfg test dd with
  | ok r => rw [hTd] at hd; simp only [Bool.or_eq_true]; exact Or.inl hd
  | error e => rw [hTd] at hd; cases hd

/-- **Risk limit of the audit with consistent sampling.**  `base`: the cards in manifest order (styles; sample
numbers are overwritten); `num π`: any strictly increasing numbering along the order `π`; `cons0`: the contests as
`consistent_sampling` sees them (distinct ids; initial sizes and thresholds arbitrary); `s`, `T`, `val`: the contests
with their assertions and risk limits, the test of every assertion, the datum of every card for every assertion;
`policy π seen`: the sizes and the redraw / continue flag of the next round, ANY function of the outputs `seen` of
the rounds so far (the extra argument `π` makes the statement cover even policies that peek at the order) subject to
`PolicyOk`; `K`: any number of rounds.  If assertion `a` of contest `c` is false — the values of the cards listing
`c` lie in `[0, u]` and average at most `t`, its test is any shipped `NonnegMean` test in its documented range with
`N` = the number of cards listing `c` — then the audit is reported complete, at whatever round, on at most the
fraction `c.riskLimit` of the `n!` equally likely orders of the sample numbers. -/
theorem consistent_sampling_audit_risk_limit (base : List Sampling.Card) (num : List Nat → Nat → Nat)
    (hnum : ∀ π, StrictMono (num π)) (cons0 : List Sampling.Contest) (hids : (cons0.map (·.id)).Nodup)
    (val : String → String → Nat → ℚ) (T : String → String → SeqTest)
    (s : Status.State) (c : Status.Contest) (hc : c ∈ s) (a : Assertion) (ha : a ∈ c.assertions)
    (policy : List Nat → List CsOut → CsRound)
    (hpol : ∀ π, π.Perm (List.range base.length) → ∀ seen,
      PolicyOk base (cons0.map (·.id)) (confirmedIn (cons0.map (·.id)) val T c a) c.id seen (policy π seen).sizes)
    (K : Nat)
    (sqrtF : ℚ → ℚ) (cfg : NM.Cfg) (test : NM.Test)
    (hN : cfg.N = some ((List.range base.length).filterMap (datum base val c.id a.name)).length)
    (hT : T c.id a.name = NM.run sqrtF cfg test)
    (hdoc : C01.DocumentedFinite sqrtF cfg test)
    (hr0 : 0 < c.riskLimit) (hr1 : c.riskLimit < 1)
    (hrange : ∀ v ∈ (List.range base.length).filterMap (datum base val c.id a.name), 0 ≤ v ∧ v ≤ cfg.u)
    (hnull : ((List.range base.length).filterMap (datum base val c.id a.name)).sum
      ≤ (((List.range base.length).filterMap (datum base val c.id a.name)).length : ℚ) * cfg.t) :
    (((orders (List.range base.length)).filter
        (fun π => csAudit base (num π) cons0 s T val (policy π) K π)).length : ℚ) / (base.length.factorial : ℚ)
      ≤ c.riskLimit := by
  refine le_trans (csAudit_fraction_le_hitG base num hnum cons0 hids val T s c hc a ha policy hpol K) ?_
  have := pLe_style_run_bound (datum base val c.id a.name) (T c.id a.name) c.riskLimit (List.range base.length)
    sqrtF cfg test hN hT hdoc hr0 hr1 hrange hnull
  rw [List.length_range] at this
  exact this

/-! ### the audit in closed form (no sorting): used to compute the example in the kernel -/

abbrev CsData := List (Except Sampling.Err (List Nat))

/-- a round's per-contest data in closed form: for every contest the first `n_c` entries of the sub-order of `π`
of the cards listing it -/
def specData (base : List Sampling.Card) (ids : List String) (sizes : List Nat) (π : List Nat) : CsData :=
  List.zipWith (fun id n => .ok ((π.filter (lists base id)).take n)) ids sizes

/-- the loop of `csLoop` on the closed-form data, for a policy that looks at the data cards of the rounds so far -/
def csSpecLoop (base : List Sampling.Card) (ids : List String) (val : String → String → Nat → ℚ)
    (T : String → String → SeqTest) (s : Status.State) (pol' : List CsData → CsRound) (π : List Nat) :
    Nat → List CsData → Bool
  | 0, _ => false
  | K + 1, seenD =>
    roundComplete ids val T s (specData base ids (pol' seenD).sizes π) ||
      csSpecLoop base ids val T s pol' π K (seenD ++ [specData base ids (pol' seenD).sizes π])

/-- **the literal loop equals the closed form** when every contest gets at least one card in every round (and at
most as many as list it) -/
theorem csLoop_eq_spec (base : List Sampling.Card) (num : Nat → Nat) (hnum : StrictMono num) (π : List Nat)
    (hπ : π.Perm (List.range base.length)) (ids : List String) (hids : ids.Nodup)
    (val : String → String → Nat → ℚ) (T : String → String → SeqTest) (s : Status.State)
    (pol' : List CsData → CsRound) (hpol : ∀ seenD cid, SizesOk base ids cid (pol' seenD).sizes) :
    ∀ (K : Nat) (st : CsState) (seen : List CsOut), CsInv (cvrList base num π) ids st →
      csLoop ids val T s (fun seen => pol' (seen.map (·.dataCards))) K st seen
        = csSpecLoop base ids val T s pol' π K (seen.map (·.dataCards))
  | 0, _, _, _ => rfl
  | K + 1, st, seen, hinv => by
    obtain ⟨st', o, e, hinv', hlen, hdata⟩ :=
      step_closed base num hnum π hπ ids hids st hinv (pol' (seen.map (·.dataCards))) (hpol _ "").sizesIn
    have hs := hpol (seen.map (·.dataCards))
    have hd : o.dataCards = specData base ids (pol' (seen.map (·.dataCards))).sizes π := by
      apply List.ext_getElem?
      intro k
      unfold specData
      rw [List.getElem?_zipWith]
      by_cases hk : k < ids.length
      · have h1 : ids[k]? = some ids[k] := List.getElem?_eq_getElem hk
        have hk' : k < (pol' (seen.map (·.dataCards))).sizes.length := by rw [(hs "").1]; exact hk
        have h2 := List.getElem?_eq_getElem hk'
        rw [h1, h2]
        exact hdata k _ _ h1 h2 (((hs ids[k]).2 k _ _ h1 h2).2 rfl)
      · rw [List.getElem?_eq_none (by omega), List.getElem?_eq_none (by omega)]
    unfold csLoop csSpecLoop
    simp only [e]
    rw [csLoop_eq_spec base num hnum π hπ ids hids val T s pol' hpol K st' _ hinv']
    simp only [List.map_append, List.map_cons, List.map_nil, hd]

/-- `csAudit` in closed form -/
theorem csAudit_eq_spec (base : List Sampling.Card) (num : Nat → Nat) (hnum : StrictMono num) (π : List Nat)
    (hπ : π.Perm (List.range base.length)) (cons0 : List Sampling.Contest) (hids : (cons0.map (·.id)).Nodup)
    (val : String → String → Nat → ℚ) (T : String → String → SeqTest) (s : Status.State)
    (pol' : List CsData → CsRound) (hpol : ∀ seenD cid, SizesOk base (cons0.map (·.id)) cid (pol' seenD).sizes)
    (K : Nat) :
    csAudit base num cons0 s T val (fun seen => pol' (seen.map (·.dataCards))) K π
      = csSpecLoop base (cons0.map (·.id)) val T s pol' π K [] :=
  csLoop_eq_spec base num hnum π hπ _ hids val T s pol' hpol K _ [] (csInit_inv base num cons0 π)

/-! ### non-vacuity -/
section example_
open Shangrla.NM

def baseE : List Sampling.Card :=
  [⟨["A", "B"], 0, false⟩, ⟨["A", "B"], 0, false⟩, ⟨["A"], 0, false⟩, ⟨["A"], 0, false⟩, ⟨["B"], 0, false⟩]
def consE : List Sampling.Contest := [⟨"A", 0, none, none, 0⟩, ⟨"B", 0, none, none, 0⟩]
def cfgA : Cfg := { N := some 4, u := 1, t := 1/2, randomOrder := true, kw := { eta := some (3/4) } }
def cfgB : Cfg := { N := some 3, u := 1, t := 1/2, randomOrder := true, kw := { eta := some (3/4) } }
def TE : String → String → SeqTest := fun cid _ =>
  if cid = "A" then alphaMart cfgA (fixedAlternativeMean cfgA) else alphaMart cfgB (fixedAlternativeMean cfgB)
def sE : Status.State :=
  [{ id := "A", riskLimit := 3/5, assertions := [{ name := "a" }] },
   { id := "B", riskLimit := 1/2, assertions := [{ name := "b" }] }]
def valE : String → String → Nat → ℚ := fun cid _ i =>
  if cid = "A" then [1, 0, 1/2, 1/2, 0].getD i 0 else 1
def polE' : List CsData → CsRound
  | [] => ⟨[2, 2], false⟩
  | d :: _ =>
    if (dataOf ["A", "B"] d "A").any (fun idx => idx.any (fun i => decide (valE "A" "a" i < 1/2)))
    then ⟨[4, 3], true⟩ else ⟨[3, 2], true⟩


theorem sizesOkE (sizes : List Nat) (h : sizes = [2, 2] ∨ sizes = [4, 3] ∨ sizes = [3, 2]) (cid : String) :
    SizesOk baseE (consE.map (·.id)) cid sizes := by
  refine ⟨by rcases h with rfl | rfl | rfl <;> rfl, ?_⟩
  intro k id n h1 h2
  rcases h with rfl | rfl | rfl <;> rcases k with _ | _ | k <;>
    simp [consE] at h1 h2 <;> subst h1 <;> subst h2 <;> exact ⟨by decide, fun _ => by decide⟩

theorem polE'_sizes (seenD : List CsData) :
    (polE' seenD).sizes = [2, 2] ∨ (polE' seenD).sizes = [4, 3] ∨ (polE' seenD).sizes = [3, 2] := by
  cases seenD with
  | nil => left; rfl
  | cons d _ =>
    simp only [polE']
    split
    · right; left; rfl
    · right; right; rfl

/-- the policy of the example as a function of the rounds' outputs -/
def polE : List CsOut → CsRound := fun seen => polE' (seen.map (·.dataCards))

theorem example_cs_count :
    ((orders (List.range 5)).filter (fun π => csAudit baseE id consE sE TE valE polE 2 π)).length = 50 := by
  have h : (orders (List.range 5)).filter (fun π => csAudit baseE id consE sE TE valE polE 2 π)
      = (orders (List.range 5)).filter (fun π => csSpecLoop baseE ["A", "B"] valE TE sE polE' π 2 []) := by
    apply List.filter_congr
    intro π hπ
    exact csAudit_eq_spec baseE id strictMono_id π (mem_orders_perm hπ) consE (by decide) valE TE sE polE'
      (fun seenD cid => sizesOkE _ (polE'_sizes seenD) cid) 2
  rw [h]
  decide +kernel

/-- with one round only (sizes 2 and 2) the audit completes on 40 of the 120 orders: the escalation adds 10 -/
theorem example_cs_count_round1 :
    ((orders (List.range 5)).filter (fun π => csAudit baseE id consE sE TE valE polE 1 π)).length = 40 := by
  have h : (orders (List.range 5)).filter (fun π => csAudit baseE id consE sE TE valE polE 1 π)
      = (orders (List.range 5)).filter (fun π => csSpecLoop baseE ["A", "B"] valE TE sE polE' π 1 []) := by
    apply List.filter_congr
    intro π hπ
    exact csAudit_eq_spec baseE id strictMono_id π (mem_orders_perm hπ) consE (by decide) valE TE sE polE'
      (fun seenD cid => sizesOkE _ (polE'_sizes seenD) cid) 1
  rw [h]
  decide +kernel

theorem dataE : (List.range baseE.length).filterMap (datum baseE valE "A" "a") = [1, 0, 1/2, 1/2] := by
  decide +kernel

/-- the hypotheses of the capstone are satisfiable: contest `A` (4 of the 5 cards list it) has the false
assertion `a` (values 1, 0, 1/2, 1/2: mean exactly 1/2), contest `B` (3 cards) a true one; sample numbers =
positions in the order; two rounds, the second chosen from what the first one showed -/
example :
    (((orders (List.range baseE.length)).filter
        (fun π => csAudit baseE id consE sE TE valE polE 2 π)).length : ℚ) / (baseE.length.factorial : ℚ) ≤ 3/5 :=
  consistent_sampling_audit_risk_limit baseE (fun _ => id) (fun _ => strictMono_id) consE (by decide) valE TE sE
    _ (List.mem_cons_self) { name := "a" } (by simp) (fun _ => polE)
    (fun _ _ seen => (sizesOkE _ (polE'_sizes _) _).policyOk _ seen) 2 sqrtRat cfgA (.alpha .fixedAlt)
    (by show cfgA.N = some ((List.range baseE.length).filterMap (datum baseE valE "A" "a")).length
        rw [dataE]; rfl) rfl
    ⟨by norm_num [cfgA], ⟨by norm_num [cfgA, eps], by norm_num [cfgA, eps], by norm_num [cfgA]⟩, trivial⟩
    (by norm_num) (by norm_num)
    (by show ∀ v ∈ (List.range baseE.length).filterMap (datum baseE valE "A" "a"), 0 ≤ v ∧ v ≤ cfgA.u
        rw [dataE]; intro v hv; simp at hv; rcases hv with rfl | rfl | rfl <;> norm_num [cfgA])
    (by show ((List.range baseE.length).filterMap (datum baseE valE "A" "a")).sum
          ≤ (((List.range baseE.length).filterMap (datum baseE valE "A" "a")).length : ℚ) * cfgA.t
        rw [dataE]; norm_num [cfgA])

/-- ... and the bounded event really happens: the exact fraction of the 120 orders is 5/12 -/
theorem example_cs_exact :
    (((orders (List.range baseE.length)).filter
        (fun π => csAudit baseE id consE sE TE valE polE 2 π)).length : ℚ) / (baseE.length.factorial : ℚ) = 5/12 := by
  have : baseE.length = 5 := rfl
  rw [this, example_cs_count]
  norm_num [Nat.factorial]

end example_
end Shangrla.RiskLimit
