/-
  Consistent sampling inside the audit-level risk limit (C07 ∘ C10 ∘ C09 ∘ C01).
-/
import Shangrla.Props.C10
import Shangrla.Props.RiskLimitStyle
import Mathlib.Data.Nat.Factorial.Basic

namespace Shangrla.RiskLimit
open Shangrla Shangrla.Ville Shangrla.Status Shangrla.AuditLoop

/-! ### the `n!` draw orders, and `hitG` as a count over them -/

/-- all draw orders of `R`, by the index of the item drawn first (then recursively): `n!` lists -/
def ordersF {α : Type} : Nat → List α → List (List α)
  | 0, _ => [[]]
  | _ + 1, [] => [[]]
  | f + 1, a :: R => (picks (a :: R)).flatMap (fun x => (ordersF f x.2).map (x.1 :: ·))

/-- the `n!` orders of a population (as index orderings: equal items are NOT identified) -/
def orders {α : Type} (R : List α) : List (List α) := ordersF R.length R

/-- `ev` holds on `h ++ p` for some prefix `p` of `σ` -/
def ever {α : Type} (ev : List α → Bool) : List α → List α → Bool
  | h, [] => ev h
  | h, a :: σ => ev h || ever ev (h ++ [a]) σ

theorem ever_iff {α : Type} (ev : List α → Bool) : ∀ (σ h : List α),
    ever ev h σ = true ↔ ∃ k, ev (h ++ σ.take k) = true
  | [], h => by simp [ever]
  | a :: σ, h => by
    simp only [ever, Bool.or_eq_true, ever_iff ev σ (h ++ [a])]
    constructor
    · rintro (h0 | ⟨k, hk⟩)
      · exact ⟨0, by simpa using h0⟩
      · exact ⟨k + 1, by simpa using hk⟩
    · rintro ⟨k, hk⟩
      cases k with
      | zero => left; simpa using hk
      | succ k => right; exact ⟨k, by simpa using hk⟩

theorem ever_of_ev {α : Type} (ev : List α → Bool) (h σ : List α) (he : ev h = true) : ever ev h σ = true :=
  (ever_iff ev σ h).2 ⟨0, by simpa using he⟩

theorem mem_picks_perm {α : Type} : ∀ (R : List α) (x : α × List α), x ∈ picks R → (x.1 :: x.2).Perm R
  | [], x, hx => by simp [picks] at hx
  | a :: R, x, hx => by
    simp only [picks, List.mem_cons, List.mem_map] at hx
    rcases hx with rfl | ⟨y, hy, rfl⟩
    · exact List.Perm.refl _
    · exact (List.Perm.swap _ _ _).trans ((mem_picks_perm R y hy).cons a)

/-- every member of `orders R` is a rearrangement of `R` -/
theorem mem_ordersF_perm {α : Type} : ∀ (f : Nat) (R σ : List α), R.length ≤ f → σ ∈ ordersF f R → σ.Perm R
  | 0, R, σ, hl, hm => by
    have hR : R = [] := List.length_eq_zero_iff.mp (by omega)
    subst hR; simp [ordersF] at hm; subst hm; exact List.Perm.refl _
  | f + 1, [], σ, _, hm => by simp [ordersF] at hm; subst hm; exact List.Perm.refl _
  | f + 1, a :: R, σ, hl, hm => by
    simp only [ordersF, List.mem_flatMap, List.mem_map] at hm
    obtain ⟨x, hx, τ, hτ, rfl⟩ := hm
    have hlen := mem_picks_length (a :: R) x hx
    have := mem_ordersF_perm f x.2 τ (by simp at hl hlen; omega) hτ
    exact (this.cons x.1).trans (mem_picks_perm _ x hx)

theorem mem_orders_perm {α : Type} {R σ : List α} (h : σ ∈ orders R) : σ.Perm R :=
  mem_ordersF_perm _ _ _ (le_refl _) h

theorem ordersF_length {α : Type} : ∀ (f : Nat) (R : List α), R.length ≤ f →
    (ordersF f R).length = R.length.factorial
  | 0, R, hl => by
    have hR : R = [] := List.length_eq_zero_iff.mp (by omega)
    subst hR; simp [ordersF]
  | f + 1, [], _ => by simp [ordersF]
  | f + 1, a :: R, hl => by
    simp only [ordersF, List.length_flatMap, List.length_map]
    have : (picks (a :: R)).map (fun x => (ordersF f x.2).length)
        = (picks (a :: R)).map (fun _ => R.length.factorial) := by
      apply List.map_congr_left
      intro x hx
      have hlen := mem_picks_length (a :: R) x hx
      simp only [List.length_cons] at hl hlen
      rw [ordersF_length f x.2 (by omega)]
      congr 1; omega
    rw [this]
    simp [picks_length, Nat.factorial_succ]

theorem orders_length {α : Type} (R : List α) : (orders R).length = R.length.factorial :=
  ordersF_length _ _ (le_refl _)

theorem sum_map_cast (l : List Nat) : (Nat.cast (l.sum) : ℚ) = (l.map (Nat.cast : Nat → ℚ)).sum := by
  induction l with
  | nil => simp
  | cons a l ih => simp [ih]

/-- **`hitG` is counting over the `n!` orders**: the number of orders some prefix of which satisfies `ev`
is `hitG · n!` -/
theorem count_ordersF {α : Type} (ev : List α → Bool) : ∀ (f : Nat) (R h : List α), R.length ≤ f →
    (((ordersF f R).filter (ever ev h)).length : ℚ) = hitG ev f R h * (R.length.factorial : ℚ)
  | 0, R, h, hl => by
    have hR : R = [] := List.length_eq_zero_iff.mp (by omega)
    subst hR
    by_cases he : ev h = true <;> simp [ordersF, hitG, ever, he]
  | f + 1, [], h, _ => by
    rw [hitG_succ]
    by_cases he : ev h = true <;> simp [ordersF, ever, he]
  | f + 1, a :: R, h, hl => by
    rw [hitG_succ]
    by_cases he : ev h = true
    · rw [if_pos he, one_mul]
      have : (ordersF (f + 1) (a :: R)).filter (ever ev h) = ordersF (f + 1) (a :: R) := by
        rw [List.filter_eq_self]
        intro σ _; exact ever_of_ev ev h σ he
      rw [this, ordersF_length _ _ hl]
    · rw [if_neg he, if_neg (by simp)]
      simp only [ordersF, List.filter_flatMap, List.length_flatMap, List.filter_map, List.length_map]
      rw [sum_map_cast, List.map_map]
      have hb : (picks (a :: R)).map ((Nat.cast : Nat → ℚ) ∘ fun x =>
            ((ordersF f x.2).filter (ever ev h ∘ fun τ => x.1 :: τ)).length)
          = (picks (a :: R)).map (fun x => hitG ev f x.2 (h ++ [x.1]) * (R.length.factorial : ℚ)) := by
        apply List.map_congr_left
        intro x hx
        have hlen := mem_picks_length (a :: R) x hx
        simp only [List.length_cons] at hl hlen
        have hf : (ever ev h ∘ fun τ => x.1 :: τ) = ever ev (h ++ [x.1]) := by
          funext τ
          simp only [Function.comp, ever]
          simp only [Bool.not_eq_true] at he
          simp [he]
        simp only [Function.comp_apply]
        rw [hf, count_ordersF ev f x.2 (h ++ [x.1]) (by omega)]
        congr 2; congr 1; omega
      rw [hb]
      have hsum : ∀ (l : List (α × List α)) (g : α × List α → ℚ) (c : ℚ),
          (l.map (fun x => g x * c)).sum = (l.map g).sum * c := by
        intro l g c
        induction l with
        | nil => simp
        | cons y l ih => simp [ih, add_mul]
      rw [hsum]
      simp only [List.length_cons, Nat.factorial_succ]
      push_cast
      have : ((R.length : ℚ) + 1) ≠ 0 := by positivity
      field_simp

/-- the fraction of the `n!` orders on which `ev` holds for some prefix is `hitG ev n R []` -/
theorem hitG_eq_count {α : Type} (ev : List α → Bool) (R : List α) :
    (((orders R).filter (ever ev [])).length : ℚ) / (R.length.factorial : ℚ) = hitG ev R.length R [] := by
  unfold orders
  rw [count_ordersF ev _ R [] (le_refl _)]
  have : (R.length.factorial : ℚ) ≠ 0 := by positivity
  field_simp

end Shangrla.RiskLimit
