/-
  The CONTEST-level (outcome-level) risk limit: the statement an election official relies on.

  The theorems of `RiskLimitPlurality.lean` and `RiskLimitComparisonOutcome.lean` are per (winner, loser) PAIR:
  "if `l` really has at least as many marks as `w`, the audit of the assertion `w v l` ...".  An official does not
  know WHICH pair is wrong; what she relies on is

      if the reported outcome of the contest is wrong, then — whatever the other assertions, contests and tests
      are and however often the status is looked at — the audit is EVER reported complete with probability at
      most the contest's risk limit.

  That needs one more step, C02's `plurality_iff` read at the audit level: the reported outcome (winners `W`, losers
  `L`) is right exactly when EVERY pair `(w, l) ∈ W × L` has `marks l < marks w`; so a wrong outcome gives SOME pair
  with `marks w ≤ marks l`, and provided the contest's assertion list contains the assertion of EVERY pair (which is
  what `Assertion.make_plurality_assertions` builds, Audit.py L1923-1951, called by `make_all_assertions` L2186-2198
  with `loser = set(candidates) − set(winner)`), the pair theorem applies to that pair's assertion.

  * `PluralityOutcomeWrong`, `SupermajorityOutcomeWrong` — "wrong" as C02 has it (a tie is wrong: it cannot be
    confirmed); `pluralityOutcomeWrong_iff_means` / `supermajorityOutcomeWrong_iff_mean` — the same thing in terms
    of the assorter means (`C02.plurality_iff`, `C02.supermajority_iff`).
  * `PollingAssertion`, `ComparisonAssertion` — "the contest has an assertion with this raw assorter, set up the way
    the library sets it up" (all the per-assertion hypotheses of the pair theorems, existentially bundled).
  * `plurality_outcome_polling_risk_limit`, `supermajority_outcome_polling_risk_limit`,
    `plurality_outcome_comparison_risk_limit(_found)`, `supermajority_outcome_comparison_risk_limit(_found)`.
  * `ContestKind`, `ReportedOutcomeWrong`, `wrong_outcome_polling_risk_limit`, `wrong_outcome_comparison_risk_limit`,
    and, for a state of several contests, `audit_polling_risk_limit` / `audit_comparison_risk_limit`:
    if ANY contest's reported outcome is wrong, the audit is ever reported complete with probability at most the
    largest risk limit (`maxRiskLimit`); `audit_outcome_risk_limit`: the same when each contest has its own audit
    method (`AuditMethod`: polling / comparison with its style flag).
  * non-vacuity: a two-winner contest on five cards whose third candidate ties the second.
-/
import Shangrla.Props.RiskLimitPlurality
import Shangrla.Props.RiskLimitComparisonOutcome

namespace Shangrla.RiskLimit
open Shangrla Shangrla.Ville Shangrla.Status Shangrla.AuditLoop Shangrla.Overstatement Shangrla.Vote
open Shangrla.Assorter (plurality supermajority superUpper)

/-! ### what "the reported outcome is wrong" means -/

/-- **The reported outcome of a plurality / approval contest (`k = |W|` winners) is wrong on the ballots `B`**:
it is NOT the case that every reported winner has strictly more marks than every reported loser — some reported
loser has at least as many marks as some reported winner.  A tie between a winner and a loser counts as wrong (the
outcome cannot be confirmed).  This is the negation of the right-hand side of `C02.plurality_iff`. -/
def PluralityOutcomeWrong (contest : String) (W L : List String) (B : List CVR) : Prop :=
  ¬ ∀ w ∈ W, ∀ l ∈ L, C02.marks contest l B < C02.marks contest w B

/-- **The reported outcome of a super-majority contest (winner `w`, required share `f`) is wrong on `B`**: the
winner's valid votes do NOT exceed the share `f` of the valid votes (a card is a valid vote when it shows exactly one
mark among `cands`).  The negation of the right-hand side of `C02.supermajority_iff`. -/
def SupermajorityOutcomeWrong (contest w : String) (cands : List String) (f : ℚ) (B : List CVR) : Prop :=
  ¬ f * (C02.valid contest cands B : ℚ) < (C02.wvalid contest cands w B : ℚ)

/-- a wrong plurality outcome names its pair -/
theorem pluralityOutcomeWrong_iff_pair (contest : String) (W L : List String) (B : List CVR) :
    PluralityOutcomeWrong contest W L B ↔
      ∃ w ∈ W, ∃ l ∈ L, C02.marks contest w B ≤ C02.marks contest l B := by
  unfold PluralityOutcomeWrong
  constructor
  · intro h
    by_contra hno
    apply h
    intro w hw l hl
    by_contra hlt
    exact hno ⟨w, hw, l, hl, Nat.le_of_not_lt hlt⟩
  · rintro ⟨w, hw, l, hl, hle⟩ hall
    exact absurd (hall w hw l hl) (Nat.not_lt.mpr hle)

/-- `C02.plurality_iff` at the audit level: the outcome is wrong exactly when NOT all the winner-versus-loser
assorter means over the ballots exceed 1/2 — i.e. when some assertion of the set `make_plurality_assertions` builds
is false -/
theorem pluralityOutcomeWrong_iff_means (contest : String) (W L : List String) (B : List CVR) (hB : B ≠ []) :
    PluralityOutcomeWrong contest W L B ↔
      ¬ ∀ w ∈ W, ∀ l ∈ L, C02.gtHalf (Assorter.mean false contest (plurality contest w l) B) :=
  not_congr (C02.plurality_iff contest W L B hB).symm

/-- `C02.supermajority_iff` at the audit level -/
theorem supermajorityOutcomeWrong_iff_mean (contest w : String) (cands : List String) (f : ℚ) (hf0 : 0 < f)
    (B : List CVR) (hB : B ≠ []) :
    SupermajorityOutcomeWrong contest w cands f B ↔
      ¬ C02.gtHalf (Assorter.mean false contest (supermajority contest w cands f) B) :=
  not_congr (C02.supermajority_iff contest w cands f hf0 B hB).symm

/-! ### ballot polling -/

/-- **Contest `c` has a polling assertion with raw assorter `assort` and assorter bound `u`, set up as the library
sets it up on a population of `n` cards.**  Stands for one iteration of the loop of `make_plurality_assertions`
(Audit.py L1923-1951) resp. the body of `make_supermajority_assertion` (L2008-2041):

    _test = NonnegMean(test=test, estim=estim, bet=bet, g=contest.g, u=<u>, N=contest.cards, t=1/2,
                       random_order=True, **test_kwargs)
    assertions[wl_pair] = Assertion(contest, winner=…, loser=…, assorter=Assorter(assort=<assort>, upper_bound=<u>),
                                    test=_test)

and for what `set_p_values` does with it in a polling audit (L2328-2330 and `mvrs_to_data` L1664-1669: the data are
`assort` of each drawn card, in draw order, `test.u = upper_bound`).  In the model: some assertion `a` of the
contest's list has `data c.id a.name = assort`, and its test is `NonnegMean.test` (`NM.run`) with `N = n`, `t = 1/2`,
`u = u`, any shipped test / estimator / bet inside its documented parameter range (`C01.DocumentedFinite`).
`n = contest.cards` must be the size of the population the sample is drawn from (the theorems take `n = |B|`). -/
def PollingAssertion (data : String → String → CVR → ℚ) (T : String → String → SeqTest) (c : Contest) (n : Nat)
    (assort : CVR → ℚ) (u : ℚ) : Prop :=
  ∃ a ∈ c.assertions, data c.id a.name = assort ∧
    ∃ (sqrtF : ℚ → ℚ) (cfg : NM.Cfg) (test : NM.Test),
      cfg.N = some n ∧ cfg.t = 1 / 2 ∧ cfg.u = u ∧
      T c.id a.name = NM.run sqrtF cfg test ∧ C01.DocumentedFinite sqrtF cfg test

/-- **Contest-level risk limit, ballot polling, plurality / approval with any number of winners.**

`B` — the cards cast (what a full hand count would see); `W`, `L` — the reported winners and losers of `contest`.
`hall` — the assertion list of contest `c` of the audit contains, for EVERY pair `(w, l) ∈ W × L`, an assertion whose
data are the plurality assorter "`w` v `l`" of the drawn card, tested by a shipped test in its documented range with
`N = |B|`, `t = 1/2`, `u = 1` (`PollingAssertion`).  This is what `make_plurality_assertions(contest, winner=W,
loser=L, …)` builds — one `Assertion` per iteration of `for winr in winner: for losr in loser:` — PROVIDED no two pairs
get the same dict key `winr + " v " + losr` (see `pair_name_clash` below: a later pair overwrites an earlier one).
The constructor itself is not modelled in Lean (the `Status` model knows an assertion by its name only), so `hall` is
a hypothesis.

NOT assumed: that `W` and `L` are disjoint or non-empty (if one is empty the outcome cannot be wrong; if they share a
candidate the outcome is wrong and the theorem still holds), that the candidates in `W ∪ L` are all the candidates, that
`|W|` is the contest's `n_winners`, anything about the other assertions of `c`, the other contests of `s`, their data
functions and tests, or the risk limits of the other contests.

Conclusion: if the reported outcome is wrong, the probability — over the `|B|!` orders in which the cards can be
drawn without replacement — that `summarize_status` after `set_p_values` EVER reports the audit complete, after any
number of draws, is at most the risk limit of contest `c`. -/
theorem plurality_outcome_polling_risk_limit (data : String → String → CVR → ℚ)
    (T : String → String → SeqTest) (s : State) (c : Contest) (hc : c ∈ s) (B : List CVR)
    (contest : String) (W L : List String)
    (hall : ∀ w ∈ W, ∀ l ∈ L, PollingAssertion data T c B.length (plurality contest w l) 1)
    (hr0 : 0 < c.riskLimit) (hr1 : c.riskLimit < 1)
    (hwrong : PluralityOutcomeWrong contest W L B) :
    hitG (auditComplete data T s) B.length B [] ≤ c.riskLimit := by
  obtain ⟨w, hw, l, hl, hle⟩ := (pluralityOutcomeWrong_iff_pair contest W L B).1 hwrong
  obtain ⟨a, ha, hdata, sqrtF, cfg, test, hN, ht, hu, hT, hdoc⟩ := hall w hw l hl
  exact plurality_polling_risk_limit data T s c hc a ha B contest w l hdata sqrtF cfg test hN ht hu hT hdoc hr0 hr1
    hle

/-- **Contest-level risk limit, ballot polling, super-majority** (one winner `w`, share `0 < f < 1`, valid votes
counted among `cands`; `make_all_assertions` passes `cands = losers + [winner]`, `Assorter.superCands`): the
contest's assertion list contains the super-majority assertion (`make_supermajority_assertion`, L2008-2041: assorter
bound and test bound `1/(2f)`, `N = |B|`, `t = 1/2`).  If the reported winner's valid votes do not exceed the share `f`
of the valid votes, the audit is ever reported complete with probability at most the contest's risk limit. -/
theorem supermajority_outcome_polling_risk_limit (data : String → String → CVR → ℚ)
    (T : String → String → SeqTest) (s : State) (c : Contest) (hc : c ∈ s) (B : List CVR)
    (contest w : String) (cands : List String) (f : ℚ) (hf0 : 0 < f) (hf1 : f < 1)
    (hasn : PollingAssertion data T c B.length (supermajority contest w cands f) (superUpper f))
    (hr0 : 0 < c.riskLimit) (hr1 : c.riskLimit < 1)
    (hwrong : SupermajorityOutcomeWrong contest w cands f B) :
    hitG (auditComplete data T s) B.length B [] ≤ c.riskLimit := by
  obtain ⟨a, ha, hdata, sqrtF, cfg, test, hN, ht, hu, hT, hdoc⟩ := hasn
  exact supermajority_polling_risk_limit data T s c hc a ha B contest w cands f hf0 hf1 hdata sqrtF cfg test hN ht hu
    hT hdoc hr0 hr1 (not_lt.mp hwrong)

/-! ### card-level comparison and ONEAudit, on the literal overstatement model

The population is a list `cards : List α`; a card `x` carries its manual record `ballot x : Vote.CVR` (what a full
hand count would see; `phantom` = the card could not be found) and whatever the machine reported about it.  Every
assertion of the contest reads its OWN `Cvr` off the card (`cv x`: the reported assorter value `a` differs from one
(winner, loser) pair to the next), but whether the card's CVR lists the contest — `cvr.has_contest(contest.id)`, the
style filter — is the same for all of them: `listed x`.  The cards under audit are those with `listed x` (all cards
when `useStyle` is off). -/

/-- the manual records of the cards under audit: all cards, or under style-based sampling the cards whose CVR lists
the contest -/
def auditedBallots {α : Type} (useStyle : Bool) (ballot : α → CVR) (listed : α → Bool) (cards : List α) :
    List CVR :=
  (cards.filter (fun x => !useStyle || listed x)).map ballot

/-- the FOUND ballots of the cards under audit: the card was found (`phantom = false`) and, under style, its manual
record lists the contest — the records the overstatement scores with their own assorter value -/
def foundOf {α : Type} (useStyle : Bool) (contest : String) (ballot : α → CVR) (listed : α → Bool)
    (cards : List α) : List CVR :=
  (auditedBallots useStyle ballot listed cards).filter (fun b => !zeroed useStyle contest b)

/-- the number of cards under audit whose manual record is scored 0 (unfindable, or under style lacking the contest) -/
def lostOf {α : Type} (useStyle : Bool) (contest : String) (ballot : α → CVR) (listed : α → Bool)
    (cards : List α) : Nat :=
  (auditedBallots useStyle ballot listed cards).countP (zeroed useStyle contest)

/-- `audBallots` depends on the CVRs only through "lists the contest" -/
theorem audBallots_listed {α : Type} (useStyle : Bool) (ballot : α → CVR) (cv : α → Cvr) (listed : α → Bool)
    (cards : List α) (hl : ∀ x ∈ cards, (cv x).hasContest = listed x) :
    audBallots useStyle ballot cv cards = auditedBallots useStyle ballot listed cards := by
  unfold audBallots auditedBallots
  congr 1
  apply List.filter_congr
  intro x hx
  unfold passes
  rw [hl x hx]

theorem foundBallots_listed {α : Type} (useStyle : Bool) (contest : String) (ballot : α → CVR) (cv : α → Cvr)
    (listed : α → Bool) (cards : List α) (hl : ∀ x ∈ cards, (cv x).hasContest = listed x) :
    foundBallots useStyle contest ballot cv cards = foundOf useStyle contest ballot listed cards := by
  unfold foundBallots foundOf
  rw [audBallots_listed useStyle ballot cv listed cards hl]

theorem lostCount_listed {α : Type} (useStyle : Bool) (contest : String) (ballot : α → CVR) (cv : α → Cvr)
    (listed : α → Bool) (cards : List α) (hl : ∀ x ∈ cards, (cv x).hasContest = listed x) :
    lostCount useStyle contest ballot cv cards = lostOf useStyle contest ballot listed cards := by
  unfold lostCount lostOf
  rw [audBallots_listed useStyle ballot cv listed cards hl]

/-- a CVR as far as the style filter is concerned (used only to read the `…_foundBallots` lemmas on `foundOf`) -/
def styleCvr (listed : Bool) : Cvr :=
  { hasContest := listed, phantom := false, pool := false, tallyPool := none, a := 0, sampleNum := 0 }

/-- the marks over the found ballots are the marks over ALL the cards under audit that could be found (a manual
record lacking the contest shows no mark): "wrong on the found ballots" can be read on either list -/
theorem marks_foundOf {α : Type} (useStyle : Bool) (contest x : String) (ballot : α → CVR) (listed : α → Bool)
    (cards : List α) :
    C02.marks contest x (foundOf useStyle contest ballot listed cards)
      = C02.marks contest x ((auditedBallots useStyle ballot listed cards).filter (fun b => !b.phantom)) := by
  rw [← foundBallots_listed useStyle contest ballot (fun y => styleCvr (listed y)) listed cards (fun _ _ => rfl),
    ← audBallots_listed useStyle ballot (fun y => styleCvr (listed y)) listed cards (fun _ _ => rfl)]
  exact marks_foundBallots useStyle contest x ballot _ cards

theorem valid_foundOf {α : Type} (useStyle : Bool) (contest : String) (cands : List String) (ballot : α → CVR)
    (listed : α → Bool) (cards : List α) :
    C02.valid contest cands (foundOf useStyle contest ballot listed cards)
      = C02.valid contest cands ((auditedBallots useStyle ballot listed cards).filter (fun b => !b.phantom)) := by
  rw [← foundBallots_listed useStyle contest ballot (fun y => styleCvr (listed y)) listed cards (fun _ _ => rfl),
    ← audBallots_listed useStyle ballot (fun y => styleCvr (listed y)) listed cards (fun _ _ => rfl)]
  exact valid_foundBallots useStyle contest cands ballot _ cards

theorem wvalid_foundOf {α : Type} (useStyle : Bool) (contest : String) (cands : List String) (w : String)
    (ballot : α → CVR) (listed : α → Bool) (cards : List α) :
    C02.wvalid contest cands w (foundOf useStyle contest ballot listed cards)
      = C02.wvalid contest cands w ((auditedBallots useStyle ballot listed cards).filter (fun b => !b.phantom)) := by
  rw [← foundBallots_listed useStyle contest ballot (fun y => styleCvr (listed y)) listed cards (fun _ _ => rfl),
    ← audBallots_listed useStyle ballot (fun y => styleCvr (listed y)) listed cards (fun _ _ => rfl)]
  exact wvalid_foundBallots useStyle contest cands w ballot _ cards

/-- **The outcome of a plurality contest cannot be confirmed from the found ballots `F` when `lost` records are
scored 0**: NOT every reported winner has more marks on `F` than every reported loser has marks on `F` PLUS `lost`.
The overstatement scores a record it cannot use (unfindable card; under style a record lacking the contest) as a vote
for the loser alone, whichever pair is looked at — so this, and nothing stronger, is what makes some assertion false on
the manual records (`plurality_comparison_null_iff`).  With `lost = 0` it is `PluralityOutcomeWrong`; for every `lost`
it is IMPLIED by `PluralityOutcomeWrong contest W L F` (`pluralityUnconfirmed_of_wrong`): the hypothesis of the
comparison theorem is weaker than "the outcome is wrong on the found ballots". -/
def PluralityOutcomeUnconfirmed (lost : Nat) (contest : String) (W L : List String) (F : List CVR) : Prop :=
  ¬ ∀ w ∈ W, ∀ l ∈ L, C02.marks contest l F + lost < C02.marks contest w F

/-- the super-majority counterpart: a record scored 0 counts as one more valid vote for someone else
(`supermajority_comparison_null_iff`) -/
def SupermajorityOutcomeUnconfirmed (lost : Nat) (contest w : String) (cands : List String) (f : ℚ)
    (F : List CVR) : Prop :=
  ¬ f * ((C02.valid contest cands F : ℚ) + (lost : ℚ)) < (C02.wvalid contest cands w F : ℚ)

theorem pluralityUnconfirmed_zero (contest : String) (W L : List String) (F : List CVR) :
    PluralityOutcomeUnconfirmed 0 contest W L F ↔ PluralityOutcomeWrong contest W L F := by
  unfold PluralityOutcomeUnconfirmed PluralityOutcomeWrong
  simp

theorem pluralityUnconfirmed_of_wrong (lost : Nat) (contest : String) (W L : List String) (F : List CVR)
    (h : PluralityOutcomeWrong contest W L F) : PluralityOutcomeUnconfirmed lost contest W L F := by
  intro hall
  apply h
  intro w hw l hl
  have := hall w hw l hl
  omega

theorem supermajorityUnconfirmed_zero (contest w : String) (cands : List String) (f : ℚ) (F : List CVR) :
    SupermajorityOutcomeUnconfirmed 0 contest w cands f F ↔ SupermajorityOutcomeWrong contest w cands f F := by
  unfold SupermajorityOutcomeUnconfirmed SupermajorityOutcomeWrong
  simp

theorem supermajorityUnconfirmed_of_wrong (lost : Nat) (contest w : String) (cands : List String) (f : ℚ)
    (hf0 : 0 < f) (F : List CVR) (h : SupermajorityOutcomeWrong contest w cands f F) :
    SupermajorityOutcomeUnconfirmed lost contest w cands f F := by
  intro hlt
  apply h
  have hz : (0 : ℚ) ≤ (lost : ℚ) := Nat.cast_nonneg _
  have : 0 ≤ f * (lost : ℚ) := mul_nonneg (le_of_lt hf0) hz
  rw [mul_add] at hlt
  linarith

/-- **Contest `c` has a comparison / ONEAudit assertion with raw assorter `assort` and assorter bound `u`, set up as
the library sets it up on the population `cards`.**  Stands for the same constructor lines as `PollingAssertion`
(L1923-1951 / L2008-2041) followed by `Assertion.set_all_margins_from_cvrs` / `set_margin_from_cvrs` (L1490-1529,
L2264-2284) and, for ONEAudit, `Assorter.set_tally_pool_means` (L2475-2520); the data are what `mvrs_to_data`
(L1644-1662) returns.  Existentially bundled: an assertion `a ∈ c.assertions` together with

* `cv : α → Cvr` — the CVR of each card as THIS assertion's overstatement reads it (any `Cvr`s: phantoms, pooled or
  not, any pool labels, any reported assorter value in `[0,u]`), agreeing with `listed` on `has_contest`;
* `ty ∈ {cardComparison, oneaudit}`, pool means `means` (`MeansFrom`: never set, or computed from `cards.map cv` under
  the same style flag), some card under audit, an unpooled phantom CVR under audit has `A = 1/2` (what `make_phantoms`
  produces), `(margin, U)` as `setMarginFromCvrs` returns them from the CVRs;
* `data c.id a.name` = `cardDatum` of the manual record `mvrOf assort contest (ballot x)` and `cv x`;
* the test: `NonnegMean.test` with `N` = number of cards under audit, `t = 1/2`, `u = U`, any shipped test in its
  documented range.

These are exactly the hypotheses of `plurality_comparison_risk_limit` / `supermajority_comparison_risk_limit` (i.e. of
`comparison_full_risk_limit`: C03's and C06's), nothing more. -/
def ComparisonAssertion {α : Type} (ballot : α → CVR) (cards : List α) (contest : String) (useStyle : Bool)
    (listed : α → Bool) (data : String → String → α → Option ℚ) (T : String → String → SeqTest) (c : Contest)
    (assort : CVR → ℚ) (u : ℚ) : Prop :=
  ∃ a ∈ c.assertions, ∃ (cv : α → Cvr) (ty : AuditType) (means : Option Means) (margin U : XR)
      (sqrtF : ℚ → ℚ) (cfg : NM.Cfg) (test : NM.Test),
    (∀ x ∈ cards, (cv x).hasContest = listed x) ∧
    (ty = .cardComparison ∨ ty = .oneaudit) ∧
    MeansFrom useStyle (cards.map cv) means ∧
    (∀ r ∈ cards.map cv, 0 ≤ r.a ∧ r.a ≤ u) ∧
    C03.aud useStyle (cards.map cv) ≠ [] ∧
    (∀ r ∈ C03.aud useStyle (cards.map cv), r.phantom = true → usesPool means r = false → r.a = 1 / 2) ∧
    setMarginFromCvrs 1 useStyle ty u (cards.map cv) = .ok (margin, U) ∧
    (data c.id a.name = fun x => cardDatum ty useStyle margin u means (mvrOf assort contest (ballot x), cv x)) ∧
    cfg.N = some (C03.aud useStyle (cards.map cv)).length ∧ cfg.t = 1 / 2 ∧ XR.fin cfg.u = U ∧
    T c.id a.name = NM.run sqrtF cfg test ∧ C01.DocumentedFinite sqrtF cfg test

/-- **Contest-level risk limit, card-level comparison / ONEAudit, plurality / approval with any number of winners.**

`hall` — for EVERY pair `(w, l) ∈ W × L` the contest has a comparison assertion with the plurality assorter
"`w` v `l`" (assorter bound 1), each with its own CVR view, margin, pool means and test (`ComparisonAssertion`); the
CVRs are arbitrary — the theorem holds whatever the machine reported about who won.  As for polling, this is what
`make_plurality_assertions` builds unless two pairs get the same name (`pair_name_clash`).

`hwrong` — stated on the TRUE ballots as generously as is true: over the found ballots `F` of the cards under audit,
NOT every reported winner has more marks than every reported loser plus the number of records scored 0
(`PluralityOutcomeUnconfirmed`).  It is implied by "the reported outcome is wrong on `F`"
(`plurality_outcome_comparison_risk_limit_found`), and the marks over `F` are the marks over all the cards under audit
that could be found (`marks_foundOf`).  What the theorem cannot speak about, because the audit never looks at it: the
marks on a card that cannot be found, on a manual record that (under style) does not list the contest, and — under
style — on a card whose CVR does not list the contest.

Conclusion: the audit is EVER reported complete with probability at most `c.riskLimit`. -/
theorem plurality_outcome_comparison_risk_limit {α : Type} (ballot : α → CVR) (cards : List α)
    (contest : String) (W L : List String) (useStyle : Bool) (listed : α → Bool)
    (data : String → String → α → Option ℚ) (T : String → String → SeqTest) (s : State)
    (c : Contest) (hc : c ∈ s)
    (hall : ∀ w ∈ W, ∀ l ∈ L,
      ComparisonAssertion ballot cards contest useStyle listed data T c (plurality contest w l) 1)
    (hr0 : 0 < c.riskLimit) (hr1 : c.riskLimit < 1)
    (hwrong : PluralityOutcomeUnconfirmed (lostOf useStyle contest ballot listed cards) contest W L
      (foundOf useStyle contest ballot listed cards)) :
    hitG (auditCompleteOpt data T s) cards.length cards [] ≤ c.riskLimit := by
  have hpair : ∃ w ∈ W, ∃ l ∈ L, C02.marks contest w (foundOf useStyle contest ballot listed cards)
      ≤ C02.marks contest l (foundOf useStyle contest ballot listed cards)
        + lostOf useStyle contest ballot listed cards := by
    by_contra hno
    apply hwrong
    intro w hw l hl
    by_contra hlt
    exact hno ⟨w, hw, l, hl, Nat.le_of_not_lt hlt⟩
  obtain ⟨w, hw, l, hl, hle⟩ := hpair
  obtain ⟨a, ha, cv, ty, means, margin, U, sqrtF, cfg, test, hlist, hty, hm, hcv, hne, hph, hmargin, hdata, hN, ht,
    hcu, hT, hdoc⟩ := hall w hw l hl
  rw [← foundBallots_listed useStyle contest ballot cv listed cards hlist,
    ← lostCount_listed useStyle contest ballot cv listed cards hlist] at hle
  exact plurality_comparison_risk_limit ballot cv cards contest w l ty hty useStyle means hm hcv hne hph margin U
    hmargin data T s c hc a ha hdata sqrtF cfg test hN ht hcu hT hdoc hr0 hr1 hle

/-- the same with the plain hypothesis: the reported outcome is wrong on the found ballots of the cards under audit -/
theorem plurality_outcome_comparison_risk_limit_found {α : Type} (ballot : α → CVR) (cards : List α)
    (contest : String) (W L : List String) (useStyle : Bool) (listed : α → Bool)
    (data : String → String → α → Option ℚ) (T : String → String → SeqTest) (s : State)
    (c : Contest) (hc : c ∈ s)
    (hall : ∀ w ∈ W, ∀ l ∈ L,
      ComparisonAssertion ballot cards contest useStyle listed data T c (plurality contest w l) 1)
    (hr0 : 0 < c.riskLimit) (hr1 : c.riskLimit < 1)
    (hwrong : PluralityOutcomeWrong contest W L (foundOf useStyle contest ballot listed cards)) :
    hitG (auditCompleteOpt data T s) cards.length cards [] ≤ c.riskLimit :=
  plurality_outcome_comparison_risk_limit ballot cards contest W L useStyle listed data T s c hc hall hr0 hr1
    (pluralityUnconfirmed_of_wrong _ contest W L _ hwrong)

/-- **Contest-level risk limit, comparison / ONEAudit, super-majority** (`0 < f < 1`, assorter bound `1/(2f)`). -/
theorem supermajority_outcome_comparison_risk_limit {α : Type} (ballot : α → CVR) (cards : List α)
    (contest w : String) (cands : List String) (f : ℚ) (hf0 : 0 < f) (hf1 : f < 1)
    (useStyle : Bool) (listed : α → Bool)
    (data : String → String → α → Option ℚ) (T : String → String → SeqTest) (s : State)
    (c : Contest) (hc : c ∈ s)
    (hasn : ComparisonAssertion ballot cards contest useStyle listed data T c
      (supermajority contest w cands f) (superUpper f))
    (hr0 : 0 < c.riskLimit) (hr1 : c.riskLimit < 1)
    (hwrong : SupermajorityOutcomeUnconfirmed (lostOf useStyle contest ballot listed cards) contest w cands f
      (foundOf useStyle contest ballot listed cards)) :
    hitG (auditCompleteOpt data T s) cards.length cards [] ≤ c.riskLimit := by
  obtain ⟨a, ha, cv, ty, means, margin, U, sqrtF, cfg, test, hlist, hty, hm, hcv, hne, hph, hmargin, hdata, hN, ht,
    hcu, hT, hdoc⟩ := hasn
  have hle := not_lt.mp hwrong
  rw [← foundBallots_listed useStyle contest ballot cv listed cards hlist,
    ← lostCount_listed useStyle contest ballot cv listed cards hlist] at hle
  exact supermajority_comparison_risk_limit ballot cv cards contest w cands f hf0 hf1 ty hty useStyle means hm hcv hne
    hph margin U hmargin data T s c hc a ha hdata sqrtF cfg test hN ht hcu hT hdoc hr0 hr1 hle

/-- the same with the plain hypothesis `wvalid ≤ f · valid` on the found ballots -/
theorem supermajority_outcome_comparison_risk_limit_found {α : Type} (ballot : α → CVR) (cards : List α)
    (contest w : String) (cands : List String) (f : ℚ) (hf0 : 0 < f) (hf1 : f < 1)
    (useStyle : Bool) (listed : α → Bool)
    (data : String → String → α → Option ℚ) (T : String → String → SeqTest) (s : State)
    (c : Contest) (hc : c ∈ s)
    (hasn : ComparisonAssertion ballot cards contest useStyle listed data T c
      (supermajority contest w cands f) (superUpper f))
    (hr0 : 0 < c.riskLimit) (hr1 : c.riskLimit < 1)
    (hwrong : SupermajorityOutcomeWrong contest w cands f (foundOf useStyle contest ballot listed cards)) :
    hitG (auditCompleteOpt data T s) cards.length cards [] ≤ c.riskLimit :=
  supermajority_outcome_comparison_risk_limit ballot cards contest w cands f hf0 hf1 useStyle listed data T s c hc
    hasn hr0 hr1 (supermajorityUnconfirmed_of_wrong _ contest w cands f hf0 _ hwrong)

/-! ### in the words of a risk-limiting audit: several contests, any of them wrong -/

/-- what a contest of the audit is about: its social choice function with the reported outcome -/
inductive ContestKind where
  /-- plurality / approval: contest id on the cards, reported winners, reported losers -/
  | plurality (contest : String) (W L : List String)
  /-- super-majority: contest id, reported winner, the candidates among which a valid vote is counted, the share -/
  | supermajority (contest w : String) (cands : List String) (f : ℚ)

/-- the contest id on the cards -/
def ContestKind.contest : ContestKind → String
  | .plurality contest _ _ => contest
  | .supermajority contest _ _ _ => contest

/-- **the reported outcome is wrong on the ballots `B`** -/
def ReportedOutcomeWrong : ContestKind → List CVR → Prop
  | .plurality contest W L, B => PluralityOutcomeWrong contest W L B
  | .supermajority contest w cands f, B => SupermajorityOutcomeWrong contest w cands f B

/-- the reported outcome cannot be confirmed from the found ballots `F` when `lost` records are scored 0 -/
def ReportedOutcomeUnconfirmed (lost : Nat) : ContestKind → List CVR → Prop
  | .plurality contest W L, F => PluralityOutcomeUnconfirmed lost contest W L F
  | .supermajority contest w cands f, F => SupermajorityOutcomeUnconfirmed lost contest w cands f F

/-- contest `c` carries the polling assertions `make_all_assertions` builds for its kind (population of `n` cards) -/
def PollingAudited (data : String → String → CVR → ℚ) (T : String → String → SeqTest) (c : Contest) (n : Nat) :
    ContestKind → Prop
  | .plurality contest W L => ∀ w ∈ W, ∀ l ∈ L, PollingAssertion data T c n (plurality contest w l) 1
  | .supermajority contest w cands f =>
      0 < f ∧ f < 1 ∧ PollingAssertion data T c n (supermajority contest w cands f) (superUpper f)

/-- contest `c` carries the comparison / ONEAudit assertions of its kind -/
def ComparisonAudited {α : Type} (ballot : α → CVR) (cards : List α) (useStyle : Bool) (listed : α → Bool)
    (data : String → String → α → Option ℚ) (T : String → String → SeqTest) (c : Contest) : ContestKind → Prop
  | .plurality contest W L => ∀ w ∈ W, ∀ l ∈ L,
      ComparisonAssertion ballot cards contest useStyle listed data T c (plurality contest w l) 1
  | .supermajority contest w cands f =>
      0 < f ∧ f < 1 ∧
        ComparisonAssertion ballot cards contest useStyle listed data T c (supermajority contest w cands f)
          (superUpper f)

theorem unconfirmed_of_wrong (lost : Nat) (kind : ContestKind) (F : List CVR)
    (hf : ∀ contest w cands f, kind = .supermajority contest w cands f → 0 < f)
    (h : ReportedOutcomeWrong kind F) : ReportedOutcomeUnconfirmed lost kind F := by
  cases kind with
  | plurality contest W L => exact pluralityUnconfirmed_of_wrong lost contest W L F h
  | supermajority contest w cands f =>
    exact supermajorityUnconfirmed_of_wrong lost contest w cands f (hf contest w cands f rfl) F h

/-- **One contest of a polling audit has a wrong reported outcome** (whatever its social choice function among
plurality / approval / super-majority): the audit — of ALL the contests in `s` — is ever reported complete with
probability at most THAT contest's risk limit.  Nothing is assumed about the other contests. -/
theorem wrong_outcome_polling_risk_limit (data : String → String → CVR → ℚ)
    (T : String → String → SeqTest) (s : State) (c : Contest) (hc : c ∈ s) (B : List CVR) (kind : ContestKind)
    (haud : PollingAudited data T c B.length kind)
    (hr0 : 0 < c.riskLimit) (hr1 : c.riskLimit < 1)
    (hwrong : ReportedOutcomeWrong kind B) :
    hitG (auditComplete data T s) B.length B [] ≤ c.riskLimit := by
  cases kind with
  | plurality contest W L =>
    exact plurality_outcome_polling_risk_limit data T s c hc B contest W L haud hr0 hr1 hwrong
  | supermajority contest w cands f =>
    exact supermajority_outcome_polling_risk_limit data T s c hc B contest w cands f haud.1 haud.2.1 haud.2.2 hr0 hr1
      hwrong

/-- **One contest of a comparison / ONEAudit audit has a reported outcome that cannot be confirmed from the found
ballots of its cards under audit** (in particular: that is wrong on them). -/
theorem wrong_outcome_comparison_risk_limit {α : Type} (ballot : α → CVR) (cards : List α)
    (useStyle : Bool) (listed : α → Bool)
    (data : String → String → α → Option ℚ) (T : String → String → SeqTest) (s : State)
    (c : Contest) (hc : c ∈ s) (kind : ContestKind)
    (haud : ComparisonAudited ballot cards useStyle listed data T c kind)
    (hr0 : 0 < c.riskLimit) (hr1 : c.riskLimit < 1)
    (hwrong : ReportedOutcomeUnconfirmed (lostOf useStyle kind.contest ballot listed cards) kind
      (foundOf useStyle kind.contest ballot listed cards)) :
    hitG (auditCompleteOpt data T s) cards.length cards [] ≤ c.riskLimit := by
  cases kind with
  | plurality contest W L =>
    exact plurality_outcome_comparison_risk_limit ballot cards contest W L useStyle listed data T s c hc haud hr0 hr1
      hwrong
  | supermajority contest w cands f =>
    exact supermajority_outcome_comparison_risk_limit ballot cards contest w cands f haud.1 haud.2.1 useStyle listed
      data T s c hc haud.2.2 hr0 hr1 hwrong

/-- the largest risk limit among the contests of the audit (0 for no contest) -/
def maxRiskLimit (s : State) : ℚ := s.foldr (fun c m => max c.riskLimit m) 0

theorem riskLimit_le_max (s : State) (c : Contest) (hc : c ∈ s) : c.riskLimit ≤ maxRiskLimit s := by
  induction s with
  | nil => cases hc
  | cons d s ih =>
    unfold maxRiskLimit
    rw [List.foldr_cons]
    rcases List.mem_cons.mp hc with rfl | h
    · exact le_max_left _ _
    · exact le_trans (ih h) (le_max_right _ _)

/-- **The risk limit of a ballot-polling audit of several contests.**  `kind c` describes each contest (social choice
function, reported outcome); every contest carries the assertions `make_all_assertions` builds for it and has its
risk limit in `(0,1)`.  If the reported outcome of ANY contest is wrong on the cards cast, the audit is ever reported
complete with probability at most that contest's risk limit — hence at most the largest risk limit of the audit.
(`haud` and `hr` are used for the wrong contest only: `wrong_outcome_polling_risk_limit`.) -/
theorem audit_polling_risk_limit (data : String → String → CVR → ℚ)
    (T : String → String → SeqTest) (s : State) (B : List CVR) (kind : Contest → ContestKind)
    (haud : ∀ c ∈ s, PollingAudited data T c B.length (kind c))
    (hr : ∀ c ∈ s, 0 < c.riskLimit ∧ c.riskLimit < 1)
    (hwrong : ∃ c ∈ s, ReportedOutcomeWrong (kind c) B) :
    (∀ c ∈ s, ReportedOutcomeWrong (kind c) B →
        hitG (auditComplete data T s) B.length B [] ≤ c.riskLimit) ∧
      hitG (auditComplete data T s) B.length B [] ≤ maxRiskLimit s := by
  have h1 : ∀ c ∈ s, ReportedOutcomeWrong (kind c) B →
      hitG (auditComplete data T s) B.length B [] ≤ c.riskLimit := fun c hc hw =>
    wrong_outcome_polling_risk_limit data T s c hc B (kind c) (haud c hc) (hr c hc).1 (hr c hc).2 hw
  obtain ⟨c, hc, hw⟩ := hwrong
  exact ⟨h1, le_trans (h1 c hc hw) (riskLimit_le_max s c hc)⟩

/-- **The risk limit of a card-level comparison / ONEAudit audit of several contests** (each contest with its own
style flag and its own "the CVR lists me"). -/
theorem audit_comparison_risk_limit {α : Type} (ballot : α → CVR) (cards : List α)
    (useStyle : Contest → Bool) (listed : Contest → α → Bool)
    (data : String → String → α → Option ℚ) (T : String → String → SeqTest) (s : State)
    (kind : Contest → ContestKind)
    (haud : ∀ c ∈ s, ComparisonAudited ballot cards (useStyle c) (listed c) data T c (kind c))
    (hr : ∀ c ∈ s, 0 < c.riskLimit ∧ c.riskLimit < 1)
    (hwrong : ∃ c ∈ s, ReportedOutcomeUnconfirmed (lostOf (useStyle c) (kind c).contest ballot (listed c) cards)
      (kind c) (foundOf (useStyle c) (kind c).contest ballot (listed c) cards)) :
    (∀ c ∈ s, ReportedOutcomeUnconfirmed (lostOf (useStyle c) (kind c).contest ballot (listed c) cards)
        (kind c) (foundOf (useStyle c) (kind c).contest ballot (listed c) cards) →
        hitG (auditCompleteOpt data T s) cards.length cards [] ≤ c.riskLimit) ∧
      hitG (auditCompleteOpt data T s) cards.length cards [] ≤ maxRiskLimit s := by
  have h1 : ∀ c ∈ s, ReportedOutcomeUnconfirmed (lostOf (useStyle c) (kind c).contest ballot (listed c) cards)
        (kind c) (foundOf (useStyle c) (kind c).contest ballot (listed c) cards) →
      hitG (auditCompleteOpt data T s) cards.length cards [] ≤ c.riskLimit := fun c hc hw =>
    wrong_outcome_comparison_risk_limit ballot cards (useStyle c) (listed c) data T s c hc (kind c) (haud c hc)
      (hr c hc).1 (hr c hc).2 hw
  obtain ⟨c, hc, hw⟩ := hwrong
  exact ⟨h1, le_trans (h1 c hc hw) (riskLimit_le_max s c hc)⟩

/-! ### contests audited by different methods in one audit

`con.audit_type` is an attribute of the contest: one audit can poll some contests and compare others.  On a population
of cards of any type `α` (a card gives its manual record `ballot x`), a polling assertion uses EVERY drawn card
(`mvrs_to_data` L1664-1669: "assume style information is irrelevant") — its datum is `some (assort (ballot x))`. -/

/-- `PollingAssertion` on cards of any type, for `auditCompleteOpt` -/
def PollingAssertionCards {α : Type} (ballot : α → CVR) (data : String → String → α → Option ℚ)
    (T : String → String → SeqTest) (c : Contest) (n : Nat) (assort : CVR → ℚ) (u : ℚ) : Prop :=
  ∃ a ∈ c.assertions, (data c.id a.name = fun x => some (assort (ballot x))) ∧
    ∃ (sqrtF : ℚ → ℚ) (cfg : NM.Cfg) (test : NM.Test),
      cfg.N = some n ∧ cfg.t = 1 / 2 ∧ cfg.u = u ∧
      T c.id a.name = NM.run sqrtF cfg test ∧ C01.DocumentedFinite sqrtF cfg test

/-- a polling assertion whose assorter values lie in `[0,u]` and average at most 1/2 over the cards cast -/
theorem polling_cards_risk_limit {α : Type} (ballot : α → CVR) (cards : List α)
    (data : String → String → α → Option ℚ) (T : String → String → SeqTest) (s : State)
    (c : Contest) (hc : c ∈ s) (assort : CVR → ℚ) (u : ℚ)
    (hasn : PollingAssertionCards ballot data T c cards.length assort u)
    (hr0 : 0 < c.riskLimit) (hr1 : c.riskLimit < 1)
    (hrange : ∀ b, 0 ≤ assort b ∧ assort b ≤ u)
    (hnull : ((cards.map ballot).map assort).sum ≤ ((cards.map ballot).length : ℚ) * (1 / 2)) :
    hitG (auditCompleteOpt data T s) cards.length cards [] ≤ c.riskLimit := by
  obtain ⟨a, ha, hdata, sqrtF, cfg, test, hN, ht, hu, hT, hdoc⟩ := hasn
  have hD : cards.filterMap (data c.id a.name) = (cards.map ballot).map assort := by
    rw [hdata, List.map_map]
    exact congrFun (List.filterMap_eq_map' (f := fun x => assort (ballot x))) cards
  apply audit_risk_limit_style_run data T s c hc a ha cards sqrtF cfg test _ hT hdoc hr0 hr1
  · rw [hD, hu]
    intro v hv
    obtain ⟨b, _, rfl⟩ := List.mem_map.mp hv
    exact hrange b
  · rw [hD, ht, List.length_map]
    exact hnull
  · rw [hD, List.length_map, List.length_map]
    exact hN

/-- how a contest is audited -/
inductive AuditMethod (α : Type) where
  /-- ballot polling: every drawn card is used -/
  | polling
  /-- card-level comparison or ONEAudit, with the contest's style flag and "the card's CVR lists the contest" -/
  | comparison (useStyle : Bool) (listed : α → Bool)

/-- contest `c` carries the assertions of its kind, set up for its audit method -/
def AuditedBy {α : Type} (ballot : α → CVR) (cards : List α) (data : String → String → α → Option ℚ)
    (T : String → String → SeqTest) (c : Contest) : AuditMethod α → ContestKind → Prop
  | .polling, .plurality contest W L => ∀ w ∈ W, ∀ l ∈ L,
      PollingAssertionCards ballot data T c cards.length (plurality contest w l) 1
  | .polling, .supermajority contest w cands f =>
      0 < f ∧ f < 1 ∧
        PollingAssertionCards ballot data T c cards.length (supermajority contest w cands f) (superUpper f)
  | .comparison useStyle listed, kind => ComparisonAudited ballot cards useStyle listed data T c kind

/-- the reported outcome is wrong, as the contest's audit method can see it: polling — on the cards cast;
comparison — cannot be confirmed from the found ballots of the cards under audit -/
def OutcomeWrongFor {α : Type} (ballot : α → CVR) (cards : List α) : AuditMethod α → ContestKind → Prop
  | .polling, kind => ReportedOutcomeWrong kind (cards.map ballot)
  | .comparison useStyle listed, kind =>
      ReportedOutcomeUnconfirmed (lostOf useStyle kind.contest ballot listed cards) kind
        (foundOf useStyle kind.contest ballot listed cards)

/-- one contest wrong, whatever its method and kind -/
theorem wrong_outcome_risk_limit {α : Type} (ballot : α → CVR) (cards : List α)
    (data : String → String → α → Option ℚ) (T : String → String → SeqTest) (s : State)
    (c : Contest) (hc : c ∈ s) (method : AuditMethod α) (kind : ContestKind)
    (haud : AuditedBy ballot cards data T c method kind)
    (hr0 : 0 < c.riskLimit) (hr1 : c.riskLimit < 1)
    (hwrong : OutcomeWrongFor ballot cards method kind) :
    hitG (auditCompleteOpt data T s) cards.length cards [] ≤ c.riskLimit := by
  cases method with
  | comparison useStyle listed =>
    exact wrong_outcome_comparison_risk_limit ballot cards useStyle listed data T s c hc kind haud hr0 hr1 hwrong
  | polling =>
    cases kind with
    | plurality contest W L =>
      obtain ⟨w, hw, l, hl, hle⟩ := (pluralityOutcomeWrong_iff_pair contest W L _).1 hwrong
      refine polling_cards_risk_limit ballot cards data T s c hc (plurality contest w l) 1 (haud w hw l hl) hr0 hr1
        (fun b => ⟨(C02.assort_range_plur contest w l b).1, (C02.assort_range_plur contest w l b).2.1⟩)
        (plurality_null contest w l _ hle)
    | supermajority contest w cands f =>
      obtain ⟨hf0, hf1, hasn⟩ := haud
      exact polling_cards_risk_limit ballot cards data T s c hc (supermajority contest w cands f) (superUpper f)
        hasn hr0 hr1 (C02.assort_range_super contest w cands f hf0 hf1)
        (supermajority_null contest w cands f hf0 _ (not_lt.mp hwrong))

/-- **The risk limit of an audit of several contests, each with its own social choice function (plurality / approval
/ super-majority), reported outcome, audit method (polling / comparison / ONEAudit, style or not) and risk limit.**
If the reported outcome of ANY contest is wrong — polling: on the cards cast; comparison: not confirmable from the found
ballots of its cards under audit — the probability, over the orders in which the cards are drawn, that the audit is EVER
reported complete is at most that contest's risk limit, hence at most the largest risk limit of the audit. -/
theorem audit_outcome_risk_limit {α : Type} (ballot : α → CVR) (cards : List α)
    (data : String → String → α → Option ℚ) (T : String → String → SeqTest) (s : State)
    (method : Contest → AuditMethod α) (kind : Contest → ContestKind)
    (haud : ∀ c ∈ s, AuditedBy ballot cards data T c (method c) (kind c))
    (hr : ∀ c ∈ s, 0 < c.riskLimit ∧ c.riskLimit < 1)
    (hwrong : ∃ c ∈ s, OutcomeWrongFor ballot cards (method c) (kind c)) :
    (∀ c ∈ s, OutcomeWrongFor ballot cards (method c) (kind c) →
        hitG (auditCompleteOpt data T s) cards.length cards [] ≤ c.riskLimit) ∧
      hitG (auditCompleteOpt data T s) cards.length cards [] ≤ maxRiskLimit s := by
  have h1 : ∀ c ∈ s, OutcomeWrongFor ballot cards (method c) (kind c) →
      hitG (auditCompleteOpt data T s) cards.length cards [] ≤ c.riskLimit := fun c hc hw =>
    wrong_outcome_risk_limit ballot cards data T s c hc (method c) (kind c) (haud c hc) (hr c hc).1 (hr c hc).2 hw
  obtain ⟨c, hc, hw⟩ := hwrong
  exact ⟨h1, le_trans (h1 c hc hw) (riskLimit_le_max s c hc)⟩

/-! ### non-vacuity

Contest "AvB", vote for up to two of `a, b, c`; reported winners `a, b`, reported loser `c`.  Five cards were cast:
`{a,b}`, `{a,c}`, `{a}`, `{b}`, `{c}` — `a` has 3 marks, `b` has 2 and so has `c`: the third candidate TIES the second,
the reported outcome is wrong (cannot be confirmed).  `make_plurality_assertions` builds `a v c` and `b v c`
(`Assertion.make_all_assertions` on the real `Contest`: keys `['a v c', 'b v c']`, `test.N = 5`, `t = 1/2`, `u = 1`). -/

/-- why `hall` is a hypothesis and not a consequence of "the assertions were built by `make_plurality_assertions`":
the dict key of a pair is `winr + " v " + losr` (L1925), and two different pairs can get the same key — with winners
`a`, `a v b` and losers `b v c`, `c` the pairs (`a`, `b v c`) and (`a v b`, `c`) both get `a v b v c`; the second
assignment overwrites the first.  On the real code: `make_all_assertions` for candidates `a, a v b, b v c, c`, winners
`a, a v b` returns 3 assertions for the 4 pairs — none compares `a` with `b v c`. -/
theorem pair_name_clash : "a" ++ " v " ++ "b v c" = "a v b" ++ " v " ++ "c" ∧ ("a", "b v c") ≠ ("a v b", "c") := by
  decide

section example_
open Shangrla.NM

def k2Ballot (id : String) (m : Marks) : CVR := { id := id, votes := [("AvB", m)] }

/-- the cards cast -/
def B2 : List CVR :=
  [k2Ballot "1" [("a", .b true), ("b", .b true)], k2Ballot "2" [("a", .b true), ("c", .b true)],
   k2Ballot "3" [("a", .b true)], k2Ballot "4" [("b", .b true)], k2Ballot "5" [("c", .b true)]]

def cfg2 : Cfg := { N := some 5, u := 1, t := 1/2, randomOrder := true, kw := { eta := some (3/4) } }
def data2 : String → String → CVR → ℚ :=
  fun _ name => if name = "a v c" then plurality "AvB" "a" "c" else plurality "AvB" "b" "c"
def T2 : String → String → SeqTest := fun _ _ => NM.run sqrtRat cfg2 (.alpha .fixedAlt)
def c2 : Contest :=
  { id := "AvB", riskLimit := 3/5, assertions := [{ name := "a v c" }, { name := "b v c" }],
    nWinners := 2, candidates := some ["a", "b", "c"], winner := some ["a", "b"] }
def s2 : State := [c2]

example : C02.marks "AvB" "a" B2 = 3 ∧ C02.marks "AvB" "b" B2 = 2 ∧ C02.marks "AvB" "c" B2 = 2 := by decide +kernel

/-- the reported outcome `{a, b}` is wrong: `c` has as many marks as `b` -/
theorem example_k2_wrong : PluralityOutcomeWrong "AvB" ["a", "b"] ["c"] B2 :=
  (pluralityOutcomeWrong_iff_pair _ _ _ _).2 ⟨"b", by simp, "c", by simp, by decide +kernel⟩

/-- the losers are what `make_all_assertions` computes (L2186), and the assertion names are the dict keys -/
example : Assorter.losers ["a", "b", "c"] ["a", "b"] = ["c"] ∧
    c2.assertions.map (·.name) = ["a" ++ " v " ++ "c", "b" ++ " v " ++ "c"] := by decide

/-- `hall`: both pairs have their assertion, tested by ALPHA (`fixed_alternative_mean`, `eta = 3/4`) with `N = 5` -/
theorem example_k2_hall : ∀ w ∈ ["a", "b"], ∀ l ∈ ["c"],
    PollingAssertion data2 T2 c2 B2.length (plurality "AvB" w l) 1 := by
  have hdoc : C01.DocumentedFinite sqrtRat cfg2 (.alpha .fixedAlt) :=
    ⟨by norm_num [cfg2], ⟨by norm_num [cfg2, eps], by norm_num [cfg2, eps], by norm_num [cfg2]⟩, trivial⟩
  intro w hw l hl
  simp only [List.mem_cons, List.not_mem_nil, or_false] at hw hl
  subst hl
  rcases hw with rfl | rfl
  · exact ⟨{ name := "a v c" }, by simp [c2], rfl, sqrtRat, cfg2, _, rfl, rfl, rfl, rfl, hdoc⟩
  · exact ⟨{ name := "b v c" }, by simp [c2], rfl, sqrtRat, cfg2, _, rfl, rfl, rfl, rfl, hdoc⟩

/-- every hypothesis of `plurality_outcome_polling_risk_limit` is satisfied ... -/
example : hitG (auditComplete data2 T2 s2) 5 B2 [] ≤ 3/5 :=
  plurality_outcome_polling_risk_limit data2 T2 s2 c2 (List.mem_singleton.2 rfl) B2 "AvB" ["a", "b"] ["c"]
    example_k2_hall (by norm_num [c2]) (by norm_num [c2]) example_k2_wrong

/-- ... and of the audit-level statement -/
example : hitG (auditComplete data2 T2 s2) 5 B2 [] ≤ maxRiskLimit s2 :=
  (audit_polling_risk_limit data2 T2 s2 B2 (fun _ => .plurality "AvB" ["a", "b"] ["c"])
    (by intro c hc; rw [List.mem_singleton.1 hc]; exact example_k2_hall)
    (by intro c hc; rw [List.mem_singleton.1 hc]; norm_num [c2])
    ⟨c2, List.mem_singleton.2 rfl, example_k2_wrong⟩).2

/-- the bounded event really happens: although `c` tied `b`, over the 120 orders of the five cards the audit is
reported complete (BOTH assertions' p-values at most 3/5 at the same look) with probability 3/10 — below 3/5 -/
theorem example_outcome_polling_exact : hitG (auditComplete data2 T2 s2) 5 B2 [] = 3/10 := by decide +kernel

/-! the same contest under a card-level comparison audit (no style, no pools).  The machine misread card 5 as `{b}`:
the CVRs say `a` 3, `b` 3, `c` 1 — both reported margins are 2/5, test bound 5/4.  The manual records are `B2`.  Each
assertion reads its own `Cvr` off the card (`cvAC`, `cvBC`: the reported assorter values differ). -/

/-- what the machine reported -/
def R2 : List CVR :=
  [k2Ballot "1" [("a", .b true), ("b", .b true)], k2Ballot "2" [("a", .b true), ("c", .b true)],
   k2Ballot "3" [("a", .b true)], k2Ballot "4" [("b", .b true)], k2Ballot "5" [("b", .b true)]]

/-- a card: its true ballot and the machine's record of it -/
def cards2 : List (CVR × CVR) := B2.zip R2
def cvAC (x : CVR × CVR) : Cvr := cvrOf (plurality "AvB" "a" "c") "AvB" false none 0 x.2
def cvBC (x : CVR × CVR) : Cvr := cvrOf (plurality "AvB" "b" "c") "AvB" false none 0 x.2
def cfgC2 : Cfg := { N := some 5, u := 5/4, t := 1/2, randomOrder := true, kw := { eta := some 1 } }
def dataC2 : String → String → CVR × CVR → Option ℚ :=
  fun _ name x => if name = "a v c"
    then cardDatum .cardComparison false (XR.fin (2/5)) 1 none (mvrOf (plurality "AvB" "a" "c") "AvB" x.1, cvAC x)
    else cardDatum .cardComparison false (XR.fin (2/5)) 1 none (mvrOf (plurality "AvB" "b" "c") "AvB" x.1, cvBC x)
def TC2 : String → String → SeqTest := fun _ _ => NM.run sqrtRat cfgC2 (.alpha .fixedAlt)

example : C02.marks "AvB" "a" R2 = 3 ∧ C02.marks "AvB" "b" R2 = 3 ∧ C02.marks "AvB" "c" R2 = 1 ∧
    cards2.map (dataC2 "AvB" "a v c") = [some (5/8), some (5/8), some (5/8), some (5/8), some (5/16)] ∧
    cards2.map (dataC2 "AvB" "b v c") = [some (5/8), some (5/8), some (5/8), some (5/8), some 0] := by
  decide +kernel

/-- all five cards are under audit and were found: the found ballots are the cards cast -/
theorem example_k2_found : foundOf false "AvB" Prod.fst (fun _ => true) cards2 = B2 := rfl

example : lostOf false "AvB" Prod.fst (fun _ => true) cards2 = 0 := by decide +kernel

theorem example_k2_hall_comparison : ∀ w ∈ ["a", "b"], ∀ l ∈ ["c"],
    ComparisonAssertion Prod.fst cards2 "AvB" false (fun _ => true) dataC2 TC2 c2 (plurality "AvB" w l) 1 := by
  have hdoc : C01.DocumentedFinite sqrtRat cfgC2 (.alpha .fixedAlt) :=
    ⟨by norm_num [cfgC2], ⟨by norm_num [cfgC2, eps], by norm_num [cfgC2, eps], by norm_num [cfgC2]⟩, trivial⟩
  intro w hw l hl
  simp only [List.mem_cons, List.not_mem_nil, or_false] at hw hl
  subst hl
  rcases hw with rfl | rfl
  · exact ⟨{ name := "a v c" }, by simp [c2], cvAC, .cardComparison, none, XR.fin (2/5), XR.fin (5/4), sqrtRat, cfgC2,
      _, by decide +kernel, Or.inl rfl, MeansFrom.unset, by decide +kernel, by decide +kernel, by decide +kernel,
      by decide +kernel, rfl, by decide +kernel, rfl, rfl, rfl, hdoc⟩
  · exact ⟨{ name := "b v c" }, by simp [c2], cvBC, .cardComparison, none, XR.fin (2/5), XR.fin (5/4), sqrtRat, cfgC2,
      _, by decide +kernel, Or.inl rfl, MeansFrom.unset, by decide +kernel, by decide +kernel, by decide +kernel,
      by decide +kernel, rfl, by decide +kernel, rfl, rfl, rfl, hdoc⟩

/-- every hypothesis of `plurality_outcome_comparison_risk_limit_found` is satisfied ... -/
example : hitG (auditCompleteOpt dataC2 TC2 s2) 5 cards2 [] ≤ 3/5 :=
  plurality_outcome_comparison_risk_limit_found Prod.fst cards2 "AvB" ["a", "b"] ["c"] false (fun _ => true)
    dataC2 TC2 s2 c2 (List.mem_singleton.2 rfl) example_k2_hall_comparison (by norm_num [c2]) (by norm_num [c2])
    (by rw [example_k2_found]; exact example_k2_wrong)

/-- ... and the exact probability over the 120 orders is 2/5 -/
theorem example_outcome_comparison_exact : hitG (auditCompleteOpt dataC2 TC2 s2) 5 cards2 [] = 2/5 := by
  decide +kernel

/-! `audit_outcome_risk_limit` on the same five cards: once with the contest compared, once with it polled (the polling
data on a card `(ballot, CVR)` being `some` of the assorter of the ballot) -/

example : hitG (auditCompleteOpt dataC2 TC2 s2) 5 cards2 [] ≤ maxRiskLimit s2 :=
  (audit_outcome_risk_limit Prod.fst cards2 dataC2 TC2 s2 (fun _ => .comparison false (fun _ => true))
    (fun _ => .plurality "AvB" ["a", "b"] ["c"])
    (by intro c hc; rw [List.mem_singleton.1 hc]; exact example_k2_hall_comparison)
    (by intro c hc; rw [List.mem_singleton.1 hc]; norm_num [c2])
    ⟨c2, List.mem_singleton.2 rfl, pluralityUnconfirmed_of_wrong _ "AvB" ["a", "b"] ["c"]
      (foundOf false "AvB" Prod.fst (fun _ => true) cards2) (by rw [example_k2_found]; exact example_k2_wrong)⟩).2

def dataP2 : String → String → CVR × CVR → Option ℚ := fun cid name x => some (data2 cid name x.1)

example : hitG (auditCompleteOpt dataP2 T2 s2) 5 cards2 [] ≤ maxRiskLimit s2 :=
  (audit_outcome_risk_limit Prod.fst cards2 dataP2 T2 s2 (fun _ => .polling)
    (fun _ => .plurality "AvB" ["a", "b"] ["c"])
    (by
      have hdoc : C01.DocumentedFinite sqrtRat cfg2 (.alpha .fixedAlt) :=
        ⟨by norm_num [cfg2], ⟨by norm_num [cfg2, eps], by norm_num [cfg2, eps], by norm_num [cfg2]⟩, trivial⟩
      intro c hc; rw [List.mem_singleton.1 hc]
      intro w hw l hl
      simp only [List.mem_cons, List.not_mem_nil, or_false] at hw hl
      subst hl
      rcases hw with rfl | rfl
      · exact ⟨{ name := "a v c" }, by simp [c2], rfl, sqrtRat, cfg2, _, rfl, rfl, rfl, rfl, hdoc⟩
      · exact ⟨{ name := "b v c" }, by simp [c2], rfl, sqrtRat, cfg2, _, rfl, rfl, rfl, rfl, hdoc⟩)
    (by intro c hc; rw [List.mem_singleton.1 hc]; norm_num [c2])
    ⟨c2, List.mem_singleton.2 rfl,
      (show PluralityOutcomeWrong "AvB" ["a", "b"] ["c"] (cards2.map Prod.fst) from example_k2_wrong)⟩).2

end example_

end Shangrla.RiskLimit
