/-
  The audit-level risk limit for sampling WITH replacement (`replacement=True`, tests with `N = ∞`):
  cards are drawn independently from a finitely supported law on the cards (uniform over the cast cards, or
  any weights); the audit is ever reported complete within `k` draws with probability at most the risk limit of
  a contest one of whose assertions is false (C09 ∘ C01, IID form).
-/
import Shangrla.Props.RiskLimit

namespace Shangrla.RiskLimit
open Shangrla Shangrla.Ville Shangrla.Status Shangrla.AuditLoop

/-- expectation over a law on items of any type -/
def expG {α : Type} (L : List (α × ℚ)) (f : α → ℚ) : ℚ := (L.map (fun p => p.2 * f p.1)).sum

/-- the IID draw tree over items of any type -/
def hitIIDG {α : Type} (L : List (α × ℚ)) (ev : List α → Bool) : Nat → List α → ℚ
  | 0, h => if ev h then 1 else 0
  | n + 1, h => if ev h then 1 else expG L (fun a => hitIIDG L ev n (h ++ [a]))

/-- the law of an assertion's datum when the card is drawn from `L` -/
def mapLaw {α : Type} (f : α → ℚ) (L : List (α × ℚ)) : List (ℚ × ℚ) := L.map (fun p => (f p.1, p.2))

theorem expG_map {α : Type} (f : α → ℚ) (L : List (α × ℚ)) (g : ℚ → ℚ) :
    expL (mapLaw f L) g = expG L (fun a => g (f a)) := by
  unfold expL expG mapLaw
  simp [List.map_map, Function.comp_def]

theorem expG_le {α : Type} (L : List (α × ℚ)) (hw : ∀ p ∈ L, 0 ≤ p.2) (f g : α → ℚ)
    (h : ∀ p ∈ L, f p.1 ≤ g p.1) : expG L f ≤ expG L g := by
  unfold expG
  apply List.sum_le_sum
  intro p hp
  exact mul_le_mul_of_nonneg_left (h p hp) (hw p hp)

theorem expG_const {α : Type} (L : List (α × ℚ)) (c : ℚ) :
    expG L (fun _ => c) = (L.map Prod.snd).sum * c := by
  unfold expG
  induction L with
  | nil => simp
  | cons p L ih => simp only [List.map_cons, List.sum_cons, ih]; ring

theorem hitIIDG_map {α : Type} (f : α → ℚ) (L : List (α × ℚ)) (ev : List ℚ → Bool) :
    ∀ n (h : List α), hitIIDG L (fun h => ev (h.map f)) n h = hitIID (mapLaw f L) ev n (h.map f) := by
  intro n
  induction n with
  | zero => intro h; simp [hitIIDG, hitIID]
  | succ n ih =>
    intro h
    unfold hitIIDG hitIID
    by_cases he : ev (h.map f) = true
    · simp [he]
    · simp only [he]
      rw [expG_map]
      unfold expG
      congr 2
      apply List.map_congr_left
      intro p _
      simp only []
      rw [ih]
      simp

theorem hitIIDG_le_one {α : Type} (L : List (α × ℚ)) (hw : ∀ p ∈ L, 0 ≤ p.2) (hs : (L.map Prod.snd).sum = 1)
    (ev : List α → Bool) : ∀ n h, hitIIDG L ev n h ≤ 1 := by
  intro n
  induction n with
  | zero => intro h; unfold hitIIDG; split <;> norm_num
  | succ n ih =>
    intro h
    unfold hitIIDG
    split
    · norm_num
    · calc _ ≤ expG L (fun _ => (1 : ℚ)) := expG_le L hw _ _ (fun p _ => ih _)
        _ = 1 := by rw [expG_const, hs]; norm_num

theorem hitIIDG_mono {α : Type} (L : List (α × ℚ)) (hw : ∀ p ∈ L, 0 ≤ p.2) (hs : (L.map Prod.snd).sum = 1)
    (ev₁ ev₂ : List α → Bool) (himp : ∀ h, ev₁ h = true → ev₂ h = true) :
    ∀ n h, hitIIDG L ev₁ n h ≤ hitIIDG L ev₂ n h := by
  intro n
  induction n with
  | zero =>
    intro h
    unfold hitIIDG
    by_cases h1 : ev₁ h = true
    · rw [if_pos h1, if_pos (himp h h1)]
    · rw [if_neg h1]; split <;> norm_num
  | succ n ih =>
    intro h
    by_cases h2 : ev₂ h = true
    · have : hitIIDG L ev₂ (n + 1) h = 1 := by unfold hitIIDG; rw [if_pos h2]
      rw [this]; exact hitIIDG_le_one L hw hs _ _ _
    · have h1 : ¬ ev₁ h = true := fun h1 => h2 (himp h h1)
      unfold hitIIDG
      rw [if_neg h1, if_neg h2]
      exact expG_le L hw _ _ (fun p _ => ih _)

theorem hitIID_mono (L : List (ℚ × ℚ)) (hw : ∀ p ∈ L, 0 ≤ p.2) (hs : (L.map Prod.snd).sum = 1)
    (ev₁ ev₂ : List ℚ → Bool) (himp : ∀ h, ev₁ h = true → ev₂ h = true) :
    ∀ n h, hitIID L ev₁ n h ≤ hitIID L ev₂ n h := by
  have hone : ∀ n h, hitIID L ev₁ n h ≤ 1 := by
    intro n
    induction n with
    | zero => intro h; unfold hitIID; split <;> norm_num
    | succ n ih =>
      intro h
      unfold hitIID
      split
      · norm_num
      · calc _ ≤ expL L (fun _ => (1 : ℚ)) := expL_le L hw _ _ (fun p _ => ih _)
          _ = 1 := expL_const L hs 1
  intro n
  induction n with
  | zero =>
    intro h
    unfold hitIID
    by_cases h1 : ev₁ h = true
    · rw [if_pos h1, if_pos (himp h h1)]
    · rw [if_neg h1]; split <;> norm_num
  | succ n ih =>
    intro h
    by_cases h2 : ev₂ h = true
    · have : hitIID L ev₂ (n + 1) h = 1 := by unfold hitIID; rw [if_pos h2]
      rw [this]; exact hone _ _
    · have h1 : ¬ ev₁ h = true := fun h1 => h2 (himp h h1)
      unfold hitIID
      rw [if_neg h1, if_neg h2]
      exact expL_le L hw _ _ (fun p _ => ih _)

/-- **Risk limit of the audit, sampling with replacement.**  `L` is the law of one draw (a card and its
probability).  If the test of one assertion of contest `c` is sequentially valid for IID draws from the law of
that assertion's datum, the audit is reported complete at some point within the first `k` draws — `k`
arbitrary — with probability at most `c.riskLimit`. -/
theorem audit_risk_limit_iid {α : Type} (data : String → String → α → ℚ) (T : String → String → SeqTest)
    (s : State) (c : Contest) (hc : c ∈ s) (a : Assertion) (ha : a ∈ c.assertions)
    (L : List (α × ℚ)) (hw : ∀ p ∈ L, 0 ≤ p.2) (hs : (L.map Prod.snd).sum = 1) (k : Nat)
    (hC01 : hitIID (mapLaw (data c.id a.name) L) (pLe (T c.id a.name) c.riskLimit) k [] ≤ c.riskLimit) :
    hitIIDG L (auditComplete data T s) k [] ≤ c.riskLimit := by
  calc hitIIDG L (auditComplete data T s) k []
      ≤ hitIIDG L (fun h => pLe (T c.id a.name) c.riskLimit (h.map (data c.id a.name))) k [] :=
        hitIIDG_mono L hw hs _ _ (fun h hcomp => complete_forces data T s c hc a ha h hcomp) _ _
    _ = hitIID (mapLaw (data c.id a.name) L) (pLe (T c.id a.name) c.riskLimit) k [] := by
        rw [hitIIDG_map]; simp
    _ ≤ c.riskLimit := hC01

/-- the same with `NonnegMean.test` (`N = ∞`) in its documented range: ALPHA, betting, SPRT, Kaplan-Markov,
Kaplan-Wald -/
theorem audit_risk_limit_iid_run {α : Type} (data : String → String → α → ℚ) (T : String → String → SeqTest)
    (s : State) (c : Contest) (hc : c ∈ s) (a : Assertion) (ha : a ∈ c.assertions)
    (L : List (α × ℚ)) (hw : ∀ p ∈ L, 0 ≤ p.2) (hs : (L.map Prod.snd).sum = 1) (k : Nat)
    (sqrtF : ℚ → ℚ) (cfg : NM.Cfg) (test : NM.Test) (hN : cfg.N = none)
    (hT : T c.id a.name = NM.run sqrtF cfg test)
    (hdoc : C01.DocumentedIID sqrtF cfg test)
    (hr0 : 0 < c.riskLimit) (hr1 : c.riskLimit < 1)
    (hrange : ∀ p ∈ L, 0 ≤ data c.id a.name p.1 ∧ data c.id a.name p.1 ≤ cfg.u)
    (hnull : expG L (data c.id a.name) ≤ cfg.t) :
    hitIIDG L (auditComplete data T s) k [] ≤ c.riskLimit := by
  apply audit_risk_limit_iid data T s c hc a ha L hw hs k
  have hlaw : C01.IsLaw cfg.u (mapLaw (data c.id a.name) L) := by
    refine ⟨?_, ?_, ?_⟩
    · intro p hp
      obtain ⟨q, hq, rfl⟩ := List.mem_map.1 hp
      exact hw q hq
    · simpa [mapLaw, List.map_map, Function.comp_def] using hs
    · intro p hp
      obtain ⟨q, hq, rfl⟩ := List.mem_map.1 hp
      exact hrange q hq
  have hmean : C01.lawMean (mapLaw (data c.id a.name) L) ≤ cfg.t := by
    unfold C01.lawMean
    rw [expG_map]
    exact hnull
  have h := C01.C01_iid_run sqrtF cfg hN test hdoc c.riskLimit hr0 hr1 _ hlaw hmean k
  refine le_trans (hitIID_mono _ hlaw.w_nonneg hlaw.w_sum _ _ ?_ _ _) h
  intro dd hd
  rw [hT] at hd
  unfold pLe at hd
  unfold C01.reportedAnyRun C01.reportedAnyOf C01.anyLe
  cases hTd : NM.run sqrtF cfg test dd with
  | ok r => rw [hTd] at hd; simp only [Bool.or_eq_true]; exact Or.inl hd
  | error e => rw [hTd] at hd; cases hd

end Shangrla.RiskLimit
