/-
  C01 — risk limit for the remaining tests of `NonnegMean.py`:

  * `C01_finite_kk`    Kaplan-Kolmogorov, sampling without replacement from a finite population;
  * `C01_finite_sprt`  generalised Wald SPRT, sampling without replacement;
  * `C01_iid_sprt`     generalised Wald SPRT, independent draws;
  * `C01_iid_kw`       Kaplan-Wald, independent draws;
  * `C01_iid_km`       Kaplan-Markov, independent draws.

  Every theorem is about the literal model (`kaplanKolmogorov cfg`, `waldSprt cfg`, `kaplanWald cfg`,
  `kaplanMarkov cfg`): the event is "the last entry of the history the model returns on the draws so
  far is `≤ alpha`", the probability is the exact rational probability over the orders of drawing
  (`hitEv`) resp. over sequences of independent draws from a finitely supported law (`hitIID`).
-/
import Shangrla.Props.C01IID
import Shangrla.Props.C12Kaplan

namespace Shangrla.C01
open Shangrla Shangrla.NM XR Shangrla.C12 Shangrla.Ville Shangrla.C11

/-! ### generalities -/

/-- "the last entry of the reported history is `≤ alpha`" (`false` when the test raised) -/
def lastLe (alpha : ℚ) (r : Except Err (XR × List XR)) : Bool :=
  match r with
  | .ok r => (match r.2.getLast? with
      | some p => XR.le p (.fin alpha)
      | none => false)
  | .error _ => false

theorem reportedLast_eq_lastLe (cfg : Cfg) (estim : List ℚ → Except Err (List XR)) (alpha : ℚ)
    (h : List ℚ) : reportedLast cfg estim alpha h = lastLe alpha (alphaMart cfg estim h) := rfl

theorem lastLe_ok_map (alpha : ℚ) (p : XR) (M : List XR) (f : XR → XR) (j : Nat) (T : XR)
    (hlen : M.length = j + 1) (hT : M[j]? = some T)
    (h : lastLe alpha (.ok (p, M.map f)) = true) : XR.le (f T) (.fin alpha) = true := by
  have hl : M.getLast? = some T := by
    rw [List.getLast?_eq_getElem?, hlen]; simpa using hT
  simpa [lastLe, List.getLast?_map, hl] using h

/-- an index-dependent invariant along a cumulative product -/
theorem cumprodFrom_getElem?_indexed (F : List XR) : ∀ (C : Nat → XR → Prop) (acc : XR), C 0 acc →
    (∀ i T f, F[i]? = some f → C i T → C (i + 1) (T * f)) →
    ∀ j, j < F.length → ∃ T, (XR.cumprodFrom acc F)[j]? = some T ∧ C (j + 1) T := by
  induction F with
  | nil => intro C acc _ _ j hj; simp at hj
  | cons a F ih =>
    intro C acc hacc hstep j hj
    have h1 : C 1 (acc * a) := hstep 0 acc a (by simp) hacc
    cases j with
    | zero => exact ⟨acc * a, by simp [XR.cumprodFrom], h1⟩
    | succ j =>
      have hj' : j < F.length := by simpa using hj
      obtain ⟨T, hT, hC⟩ := ih (fun i => C (i + 1)) (acc * a) h1
        (fun i T f hf hc => hstep (i + 1) T f (by simpa using hf) hc) j hj'
      exact ⟨T, by simpa [XR.cumprodFrom] using hT, hC⟩

/-- a reported `min(1, 1/P) ≤ alpha < 1` means `P ≥ 1/alpha` -/
theorem pOfQ_le_alpha {P alpha : ℚ} (hP : 0 ≤ P) (ha0 : 0 < alpha) (ha1 : alpha < 1)
    (h : pOfQ P ≤ alpha) : 1 / alpha ≤ P := by
  by_cases h0 : P = 0
  · subst h0; rw [pOfQ_zero] at h; linarith
  · have hpos : 0 < P := lt_of_le_of_ne hP (Ne.symm h0)
    rw [pOfQ_of_ne h0] at h
    have h1 : 1 / P ≤ alpha := by
      rcases min_le_iff.1 h with h | h
      · linarith
      · exact h
    rw [div_le_iff₀ ha0]
    rw [div_le_iff₀ hpos] at h1
    linarith

theorem not_one_le_alpha {alpha : ℚ} (ha1 : alpha < 1) : ¬ XR.le (.fin 1) (.fin alpha) = true := by
  simp only [XR.le_fin, decide_eq_true_eq, not_le]; exact ha1

/-! ### observations and prefix sums of `h ++ [a]` -/

theorem obs_append_left (h r : List ℚ) (i : Nat) (hi : i < h.length) :
    Spec.obs (h ++ r) i = Spec.obs h i := by
  unfold Spec.obs
  rw [List.getD_eq_getElem?_getD, List.getD_eq_getElem?_getD, List.getElem?_append_left hi]

theorem obs_append_length (h : List ℚ) (a : ℚ) : Spec.obs (h ++ [a]) h.length = a := by
  unfold Spec.obs
  rw [List.getD_eq_getElem?_getD]
  simp

theorem obs_nonneg {x : List ℚ} (hx : ∀ a ∈ x, 0 ≤ a) (i : Nat) : 0 ≤ Spec.obs x i := by
  unfold Spec.obs
  rw [List.getD_eq_getElem?_getD]
  cases h : x[i]? with
  | none => simp
  | some a => simpa using hx a (List.mem_of_getElem? h)

theorem obs_mem {x : List ℚ} {i : Nat} (hi : i < x.length) : Spec.obs x i ∈ x := by
  unfold Spec.obs
  rw [List.getD_eq_getElem?_getD, List.getElem?_eq_getElem hi]
  simp

theorem psum_append_left (h r : List ℚ) (i : Nat) (hi : i ≤ h.length) : psum (h ++ r) i = psum h i := by
  unfold psum
  rw [List.take_append_of_le_length hi]

theorem psum_length (h : List ℚ) : psum h h.length = h.sum := by
  unfold psum; rw [List.take_length]

theorem psum_le_sum {x : List ℚ} (hx : ∀ a ∈ x, 0 ≤ a) (i : Nat) : psum x i ≤ x.sum := by
  by_cases hi : i ≤ x.length
  · rw [← psum_length x]; exact psum_mono hx hi
  · unfold psum; rw [List.take_of_length_le (by omega)]

/-- `psum x i + x_i ≤ Σ x` for non-negative observations -/
theorem psum_add_obs_le {x : List ℚ} (hx : ∀ a ∈ x, 0 ≤ a) (i : Nat) (hi : i < x.length) :
    psum x i + Spec.obs x i ≤ x.sum := by
  obtain ⟨a, ha⟩ := getElem?_some_of_lt hi
  rw [obs_eq ha, ← psum_succ x i a ha]
  exact psum_le_sum hx (i + 1)

/-- the defining product of a test as a product over indices (bridge between `Tq` and the `Spec`s) -/
theorem Tq_eq_prodTo (facQ : ℚ → ℚ → ℚ → ℚ) (N : Option Nat) (t : ℚ) (g : List ℚ → ℚ) (x : List ℚ) :
    Tq facQ N t g x =
      prodTo (fun i => facQ (mu N t (psum x i) (i + 1)) (Spec.obs x i) (g (x.take i))) x.length := by
  induction x using List.reverseRecOn with
  | nil => rw [Tq_nil]; rfl
  | append_singleton l a ih =>
    rw [(Tq_snoc facQ N t g l a).1, ih, List.length_append, List.length_singleton, prodTo]
    congr 1
    · apply prodTo_congr
      intro i hi
      rw [psum_append_left l [a] i (le_of_lt hi), obs_append_left l [a] i hi,
        List.take_append_of_le_length (le_of_lt hi)]
    · unfold muAfter
      rw [psum_append_left l [a] l.length (le_refl _), psum_length, obs_append_length,
        List.take_left' rfl]

/-- the null invariant of the draw tree for the tests that do not use the upper bound:
`R` = items not yet drawn, `h` = draws so far -/
def InvNN (n : Nat) (t : ℚ) (R h : List ℚ) : Prop :=
  h.length + R.length = n ∧ (∀ a ∈ R, 0 ≤ a) ∧ (∀ a ∈ h, 0 ≤ a) ∧ R.sum ≤ (n : ℚ) * t - h.sum

theorem invNN_step (n : Nat) (t : ℚ) (R h : List ℚ) (hI : InvNN n t R h) (i : Nat) (hi : i < R.length) :
    InvNN n t (R.eraseIdx i) (h ++ [R.getD i 0]) := by
  obtain ⟨h1, h2, h3, h4⟩ := hI
  refine ⟨?_, ?_, ?_, ?_⟩
  · rw [List.length_eraseIdx, if_pos hi]
    simp only [List.length_append, List.length_cons, List.length_nil]; omega
  · intro a ha; exact h2 a (mem_eraseIdx_of ha)
  · intro a ha
    simp only [List.mem_append, List.mem_singleton] at ha
    rcases ha with ha | rfl
    · exact h3 a ha
    · exact h2 _ (getD_mem hi)
  · rw [sum_eraseIdx R i hi]
    simp only [List.sum_append, List.sum_cons, List.sum_nil, add_zero]
    linarith

theorem invNN_sum_le (n : Nat) (t : ℚ) (R h : List ℚ) (hI : InvNN n t R h) : h.sum ≤ (n : ℚ) * t := by
  obtain ⟨_, h2, _, h4⟩ := hI
  have hR : 0 ≤ R.sum := List.sum_nonneg h2
  linarith

/-! ## Kaplan-Kolmogorov, sampling without replacement -/

/-- the event: the p-value `kaplan_kolmogorov` reports after the draws `h` is `≤ alpha` -/
def reportedLastKK (cfg : Cfg) (alpha : ℚ) (h : List ℚ) : Bool := lastLe alpha (kaplanKolmogorov cfg h)

/-- the Kaplan-Kolmogorov factor `(x_i + g)/mu_i`, and `0` once the null mean `mu_i` (of the shifted
data `x + g` under the shifted hypothesis `t + g`) is not positive -/
def kkFacZ (n : Nat) (t g : ℚ) (x : List ℚ) (i : Nat) : ℚ :=
  if 0 < Spec.kkMu n t g x i then (Spec.obs x i + g) / Spec.kkMu n t g x i else 0

/-- the value process of Kaplan-Kolmogorov: the published product while every null mean so far was
positive, `0` afterwards -/
def kkVal (n : Nat) (t g : ℚ) (x : List ℚ) : ℚ := prodTo (kkFacZ n t g x) x.length

/-- `mu_{i+1} = (N t − S_i + (N − i) g)/(N − i)` -/
theorem kkMu_num (n : Nat) (t g : ℚ) (x : List ℚ) (i : Nat) (hi : i ≤ x.length) :
    Spec.kkMu n t g x i = ((n : ℚ) * t - psum x i + ((n : ℚ) - (i : ℚ)) * g) / ((n : ℚ) - (i : ℚ)) := by
  unfold Spec.kkMu
  have h1 : ((x.take i).map (· + g)).sum = psum x i + (i : ℚ) * g := by
    rw [List.map_take]
    exact psum_map_add x g i hi
  rw [h1]
  congr 1 <;> ring

theorem kkMu_append_left (n : Nat) (t g : ℚ) (h r : List ℚ) (i : Nat) (hi : i ≤ h.length) :
    Spec.kkMu n t g (h ++ r) i = Spec.kkMu n t g h i := by
  unfold Spec.kkMu
  rw [List.take_append_of_le_length hi]

theorem kkFacZ_append_left (n : Nat) (t g : ℚ) (h r : List ℚ) (i : Nat) (hi : i < h.length) :
    kkFacZ n t g (h ++ r) i = kkFacZ n t g h i := by
  unfold kkFacZ
  rw [kkMu_append_left n t g h r i (le_of_lt hi), obs_append_left h r i hi]

theorem kkVal_nil (n : Nat) (t g : ℚ) : kkVal n t g [] = 1 := rfl

/-- one more draw multiplies the value by the factor at the current null mean -/
theorem kkVal_snoc (n : Nat) (t g : ℚ) (h : List ℚ) (a : ℚ) :
    kkVal n t g (h ++ [a]) = kkVal n t g h *
      (if 0 < Spec.kkMu n t g h h.length then (a + g) / Spec.kkMu n t g h h.length else 0) := by
  unfold kkVal
  rw [List.length_append, List.length_singleton, prodTo]
  congr 1
  · exact prodTo_congr (fun i hi => kkFacZ_append_left n t g h [a] i hi)
  · unfold kkFacZ
    rw [kkMu_append_left n t g h [a] h.length (le_refl _), obs_append_length]

theorem kkFacZ_nonneg (n : Nat) (t g : ℚ) (x : List ℚ) (hx : ∀ a ∈ x, 0 ≤ a) (hg : 0 ≤ g) (i : Nat) :
    0 ≤ kkFacZ n t g x i := by
  unfold kkFacZ
  split
  · rename_i h
    exact div_nonneg (add_nonneg (obs_nonneg hx i) hg) h.le
  · exact le_refl _

theorem kkVal_nonneg (n : Nat) (t g : ℚ) (x : List ℚ) (hx : ∀ a ∈ x, 0 ≤ a) (hg : 0 ≤ g) :
    0 ≤ kkVal n t g x := prodTo_nonneg (fun i _ => kkFacZ_nonneg n t g x hx hg i)

/-- under the null (`Σ x ≤ N t`) the numerator of every null mean of a drawn item is at least the
shifted item itself: `x_i + g ≤ (N − i) mu_{i+1}` -/
theorem kk_null_compat (n : Nat) (t g : ℚ) (x : List ℚ) (hx : ∀ a ∈ x, 0 ≤ a) (hg : 0 ≤ g)
    (hlen : x.length ≤ n) (hsum : x.sum ≤ (n : ℚ) * t) (i : Nat) (hi : i < x.length) :
    0 ≤ Spec.kkMu n t g x i ∧ (Spec.kkMu n t g x i = 0 → Spec.obs x i + g = 0) := by
  have hin : (i : ℚ) + 1 ≤ (n : ℚ) := by exact_mod_cast (by omega : i + 1 ≤ n)
  have hden : (0 : ℚ) < (n : ℚ) - (i : ℚ) := by linarith
  have hobs := psum_add_obs_le hx i hi
  have h0 := obs_nonneg hx i
  have hnum : Spec.obs x i + g ≤ (n : ℚ) * t - psum x i + ((n : ℚ) - (i : ℚ)) * g := by
    nlinarith
  rw [kkMu_num n t g x i (le_of_lt hi)]
  constructor
  · apply div_nonneg _ hden.le
    linarith
  · intro hz
    rw [div_eq_zero_iff] at hz
    rcases hz with hz | hz
    · linarith
    · linarith

/-- the running product of the model is `nan` or the value process -/
theorem kk_cumprod (cfg : Cfg) (n : Nat) (x : List ℚ) (hx : ∀ a ∈ x, 0 ≤ a) (hg : 0 ≤ cfg.kw.g.getD 0)
    (hlen : x.length ≤ n) (hsum : x.sum ≤ (n : ℚ) * cfg.t) (j : Nat) (hj : j < x.length) :
    ∃ T, (XR.cumprod (kkFactors cfg n x))[j]? = some T ∧
      (T = .nan ∨ T = .fin (prodTo (kkFacZ n cfg.t (cfg.kw.g.getD 0) x) (j + 1))) := by
  refine cumprodFrom_getElem?_indexed (kkFactors cfg n x)
    (fun k T => T = .nan ∨ T = .fin (prodTo (kkFacZ n cfg.t (cfg.kw.g.getD 0) x) k)) 1
    (Or.inr rfl) ?_ j (by rw [kkFactors_length]; exact hj)
  intro i T f hf hC
  have hi : i < x.length := by
    have := (List.getElem?_eq_some_iff.1 hf).1
    rwa [kkFactors_length] at this
  rcases hC with rfl | rfl
  · left; exact XR.nan_mul f
  · obtain ⟨a, ha⟩ := getElem?_some_of_lt hi
    rw [kkFactors_getElem? cfg n x i a ha, kkMu_eq] at hf
    injection hf with hf
    obtain ⟨hm0, hmz⟩ := kk_null_compat n cfg.t (cfg.kw.g.getD 0) x hx hg hlen hsum i hi
    rw [obs_eq ha] at hmz
    by_cases hpos : 0 < Spec.kkMu n cfg.t (cfg.kw.g.getD 0) x i
    · right
      rw [← hf, XR.fin_div _ _ (ne_of_gt hpos), XR.fin_mul, prodTo]
      congr 2
      unfold kkFacZ
      rw [if_pos hpos, obs_eq ha]
    · left
      have hz : Spec.kkMu n cfg.t (cfg.kw.g.getD 0) x i = 0 := le_antisymm (not_lt.mp hpos) hm0
      rw [← hf, hz, hmz hz]
      show XR.mul _ (XR.div (.fin 0) (.fin 0)) = .nan
      simp [XR.div, XR.mul]

/-- **link between the literal model and the value process** (no probability here): on a non-empty
sample of non-negative values with total at most `N t`, if the last p-value reported by
`kaplan_kolmogorov` is `≤ alpha < 1` then the value process is at least `1/alpha` -/
theorem kk_reported_implies_value (cfg : Cfg) (n : Nat) (hN : cfg.N = some n)
    (hg : 0 ≤ cfg.kw.g.getD 0) (x : List ℚ) (hx : ∀ a ∈ x, 0 ≤ a) (hlen : x.length ≤ n)
    (hsum : x.sum ≤ (n : ℚ) * cfg.t) (alpha : ℚ) (ha0 : 0 < alpha) (ha1 : alpha < 1)
    (hev : reportedLastKK cfg alpha x = true) :
    1 / alpha ≤ kkVal n cfg.t (cfg.kw.g.getD 0) x := by
  cases x using List.reverseRecOn with
  | nil =>
    exfalso
    unfold reportedLastKK kaplanKolmogorov lastLe sjm at hev
    rw [hN] at hev
    by_cases h0 : n = 0 <;> simp [h0, bind, Except.bind, throw, throwThe, MonadExceptOf.throw] at hev
  | append_singleton l a _ =>
    have hne : l ++ [a] ≠ [] := by simp
    have hj : l.length < (l ++ [a]).length := by simp
    obtain ⟨T, hT, hC⟩ := kk_cumprod cfg n (l ++ [a]) hx hg hlen hsum l.length hj
    have hm0 := (kk_null_compat n cfg.t (cfg.kw.g.getD 0) (l ++ [a]) hx hg hlen hsum l.length hj).1
    have hM := kkMasked_getElem? cfg n (l ++ [a]) l.length T hj hT
    rw [kkMu_eq, if_neg (not_lt.mpr hm0)] at hM
    unfold reportedLastKK at hev
    rw [kk_eq cfg n (l ++ [a]) hN hne hx hlen] at hev
    have hle := lastLe_ok_map alpha _ _ _ l.length _ (by rw [kkMasked_length]; simp) hM hev
    rcases hC with rfl | rfl
    · exfalso
      simp only [XR.isNan_nan, ↓reduceIte] at hle
      have h11 : XR.npmin ((1 : XR) / (1 : XR)) (1 : XR) = fin (pOfQ 1) := (min_inv_fin 1).2.1
      rw [h11] at hle
      have h1 : pOfQ 1 = 1 := by norm_num [pOfQ]
      rw [h1] at hle
      exact not_one_le_alpha ha1 hle
    · simp only [XR.isNan_fin, Bool.false_eq_true, ↓reduceIte] at hle
      rw [(min_inv_fin _).2.1] at hle
      simp only [XR.le_fin, decide_eq_true_eq] at hle
      have hlen' : (l ++ [a]).length = l.length + 1 := by simp
      unfold kkVal
      rw [hlen']
      exact pOfQ_le_alpha
        (prodTo_nonneg (fun i _ => kkFacZ_nonneg n cfg.t (cfg.kw.g.getD 0) (l ++ [a]) hx hg i)) ha0 ha1 hle

/-- supermartingale step: the average of the next factor over the items not yet drawn is at most 1 -/
theorem kk_superstep (n : Nat) (t g : ℚ) (R h : List ℚ) (hI : InvNN n t R h) (hR : R ≠ []) (hg : 0 ≤ g) :
    avgIdx R.length (fun i => kkVal n t g (h ++ [R.getD i 0])) ≤ kkVal n t g h := by
  obtain ⟨h1, h2, h3, h4⟩ := hI
  have hRpos : 0 < R.length := List.length_pos_iff.mpr hR
  have hV := kkVal_nonneg n t g h h3 hg
  simp only [kkVal_snoc]
  rw [avgIdx_mul_left]
  by_cases hpos : 0 < Spec.kkMu n t g h h.length
  · simp only [if_pos hpos]
    have hne : Spec.kkMu n t g h h.length ≠ 0 := ne_of_gt hpos
    have hfun : (fun i => (R.getD i 0 + g) / Spec.kkMu n t g h h.length) =
        (fun i => 1 + (1 / Spec.kkMu n t g h h.length) * (R.getD i 0 - (Spec.kkMu n t g h h.length - g))) := by
      funext i; field_simp; ring
    have hRl : (R.length : ℚ) = (n : ℚ) - (h.length : ℚ) := by
      have : (n : ℚ) = (h.length : ℚ) + (R.length : ℚ) := by exact_mod_cast h1.symm
      linarith
    have hRq : (0 : ℚ) < (R.length : ℚ) := by exact_mod_cast hRpos
    have hnull : R.sum ≤ (Spec.kkMu n t g h h.length - g) * (R.length : ℚ) := by
      rw [kkMu_num n t g h h.length (le_refl _), psum_length, ← hRl]
      have : ((n : ℚ) * t - h.sum + (R.length : ℚ) * g) / (R.length : ℚ) * (R.length : ℚ)
          = (n : ℚ) * t - h.sum + (R.length : ℚ) * g := by field_simp
      nlinarith
    rw [hfun]
    have := superstep R hR (1 / Spec.kkMu n t g h h.length) _ (by positivity) hnull
    calc kkVal n t g h * avgIdx R.length _ ≤ kkVal n t g h * 1 := mul_le_mul_of_nonneg_left this hV
      _ = kkVal n t g h := mul_one _
  · simp only [if_neg hpos]
    rw [avgIdx_const _ hRpos]
    linarith

/-- **C01, Kaplan-Kolmogorov, sampling without replacement.**  For every population `pop` of `n`
non-negative values with total at most `n t` (mean at most `t`; no upper bound is needed), every
`g ≥ 0` and every `alpha` in `(0,1)`, the exact probability — over the `n!` equally likely orders in
which the items are drawn without replacement — that the p-value reported by `kaplan_kolmogorov`
after some number of draws is at most `alpha` is at most `alpha`. -/
theorem C01_finite_kk (cfg : Cfg) (n : Nat) (hN : cfg.N = some n) (hg : 0 ≤ cfg.kw.g.getD 0)
    (alpha : ℚ) (ha0 : 0 < alpha) (ha1 : alpha < 1)
    (pop : List ℚ) (hlen : pop.length = n) (hrange : ∀ a ∈ pop, 0 ≤ a)
    (hnull : pop.sum ≤ (n : ℚ) * cfg.t) :
    hitEv (reportedLastKK cfg alpha) pop.length pop [] ≤ alpha := by
  have key := hitEv_le (reportedLastKK cfg alpha) (kkVal n cfg.t (cfg.kw.g.getD 0)) (1 / alpha)
    (by positivity) (InvNN n cfg.t)
    (fun R h hI hev => kk_reported_implies_value cfg n hN hg h hI.2.2.1 (by have := hI.1; omega)
      (invNN_sum_le n cfg.t R h hI) alpha ha0 ha1 hev)
    (fun R h hI => kkVal_nonneg n cfg.t _ h hI.2.2.1 hg)
    (invNN_step n cfg.t)
    (fun R h hI hR => kk_superstep n cfg.t _ R h hI hR hg)
    pop.length pop [] ⟨by simp [hlen], hrange, by simp, by simpa using hnull⟩ (le_refl _)
  rw [kkVal_nil] at key
  simpa using key

-- non-vacuity: N = 4, t = 1/2, g = 1/10, the null population 1, 0, 1/2, 0 (mean 3/8), alpha = 1/20
example : hitEv (reportedLastKK { N := some 4, u := 1, t := 1/2, randomOrder := true, kw := { g := some (1/10) } }
    (1/20)) 4 [1, 0, 1/2, 0] [] ≤ 1/20 :=
  C01_finite_kk _ 4 rfl (by simp) (1/20) (by norm_num) (by norm_num) [1, 0, 1/2, 0] rfl
    (by intro a ha; simp at ha; rcases ha with rfl | rfl | rfl | rfl <;> norm_num) (by norm_num)

/-! ## the generalised Wald SPRT -/

/-- the event: the p-value `wald_sprt` reports after the draws `h` is `≤ alpha` -/
def reportedLastSprt (cfg : Cfg) (alpha : ℚ) (h : List ℚ) : Bool := lastLe alpha (waldSprt cfg h)

/-- the alternative mean `wald_sprt` applies to the next draw, as a function of the draws so far:
`min(u, (N eta − Σ h)/(N − |h|))`, or `eta` for independent draws (the factor then clips it to
`[mu, u]`) -/
def sprtG (cfg : Cfg) (h : List ℚ) : ℚ := Spec.sprtEta cfg.N cfg.u (C11.sprtEta cfg) h h.length

theorem sprtEta_take (N : Option Nat) (u eta : ℚ) (x : List ℚ) (i : Nat) (hi : i ≤ x.length) :
    Spec.sprtEta N u eta (x.take i) (x.take i).length = Spec.sprtEta N u eta x i := by
  have hl : (x.take i).length = i := by rw [List.length_take]; omega
  unfold Spec.sprtEta Spec.S
  rw [List.take_length, hl]

theorem sprtEta_le_u (N : Option Nat) (u eta : ℚ) (x : List ℚ) (i : Nat) (h : eta ≤ u) :
    Spec.sprtEta N u eta x i ≤ u := by
  unfold Spec.sprtEta
  cases N with
  | none => exact h
  | some n => exact min_le_left _ _

/-- wherever the null means do not exceed `u`, the ALPHA product with the SPRT's alternative is the
published SPRT product -/
theorem sprt_Tq_eq (cfg : Cfg) (x : List ℚ) (heu : C11.sprtEta cfg ≤ cfg.u)
    (hreg : ∀ i < x.length, Spec.sprtMu cfg.N cfg.t x i ≤ cfg.u) :
    Tq (alphaQ cfg.u) cfg.N cfg.t (sprtG cfg) x =
      Spec.sprtT cfg.N cfg.u cfg.t (C11.sprtEta cfg) x x.length := by
  rw [Tq_eq_prodTo, sprtT_eq]
  apply prodTo_congr
  intro i hi
  have hm : mu cfg.N cfg.t (psum x i) (i + 1) = Spec.sprtMu cfg.N cfg.t x i := sprtMu_eq cfg x i
  simp only [hm]
  unfold sprtG
  rw [sprtEta_take _ _ _ x i (le_of_lt hi)]
  unfold alphaQ alphaFactorQ sprtPhi
  rw [min_eq_right (max_le (sprtEta_le_u _ _ _ x i heu) (hreg i hi))]

theorem sprtMu_last (cfg : Cfg) (l : List ℚ) (a : ℚ) :
    C11.sprtMu cfg (l ++ [a]) l.length = muAfter cfg.N cfg.t l := by
  unfold C11.sprtMu muAfter
  rw [psum_append_left l [a] l.length (le_refl _), psum_length]

/-- **link between the literal model and the defining product** (no probability here): on a sample
satisfying the guard of `wald_sprt` whose last null mean is non-negative, if the last reported p-value
is `≤ alpha < 1` then that null mean is strictly inside `(0,u)` and the ALPHA product with the SPRT's
alternative is at least `1/alpha` -/
theorem sprt_reported_implies_value (cfg : Cfg) (x : List ℚ) (G : SprtGuard cfg x)
    (hm : 0 ≤ C11.sprtMu cfg x (x.length - 1))
    (alpha : ℚ) (ha0 : 0 < alpha) (ha1 : alpha < 1) (hev : reportedLastSprt cfg alpha x = true) :
    0 < C11.sprtMu cfg x (x.length - 1) ∧ C11.sprtMu cfg x (x.length - 1) < cfg.u ∧
      1 / alpha ≤ Tq (alphaQ cfg.u) cfg.N cfg.t (sprtG cfg) x := by
  have hpos : 0 < x.length := List.length_pos_iff.mpr G.ne
  have hj : x.length - 1 < x.length := by omega
  have hlen : x.length = (x.length - 1) + 1 := by omega
  have hupos : 0 < cfg.u := lt_trans G.t_pos G.t_lt_u
  obtain ⟨T, hT⟩ := getElem?_some_of_lt (l := XR.cumprod (sprtFactors cfg x)) (i := x.length - 1)
    (by rw [cumprod_length, sprtFactors_length]; exact hj)
  have hM := sprtMasked_getElem? cfg x G.fits (x.length - 1) T hj hT
  unfold reportedLastSprt at hev
  rw [sprt_eq cfg x G.ne G.range G.ro] at hev
  have hle := lastLe_ok_map alpha _ (sprtMasked cfg x) (fun T => XR.npmin (1 : XR) ((1 : XR) / T))
    (x.length - 1) _ (by rw [sprtMasked_length]; exact hlen) hM hev
  -- the regular zone before the last index
  have hregC := fun (h0 : 0 < C11.sprtMu cfg x (x.length - 1)) (hu : C11.sprtMu cfg x (x.length - 1) < cfg.u)
    (i : Nat) (hi : i ≤ x.length - 1) => sprt_regular_before cfg x G (x.length - 1) hj h0 hu i hi
  have hres := mask_le_alpha cfg.u (2 * eps) (1 / 1000000) (C11.sprtMu cfg x (x.length - 1))
    (Spec.sprtT cfg.N cfg.u cfg.t (C11.sprtEta cfg) x ((x.length - 1) + 1)) alpha T hm hupos.le
    (by have := C11.eps_pos; linarith) (by unfold eps; norm_num) (by norm_num) ha0 ha1
    (by
      intro h0 hu
      have hreg : ∀ i ≤ x.length - 1, 0 < Spec.sprtMu cfg.N cfg.t x i ∧ Spec.sprtMu cfg.N cfg.t x i < cfg.u := by
        intro i hi
        have := hregC h0 hu i hi
        rw [sprtMu_eq] at this
        exact ⟨this.1, this.2.1⟩
      have := sprtTerms_regular cfg x G.fits (x.length - 1) hj hreg
      rw [hT] at this
      exact Option.some.inj this)
    (by
      intro h0 hu
      rw [sprtT_eq]
      apply prodTo_nonneg
      intro i hi
      obtain ⟨hm0, hmu, he0, heu⟩ := hregC h0 hu i (by omega)
      rw [sprtMu_eq] at hm0 hmu
      rw [sprtEt_eq] at he0 heu
      have hax := G.range _ (obs_mem (x := x) (i := i) (by omega))
      exact sprtPhi_nonneg hax.1 hax.2 he0 heu hm0 hmu)
    hle
  obtain ⟨h0, hu, hge⟩ := hres
  refine ⟨h0, hu, ?_⟩
  rw [sprt_Tq_eq cfg x G.eta_le_u, hlen]
  · exact hge
  · intro i hi
    have := (hregC h0 hu i (by omega)).2.1
    rw [sprtMu_eq] at this
    exact this.le

theorem reportedLastSprt_nil (cfg : Cfg) (hro : cfg.N ≠ none → cfg.randomOrder = true) (alpha : ℚ) :
    reportedLastSprt cfg alpha [] = false := by
  unfold reportedLastSprt
  rw [sprt_err_empty cfg hro]
  rfl

/-- **C01, generalised Wald SPRT, sampling without replacement.**  For every population `pop` of `n`
values in `[0,u]` with total at most `n t`, every alternative `eta` with `t ≤ eta ≤ u` (`0 < t < u`;
`random_order = True`, otherwise `wald_sprt` refuses a finite population) and every `alpha` in `(0,1)`,
the exact probability — over the `n!` equally likely orders in which the items are drawn without
replacement — that the p-value reported by `wald_sprt` after some number of draws is at most `alpha`
is at most `alpha`. -/
theorem C01_finite_sprt (cfg : Cfg) (n : Nat) (hN : cfg.N = some n) (hro : cfg.randomOrder = true)
    (ht0 : 0 < cfg.t) (htu : cfg.t < cfg.u) (hte : cfg.t ≤ C11.sprtEta cfg) (heu : C11.sprtEta cfg ≤ cfg.u)
    (alpha : ℚ) (ha0 : 0 < alpha) (ha1 : alpha < 1)
    (pop : List ℚ) (hlen : pop.length = n) (hrange : ∀ a ∈ pop, 0 ≤ a ∧ a ≤ cfg.u)
    (hnull : pop.sum ≤ (n : ℚ) * cfg.t) :
    hitEv (reportedLastSprt cfg alpha) pop.length pop [] ≤ alpha := by
  have h := process_ville (alphaQ cfg.u) cfg.u n cfg.t (sprtG cfg)
    (fun h' a' _ _ hm0' hmu' ha0' hau' => alphaQ_nonneg cfg.u _ _ _ hm0' hmu' ha0' hau')
    (fun h' R' _ _ hm0' hmu' hR' hr' hs' => alphaQ_super cfg.u _ _ R' hm0' hmu' hR' hr' hs')
    (reportedLastSprt cfg alpha) (1 / alpha) (by positivity) ?_
    pop ⟨by simp [hlen], hrange, by simp, by simpa using hnull⟩
  · simpa using h
  · intro R h hI hev
    cases h using List.reverseRecOn with
    | nil => rw [reportedLastSprt_nil cfg (fun _ => hro)] at hev; cases hev
    | append_singleton l a _ =>
      have hlen1 : l.length + 1 ≤ n := by
        have := hI.1
        simp only [List.length_append, List.length_cons, List.length_nil] at this; omega
      have G : SprtGuard cfg (l ++ [a]) :=
        { ne := by simp
          range := hI.2.2.1
          fits := by intro k hk; rw [hN] at hk; cases hk; simpa using hlen1
          t_pos := ht0, t_lt_u := htu, t_le_eta := hte, eta_le_u := heu
          ro := fun _ => hro }
      have hlast : (l ++ [a]).length - 1 = l.length := by simp
      have hmu : C11.sprtMu cfg (l ++ [a]) ((l ++ [a]).length - 1) = muAfter (some n) cfg.t l := by
        rw [hlast, sprtMu_last, hN]
      obtain ⟨hm0, hmu', hge⟩ := sprt_reported_implies_value cfg (l ++ [a]) G
        (by rw [hmu]; exact muAfter_nonneg cfg.u n cfg.t R l a hI) alpha ha0 ha1 hev
      rw [hmu] at hm0 hmu'
      have hz : StateZ cfg.u n cfg.t l := (stateZ_iff cfg.u n cfg.t l hlen1).2 ⟨hm0, hmu'⟩
      rw [hN] at hge
      unfold valI
      rw [if_neg (by simp), List.dropLast_concat, if_pos hz]
      exact hge

-- non-vacuity: N = 4, u = 1, t = 1/2, eta = 3/4, the null population 1, 0, 1/2, 0, alpha = 1/20
example : hitEv (reportedLastSprt { N := some 4, u := 1, t := 1/2, randomOrder := true, kw := { eta := some (3/4) } }
    (1/20)) 4 [1, 0, 1/2, 0] [] ≤ 1/20 :=
  C01_finite_sprt _ 4 rfl rfl (by norm_num) (by norm_num) (by simp [C11.sprtEta]; norm_num)
    (by simp [C11.sprtEta]; norm_num) (1/20) (by norm_num) (by norm_num) [1, 0, 1/2, 0] rfl
    (by intro a ha; simp at ha; rcases ha with rfl | rfl | rfl | rfl <;> norm_num) (by norm_num)

/-- **C01, generalised Wald SPRT, independent draws.**  For every finitely supported law `L` on
`[0,u]` with mean at most `t`, every alternative `eta` with `t ≤ eta ≤ u` (`0 < t < u`), every horizon
`n` and every `alpha` in `(0,1)`, the exact probability that the p-value reported by `wald_sprt`
(`N = np.inf`) after some number `≤ n` of independent draws from `L` is at most `alpha` is at most `alpha`. -/
theorem C01_iid_sprt (cfg : Cfg) (hN : cfg.N = none)
    (ht0 : 0 < cfg.t) (htu : cfg.t < cfg.u) (hte : cfg.t ≤ C11.sprtEta cfg) (heu : C11.sprtEta cfg ≤ cfg.u)
    (alpha : ℚ) (ha0 : 0 < alpha) (ha1 : alpha < 1)
    (L : List (ℚ × ℚ)) (hL : IsLaw cfg.u L) (hmean : lawMean L ≤ cfg.t) (n : Nat) :
    hitIID L (reportedLastSprt cfg alpha) n [] ≤ alpha := by
  have h := process_ville_iid (alphaQ cfg.u) cfg.u cfg.t (sprtG cfg) L hL
    (fun h' a' _ ha0' hau' => alphaQ_nonneg cfg.u _ _ _ ht0 htu ha0' hau')
    (fun h' _ => alphaQ_super_iid cfg.u cfg.t (sprtG cfg h') ht0 htu L hL hmean)
    (reportedLastSprt cfg alpha) (1 / alpha) (by positivity) ?_ n
  · simpa using h
  · intro h hr hev
    have hro : cfg.N ≠ none → cfg.randomOrder = true := fun hne => absurd hN hne
    cases h using List.reverseRecOn with
    | nil => rw [reportedLastSprt_nil cfg hro] at hev; cases hev
    | append_singleton l a _ =>
      have G : SprtGuard cfg (l ++ [a]) :=
        { ne := by simp
          range := hr
          fits := by intro k hk; rw [hN] at hk; cases hk
          t_pos := ht0, t_lt_u := htu, t_le_eta := hte, eta_le_u := heu
          ro := hro }
      have hmu : C11.sprtMu cfg (l ++ [a]) ((l ++ [a]).length - 1) = cfg.t := by
        unfold C11.sprtMu; rw [hN]; rfl
      obtain ⟨_, _, hge⟩ := sprt_reported_implies_value cfg (l ++ [a]) G
        (by rw [hmu]; exact ht0.le) alpha ha0 ha1 hev
      rw [hN] at hge
      exact hge

-- non-vacuity: u = 1, t = 1/2, eta = 3/4, the law {0: 1/2, 1/2: 1/4, 1: 1/4} (mean 3/8), 5 draws
example : hitIID [(0, 1/2), (1/2, 1/4), (1, 1/4)]
    (reportedLastSprt { N := none, u := 1, t := 1/2, randomOrder := true, kw := { eta := some (3/4) } } (1/20))
    5 [] ≤ 1/20 :=
  C01_iid_sprt _ rfl (by norm_num) (by norm_num) (by simp [C11.sprtEta]; norm_num)
    (by simp [C11.sprtEta]; norm_num) (1/20) (by norm_num) (by norm_num) _
    ⟨by intro p hp; simp at hp; rcases hp with rfl | rfl | rfl <;> norm_num,
     by norm_num,
     by intro p hp; simp at hp; rcases hp with rfl | rfl | rfl <;> norm_num⟩
    (by norm_num [lawMean, expL]) 5

/-! ## Kaplan-Wald, independent draws -/

/-- the event: the p-value `kaplan_wald` reports after the draws `h` is `≤ alpha` -/
def reportedLastKW (cfg : Cfg) (alpha : ℚ) (h : List ℚ) : Bool := lastLe alpha (kaplanWald cfg h)

/-- the Kaplan-Wald factor `(1−g) x/t + g` is the betting factor with the constant bet `(1−g)/t` -/
theorem kw_factor_eq_bet (t g a : ℚ) (ht : t ≠ 0) : betQ t a ((1 - g) / t) = (1 - g) * a / t + g := by
  unfold betQ
  field_simp
  ring

/-- **link between the literal model and the defining product** (no probability here) -/
theorem kw_reported_implies_value (cfg : Cfg) (ht : 0 < cfg.t) (hg0 : 0 ≤ cfg.kw.g.getD 0)
    (hg1 : cfg.kw.g.getD 0 ≤ 1) (x : List ℚ) (hx : ∀ a ∈ x, 0 ≤ a)
    (alpha : ℚ) (ha0 : 0 < alpha) (ha1 : alpha < 1) (hev : reportedLastKW cfg alpha x = true) :
    1 / alpha ≤ Tq betQ none cfg.t (fun _ => (1 - cfg.kw.g.getD 0) / cfg.t) x := by
  by_cases hne : x = []
  · subst hne
    unfold reportedLastKW at hev
    rw [kw_err_empty cfg hg0 hg1] at hev
    cases hev
  · have hpos : 0 < x.length := List.length_pos_iff.mpr hne
    have hj : x.length - 1 < x.length := by omega
    obtain ⟨p, hist, he, hh⟩ := kw_def cfg x hx hg0 hg1 (ne_of_gt ht) (x.length - 1) hj
    obtain ⟨p', hist', he', hl', _⟩ := wellformed_kw cfg x hne hx ht hg0 hg1
    rw [he] at he'
    injection he' with he'
    injection he' with _ hhist
    subst hhist
    unfold reportedLastKW lastLe at hev
    rw [he] at hev
    simp only [List.getLast?_eq_getElem?, hl', hh, XR.le_fin, decide_eq_true_eq] at hev
    have hlen : x.length - 1 + 1 = x.length := by omega
    rw [hlen, kwT_eq] at hev
    rw [Tq_eq_prodTo]
    have hcongr : prodTo (fun i => betQ (mu none cfg.t (psum x i) (i + 1)) (Spec.obs x i)
          ((1 - cfg.kw.g.getD 0) / cfg.t)) x.length =
        prodTo (fun i => (1 - cfg.kw.g.getD 0) * Spec.obs x i / cfg.t + cfg.kw.g.getD 0) x.length :=
      prodTo_congr (fun i _ => kw_factor_eq_bet cfg.t _ _ (ne_of_gt ht))
    rw [hcongr]
    refine pOfQ_le_alpha (prodTo_nonneg ?_) ha0 ha1 hev
    intro i _
    have h1 : 0 ≤ (1 - cfg.kw.g.getD 0) * Spec.obs x i := mul_nonneg (by linarith) (obs_nonneg hx i)
    have h2 : 0 ≤ (1 - cfg.kw.g.getD 0) * Spec.obs x i / cfg.t := div_nonneg h1 ht.le
    linarith

/-- **C01, Kaplan-Wald, independent draws.**  For every finitely supported law `L` on `[0,u]` (any
`u`) with mean at most `t`, `t > 0`, `0 ≤ g ≤ 1`, every horizon `n` and every `alpha` in `(0,1)`, the exact
probability that the p-value reported by `kaplan_wald` after some number `≤ n` of independent draws
from `L` is at most `alpha` is at most `alpha`. -/
theorem C01_iid_kw (cfg : Cfg) (ht : 0 < cfg.t) (hg0 : 0 ≤ cfg.kw.g.getD 0) (hg1 : cfg.kw.g.getD 0 ≤ 1)
    (alpha : ℚ) (ha0 : 0 < alpha) (ha1 : alpha < 1)
    {u : ℚ} (L : List (ℚ × ℚ)) (hL : IsLaw u L) (hmean : lawMean L ≤ cfg.t) (n : Nat) :
    hitIID L (reportedLastKW cfg alpha) n [] ≤ alpha := by
  have hl0 : 0 ≤ (1 - cfg.kw.g.getD 0) / cfg.t := div_nonneg (by linarith) ht.le
  have hl1 : (1 - cfg.kw.g.getD 0) / cfg.t * cfg.t ≤ 1 := by
    rw [div_mul_cancel₀ _ (ne_of_gt ht)]; linarith
  have h := process_ville_iid betQ u cfg.t (fun _ => (1 - cfg.kw.g.getD 0) / cfg.t) L hL
    (fun _ a' _ ha0' _ => betQ_nonneg _ _ _ ht ha0' hl0 hl1)
    (fun _ _ => betQ_super_iid cfg.t _ hl0 L hL hmean)
    (reportedLastKW cfg alpha) (1 / alpha) (by positivity)
    (fun h hr hev => kw_reported_implies_value cfg ht hg0 hg1 h (fun a ha => (hr a ha).1) alpha ha0 ha1 hev) n
  simpa using h

-- non-vacuity: t = 1/2, g = 1/10, the law {0: 1/2, 1/2: 1/4, 1: 1/4} (mean 3/8), 5 draws
example : hitIID [(0, 1/2), (1/2, 1/4), (1, 1/4)]
    (reportedLastKW { N := none, u := 1, t := 1/2, randomOrder := true, kw := { g := some (1/10) } } (1/20))
    5 [] ≤ 1/20 :=
  C01_iid_kw _ (by norm_num) (by simp) (by simp; norm_num) (1/20) (by norm_num) (by norm_num) (u := 1) _
    ⟨by intro p hp; simp at hp; rcases hp with rfl | rfl | rfl <;> norm_num,
     by norm_num,
     by intro p hp; simp at hp; rcases hp with rfl | rfl | rfl <;> norm_num⟩
    (by norm_num [lawMean, expL]) 5

/-! ## Kaplan-Markov, independent draws -/

/-- the event: the p-value `kaplan_markov` reports after the draws `h` is `≤ alpha` -/
def reportedLastKM (cfg : Cfg) (alpha : ℚ) (h : List ℚ) : Bool := lastLe alpha (kaplanMarkov cfg h)

/-- the reciprocal of the Kaplan-Markov factor: `(x + g)/(t + g)`, the betting factor on the shifted
data `x + g` under the shifted hypothesis `t + g` with the bet `1/(t + g)` -/
def kmQ (tg g : ℚ) (_m a _c : ℚ) : ℚ := (a + g) / tg

theorem pinf_mul_pos {a : XR} (ha : Pos a) : (XR.pinf * a : XR) = XR.pinf := by
  cases a with
  | fin q =>
    show XR.mul .pinf (.fin q) = .pinf
    have hq : (0 : ℚ) < q := ha
    simp [XR.mul, XR.infTimes, ne_of_gt hq, hq]
  | pinf => rfl
  | ninf => exact absurd ha id
  | nan => exact absurd ha id

theorem fin_pos_mul_pinf {P : ℚ} (hP : 0 < P) : (XR.fin P * XR.pinf : XR) = XR.pinf := by
  show XR.mul (.fin P) .pinf = .pinf
  simp [XR.mul, XR.infTimes, ne_of_gt hP, hP]

/-- the running product of the model is `+inf` (some `x_i + g = 0`) or the reciprocal of the value -/
theorem km_cumprod (cfg : Cfg) (x : List ℚ) (hx : ∀ a ∈ x, 0 ≤ a) (hg : 0 ≤ cfg.kw.g.getD 0)
    (htg : 0 < cfg.t + cfg.kw.g.getD 0) (j : Nat) (hj : j < x.length) :
    ∃ T, (kmTerms cfg x)[j]? = some T ∧
      (T = .pinf ∨ ∃ P : ℚ, 0 < P ∧ T = .fin P ∧
        P * prodTo (fun i => (Spec.obs x i + cfg.kw.g.getD 0) / (cfg.t + cfg.kw.g.getD 0)) (j + 1) = 1) := by
  refine cumprodFrom_getElem?_indexed _
    (fun k T => T = .pinf ∨ ∃ P : ℚ, 0 < P ∧ T = .fin P ∧
      P * prodTo (fun i => (Spec.obs x i + cfg.kw.g.getD 0) / (cfg.t + cfg.kw.g.getD 0)) k = 1) 1
    (Or.inr ⟨1, by norm_num, rfl, by simp [prodTo]⟩) ?_ j (by simpa using hj)
  intro i T f hf hC
  rw [List.getElem?_map] at hf
  cases ha : x[i]? with
  | none => rw [ha] at hf; cases hf
  | some a =>
    rw [ha] at hf
    injection hf with hf
    replace hf : (XR.fin (cfg.t + cfg.kw.g.getD 0) / XR.fin (a + cfg.kw.g.getD 0) : XR) = f := hf
    have hag : 0 ≤ a + cfg.kw.g.getD 0 := add_nonneg (hx a (List.mem_of_getElem? ha)) hg
    have hfpos : Pos f := by rw [← hf]; exact km_factor _ _ htg hag
    rcases hC with rfl | ⟨P, hP, rfl, hPV⟩
    · left; exact pinf_mul_pos hfpos
    · by_cases h0 : a + cfg.kw.g.getD 0 = 0
      · left
        rw [← hf, h0]
        have : (XR.fin (cfg.t + cfg.kw.g.getD 0) / XR.fin 0 : XR) = .pinf := by
          show XR.div (.fin _) (.fin 0) = .pinf
          simp [XR.div, ne_of_gt htg, htg]
        rw [this]
        exact fin_pos_mul_pinf hP
      · right
        have hapos : 0 < a + cfg.kw.g.getD 0 := lt_of_le_of_ne hag (Ne.symm h0)
        refine ⟨P * ((cfg.t + cfg.kw.g.getD 0) / (a + cfg.kw.g.getD 0)), by positivity, ?_, ?_⟩
        · rw [← hf, XR.fin_div _ _ h0, XR.fin_mul]
        · rw [prodTo, obs_eq ha]
          have htg' : cfg.t + cfg.kw.g.getD 0 ≠ 0 := ne_of_gt htg
          calc P * ((cfg.t + cfg.kw.g.getD 0) / (a + cfg.kw.g.getD 0)) *
                (prodTo (fun i => (Spec.obs x i + cfg.kw.g.getD 0) / (cfg.t + cfg.kw.g.getD 0)) i *
                  ((a + cfg.kw.g.getD 0) / (cfg.t + cfg.kw.g.getD 0)))
              = (P * prodTo (fun i => (Spec.obs x i + cfg.kw.g.getD 0) / (cfg.t + cfg.kw.g.getD 0)) i) *
                  (((cfg.t + cfg.kw.g.getD 0) / (a + cfg.kw.g.getD 0)) *
                    ((a + cfg.kw.g.getD 0) / (cfg.t + cfg.kw.g.getD 0))) := by ring
            _ = 1 := by rw [hPV]; field_simp

/-- **link between the literal model and the defining product** (no probability here) -/
theorem km_reported_implies_value (cfg : Cfg) (hg : 0 ≤ cfg.kw.g.getD 0)
    (htg : 0 < cfg.t + cfg.kw.g.getD 0) (x : List ℚ) (hx : ∀ a ∈ x, 0 ≤ a)
    (alpha : ℚ) (ha0 : 0 < alpha) (ha1 : alpha < 1) (hev : reportedLastKM cfg alpha x = true) :
    1 / alpha ≤ Tq (kmQ (cfg.t + cfg.kw.g.getD 0) (cfg.kw.g.getD 0)) none cfg.t (fun _ => 0) x := by
  by_cases hne : x = []
  · subst hne
    unfold reportedLastKM at hev
    rw [km_err_empty cfg] at hev
    cases hev
  · have hpos : 0 < x.length := List.length_pos_iff.mpr hne
    have hj : x.length - 1 < x.length := by omega
    have hlen : x.length = x.length - 1 + 1 := by omega
    obtain ⟨T, hT, hC⟩ := km_cumprod cfg x hx hg htg (x.length - 1) hj
    unfold reportedLastKM at hev
    rw [km_eq cfg x hne hx] at hev
    have hle := lastLe_ok_map alpha _ (kmTerms cfg x) (fun p => XR.npmin p (1 : XR)) (x.length - 1) T
      (by rw [kmTerms_length]; exact hlen) hT hev
    rw [Tq_eq_prodTo]
    show 1 / alpha ≤ prodTo (fun i => (Spec.obs x i + cfg.kw.g.getD 0) / (cfg.t + cfg.kw.g.getD 0)) x.length
    rcases hC with rfl | ⟨P, hP, rfl, hPV⟩
    · exfalso
      have : XR.npmin XR.pinf (1 : XR) = XR.fin 1 := by
        simp [XR.npmin, XR.isNan, XR.lt]
      rw [this] at hle
      exact not_one_le_alpha ha1 hle
    · simp only [XR.one_def, npmin_fin_fin, XR.le_fin, decide_eq_true_eq] at hle
      have hPa : P ≤ alpha := by
        rcases min_le_iff.1 hle with h | h
        · exact h
        · linarith
      rw [← hlen] at hPV
      have hV : prodTo (fun i => (Spec.obs x i + cfg.kw.g.getD 0) / (cfg.t + cfg.kw.g.getD 0)) x.length = 1 / P := by
        field_simp
        linarith
      rw [hV]
      exact one_div_le_one_div_of_le hP hPa

/-- **C01, Kaplan-Markov, independent draws.**  For every finitely supported law `L` on `[0,u]` (any
`u`) with mean at most `t`, `g ≥ 0`, `t + g > 0`, every horizon `n` and every `alpha` in `(0,1)`, the exact
probability that the p-value reported by `kaplan_markov` after some number `≤ n` of independent draws
from `L` is at most `alpha` is at most `alpha`. -/
theorem C01_iid_km (cfg : Cfg) (hg : 0 ≤ cfg.kw.g.getD 0) (htg : 0 < cfg.t + cfg.kw.g.getD 0)
    (alpha : ℚ) (ha0 : 0 < alpha) (ha1 : alpha < 1)
    {u : ℚ} (L : List (ℚ × ℚ)) (hL : IsLaw u L) (hmean : lawMean L ≤ cfg.t) (n : Nat) :
    hitIID L (reportedLastKM cfg alpha) n [] ≤ alpha := by
  have h := process_ville_iid (kmQ (cfg.t + cfg.kw.g.getD 0) (cfg.kw.g.getD 0)) u cfg.t (fun _ => 0) L hL
    (fun _ a' _ ha0' _ => div_nonneg (add_nonneg ha0' hg) htg.le)
    (fun _ _ => by
      have hfun : (fun v => kmQ (cfg.t + cfg.kw.g.getD 0) (cfg.kw.g.getD 0) cfg.t v 0) =
          (fun v => 1 + (1 / (cfg.t + cfg.kw.g.getD 0)) * (v - cfg.t)) := by
        funext v; unfold kmQ; field_simp; ring
      rw [hfun, expL_affine L hL.w_sum]
      have hl : 0 ≤ 1 / (cfg.t + cfg.kw.g.getD 0) := by positivity
      unfold lawMean at hmean
      nlinarith)
    (reportedLastKM cfg alpha) (1 / alpha) (by positivity)
    (fun h hr hev => km_reported_implies_value cfg hg htg h (fun a ha => (hr a ha).1) alpha ha0 ha1 hev) n
  simpa using h

-- non-vacuity: t = 1/2, g = 0 (zero observations make the product infinite), the law
-- {0: 1/2, 1/2: 1/4, 1: 1/4} (mean 3/8), 5 draws
example : hitIID [(0, 1/2), (1/2, 1/4), (1, 1/4)]
    (reportedLastKM { N := none, u := 1, t := 1/2, randomOrder := true, kw := {} } (1/20))
    5 [] ≤ 1/20 :=
  C01_iid_km _ (by simp) (by simp) (1/20) (by norm_num) (by norm_num) (u := 1) _
    ⟨by intro p hp; simp at hp; rcases hp with rfl | rfl | rfl <;> norm_num,
     by norm_num,
     by intro p hp; simp at hp; rcases hp with rfl | rfl | rfl <;> norm_num⟩
    (by norm_num [lawMean, expL]) 5

end Shangrla.C01
