/-
  C15 — RAIRE's assertion set is the least difficult sufficient set (agap = 0).

  For every difficulty function `asn` into a type with a lawful total preorder — monotonicity in the
  margin is not needed — the largest difficulty among the returned assertions is the minimum, over all
  sets of true NEB/NEN assertions (all ordered pairs, all eliminated sets) that exclude every alternative
  winner, of the largest difficulty in the set.  Theorems are about
  `Shangrla.Raire.computeRaireAssertions`, the literal model the driver executes; invariants O1-O3 of
  DESIGN.md Appendix F are the fields `lbOpt`, `nonexpOpt`, `sorted` of `Shangrla.Raire.FInv`.
-/
import Shangrla.Lemmas.RaireMain

namespace Shangrla.C15
open Shangrla.Raire Shangrla.Raire.Spec

set_option linter.unusedSectionVars false

variable {α : Type} [DecidableEq α] {D : Type} [DiffOrd D] [DiffOrd.Lawful D]

/-- a competing set: true assertions of the family that exclude every alternative winner -/
def Competing (asn : Nat → Nat → Nat → Nat → D) (C : Contest α) (cvrs : List (Option (Ballot α)))
    (winner : α) (S : List (Assertion α D)) : Prop :=
  (∀ a ∈ S, Fam asn C cvrs a) ∧ Sufficient C.candidates winner S

/-- `d` is the largest difficulty in `S` -/
def IsMaxDiff (S : List (Assertion α D)) (d : D) : Prop :=
  (∃ a ∈ S, a.difficulty = d) ∧ ∀ a ∈ S, DiffOrd.le a.difficulty d = true

/-- a non-empty list has a largest difficulty -/
theorem exists_isMaxDiff (S : List (Assertion α D)) (hne : S ≠ []) : ∃ d, IsMaxDiff S d := by
  induction S with
  | nil => exact absurd rfl hne
  | cons x xs ih =>
    cases xs with
    | nil => exact ⟨x.difficulty, ⟨x, by simp, rfl⟩, by intro a ha; simp at ha; rw [ha]; exact dle_refl _⟩
    | cons y ys =>
      obtain ⟨d, ⟨a, ha, hd⟩, hmax⟩ := ih (by simp)
      rcases DiffOrd.Lawful.le_total x.difficulty d with h | h
      · refine ⟨d, ⟨a, List.mem_cons_of_mem _ ha, hd⟩, ?_⟩
        intro b hb
        simp only [List.mem_cons] at hb
        rcases hb with rfl | hb
        · exact h
        · exact hmax b (by simpa using hb)
      · refine ⟨x.difficulty, ⟨x, by simp, rfl⟩, ?_⟩
        intro b hb
        simp only [List.mem_cons] at hb
        rcases hb with rfl | hb
        · exact dle_refl _
        · exact DiffOrd.Lawful.le_trans _ _ _ (hmax b (by simpa using hb)) h

/-- (O1)-(O3) at the exit: the difficulty of every returned assertion is at most the largest difficulty
of any competing set -/
theorem raire_optimal_pointwise (asn : Nat → Nat → Nat → Nat → D) (C : Contest α)
    (cvrs : List (Option (Ballot α))) (winner : α) (hC : C.candidates.Nodup) (hn : 2 ≤ C.candidates.length)
    (fuel : Nat) (as : List (Assertion α D)) (h : computeRaireAssertions asn C cvrs winner fuel = Res.ok as)
    (S : List (Assertion α D)) (hS : Competing asn C cvrs winner S) :
    ∀ a ∈ as, ∃ b ∈ S, DiffOrd.le a.difficulty b.difficulty = true := by
  intro a ha
  have hne : as ≠ [] := fun h0 => by rw [h0] at ha; cases ha
  exact ((compute_spec asn C cvrs winner hC hn h).2 hne).2.2 a ha S hS.1 hS.2

/-- **C15.** A non-empty result is itself a competing set, and its largest difficulty `m` is the least
possible: every competing set has largest difficulty at least `m`. Hence `m` is the minimum over all
competing sets of the largest difficulty in the set. -/
theorem raire_optimal (asn : Nat → Nat → Nat → Nat → D) (C : Contest α) (cvrs : List (Option (Ballot α)))
    (winner : α) (hC : C.candidates.Nodup) (hn : 2 ≤ C.candidates.length) (fuel : Nat)
    (as : List (Assertion α D)) (h : computeRaireAssertions asn C cvrs winner fuel = Res.ok as)
    (hne : as ≠ []) (m : D) (hm : IsMaxDiff as m) :
    Competing asn C cvrs winner as ∧
    ∀ S m', Competing asn C cvrs winner S → IsMaxDiff S m' → DiffOrd.le m m' = true := by
  obtain ⟨g1, g2, _⟩ := (compute_spec asn C cvrs winner hC hn h).2 hne
  refine ⟨⟨g1, g2⟩, ?_⟩
  intro S m' hS hm'
  obtain ⟨⟨a, ha, rfl⟩, _⟩ := hm
  obtain ⟨b, hb, hle⟩ := raire_optimal_pointwise asn C cvrs winner hC hn fuel as h S hS a ha
  exact DiffOrd.Lawful.le_trans _ _ _ hle (hm'.2 b hb)

/-- when an audit is possible at all (a competing set exists) the result is non-empty, so `raire_optimal`
applies -/
theorem raire_nonempty_of_possible (asn : Nat → Nat → Nat → Nat → D) (C : Contest α)
    (cvrs : List (Option (Ballot α))) (winner : α) (hC : C.candidates.Nodup) (hn : 2 ≤ C.candidates.length)
    (fuel : Nat) (as : List (Assertion α D)) (h : computeRaireAssertions asn C cvrs winner fuel = Res.ok as)
    (S : List (Assertion α D)) (hS : Competing asn C cvrs winner S) : as ≠ [] := by
  intro h0
  obtain ⟨π, hπ, hbad⟩ := (compute_spec asn C cvrs winner hC hn h).1 h0
  obtain ⟨a, ha, hc⟩ := hS.2 π hπ
  exact hbad a (hS.1 a ha) hc

/-- **C15 in one statement** (with termination): whenever an audit is possible at all, the generator, run
with enough fuel, returns a non-empty competing set whose largest difficulty is the minimum over all
competing sets of the largest difficulty in the set. -/
theorem raire_optimal_total (asn : Nat → Nat → Nat → Nat → D) (C : Contest α) (cvrs : List (Option (Ballot α)))
    (winner : α) (hC : C.candidates.Nodup) (hn : 2 ≤ C.candidates.length) (fuel : Nat)
    (hfuel : raireFuel C winner ≤ fuel) (S0 : List (Assertion α D)) (hS0 : Competing asn C cvrs winner S0) :
    ∃ as m, computeRaireAssertions asn C cvrs winner fuel = Res.ok as ∧ Competing asn C cvrs winner as ∧
      IsMaxDiff as m ∧ ∀ S m', Competing asn C cvrs winner S → IsMaxDiff S m' → DiffOrd.le m m' = true := by
  obtain ⟨as, h⟩ := compute_terminates asn C cvrs winner hC hn fuel hfuel
  have hne := raire_nonempty_of_possible asn C cvrs winner hC hn fuel as h S0 hS0
  obtain ⟨m, hm⟩ := exists_isMaxDiff as hne
  obtain ⟨g1, g2⟩ := raire_optimal asn C cvrs winner hC hn fuel as h hne m hm
  exact ⟨as, m, h, g1, hm, g2⟩

/-- **What C15 becomes with a positive allowed gap** (outside the property's "zero allowed gap", stated so
that nobody assumes more): for every `agap` test `gap` that is false at `inf`, a non-empty result of
`computeRaireAssertionsG gap` is a competing set, and EITHER its largest difficulty is the least possible (the
search ended normally), OR the test `gap mx l` was true of an upper bound `mx` of every returned difficulty and
a value `l` that every competing set's largest difficulty reaches. For the Python test `mx - l <= agap` that
is: the largest returned difficulty exceeds the optimum by at most `agap`. -/
theorem raire_near_optimal_gap (gap : Diff D → Diff D → Bool) (hgap : GapOK gap)
    (asn : Nat → Nat → Nat → Nat → D) (C : Contest α) (cvrs : List (Option (Ballot α)))
    (winner : α) (hC : C.candidates.Nodup) (hn : 2 ≤ C.candidates.length) (fuel : Nat)
    (as : List (Assertion α D)) (h : computeRaireAssertionsG gap asn C cvrs winner fuel = Res.ok as)
    (hne : as ≠ []) :
    Competing asn C cvrs winner as ∧
    ((∀ S m', Competing asn C cvrs winner S → IsMaxDiff S m' →
        ∀ a ∈ as, DiffOrd.le a.difficulty m' = true) ∨
     ∃ mx l, gap mx l = true ∧ (∀ a ∈ as, Diff.le (Diff.fin a.difficulty) mx = true) ∧
        ∀ S m', Competing asn C cvrs winner S → IsMaxDiff S m' → Diff.le l (Diff.fin m') = true) := by
  refine ⟨(computeG_spec asn C cvrs winner hgap hC hn h).2 hne, ?_⟩
  rcases computeG_near_opt asn C cvrs winner hgap hC hn h hne with hopt | ⟨mx, l, hg, hl, hmx⟩
  · left
    intro S m' hS hm' a ha
    obtain ⟨b, hb, hle⟩ := hopt a ha S hS.1 hS.2
    exact DiffOrd.Lawful.le_trans _ _ _ hle (hm'.2 b hb)
  · right
    refine ⟨mx, l, hg, hmx, ?_⟩
    intro S m' hS hm'
    obtain ⟨b, hb, hle⟩ := hl S hS.1 hS.2
    exact Diff.le_trans hle (hm'.2 b hb)

/-! ### Non-vacuity: the concrete contest of `Props/C04.lean` -/

def asnEx (w l _o t : Nat) : Nat := t * 1000 / (w - l)
def balEx (l : List Nat) : Option (Ballot Nat) := some l.zipIdx
def cvrsEx : List (Option (Ballot Nat)) :=
  List.replicate 4 (balEx [0, 1]) ++ List.replicate 3 (balEx [1, 2]) ++ List.replicate 2 (balEx [2, 1])
def CEx : Contest Nat := { candidates := [0, 1, 2], totBallots := 9, outcome := [2, 0, 1] }
def diffs (r : Res (List (Assertion Nat Nat))) : Option (List Nat) :=
  match r with
  | Res.ok as => some (as.map (·.difficulty))
  | _ => none

-- with the true elimination order as hint: two assertions, both of difficulty 9000 = 9 * 1000 / 1
example : diffs (computeRaireAssertions asnEx CEx cvrsEx 1 100) = some [9000, 9000] := by rfl
-- hence the hypotheses of `raire_optimal` are satisfiable (non-empty result with a largest difficulty)
example : ∃ as, computeRaireAssertions asnEx CEx cvrsEx 1 100 = Res.ok as ∧ as ≠ [] ∧ ∃ m, IsMaxDiff as m := by
  cases h : computeRaireAssertions asnEx CEx cvrsEx 1 100 with
  | ok as =>
    have hs : diffs (computeRaireAssertions asnEx CEx cvrsEx 1 100) = some [9000, 9000] := by rfl
    have hne : as ≠ [] := by
      intro h0; rw [h, h0] at hs; simp [diffs] at hs
    exact ⟨as, rfl, hne, exists_isMaxDiff as hne⟩
  | fuel =>
    have hs : diffs (computeRaireAssertions asnEx CEx cvrsEx 1 100) ≠ none := by intro h0; cases h0
    rw [h] at hs; exact absurd rfl hs
  | err e =>
    have hs : diffs (computeRaireAssertions asnEx CEx cvrsEx 1 100) ≠ none := by intro h0; cases h0
    rw [h] at hs; exact absurd rfl hs

end Shangrla.C15
