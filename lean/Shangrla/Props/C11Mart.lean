/-
  C11 (ALPHA and betting martingale tests) — reported p-values are well-formed and the overall
  value matches the history.  Theorems about `Shangrla.NM.alphaMart` / `bettingMart`, the literal
  models the driver executes.  (The Kaplan tests and the SPRT are in `C11Kaplan.lean`.)
-/
import Shangrla.Lemmas.NMMart
import Shangrla.Lemmas.PHist

namespace Shangrla.C11
open Shangrla Shangrla.NM XR

/-- the conclusion of C11 for one test result `(p, hist)` on a sample of length `n` -/
def WellFormed (ro : Bool) (n : Nat) (r : XR × List XR) : Prop :=
  r.2.length = n ∧ (∀ h ∈ r.2, IsP h) ∧ IsP r.1 ∧
    (ro = true → r.1 ∈ r.2 ∧ ∀ h ∈ r.2, XR.le r.1 h = true) ∧
    (ro = false → r.2.getLast? = some r.1)

theorem sjm_ok (N : Option Nat) (t : Rat) (x : List Rat) (hne : x ≠ [])
    (hN : ∀ n, N = some n → x.length ≤ n) :
    sjm N t x = .ok (prefixSums x, xsum x, nullMeansFrom N t 0 1 x) := by
  unfold sjm
  have h1 : x.isEmpty = false := by cases x <;> simp_all
  rw [h1]
  cases N with
  | none => rfl
  | some n =>
    have := hN n rfl
    simp only [Bool.false_eq_true, ↓reduceIte]
    rw [if_neg (by omega)]

theorem okWalk_of (ok : Rat → Rat → XR → Prop) (u : Rat) (N : Option Nat) (t : Rat) :
    ∀ (x : List Rat) (es : List XR) (S : Rat) (j : Nat), es.length = x.length →
      (∀ a ∈ x, 0 ≤ a ∧ a ≤ u) → (∀ e ∈ es, ∀ m a, ok m a e) →
      OkWalk ok u N t S j (x.zip es) := by
  intro x
  induction x with
  | nil => intro es S j _ _ _; simp [OkWalk]
  | cons a x ih =>
    intro es S j hlen hx hes
    cases es with
    | nil => simp at hlen
    | cons e es =>
      simp only [List.length_cons, Nat.add_right_cancel_iff] at hlen
      simp only [List.zip_cons_cons, OkWalk]
      refine ⟨hes e (by simp) _ _, (hx a (by simp)).1, (hx a (by simp)).2, ?_⟩
      exact ih es _ _ hlen (fun b hb => hx b (by simp [hb])) (fun e' he' => hes e' (by simp [he']))

theorem clampLast_good (N : Option Nat) (t Stot : Rat) (L : List XR) (hne : L ≠ [])
    (hL : ∀ x ∈ L, Good x) :
    clampLast N t Stot L ≠ [] ∧ (clampLast N t Stot L).length = L.length ∧
      ∀ x ∈ clampLast N t Stot L, Good x := by
  unfold clampLast
  cases N with
  | none => exact ⟨hne, rfl, hL⟩
  | some n =>
    simp only
    split
    · refine ⟨by simp, ?_, ?_⟩
      · simp only [List.length_append, List.length_dropLast, List.length_cons, List.length_nil]
        have := List.length_pos_iff.2 hne
        omega
      · intro x hx
        simp only [List.mem_append, List.mem_singleton] at hx
        rcases hx with hx | rfl
        · exact hL x (List.mem_of_mem_dropLast hx)
        · exact good_pinf
    · exact ⟨hne, rfl, hL⟩

/-- shared core: a masked walk gives a well-formed result -/
theorem finish_wellformed (cfg : Cfg) (fac : Rat → Rat → XR → XR) (ok : Rat → Rat → XR → Prop)
    (hfac : ∀ m a e, ok m a e → 0 < m → m < cfg.u → 0 ≤ a → a ≤ cfg.u →
      ∃ q : Rat, 0 ≤ q ∧ fac m a e = .fin q)
    (x : List Rat) (es : List XR) (hne : x ≠ []) (hN : ∀ n, cfg.N = some n → x.length ≤ n)
    (hat : 0 ≤ cfg.atol) (hrt : 0 ≤ cfg.rtol)
    (hlen : es.length = x.length) (hok : OkWalk ok cfg.u cfg.N cfg.t 0 1 (x.zip es))
    (m : List Rat) (terms : List XR) (Stot : Rat)
    (hw : m.zip terms = walk fac cfg.N cfg.t 0 1 1 (x.zip es)) :
    WellFormed cfg.randomOrder x.length (finishMart cfg (m, Stot, terms)) := by
  unfold finishMart
  simp only
  -- every masked term is good
  have hmask : ∀ T ∈ (m.zip terms).map (fun (p : Rat × XR) => maskTerm cfg.u cfg.atol cfg.rtol p.1 p.2), Good T := by
    intro T hT
    obtain ⟨⟨mj, Tj⟩, hp, rfl⟩ := List.mem_map.1 hT
    apply maskTerm_good _ _ _ _ _ hat hrt
    intro hm0 hmu
    rw [hw] at hp
    have hroom : Room cfg.N 1 (x.zip es).length := by
      cases hNc : cfg.N with
      | none => trivial
      | some n =>
        have := hN n hNc
        simp only [Room, List.length_zip, hlen, Nat.min_self]; omega
    obtain ⟨q, hq, hTq⟩ := walk_good fac ok cfg.u cfg.N cfg.t hfac (x.zip es) 0 1 1
      hok hroom
      (fun _ => ⟨1, by norm_num, rfl⟩) (mj, Tj) hp hm0 hmu
    simp only at hTq
    rw [hTq]; exact good_fin hq
  have hlenw : ((m.zip terms).map (fun (p : Rat × XR) => maskTerm cfg.u cfg.atol cfg.rtol p.1 p.2)).length = x.length := by
    rw [List.length_map, hw, walk_length, List.length_zip, hlen, Nat.min_self]
  have hne' : (m.zip terms).map (fun (p : Rat × XR) => maskTerm cfg.u cfg.atol cfg.rtol p.1 p.2) ≠ [] := by
    intro h
    rw [h] at hlenw
    exact hne (List.length_eq_zero_iff.1 hlenw.symm)
  obtain ⟨c1, c2, c3⟩ := clampLast_good cfg.N cfg.t Stot _ hne' hmask
  obtain ⟨r1, r2, r3, r4, r5⟩ := pAndHist_good cfg.randomOrder c1 c3
  exact ⟨by rw [r1, c2, hlenw], r2, r3, r4, r5⟩

theorem alphaTerms_eq (cfg : Cfg) (estim : List Rat → Except Err (List XR)) (x : List Rat)
    (eta0 : List XR) (hne : x ≠ []) (hN : ∀ n, cfg.N = some n → x.length ≤ n)
    (hest : estim x = .ok eta0) (hlen : eta0.length = x.length) :
    ∃ terms, alphaTerms cfg estim x = .ok (nullMeansFrom cfg.N cfg.t 0 1 x, xsum x, terms) ∧
      (nullMeansFrom cfg.N cfg.t 0 1 x).zip terms
        = walk (alphaFactorX cfg.u) cfg.N cfg.t 0 1 1 (x.zip eta0) := by
  have hs := sjm_ok cfg.N cfg.t x hne hN
  refine ⟨_, ?_, alpha_fusion cfg.u cfg.N cfg.t x eta0 0 1 1 hlen⟩
  unfold alphaTerms
  simp only [hs, hest, bind, Except.bind, pure, Except.pure]
  rfl

theorem bettingTerms_eq (cfg : Cfg) (bet : List Rat → Except Err (List XR)) (x : List Rat)
    (lam : List XR) (hne : x ≠ []) (hN : ∀ n, cfg.N = some n → x.length ≤ n)
    (hbet : bet x = .ok lam) (hlen : lam.length = x.length) :
    ∃ terms, bettingTerms cfg bet x = .ok (nullMeansFrom cfg.N cfg.t 0 1 x, xsum x, terms) ∧
      (nullMeansFrom cfg.N cfg.t 0 1 x).zip terms
        = walk betFactorX cfg.N cfg.t 0 1 1 (x.zip lam) := by
  have hs := sjm_ok cfg.N cfg.t x hne hN
  refine ⟨_, ?_, betting_fusion cfg.N cfg.t x lam 0 1 1 hlen⟩
  unfold bettingTerms
  simp only [hs, hbet, bind, Except.bind, pure, Except.pure]
  rfl

/-- **C11 for `alpha_mart`.**  For every non-empty sample of values in `[0,u]` no longer than the
population and every estimator that returns one finite value per observation, the test returns a
history with one entry per observation, each a rational in `[0,1]` (never NaN), an overall p-value
in `[0,1]`, equal to the least history entry when the sample is declared to be in random order and to
the last entry otherwise. -/
theorem wellformed_alpha (cfg : Cfg) (estim : List Rat → Except Err (List XR)) (x : List Rat)
    (eta0 : List XR) (hne : x ≠ []) (hN : ∀ n, cfg.N = some n → x.length ≤ n)
    (hx : ∀ a ∈ x, 0 ≤ a ∧ a ≤ cfg.u) (hat : 0 ≤ cfg.atol) (hrt : 0 ≤ cfg.rtol)
    (hest : estim x = .ok eta0) (hlen : eta0.length = x.length)
    (hfin : ∀ e ∈ eta0, ∃ q : Rat, e = .fin q) :
    ∃ r, alphaMart cfg estim x = .ok r ∧ WellFormed cfg.randomOrder x.length r := by
  obtain ⟨terms, ht, hw⟩ := alphaTerms_eq cfg estim x eta0 hne hN hest hlen
  refine ⟨finishMart cfg (nullMeansFrom cfg.N cfg.t 0 1 x, xsum x, terms), ?_, ?_⟩
  · unfold alphaMart
    rw [ht]; rfl
  · exact finish_wellformed cfg (alphaFactorX cfg.u) okAlpha (alpha_fac_good cfg.u) x eta0 hne hN hat hrt hlen
      (okWalk_of okAlpha cfg.u cfg.N cfg.t x eta0 0 1 hlen hx (fun e he _ _ => hfin e he)) _ _ _ hw

/-- **C11 for `betting_mart`.**  Same conclusion, for every bet function that returns one finite
bet per observation lying in `[0, 1/m_j]` wherever the null conditional mean `m_j` is positive
(`OkWalk okBet`: this also records that the observations lie in `[0,u]`). -/
theorem wellformed_betting (cfg : Cfg) (bet : List Rat → Except Err (List XR)) (x : List Rat)
    (lam : List XR) (hne : x ≠ []) (hN : ∀ n, cfg.N = some n → x.length ≤ n)
    (hat : 0 ≤ cfg.atol) (hrt : 0 ≤ cfg.rtol)
    (hbet : bet x = .ok lam) (hlen : lam.length = x.length)
    (hok : OkWalk okBet cfg.u cfg.N cfg.t 0 1 (x.zip lam)) :
    ∃ r, bettingMart cfg bet x = .ok r ∧ WellFormed cfg.randomOrder x.length r := by
  obtain ⟨terms, ht, hw⟩ := bettingTerms_eq cfg bet x lam hne hN hbet hlen
  refine ⟨finishMart cfg (nullMeansFrom cfg.N cfg.t 0 1 x, xsum x, terms), ?_, ?_⟩
  · unfold bettingMart
    rw [ht]; rfl
  · exact finish_wellformed cfg betFactorX okBet (bet_fac_good cfg.u) x lam hne hN hat hrt hlen hok _ _ _ hw

end Shangrla.C11

namespace Shangrla.C11
open Shangrla Shangrla.NM XR

/-! ### non-vacuity: the hypotheses of `wellformed_alpha` are met by a concrete configuration
(`N = 6`, `u = 1`, `t = 1/2`, fixed alternative `eta = 7/10`, sample `1, 0, 1`) -/

def exCfg : Cfg := Cfg.init false false 1 (some 6) (1/2) true { eta := some (7/10) }

example : ∃ r, alphaMart exCfg (fixedAlternativeMean exCfg) [1, 0, 1] = .ok r ∧
    WellFormed true 3 r := by
  have h : fixedAlternativeMean exCfg [1, 0, 1] = .ok [.fin (7/10), .fin (16/25), .fin (4/5)] := by
    decide +kernel
  refine wellformed_alpha exCfg (fixedAlternativeMean exCfg) [1, 0, 1] _ (by simp) ?_ ?_ ?_ ?_ h rfl ?_
  · intro n hn; simp [exCfg, Cfg.init] at hn; subst hn; simp
  · intro a ha; simp [exCfg, Cfg.init] at ha ⊢; rcases ha with rfl | rfl | rfl <;> norm_num
  · simp [exCfg, Cfg.init, eps]
  · simp [exCfg, Cfg.init]
  · intro e he; simp at he; rcases he with rfl | rfl | rfl <;> exact ⟨_, rfl⟩

end Shangrla.C11
