/-
  The audit-level risk limit: C09 ∘ C01 composed.

  `summarize_status` reports the audit complete only when EVERY assertion's p-value is at most its contest's risk
  limit (C09, `Status.complete_after_set`).  If some assertion is false — the population of its assorter values has
  mean at most the null mean — the probability that its p-value ever is at most alpha is at most alpha (C01).
  Hence: whatever the other assertions, contests, assorters and tests are, and however often the auditors look at
  the status while the sample grows, the probability — over the uniformly random order in which the `n` cards
  are drawn without replacement — that the audit is EVER reported complete is at most the risk limit of the
  contest with the false assertion.

  The cards are of an arbitrary type `α` (a manually read card paired with its CVR, a phantom, ...); the data of
  an assertion is a function of the drawn cards (`mvrs_to_data`: C03, C06, C08), its test any function
  of the data whose p-value is sequentially valid (`hC01`; discharged for `NonnegMean.test` by the C01 theorems).
-/
import Shangrla.Props.C09
import Shangrla.Props.C01Run
import Shangrla.Model.AuditLoop

namespace Shangrla.RiskLimit
open Shangrla Shangrla.Ville Shangrla.Status Shangrla.AuditLoop

/-- the draw tree over items of any type: probability that `ev` holds for some prefix of a uniformly random
ordering of `R` appended to `h` -/
def hitG {α : Type} (ev : List α → Bool) : (fuel : Nat) → List α → List α → ℚ
  | 0, _, h => if ev h then 1 else 0
  | fuel + 1, R, h =>
    if ev h then 1
    else if R = [] then 0
    else avgIdx R.length (fun i => match R[i]? with
      | some a => hitG ev fuel (R.eraseIdx i) (h ++ [a])
      | none => 0)

theorem avgIdx_congr {n : Nat} (f g : Nat → ℚ) (h : ∀ i < n, f i = g i) : avgIdx n f = avgIdx n g := by
  unfold avgIdx
  congr 1
  congr 1
  apply List.map_congr_left
  intro i hi
  exact h i (List.mem_range.mp hi)

theorem map_eraseIdx {α β : Type} (f : α → β) : ∀ (R : List α) (i : Nat),
    (R.eraseIdx i).map f = (R.map f).eraseIdx i
  | [], _ => by simp
  | _ :: _, 0 => by simp
  | a :: R, i + 1 => by simp [map_eraseIdx f R i]

/-- an event that looks at the cards only through `f` has the probability of the event on the values -/
theorem hitG_map {α : Type} (f : α → ℚ) (ev : List ℚ → Bool) :
    ∀ fuel (R h : List α), hitG (fun h => ev (h.map f)) fuel R h = hitEv ev fuel (R.map f) (h.map f) := by
  intro fuel
  induction fuel with
  | zero => intro R h; simp [hitG, hitEv]
  | succ fuel ih =>
    intro R h
    unfold hitG hitEv
    by_cases he : ev (h.map f) = true
    · simp [he]
    · simp only [he, List.map_eq_nil_iff, List.length_map]
      by_cases hR : R = []
      · simp [hR]
      · simp only [hR, if_false]
        apply avgIdx_congr
        intro i hi
        have h1 : R[i]? = some R[i] := List.getElem?_eq_getElem hi
        rw [h1]
        simp only
        rw [ih, map_eraseIdx]
        congr 1
        simp [List.getD_eq_getElem?_getD, hi]

theorem hitEv_le_one (ev : List ℚ → Bool) : ∀ fuel R h, hitEv ev fuel R h ≤ 1 := by
  intro fuel
  induction fuel with
  | zero => intro R h; unfold hitEv; split <;> norm_num
  | succ fuel ih =>
    intro R h
    unfold hitEv
    split
    · norm_num
    · split
      · norm_num
      · rename_i hR
        have hpos : 0 < R.length := List.length_pos_iff.mpr hR
        calc _ ≤ avgIdx R.length (fun _ => (1 : ℚ)) := avgIdx_le hpos _ _ (fun i _ => ih _ _)
          _ = 1 := avgIdx_const _ hpos 1

/-- a smaller event is less likely -/
theorem hitEv_mono (ev₁ ev₂ : List ℚ → Bool) (himp : ∀ h, ev₁ h = true → ev₂ h = true) :
    ∀ fuel R h, hitEv ev₁ fuel R h ≤ hitEv ev₂ fuel R h := by
  intro fuel
  induction fuel with
  | zero =>
    intro R h
    unfold hitEv
    by_cases h1 : ev₁ h = true
    · rw [if_pos h1, if_pos (himp h h1)]
    · rw [if_neg h1]; split <;> norm_num
  | succ fuel ih =>
    intro R h
    by_cases h2 : ev₂ h = true
    · have : hitEv ev₂ (fuel + 1) R h = 1 := by unfold hitEv; rw [if_pos h2]
      rw [this]; exact hitEv_le_one _ _ _ _
    · have h1 : ¬ ev₁ h = true := fun h1 => h2 (himp h h1)
      unfold hitEv
      rw [if_neg h1, if_neg h2]
      split
      · norm_num
      · rename_i hR
        exact avgIdx_le (List.length_pos_iff.mpr hR) _ _ (fun i _ => ih _ _)

theorem hitG_mono {α : Type} (ev₁ ev₂ : List α → Bool) (himp : ∀ h, ev₁ h = true → ev₂ h = true) :
    ∀ fuel (R h : List α), hitG ev₁ fuel R h ≤ hitG ev₂ fuel R h := by
  have le_one : ∀ fuel (R h : List α), hitG ev₁ fuel R h ≤ 1 := by
    intro fuel
    induction fuel with
    | zero => intro R h; unfold hitG; split <;> norm_num
    | succ fuel ih =>
      intro R h
      unfold hitG
      split
      · norm_num
      · split
        · norm_num
        · rename_i hR
          have hpos : 0 < R.length := List.length_pos_iff.mpr hR
          calc _ ≤ avgIdx R.length (fun _ => (1 : ℚ)) :=
                avgIdx_le hpos _ _ (fun i _ => by split; exact ih _ _; norm_num)
            _ = 1 := avgIdx_const _ hpos 1
  intro fuel
  induction fuel with
  | zero =>
    intro R h
    unfold hitG
    by_cases h1 : ev₁ h = true
    · rw [if_pos h1, if_pos (himp h h1)]
    · rw [if_neg h1]; split <;> norm_num
  | succ fuel ih =>
    intro R h
    by_cases h2 : ev₂ h = true
    · have : hitG ev₂ (fuel + 1) R h = 1 := by unfold hitG; rw [if_pos h2]
      rw [this]; exact le_one _ _ _
    · have h1 : ¬ ev₁ h = true := fun h1 => h2 (himp h h1)
      unfold hitG
      rw [if_neg h1, if_neg h2]
      split
      · norm_num
      · rename_i hR
        exact avgIdx_le (List.length_pos_iff.mpr hR) _ _ (fun i _ => by split; exact ih _ _; norm_num)

/-! ### the audit (`pLe`, `testOn`, `auditComplete`: Model/AuditLoop.lean) -/

/-- completion forces the p-value of every assertion of every contest below that contest's risk limit -/
theorem complete_forces {α : Type} (data : String → String → α → ℚ) (T : String → String → SeqTest)
    (s : State) (c : Contest) (hc : c ∈ s) (a : Assertion) (ha : a ∈ c.assertions) (h : List α)
    (hcomp : auditComplete data T s h = true) :
    pLe (T c.id a.name) c.riskLimit (h.map (data c.id a.name)) = true := by
  unfold auditComplete at hcomp
  have := ((C09.complete_after_set (testOn data T h) s).1 hcomp c hc).2 a ha
  unfold testOn at this
  unfold pLe
  cases hT : T c.id a.name (h.map (data c.id a.name)) with
  | ok r => rw [hT] at this; simpa using this
  | error e => rw [hT] at this; simp [XR.le] at this

/-- **Risk limit of the audit.**  `cards` is the population of `n` cards; one assertion `a` of one contest `c`
is false in the sense that the test applied to it is sequentially valid on the population of its data values
(`hC01`: this is the conclusion of the C01 theorems for a null population).  Then the probability, over the
uniformly random order of drawing without replacement, that `summarize_status` after `set_p_values` EVER
reports the audit complete — after any number of draws — is at most `c`'s risk limit. -/
theorem audit_risk_limit {α : Type} (data : String → String → α → ℚ) (T : String → String → SeqTest)
    (s : State) (c : Contest) (hc : c ∈ s) (a : Assertion) (ha : a ∈ c.assertions)
    (cards : List α)
    (hC01 : hitEv (pLe (T c.id a.name) c.riskLimit) cards.length (cards.map (data c.id a.name)) [] ≤ c.riskLimit) :
    hitG (auditComplete data T s) cards.length cards [] ≤ c.riskLimit := by
  calc hitG (auditComplete data T s) cards.length cards []
      ≤ hitG (fun h => pLe (T c.id a.name) c.riskLimit (h.map (data c.id a.name))) cards.length cards [] :=
        hitG_mono _ _ (fun h hcomp => complete_forces data T s c hc a ha h hcomp) _ _ _
    _ = hitEv (pLe (T c.id a.name) c.riskLimit) cards.length (cards.map (data c.id a.name)) [] := by
        rw [hitG_map]; simp
    _ ≤ c.riskLimit := hC01

/-- the same with the C01 conclusion in its strong form (overall p-value OR any history entry `≤ alpha`) -/
theorem audit_risk_limit_any {α : Type} (data : String → String → α → ℚ) (T : String → String → SeqTest)
    (s : State) (c : Contest) (hc : c ∈ s) (a : Assertion) (ha : a ∈ c.assertions)
    (cards : List α)
    (hC01 : hitEv (fun d => C01.anyLe c.riskLimit (T c.id a.name d)) cards.length
      (cards.map (data c.id a.name)) [] ≤ c.riskLimit) :
    hitG (auditComplete data T s) cards.length cards [] ≤ c.riskLimit := by
  refine audit_risk_limit data T s c hc a ha cards (le_trans (hitEv_mono _ _ ?_ _ _ _) hC01)
  intro d hd
  unfold pLe at hd
  unfold C01.anyLe
  cases hT : T c.id a.name d with
  | ok r => rw [hT] at hd; simp only [Bool.or_eq_true]; exact Or.inl hd
  | error e => rw [hT] at hd; cases hd

/-- **instance: the false assertion is tested by ALPHA with the default estimator** (`alpha_mart`,
`fixed_alternative_mean`), sampling without replacement from `n = cards.length` cards whose values for that
assertion lie in `[0,u]` and average at most the null mean `t`: whatever the other assertions and their tests
are, the audit is ever reported complete with probability at most the contest's risk limit. -/
theorem audit_risk_limit_alpha_fixed {α : Type} (data : String → String → α → ℚ)
    (T : String → String → SeqTest) (s : State) (c : Contest) (hc : c ∈ s) (a : Assertion)
    (ha : a ∈ c.assertions) (cards : List α) (cfg : NM.Cfg) (hN : cfg.N = some cards.length)
    (hT : T c.id a.name = NM.alphaMart cfg (NM.fixedAlternativeMean cfg))
    (hu : 0 ≤ cfg.u) (hat : 0 ≤ cfg.atol) (hat2 : cfg.atol < 1 / 2) (hrt : 0 ≤ cfg.rtol)
    (hr0 : 0 < c.riskLimit) (hr1 : c.riskLimit < 1)
    (hrange : ∀ x ∈ cards, 0 ≤ data c.id a.name x ∧ data c.id a.name x ≤ cfg.u)
    (hnull : (cards.map (data c.id a.name)).sum ≤ (cards.length : ℚ) * cfg.t) :
    hitG (auditComplete data T s) cards.length cards [] ≤ c.riskLimit := by
  apply audit_risk_limit_any data T s c hc a ha cards
  rw [hT]
  have h := C01.C01_finite_alpha_fixed_any cfg cards.length hN hu hat hat2 hrt c.riskLimit hr0 hr1
    (cards.map (data c.id a.name)) (by simp)
    (by intro v hv; obtain ⟨x, hx, rfl⟩ := List.mem_map.1 hv; exact hrange x hx) hnull
  rw [List.length_map] at h
  exact h

/-- **instance: the false assertion is tested by ANY shipped test / estimator / bet inside its documented
parameter range** (`NonnegMean.test` = `run`, `C01.DocumentedFinite`: ALPHA with the three estimators, the
betting martingale with both bets, Kaplan-Kolmogorov, Wald's SPRT), sampling without replacement. -/
theorem audit_risk_limit_run {α : Type} (data : String → String → α → ℚ)
    (T : String → String → SeqTest) (s : State) (c : Contest) (hc : c ∈ s) (a : Assertion)
    (ha : a ∈ c.assertions) (cards : List α) (sqrtF : ℚ → ℚ) (cfg : NM.Cfg) (test : NM.Test)
    (hN : cfg.N = some cards.length)
    (hT : T c.id a.name = NM.run sqrtF cfg test)
    (hdoc : C01.DocumentedFinite sqrtF cfg test)
    (hr0 : 0 < c.riskLimit) (hr1 : c.riskLimit < 1)
    (hrange : ∀ x ∈ cards, 0 ≤ data c.id a.name x ∧ data c.id a.name x ≤ cfg.u)
    (hnull : (cards.map (data c.id a.name)).sum ≤ (cards.length : ℚ) * cfg.t) :
    hitG (auditComplete data T s) cards.length cards [] ≤ c.riskLimit := by
  apply audit_risk_limit_any data T s c hc a ha cards
  rw [hT]
  have h := C01.C01_finite_run sqrtF cfg cards.length hN test hdoc c.riskLimit hr0 hr1
    (cards.map (data c.id a.name)) (by simp)
    (by intro v hv; obtain ⟨x, hx, rfl⟩ := List.mem_map.1 hv; exact hrange x hx) hnull
  rw [List.length_map] at h
  exact h

/-! ### non-vacuity -/

section example_
open Shangrla.NM

def cfgX : Cfg := { N := some 4, u := 1, t := 1/2, randomOrder := true, kw := { eta := some (3/4) } }
/-- a card carries the values of two assertions -/
def dataX : String → String → ℚ × ℚ → ℚ := fun _ name x => if name = "a" then x.1 else x.2
def TX : String → String → SeqTest := fun _ _ => alphaMart cfgX (fixedAlternativeMean cfgX)
def sX : State := [{ id := "c", riskLimit := 3/5, assertions := [{ name := "a" }, { name := "b" }] }]
/-- assertion `a` is false (mean exactly 1/2), assertion `b` is true -/
def cardsX : List (ℚ × ℚ) := [(1, 1), (0, 1), (1/2, 1), (1/2, 1)]

/-- the hypotheses of `audit_risk_limit_alpha_fixed` are satisfiable ... -/
example : hitG (auditComplete dataX TX sX) 4 cardsX [] ≤ 3/5 :=
  audit_risk_limit_alpha_fixed dataX TX sX _ (List.mem_singleton.2 rfl) { name := "a" } (by simp)
    cardsX cfgX rfl rfl (by norm_num [cfgX]) (by norm_num [cfgX, eps]) (by norm_num [cfgX, eps])
    (by norm_num [cfgX]) (by norm_num) (by norm_num)
    (by intro x hx; simp [cardsX] at hx; rcases hx with rfl | rfl | rfl | rfl <;> norm_num [dataX, cfgX])
    (by norm_num [cardsX, dataX, cfgX])

/-- ... and the bounded event really happens: the audit is reported complete with probability 5/12
(kernel-computed over the 24 orders) -/
theorem example_exact : hitG (auditComplete dataX TX sX) 4 cardsX [] = 5/12 := by decide +kernel

end example_

end Shangrla.RiskLimit
