/-
  C17 — each sample number maps to exactly one card; manifests account for every card.

  Theorems are about `Shangrla.Manifest.*`, the literal models of `Dominion.prep_manifest`,
  `Dominion.sample_from_manifest`, `Dominion.sample_from_cvrs` and their `Hart` counterparts that the
  driver executes.  Everything is quantified over arbitrary lists of batches (no size bound).
-/
import Shangrla.Model.Manifest
import Std.Data.String.ToInt

namespace Shangrla.C17
open Shangrla.Manifest

/-! ### Specification vocabulary -/

/-- number of cards in the batches listed before batch `b` (0-based) -/
def before (sizes : List Nat) (b : Nat) : Nat := (sizes.take b).sum

/-- size of batch `b` -/
def sizeOf (sizes : List Nat) (b : Nat) : Nat := sizes.getD b 0

/-! ### helper lemmas: running totals -/

theorem before_succ (l : List Nat) (b : Nat) (hb : b < l.length) :
    before l (b + 1) = before l b + sizeOf l b := by
  unfold before sizeOf
  induction l generalizing b with
  | nil => simp at hb
  | cons x xs ih =>
    cases b with
    | zero => simp
    | succ b =>
      have := ih b (by simpa using hb)
      simp only [List.take_succ_cons, List.sum_cons, List.getD_cons_succ] at this ⊢
      omega

theorem before_le_sum (l : List Nat) (b : Nat) : before l b ≤ l.sum := by
  unfold before
  induction l generalizing b with
  | nil => simp
  | cons x xs ih =>
    cases b with
    | zero => simp
    | succ b => have := ih b; simp only [List.take_succ_cons, List.sum_cons]; omega

theorem before_mono (l : List Nat) {b c : Nat} (h : b ≤ c) : before l b ≤ before l c := by
  unfold before
  induction l generalizing b c with
  | nil => simp
  | cons x xs ih =>
    cases b with
    | zero => simp
    | succ b =>
      cases c with
      | zero => omega
      | succ c => have := ih (b := b) (c := c) (by omega); simp only [List.take_succ_cons, List.sum_cons]; omega

theorem before_length (l : List Nat) : before l l.length = l.sum := by
  unfold before; simp

theorem cumFrom_length (l : List Nat) (acc : Nat) : (cumFrom acc l).length = l.length := by
  induction l generalizing acc with
  | nil => rfl
  | cons x xs ih => simp [cumFrom, ih]

theorem cumFrom_ge (l : List Nat) (acc y : Nat) (hy : y ∈ cumFrom acc l) : acc ≤ y := by
  induction l generalizing acc with
  | nil => simp [cumFrom] at hy
  | cons x xs ih =>
    simp only [cumFrom, List.mem_cons] at hy
    rcases hy with rfl | hy
    · omega
    · have := ih _ hy; omega

/-- `lookup[b] = cards before batch b` (`lookup = [0] + cum_cards`) -/
theorem lookup_getD (l : List Nat) (acc b : Nat) (hb : b ≤ l.length) :
    (acc :: cumFrom acc l).getD b 0 = acc + before l b := by
  unfold before
  induction l generalizing acc b with
  | nil => have : b = 0 := by simpa using hb
           subst this; simp
  | cons x xs ih =>
    cases b with
    | zero => simp
    | succ b =>
      have := ih (acc + x) b (by simpa using hb)
      simp only [cumFrom, List.getD_cons_succ, List.take_succ_cons, List.sum_cons] at this ⊢
      omega

theorem countP_eq_zero_of_ge (l : List Nat) (acc : Nat) (p : Nat → Bool)
    (hp : ∀ y, acc ≤ y → p y = false) : (cumFrom acc l).countP p = 0 := by
  rw [List.countP_eq_zero]
  intro y hy
  have := hp y (cumFrom_ge l acc y hy)
  simp [this]

/-- `searchsorted(side="left")` finds the batch whose cards are numbered `before b + 1 .. before (b+1)` -/
theorem searchLeft_eq (l : List Nat) (acc b s : Nat) (hb : b < l.length)
    (h1 : acc + before l b < s) (h2 : s ≤ acc + before l (b + 1)) :
    searchLeft (acc :: cumFrom acc l) s = b + 1 := by
  unfold searchLeft
  induction l generalizing acc b with
  | nil => simp at hb
  | cons x xs ih =>
    cases b with
    | zero =>
      have h1' : acc < s := by simpa [before] using h1
      have h2' : s ≤ acc + x := by simpa [before] using h2
      have hz : (cumFrom (acc + x) xs).countP (fun y => decide (y < s)) = 0 :=
        countP_eq_zero_of_ge xs (acc + x) _ (by intro y hy; simp; omega)
      simp only [cumFrom, List.countP_cons, hz]
      have : ¬ (acc + x < s) := by omega
      simp [h1', this]
    | succ b =>
      have hb' : b < xs.length := by simpa using hb
      have e1 : before (x :: xs) (b + 1) = x + before xs b := by simp [before]
      have e2 : before (x :: xs) (b + 1 + 1) = x + before xs (b + 1) := by simp [before]
      have := ih (acc + x) b hb' (by omega) (by omega)
      simp only [cumFrom, List.countP_cons] at this ⊢
      have ha : acc < s := by omega
      simp only [ha, decide_true, if_true]
      omega

/-- `searchsorted(side="right")` finds the batch whose cards are numbered `before b .. before (b+1) − 1` -/
theorem searchRight_eq (l : List Nat) (acc b s : Nat) (hb : b < l.length)
    (h1 : acc + before l b ≤ s) (h2 : s < acc + before l (b + 1)) :
    searchRight (acc :: cumFrom acc l) s = b + 1 := by
  unfold searchRight
  induction l generalizing acc b with
  | nil => simp at hb
  | cons x xs ih =>
    cases b with
    | zero =>
      have h1' : acc ≤ s := by simpa [before] using h1
      have h2' : s < acc + x := by simpa [before] using h2
      have hz : (cumFrom (acc + x) xs).countP (fun y => decide (y ≤ s)) = 0 :=
        countP_eq_zero_of_ge xs (acc + x) _ (by intro y hy; simp; omega)
      simp only [cumFrom, List.countP_cons, hz]
      have : ¬ (acc + x ≤ s) := by omega
      simp [h1', this]
    | succ b =>
      have hb' : b < xs.length := by simpa using hb
      have e1 : before (x :: xs) (b + 1) = x + before xs b := by simp [before]
      have e2 : before (x :: xs) (b + 1 + 1) = x + before xs (b + 1) := by simp [before]
      have := ih (acc + x) b hb' (by omega) (by omega)
      simp only [cumFrom, List.countP_cons] at this ⊢
      have ha : acc ≤ s := by omega
      simp only [ha, decide_true, if_true]
      omega

/-- every number `1..T` lies in exactly one batch's range (Dominion numbering) -/
theorem exists_batch_left (l : List Nat) (s : Nat) (h1 : 1 ≤ s) (h2 : s ≤ l.sum) :
    ∃ b, b < l.length ∧ before l b < s ∧ s ≤ before l (b + 1) := by
  induction l generalizing s with
  | nil => simp at h2; omega
  | cons x xs ih =>
    by_cases hx : s ≤ x
    · exact ⟨0, by simp, by simp [before]; omega, by simp [before]; omega⟩
    · obtain ⟨b, hb, h3, h4⟩ := ih (s - x) (by omega) (by simp only [List.sum_cons] at h2; omega)
      refine ⟨b + 1, by simpa using hb, ?_, ?_⟩
      · have : before (x :: xs) (b + 1) = x + before xs b := by simp [before]
        omega
      · have : before (x :: xs) (b + 1 + 1) = x + before xs (b + 1) := by simp [before]
        omega

/-- every number `0..T−1` lies in exactly one batch's range (Hart numbering) -/
theorem exists_batch_right (l : List Nat) (s : Nat) (h2 : s < l.sum) :
    ∃ b, b < l.length ∧ before l b ≤ s ∧ s < before l (b + 1) := by
  induction l generalizing s with
  | nil => simp at h2
  | cons x xs ih =>
    by_cases hx : s < x
    · exact ⟨0, by simp, by simp [before], by simp [before]; omega⟩
    · obtain ⟨b, hb, h3, h4⟩ := ih (s - x) (by simp only [List.sum_cons] at h2; omega)
      refine ⟨b + 1, by simpa using hb, ?_, ?_⟩
      · have : before (x :: xs) (b + 1) = x + before xs b := by simp [before]
        omega
      · have : before (x :: xs) (b + 1 + 1) = x + before xs (b + 1) := by simp [before]
        omega

/-- the Dominion lookup, once the batch is known -/
theorem lookupLeft_of_batch (sizes : List Nat) (b s : Nat) (hb : b < sizes.length)
    (h1 : before sizes b < s) (h2 : s ≤ before sizes (b + 1)) :
    lookupLeft (cumCards sizes) s = .ok (b, ((s - before sizes b : Nat) : Int)) := by
  unfold lookupLeft rowAndPos cumCards
  rw [searchLeft_eq sizes 0 b s hb (by omega) (by omega)]
  have hl : b < (cumFrom 0 sizes).length := by rw [cumFrom_length]; exact hb
  have hg := lookup_getD sizes 0 b (by omega)
  simp only [Nat.add_one_ne_zero, ↓reduceIte, Nat.add_sub_cancel, hl, hg]
  congr 2
  omega

/-- the Hart lookup, once the batch is known -/
theorem lookupRight_of_batch (sizes : List Nat) (b s : Nat) (hb : b < sizes.length)
    (h1 : before sizes b ≤ s) (h2 : s < before sizes (b + 1)) :
    lookupRight (cumCards sizes) s = .ok (b, ((s - before sizes b : Nat) : Int)) := by
  unfold lookupRight rowAndPos cumCards
  rw [searchRight_eq sizes 0 b s hb (by omega) (by omega)]
  have hl : b < (cumFrom 0 sizes).length := by rw [cumFrom_length]; exact hb
  have hg := lookup_getD sizes 0 b (by omega)
  simp only [Nat.add_one_ne_zero, ↓reduceIte, Nat.add_sub_cancel, hl, hg]
  congr 2
  omega

/-! ### C17, first part: the lookup is a bijection -/

/-- **Dominion** (`side="left"`, sample numbers `1..T`). For every list of batch sizes (empty batches
allowed) with total `T`:
1. every `s ∈ 1..T` is mapped to a pair `(b, p)` with `b` a batch of the manifest and `1 ≤ p ≤ size b`,
   and `s = before b + p` (so the map is injective: `s` is recovered from its image);
2. every such pair is the image of the number `before b + p`, which lies in `1..T` (onto, explicit inverse);
3. injectivity stated outright. -/
theorem dominion_bijection (sizes : List Nat) :
    (∀ s, 1 ≤ s → s ≤ sizes.sum →
      ∃ b p : Nat, lookupLeft (cumCards sizes) s = .ok (b, (p : Int)) ∧
        b < sizes.length ∧ 1 ≤ p ∧ p ≤ sizeOf sizes b ∧ s = before sizes b + p) ∧
    (∀ b p : Nat, b < sizes.length → 1 ≤ p → p ≤ sizeOf sizes b →
      1 ≤ before sizes b + p ∧ before sizes b + p ≤ sizes.sum ∧
        lookupLeft (cumCards sizes) (before sizes b + p) = .ok (b, (p : Int))) ∧
    (∀ s s', 1 ≤ s → s ≤ sizes.sum → 1 ≤ s' → s' ≤ sizes.sum →
      lookupLeft (cumCards sizes) s = lookupLeft (cumCards sizes) s' → s = s') := by
  have part1 : ∀ s, 1 ≤ s → s ≤ sizes.sum →
      ∃ b p : Nat, lookupLeft (cumCards sizes) s = .ok (b, (p : Int)) ∧
        b < sizes.length ∧ 1 ≤ p ∧ p ≤ sizeOf sizes b ∧ s = before sizes b + p := by
    intro s h1 h2
    obtain ⟨b, hb, h3, h4⟩ := exists_batch_left sizes s h1 h2
    have := before_succ sizes b hb
    exact ⟨b, s - before sizes b, lookupLeft_of_batch sizes b s hb h3 h4, hb, by omega, by omega, by omega⟩
  refine ⟨part1, ?_, ?_⟩
  · intro b p hb hp1 hp2
    have hs := before_succ sizes b hb
    have hle : before sizes (b + 1) ≤ sizes.sum := before_le_sum sizes (b + 1)
    refine ⟨by omega, by omega, ?_⟩
    have := lookupLeft_of_batch sizes b (before sizes b + p) hb (by omega) (by omega)
    rw [this]
    congr 2
    omega
  · intro s s' h1 h2 h1' h2' he
    obtain ⟨b, p, e, _, _, _, hs⟩ := part1 s h1 h2
    obtain ⟨b', p', e', _, _, _, hs'⟩ := part1 s' h1' h2'
    rw [e, e'] at he
    injection he with he
    injection he with hb hp
    have : p = p' := by omega
    subst hb; subst this
    omega

/-- **Hart** (`side="right"`, sample numbers `0..T−1`), positions `0 ≤ p < size b`. -/
theorem hart_bijection (sizes : List Nat) :
    (∀ s, s < sizes.sum →
      ∃ b p : Nat, lookupRight (cumCards sizes) s = .ok (b, (p : Int)) ∧
        b < sizes.length ∧ p < sizeOf sizes b ∧ s = before sizes b + p) ∧
    (∀ b p : Nat, b < sizes.length → p < sizeOf sizes b →
      before sizes b + p < sizes.sum ∧
        lookupRight (cumCards sizes) (before sizes b + p) = .ok (b, (p : Int))) ∧
    (∀ s s', s < sizes.sum → s' < sizes.sum →
      lookupRight (cumCards sizes) s = lookupRight (cumCards sizes) s' → s = s') := by
  have part1 : ∀ s, s < sizes.sum →
      ∃ b p : Nat, lookupRight (cumCards sizes) s = .ok (b, (p : Int)) ∧
        b < sizes.length ∧ p < sizeOf sizes b ∧ s = before sizes b + p := by
    intro s h2
    obtain ⟨b, hb, h3, h4⟩ := exists_batch_right sizes s h2
    have := before_succ sizes b hb
    exact ⟨b, s - before sizes b, lookupRight_of_batch sizes b s hb h3 h4, hb, by omega, by omega⟩
  refine ⟨part1, ?_, ?_⟩
  · intro b p hb hp
    have hs := before_succ sizes b hb
    have hle : before sizes (b + 1) ≤ sizes.sum := before_le_sum sizes (b + 1)
    refine ⟨by omega, ?_⟩
    have := lookupRight_of_batch sizes b (before sizes b + p) hb (by omega) (by omega)
    rw [this]
    congr 2
    omega
  · intro s s' h2 h2' he
    obtain ⟨b, p, e, _, _, hs⟩ := part1 s h2
    obtain ⟨b', p', e', _, _, hs'⟩ := part1 s' h2'
    rw [e, e'] at he
    injection he with he
    injection he with hb hp
    have : p = p' := by omega
    subst hb; subst this
    omega

/-! ### C17, second part: preparing a manifest -/

/-- **prep_accounts.** When `prep_manifest` succeeds the returned batch sizes add up to exactly
`max_cards`; `manifest_cards` is the number of listed cards and `phantoms` the shortfall; a phantom
batch of that size is appended iff the shortfall is positive, otherwise the sizes are returned unchanged. -/
theorem prep_accounts (sizes : List Nat) (maxCards nCvrs : Nat) (sizes' : List Nat) (mc ph : Nat)
    (h : prepManifest sizes maxCards nCvrs = .ok (sizes', mc, ph)) :
    sizes'.sum = maxCards ∧ mc = sizes.sum ∧ ph = maxCards - sizes.sum ∧
    (0 < maxCards - sizes.sum → sizes' = sizes ++ [maxCards - sizes.sum]) ∧
    (maxCards - sizes.sum = 0 → sizes' = sizes) := by
  unfold prepManifest at h
  simp only at h
  split at h
  · cases h
  · split at h
    · cases h
    · split at h
      · simp only [Except.ok.injEq, Prod.mk.injEq] at h
        obtain ⟨rfl, rfl, rfl⟩ := h
        refine ⟨by simp [List.sum_append]; omega, rfl, rfl, fun _ => rfl, fun h0 => by omega⟩
      · simp only [Except.ok.injEq, Prod.mk.injEq] at h
        obtain ⟨rfl, rfl, rfl⟩ := h
        refine ⟨by omega, rfl, by omega, fun h0 => by omega, fun _ => rfl⟩

theorem prep_err_iff (sizes : List Nat) (maxCards nCvrs : Nat) :
    prepManifest sizes maxCards nCvrs = .error .AssertionError ↔
      (maxCards < sizes.sum ∨ sizes.sum < nCvrs) := by
  unfold prepManifest
  simp only
  split
  · simp; omega
  · split
    · simp; omega
    · split <;> simp <;> omega

theorem prep_err_kind (sizes : List Nat) (maxCards nCvrs : Nat) (e : Err)
    (h : prepManifest sizes maxCards nCvrs = .error e) : e = .AssertionError := by
  unfold prepManifest at h
  simp only at h
  split at h
  · cases h; rfl
  · split at h
    · cases h; rfl
    · split at h <;> cases h

theorem prep_ok_iff (sizes : List Nat) (maxCards nCvrs : Nat) :
    (∃ r, prepManifest sizes maxCards nCvrs = .ok r) ↔ (sizes.sum ≤ maxCards ∧ nCvrs ≤ sizes.sum) := by
  constructor
  · rintro ⟨r, h⟩
    have := (prep_err_iff sizes maxCards nCvrs)
    rw [h] at this
    simp at this
    omega
  · intro h
    cases hp : prepManifest sizes maxCards nCvrs with
    | ok r => exact ⟨r, rfl⟩
    | error e =>
      have he := prep_err_kind _ _ _ _ hp
      subst he
      have := (prep_err_iff sizes maxCards nCvrs).1 hp
      omega

/-- **prep_refuses.** `prep_manifest` raises (and then it is an `AssertionError`) exactly when the manifest
lists more cards than `max_cards` or fewer cards than there are CVRs; otherwise it returns. -/
theorem prep_refuses (sizes : List Nat) (maxCards nCvrs : Nat) :
    (prepManifest sizes maxCards nCvrs = .error .AssertionError ↔
        (maxCards < sizes.sum ∨ sizes.sum < nCvrs)) ∧
    (∀ e, prepManifest sizes maxCards nCvrs = .error e → e = .AssertionError) ∧
    ((∃ r, prepManifest sizes maxCards nCvrs = .ok r) ↔ (sizes.sum ≤ maxCards ∧ nCvrs ≤ sizes.sum)) :=
  ⟨prep_err_iff _ _ _, prep_err_kind _ _ _, prep_ok_iff _ _ _⟩

/-- `prep_manifest` on whole rows: what it returns when it returns -/
theorem prepRows_ok (v : Vendor) (rows rows' : List Row) (maxCards nCvrs mc ph : Nat)
    (h : prepRows v rows maxCards nCvrs = .ok (rows', mc, ph)) :
    mc = (rows.map (·.size)).sum ∧ ph = maxCards - mc ∧ mc ≤ maxCards ∧ nCvrs ≤ mc ∧
    rows' = (if mc < maxCards then rows ++ [phantomRow v ph] else rows) ∧
    (rows'.map (·.size)).sum = maxCards ∧
    prepManifest (rows.map (·.size)) maxCards nCvrs = .ok (rows'.map (·.size), mc, ph) := by
  unfold prepRows at h
  split at h
  · cases h
  · rename_i sz mc' ph' hp
    obtain ⟨h1, h2, h3, h4, h5⟩ := prep_accounts _ _ _ _ _ _ hp
    have hok := (prep_refuses (rows.map (·.size)) maxCards nCvrs).2.2.1 ⟨_, hp⟩
    split at h
    · rename_i hlt
      simp only [Except.ok.injEq, Prod.mk.injEq] at h
      obtain ⟨rfl, rfl, rfl⟩ := h
      have hsz : sz = List.map (·.size) (rows ++ [phantomRow v ph']) := by
        rw [h4 (by omega)]; simp [phantomRow, h3]
      refine ⟨h2, h3 ▸ h2 ▸ rfl, by omega, by omega, by simp [hlt], hsz ▸ h1, hsz ▸ hp⟩
    · rename_i hlt
      simp only [Except.ok.injEq, Prod.mk.injEq] at h
      obtain ⟨rfl, rfl, rfl⟩ := h
      have hsz : sz = List.map (·.size) rows := h5 (by omega)
      refine ⟨h2, h3 ▸ h2 ▸ rfl, by omega, by omega, by simp [hlt], hsz ▸ h1, hsz ▸ hp⟩

/-! ### helper lemmas: loops, dictionaries -/

theorem mapE_ok {α β ε : Type} (f : α → Except ε β) :
    ∀ (l : List α) (bs : List β), mapE f l = .ok bs →
      bs.length = l.length ∧ ∀ i (h1 : i < l.length) (h2 : i < bs.length), f l[i] = .ok bs[i] := by
  intro l
  induction l with
  | nil => intro bs h; simp only [mapE, Except.ok.injEq] at h; subst h; simp
  | cons a as ih =>
    intro bs h
    simp only [mapE] at h
    split at h
    · cases h
    · rename_i b hb
      split at h
      · cases h
      · rename_i bs' hbs
        simp only [Except.ok.injEq] at h
        subst h
        obtain ⟨hl, hi⟩ := ih bs' hbs
        refine ⟨by simp [hl], ?_⟩
        intro i h1 h2
        cases i with
        | zero => simpa using hb
        | succ i => simpa using hi i (by simpa using h1) (by simpa using h2)

theorem mapE_mem {α β ε : Type} (f : α → Except ε β) (l : List α) (bs : List β) (h : mapE f l = .ok bs) :
    ∀ b ∈ bs, ∃ a ∈ l, f a = .ok b := by
  obtain ⟨hl, hi⟩ := mapE_ok f l bs h
  intro b hb
  obtain ⟨i, h2, rfl⟩ := List.getElem_of_mem hb
  exact ⟨l[i]'(by omega), List.getElem_mem _, hi i (by omega) h2⟩

theorem mapE_of_forall {α β ε : Type} (f : α → Except ε β) (l : List α)
    (h : ∀ a ∈ l, ∃ b, f a = .ok b) : ∃ bs, mapE f l = .ok bs := by
  induction l with
  | nil => exact ⟨[], rfl⟩
  | cons a as ih =>
    obtain ⟨b, hb⟩ := h a (by simp)
    obtain ⟨bs, hbs⟩ := ih (fun a' ha' => h a' (by simp [ha']))
    exact ⟨b :: bs, by simp [mapE, hb, hbs]⟩

theorem dictGet_dictSet {β : Type} (d : List (String × β)) (k k' : String) (v : β) :
    dictGet (dictSet d k v) k' = if k = k' then some v else dictGet d k' := by
  induction d with
  | nil => simp [dictSet, dictGet]
  | cons hd t ih =>
    obtain ⟨k0, v0⟩ := hd
    by_cases h0 : k0 = k
    · subst h0
      by_cases h1 : k0 = k' <;> simp [dictSet, dictGet, h1]
    · by_cases h1 : k0 = k'
      · subst h1
        have : ¬ k = k0 := fun e => h0 e.symm
        simp [dictSet, dictGet, h0, this]
      · simp [dictSet, dictGet, h0, h1, ih]

theorem orderLoop_other (l : List (String × Nat)) (d : List (String × Order)) (i : Nat) (key : String)
    (h : key ∉ l.map (·.1)) : dictGet (orderLoop d i l) key = dictGet d key := by
  induction l generalizing d i with
  | nil => rfl
  | cons hd t ih =>
    obtain ⟨cid, s⟩ := hd
    simp only [List.map_cons, List.mem_cons, not_or] at h
    simp only [orderLoop]
    rw [ih _ _ h.2, dictGet_dictSet]
    have hne : ¬ cid = key := fun e => h.1 e.symm
    simp [hne]

/-- after the loop, a card that is not drawn again later carries its own draw index and serial -/
theorem orderLoop_at (l : List (String × Nat)) (d : List (String × Order)) (k j : Nat) (hj : j < l.length)
    (h : l[j].1 ∉ (l.drop (j + 1)).map (·.1)) :
    dictGet (orderLoop d k l) l[j].1 = some { selectionOrder := k + j, serial := l[j].2 + 1 } := by
  induction l generalizing d k j with
  | nil => simp at hj
  | cons hd t ih =>
    obtain ⟨cid, s⟩ := hd
    cases j with
    | zero =>
      simp only [List.getElem_cons_zero, Nat.zero_add, List.drop_succ_cons, List.drop_zero] at h ⊢
      simp only [orderLoop]
      rw [orderLoop_other _ _ _ _ h, dictGet_dictSet]
      simp
    | succ j =>
      simp only [List.getElem_cons_succ, List.drop_succ_cons] at h ⊢
      simp only [orderLoop]
      have := ih (dictSet d cid { selectionOrder := k, serial := s + 1 }) (k + 1) j (by simpa using hj) h
      rw [this]
      congr 2
      omega

theorem entry_s (v : Vendor) (rows : List Row) (s : Nat) (e : Entry) (h : entry v rows s = .ok e) : e.s = s := by
  unfold entry at h
  split at h
  · cases h
  · split at h
    · cases h
    · simp only [Except.ok.injEq] at h; subst h; rfl

/-! ### C17, third part: selection order -/

/-- **selection_order.** When `sample_from_manifest` returns, it has looked every drawn number up
(`es[i]` is the card of draw `i`), `cards` lists exactly those cards (re-ordered by the final sort), and
`sample_order[card id of draw i]` holds `selection_order = i`, `serial = s + 1` — for every draw whose card
is not drawn again later (with repeats, a dict keeps the last draw). -/
theorem selection_order (v : Vendor) (rows : List Row) (sample : List Nat)
    (cards : List Entry) (so : List (String × Order)) (ph : List String)
    (h : sampleFromManifest v rows sample = .ok (cards, so, ph)) :
    ∃ es, entries v rows sample = .ok es ∧ es.length = sample.length ∧ cards.Perm es ∧
      ∀ i (h1 : i < sample.length) (h2 : i < es.length),
        entry v rows sample[i] = .ok es[i] ∧ es[i].s = sample[i] ∧
        (es[i].cardId ∉ (es.drop (i + 1)).map (·.cardId) →
          dictGet so es[i].cardId = some { selectionOrder := i, serial := sample[i] + 1 }) := by
  unfold sampleFromManifest at h
  split at h
  · cases h
  · rename_i es hes
    simp only [Except.ok.injEq, Prod.mk.injEq] at h
    obtain ⟨rfl, rfl, rfl⟩ := h
    obtain ⟨hl, hi⟩ := mapE_ok _ _ _ hes
    refine ⟨es, hes, hl, ?_, ?_⟩
    · cases v <;> exact List.mergeSort_perm _ _
    · intro i h1 h2
      have he := hi i h1 h2
      have hs := entry_s v rows _ _ he
      refine ⟨he, hs, ?_⟩
      intro hnot
      have hj : i < (es.map (fun e => (e.cardId, e.s))).length := by simpa using h2
      have hconv : ((es.map (fun e => (e.cardId, e.s))).drop (i + 1)).map (·.1)
          = (es.drop (i + 1)).map (·.cardId) := by
        simp [List.map_drop, List.map_map, Function.comp_def]
      have := orderLoop_at (es.map (fun e => (e.cardId, e.s))) [] 0 i hj
        (by rw [hconv]; simpa using hnot)
      simpa [hs] using this

/-- corollary: when no card is drawn twice every draw's entry is its draw index -/
theorem selection_order_nodup (v : Vendor) (rows : List Row) (sample : List Nat)
    (cards : List Entry) (so : List (String × Order)) (ph : List String)
    (h : sampleFromManifest v rows sample = .ok (cards, so, ph)) :
    ∃ es, entries v rows sample = .ok es ∧ es.length = sample.length ∧
      ((es.map (·.cardId)).Nodup →
        ∀ i (h1 : i < sample.length) (h2 : i < es.length),
          dictGet so es[i].cardId = some { selectionOrder := i, serial := sample[i] + 1 }) := by
  obtain ⟨es, h1, h2, _, h4⟩ := selection_order v rows sample cards so ph h
  refine ⟨es, h1, h2, ?_⟩
  intro hnd i hi1 hi2
  apply (h4 i hi1 hi2).2.2
  have hsplit : es.map (·.cardId) = (es.take (i + 1)).map (·.cardId) ++ (es.drop (i + 1)).map (·.cardId) := by
    rw [← List.map_append, List.take_append_drop]
  rw [hsplit] at hnd
  have hdisj := (List.nodup_append.1 hnd).2.2
  intro hmem
  have hin : es[i].cardId ∈ (es.take (i + 1)).map (·.cardId) := by
    apply List.mem_map.2
    refine ⟨es[i], ?_, rfl⟩
    rw [List.mem_take_iff_getElem]
    exact ⟨i, by omega, rfl⟩
  exact hdisj _ hin _ hmem rfl

/-! ### C17, fourth part: phantom manual records -/

/-- the valid sample numbers of a manifest accounting for `T` cards -/
def validNum : Vendor → Nat → Nat → Bool
  | .dominion, T, s => decide (1 ≤ s ∧ s ≤ T)
  | .hart, T, s => decide (s < T)

/-- sample number `s` denotes a card beyond the `mc` cards the original manifest lists -/
def inPhantomBatch : Vendor → Nat → Nat → Bool
  | .dominion, mc, s => decide (mc < s)
  | .hart, mc, s => decide (mc ≤ s)

theorem before_append_left (l1 l2 : List Nat) (b : Nat) (hb : b ≤ l1.length) :
    before (l1 ++ l2) b = before l1 b := by
  unfold before
  rw [List.take_append_of_le_length hb]

/-- both lookups at once: the batch found, its range, and the position -/
theorem lookupV_spec (v : Vendor) (sizes : List Nat) (s : Nat) (hs : validNum v sizes.sum s = true) :
    ∃ b, b < sizes.length ∧
      lookupV v (cumCards sizes) s = .ok (b, ((s - before sizes b : Nat) : Int)) ∧
      before sizes b ≤ s ∧
      (inPhantomBatch v (before sizes b) s = true) ∧ (inPhantomBatch v (before sizes (b + 1)) s = false) := by
  cases v with
  | dominion =>
    simp only [validNum, decide_eq_true_eq] at hs
    obtain ⟨b, hb, h1, h2⟩ := exists_batch_left sizes s hs.1 hs.2
    exact ⟨b, hb, lookupLeft_of_batch sizes b s hb h1 h2, by omega, by simp [inPhantomBatch, h1],
      by simp [inPhantomBatch]; omega⟩
  | hart =>
    simp only [validNum, decide_eq_true_eq] at hs
    obtain ⟨b, hb, h1, h2⟩ := exists_batch_right sizes s hs
    exact ⟨b, hb, lookupRight_of_batch sizes b s hb h1 h2, h1, by simp [inPhantomBatch, h1],
      by simp [inPhantomBatch]; omega⟩

theorem inPhantomBatch_mono (v : Vendor) {a b s : Nat} (h : a ≤ b) (hb : inPhantomBatch v b s = true) :
    inPhantomBatch v a s = true := by
  cases v <;> simp only [inPhantomBatch, decide_eq_true_eq] at hb ⊢ <;> omega

/-- on a prepared manifest every valid sample number is found, and the card found carries the
tabulator name `phantom` exactly when the number lies beyond the cards the original manifest lists -/
theorem entry_phantom (v : Vendor) (rows rows' : List Row) (maxCards nCvrs mc ph : Nat)
    (hreal : ∀ r ∈ rows, r.tab ≠ "phantom")
    (hprep : prepRows v rows maxCards nCvrs = .ok (rows', mc, ph))
    (s : Nat) (hs : validNum v maxCards s = true) :
    ∃ e, entry v rows' s = .ok e ∧ ((e.tab == "phantom") = inPhantomBatch v mc s) := by
  obtain ⟨hmc, hph, hle, _, hrows, hsum, _⟩ := prepRows_ok v rows rows' maxCards nCvrs mc ph hprep
  rw [← hsum] at hs
  obtain ⟨b, hb, hlook, _, hin, hout⟩ := lookupV_spec v (rows'.map (·.size)) s hs
  have hb' : b < rows'.length := by simpa using hb
  refine ⟨{ extra := rows'[b].extra, tab := rows'[b].tab, batch := rows'[b].batch,
            cardInBatch := ((s - before (rows'.map (·.size)) b : Nat) : Int),
            cardId := cardIdOf rows'[b].tab rows'[b].batch ((s - before (rows'.map (·.size)) b : Nat) : Int),
            s := s }, ?_, ?_⟩
  · unfold entry
    rw [hlook]
    simp [List.getElem?_eq_getElem hb']
  · simp only
    by_cases hbr : b < rows.length
    · -- a listed batch
      have hrow : rows'[b] = rows[b] := by
        subst hrows
        split
        · exact List.getElem_append_left hbr
        · rfl
      have hne : rows'[b].tab ≠ "phantom" := by rw [hrow]; exact hreal _ (List.getElem_mem _)
      have hbefore : before (rows'.map (·.size)) (b + 1) = before (rows.map (·.size)) (b + 1) := by
        subst hrows
        split
        · rw [List.map_append]; exact before_append_left _ _ _ (by simp; omega)
        · rfl
      have hle2 : before (rows.map (·.size)) (b + 1) ≤ mc := by rw [hmc]; exact before_le_sum _ _
      have : inPhantomBatch v mc s = false := by
        cases hq : inPhantomBatch v mc s with
        | false => rfl
        | true =>
          have := inPhantomBatch_mono v hle2 hq
          rw [← hbefore, hout] at this
          cases this
      rw [this]
      simpa using hne
    · -- the appended batch
      have hlt : mc < maxCards := by
        by_cases hlt : mc < maxCards
        · exact hlt
        · exfalso; subst hrows; simp only [hlt, if_false] at hb'; omega
      have hr : rows' = rows ++ [phantomRow v ph] := by rw [hrows]; simp [hlt]
      have hbeq : b = rows.length := by
        rw [hr] at hb'; simp at hb'; omega
      have hrow : rows'[b] = phantomRow v ph := by
        subst hr; subst hbeq; simp
      have hbefore : before (rows'.map (·.size)) b = mc := by
        rw [hr, hbeq, List.map_append, before_append_left _ _ _ (by simp), hmc]
        have := before_length (rows.map (·.size))
        simpa using this
      rw [hbefore] at hin
      rw [hin, hrow]
      simp [phantomRow]

/-- **phantom_exact.** After `prep_manifest` (real batches never named `phantom`), for every sample of
valid numbers `sample_from_manifest` returns, and the phantom manual records it returns are — in draw
order — exactly the cards whose number lies beyond the listed cards, i.e. in the appended phantom batch;
each record's id is that card's id. -/
theorem phantom_exact (v : Vendor) (rows rows' : List Row) (maxCards nCvrs mc ph : Nat)
    (hreal : ∀ r ∈ rows, r.tab ≠ "phantom")
    (hprep : prepRows v rows maxCards nCvrs = .ok (rows', mc, ph))
    (sample : List Nat) (hvalid : ∀ s ∈ sample, validNum v maxCards s = true) :
    ∃ cards so mvrs es, sampleFromManifest v rows' sample = .ok (cards, so, mvrs) ∧
      entries v rows' sample = .ok es ∧
      mvrs = (es.filter (fun e => inPhantomBatch v mc e.s)).map (·.cardId) := by
  have hall : ∀ s ∈ sample, ∃ e, entry v rows' s = .ok e := by
    intro s hs
    obtain ⟨e, he, _⟩ := entry_phantom v rows rows' maxCards nCvrs mc ph hreal hprep s (hvalid s hs)
    exact ⟨e, he⟩
  obtain ⟨es, hes⟩ := mapE_of_forall (entry v rows') sample hall
  have hes' : entries v rows' sample = .ok es := hes
  refine ⟨_, _, _, es, by unfold sampleFromManifest; rw [hes'], hes', ?_⟩
  congr 1
  apply List.filter_congr
  intro e he
  obtain ⟨s, hs, hse⟩ := mapE_mem _ _ _ hes e he
  obtain ⟨e', he', hph⟩ := entry_phantom v rows rows' maxCards nCvrs mc ph hreal hprep s (hvalid s hs)
  rw [hse] at he'
  simp only [Except.ok.injEq] at he'
  subst he'
  rw [entry_s v rows' s e hse]
  exact hph

/-! ### C17, fifth part: looking cards up from sampled CVRs -/

/-- inverse of `splitOnC`: Python `c.join(parts)` -/
def joinC (c : Char) : List (List Char) → List Char
  | [] => []
  | [x] => x
  | x :: y :: r => x ++ c :: joinC c (y :: r)

theorem splitOnC_ne_nil (c : Char) (l : List Char) : splitOnC c l ≠ [] := by
  cases l with
  | nil => simp [splitOnC]
  | cons x xs =>
    simp only [splitOnC]
    split
    · simp
    · split <;> simp

theorem joinC_splitOnC (c : Char) (l : List Char) : joinC c (splitOnC c l) = l := by
  induction l with
  | nil => simp [splitOnC, joinC]
  | cons x xs ih =>
    simp only [splitOnC]
    cases hsp : splitOnC c xs with
    | nil => exact absurd hsp (splitOnC_ne_nil c xs)
    | cons h t =>
      rw [hsp] at ih
      split
      · rename_i hx
        subst hx
        simp only [joinC, List.nil_append, ih]
      · cases t with
        | nil => simp only [joinC] at ih ⊢; rw [ih]
        | cons y r => simp only [joinC, List.cons_append] at ih ⊢; rw [ih]

theorem split3_join (c : Char) (s a b d : String) (h : splitOn c s = [a, b, d]) :
    s = a ++ String.singleton c ++ b ++ String.singleton c ++ d := by
  unfold splitOn at h
  have hj := joinC_splitOnC c s.toList
  cases hsp : splitOnC c s.toList with
  | nil => rw [hsp] at h; simp at h
  | cons a' t =>
    cases t with
    | nil => rw [hsp] at h; simp at h
    | cons b' t =>
      cases t with
      | nil => rw [hsp] at h; simp at h
      | cons d' t =>
        cases t with
        | cons _ _ => rw [hsp] at h; simp at h
        | nil =>
          rw [hsp] at h hj
          simp only [List.map_cons, List.map_nil, List.cons.injEq, and_true] at h
          obtain ⟨rfl, rfl, rfl⟩ := h
          apply String.toList_inj.1
          simp only [String.toList_append, String.toList_ofList, String.toList_singleton]
          rw [← hj]
          simp [joinC]

theorem split2_join (c : Char) (s a b : String) (h : splitOn c s = [a, b]) :
    s = a ++ String.singleton c ++ b := by
  unfold splitOn at h
  have hj := joinC_splitOnC c s.toList
  cases hsp : splitOnC c s.toList with
  | nil => rw [hsp] at h; simp at h
  | cons a' t =>
    cases t with
    | nil => rw [hsp] at h; simp at h
    | cons b' t =>
      cases t with
      | cons _ _ => rw [hsp] at h; simp at h
      | nil =>
        rw [hsp] at h hj
        simp only [List.map_cons, List.map_nil, List.cons.injEq, and_true] at h
        obtain ⟨rfl, rfl⟩ := h
        apply String.toList_inj.1
        simp only [String.toList_append, String.toList_ofList, String.toList_singleton]
        rw [← hj]
        simp [joinC]

/-- what one iteration of `sample_from_cvrs` yields: the CVR at that index, and a card whose
identifier is the CVR's (for a Hart phantom: provided the id's first `-`-field is the word `phantom`,
as in the ids `phantom-1-k` that the audit creates) -/
theorem centry_spec (v : Vendor) (cvrs : List Cvr) (rows : List Row) (s : Nat) (e : CEntry)
    (h : centry v cvrs rows s = .ok e) :
    cvrs[s]? = some e.cvr ∧ e.s = s ∧ e.cardId ∈ e.cells ∧
    ((v = .dominion ∨ e.cvr.phantom = false ∨ (splitOn '-' e.cvr.id).head? = some "phantom") →
      e.cardId = e.cvr.id) := by
  cases v with
  | dominion =>
    simp only [centry, centryDominion] at h
    split at h
    · cases h
    · rename_i c hc
      split at h
      · rename_i tab batch num hsp
        have hid := split3_join '-' c.id tab batch num hsp
        split at h
        · split at h
          · cases h
          · simp only [Except.ok.injEq] at h
            subst h
            exact ⟨hc, rfl, by simp, fun _ => hid.symm⟩
        · simp only [Except.ok.injEq] at h
          subst h
          exact ⟨hc, rfl, by simp, fun _ => hid.symm⟩
      · cases h
  | hart =>
    simp only [centry, centryHart] at h
    split at h
    · cases h
    · rename_i c hc
      split at h
      · rename_i hph
        split at h
        · rename_i batch num hsp
          have hid := split2_join '_' c.id batch num hsp
          split at h
          · cases h
          · simp only [Except.ok.injEq] at h
            subst h
            exact ⟨hc, rfl, by simp, fun _ => hid.symm⟩
        · cases h
      · rename_i hph
        split at h
        · rename_i word batch num hsp
          have hid := split3_join '-' c.id word batch num hsp
          simp only [Except.ok.injEq] at h
          subst h
          refine ⟨hc, rfl, by simp, ?_⟩
          intro hor
          rcases hor with hv | hp | hw
          · cases hv
          · simp only at hp; simp [hp] at hph
          · simp only at hw
            rw [hsp] at hw
            simp only [List.head?_cons, Option.some.injEq] at hw
            subst hw
            exact hid.symm
        · cases h

/-- **from_cvrs_order.** When `sample_from_cvrs` returns: `cvr_sample` is `cvr_list[s]` for the drawn
`s`, in draw order; the phantom manual records are the drawn phantom CVRs (same ids, draw order);
`cards` lists one card per draw (re-ordered by the final sort) whose identifier is the drawn CVR's id;
and `sample_order[that id]` holds the draw index and `serial = s + 1` (for a card not drawn again later). -/
theorem from_cvrs_order (v : Vendor) (cvrs : List Cvr) (rows : List Row) (sample : List Nat)
    (cards : List CEntry) (so : List (String × Order)) (cs : List Cvr) (ph : List String)
    (h : sampleFromCvrs v cvrs rows sample = .ok (cards, so, cs, ph)) :
    cs.length = sample.length ∧
    (∀ i (h1 : i < sample.length) (h2 : i < cs.length), cvrs[sample[i]]? = some cs[i]) ∧
    ph = (cs.filter (·.phantom)).map (·.id) ∧
    ∃ es : List CEntry, cards.Perm es ∧ es.map (·.cvr) = cs ∧
      (∀ e ∈ es, e.cardId ∈ e.cells ∧
        ((v = .dominion ∨ e.cvr.phantom = false ∨ (splitOn '-' e.cvr.id).head? = some "phantom") →
          e.cardId = e.cvr.id)) ∧
      (∀ i (h1 : i < sample.length) (h2 : i < es.length),
        es[i].cardId ∉ (es.drop (i + 1)).map (·.cardId) →
          dictGet so es[i].cardId = some { selectionOrder := i, serial := sample[i] + 1 }) := by
  unfold sampleFromCvrs at h
  split at h
  · cases h
  · rename_i es hes
    simp only [Except.ok.injEq, Prod.mk.injEq] at h
    obtain ⟨rfl, rfl, rfl, rfl⟩ := h
    obtain ⟨hl, hi⟩ := mapE_ok _ _ _ hes
    refine ⟨by simpa using hl, ?_, ?_, es, List.mergeSort_perm _ _, rfl, ?_, ?_⟩
    · intro i h1 h2
      have h2' : i < es.length := by simpa using h2
      have := (centry_spec v cvrs rows _ _ (hi i h1 h2')).1
      simpa using this
    · simp [List.filter_map, Function.comp_def]
    · intro e he
      obtain ⟨s, _, hse⟩ := mapE_mem _ _ _ hes e he
      have := centry_spec v cvrs rows s e hse
      exact ⟨this.2.2.1, this.2.2.2⟩
    · intro i h1 h2 hnot
      have hs : es[i].s = sample[i] := (centry_spec v cvrs rows _ _ (hi i h1 h2)).2.1
      have hj : i < (es.map (fun e => (e.cardId, e.s))).length := by simpa using h2
      have hconv : ((es.map (fun e => (e.cardId, e.s))).drop (i + 1)).map (·.1)
          = (es.drop (i + 1)).map (·.cardId) := by
        simp [List.map_drop, List.map_map, Function.comp_def]
      have := orderLoop_at (es.map (fun e => (e.cardId, e.s))) [] 0 i hj
        (by rw [hconv]; simpa using hnot)
      simpa [hs] using this

/-! ### Card identifiers of distinct cards are distinct (so `sample_order` never merges two cards) -/

/-- distinct batches never share a card identifier — true e.g. of distinct hyphen-free
tabulator/batch labels; this is a property of the jurisdiction's labels, not of the code -/
def LabelsSeparate (rows : List Row) : Prop :=
  ∀ i j (hi : i < rows.length) (hj : j < rows.length) (p q : Int),
    cardIdOf rows[i].tab rows[i].batch p = cardIdOf rows[j].tab rows[j].batch q → i = j

theorem cardIdOf_inj_pos (tab batch : String) (p q : Int)
    (h : cardIdOf tab batch p = cardIdOf tab batch q) : p = q := by
  unfold cardIdOf at h
  have h' := String.toList_inj.2 h
  simp only [String.toList_append] at h'
  have h2 := List.append_cancel_left h'
  have h3 : toString p = toString q := String.toList_inj.1 h2
  exact Int.repr_injective h3

theorem entry_of_lookup (v : Vendor) (rows : List Row) (s b : Nat) (pos : Int) (hb : b < rows.length)
    (h : lookupV v (cumCards (rows.map (·.size))) s = .ok (b, pos)) :
    entry v rows s = .ok { extra := rows[b].extra, tab := rows[b].tab, batch := rows[b].batch,
                           cardInBatch := pos, cardId := cardIdOf rows[b].tab rows[b].batch pos, s := s } := by
  unfold entry
  rw [h]
  simp [List.getElem?_eq_getElem hb]

/-- two valid sample numbers whose cards get the same identifier are the same number -/
theorem entry_ids_injective (v : Vendor) (rows : List Row) (hsep : LabelsSeparate rows) (s s' : Nat)
    (hs : validNum v (rows.map (·.size)).sum s = true) (hs' : validNum v (rows.map (·.size)).sum s' = true)
    (e e' : Entry) (he : entry v rows s = .ok e) (he' : entry v rows s' = .ok e')
    (hid : e.cardId = e'.cardId) : s = s' := by
  obtain ⟨b, hb, hl, hle, _, _⟩ := lookupV_spec v _ s hs
  obtain ⟨b', hb', hl', hle', _, _⟩ := lookupV_spec v _ s' hs'
  have hbl : b < rows.length := by simpa using hb
  have hbl' : b' < rows.length := by simpa using hb'
  rw [entry_of_lookup v rows s b _ hbl hl] at he
  rw [entry_of_lookup v rows s' b' _ hbl' hl'] at he'
  simp only [Except.ok.injEq] at he he'
  subst he; subst he'
  simp only at hid
  have hbb := hsep b b' hbl hbl' _ _ hid
  subst hbb
  have := cardIdOf_inj_pos _ _ _ _ hid
  omega

theorem cardIds_nodup (v : Vendor) (rows : List Row) (hsep : LabelsSeparate rows) (sample : List Nat)
    (hnd : sample.Nodup) (hvalid : ∀ s ∈ sample, validNum v (rows.map (·.size)).sum s = true)
    (es : List Entry) (hes : entries v rows sample = .ok es) : (es.map (·.cardId)).Nodup := by
  unfold entries at hes
  induction sample generalizing es with
  | nil => simp only [mapE, Except.ok.injEq] at hes; subst hes; simp
  | cons a as ih =>
    simp only [mapE] at hes
    split at hes
    · cases hes
    · rename_i e hea
      split at hes
      · cases hes
      · rename_i es' hes'
        simp only [Except.ok.injEq] at hes
        subst hes
        have hnd' := List.nodup_cons.1 hnd
        simp only [List.map_cons, List.nodup_cons]
        refine ⟨?_, ih hnd'.2 (fun s hs => hvalid s (by simp [hs])) es' hes'⟩
        intro hmem
        obtain ⟨e', he'mem, hid⟩ := List.mem_map.1 hmem
        obtain ⟨a', ha', hea'⟩ := mapE_mem _ _ _ hes' e' he'mem
        have := entry_ids_injective v rows hsep a a' (hvalid a (by simp)) (hvalid a' (by simp [ha']))
          e e' hea hea' hid.symm
        subst this
        exact hnd'.1 ha'

/-! ### Non-vacuity: concrete instances (tests of the statements, not of the theorems) -/

-- a manifest with empty batches first, in the middle and last: sizes 0,2,0,3,0 (T = 5)
example : (List.range 7).map (fun s => lookupLeft (cumCards [0, 2, 0, 3, 0]) s) =
    [.ok (4, -5), .ok (1, 1), .ok (1, 2), .ok (3, 1), .ok (3, 2), .ok (3, 3), .error .IndexError] := by rfl
example : (List.range 6).map (fun s => lookupRight (cumCards [0, 2, 0, 3, 0]) s) =
    [.ok (1, 0), .ok (1, 1), .ok (3, 0), .ok (3, 1), .ok (3, 2), .error .IndexError] := by rfl
-- hypotheses of the bijection theorems are satisfiable: s = 3 lies in 1..5 resp. 0..4
example : 1 ≤ 3 ∧ 3 ≤ [0, 2, 0, 3, 0].sum ∧ 3 < [0, 2, 0, 3, 0].length ∧ 1 ≤ 2 ∧ 2 ≤ sizeOf [0, 2, 0, 3, 0] 3 := by decide
-- prep: phantom batch appended / exact / refused (too many cards) / refused (too many CVRs)
example : prepManifest [2, 0, 3] 7 4 = .ok ([2, 0, 3, 2], 5, 2) := by rfl
example : prepManifest [2, 0, 3] 5 5 = .ok ([2, 0, 3], 5, 0) := by rfl
example : prepManifest [2, 0, 3] 4 0 = .error .AssertionError := by rfl
example : prepManifest [2, 0, 3] 9 6 = .error .AssertionError := by rfl

def exRows : List Row :=
  [{ tab := "17", batch := "1", size := 2, extra := ["1", "1"] },
   { tab := "18", batch := "2", size := 0, extra := ["2", "2"] },
   { tab := "19", batch := "3", size := 3, extra := ["3", "3"] }]

-- hypotheses of `phantom_exact`: real rows not named phantom, prep succeeds, a valid sample
example : (∀ r ∈ exRows, r.tab ≠ "phantom") := by decide
example : ∃ rows', prepRows .dominion exRows 7 4 = .ok (rows', 5, 2) ∧ rows'.length = 4 := ⟨_, rfl, rfl⟩
example : ∀ s ∈ [7, 3, 1, 6], validNum .dominion 7 s = true := by decide

-- hypothesis of `from_cvrs_order` / `selection_order`: the functions return on ordinary input
example : ∃ r, sampleFromCvrs .dominion
    [{ id := "17-1-1", cardInBatch := some 1, phantom := false }, { id := "phantom-1-1", cardInBatch := none, phantom := true }]
    exRows [1, 0] = .ok r := ⟨_, rfl⟩
example : ∃ r, sampleFromCvrs .hart
    [{ id := "3_1", cardInBatch := none, phantom := false }, { id := "phantom-1-1", cardInBatch := none, phantom := true }]
    exRows [1, 0] = .ok r := ⟨_, rfl⟩
example : (splitOn '-' "phantom-1-7").head? = some "phantom" := by decide

theorem cardIdOf_ne_of_prefix (t b t' b' : String) (p q : Int)
    (h : ∀ x y : List Char, (t ++ "-" ++ b ++ "-").toList ++ x ≠ (t' ++ "-" ++ b' ++ "-").toList ++ y) :
    cardIdOf t b p ≠ cardIdOf t' b' q := by
  intro he
  unfold cardIdOf at he
  have h' := String.toList_inj.2 he
  rw [String.toList_append, String.toList_append (s := t' ++ "-" ++ b' ++ "-")] at h'
  exact h _ _ h'

-- hypothesis of `cardIds_nodup` / `entry_ids_injective`: the labels of `exRows` separate the batches
example : LabelsSeparate exRows := by
  intro i j hi hj p q h
  have hi' : i < 3 := hi
  have hj' : j < 3 := hj
  match i, j, hi', hj' with
  | 0, 0, _, _ => rfl
  | 1, 1, _, _ => rfl
  | 2, 2, _, _ => rfl
  | 0, 1, _, _ => exact absurd h (cardIdOf_ne_of_prefix _ _ _ _ _ _ (by intro x y; simp [exRows]))
  | 0, 2, _, _ => exact absurd h (cardIdOf_ne_of_prefix _ _ _ _ _ _ (by intro x y; simp [exRows]))
  | 1, 0, _, _ => exact absurd h (cardIdOf_ne_of_prefix _ _ _ _ _ _ (by intro x y; simp [exRows]))
  | 1, 2, _, _ => exact absurd h (cardIdOf_ne_of_prefix _ _ _ _ _ _ (by intro x y; simp [exRows]))
  | 2, 0, _, _ => exact absurd h (cardIdOf_ne_of_prefix _ _ _ _ _ _ (by intro x y; simp [exRows]))
  | 2, 1, _, _ => exact absurd h (cardIdOf_ne_of_prefix _ _ _ _ _ _ (by intro x y; simp [exRows]))

end Shangrla.C17
