/-
  C12 (ALPHA and betting martingale tests) — the reported history equals `min(1, 1/T_j)` with `T_j` the
  product that defines the method; `p = 0` once the total exceeds `N t`; `p = 1` where `mu_j > u`; the
  ALPHA and betting forms agree when `eta_j = mu_j (1 + lambda_j (u - mu_j))`; the two conversion
  functions are mutual inverses.  Theorems about the literal model (`Shangrla.NM`).
-/
import Shangrla.Lemmas.NMMart
import Shangrla.Lemmas.PHist

namespace Shangrla.C12
open Shangrla Shangrla.NM XR

/-! ### the algebraic core -/

/-- **ALPHA = betting, one factor.**  With `eta = mu (1 + lambda (u - mu))` the ALPHA factor
`[x eta/mu + (u-x)(u-eta)/(u-mu)]/u` is the betting factor `1 + lambda (x - mu)`. -/
theorem factor_alpha_eq_betting (u m a l : Rat) (hm : m ≠ 0) (hum : u - m ≠ 0) (hu : u ≠ 0) :
    alphaFactorQ u m a (m * (1 + l * (u - m))) = 1 + l * (a - m) := by
  unfold alphaFactorQ
  field_simp
  ring

/-- `eta_to_lam (lam_to_eta lambda mu) mu = lambda` for `mu ∉ {0, u}` -/
theorem eta_lam_inverse (u l m : Rat) (hm : m ≠ 0) (hum : u - m ≠ 0) :
    etaToLam u (lamToEta u (.fin l) (.fin m)) (.fin m) = .fin l := by
  unfold etaToLam lamToEta
  simp only [XR.one_def, XR.fin_sub, XR.fin_mul, XR.fin_add]
  rw [XR.fin_div _ _ hm, XR.fin_sub, XR.fin_div _ _ hum]
  congr 1
  field_simp
  ring

/-- `lam_to_eta (eta_to_lam eta mu) mu = eta` for `mu ∉ {0, u}` -/
theorem lam_eta_inverse (u e m : Rat) (hm : m ≠ 0) (hum : u - m ≠ 0) :
    lamToEta u (etaToLam u (.fin e) (.fin m)) (.fin m) = .fin e := by
  unfold etaToLam lamToEta
  simp only [XR.one_def, XR.fin_sub]
  rw [XR.fin_div _ _ hm, XR.fin_sub, XR.fin_div _ _ hum]
  simp only [XR.fin_mul, XR.fin_add]
  congr 1
  field_simp
  ring

/-! ### the defining products -/

/-- the walk over rationals: `T_j = prod_{i<=j} facQ(m_i, x_i, c_i)` -/
def walkQ (facQ : Rat → Rat → Rat → Rat) (N : Option Nat) (t : Rat) :
    Rat → Nat → Rat → List (Rat × Rat) → List (Rat × Rat)
  | _, _, _, [] => []
  | S, j, T, (a, c) :: rest =>
    let m := mu N t S j
    let T' := T * facQ m a c
    (m, T') :: walkQ facQ N t (S + a) (j + 1) T' rest

/-- ALPHA: the factor with the estimate truncated to `[m, u]` (the repaired `alpha_mart`) -/
def alphaQ (u m a q : Rat) : Rat := alphaFactorQ u m a (min u (max q m))
/-- betting: `1 + lambda (x - m)` -/
def betQ (m a l : Rat) : Rat := 1 + l * (a - m)

/-- entry-wise relation between the code's running product and the defining product -/
def Agree (u : Rat) (p : Rat × XR) (pq : Rat × Rat) : Prop :=
  p.1 = pq.1 ∧ (0 < p.1 → p.1 < u → p.2 = .fin pq.2)

theorem walk_agrees (fac : Rat → Rat → XR → XR) (facQ : Rat → Rat → Rat → Rat) (u : Rat)
    (N : Option Nat) (t : Rat)
    (hfac : ∀ m a q, 0 < m → m < u → fac m a (.fin q) = .fin (facQ m a q)) :
    ∀ (l : List (Rat × Rat)) (S : Rat) (j : Nat) (T : XR) (Tq : Rat),
      (∀ p ∈ l, 0 ≤ p.1 ∧ p.1 ≤ u) → Room N j l.length →
      (Zst N t u S j → T = .fin Tq) →
      List.Forall₂ (Agree u)
        (walk fac N t S j T (l.map (fun p => (p.1, XR.fin p.2))))
        (walkQ facQ N t S j Tq l) := by
  intro l
  induction l with
  | nil => intro S j T Tq _ _ _; simp [walk, walkQ]
  | cons hd rest ih =>
    intro S j T Tq hl hroom hT
    obtain ⟨a, c⟩ := hd
    have ha := hl (a, c) (by simp)
    have hroom1 : Room N j 1 := by
      cases N with
      | none => trivial
      | some n => simp only [Room, List.length_cons] at hroom ⊢; omega
    have hstep : Zst N t u S j → T * fac (mu N t S j) a (.fin c) = .fin (Tq * facQ (mu N t S j) a c) := by
      intro hz
      obtain ⟨hm0, hmu⟩ := (Zst_iff_mu hroom1).1 hz
      rw [hT hz, hfac _ _ _ hm0 hmu, XR.fin_mul]
    simp only [List.map_cons, walk, walkQ]
    refine List.Forall₂.cons ⟨rfl, ?_⟩ ?_
    · intro hm0 hmu
      exact hstep ((Zst_iff_mu hroom1).2 ⟨hm0, hmu⟩)
    · apply ih
      · intro p hp; exact hl p (by simp [hp])
      · cases N with
        | none => trivial
        | some n => simp only [Room, List.length_cons] at hroom ⊢; omega
      · intro hz
        exact hstep (Zst_step ha.1 ha.2 hz)

theorem alpha_fac_eq (u : Rat) : ∀ m a q, 0 < m → m < u →
    alphaFactorX u m a (.fin q) = .fin (alphaQ u m a q) :=
  fun m a q hm0 hmu => alphaFactorX_fin u m a q hm0 hmu

theorem bet_fac_eq (u : Rat) : ∀ m a l, 0 < m → m < u →
    betFactorX m a (.fin l) = .fin (betQ m a l) := by
  intro m a l _ _
  simp [betFactorX, betQ, XR.fin_mul, XR.fin_add]

/-- **`alpha_mart` computes the defining product.**  For every sample in `[0,u]` no longer than the
population and every finite estimates `q_i`: wherever the null conditional mean is strictly inside
`(0,u)`, the running product computed by the code (before masking) is exactly
`prod_{i<=j} [x_i eta_i/mu_i + (u-x_i)(u-eta_i)/(u-mu_i)]/u` with `eta_i = min(u, max(q_i, mu_i))`
and `mu_i = (N t - sum_{k<i} x_k)/(N-i+1)` (finite `N`) or `t`. -/
theorem alpha_terms_def (cfg : Cfg) (x : List Rat) (qs : List Rat) (hlen : qs.length = x.length)
    (hN : ∀ n, cfg.N = some n → x.length ≤ n) (hx : ∀ a ∈ x, 0 ≤ a ∧ a ≤ cfg.u) :
    List.Forall₂ (Agree cfg.u)
      (walk (alphaFactorX cfg.u) cfg.N cfg.t 0 1 1 (x.zip (qs.map XR.fin)))
      (walkQ (alphaQ cfg.u) cfg.N cfg.t 0 1 1 (x.zip qs)) := by
  have hmap : x.zip (qs.map XR.fin) = (x.zip qs).map (fun p => (p.1, XR.fin p.2)) := by
    rw [List.zip_map_right]; rfl
  rw [hmap]
  apply walk_agrees (alphaFactorX cfg.u) (alphaQ cfg.u) cfg.u cfg.N cfg.t (alpha_fac_eq cfg.u)
  · intro p hp; exact hx p.1 (List.of_mem_zip hp).1
  · cases hNc : cfg.N with
    | none => trivial
    | some n =>
      have := hN n hNc
      simp only [Room, List.length_zip, hlen, Nat.min_self]; omega
  · intro _; rfl

/-- **`betting_mart` computes the defining product** `prod_{i<=j} [1 + lambda_i (x_i - mu_i)]`. -/
theorem betting_terms_def (cfg : Cfg) (x : List Rat) (ls : List Rat) (hlen : ls.length = x.length)
    (hN : ∀ n, cfg.N = some n → x.length ≤ n) (hx : ∀ a ∈ x, 0 ≤ a ∧ a ≤ cfg.u) :
    List.Forall₂ (Agree cfg.u)
      (walk betFactorX cfg.N cfg.t 0 1 1 (x.zip (ls.map XR.fin)))
      (walkQ betQ cfg.N cfg.t 0 1 1 (x.zip ls)) := by
  have hmap : x.zip (ls.map XR.fin) = (x.zip ls).map (fun p => (p.1, XR.fin p.2)) := by
    rw [List.zip_map_right]; rfl
  rw [hmap]
  apply walk_agrees betFactorX betQ cfg.u cfg.N cfg.t (bet_fac_eq cfg.u)
  · intro p hp; exact hx p.1 (List.of_mem_zip hp).1
  · cases hNc : cfg.N with
    | none => trivial
    | some n =>
      have := hN n hNc
      simp only [Room, List.length_zip, hlen, Nat.min_self]; omega
  · intro _; rfl

/-! ### ALPHA and betting forms agree -/

/-- with `eta = mu (1 + lambda (u - mu))`, `0 <= lambda <= 1/mu` and `0 < mu < u` the truncation of
`alpha_mart` is inactive and the ALPHA factor is the betting factor -/
theorem alphaQ_lamToEta (u m a l : Rat) (hm0 : 0 < m) (hmu : m < u) (hl0 : 0 ≤ l) (hl1 : l * m ≤ 1) :
    alphaQ u m a (m * (1 + l * (u - m))) = betQ m a l := by
  unfold alphaQ betQ
  have hum : 0 < u - m := by linarith
  have h1 : m ≤ m * (1 + l * (u - m)) := by nlinarith [mul_nonneg hl0 hum.le]
  have h2 : m * (1 + l * (u - m)) ≤ u := by nlinarith
  rw [max_eq_left h1, min_eq_right h2]
  exact factor_alpha_eq_betting u m a l (ne_of_gt hm0) (ne_of_gt hum) (by linarith)

/-- the walk of ALPHA with the estimates `lam_to_eta(lambda_i, mu_i)` -/
def alphaOfBetQ (u m a l : Rat) : Rat := alphaQ u m a (m * (1 + l * (u - m)))

/-- **ALPHA and betting give identical defining products** (hence identical p-values) at every index
whose null mean is strictly inside `(0,u)`, whenever `eta_i = mu_i (1 + lambda_i (u - mu_i))` with
`0 <= lambda_i <= 1/u` (so that `lambda_i <= 1/mu_i` wherever `mu_i < u`). -/
theorem alpha_eq_betting_products (u : Rat) (N : Option Nat) (t : Rat) :
    ∀ (l : List (Rat × Rat)) (S : Rat) (j : Nat) (T T' : Rat),
      (∀ p ∈ l, 0 ≤ p.1 ∧ p.1 ≤ u ∧ 0 ≤ p.2 ∧ p.2 * u ≤ 1) →
      Room N j l.length → (Zst N t u S j → T = T') →
      List.Forall₂ (fun p q : Rat × Rat => p.1 = q.1 ∧ (0 < p.1 → p.1 < u → p.2 = q.2))
        (walkQ (alphaOfBetQ u) N t S j T l) (walkQ betQ N t S j T' l) := by
  intro l
  induction l with
  | nil => intro S j T T' _ _ _; simp [walkQ]
  | cons hd rest ih =>
    intro S j T T' hl hroom hT
    obtain ⟨a, c⟩ := hd
    obtain ⟨ha0, hau, hc0, hcu⟩ := hl (a, c) (by simp)
    have hroom1 : Room N j 1 := by
      cases N with
      | none => trivial
      | some n => simp only [Room, List.length_cons] at hroom ⊢; omega
    have hstep : Zst N t u S j →
        T * alphaOfBetQ u (mu N t S j) a c = T' * betQ (mu N t S j) a c := by
      intro hz
      obtain ⟨hm0, hmu⟩ := (Zst_iff_mu hroom1).1 hz
      rw [hT hz]
      congr 1
      unfold alphaOfBetQ
      apply alphaQ_lamToEta u _ a c hm0 hmu hc0
      nlinarith [mul_nonneg hc0 (by linarith : (0:Rat) ≤ u - mu N t S j)]
    simp only [walkQ]
    refine List.Forall₂.cons ⟨rfl, ?_⟩ ?_
    · intro hm0 hmu
      exact hstep ((Zst_iff_mu hroom1).2 ⟨hm0, hmu⟩)
    · apply ih
      · intro p hp; exact hl p (by simp [hp])
      · cases N with
        | none => trivial
        | some n => simp only [Room, List.length_cons] at hroom ⊢; omega
      · intro hz; exact hstep (Zst_step ha0 hau hz)

/-! ### from the running product to the reported p-value -/

/-- a null mean is *regular* when none of the boundary conventions of the code applies to it -/
def Regular (u atol rtol m : Rat) : Prop :=
  0 < m ∧ m < u ∧ XR.isclose (0 : XR) (.fin m) (1 / 100000) atol = false ∧
    XR.isclose (.fin u) (.fin m) rtol atol = false

/-- **history entry at a regular index**: `min(1, 1/T_j)`, provided `T_j` is not within the code's
`isclose(0, ·)` band (where the code reports 1: "martingale effectively vanishes") -/
theorem hist_regular (u atol rtol m q : Rat) (hreg : Regular u atol rtol m) (hq : 0 < q)
    (hband : XR.isclose (0 : XR) (.fin q) (1 / 100000) atol = false) :
    pOf (maskTerm u atol rtol m (.fin q)) = .fin (min 1 (1 / q)) := by
  obtain ⟨hm0, hmu, h0, hu⟩ := hreg
  unfold maskTerm maskTermX
  simp only [XR.lt_fin, XR.zero_def, decide_eq_true_eq]
  rw [if_neg (by linarith : ¬ m < 0), if_neg (by linarith : ¬ u < m)]
  simp only [XR.zero_def] at h0 hband
  rw [h0, hu]
  simp only [Bool.false_eq_true, ↓reduceIte]
  rw [hband]
  simp only [Bool.false_eq_true, ↓reduceIte]
  exact pOf_pos hq

/-- where the running product is within the `isclose(0, ·)` band the code reports p-value 1 -/
theorem hist_vanished (u atol rtol m q : Rat) (hreg : Regular u atol rtol m)
    (hband : XR.isclose (0 : XR) (.fin q) (1 / 100000) atol = true) :
    pOf (maskTerm u atol rtol m (.fin q)) = .fin 1 := by
  obtain ⟨hm0, hmu, h0, hu⟩ := hreg
  unfold maskTerm maskTermX
  simp only [XR.lt_fin, XR.zero_def, decide_eq_true_eq]
  rw [if_neg (by linarith : ¬ m < 0), if_neg (by linarith : ¬ u < m)]
  simp only [XR.zero_def] at h0 hband
  rw [h0, hu]
  simp only [Bool.false_eq_true, ↓reduceIte]
  rw [hband]
  simp only [↓reduceIte]
  have : pOf (.fin 1) = .fin (min 1 (1 / 1)) := pOf_pos (by norm_num)
  rw [XR.one_def, this]; norm_num

/-- **`p = 1` where `mu_j > u`** (whatever the running product is), for `0 <= atol < 1/2` -/
theorem hist_above_u (u atol rtol m : Rat) (T : XR) (hmu : u < m) (hu : 0 ≤ u) (hat : 0 ≤ atol)
    (hat2 : atol < 1 / 2) : pOf (maskTerm u atol rtol m T) = .fin 1 := by
  have hone : ¬ XR.isclose (.fin 0) (.fin 1) (1 / 100000) atol = true := by
    simp only [XR.isclose, zero_sub, decide_eq_true_eq, not_le]
    norm_num
    linarith
  have hzero : XR.isclose (.fin 0) (.fin 0) (1 / 100000) atol = true := isclose_self_zero _ _ hat
  have hp1 : pOf (.fin 1) = .fin 1 := by
    have : pOf (.fin 1) = .fin (min 1 (1 / 1)) := pOf_pos (by norm_num)
    rw [this]; norm_num
  unfold maskTerm maskTermX
  simp only [XR.lt_fin, XR.zero_def, XR.one_def, decide_eq_true_eq]
  rw [if_neg (by linarith : ¬ m < 0), if_pos hmu]
  by_cases h0 : XR.isclose (.fin 0) (.fin m) (1 / 100000) atol = true
  · rw [if_pos h0]
    by_cases h1 : XR.isclose (.fin u) (.fin m) rtol atol = true
    · rw [if_pos h1, if_neg hone]; exact hp1
    · rw [if_neg h1, if_neg hone]; exact hp1
  · rw [if_neg h0]
    by_cases h1 : XR.isclose (.fin u) (.fin m) rtol atol = true
    · rw [if_pos h1, if_neg hone]; exact hp1
    · rw [if_neg h1, if_pos hzero]; exact hp1

/-- **`p = 0` where `mu_j < 0`** -/
theorem hist_below_zero (u atol rtol m : Rat) (T : XR) (hm : m < 0) :
    pOf (maskTerm u atol rtol m T) = .fin 0 := by
  unfold maskTerm maskTermX
  simp only [XR.lt_fin, XR.zero_def, decide_eq_true_eq]
  rw [if_pos hm]
  exact pOf_pinf

/-- **`p = 0` once the observed total exceeds `N t`**: the last history entry is 0, and so is the
overall p-value when the sample is in random order. -/
theorem clamp_total_exceeds (n : Nat) (t Stot : Rat) (L : List XR) (h : (n : Rat) * t < Stot) :
    (pAndHist true (clampLast (some n) t Stot L)).2.getLast? = some (.fin 0) := by
  unfold clampLast
  simp only [h, ↓reduceIte, pAndHist, List.map_append, List.map_cons, List.map_nil]
  rw [List.getLast?_append]
  simp only [List.getLast?_singleton, Option.some_or]
  congr 1

end Shangrla.C12
