/-
  C19 — Dominion import reflects counted marks, adjudication and grouping faithfully.

  Theorems are about `Shangrla.Dominion.readCvrs` and its parts (`recOf`, `sessionVotes`, `contestVotes`,
  `recordIdStr`), the literal model of `Dominion.read_cvrs` that the driver executes.  Core Lean only.

    one_record_per_session, record_identity, included_iff, readCvrs_ok,
    recordIdStr_plain, recordIdStr_obfuscated                              records, ids, pooling
    min_positive_rank (guard: no negative rank; `negative_rank_witness`),
    storedRank_spec (unguarded form)                                       value rule
    marks_perm_invariant, marks_perm_invariant_lookup (no guard needed)    order of the marks
    uncounted_ignored_iff_enforced, import_ignores_uncounted_of_enforced,
    import_ignores_isVote_of_not_enforced                                  uncounted marks
    adjudication_wins, adjudication_order_irrelevant,
    original_only_of_not_current, original_kept_of_no_modified             adjudication
-/
import Shangrla.Model.Dominion

namespace Shangrla.C19
open Shangrla.Dominion

/-! ### insertion-ordered dictionaries -/

section alist
variable {β : Type}

theorem lookup_cons_ite (a k : String) (b : β) (t : List (String × β)) :
    List.lookup a ((k, b) :: t) = if a = k then some b else List.lookup a t := by
  rw [List.lookup_cons]
  by_cases h : a = k
  · simp [h]
  · have : (a == k) = false := by simp [h]
    simp [this, h]

theorem lookup_aset (l : List (String × β)) (k k' : String) (v : β) :
    (aset l k v).lookup k' = if k' = k then some v else l.lookup k' := by
  induction l with
  | nil => simp [aset, lookup_cons_ite]
  | cons p t ih =>
    obtain ⟨k₁, v₁⟩ := p
    unfold aset
    by_cases h1 : k₁ = k
    · subst h1
      simp only [if_true, lookup_cons_ite]
      by_cases h : k' = k₁ <;> simp [h]
    · simp only [h1, if_false, lookup_cons_ite, ih]
      by_cases h : k' = k₁
      · have : k' ≠ k := fun e => h1 (h ▸ e)
        simp [h]
        intro e; exact absurd e h1
      · simp [h]

theorem lookup_aset_self (l : List (String × β)) (k : String) (v : β) :
    (aset l k v).lookup k = some v := by simp [lookup_aset]

theorem lookup_aset_ne (l : List (String × β)) (k k' : String) (v : β) (h : k' ≠ k) :
    (aset l k v).lookup k' = l.lookup k' := by simp [lookup_aset, h]

/-- the keys of a dictionary, in insertion order -/
def keys (l : List (String × β)) : List String := l.map Prod.fst

theorem lookup_isSome_iff_mem_keys (l : List (String × β)) (k : String) :
    (l.lookup k).isSome = true ↔ k ∈ keys l := by
  induction l with
  | nil => simp [keys]
  | cons p t ih =>
    obtain ⟨k₁, v₁⟩ := p
    rw [lookup_cons_ite]
    by_cases h : k = k₁
    · simp [h, keys]
    · simp only [h, if_false, ih]; simp [keys, h]

theorem lookup_eq_none_iff (l : List (String × β)) (k : String) :
    l.lookup k = none ↔ k ∉ keys l := by
  rw [← lookup_isSome_iff_mem_keys]
  cases l.lookup k <;> simp

theorem keys_aset (l : List (String × β)) (k : String) (v : β) :
    keys (aset l k v) = if k ∈ keys l then keys l else keys l ++ [k] := by
  induction l with
  | nil => simp [aset, keys]
  | cons p t ih =>
    obtain ⟨k₁, v₁⟩ := p
    unfold aset
    by_cases h1 : k₁ = k
    · subst h1; simp [keys]
    · have h2 : ¬ k = k₁ := fun e => h1 e.symm
      simp only [h1, if_false]
      simp only [keys, List.map_cons, List.mem_cons, h2, false_or] at ih ⊢
      rw [ih]
      split <;> simp_all

theorem nodup_keys_aset (l : List (String × β)) (k : String) (v : β) (h : (keys l).Nodup) :
    (keys (aset l k v)).Nodup := by
  rw [keys_aset]
  split
  · exact h
  · rename_i hk
    rw [List.nodup_append]
    refine ⟨h, by simp, ?_⟩
    intro a ha b hb
    simp only [List.mem_singleton] at hb
    subst hb
    intro e; subst e; exact hk ha

theorem mem_iff_lookup (l : List (String × β)) (h : (keys l).Nodup) (k : String) (v : β) :
    (k, v) ∈ l ↔ l.lookup k = some v := by
  induction l with
  | nil => simp
  | cons p t ih =>
    obtain ⟨k₁, v₁⟩ := p
    simp only [keys, List.map_cons, List.nodup_cons] at h
    rw [lookup_cons_ite, List.mem_cons]
    by_cases hk : k = k₁
    · subst hk
      simp only [if_true, Option.some.injEq, Prod.mk.injEq, true_and]
      constructor
      · rintro (e | hm)
        · exact e.symm
        · exact absurd (List.mem_map.2 ⟨(k, v), hm, rfl⟩) h.1
      · intro e; exact Or.inl e.symm
    · simp only [hk, if_false, Prod.mk.injEq, false_and, false_or]
      exact ih h.2

theorem nodup_of_nodup_keys (l : List (String × β)) (h : (keys l).Nodup) : l.Nodup := by
  induction l with
  | nil => simp
  | cons p t ih =>
    simp only [keys, List.map_cons, List.nodup_cons] at h
    rw [List.nodup_cons]
    exact ⟨fun hm => h.1 (List.mem_map.2 ⟨p, hm, rfl⟩), ih h.2⟩

end alist

/-! ### the mark rule (L163-176) -/

/-- the dictionary update seen through `lookup`: `none` = candidate not yet present -/
def stepOpt : Option Int → Int → Option Int
  | none, r => some r
  | some old, r => some (combine old r)

/-- the ranks of the counted marks of candidate `k`, in file order -/
def ranksOf (e : Bool) (k : String) (marks : List Mark) : List Int :=
  (marks.filter (fun m => counted e m && decide (m.cand.pyStr = k))).map (·.rank)

theorem lookup_markStep (e : Bool) (cv : CVotes) (m : Mark) (k : String) :
    (markStep e cv m).lookup k =
      if counted e m = true ∧ m.cand.pyStr = k then stepOpt (cv.lookup k) m.rank else cv.lookup k := by
  unfold markStep
  by_cases hc : counted e m = true
  · simp only [hc, if_true, true_and]
    by_cases hk : m.cand.pyStr = k
    · subst hk
      simp only [if_true]
      cases hl : List.lookup m.cand.pyStr cv with
      | none => simp [stepOpt, lookup_aset_self]
      | some old =>
        simp only [stepOpt]
        by_cases hr : m.rank = 0
        · simp [hr, hl, combine]
        · simp [hr, lookup_aset_self]
    · simp only [hk, if_false]
      have hk' : k ≠ m.cand.pyStr := fun e => hk e.symm
      cases hl : List.lookup m.cand.pyStr cv with
      | none => simp [lookup_aset_ne _ _ _ _ hk']
      | some old =>
        by_cases hr : m.rank = 0
        · simp [hr]
        · simp [hr, lookup_aset_ne _ _ _ _ hk']
  · simp [hc]

theorem lookup_foldl_markStep (e : Bool) (k : String) (marks : List Mark) :
    ∀ cv : CVotes, (marks.foldl (markStep e) cv).lookup k = (ranksOf e k marks).foldl stepOpt (cv.lookup k) := by
  induction marks with
  | nil => intro cv; simp [ranksOf]
  | cons m t ih =>
    intro cv
    rw [List.foldl_cons, ih, lookup_markStep]
    unfold ranksOf at ih ⊢
    by_cases h : counted e m = true ∧ m.cand.pyStr = k
    · simp [h]
    · simp [h]

/-- the value stored for a candidate whose counted marks carry the ranks `rs` (file order) -/
def storedRank : List Int → Option Int
  | [] => none
  | r0 :: rest => some (rest.foldl combine r0)

theorem foldl_stepOpt_some (l : List Int) : ∀ a : Int, l.foldl stepOpt (some a) = some (l.foldl combine a) := by
  induction l with
  | nil => intro a; rfl
  | cons x t ih => intro a; simp [List.foldl_cons, stepOpt, ih]

theorem foldl_stepOpt_none (l : List Int) : l.foldl stepOpt none = storedRank l := by
  cases l with
  | nil => rfl
  | cons x t => simp [List.foldl_cons, stepOpt, storedRank, foldl_stepOpt_some]

/-- what `contest_votes` holds for candidate `k` after the mark loop -/
theorem contestVotes_lookup (e : Bool) (marks : List Mark) (k : String) :
    (contestVotes e marks).lookup k = storedRank (ranksOf e k marks) := by
  unfold contestVotes
  rw [lookup_foldl_markStep, ← foldl_stepOpt_none]
  rfl

theorem combine_right_comm (z x y : Int) : combine (combine z x) y = combine (combine z y) x := by
  unfold combine
  by_cases hx : x = 0 <;> by_cases hy : y = 0 <;> by_cases hz : z = 0 <;> simp [hx, hy, hz] <;>
    (try split) <;> (try split) <;> omega

theorem stepOpt_right_comm (z : Option Int) (x y : Int) : stepOpt (stepOpt z x) y = stepOpt (stepOpt z y) x := by
  cases z with
  | none =>
    simp only [stepOpt, Option.some.injEq]
    unfold combine
    by_cases hx : x = 0 <;> by_cases hy : y = 0 <;> simp [hx, hy] <;> omega
  | some a => simp [stepOpt, combine_right_comm]

theorem foldl_combine_spec (l : List Int) : ∀ a : Int,
    (l.foldl combine a = a ∨ l.foldl combine a ∈ l) ∧
    (a ≠ 0 → l.foldl combine a ≠ 0 ∧ l.foldl combine a ≤ a) ∧
    (∀ r ∈ l, r ≠ 0 → l.foldl combine a ≠ 0 ∧ l.foldl combine a ≤ r) := by
  induction l with
  | nil => intro a; simp
  | cons x t ih =>
    intro a
    obtain ⟨h1, h2, h3⟩ := ih (combine a x)
    simp only [List.foldl_cons, List.mem_cons]
    have hc : combine a x = (if x ≠ 0 then (if a ≠ 0 then min a x else x) else a) := rfl
    refine ⟨?_, ?_, ?_⟩
    · rcases h1 with h | h
      · rw [h, hc]
        by_cases hx : x = 0
        · simp [hx]
        · by_cases ha : a = 0
          · simp [hx, ha]
          · simp only [ne_eq, hx, not_false_eq_true, if_true, ha]
            rcases Int.le_total a x with hle | hle
            · left; omega
            · right; left; omega
      · right; right; exact h
    · intro ha
      have hne : combine a x ≠ 0 := by
        rw [hc]; by_cases hx : x = 0
        · simp [hx, ha]
        · simp only [ne_eq, hx, not_false_eq_true, if_true, ha]; omega
      have hle : combine a x ≤ a := by
        rw [hc]; by_cases hx : x = 0
        · simp [hx]
        · simp only [ne_eq, hx, not_false_eq_true, if_true, ha]; omega
      have := h2 hne
      exact ⟨this.1, by omega⟩
    · intro r hr hr0
      rcases hr with rfl | hr
      · have hne : combine a r ≠ 0 := by
          rw [hc]; by_cases ha : a = 0
          · simp [hr0, ha]
          · simp only [ne_eq, hr0, not_false_eq_true, if_true, ha]; omega
        have hle : combine a r ≤ r := by
          rw [hc]; by_cases ha : a = 0
          · simp [hr0, ha]
          · simp only [ne_eq, hr0, not_false_eq_true, if_true, ha]; omega
        have := h2 hne
        exact ⟨this.1, by omega⟩
      · exact h3 r hr hr0

/-- **Value rule, without any assumption on the ranks.** The value stored for a candidate is one of
the ranks of its counted marks; it is the least *non-zero* one if there is one (so with a negative
rank in the file the stored value is negative), and `0` otherwise. -/
theorem storedRank_spec (r0 : Int) (rest : List Int) :
    ∃ v, storedRank (r0 :: rest) = some v ∧ v ∈ r0 :: rest ∧
      (∀ r ∈ r0 :: rest, r ≠ 0 → v ≠ 0 ∧ v ≤ r) ∧ ((∀ r ∈ r0 :: rest, r = 0) → v = r0) := by
  obtain ⟨h1, h2, h3⟩ := foldl_combine_spec rest r0
  refine ⟨rest.foldl combine r0, rfl, ?_, ?_, ?_⟩
  · rcases h1 with h | h
    · rw [h]; simp
    · exact List.mem_cons_of_mem _ h
  · intro r hr hr0
    rcases List.mem_cons.1 hr with rfl | hr
    · exact h2 hr0
    · exact h3 r hr hr0
  · intro hall
    rcases h1 with h | h
    · exact h
    · rw [hall _ (List.mem_cons_of_mem _ h), hall r0 (by simp)]

theorem mem_ranksOf (e : Bool) (k : String) (marks : List Mark) (r : Int) :
    r ∈ ranksOf e k marks ↔ ∃ m ∈ marks, counted e m = true ∧ m.cand.pyStr = k ∧ m.rank = r := by
  unfold ranksOf
  simp only [List.mem_map, List.mem_filter, Bool.and_eq_true, decide_eq_true_eq]
  constructor
  · rintro ⟨m, ⟨hm, hc, hk⟩, hr⟩; exact ⟨m, hm, hc, hk, hr⟩
  · rintro ⟨m, hm, hc, hk, hr⟩; exact ⟨m, ⟨hm, hc, hk⟩, hr⟩

/-- **C19 (value rule).** For every list of marks of one contest and every candidate `k`: if no counted
mark names `k` nothing is stored; otherwise, provided the ranks of its counted marks are not negative, the
value stored is the least positive rank among them if there is one, and the rank of its first counted
mark (which is then `0`) if there is none.  `ranksOf` lists the ranks of the counted marks of `k` in
file order (`mem_ranksOf`).  Without the guard the statement is false — see `negative_rank_witness`. -/
theorem min_positive_rank (e : Bool) (marks : List Mark) (k : String)
    (hnn : ∀ r ∈ ranksOf e k marks, 0 ≤ r) :
    match ranksOf e k marks with
    | [] => (contestVotes e marks).lookup k = none
    | r0 :: rest => ∃ v, (contestVotes e marks).lookup k = some v ∧
        ((∃ r ∈ r0 :: rest, 0 < r) → 0 < v ∧ v ∈ r0 :: rest ∧ ∀ r ∈ r0 :: rest, 0 < r → v ≤ r) ∧
        ((∀ r ∈ r0 :: rest, ¬ 0 < r) → v = r0) := by
  rw [contestVotes_lookup]
  cases hrs : ranksOf e k marks with
  | nil => rfl
  | cons r0 rest =>
    rw [hrs] at hnn
    obtain ⟨v, hv, hmem, hmin, hzero⟩ := storedRank_spec r0 rest
    refine ⟨v, hv, ?_, ?_⟩
    · rintro ⟨r, hr, hpos⟩
      have := hmin r hr (by omega)
      have hv0 := hnn v hmem
      refine ⟨by omega, hmem, ?_⟩
      intro r' hr' hpos'
      exact (hmin r' hr' (by omega)).2
    · intro hall
      apply hzero
      intro r hr
      have := hall r hr
      have := hnn r hr
      omega

/-- the corner the guard of `min_positive_rank` excludes: a negative rank is not a rank, but the code
stores it (`min` of the non-zero ranks) -/
theorem negative_rank_witness :
    (contestVotes true [⟨.int 1, 2, true⟩, ⟨.int 1, -1, true⟩]).lookup "1" = some (-1) := by decide

theorem mem_keys_contestVotes (e : Bool) (marks : List Mark) (k : String) :
    k ∈ keys (contestVotes e marks) ↔ ∃ m ∈ marks, counted e m = true ∧ m.cand.pyStr = k := by
  rw [← lookup_isSome_iff_mem_keys, contestVotes_lookup]
  cases hrs : ranksOf e k marks with
  | nil =>
    simp only [storedRank, Option.isSome_none, Bool.false_eq_true, false_iff, not_exists, not_and]
    intro m hm hc hk
    have : m.rank ∈ ranksOf e k marks := (mem_ranksOf ..).2 ⟨m, hm, hc, hk, rfl⟩
    rw [hrs] at this; simp at this
  | cons r0 rest =>
    simp only [storedRank, Option.isSome_some, true_iff]
    have : r0 ∈ ranksOf e k marks := by rw [hrs]; simp
    obtain ⟨m, hm, hc, hk, _⟩ := (mem_ranksOf ..).1 this
    exact ⟨m, hm, hc, hk⟩

theorem nodup_keys_markStep (e : Bool) (cv : CVotes) (m : Mark) (h : (keys cv).Nodup) :
    (keys (markStep e cv m)).Nodup := by
  unfold markStep
  split
  · simp only
    split
    · split
      · exact nodup_keys_aset _ _ _ h
      · exact h
    · exact nodup_keys_aset _ _ _ h
  · exact h

theorem nodup_keys_foldl_markStep (e : Bool) (marks : List Mark) :
    ∀ cv : CVotes, (keys cv).Nodup → (keys (marks.foldl (markStep e) cv)).Nodup := by
  induction marks with
  | nil => intro cv h; exact h
  | cons m t ih => intro cv h; exact ih _ (nodup_keys_markStep e cv m h)

/-- the stored dictionary has no repeated key: it *is* a finite map -/
theorem nodup_keys_contestVotes (e : Bool) (marks : List Mark) : (keys (contestVotes e marks)).Nodup :=
  nodup_keys_foldl_markStep e marks [] (by simp [keys])

theorem ranksOf_perm (e : Bool) (k : String) {m₁ m₂ : List Mark} (h : m₁.Perm m₂) :
    (ranksOf e k m₁).Perm (ranksOf e k m₂) := (h.filter _).map _

/-- **C19 (order of the marks), as a finite map.** Permuting the marks of a contest does not change the
value stored for any candidate.  No guard is needed: it holds with rank `0` and with negative ranks too. -/
theorem marks_perm_invariant_lookup (e : Bool) {m₁ m₂ : List Mark} (h : m₁.Perm m₂) (k : String) :
    (contestVotes e m₁).lookup k = (contestVotes e m₂).lookup k := by
  rw [contestVotes_lookup, contestVotes_lookup, ← foldl_stepOpt_none, ← foldl_stepOpt_none]
  exact (ranksOf_perm e k h).foldl_eq' (fun x _ y _ z => stepOpt_right_comm z x y) none

/-- **C19 (order of the marks).** For every permutation of the marks of a contest the stored dictionary
is the same up to the order of its keys: the two association lists (which have no repeated keys) are
permutations of each other. -/
theorem marks_perm_invariant (e : Bool) {m₁ m₂ : List Mark} (h : m₁.Perm m₂) :
    (contestVotes e m₁).Perm (contestVotes e m₂) := by
  have n1 := nodup_keys_contestVotes e m₁
  have n2 := nodup_keys_contestVotes e m₂
  rw [List.perm_ext_iff_of_nodup (nodup_of_nodup_keys _ n1) (nodup_of_nodup_keys _ n2)]
  rintro ⟨k, v⟩
  rw [mem_iff_lookup _ n1, mem_iff_lookup _ n2, marks_perm_invariant_lookup e h]

/-! ### counted and uncounted marks (L164) -/

theorem markStep_of_counted (e : Bool) (cv : CVotes) (m : Mark) (h : counted e m = true) :
    markStep e cv m = markStep false cv m := by
  have h' : counted false m = true := by simp [counted]
  simp [markStep, h, h']

theorem markStep_of_uncounted (e : Bool) (cv : CVotes) (m : Mark) (h : counted e m = false) :
    markStep e cv m = cv := by
  simp [markStep, h]

theorem foldl_markStep_filter (e : Bool) (marks : List Mark) :
    ∀ cv : CVotes, marks.foldl (markStep e) cv = (marks.filter (counted e)).foldl (markStep false) cv := by
  induction marks with
  | nil => intro cv; rfl
  | cons m t ih =>
    intro cv
    cases h : counted e m
    · simp [h, markStep_of_uncounted e cv m h, ih]
    · simp [h, markStep_of_counted e cv m h, ih]

/-- the stored dictionary depends on the marks only through the list of counted marks -/
theorem contestVotes_eq_counted (e : Bool) (marks : List Mark) :
    contestVotes e marks = contestVotes false (marks.filter (counted e)) :=
  foldl_markStep_filter e marks []

/-- with rules enforced the marks that are not votes are ignored (ordered dictionaries are *equal*) -/
theorem uncounted_ignored_of_enforced (marks : List Mark) :
    contestVotes true marks = contestVotes true (marks.filter (·.isVote)) := by
  rw [contestVotes_eq_counted true marks, contestVotes_eq_counted true (marks.filter (·.isVote))]
  congr 1
  have : counted true = fun m => m.isVote := by funext m; simp [counted]
  rw [this, List.filter_filter]
  simp

/-- with rules not enforced the `IsVote` flag is not consulted at all -/
theorem isVote_irrelevant_of_not_enforced (marks : List Mark) (flag : Mark → Bool) :
    contestVotes false (marks.map (fun m => { m with isVote := flag m })) = contestVotes false marks := by
  unfold contestVotes
  rw [List.foldl_map]
  congr 1
  funext cv m
  simp [markStep, counted]

/-- **C19 (uncounted marks).** Deleting the marks that are not votes never changes what is stored for a
contest *exactly when* rules are enforced.  (`→`: with rules off the single uncounted mark `(1, rank 1)` is
stored; `←`: `uncounted_ignored_of_enforced`.) -/
theorem uncounted_ignored_iff_enforced (e : Bool) :
    (∀ marks : List Mark, contestVotes e marks = contestVotes e (marks.filter (·.isVote))) ↔ e = true := by
  constructor
  · intro h
    cases e with
    | true => rfl
    | false =>
      have := h [⟨.int 1, 1, false⟩]
      exact absurd this (by decide)
  · rintro rfl marks
    exact uncounted_ignored_of_enforced marks

/-! ### contests, blocks, adjudication (L145-177) -/

/-- the contest ids (as dictionary keys) of a list of contests -/
def ids (cs : List Contest) : List String := cs.map (·.id.pyStr)

/-- the votes computed from one block alone -/
def blockVotes (e : Bool) (b : Block) : Votes := blockInto e [] b

theorem lookup_foldl_contestStep (e : Bool) (cs : List Contest) : ∀ (votes : Votes) (cid : String),
    (cs.foldl (contestStep e) votes).lookup cid =
      if cid ∈ ids cs then (cs.foldl (contestStep e) []).lookup cid else votes.lookup cid := by
  induction cs with
  | nil => intro votes cid; simp [ids]
  | cons c t ih =>
    intro votes cid
    rw [List.foldl_cons, List.foldl_cons, ih (contestStep e votes c), ih (contestStep e [] c)]
    by_cases h1 : cid ∈ ids t
    · have : cid ∈ ids (c :: t) := List.mem_cons_of_mem _ h1
      simp [h1, this]
    · simp only [h1, if_false]
      unfold contestStep
      by_cases h2 : cid = c.id.pyStr
      · subst h2
        have : c.id.pyStr ∈ ids (c :: t) := by simp [ids]
        simp [this, lookup_aset]
      · have : cid ∉ ids (c :: t) := by
          simp only [ids, List.map_cons, List.mem_cons, not_or]; exact ⟨h2, h1⟩
        simp [this, lookup_aset, h2]

/-- reading a block on top of earlier votes: the block's contests replace, the others stay -/
theorem lookup_blockInto (e : Bool) (votes : Votes) (b : Block) (cid : String) :
    (blockInto e votes b).lookup cid =
      if cid ∈ ids (selector b) then (blockVotes e b).lookup cid else votes.lookup cid :=
  lookup_foldl_contestStep e (selector b) votes cid

/-- inside one block the *last* contest with a given id is the one recorded -/
theorem blockVotes_lookup_last (e : Bool) (b : Block) (pre post : List Contest) (con : Contest)
    (hb : selector b = pre ++ con :: post) (hlast : con.id.pyStr ∉ ids post) :
    (blockVotes e b).lookup con.id.pyStr = some (contestVotes e con.marks) := by
  unfold blockVotes blockInto
  rw [hb, List.foldl_append, List.foldl_cons, lookup_foldl_contestStep]
  simp [hlast, contestStep, lookup_aset_self]

/-- `votes` of a session in closed form: the order of the keys in the file is never consulted -/
theorem sessionVotes_eq (o : Opts) (c : Session) :
    sessionVotes o c =
      (let v0 := match c.blocks.lookup "Original" with
                 | some b => blockVotes o.enforceRules b
                 | none => []
       if o.useCurrent then
         match c.blocks.lookup "Modified" with
         | some b => blockInto o.enforceRules v0 b
         | none => v0
       else v0) := by
  unfold sessionVotes keysOf blockVotes
  cases o.useCurrent <;> cases h1 : c.blocks.lookup "Original" <;> cases h2 : c.blocks.lookup "Modified" <;>
    simp [h1, h2]

/-- **C19 (adjudication).** When current data are requested and the session carries both original and
adjudicated data — `lookup` finds them wherever they stand in the file, so *whichever appears first* —
then for every contest id: if the adjudicated data cover it, what is stored is what the adjudicated data
alone give; otherwise it is what the original data alone give. -/
theorem adjudication_wins (o : Opts) (c : Session) (ob mb : Block) (huc : o.useCurrent = true)
    (ho : c.blocks.lookup "Original" = some ob) (hm : c.blocks.lookup "Modified" = some mb) (cid : String) :
    (sessionVotes o c).lookup cid =
      if cid ∈ ids (selector mb) then (blockVotes o.enforceRules mb).lookup cid
      else (blockVotes o.enforceRules ob).lookup cid := by
  rw [sessionVotes_eq]
  simp only [ho, hm, huc, if_true]
  exact lookup_blockInto _ _ _ _

/-- the two file orders give the same ordered dictionary -/
theorem adjudication_order_irrelevant (o : Opts) (c : Session) (ob mb : Block) :
    sessionVotes o { c with blocks := [("Modified", mb), ("Original", ob)] } =
      sessionVotes o { c with blocks := [("Original", ob), ("Modified", mb)] } := by
  rw [sessionVotes_eq, sessionVotes_eq]
  simp [List.lookup]

/-- both file orders satisfy the hypotheses of `adjudication_wins` -/
theorem adjudication_wins_modified_first (o : Opts) (c : Session) (ob mb : Block) (huc : o.useCurrent = true)
    (hb : c.blocks = [("Modified", mb), ("Original", ob)]) (cid : String) :
    (sessionVotes o c).lookup cid =
      if cid ∈ ids (selector mb) then (blockVotes o.enforceRules mb).lookup cid
      else (blockVotes o.enforceRules ob).lookup cid :=
  adjudication_wins o c ob mb huc (by rw [hb]; simp [List.lookup]) (by rw [hb]; simp [List.lookup]) cid

/-- when current data are not requested only the original data are read -/
theorem original_only_of_not_current (o : Opts) (c : Session) (huc : o.useCurrent = false) :
    sessionVotes o c = match c.blocks.lookup "Original" with
                       | some b => blockVotes o.enforceRules b
                       | none => [] := by
  rw [sessionVotes_eq]; simp [huc]

/-- a session without adjudicated data keeps its original data -/
theorem original_kept_of_no_modified (o : Opts) (c : Session) (hm : c.blocks.lookup "Modified" = none) :
    sessionVotes o c = match c.blocks.lookup "Original" with
                       | some b => blockVotes o.enforceRules b
                       | none => [] := by
  rw [sessionVotes_eq]; simp [hm]

/-! ### records (L139-196) -/

theorem included_iff (o : Opts) (c : Session) :
    included o c = true ↔ o.includeGroups = [] ∨ c.countingGroupId ∈ o.includeGroups := by
  unfold included
  cases h : o.includeGroups with
  | nil => simp
  | cons a t => simp

theorem readCvrs_cons_included (o : Opts) (c : Session) (cs : List Session) (h : included o c = true) :
    readCvrs o (c :: cs) =
      match recOf o c with
      | .error e => .error e
      | .ok r => match readCvrs o cs with
        | .error e => .error e
        | .ok rs => .ok (r :: rs) := by
  rw [readCvrs]
  simp only [h, if_true]
  cases recOf o c with
  | error e => rfl
  | ok r => cases readCvrs o cs <;> rfl

theorem readCvrs_cons_excluded (o : Opts) (c : Session) (cs : List Session) (h : included o c = false) :
    readCvrs o (c :: cs) = readCvrs o cs := by
  rw [readCvrs]; simp [h]

/-- **C19 (one record per session).** If the import returns `recs`, then `recs` has exactly one record per
session of the included counting groups, in file order: the `i`-th record is the record of the `i`-th such
session (`record_identity` says what that record is; `included_iff` which sessions are kept). -/
theorem one_record_per_session (o : Opts) (ss : List Session) :
    ∀ recs : List Rec, readCvrs o ss = .ok recs →
      recs.length = (ss.filter (included o)).length ∧
      ∀ (i : Nat) (h1 : i < (ss.filter (included o)).length) (h2 : i < recs.length),
        recOf o ((ss.filter (included o))[i]) = .ok recs[i] := by
  induction ss with
  | nil =>
    intro recs h
    simp only [readCvrs, pure, Except.pure, Except.ok.injEq] at h
    subst h; simp
  | cons c cs ih =>
    intro recs h
    cases hinc : included o c with
    | false =>
      rw [readCvrs_cons_excluded o c cs hinc] at h
      simpa [List.filter_cons, hinc] using ih recs h
    | true =>
      rw [readCvrs_cons_included o c cs hinc] at h
      cases hr : recOf o c with
      | error e => simp [hr] at h
      | ok r =>
        cases hrs : readCvrs o cs with
        | error e => simp [hr, hrs] at h
        | ok rs =>
          simp only [hr, hrs, Except.ok.injEq] at h
          subst h
          obtain ⟨hl, hi⟩ := ih rs hrs
          simp only [List.filter_cons, hinc, if_true, List.length_cons]
          refine ⟨by omega, ?_⟩
          intro i h1 h2
          cases i with
          | zero => simpa using hr
          | succ j =>
            simp only [List.getElem_cons_succ]
            exact hi j (by simpa using h1) (by simpa using h2)

/-- the import succeeds as soon as every kept session has a derivable record number -/
theorem readCvrs_ok (o : Opts) (ss : List Session)
    (h : ∀ c ∈ ss, included o c = true → ∃ rid, recordIdStr c = .ok rid) :
    ∃ recs, readCvrs o ss = .ok recs := by
  induction ss with
  | nil => exact ⟨[], rfl⟩
  | cons c cs ih =>
    obtain ⟨rs, hrs⟩ := ih (fun c' hc' => h c' (List.mem_cons_of_mem _ hc'))
    cases hinc : included o c with
    | false => exact ⟨rs, by rw [readCvrs_cons_excluded o c cs hinc, hrs]⟩
    | true =>
      obtain ⟨rid, hrid⟩ := h c (by simp) hinc
      rw [readCvrs_cons_included o c cs hinc]
      simp [recOf, hrid, hrs, bind, Except.bind, pure, Except.pure]

/-- **C19 (identifier, tally pool, pooling flag).** The record of a session: tally pool
`str(TabulatorId)-str(BatchId)`, identifier `tally pool-record`, pooled exactly when its counting group
is designated for pooling; the votes are `sessionVotes`. -/
theorem record_identity (o : Opts) (c : Session) (r : Rec) (h : recOf o c = .ok r) :
    ∃ rid, recordIdStr c = .ok rid ∧
      r.tallyPool = c.tabulatorId.pyStr ++ "-" ++ c.batchId.pyStr ∧
      r.id = c.tabulatorId.pyStr ++ "-" ++ c.batchId.pyStr ++ "-" ++ rid ∧
      (r.pool = true ↔ c.countingGroupId ∈ o.poolGroups) ∧
      r.votes = sessionVotes o c := by
  unfold recOf at h
  cases hrid : recordIdStr c with
  | error e => simp [hrid, bind, Except.bind] at h
  | ok rid =>
    simp only [hrid, bind, Except.bind, pure, Except.pure, Except.ok.injEq] at h
    subst h
    exact ⟨rid, rfl, rfl, rfl, by simp, rfl⟩

/-- a record number that is not obfuscated is used as it is -/
theorem recordIdStr_plain (c : Session) (h : c.recordId ≠ Atom.str "X") :
    recordIdStr c = .ok c.recordId.pyStr := by
  simp [recordIdStr, h, pure, Except.pure]

theorem matchHere_of_not_digit (ch : Char) (rest : List Char) (h : ch.isDigit = false) :
    matchHere (ch :: rest) = none := by
  simp [matchHere, h]

theorem search_skip (pre m : List Char) (h : ∀ ch ∈ pre, ch.isDigit = false) :
    search (pre ++ m) = search m := by
  induction pre with
  | nil => rfl
  | cons ch t ih =>
    rw [List.cons_append, search, matchHere_of_not_digit ch _ (h ch (by simp))]
    exact ih (fun x hx => h x (List.mem_cons_of_mem _ hx))

theorem takeWhile_digits (n rest : List Char) (hn : ∀ ch ∈ n, ch.isDigit = true)
    (hrest : ∀ ch r, rest = ch :: r → ch.isDigit = false) :
    (n ++ rest).takeWhile Char.isDigit = n := by
  induction n with
  | nil =>
    cases rest with
    | nil => rfl
    | cons ch r => simp [hrest ch r rfl]
  | cons d t ih =>
    simp only [List.cons_append, List.takeWhile, hn d (by simp)]
    rw [ih (fun x hx => hn x (List.mem_cons_of_mem _ hx))]

theorem matchHere_match (t b n rest : List Char) (ht : t.length = 5) (hb : b.length = 5)
    (htd : ∀ ch ∈ t, ch.isDigit = true) (hbd : ∀ ch ∈ b, ch.isDigit = true)
    (hnd : ∀ ch ∈ n, ch.isDigit = true) (hrest : ∀ ch r, rest = ch :: r → ch.isDigit = false) :
    matchHere (t ++ '_' :: (b ++ '_' :: (n ++ rest))) = some n := by
  unfold matchHere
  have h1 : (t ++ '_' :: (b ++ '_' :: (n ++ rest))).take 5 = t := by rw [← ht]; exact List.take_left
  have h2 : (t ++ '_' :: (b ++ '_' :: (n ++ rest))).drop 5 = '_' :: (b ++ '_' :: (n ++ rest)) := by
    rw [← ht]; exact List.drop_left
  have h3 : (b ++ '_' :: (n ++ rest)).take 5 = b := by rw [← hb]; exact List.take_left
  have h4 : (b ++ '_' :: (n ++ rest)).drop 5 = '_' :: (n ++ rest) := by rw [← hb]; exact List.drop_left
  have h5 : t.all Char.isDigit = true := List.all_eq_true.2 htd
  have h6 : b.all Char.isDigit = true := List.all_eq_true.2 hbd
  simp only [h1, h2, h3, h4, h5, h6, ht, hb, decide_true, Bool.and_self, if_true]
  rw [takeWhile_digits n rest hnd hrest]

/-- **C19 (obfuscated record number).** `RecordId == "X"` and an image mask of the shape
`<no digits> ddddd _ ddddd _ <digits n> <no digit next>`: the record number is `int(n)`.  (The model
itself scans for the leftmost match like `re.search`; masks with digits before the match are covered by
the examples below and by the correspondence.) -/
theorem recordIdStr_obfuscated (c : Session) (pre t b n rest : List Char) (hx : c.recordId = Atom.str "X")
    (hmask : c.imageMask.toList = pre ++ (t ++ '_' :: (b ++ '_' :: (n ++ rest))))
    (hpre : ∀ ch ∈ pre, ch.isDigit = false) (ht : t.length = 5) (hb : b.length = 5)
    (htd : ∀ ch ∈ t, ch.isDigit = true) (hbd : ∀ ch ∈ b, ch.isDigit = true)
    (hnd : ∀ ch ∈ n, ch.isDigit = true) (hne : n ≠ [])
    (hrest : ∀ ch r, rest = ch :: r → ch.isDigit = false) :
    recordIdStr c = .ok (toString (digitsToNat n)) := by
  have ht0 : t ≠ [] := by intro e; rw [e] at ht; simp at ht
  obtain ⟨d, t', rfl⟩ := List.exists_cons_of_ne_nil ht0
  have hs : search (pre ++ (d :: t' ++ '_' :: (b ++ '_' :: (n ++ rest)))) = some n := by
    rw [search_skip _ _ hpre, List.cons_append, search, ← List.cons_append,
      matchHere_match (d :: t') b n rest ht hb htd hbd hnd hrest]
  unfold recordIdStr
  rw [if_pos hx, hmask, hs]
  cases n with
  | nil => exact absurd rfl hne
  | cons a l => rfl

/-! ### the mark rules at the level of the whole import -/

def mapMarksC (f : List Mark → List Mark) (con : Contest) : Contest := { con with marks := f con.marks }

def mapMarksB (f : List Mark → List Mark) : Block → Block
  | .flat cs => .flat (cs.map (mapMarksC f))
  | .cards cs => .cards (cs.map (fun card => card.map (mapMarksC f)))

/-- the same export with the marks of every contest rewritten by `f` -/
def mapMarksS (f : List Mark → List Mark) (c : Session) : Session :=
  { c with blocks := c.blocks.map (fun kb => (kb.1, mapMarksB f kb.2)) }

theorem selector_mapMarksB (f : List Mark → List Mark) (b : Block) :
    selector (mapMarksB f b) = (selector b).map (mapMarksC f) := by
  cases b with
  | flat cs => rfl
  | cards cs => simp [mapMarksB, selector, List.map_flatten]

theorem blockInto_mapMarksB (e : Bool) (f : List Mark → List Mark)
    (hf : ∀ marks, contestVotes e (f marks) = contestVotes e marks) (votes : Votes) (b : Block) :
    blockInto e votes (mapMarksB f b) = blockInto e votes b := by
  unfold blockInto
  rw [selector_mapMarksB, List.foldl_map]
  congr 1
  funext v con
  simp [contestStep, mapMarksC, hf]

theorem lookup_map_blocks (f : List Mark → List Mark) (k : String) (l : List (String × Block)) :
    List.lookup k (l.map (fun kb => (kb.1, mapMarksB f kb.2))) = (List.lookup k l).map (mapMarksB f) := by
  induction l with
  | nil => rfl
  | cons p t ih =>
    obtain ⟨k₁, b₁⟩ := p
    simp only [List.map_cons, lookup_cons_ite, ih]
    split <;> rfl

theorem sessionVotes_mapMarksS (o : Opts) (f : List Mark → List Mark)
    (hf : ∀ marks, contestVotes o.enforceRules (f marks) = contestVotes o.enforceRules marks) (c : Session) :
    sessionVotes o (mapMarksS f c) = sessionVotes o c := by
  rw [sessionVotes_eq, sessionVotes_eq]
  simp only [mapMarksS, lookup_map_blocks, blockVotes]
  cases c.blocks.lookup "Original" <;> cases c.blocks.lookup "Modified" <;>
    simp [blockInto_mapMarksB _ f hf]

theorem readCvrs_mapMarksS (o : Opts) (f : List Mark → List Mark)
    (hf : ∀ marks, contestVotes o.enforceRules (f marks) = contestVotes o.enforceRules marks)
    (ss : List Session) : readCvrs o (ss.map (mapMarksS f)) = readCvrs o ss := by
  have hrec : ∀ c, recOf o (mapMarksS f c) = recOf o c := by
    intro c
    unfold recOf
    rw [sessionVotes_mapMarksS o f hf c]
    rfl
  have hinc : ∀ c, included o (mapMarksS f c) = included o c := fun _ => rfl
  induction ss with
  | nil => rfl
  | cons c cs ih =>
    rw [List.map_cons]
    cases h : included o c with
    | false =>
      rw [readCvrs_cons_excluded _ _ _ h, readCvrs_cons_excluded _ _ _ (by rw [hinc, h]), ih]
    | true =>
      rw [readCvrs_cons_included _ _ _ h, readCvrs_cons_included _ _ _ (by rw [hinc, h]), ih, hrec]

/-- **C19 (uncounted marks, whole import).** With rules enforced, deleting every mark that is not a vote
from the export leaves the imported records unchanged. -/
theorem import_ignores_uncounted_of_enforced (o : Opts) (he : o.enforceRules = true) (ss : List Session) :
    readCvrs o (ss.map (mapMarksS (List.filter (·.isVote)))) = readCvrs o ss :=
  readCvrs_mapMarksS o _ (fun marks => by rw [he]; exact (uncounted_ignored_of_enforced marks).symm) ss

/-- with rules not enforced the `IsVote` flags of the export are irrelevant -/
theorem import_ignores_isVote_of_not_enforced (o : Opts) (he : o.enforceRules = false) (flag : Mark → Bool)
    (ss : List Session) :
    readCvrs o (ss.map (mapMarksS (List.map (fun m => { m with isVote := flag m })))) = readCvrs o ss :=
  readCvrs_mapMarksS o _ (fun marks => by rw [he]; exact isVote_irrelevant_of_not_enforced marks flag) ss

/-- the value rule and its order-independence seen from a session: what is stored for contest `cid` is
the `contestVotes` of the last contest with that id in the governing block (`adjudication_wins`,
`blockVotes_lookup_last`), to which `min_positive_rank` and `marks_perm_invariant` apply. -/
theorem session_contest_value (o : Opts) (c : Session) (ob mb : Block) (huc : o.useCurrent = true)
    (ho : c.blocks.lookup "Original" = some ob) (hm : c.blocks.lookup "Modified" = some mb)
    (pre post : List Contest) (con : Contest)
    (hb : selector mb = pre ++ con :: post) (hlast : con.id.pyStr ∉ ids post) :
    (sessionVotes o c).lookup con.id.pyStr = some (contestVotes o.enforceRules con.marks) := by
  rw [adjudication_wins o c ob mb huc ho hm]
  have : con.id.pyStr ∈ ids (selector mb) := by rw [hb]; simp [ids]
  rw [if_pos this]
  exact blockVotes_lookup_last _ mb pre post con hb hlast

/-- `read_cvrs_directory` concatenates the per-file results in the order of the sorted file names -/
theorem readCvrsDirectory_eq (o : Opts) (fs : List (List Session)) (g : List Session → List Rec)
    (h : ∀ f ∈ fs, readCvrs o f = .ok (g f)) : readCvrsDirectory o fs = .ok (fs.map g).flatten := by
  induction fs with
  | nil => rfl
  | cons f t ih =>
    rw [readCvrsDirectory, h f (by simp), ih (fun f' hf' => h f' (List.mem_cons_of_mem _ hf'))]
    rfl

/-! ### Non-vacuity: concrete instances (tests of the statements, not the theorems) -/

section examples

/-- candidate 9 marked with ranks 3, 0, 2 and an uncounted rank 1; candidate 7 only with rank 0 -/
def exMarks : List Mark :=
  [⟨.int 9, 3, true⟩, ⟨.int 7, 0, true⟩, ⟨.int 9, 0, true⟩, ⟨.int 9, 2, true⟩, ⟨.int 9, 1, false⟩]

def exOrig : Block :=
  .flat [⟨.int 111, [⟨.int 6, 1, true⟩]⟩, ⟨.int 122, [⟨.int 9, 1, true⟩, ⟨.int 48, 2, false⟩]⟩]
def exMod : Block := .flat [⟨.int 122, exMarks⟩]
/-- adjudicated data listed first (the F18 layout) -/
def exS1 : Session := ⟨.int 60009, .int 3, .int 21, .int 2, "", [("Modified", exMod), ("Original", exOrig)]⟩
/-- "Cards" layout, obfuscated record number, digits before the match in the mask -/
def exS2 : Session :=
  ⟨.int 1, .int 5, .str "X", .int 1, "D:\\Tabulator01\\Images\\00001_00005_000119*.*",
    [("Original", .cards [[⟨.int 1, [⟨.int 6, 1, true⟩]⟩], []])]⟩
def exO : Opts := ⟨true, true, [.int 2], [.int 2]⟩

-- min_positive_rank: hypotheses hold, both branches occur
example : ranksOf true "9" exMarks = [3, 0, 2] := by decide
example : ∀ r ∈ ranksOf true "9" exMarks, 0 ≤ r := by decide
example : contestVotes true exMarks = [("9", 2), ("7", 0)] := by decide
example : contestVotes false exMarks = [("9", 1), ("7", 0)] := by decide
-- marks_perm_invariant: a permutation that changes the key order, not the map
example : [exMarks[1], exMarks[3], exMarks[4], exMarks[0], exMarks[2]].Perm exMarks := by decide
example : contestVotes true [exMarks[1], exMarks[3], exMarks[4], exMarks[0], exMarks[2]] = [("7", 0), ("9", 2)] := by
  decide
-- one_record_per_session / record_identity / adjudication_wins
example : readCvrs exO [exS2, exS1] =
    .ok [⟨"60009-3-21", "60009-3", true, [("111", [("6", 1)]), ("122", [("9", 2), ("7", 0)])]⟩] := by rfl
example : readCvrs { exO with includeGroups := [], poolGroups := [] } [exS2, exS1] =
    .ok [⟨"1-5-119", "1-5", false, [("1", [("6", 1)])]⟩,
         ⟨"60009-3-21", "60009-3", false, [("111", [("6", 1)]), ("122", [("9", 2), ("7", 0)])]⟩] := by rfl
example : (sessionVotes exO exS1).lookup "122" = (blockVotes true exMod).lookup "122" :=
  adjudication_wins exO exS1 exOrig exMod rfl rfl rfl "122"
example : (sessionVotes exO exS1).lookup "111" = some [("6", 1)] := by
  rw [adjudication_wins exO exS1 exOrig exMod rfl rfl rfl "111"]; rfl
example : sessionVotes { exO with useCurrent := false } exS1 = [("111", [("6", 1)]), ("122", [("9", 1)])] := by rfl
-- recordIdStr_obfuscated: its hypotheses are satisfiable
example : recordIdStr ⟨.int 1, .int 5, .str "X", .int 1, "Images/00001_00005_000119*.*", []⟩ = .ok "119" :=
  recordIdStr_obfuscated _ "Images/".toList "00001".toList "00005".toList "000119".toList "*.*".toList rfl rfl
    (by decide) rfl rfl (by decide) (by decide) (by decide) (by decide) (by intro ch r h; cases h; decide)
-- the three other outcomes of the record number
example : recordIdStr exS2 = .ok "119" := by rfl
example : recordIdStr { exS2 with imageMask := "Images/0001_00005_000119" } = .ok "X" := by rfl
example : recordIdStr { exS2 with imageMask := "Images/00001_00005_*.*" } = .error Err.ValueError := by rfl

end examples

end Shangrla.C19
