/-
  C03 ∘ C06 ∘ C09 ∘ C01 for comparison audits on the LITERAL model of `Model/Overstatement.lean`:
  card comparison and ONEAudit, style-based sampling on or off, pooled cards (any pool labelling), phantom CVRs
  inside and outside pools, unfindable cards, manual records lacking the contest.

  The population of cards is the list of (manual record, CVR) pairs `mvrs.zip cvrs`.  The datum of a card for an
  assertion is what the model's own `mvrsToData` (`Assertion.mvrs_to_data`) returns for the one-card sample
  `[mvr], [cvr]` (`cardDatum`): `some b` when it returns the single finite number `b`, `none` when it returns no
  datum (the card does not pass the style filter).  `sample_data_model` shows that for EVERY sample of cards of the
  population, in any order, `mvrsToData` applied to the whole sample returns exactly the data of its cards
  (`h.filterMap cardDatum`) — so the list `auditCompleteOpt` hands to the test after each draw is the list
  `set_p_values` hands to `asn.test.test`.  `cardDatum_eq` gives the explicit value.

  `comparison_full_risk_limit`: margin and test bound as `setMarginFromCvrs` installs them, pool means computed by
  `poolMeans` from the same CVRs under the same style flag (`MeansFrom`), any shipped `NonnegMean` test in its
  documented range with `N` = number of cards under audit and `t = 1/2`: if the assertion is FALSE on the manual
  records (assorter mean over the manual records of the cards under audit, a phantom counted 0 and under style a
  record lacking the contest counted 0, at most 1/2), then over all draw orders of the cards the audit is EVER
  reported complete with probability at most the contest's risk limit.
-/
import Shangrla.Props.RiskLimitStyle
import Shangrla.Props.C03
import Shangrla.Props.C06

namespace Shangrla.RiskLimit
open Shangrla Shangrla.Ville Shangrla.Status Shangrla.AuditLoop Shangrla.Overstatement

/-- a card of a comparison audit: its manual record and its CVR -/
abbrev MCard := Mvr × Cvr

/-- **the datum of one card**, read off the model: the entry `mvrs_to_data(use_all=True)` (`mvrsToData`) returns
for the one-card sample `[mvr], [cvr]`; `none` when it returns no entry (the card is filtered out by the style
filter) — and also when it raises or returns a non-number, which under the hypotheses of
`comparison_full_risk_limit` never happens for a card of the population (`cardDatum_eq`). -/
def cardDatum (ty : AuditType) (useStyle : Bool) (margin : XR) (upper : ℚ) (means : Option Means)
    (p : MCard) : Option ℚ :=
  match mvrsToData ty useStyle true none margin upper means [p.1] [p.2] with
  | .ok ([XR.fin q], _) => some q
  | _ => none

/-- the explicit value: for a card under audit, `(1 − (score(cvr) − A'(mvr))/u) / (2 − v/u)` with `score` the
pool mean of a pooled CVR (over the pooled cards of its pool under audit), 1/2 for an unpooled phantom CVR and
`A(cvr)` otherwise (`C03.score`), and `A'(mvr)` = 0 for an unfindable card or (under style) a manual record lacking
the contest, `A(mvr)` otherwise (`mvrAssort`); nothing for a card not under audit -/
def datumFormula (useStyle : Bool) (v u : ℚ) (cvrs : List Cvr) (means : Option Means) (p : MCard) : Option ℚ :=
  if passes useStyle p.2 then some (ovA v u (C03.score useStyle cvrs means p.2) (mvrAssort useStyle p.1))
  else none

theorem zip_map_fst_snd {α β : Type} : ∀ l : List (α × β), (l.map Prod.fst).zip (l.map Prod.snd) = l
  | [] => rfl
  | p :: l => by simp [zip_map_fst_snd l]

theorem filterMap_formula_eq (useStyle : Bool) (v u : ℚ) (cvrs : List Cvr) (means : Option Means) :
    ∀ h : List MCard, (h.filterMap (datumFormula useStyle v u cvrs means)).map XR.fin
      = (h.filter (fun p => passes useStyle p.2)).map
          (fun p => XR.fin (ovA v u (C03.score useStyle cvrs means p.2) (mvrAssort useStyle p.1)))
  | [] => rfl
  | p :: h => by
    have ih := filterMap_formula_eq useStyle v u cvrs means h
    cases hp : passes useStyle p.2 <;> simp [datumFormula, hp] <;>
      simpa [datumFormula] using ih

/-- the condition of `mvrs_to_data`'s comprehension is the style filter when `use_all` is set or the card's sample
number is within the contest's threshold -/
theorem contributes_passes (useStyle useAll : Bool) (threshold : Option Nat) (c : Cvr)
    (h : useAll = true ∨ ∃ t, threshold = some t ∧ c.sampleNum ≤ t) :
    contributes useStyle useAll threshold c = .ok (passes useStyle c) := by
  rcases h with rfl | ⟨t, rfl, ht⟩
  · exact C03.contributes_all useStyle threshold c
  · unfold contributes passes
    cases useStyle <;> cases c.hasContest <;> cases useAll <;> simp [ht]

/-- `mvrs_to_data` on any sample of cards whose CVRs belong to `cvrs`, with a finite margin `v` and pool means
computed from `cvrs`: the explicit values of the sampled cards under audit, in sample order -/
theorem sample_data_formula (ty : AuditType) (hty : ty = .cardComparison ∨ ty = .oneaudit)
    (useStyle useAll : Bool) (threshold : Option Nat) (v u : ℚ) (cvrs : List Cvr) (means : Option Means)
    (hm : MeansFrom useStyle cvrs means) (hune : u ≠ 0) (hden : 2 - v / u ≠ 0)
    (h : List MCard) (hsub : ∀ p ∈ h, p.2 ∈ cvrs)
    (hk : ∀ p ∈ h, contributes useStyle useAll threshold p.2 = .ok (passes useStyle p.2)) :
    mvrsToData ty useStyle useAll threshold (XR.fin v) u means (h.map Prod.fst) (h.map Prod.snd)
      = .ok ((h.filterMap (datumFormula useStyle v u cvrs means)).map XR.fin, XR.fin (2 / (2 - v / u))) := by
  have hU : (2 : XR) / (2 - XR.fin v / XR.fin u) = XR.fin (2 / (2 - v / u)) := by
    rw [two_eq, fin_div _ _ hune, fin_sub, fin_div _ _ hden]
  have hcomp : compData (XR.fin v) u useStyle useAll threshold means (h.map Prod.fst) (h.map Prod.snd)
      = .ok ((h.filterMap (datumFormula useStyle v u cvrs means)).map XR.fin) := by
    rw [compData_eq_mapM (XR.fin v) u useStyle useAll threshold means (passes useStyle) _ _ (by simp)
      (by rw [zip_map_fst_snd]; exact hk), zip_map_fst_snd, filterMap_formula_eq]
    apply mapM_ok
    intro p hp
    obtain ⟨hph, hpass⟩ := List.mem_filter.mp hp
    have hpA : p.2 ∈ C03.aud useStyle cvrs := List.mem_filter.mpr ⟨hsub p hph, hpass⟩
    exact overstatementAssorter_fin hune hden (C03.passes_not_error useStyle p.2 hpass)
      (C03.cvrAssort_score hm p.2 hpA)
  unfold mvrsToData
  rcases hty with rfl | rfl <;> simp [hcomp, hU, bind, Except.bind, pure, Except.pure]

/-- **the datum of a card, explicitly** -/
theorem cardDatum_eq (ty : AuditType) (hty : ty = .cardComparison ∨ ty = .oneaudit)
    (useStyle : Bool) (v u : ℚ) (cvrs : List Cvr) (means : Option Means)
    (hm : MeansFrom useStyle cvrs means) (hune : u ≠ 0) (hden : 2 - v / u ≠ 0)
    (p : MCard) (hp : p.2 ∈ cvrs) :
    cardDatum ty useStyle (XR.fin v) u means p = datumFormula useStyle v u cvrs means p := by
  have h := sample_data_formula ty hty useStyle true none v u cvrs means hm hune hden [p]
    (by intro q hq; rw [List.mem_singleton.mp hq]; exact hp)
    (fun q _ => C03.contributes_all useStyle none q.2)
  simp only [List.map_cons, List.map_nil] at h
  unfold cardDatum
  rw [h]
  cases hd : datumFormula useStyle v u cvrs means p <;> simp [hd]

/-- the range of a CVR's score: with pool means computed from CVRs whose assorter values lie in `[0,u]`, and an
unpooled phantom CVR having `A = 1/2`, every score lies in `[0,u]` (no assumption `1/2 ≤ u` is needed: an unpooled
phantom under audit supplies it) -/
theorem score_range {useStyle : Bool} {u : ℚ} {cvrs : List Cvr} {means : Option Means}
    (hm : MeansFrom useStyle cvrs means) (hcv : ∀ c ∈ cvrs, 0 ≤ c.a ∧ c.a ≤ u)
    (hph : ∀ c ∈ C03.aud useStyle cvrs, c.phantom = true → usesPool means c = false → c.a = 1 / 2)
    (c : Cvr) (hc : c ∈ C03.aud useStyle cvrs) :
    0 ≤ C03.score useStyle cvrs means c ∧ C03.score useStyle cvrs means c ≤ u := by
  obtain ⟨hcm, hcp⟩ := List.mem_filter.mp hc
  cases hup : usesPool means c
  · have hs : C03.score useStyle cvrs means c = ownScore c := by simp [C03.score, hup]
    rw [hs]
    unfold ownScore
    cases hphc : c.phantom
    · simpa using hcv c hcm
    · have := hph c hc hphc hup
      have := hcv c hcm
      simp only [if_true]
      constructor <;> linarith
  · cases hm with
    | unset => simp [usesPool] at hup
    | set keys d hd =>
      have hpool : c.pool = true := by
        unfold usesPool at hup
        simpa using hup
      obtain ⟨_, hl⟩ := poolMeans_lookup hd c hcm hcp hpool
      obtain ⟨q, hq, hq0, hq1⟩ := C06.meansInBound_of_poolMeans (MeansFrom.set keys d hd) (fun c h => h) hcv
        d rfl c hcm hpool hcp _ hl
      have hs : C03.score useStyle cvrs (some d) c = q := by
        simp only [C03.score, hup, if_true]
        exact XR.fin.inj hq
      rw [hs]
      exact ⟨hq0, hq1⟩

/-- **what the test is handed on a sample is what `mvrs_to_data` returns on that sample.**  Under the hypotheses
of `comparison_full_risk_limit` on the population, for every sample `h` of its cards — any cards, in any order, with
repetitions — and `use_all` set or every sampled card's sample number within the threshold (`set_p_values` calls
with `use_all=False` and the contest's `sample_threshold`): `mvrsToData` applied to the sampled manual records and
CVRs returns the data `h.filterMap cardDatum` of the sampled cards, in sample order, and the bound
`setMarginFromCvrs` installed. -/
theorem sample_data_model (ty : AuditType) (hty : ty = .cardComparison ∨ ty = .oneaudit)
    (useStyle useAll : Bool) (threshold : Option Nat) (u : ℚ) (cvrs : List Cvr) (mvrs : List Mvr)
    (means : Option Means)
    (hm : MeansFrom useStyle cvrs means) (hlen : mvrs.length = cvrs.length) (hu : 0 < u)
    (ha : ∀ c ∈ cvrs, c.a ≤ u) (hne : C03.aud useStyle cvrs ≠ [])
    (hph : ∀ c ∈ C03.aud useStyle cvrs, c.phantom = true → usesPool means c = false → c.a = 1 / 2)
    (margin U : XR) (hmargin : setMarginFromCvrs 1 useStyle ty u cvrs = .ok (margin, U))
    (h : List MCard) (hsub : ∀ p ∈ h, p ∈ mvrs.zip cvrs)
    (hk : ∀ p ∈ h, useAll = true ∨ ∃ t, threshold = some t ∧ p.2.sampleNum ≤ t) :
    mvrsToData ty useStyle useAll threshold margin u means (h.map Prod.fst) (h.map Prod.snd)
      = .ok ((h.filterMap (cardDatum ty useStyle margin u means)).map XR.fin, U) := by
  obtain ⟨v, B, h1, _, _, _, h2uv, _⟩ :=
    C03.overstatement_identity ty hty useStyle u cvrs mvrs means none hm hlen hu ha hne hph
  rw [h1] at hmargin
  simp only [Except.ok.injEq, Prod.mk.injEq] at hmargin
  obtain ⟨rfl, rfl⟩ := hmargin
  have hune : u ≠ 0 := ne_of_gt hu
  have hden : 2 - v / u ≠ 0 := by
    have : 2 - v / u = (2 * u - v) / u := by field_simp
    rw [this]
    exact ne_of_gt (div_pos h2uv hu)
  have hcv : ∀ p ∈ h, p.2 ∈ cvrs := fun p hp => (List.of_mem_zip (hsub p hp)).2
  have hfm : h.filterMap (cardDatum ty useStyle (XR.fin v) u means)
      = h.filterMap (datumFormula useStyle v u cvrs means) := by
    apply List.filterMap_congr
    intro p hp
    exact cardDatum_eq ty hty useStyle v u cvrs means hm hune hden p (hcv p hp)
  rw [hfm]
  exact sample_data_formula ty hty useStyle useAll threshold v u cvrs means hm hune hden h hcv
    (fun p hp => contributes_passes useStyle useAll threshold p.2 (hk p hp))

/-- **Risk limit of a comparison audit, on the literal model with pools, phantoms and the style filter.**

* `ty`: card comparison or ONEAudit; `useStyle`: style-based sampling on or off.
* `cvrs`: ANY CVR list — phantoms, pooled or not, any pool labelling; `mvrs`: manual records for the same cards
  (`hlen`) — any discrepancies, records lacking the contest, unfindable cards (`phantom`).
* `means`: the dict of pool means, never set or computed by `set_tally_pool_means` from `cvrs` under the same
  style flag (`hm`).
* `hu`, `hcv`, `hmv`: the raw assorter takes values in `[0,u]`, `u > 0`.  `hne`: some card is under audit.
  `hph`: a phantom CVR under audit that is not scored through a pool has `A = 1/2` (C03's hypothesis; a
  non-vote for every shipped assorter).
* `margin`, `U`: the margin and test bound `set_margin_from_cvrs` installs (`hmargin`).
* the population of cards is `mvrs.zip cvrs`; the assertion's datum for a card is `cardDatum` — what the model's
  `mvrsToData` returns for that card, `none` when it is not under audit.
* the assertion's test is any shipped `NonnegMean` test in its documented range with `N` = the number of cards
  under audit, `t = 1/2`, `u = U`.
* `hfalse`: the assertion is FALSE on the manual records: their assorter mean over the cards under audit (an
  unfindable card counted 0, under style a record lacking the contest counted 0) is at most 1/2.

Then the probability, over all orders in which the cards are drawn, that the audit is EVER reported complete is at
most the contest's risk limit — whatever the other assertions, contests and tests are. -/
theorem comparison_full_risk_limit (ty : AuditType) (hty : ty = .cardComparison ∨ ty = .oneaudit)
    (useStyle : Bool) (u : ℚ) (cvrs : List Cvr) (mvrs : List Mvr) (means : Option Means)
    (hm : MeansFrom useStyle cvrs means) (hlen : mvrs.length = cvrs.length) (hu : 0 < u)
    (hcv : ∀ c ∈ cvrs, 0 ≤ c.a ∧ c.a ≤ u) (hmv : ∀ m ∈ mvrs, 0 ≤ m.a ∧ m.a ≤ u)
    (hne : C03.aud useStyle cvrs ≠ [])
    (hph : ∀ c ∈ C03.aud useStyle cvrs, c.phantom = true → usesPool means c = false → c.a = 1 / 2)
    (margin U : XR) (hmargin : setMarginFromCvrs 1 useStyle ty u cvrs = .ok (margin, U))
    (data : String → String → MCard → Option ℚ) (T : String → String → SeqTest) (s : State)
    (c : Contest) (hc : c ∈ s) (a : Assertion) (ha : a ∈ c.assertions)
    (hdata : data c.id a.name = cardDatum ty useStyle margin u means)
    (sqrtF : ℚ → ℚ) (cfg : NM.Cfg) (test : NM.Test)
    (hN : cfg.N = some (C03.aud useStyle cvrs).length) (ht : cfg.t = 1 / 2) (hcu : XR.fin cfg.u = U)
    (hT : T c.id a.name = NM.run sqrtF cfg test)
    (hdoc : C01.DocumentedFinite sqrtF cfg test)
    (hr0 : 0 < c.riskLimit) (hr1 : c.riskLimit < 1)
    (hfalse : (C03.mvrA useStyle mvrs cvrs).sum ≤ ((C03.mvrA useStyle mvrs cvrs).length : ℚ) / 2) :
    hitG (auditCompleteOpt data T s) (mvrs.zip cvrs).length (mvrs.zip cvrs) [] ≤ c.riskLimit := by
  -- C03: the margin is a number `v < 2u`, the data of the whole population are `B`, and the identity
  obtain ⟨v, B, h1, h2, hBlen, hMlen, h2uv, hid⟩ :=
    C03.overstatement_identity ty hty useStyle u cvrs mvrs means none hm hlen hu (fun c h => (hcv c h).2) hne hph
  rw [h1] at hmargin
  simp only [Except.ok.injEq, Prod.mk.injEq] at hmargin
  obtain ⟨rfl, rfl⟩ := hmargin
  have hcfgu : cfg.u = 2 / (2 - v / u) := XR.fin.inj hcu
  have hune : u ≠ 0 := ne_of_gt hu
  have hden : 2 - v / u ≠ 0 := by
    have : 2 - v / u = (2 * u - v) / u := by field_simp
    rw [this]
    exact ne_of_gt (div_pos h2uv hu)
  set cards := mvrs.zip cvrs with hcards
  have hsub : ∀ p ∈ cards, p.2 ∈ cvrs := fun p hp => (List.of_mem_zip hp).2
  -- the data of the cards, explicitly
  have hfm : cards.filterMap (data c.id a.name) = cards.filterMap (datumFormula useStyle v u cvrs means) := by
    rw [hdata]
    apply List.filterMap_congr
    intro p hp
    exact cardDatum_eq ty hty useStyle v u cvrs means hm hune hden p (hsub p hp)
  -- they are C03's `B`
  have hB : B = cards.filterMap (datumFormula useStyle v u cvrs means) := by
    have h3 := sample_data_formula ty hty useStyle true none v u cvrs means hm hune hden cards hsub
      (fun p _ => C03.contributes_all useStyle none p.2)
    rw [hcards, List.map_fst_zip (by omega), List.map_snd_zip (by omega), h2] at h3
    simp only [Except.ok.injEq, Prod.mk.injEq, and_true] at h3
    exact (List.map_injective_iff.mpr (fun _ _ h => XR.fin.inj h)) h3
  have hnA : 0 < (C03.aud useStyle cvrs).length := List.length_pos_iff.mpr hne
  apply audit_risk_limit_style_run data T s c hc a ha cards sqrtF cfg test _ hT hdoc hr0 hr1
  · -- C06: every datum lies in `[0, 2/(2 − v/u)]`
    intro x hx
    rw [hfm] at hx
    obtain ⟨p, hp, hpx⟩ := List.mem_filterMap.mp hx
    unfold datumFormula at hpx
    split at hpx
    · rename_i hpass
      cases hpx
      rw [hcfgu]
      have hpA : p.2 ∈ C03.aud useStyle cvrs := List.mem_filter.mpr ⟨hsub p hp, hpass⟩
      exact C06.ovA_range hu (by linarith) (score_range hm hcv hph p.2 hpA)
        (C06.mvrAssort_range useStyle p.1 u hu (hmv p.1 (List.of_mem_zip hp).1))
    · cases hpx
  · -- C03: the assertion is false on the manual records, so the data average at most 1/2
    rw [hfm, ← hB, ht]
    have hn : (0 : ℚ) < (B.length : ℚ) := by rw [hBlen]; exact_mod_cast hnA
    have hMn : (0 : ℚ) < ((C03.mvrA useStyle mvrs cvrs).length : ℚ) := by rw [hMlen]; exact_mod_cast hnA
    have hmean : (C03.mvrA useStyle mvrs cvrs).sum / ((C03.mvrA useStyle mvrs cvrs).length : ℚ) ≤ 1 / 2 := by
      rw [div_le_iff₀ hMn]; linarith
    have hrhs : (2 * ((C03.mvrA useStyle mvrs cvrs).sum / ((C03.mvrA useStyle mvrs cvrs).length : ℚ)) - 1)
        / (2 * (2 * u - v)) ≤ 0 :=
      div_nonpos_of_nonpos_of_nonneg (by linarith) (by linarith)
    have hBmean : B.sum / (B.length : ℚ) ≤ 1 / 2 := by linarith
    rw [div_le_iff₀ hn] at hBmean
    linarith
  · rw [hfm, ← hB, hBlen]
    exact hN

/-! ### non-vacuity

C03's example population, ONEAudit under style-based sampling, `u = 1`: five cards — a pooled card (`A = 1`), a pooled
phantom, an unpooled card (`A = 0`), a pooled card that does not list the contest (not under audit: no datum), an
unpooled phantom (`A = 1/2`); manual records: a discrepancy, an unfindable card, a record lacking the contest,
(unused), a vote for the winner.  Pool mean 3/4, margin 0, test bound 1; the data of the four cards under audit
are 1/8, 1/8, 1/2, 3/4 and the assorter mean over the manual records is 1/4: the assertion is false. -/

section example_
open Shangrla.NM

def cfgF : Cfg := { N := some 4, u := 1, t := 1/2, randomOrder := true, kw := { eta := some (3/4) } }
def dataF : String → String → MCard → Option ℚ :=
  fun _ _ => cardDatum .oneaudit true (XR.fin 0) 1 (some C03.exMeans)
def TF : String → String → SeqTest := fun _ _ => NM.run sqrtRat cfgF (.alpha .fixedAlt)
def sF : State := [{ id := "c", riskLimit := 9/10, assertions := [{ name := "a" }] }]
def cardsF : List MCard := C03.exMvrs.zip C03.exCvrs

/-- the data are read off the model: a pooled card, a pooled phantom whose card is unfindable, a card whose manual
record lacks the contest, a card not under audit (no datum), an unpooled phantom -/
example : cardsF.map (dataF "c" "a") = [some (1 / 8), some (1 / 8), some (1 / 2), none, some (3 / 4)] := by
  decide +kernel

/-- every hypothesis of `comparison_full_risk_limit` is satisfied by this population ... -/
example : hitG (auditCompleteOpt dataF TF sF) 5 cardsF [] ≤ 9/10 :=
  comparison_full_risk_limit .oneaudit (Or.inr rfl) true 1 C03.exCvrs C03.exMvrs (some C03.exMeans)
    (MeansFrom.set none C03.exMeans (by decide +kernel)) rfl (by norm_num)
    (by decide +kernel) (by decide +kernel) (by decide +kernel) (by decide +kernel)
    (XR.fin 0) (XR.fin 1) (by decide +kernel)
    dataF TF sF _ (List.mem_singleton.2 rfl) { name := "a" } (by simp) rfl
    sqrtRat cfgF (.alpha .fixedAlt) rfl rfl rfl rfl
    ⟨by norm_num [cfgF], ⟨by norm_num [cfgF, eps], by norm_num [cfgF, eps], by norm_num [cfgF]⟩, trivial⟩
    (by norm_num) (by norm_num) (by decide +kernel)

/-- ... and the bounded event really happens: over the 120 orders of the five cards the audit is reported
complete with probability 1/3 (kernel-computed; the card not under audit changes nothing) -/
theorem example_comparison_full_exact : hitG (auditCompleteOpt dataF TF sF) 5 cardsF [] = 1/3 := by
  decide +kernel

end example_

end Shangrla.RiskLimit
