/-
  C04 for the second IRV assertion generator of the anchored code, shangrla/raire/simp_assertions.py:
  `simple_IRV_assertions` (the NEN assertion "winner beats runner_up once everybody else is gone" plus
  NEB(winner, c) for every other candidate, each only if its tallies allow it; what could not be asserted is
  listed in `failed_to_assert`) and `sim_irv` (the plain IRV count the script takes (winner, runner_up) from).

  Theorems are about `Shangrla.Simp.simpleIrvAssertions` / `Shangrla.Simp.simIrv`, the literal models the driver
  executes (Model/SimpAssertions.lean), and are stated with the vocabulary of the RAIRE theorems (Lemmas/RaireSpec.lean:
  `holds`, `Fam`, `contradicts`, `Alt`, `Sufficient`, `validIRV`), i.e. with the SAME tally definitions.
-/
import Shangrla.Lemmas.SimpSpec
import Shangrla.Props.C04

namespace Shangrla.C04
open Shangrla.Raire Shangrla.Raire.Spec Shangrla.Simp

set_option linter.unusedSectionVars false

variable {α : Type} [DecidableEq α]

/-! ### simple_IRV_assertions -/

/-- what the returned list consists of: possibly the NEN assertion (first), then NEB(winner, c) for candidates
`c` other than winner and runner_up -/
theorem simple_members (C : Contest α) (cvrs : List (Option (Ballot α))) (winner runnerUp : α)
    (a : Assertion α Unit) (ha : a ∈ (simpleIrvAssertions C cvrs winner runnerUp).1) :
    (a = nenOf winner runnerUp (othersOf C winner runnerUp) (countsOf C cvrs winner runnerUp) ∧
      (countsOf C cvrs winner runnerUp).rTally1 < (countsOf C cvrs winner runnerUp).wTally1) ∨
    ∃ c ∈ othersOf C winner runnerUp, a = nebOf winner c (countsOf C cvrs winner runnerUp) ∧
      dictGet (countsOf C cvrs winner runnerUp).maxCW2 c < (countsOf C cvrs winner runnerUp).minW2 := by
  rw [simple_assertions_eq, List.mem_append] at ha
  rcases ha with ha | ha
  · left
    split at ha
    · rename_i h
      exact ⟨by simpa using ha, h⟩
    · cases ha
  · right
    obtain ⟨c, hc, rfl⟩ := List.mem_map.1 ha
    rw [List.mem_filter] at hc
    exact ⟨c, hc.1, rfl, by simpa using hc.2⟩

/-- **C04 (a), truth.** Every assertion `simple_IRV_assertions` returns holds on the CVRs with exactly the tallies
it reports, winner strictly larger — the tallies being those of the RAIRE theorems (`nebVoteW`/`nebVoteL` sums over
the cards for NEB, `voteForCand` sums over the ballots for NEN). For every reported (winner, runner_up), candidates
or not. -/
theorem simple_true (C : Contest α) (cvrs : List (Option (Ballot α))) (winner runnerUp : α)
    (hC : C.candidates.Nodup) :
    ∀ a ∈ (simpleIrvAssertions C cvrs winner runnerUp).1, holds cvrs a := by
  intro a ha
  obtain ⟨h1, h2, h3, h4⟩ := countBallots_spec winner runnerUp (othersOf C winner runnerUp) cvrs
  rcases simple_members C cvrs winner runnerUp a ha with ⟨rfl, hlt⟩ | ⟨c, hc, rfl, hlt⟩
  · exact ⟨h1, h2, hlt⟩
  · have hcount : (othersOf C winner runnerUp).count c = 1 := by
      rw [(nodup_othersOf C hC winner runnerUp).count, if_pos hc]
    exact ⟨h3, h4 c hcount, hlt⟩

/-- the returned assertions are members of the family of true NEB/NEN assertions of the contest (`Fam`, the family
the RAIRE theorems quantify over), when winner and runner_up are candidates; `valid_order_not_excluded` applies -/
theorem simple_fam (asn : Nat → Nat → Nat → Nat → Unit) (C : Contest α) (cvrs : List (Option (Ballot α)))
    (winner runnerUp : α) (hC : C.candidates.Nodup) (hw : winner ∈ C.candidates) (hr : runnerUp ∈ C.candidates) :
    ∀ a ∈ (simpleIrvAssertions C cvrs winner runnerUp).1, Fam asn C cvrs a := by
  intro a ha
  have hh := simple_true C cvrs winner runnerUp hC a ha
  rcases simple_members C cvrs winner runnerUp a ha with ⟨rfl, hlt⟩ | ⟨c, hc, rfl, hlt⟩
  · refine ⟨hw, hr, ?_, fun _ => ⟨?_, ?_, ?_⟩, hh, rfl⟩
    · intro heq
      have heq' : winner = runnerUp := heq
      subst heq'
      obtain ⟨h1, h2, _⟩ := countBallots_spec winner winner (othersOf C winner winner) cvrs
      simp only [countsOf] at hlt
      omega
    · intro h; exact ((mem_othersOf C _ _ _).1 h).2.1 rfl
    · intro h; exact ((mem_othersOf C _ _ _).1 h).2.2 rfl
    · intro y hy; exact ((mem_othersOf C _ _ _).1 hy).1
  · obtain ⟨hcc, hcw, _⟩ := (mem_othersOf C _ _ _).1 hc
    refine ⟨hw, hcc, fun h => hcw h.symm, ?_, hh, rfl⟩
    intro h
    simp [nebOf] at h

/-- `failed_to_assert = []` means that all assertions could be formed -/
theorem simple_complete_iff (C : Contest α) (cvrs : List (Option (Ballot α))) (winner runnerUp : α) :
    (simpleIrvAssertions C cvrs winner runnerUp).2 = [] ↔
      (countsOf C cvrs winner runnerUp).rTally1 < (countsOf C cvrs winner runnerUp).wTally1 ∧
      ∀ c ∈ othersOf C winner runnerUp,
        dictGet (countsOf C cvrs winner runnerUp).maxCW2 c < (countsOf C cvrs winner runnerUp).minW2 := by
  rw [simple_failed_eq, List.append_eq_nil_iff, List.map_eq_nil_iff, List.filter_eq_nil_iff]
  constructor
  · rintro ⟨h1, h2⟩
    refine ⟨?_, fun c hc => ?_⟩
    · split at h1
      · assumption
      · cases h1
    · simpa using h2 c hc
  · rintro ⟨h1, h2⟩
    refine ⟨by rw [if_pos h1], fun c hc => ?_⟩
    simpa using h2 c hc

/-- **C04 (b), sufficiency.** If `failed_to_assert` is empty (all assertions could be formed) and the reported
winner is a candidate, the returned set excludes every alternative winner: every complete elimination order ending in
another candidate is contradicted by a returned assertion. (No hypothesis on runner_up: if it equals the winner the
NEN assertion cannot be formed; if it is not a candidate the NEB assertions alone suffice.) -/
theorem simple_sufficient (C : Contest α) (cvrs : List (Option (Ballot α))) (winner runnerUp : α)
    (hC : C.candidates.Nodup) (hw : winner ∈ C.candidates)
    (hcomplete : (simpleIrvAssertions C cvrs winner runnerUp).2 = []) :
    Sufficient C.candidates winner (simpleIrvAssertions C cvrs winner runnerUp).1 := by
  obtain ⟨hnen, hneb⟩ := (simple_complete_iff C cvrs winner runnerUp).1 hcomplete
  intro π ⟨hperm, pre, x, hπ, hx⟩
  have hnd : π.Nodup := hperm.nodup_iff.2 hC
  -- the winner occurs in `pre`
  have hwπ : winner ∈ π := hperm.mem_iff.2 hw
  have hwpre : winner ∈ pre := by
    rw [hπ, List.mem_append] at hwπ
    rcases hwπ with h | h
    · exact h
    · simp at h; exact absurd h.symm hx
  obtain ⟨p1, p2, rfl⟩ := List.append_of_mem hwpre
  have hπ' : π = p1 ++ winner :: (p2 ++ [x]) := by rw [hπ]; simp
  have hnd' := hnd
  rw [hπ', List.nodup_append] at hnd'
  obtain ⟨_, hnd2, hdisj⟩ := hnd'
  have hwpost : winner ∉ p2 ++ [x] := (List.nodup_cons.1 hnd2).1
  by_cases hex : ∃ y ∈ p2 ++ [x], y ≠ runnerUp
  · -- some candidate other than runner_up outlasts the winner: NEB(winner, y)
    obtain ⟨y, hy, hyr⟩ := hex
    have hyw : y ≠ winner := fun h => hwpost (h ▸ hy)
    have hyc : y ∈ C.candidates := hperm.mem_iff.1 (by rw [hπ']; simp [List.mem_append] at hy ⊢; tauto)
    have hyo : y ∈ othersOf C winner runnerUp := (mem_othersOf C _ _ _).2 ⟨hyc, hyw, hyr⟩
    refine ⟨nebOf winner y (countsOf C cvrs winner runnerUp), ?_, p1, p2 ++ [x], hπ', hy⟩
    rw [simple_assertions_eq, List.mem_append]
    right
    exact List.mem_map.2 ⟨y, List.mem_filter.2 ⟨hyo, by simpa using hneb y hyo⟩, rfl⟩
  · -- everybody after the winner is runner_up: the order ends `..., winner, runner_up`
    have hall : ∀ y ∈ p2 ++ [x], y = runnerUp := fun y hy =>
      Classical.byContradiction fun h => hex ⟨y, hy, h⟩
    have hp2 : p2 = [] := by
      cases p2 with
      | nil => rfl
      | cons z p2 =>
        exfalso
        have h1 : z = runnerUp := hall z (by simp)
        have h2 : x = runnerUp := hall x (by simp)
        have hnd3 := (List.nodup_cons.1 hnd2).2
        rw [List.cons_append, List.nodup_cons] at hnd3
        exact hnd3.1 (by rw [h1, ← h2]; simp)
    subst hp2
    have hxr : x = runnerUp := hall x (by simp)
    subst hxr
    refine ⟨nenOf winner x (othersOf C winner x) (countsOf C cvrs winner x), ?_, p1, [x], hπ',
      fun y => ?_, List.mem_singleton.2 rfl⟩
    · rw [simple_assertions_eq, List.mem_append]
      left
      rw [if_pos hnen]; exact List.mem_singleton.2 rfl
    · show y ∈ othersOf C winner x ↔ y ∈ p1
      rw [mem_othersOf]
      constructor
      · rintro ⟨hyc, hyw, hyx⟩
        have : y ∈ π := hperm.mem_iff.2 hyc
        rw [hπ'] at this
        simp only [List.nil_append, List.mem_append, List.mem_cons, List.not_mem_nil, or_false] at this
        rcases this with h | h | h
        · exact h
        · exact absurd h hyw
        · exact absurd h hyx
      · intro hy
        refine ⟨hperm.mem_iff.1 (by rw [hπ']; simp [hy]), ?_, ?_⟩
        · rintro rfl; exact hdisj y hy y (by simp) rfl
        · rintro rfl; exact hdisj y hy y (by simp) rfl

/-- **C04 (c), "in particular".** With well-formed ballots, if the reported winner is not the unique possible IRV
winner — some possible IRV count of the CVRs (ties broken any way) ends in another candidate — then
`simple_IRV_assertions` cannot form all its assertions: `failed_to_assert` is not empty (the script then reports
"Full Recount"). -/
theorem simple_complete_wrong_winner (C : Contest α) (cvrs : List (Option (Ballot α))) (winner runnerUp : α)
    (hC : C.candidates.Nodup) (hw : winner ∈ C.candidates)
    (hwf : ∀ b ∈ cvrs.filterMap id, BallotWF b) (π : List α) (hπ : Alt C.candidates winner π)
    (hv : validIRV (cvrs.filterMap id) π) :
    (simpleIrvAssertions C cvrs winner runnerUp).2 ≠ [] := by
  intro hcomplete
  obtain ⟨a, ha, hc⟩ := simple_sufficient C cvrs winner runnerUp hC hw hcomplete π hπ
  obtain ⟨h1, h2, h3⟩ := simple_true C cvrs winner runnerUp hC a ha
  have := valid_not_contradicted cvrs hwf π (hπ.1.nodup_iff.2 hC) hv a.kind a.winner a.loser a.eliminated hc
  omega

/-- the same, read forwards: if all assertions could be formed, every possible IRV count of the CVRs is won by the
reported winner -/
theorem simple_complete_unique_winner (C : Contest α) (cvrs : List (Option (Ballot α))) (winner runnerUp : α)
    (hC : C.candidates.Nodup) (hw : winner ∈ C.candidates)
    (hwf : ∀ b ∈ cvrs.filterMap id, BallotWF b)
    (hcomplete : (simpleIrvAssertions C cvrs winner runnerUp).2 = [])
    (π : List α) (hperm : π.Perm C.candidates) (hv : validIRV (cvrs.filterMap id) π) :
    π.getLast? = some winner := by
  have hne : π ≠ [] := by
    rintro rfl
    exact absurd (hperm.mem_iff.2 hw) (by simp)
  obtain ⟨pre, x, rfl⟩ : ∃ pre x, π = pre ++ [x] :=
    ⟨π.dropLast, π.getLast hne, (List.dropLast_append_getLast hne).symm⟩
  by_cases hx : x = winner
  · simp [hx]
  · exact absurd hcomplete
      (simple_complete_wrong_winner C cvrs winner runnerUp hC hw hwf _ ⟨hperm, pre, x, rfl, hx⟩ hv)

end Shangrla.C04
