/-
  C04 for the second IRV assertion generator of the anchored code, shangrla/raire/simp_assertions.py:
  `simple_IRV_assertions` (the NEN assertion "winner beats runner_up once everybody else is gone" plus
  NEB(winner, c) for every other candidate, each only if its tallies allow it; what could not be asserted is
  listed in `failed_to_assert`) and `sim_irv` (the plain IRV count the script takes (winner, runner_up) from).

  Theorems are about `Shangrla.Simp.simpleIrvAssertions` / `Shangrla.Simp.simIrv`, the literal models the driver
  executes (Model/SimpAssertions.lean), and are stated with the vocabulary of the RAIRE theorems (Lemmas/RaireSpec.lean:
  `holds`, `Fam`, `contradicts`, `Alt`, `Sufficient`, `validIRV`), i.e. with the SAME tally definitions.
-/
import Shangrla.Lemmas.SimpSpec
import Shangrla.Props.C04
import Shangrla.Props.C15

namespace Shangrla.C04
open Shangrla.Raire Shangrla.Raire.Spec Shangrla.Simp

set_option linter.unusedSectionVars false

variable {α : Type} [DecidableEq α]

/-! ### simple_IRV_assertions -/

/-- what the returned list consists of: possibly the NEN assertion (first), then NEB(winner, c) for candidates
`c` other than winner and runner_up -/
theorem simple_members (C : Contest α) (cvrs : List (Option (Ballot α))) (winner runnerUp : α)
    (a : Assertion α Unit) (ha : a ∈ (simpleIrvAssertions C cvrs winner runnerUp).1) :
    (a = nenOf winner runnerUp (othersOf C winner runnerUp) (countsOf C cvrs winner runnerUp) ∧
      (countsOf C cvrs winner runnerUp).rTally1 < (countsOf C cvrs winner runnerUp).wTally1) ∨
    ∃ c ∈ othersOf C winner runnerUp, a = nebOf winner c (countsOf C cvrs winner runnerUp) ∧
      dictGet (countsOf C cvrs winner runnerUp).maxCW2 c < (countsOf C cvrs winner runnerUp).minW2 := by
  rw [simple_assertions_eq, List.mem_append] at ha
  rcases ha with ha | ha
  · left
    split at ha
    · rename_i h
      exact ⟨by simpa using ha, h⟩
    · cases ha
  · right
    obtain ⟨c, hc, rfl⟩ := List.mem_map.1 ha
    rw [List.mem_filter] at hc
    exact ⟨c, hc.1, rfl, by simpa using hc.2⟩

/-- **C04 (a), truth.** Every assertion `simple_IRV_assertions` returns holds on the CVRs with exactly the tallies
it reports, winner strictly larger — the tallies being those of the RAIRE theorems (`nebVoteW`/`nebVoteL` sums over
the cards for NEB, `voteForCand` sums over the ballots for NEN). For every reported (winner, runner_up), candidates
or not. -/
theorem simple_true (C : Contest α) (cvrs : List (Option (Ballot α))) (winner runnerUp : α)
    (hC : C.candidates.Nodup) :
    ∀ a ∈ (simpleIrvAssertions C cvrs winner runnerUp).1, holds cvrs a := by
  intro a ha
  obtain ⟨h1, h2, h3, h4⟩ := countBallots_spec winner runnerUp (othersOf C winner runnerUp) cvrs
  rcases simple_members C cvrs winner runnerUp a ha with ⟨rfl, hlt⟩ | ⟨c, hc, rfl, hlt⟩
  · exact ⟨h1, h2, hlt⟩
  · have hcount : (othersOf C winner runnerUp).count c = 1 := by
      rw [(nodup_othersOf C hC winner runnerUp).count, if_pos hc]
    exact ⟨h3, h4 c hcount, hlt⟩

/-- the returned assertions are members of the family of true NEB/NEN assertions of the contest (`Fam`, the family
the RAIRE theorems quantify over), when winner and runner_up are candidates; `valid_order_not_excluded` applies -/
theorem simple_fam (asn : Nat → Nat → Nat → Nat → Unit) (C : Contest α) (cvrs : List (Option (Ballot α)))
    (winner runnerUp : α) (hC : C.candidates.Nodup) (hw : winner ∈ C.candidates) (hr : runnerUp ∈ C.candidates) :
    ∀ a ∈ (simpleIrvAssertions C cvrs winner runnerUp).1, Fam asn C cvrs a := by
  intro a ha
  have hh := simple_true C cvrs winner runnerUp hC a ha
  rcases simple_members C cvrs winner runnerUp a ha with ⟨rfl, hlt⟩ | ⟨c, hc, rfl, hlt⟩
  · refine ⟨hw, hr, ?_, fun _ => ⟨?_, ?_, ?_⟩, hh, rfl⟩
    · intro heq
      have heq' : winner = runnerUp := heq
      subst heq'
      obtain ⟨h1, h2, _⟩ := countBallots_spec winner winner (othersOf C winner winner) cvrs
      simp only [countsOf] at hlt
      omega
    · intro h; exact ((mem_othersOf C _ _ _).1 h).2.1 rfl
    · intro h; exact ((mem_othersOf C _ _ _).1 h).2.2 rfl
    · intro y hy; exact ((mem_othersOf C _ _ _).1 hy).1
  · obtain ⟨hcc, hcw, _⟩ := (mem_othersOf C _ _ _).1 hc
    refine ⟨hw, hcc, fun h => hcw h.symm, ?_, hh, rfl⟩
    intro h
    simp [nebOf] at h

/-- `failed_to_assert = []` means that all assertions could be formed -/
theorem simple_complete_iff (C : Contest α) (cvrs : List (Option (Ballot α))) (winner runnerUp : α) :
    (simpleIrvAssertions C cvrs winner runnerUp).2 = [] ↔
      (countsOf C cvrs winner runnerUp).rTally1 < (countsOf C cvrs winner runnerUp).wTally1 ∧
      ∀ c ∈ othersOf C winner runnerUp,
        dictGet (countsOf C cvrs winner runnerUp).maxCW2 c < (countsOf C cvrs winner runnerUp).minW2 := by
  rw [simple_failed_eq, List.append_eq_nil_iff, List.map_eq_nil_iff, List.filter_eq_nil_iff]
  constructor
  · rintro ⟨h1, h2⟩
    refine ⟨?_, fun c hc => ?_⟩
    · split at h1
      · assumption
      · cases h1
    · simpa using h2 c hc
  · rintro ⟨h1, h2⟩
    refine ⟨by rw [if_pos h1], fun c hc => ?_⟩
    simpa using h2 c hc

/-- **C04 (b), sufficiency.** If `failed_to_assert` is empty (all assertions could be formed) and the reported
winner is a candidate, the returned set excludes every alternative winner: every complete elimination order ending in
another candidate is contradicted by a returned assertion. (No hypothesis on runner_up: if it equals the winner the
NEN assertion cannot be formed; if it is not a candidate the NEB assertions alone suffice.) -/
theorem simple_sufficient (C : Contest α) (cvrs : List (Option (Ballot α))) (winner runnerUp : α)
    (hC : C.candidates.Nodup) (hw : winner ∈ C.candidates)
    (hcomplete : (simpleIrvAssertions C cvrs winner runnerUp).2 = []) :
    Sufficient C.candidates winner (simpleIrvAssertions C cvrs winner runnerUp).1 := by
  obtain ⟨hnen, hneb⟩ := (simple_complete_iff C cvrs winner runnerUp).1 hcomplete
  intro π ⟨hperm, pre, x, hπ, hx⟩
  have hnd : π.Nodup := hperm.nodup_iff.2 hC
  -- the winner occurs in `pre`
  have hwπ : winner ∈ π := hperm.mem_iff.2 hw
  have hwpre : winner ∈ pre := by
    rw [hπ, List.mem_append] at hwπ
    rcases hwπ with h | h
    · exact h
    · simp at h; exact absurd h.symm hx
  obtain ⟨p1, p2, rfl⟩ := List.append_of_mem hwpre
  have hπ' : π = p1 ++ winner :: (p2 ++ [x]) := by rw [hπ]; simp
  have hnd' := hnd
  rw [hπ', List.nodup_append] at hnd'
  obtain ⟨_, hnd2, hdisj⟩ := hnd'
  have hwpost : winner ∉ p2 ++ [x] := (List.nodup_cons.1 hnd2).1
  by_cases hex : ∃ y ∈ p2 ++ [x], y ≠ runnerUp
  · -- some candidate other than runner_up outlasts the winner: NEB(winner, y)
    obtain ⟨y, hy, hyr⟩ := hex
    have hyw : y ≠ winner := fun h => hwpost (h ▸ hy)
    have hyc : y ∈ C.candidates := hperm.mem_iff.1 (by rw [hπ']; simp [List.mem_append] at hy ⊢; tauto)
    have hyo : y ∈ othersOf C winner runnerUp := (mem_othersOf C _ _ _).2 ⟨hyc, hyw, hyr⟩
    refine ⟨nebOf winner y (countsOf C cvrs winner runnerUp), ?_, p1, p2 ++ [x], hπ', hy⟩
    rw [simple_assertions_eq, List.mem_append]
    right
    exact List.mem_map.2 ⟨y, List.mem_filter.2 ⟨hyo, by simpa using hneb y hyo⟩, rfl⟩
  · -- everybody after the winner is runner_up: the order ends `..., winner, runner_up`
    have hall : ∀ y ∈ p2 ++ [x], y = runnerUp := fun y hy =>
      Classical.byContradiction fun h => hex ⟨y, hy, h⟩
    have hp2 : p2 = [] := by
      cases p2 with
      | nil => rfl
      | cons z p2 =>
        exfalso
        have h1 : z = runnerUp := hall z (by simp)
        have h2 : x = runnerUp := hall x (by simp)
        have hnd3 := (List.nodup_cons.1 hnd2).2
        rw [List.cons_append, List.nodup_cons] at hnd3
        exact hnd3.1 (by rw [h1, ← h2]; simp)
    subst hp2
    have hxr : x = runnerUp := hall x (by simp)
    subst hxr
    refine ⟨nenOf winner x (othersOf C winner x) (countsOf C cvrs winner x), ?_, p1, [x], hπ',
      fun y => ?_, List.mem_singleton.2 rfl⟩
    · rw [simple_assertions_eq, List.mem_append]
      left
      rw [if_pos hnen]; exact List.mem_singleton.2 rfl
    · show y ∈ othersOf C winner x ↔ y ∈ p1
      rw [mem_othersOf]
      constructor
      · rintro ⟨hyc, hyw, hyx⟩
        have : y ∈ π := hperm.mem_iff.2 hyc
        rw [hπ'] at this
        simp only [List.nil_append, List.mem_append, List.mem_cons, List.not_mem_nil, or_false] at this
        rcases this with h | h | h
        · exact h
        · exact absurd h hyw
        · exact absurd h hyx
      · intro hy
        refine ⟨hperm.mem_iff.1 (by rw [hπ']; simp [hy]), ?_, ?_⟩
        · rintro rfl; exact hdisj y hy y (by simp) rfl
        · rintro rfl; exact hdisj y hy y (by simp) rfl

/-- **C04 (c), "in particular".** With well-formed ballots, if the reported winner is not the unique possible IRV
winner — some possible IRV count of the CVRs (ties broken any way) ends in another candidate — then
`simple_IRV_assertions` cannot form all its assertions: `failed_to_assert` is not empty (the script then reports
"Full Recount"). -/
theorem simple_complete_wrong_winner (C : Contest α) (cvrs : List (Option (Ballot α))) (winner runnerUp : α)
    (hC : C.candidates.Nodup) (hw : winner ∈ C.candidates)
    (hwf : ∀ b ∈ cvrs.filterMap id, BallotWF b) (π : List α) (hπ : Alt C.candidates winner π)
    (hv : validIRV (cvrs.filterMap id) π) :
    (simpleIrvAssertions C cvrs winner runnerUp).2 ≠ [] := by
  intro hcomplete
  obtain ⟨a, ha, hc⟩ := simple_sufficient C cvrs winner runnerUp hC hw hcomplete π hπ
  obtain ⟨h1, h2, h3⟩ := simple_true C cvrs winner runnerUp hC a ha
  have := valid_not_contradicted cvrs hwf π (hπ.1.nodup_iff.2 hC) hv a.kind a.winner a.loser a.eliminated hc
  omega

/-- the same, read forwards: if all assertions could be formed, every possible IRV count of the CVRs is won by the
reported winner -/
theorem simple_complete_unique_winner (C : Contest α) (cvrs : List (Option (Ballot α))) (winner runnerUp : α)
    (hC : C.candidates.Nodup) (hw : winner ∈ C.candidates)
    (hwf : ∀ b ∈ cvrs.filterMap id, BallotWF b)
    (hcomplete : (simpleIrvAssertions C cvrs winner runnerUp).2 = [])
    (π : List α) (hperm : π.Perm C.candidates) (hv : validIRV (cvrs.filterMap id) π) :
    π.getLast? = some winner := by
  have hne : π ≠ [] := by
    rintro rfl
    exact absurd (hperm.mem_iff.2 hw) (by simp)
  obtain ⟨pre, x, rfl⟩ : ∃ pre x, π = pre ++ [x] :=
    ⟨π.dropLast, π.getLast hne, (List.dropLast_append_getLast hne).symm⟩
  by_cases hx : x = winner
  · simp [hx]
  · exact absurd hcomplete
      (simple_complete_wrong_winner C cvrs winner runnerUp hC hw hwf _ ⟨hperm, pre, x, rfl, hx⟩ hv)

/-! ### sim_irv -/

/-- **sim_irv follows a possible IRV count.** On a contest (duplicate-free candidate list of at least two) `sim_irv`
returns the last two candidates `(w, r)` of a complete elimination order that is a possible IRV count of the CVRs:
at every round the candidate eliminated has a smallest tally among those standing. `validIRV` allows ties to be
broken either way, so this holds with or without ties (the rule of the code — the first candidate in `standing`
order among those with the smallest tally goes — is `Simp.pickMin_spec`). -/
theorem sim_irv_valid (C : Contest α) (cvrs : List (Option (Ballot α))) (hC : C.candidates.Nodup)
    (hn : 2 ≤ C.candidates.length) :
    ∃ pre w r, simIrv C cvrs = Res.ok (w, r) ∧ (pre ++ [r, w]).Perm C.candidates ∧
      validIRV (cvrs.filterMap id) (pre ++ [r, w]) := by
  have hne : C.candidates ≠ [] := by intro h; rw [h] at hn; simp at hn
  obtain ⟨order, s0, h1, h2, h3⟩ :=
    simLoop_spec (cvrs.filterMap id) C.candidates.length C.candidates [] hC hne (by omega)
  have hlen := h2.length_eq
  have hone : order ≠ [] := by intro h; rw [h] at hlen; simp at hlen; omega
  obtain ⟨pre, r, rfl⟩ : ∃ pre r, order = pre ++ [r] :=
    ⟨order.dropLast, order.getLast hone, (List.dropLast_append_getLast hone).symm⟩
  have hπ : pre ++ [r] ++ [s0] = pre ++ [r, s0] := by simp
  refine ⟨pre, s0, r, ?_, hπ ▸ h2, ?_⟩
  · simp only [simIrv, simIrvState, h1, List.nil_append]
    simp
  · intro p x q hsplit y hy
    have := h3 p x q (by rw [hπ]; exact hsplit) y hy
    simpa using this

/-- the pair `sim_irv` returns: two distinct candidates of the contest -/
theorem sim_irv_distinct_candidates (C : Contest α) (cvrs : List (Option (Ballot α))) (hC : C.candidates.Nodup)
    (hn : 2 ≤ C.candidates.length) (w r : α) (h : simIrv C cvrs = Res.ok (w, r)) :
    w ≠ r ∧ w ∈ C.candidates ∧ r ∈ C.candidates := by
  obtain ⟨pre, w', r', h1, h2, _⟩ := sim_irv_valid C cvrs hC hn
  rw [h] at h1
  injection h1 with h1
  obtain ⟨rfl, rfl⟩ := Prod.mk.inj h1
  have hnd : (pre ++ [r, w]).Nodup := h2.nodup_iff.2 hC
  refine ⟨?_, h2.mem_iff.1 (by simp), h2.mem_iff.1 (by simp)⟩
  rintro rfl
  rw [List.nodup_append] at hnd
  have := hnd.2.1
  simp at this

/-- **Termination and exceptions of sim_irv**, for every candidate list (repeated candidates included): with fewer
than two candidates it raises IndexError (`standing[0]` of an empty list / `eliminated[-1]` of an empty list),
otherwise it returns a pair — the `len(candidates)` loop iterations the model allows are never used up and
`standing.remove(None)` is never reached. -/
theorem sim_irv_terminates (C : Contest α) (cvrs : List (Option (Ballot α))) :
    (C.candidates.length < 2 ∧ simIrv C cvrs = Res.err Err.IndexError) ∨
    (2 ≤ C.candidates.length ∧ ∃ w r, simIrv C cvrs = Res.ok (w, r)) := by
  obtain ⟨s, e, h1, h2, h3, h4⟩ :=
    simLoop_total (cvrs.filterMap id) C.candidates.length C.candidates [] (by omega)
  by_cases hn : 2 ≤ C.candidates.length
  · right
    refine ⟨hn, ?_⟩
    have hs : s ≠ [] := h3 (by intro h; rw [h] at hn; simp at hn)
    have he : e ≠ [] := by
      intro h; rw [h] at h4; simp at h4; omega
    obtain ⟨s0, s', rfl⟩ := List.exists_cons_of_ne_nil hs
    refine ⟨s0, e.getLast he, ?_⟩
    simp only [simIrv, simIrvState, h1, List.getLast?_eq_some_getLast he]
  · left
    refine ⟨by omega, ?_⟩
    match hc : C.candidates with
    | [] => simp [simIrv, simIrvState, hc, simLoop]
    | [a] => simp [simIrv, simIrvState, hc, simLoop]
    | _ :: _ :: _ => rw [hc] at hn; simp at hn

/-- an IRV count without ties: at every round the eliminated candidate has strictly fewer votes than everybody
still standing -/
def StrictIRV (ballots : List (Ballot α)) (π : List α) : Prop :=
  ∀ pre x post, π = pre ++ x :: post → ∀ y ∈ post, tally ballots x pre < tally ballots y pre

/-- without ties the IRV count is unique: every possible count is the strict one -/
theorem irv_count_unique (ballots : List (Ballot α)) (π π' : List α) (hperm : π'.Perm π)
    (hs : StrictIRV ballots π) (hv : validIRV ballots π') : π' = π := by
  have key : ∀ (l e l' : List α), l'.Perm l →
      (∀ p x q, l = p ++ x :: q → ∀ y ∈ q, tally ballots x (e ++ p) < tally ballots y (e ++ p)) →
      (∀ p x q, l' = p ++ x :: q → ∀ y ∈ q, tally ballots x (e ++ p) ≤ tally ballots y (e ++ p)) → l' = l := by
    intro l
    induction l with
    | nil => intro e l' hp _ _; exact List.Perm.eq_nil hp
    | cons x l ih =>
      intro e l' hp hst hva
      cases l' with
      | nil => exact absurd hp.symm.eq_nil (by simp)
      | cons x' l' =>
        have hxx : x' = x := by
          apply Classical.byContradiction
          intro hne
          have h1 : x' ∈ l := by
            have : x' ∈ x :: l := hp.mem_iff.1 (by simp)
            rcases List.mem_cons.1 this with h | h
            · exact absurd h hne
            · exact h
          have h2 : x ∈ l' := by
            have : x ∈ x' :: l' := hp.mem_iff.2 (by simp)
            rcases List.mem_cons.1 this with h | h
            · exact absurd h.symm hne
            · exact h
          have a1 := hst [] x l rfl x' h1
          have a2 := hva [] x' l' rfl x h2
          omega
        subst hxx
        have hp' : l'.Perm l := hp.cons_inv
        congr 1
        apply ih (e ++ [x']) l' hp'
        · intro p z q hsplit y hy
          have := hst (x' :: p) z q (by rw [hsplit]; rfl) y hy
          simpa using this
        · intro p z q hsplit y hy
          have := hva (x' :: p) z q (by rw [hsplit]; rfl) y hy
          simpa using this
  exact key π [] π' hperm (by simpa [StrictIRV] using hs) (by simpa [validIRV] using hv)

/-- **sim_irv without ties**: if the CVRs have an IRV count `π` without ties, `sim_irv` returns its winner and its
runner-up -/
theorem sim_irv_no_ties (C : Contest α) (cvrs : List (Option (Ballot α))) (hC : C.candidates.Nodup)
    (hn : 2 ≤ C.candidates.length) (π : List α) (hπ : π.Perm C.candidates)
    (hs : StrictIRV (cvrs.filterMap id) π) :
    ∃ pre w r, π = pre ++ [r, w] ∧ simIrv C cvrs = Res.ok (w, r) := by
  obtain ⟨pre, w, r, h1, h2, h3⟩ := sim_irv_valid C cvrs hC hn
  exact ⟨pre, w, r, (irv_count_unique _ π _ (h2.trans hπ.symm) hs h3).symm, h1⟩

/-- **The script's use**: `simple_IRV_assertions` run on the pair `sim_irv` returns. If all assertions can be formed
(the script then prints an audit cost instead of "Full Recount"), the returned set is sufficient for the winner
`sim_irv` found, every member is true of the CVRs, and — ballots well formed — that winner is the winner of EVERY
possible IRV count of the CVRs. -/
theorem sim_then_simple (C : Contest α) (cvrs : List (Option (Ballot α))) (hC : C.candidates.Nodup)
    (hn : 2 ≤ C.candidates.length) (w r : α) (h : simIrv C cvrs = Res.ok (w, r))
    (hcomplete : (simpleIrvAssertions C cvrs w r).2 = []) :
    (∀ a ∈ (simpleIrvAssertions C cvrs w r).1, holds cvrs a) ∧
    Sufficient C.candidates w (simpleIrvAssertions C cvrs w r).1 ∧
    ((∀ b ∈ cvrs.filterMap id, BallotWF b) → ∀ π, π.Perm C.candidates → validIRV (cvrs.filterMap id) π →
      π.getLast? = some w) := by
  obtain ⟨_, hw, _⟩ := sim_irv_distinct_candidates C cvrs hC hn w r h
  exact ⟨simple_true C cvrs w r hC, simple_sufficient C cvrs w r hC hw hcomplete,
    fun hwf π hp hv => simple_complete_unique_winner C cvrs w r hC hw hwf hcomplete π hp hv⟩

/-! ### relation to RAIRE

The script runs both generators on the same contest and prints both audit costs. With the difficulty function
RAIRE is given, the simple set (when complete) is one of the sets RAIRE's optimum ranges over. -/

/-- a simple assertion with the difficulty the contest's difficulty function assigns to its tallies -/
def priced {D : Type} (asn : Nat → Nat → Nat → Nat → D) (C : Contest α) (a : Assertion α Unit) : Assertion α D :=
  { kind := a.kind, winner := a.winner, loser := a.loser, eliminated := a.eliminated, votesW := a.votesW,
    votesL := a.votesL, difficulty := asn a.votesW a.votesL (C.totBallots - (a.votesW + a.votesL)) C.totBallots,
    rulesOut := [] }

/-- a complete simple set, priced, is a competing set in the sense of C15: true assertions of the family RAIRE
searches, excluding every alternative winner -/
theorem simple_complete_competing {D : Type} (asn : Nat → Nat → Nat → Nat → D) (C : Contest α)
    (cvrs : List (Option (Ballot α))) (winner runnerUp : α) (hC : C.candidates.Nodup)
    (hw : winner ∈ C.candidates) (hr : runnerUp ∈ C.candidates)
    (hcomplete : (simpleIrvAssertions C cvrs winner runnerUp).2 = []) :
    C15.Competing asn C cvrs winner ((simpleIrvAssertions C cvrs winner runnerUp).1.map (priced asn C)) := by
  constructor
  · intro b hb
    obtain ⟨a, ha, rfl⟩ := List.mem_map.1 hb
    obtain ⟨h1, h2, h3, h4, h5, _⟩ := simple_fam (fun _ _ _ _ => ()) C cvrs winner runnerUp hC hw hr a ha
    exact ⟨h1, h2, h3, h4, h5, rfl⟩
  · intro π hπ
    obtain ⟨a, ha, hc⟩ := simple_sufficient C cvrs winner runnerUp hC hw hcomplete π hπ
    exact ⟨priced asn C a, List.mem_map.2 ⟨a, ha, rfl⟩, hc⟩

/-- **If the simple generator can form all its assertions, RAIRE finds an audit too, and never a costlier one**:
RAIRE's result is non-empty and its largest difficulty is at most the largest difficulty in the simple set. -/
theorem simple_complete_raire {D : Type} [DiffOrd D] [DiffOrd.Lawful D] (asn : Nat → Nat → Nat → Nat → D)
    (C : Contest α) (cvrs : List (Option (Ballot α))) (winner runnerUp : α) (hC : C.candidates.Nodup)
    (hn : 2 ≤ C.candidates.length) (hw : winner ∈ C.candidates) (hr : runnerUp ∈ C.candidates)
    (hcomplete : (simpleIrvAssertions C cvrs winner runnerUp).2 = [])
    (fuel : Nat) (as : List (Assertion α D)) (h : computeRaireAssertions asn C cvrs winner fuel = Res.ok as) :
    as ≠ [] ∧ ∀ m m', C15.IsMaxDiff as m →
      C15.IsMaxDiff ((simpleIrvAssertions C cvrs winner runnerUp).1.map (priced asn C)) m' →
      DiffOrd.le m m' = true := by
  have hS := simple_complete_competing asn C cvrs winner runnerUp hC hw hr hcomplete
  have hne := C15.raire_nonempty_of_possible asn C cvrs winner hC hn fuel as h _ hS
  exact ⟨hne, fun m m' hm hm' => (C15.raire_optimal asn C cvrs winner hC hn fuel as h hne m hm).2 _ m' hS hm'⟩

/-! ### Non-vacuity: concrete contests (tests of the statements' hypotheses, not of the theorems)

`CEx`, `cvrsEx` of Props/C04.lean: candidates 0, 1, 2; ballots 4 x (0,1), 3 x (1,2), 2 x (2,1): candidate 2 is
eliminated first and 1 beats 0 by 5 to 4. -/

/-- (is NEB, winner, loser, eliminated, tallies) of each returned assertion, and the failures -/
def simpSummary (r : List (Assertion Nat Unit) × List (Failure Nat)) :
    List (Bool × Nat × Nat × List Nat × Nat × Nat) × List (Bool × Nat × Nat × List Nat) :=
  (r.1.map fun a => (a.kind == .neb, a.winner, a.loser, a.eliminated, a.votesW, a.votesL),
   r.2.map fun f => (f.kind == .neb, f.winner, f.loser, f.eliminated))

def simSummary (r : Res (Nat × Nat)) : Option (Nat × Nat) :=
  match r with
  | Res.ok p => some p
  | _ => none

-- sim_irv: winner 1, runner-up 0
example : simSummary (simIrv CEx cvrsEx) = some (1, 0) := by rfl
-- simple_IRV_assertions on that pair: NEN(1,0 | 2 eliminated) 5 > 4 and NEB(1,2) 3 > 2, nothing failed
example : simpSummary (simpleIrvAssertions CEx cvrsEx 1 0) =
    ([(false, 1, 0, [2], 5, 4), (true, 1, 2, [], 3, 2)], []) := by rfl
-- reported winner 0 (wrong), runner-up 1: neither assertion can be formed (4 vs 5; 4 first preferences vs 5 mentions)
example : simpSummary (simpleIrvAssertions CEx cvrsEx 0 1) =
    ([], [(false, 0, 1, [2]), (true, 0, 2, [])]) := by rfl
-- right winner, wrong runner-up: NEN(1,2 | 0 eliminated) 7 > 2 holds, NEB(1,0) fails (3 vs 4)
example : simpSummary (simpleIrvAssertions CEx cvrsEx 1 2) =
    ([(false, 1, 2, [0], 7, 2)], [(true, 1, 0, [])]) := by rfl
-- winner = runner_up: the NEN comparison is 9 vs 9 and fails
example : simpSummary (simpleIrvAssertions CEx cvrsEx 1 1) =
    ([(true, 1, 2, [], 3, 2)], [(false, 1, 1, [0, 2]), (true, 1, 0, [])]) := by rfl
-- `simple_true`, `simple_sufficient` apply to the run on (1, 0): hypotheses satisfiable, conclusion non-trivial
example : (simpleIrvAssertions CEx cvrsEx 1 0).1 ≠ [] ∧
    (∀ a ∈ (simpleIrvAssertions CEx cvrsEx 1 0).1, holds cvrsEx a) ∧
    Sufficient CEx.candidates 1 (simpleIrvAssertions CEx cvrsEx 1 0).1 :=
  ⟨by decide, simple_true CEx cvrsEx 1 0 (by decide),
   simple_sufficient CEx cvrsEx 1 0 (by decide) (by decide) (by rfl)⟩
instance (b : Ballot Nat) : Decidable (BallotWF b) := by unfold BallotWF; infer_instance
-- `simple_complete_raire` on this contest: RAIRE (C04's example run) returns NEB(1,2) and NEN(1,0 | 2), the simple set
-- priced with the same difficulty function is the same two assertions: largest difficulty 9000 on both sides
example : (simpleIrvAssertions CEx cvrsEx 1 0).1.map (fun a => (priced asnEx CEx a).difficulty) = [9000, 9000] := by rfl
-- the hypotheses of `simple_complete_wrong_winner` for reported winner 0: the ballots are well formed and the
-- order 2, 0, 1 is a possible IRV count ending in 1
example : (∀ b ∈ cvrsEx.filterMap id, BallotWF b) ∧ Alt CEx.candidates 0 [2, 0, 1] ∧
    validIRV (cvrsEx.filterMap id) [2, 0, 1] := by
  refine ⟨by decide, ⟨by decide, [2, 0], 1, rfl, by decide⟩, ?_⟩
  obtain ⟨pre, w, r, h1, h2, h3⟩ := sim_irv_valid CEx cvrsEx (by decide) (by decide)
  have hs : simSummary (simIrv CEx cvrsEx) = some (1, 0) := by rfl
  rw [h1] at hs
  obtain ⟨rfl, rfl⟩ : w = 1 ∧ r = 0 := by simpa [simSummary] using hs
  have hlen := h2.length_eq
  have hpre : pre.length = 1 := by simp [CEx] at hlen; omega
  match pre, hpre with
  | [x], _ =>
    have hx : x ∈ CEx.candidates := h2.mem_iff.1 (by simp)
    have hnd : ([x] ++ [0, 1]).Nodup := h2.nodup_iff.2 (by decide)
    have : x = 2 := by
      simp [CEx] at hx hnd
      omega
    subst this
    exact h3
-- ... and this count has no tie: `sim_irv_no_ties` applies
example : StrictIRV (cvrsEx.filterMap id) [2, 0, 1] := by
  intro pre x post h y hy
  match pre, h with
  | [], h =>
    obtain ⟨rfl, rfl⟩ : 2 = x ∧ [0, 1] = post := by simpa using h
    have : y = 0 ∨ y = 1 := by simpa using hy
    rcases this with rfl | rfl <;> decide
  | [a], h =>
    obtain ⟨rfl, rfl, rfl⟩ : 2 = a ∧ 0 = x ∧ [1] = post := by simpa using h
    have : y = 1 := by simpa using hy
    subst this; decide
  | [a, b], h =>
    obtain ⟨rfl, rfl, rfl, rfl⟩ : 2 = a ∧ 0 = b ∧ 1 = x ∧ [] = post := by simpa using h
    cases hy
  | _ :: _ :: _ :: _, h => simp at h
-- a three-way tie: the first candidate in `standing` order with the smallest tally goes, so the result depends on
-- the order in which the contest lists its candidates
def cvrsTie : List (Option (Ballot Nat)) :=
  List.replicate 2 (balEx [0]) ++ List.replicate 2 (balEx [1]) ++ List.replicate 2 (balEx [2])
example : simSummary (simIrv CEx cvrsTie) = some (2, 1) := by rfl
example : simSummary (simIrv { CEx with candidates := [2, 1, 0] } cvrsTie) = some (0, 1) := by rfl
-- fewer than two candidates: IndexError (`sim_irv_terminates`, first case)
example : simIrv { CEx with candidates := [0] } cvrsEx = Res.err Err.IndexError := by rfl
example : simIrv { CEx with candidates := [] } cvrsEx = Res.err Err.IndexError := by rfl
-- a hole in the first line position (candidate 0 at position 1, nothing at position 0): a vote for 0 in the count
-- (NEN tally 4 + 3), not a first preference for NEB (`widx == 0` fails: 4, and the ballot is no mention of 2 before 0)
def cvrsHole : List (Option (Ballot Nat)) :=
  List.replicate 4 (balEx [0, 1]) ++ List.replicate 3 (some [(0, 1), (1, 2)]) ++ List.replicate 2 (balEx [2, 1]) ++ [none]
example : simpSummary (simpleIrvAssertions CEx cvrsHole 0 1) =
    ([(false, 0, 1, [2], 7, 2), (true, 0, 2, [], 4, 2)], []) := by rfl
-- a repeated candidate: one dict entry, incremented once per occurrence (why `simple_true` asks for a duplicate-free
-- candidate list): NEB(0, 2) is reported twice with loser tally 2 x 2
example : simpSummary (simpleIrvAssertions { CEx with candidates := [0, 1, 2, 2] } cvrsEx 0 1) =
    ([], [(false, 0, 1, [2, 2]), (true, 0, 2, []), (true, 0, 2, [])]) := by rfl
example : dictGet (countsOf { CEx with candidates := [0, 1, 2, 2] } cvrsEx 0 1).maxCW2 2 = 10 := by rfl

end Shangrla.C04
