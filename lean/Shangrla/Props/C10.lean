/-
  C10 — escalation only ever extends the evidence (the sampling part: `sample_mono`, `data_extends_scratch`,
  `data_extends_continue`, `continue_same_set`, `proved_sticky`; "measured risk is non-increasing" is about the
  statistical tests and belongs to the NonnegMean package).

  Theorems are about the literal models `Shangrla.Sampling.consistentSampling` (with `prev = none`: redraw from
  scratch, `prev = some l`: continue from the previously selected `l`), `Rounds.dataCards`, `Rounds.step`,
  `provedHistory`.  Vocabulary as in `Props/C07.lean`.

  Since repair F24 `consistent_sampling` returns the sample in sample-number order in both variants, so for a
  non-decreasing history the continue variant returns exactly the list a redraw returns (`continue_same_set`), and a
  contest's data are always its first `n_c` cards in sample-number order, whatever list was carried over
  (`contest_data_eq_any_prev`); the data of a later round are therefore those of the earlier round with
  observations appended, in every mixture of the two variants.
-/
import Shangrla.Props.C07

namespace Shangrla.C10
open Shangrla.Sampling Shangrla.C07

/-- round `r+1` has the same contests (same ids, same order) with sample sizes at least those of round `r` -/
def SizesLE (cons cons' : List Contest) : Prop :=
  cons.length = cons'.length ∧
  ∀ (k : Nat) (con con' : Contest), cons[k]? = some con → cons'[k]? = some con' →
    con.id = con'.id ∧ con.sampleSize ≤ con'.sampleSize

/-- a carried-over list that `consistent_sampling` accepts: no repetition, valid indices -/
structure PrevOk (cards : List Card) (prev : List Nat) : Prop where
  nodup : prev.Nodup
  range : ∀ i ∈ prev, i < cards.length

/-! ### helper lemmas -/

theorem inUnion_mono {S : List (Card × Nat)} {cons cons' : List Contest} (h : SizesLE cons cons') (p : Card × Nat)
    (hp : inUnion S cons p = true) : inUnion S cons' p = true := by
  unfold inUnion at hp ⊢
  rw [List.any_eq_true] at hp ⊢
  obtain ⟨con, hm, hc⟩ := hp
  obtain ⟨k, hk⟩ := List.mem_iff_getElem?.1 hm
  have hlt : k < cons'.length := by
    rw [← h.1]; exact (List.getElem?_eq_some_iff.1 hk).1
  have hk' : cons'[k]? = some cons'[k] := List.getElem?_eq_getElem hlt
  obtain ⟨hid, hle⟩ := h.2 k con _ hk hk'
  refine ⟨cons'[k], List.getElem_mem hlt, ?_⟩
  rw [List.contains_iff_mem] at hc ⊢
  rw [← hid]
  exact List.take_subset_take_left _ hle hc

theorem filter_sublist_of_imp {α : Type} {l : List α} {Q Q' : α → Bool} (h : ∀ p ∈ l, Q p = true → Q' p = true) :
    (l.filter Q).Sublist (l.filter Q') := by
  have : l.filter Q = (l.filter Q').filter Q := by
    rw [List.filter_filter]
    apply List.filter_congr
    intro p hp
    by_cases hq : Q p = true
    · simp [hq, h p hp hq]
    · simp only [Bool.not_eq_true] at hq; simp [hq]
  rw [this]
  exact List.filter_sublist

theorem selSpec_ok {cards : List Card} (contests : List Contest) (prev0 : List Nat) :
    PrevOk cards (selSpec cards contests prev0) := by
  constructor
  · have hidx : ((sortedPairs cards).map (·.2)).Nodup := by
      have : ((sortedPairs cards).map (·.2)).Perm (cards.zipIdx.map (·.2)) := (sortedPairs_perm cards).map _
      refine this.symm.nodup ?_
      have h2 : cards.zipIdx.map (·.2) = List.range' 0 cards.length := List.zipIdx_map_snd 0 cards
      rw [h2]; exact List.nodup_range'
    exact List.Nodup.sublist (List.filter_sublist.map _) hidx
  · intro i hi
    unfold selSpec at hi
    rw [List.mem_map] at hi
    obtain ⟨p, hp, rfl⟩ := hi
    exact snd_lt_of_mem_sortedPairs (List.mem_filter.1 hp).1

/-- any call on a well-formed input with an acceptable carried-over list, in closed form -/
theorem any_prev_eq {cards : List Card} {contests : List Contest} (h : Wf cards contests) (prev : Option (List Nat))
    (hp : PrevOk cards (prev.getD [])) :
    consistentSampling cards contests prev =
      .ok (selSpec cards contests (prev.getD []), contests.map (outContest cards),
           (List.range cards.length).map (fun i => (selSpec cards contests (prev.getD [])).contains i)) :=
  consistentSampling_spec cards contests prev h.nums h.ids h.sizes' hp.nodup hp.range

/-- the carried-over cards are already in the union of the per-contest prefixes -/
def JunkFree (cards : List Card) (contests : List Contest) (prev : List Nat) : Prop :=
  ∀ i ∈ prev, ∃ p ∈ sortedPairs cards, p.2 = i ∧ inUnion (sortedPairs cards) contests p = true

theorem selSpec_of_junkFree {cards : List Card} {contests : List Contest} {prev : List Nat}
    (hj : JunkFree cards contests prev) : selSpec cards contests prev = selSpec cards contests [] := by
  unfold selSpec
  congr 1
  apply List.filter_congr
  intro p hp
  by_cases hu : inUnion (sortedPairs cards) contests p = true
  · simp [hu]
  · simp only [Bool.not_eq_true] at hu
    simp only [hu, Bool.false_or, List.contains_nil]
    rw [List.contains_eq_mem, decide_eq_false_iff_not]
    intro hm
    obtain ⟨q, hq, h2, h3⟩ := hj p.2 hm
    have := eq_of_mem_sortedPairs_of_snd hq hp h2
    subst this
    rw [h3] at hu; cases hu

theorem junkFree_scratch {cards : List Card} {cons cons' : List Contest} (hle : SizesLE cons cons') :
    JunkFree cards cons' (selSpec cards cons []) := by
  intro i hi
  unfold selSpec at hi
  rw [List.mem_map] at hi
  obtain ⟨p, hp, rfl⟩ := hi
  rw [List.mem_filter] at hp
  refine ⟨p, hp.1, rfl, inUnion_mono hle p ?_⟩
  simpa using hp.2

/-! ### the theorems -/

/-- **C10, what a continued draw returns for an arbitrary acceptable carried-over list**: the carried-over cards
together with the union of the per-contest prefixes, in sample-number order and without repetition; thresholds
are those of a redraw. -/
theorem sample_eq_sorted_union {cards : List Card} {contests : List Contest} (h : Wf cards contests)
    (prev : List Nat) (hp : PrevOk cards prev) :
    ∃ flags, consistentSampling cards contests (some prev) =
        .ok (selSpec cards contests prev, contests.map (outContest cards), flags) ∧
      (∀ i, i ∈ selSpec cards contests prev ↔ (i ∈ prev ∨ i ∈ (unionSorted cards contests).map (·.2))) ∧
      ((sortedPairs cards).filter (fun p => inUnion (sortedPairs cards) contests p || prev.contains p.2)).Pairwise
        (fun a b => a.1.sampleNum < b.1.sampleNum) := by
  refine ⟨_, any_prev_eq h (some prev) hp, ?_, (sortedPairs_strict h.nums).sublist List.filter_sublist⟩
  intro i
  unfold selSpec unionSorted
  simp only [List.mem_map, List.mem_filter, Bool.or_eq_true, List.contains_iff_mem]
  constructor
  · rintro ⟨p, ⟨hp1, hp2 | hp2⟩, rfl⟩
    · exact Or.inr ⟨p, ⟨hp1, hp2⟩, rfl⟩
    · exact Or.inl hp2
  · rintro (hi | ⟨p, ⟨hp1, hp2⟩, rfl⟩)
    · have hlt := hp.range i hi
      refine ⟨(cards[i], i), ⟨mem_sortedPairs.2 (List.getElem?_eq_getElem hlt), Or.inr hi⟩, rfl⟩
    · exact ⟨p, ⟨hp1, Or.inl hp2⟩, rfl⟩

/-- **C10, `continue_same_set`** (in the strong form "same list, same thresholds, same flags"): continuing from
the result of a draw with sizes `n` using sizes `n' ≥ n` returns exactly what a redraw with sizes `n'` returns. -/
theorem continue_same_set {cards : List Card} {cons cons' : List Contest} (h : Wf cards cons) (h' : Wf cards cons')
    (hle : SizesLE cons cons') {sel : List Nat} {out : List Contest} {fl : List Bool}
    (hr : consistentSampling cards cons none = .ok (sel, out, fl)) :
    consistentSampling cards cons' (some sel) = consistentSampling cards cons' none := by
  have h0 := any_prev_eq h none ⟨by simp, by simp⟩
  rw [h0] at hr
  simp only [Option.getD_none, Except.ok.injEq, Prod.mk.injEq] at hr
  obtain ⟨hsel, _, _⟩ := hr
  subst hsel
  rw [any_prev_eq h' (some (selSpec cards cons [])) (selSpec_ok cons []),
    any_prev_eq h' none ⟨by simp, by simp⟩]
  simp only [Option.getD_some, Option.getD_none]
  rw [selSpec_of_junkFree (junkFree_scratch hle)]

/-- the same for any carried-over list that is already contained in the new union (what every round of a
non-decreasing history hands to the next one) -/
theorem continue_eq_scratch_of_junkFree {cards : List Card} {cons' : List Contest} (h' : Wf cards cons')
    {prev : List Nat} (hp : PrevOk cards prev) (hj : JunkFree cards cons' prev) :
    consistentSampling cards cons' (some prev) = consistentSampling cards cons' none := by
  rw [any_prev_eq h' (some _) hp, any_prev_eq h' none ⟨by simp, by simp⟩]
  simp only [Option.getD_some, Option.getD_none]
  rw [selSpec_of_junkFree hj]

/-- **C10, `sample_mono`.** With sizes pointwise non-decreasing, the cards selected in the next round contain those
of the previous round, whether the next round redraws from scratch or continues from the previous selection; the
earlier list is even a subsequence of the later one. -/
theorem sample_mono {cards : List Card} {cons cons' : List Contest} (h : Wf cards cons) (h' : Wf cards cons')
    (hle : SizesLE cons cons') {sel sel' : List Nat} {out out' : List Contest} {fl fl' : List Bool}
    (hr : consistentSampling cards cons none = .ok (sel, out, fl)) (variant : Bool)
    (hr' : consistentSampling cards cons' (if variant then some sel else none) = .ok (sel', out', fl')) :
    sel.Sublist sel' ∧ ∀ i ∈ sel, i ∈ sel' := by
  have hs : consistentSampling cards cons' none = .ok (sel', out', fl') := by
    cases variant
    · simpa using hr'
    · rw [← continue_same_set h h' hle hr]; simpa using hr'
  rw [any_prev_eq h none ⟨by simp, by simp⟩] at hr
  rw [any_prev_eq h' none ⟨by simp, by simp⟩] at hs
  simp only [Option.getD_none, Except.ok.injEq, Prod.mk.injEq] at hr hs
  obtain ⟨rfl, _, _⟩ := hr
  obtain ⟨rfl, _, _⟩ := hs
  have : (selSpec cards cons []).Sublist (selSpec cards cons' []) := by
    unfold selSpec
    apply List.Sublist.map
    apply filter_sublist_of_imp
    intro p _ hq
    simp only [List.contains_nil, Bool.or_false] at hq ⊢
    exact inUnion_mono hle p hq
  exact ⟨this, fun i hi => this.subset hi⟩

/-- continuing never drops a carried-over card, whatever the sizes -/
theorem continue_contains_prev {cards : List Card} {contests : List Contest} (h : Wf cards contests)
    {prev : List Nat} (hp : PrevOk cards prev) {sel' : List Nat} {out' : List Contest} {fl' : List Bool}
    (hr' : consistentSampling cards contests (some prev) = .ok (sel', out', fl')) : ∀ i ∈ prev, i ∈ sel' := by
  obtain ⟨_, he, hmem, _⟩ := sample_eq_sorted_union h prev hp
  rw [he] at hr'
  simp only [Except.ok.injEq, Prod.mk.injEq] at hr'
  intro i hi
  rw [← hr'.1, hmem]; exact Or.inl hi

theorem dataCards_selSpec {cards : List Card} {contests : List Contest} (h : Wf cards contests) (prev0 : List Nat)
    (con : Contest) (hm : con ∈ contests) (h1 : 1 ≤ con.sampleSize) :
    Rounds.dataCards true cards (outContest cards con) (selSpec cards contests prev0) =
      .ok ((firstCards (sortedPairs cards) con.id con.sampleSize).map (·.2)) := by
  have hs := h.sizes' con hm
  apply dataCards_filter h.nums
    (fun p => inUnion (sortedPairs cards) contests p || prev0.contains p.2) (outContest cards con) h1 hs
  · intro p hp
    have hp' : p ∈ firstCards (sortedPairs cards) con.id con.sampleSize := hp
    have : inUnion (sortedPairs cards) contests p = true := by
      unfold inUnion
      rw [List.any_eq_true]
      exact ⟨con, hm, by simpa using hp'⟩
    simp [this]
  · obtain ⟨p', _, hl', _⟩ := thrSpec_eq h1 hs none
    show thrSpec (sortedPairs cards) con.id con.sampleSize con.sampleThreshold
      = thrSpec (sortedPairs cards) con.id con.sampleSize none
    unfold thrSpec
    rw [hl']

theorem selSpec_sublist {cards : List Card} {cons cons' : List Contest} (hle : SizesLE cons cons') :
    (selSpec cards cons []).Sublist (selSpec cards cons' []) := by
  unfold selSpec
  apply List.Sublist.map
  apply filter_sublist_of_imp
  intro p _ hq
  simp only [List.contains_nil, Bool.or_false] at hq ⊢
  exact inUnion_mono hle p hq

/-- a contest's data do not depend on the carried-over list: for every acceptable `prev` (and for `none`) they are
the contest's first `n_c` cards in sample-number order -/
theorem contest_data_eq_any_prev {cards : List Card} {contests : List Contest} (h : Wf cards contests)
    (prev : Option (List Nat)) (hp : PrevOk cards (prev.getD [])) :
    ∃ sel flags, consistentSampling cards contests prev = .ok (sel, contests.map (outContest cards), flags) ∧
      ∀ con ∈ contests, 1 ≤ con.sampleSize →
        Rounds.dataCards true cards (outContest cards con) sel =
          .ok ((firstCards (sortedPairs cards) con.id con.sampleSize).map (·.2)) :=
  ⟨_, _, any_prev_eq h prev hp, fun con hm h1 => dataCards_selSpec h _ con hm h1⟩

/-- the data of two rounds with non-decreasing sizes, for arbitrary acceptable carried-over lists in both -/
theorem data_extends {cards : List Card} {cons cons' : List Contest} (h : Wf cards cons) (h' : Wf cards cons')
    (hle : SizesLE cons cons') (prev prev' : Option (List Nat)) (hp : PrevOk cards (prev.getD []))
    (hp' : PrevOk cards (prev'.getD [])) {sel sel' : List Nat} {out out' : List Contest} {fl fl' : List Bool}
    (hr : consistentSampling cards cons prev = .ok (sel, out, fl))
    (hr' : consistentSampling cards cons' prev' = .ok (sel', out', fl')) :
    out = cons.map (outContest cards) ∧ out' = cons'.map (outContest cards) ∧
    ∀ (k : Nat) (con con' : Contest), cons[k]? = some con → cons'[k]? = some con' → 1 ≤ con.sampleSize →
      out[k]? = some (outContest cards con) ∧ out'[k]? = some (outContest cards con') ∧
      ∃ d d', Rounds.dataCards true cards (outContest cards con) sel = .ok d ∧
        Rounds.dataCards true cards (outContest cards con') sel' = .ok d' ∧ d <+: d' := by
  obtain ⟨s, f, he, hd⟩ := contest_data_eq_any_prev h prev hp
  obtain ⟨s', f', he', hd'⟩ := contest_data_eq_any_prev h' prev' hp'
  rw [he] at hr; rw [he'] at hr'
  simp only [Except.ok.injEq, Prod.mk.injEq] at hr hr'
  obtain ⟨rfl, rfl, _⟩ := hr
  obtain ⟨rfl, rfl, _⟩ := hr'
  refine ⟨rfl, rfl, ?_⟩
  intro k con con' hk hk' h1
  obtain ⟨hid, hsz⟩ := hle.2 k con con' hk hk'
  have hm : con ∈ cons := List.mem_iff_getElem?.2 ⟨k, hk⟩
  have hm' : con' ∈ cons' := List.mem_iff_getElem?.2 ⟨k, hk'⟩
  refine ⟨by rw [List.getElem?_map, hk]; rfl, by rw [List.getElem?_map, hk']; rfl, _, _, hd con hm h1,
    hd' con' hm' (by omega), ?_⟩
  rw [← hid]
  exact (List.take_prefix_take_left hsz).map _

/-- **C10, `data_extends_scratch`.** Round `r+1` redraws from scratch with sizes at least those of round `r`: for
every contest with `n_c ≥ 1` the sequence of cards seen by its assertions in round `r+1` is that of round `r` with
cards appended. -/
theorem data_extends_scratch {cards : List Card} {cons cons' : List Contest} (h : Wf cards cons) (h' : Wf cards cons')
    (hle : SizesLE cons cons') (prev : Option (List Nat)) (hp : PrevOk cards (prev.getD []))
    {sel sel' : List Nat} {out out' : List Contest} {fl fl' : List Bool}
    (hr : consistentSampling cards cons prev = .ok (sel, out, fl))
    (hr' : consistentSampling cards cons' none = .ok (sel', out', fl')) :
    ∀ (k : Nat) (con con' : Contest), cons[k]? = some con → cons'[k]? = some con' → 1 ≤ con.sampleSize →
      out[k]? = some (outContest cards con) ∧ out'[k]? = some (outContest cards con') ∧
      ∃ d d', Rounds.dataCards true cards (outContest cards con) sel = .ok d ∧
        Rounds.dataCards true cards (outContest cards con') sel' = .ok d' ∧ d <+: d' :=
  (data_extends h h' hle prev none hp ⟨by simp, by simp⟩ hr hr').2.2

/-- **C10, `data_extends_continue`.** The same when round `r+1` continues from the list `sel` returned by round
`r` (which itself may have been a redraw or a continuation of any acceptable list). -/
theorem data_extends_continue {cards : List Card} {cons cons' : List Contest} (h : Wf cards cons) (h' : Wf cards cons')
    (hle : SizesLE cons cons') (prev : Option (List Nat)) (hp : PrevOk cards (prev.getD []))
    {sel sel' : List Nat} {out out' : List Contest} {fl fl' : List Bool}
    (hr : consistentSampling cards cons prev = .ok (sel, out, fl))
    (hr' : consistentSampling cards cons' (some sel) = .ok (sel', out', fl')) :
    ∀ (k : Nat) (con con' : Contest), cons[k]? = some con → cons'[k]? = some con' → 1 ≤ con.sampleSize →
      out[k]? = some (outContest cards con) ∧ out'[k]? = some (outContest cards con') ∧
      ∃ d d', Rounds.dataCards true cards (outContest cards con) sel = .ok d ∧
        Rounds.dataCards true cards (outContest cards con') sel' = .ok d' ∧ d <+: d' := by
  have hsel : PrevOk cards sel := by
    have he := any_prev_eq h prev hp
    rw [he] at hr
    simp only [Except.ok.injEq, Prod.mk.injEq] at hr
    rw [← hr.1]; exact selSpec_ok cons _
  exact (data_extends h h' hle prev (some sel) hp hsel hr hr').2.2

/-- **C10, `proved_sticky`.** Over any sequence of calls of `set_p_values` (any p-values, any risk limit), once
the `proved` flag of an assertion is set it stays set: in the sequence of flags every `true` is followed only by
`true`; and a flag that was set before the first call stays set throughout. -/
theorem proved_sticky (limit : Rat) (b : Bool) (ps : List Rat) :
    (provedHistory limit b ps).Pairwise (fun x y => x = true → y = true) ∧
    (b = true → ∀ y ∈ provedHistory limit b ps, y = true) ∧
    (∀ p, p ≤ limit → provedStep limit p b = true) := by
  have all_true : ∀ (ps : List Rat) (b : Bool), b = true → ∀ y ∈ provedHistory limit b ps, y = true := by
    intro ps
    induction ps with
    | nil => intro b _ y hy; simp [provedHistory] at hy
    | cons p ps ih =>
      intro b hb y hy
      simp only [provedHistory, List.mem_cons] at hy
      have hstep : provedStep limit p b = true := by simp [provedStep, hb]
      rcases hy with rfl | hy
      · exact hstep
      · exact ih _ hstep y hy
  refine ⟨?_, all_true ps b, fun p hp => by simp [provedStep, hp]⟩
  induction ps generalizing b with
  | nil => simp [provedHistory]
  | cons p ps ih =>
    simp only [provedHistory, List.pairwise_cons]
    exact ⟨fun y hy hx => all_true ps _ hx y hy, ih _⟩


/-! ### the rounds state machine -/

/-- one round of `Rounds.step` in closed form -/
theorem step_eq (st : Rounds.State) (r : Rounds.Round)
    (h : Wf st.cards (Rounds.setSizes st.contests r.sizes)) (hp : PrevOk st.cards st.prev) :
    ∃ st' o, Rounds.step true st r = .ok (st', o) ∧ st'.cards = st.cards ∧
      st'.contests = (Rounds.setSizes st.contests r.sizes).map (outContest st.cards) ∧
      st'.prev = o.selected ∧
      o.selected = selSpec st.cards (Rounds.setSizes st.contests r.sizes) (if r.cont then st.prev else []) ∧
      o.dataCards = ((Rounds.setSizes st.contests r.sizes).map (outContest st.cards)).map
        (fun con => Rounds.dataCards true st.cards con o.selected) := by
  have hp' : PrevOk st.cards ((if r.cont then some st.prev else none).getD []) := by
    cases r.cont
    · exact ⟨by simp, by simp⟩
    · simpa using hp
  have he := any_prev_eq h (if r.cont then some st.prev else none) hp'
  have hg : (if r.cont then some st.prev else none).getD [] = (if r.cont then st.prev else []) := by
    cases r.cont <;> rfl
  rw [hg] at he
  unfold Rounds.step
  simp only [he]
  exact ⟨_, _, rfl, rfl, rfl, rfl, rfl, rfl⟩

/-- **C10 on the state machine.** Two consecutive rounds from a state whose carried-over list is acceptable and
contains nothing outside the first round's union (e.g. the initial state, `prev = []`, or any state reached by
rounds with non-decreasing sizes): both rounds succeed, in either variant each; the second selection extends the
first; every contest with `n_c ≥ 1` sees its earlier data with observations appended; and the state after the
first round again satisfies the hypotheses, so the statement chains along histories of any length. -/
theorem rounds_extend (st : Rounds.State) (r₁ r₂ : Rounds.Round)
    (h₁ : Wf st.cards (Rounds.setSizes st.contests r₁.sizes)) (hp : PrevOk st.cards st.prev)
    (hj : JunkFree st.cards (Rounds.setSizes st.contests r₁.sizes) st.prev)
    (h₂ : Wf st.cards (Rounds.setSizes ((Rounds.setSizes st.contests r₁.sizes).map (outContest st.cards)) r₂.sizes))
    (hle : SizesLE (Rounds.setSizes st.contests r₁.sizes)
      (Rounds.setSizes ((Rounds.setSizes st.contests r₁.sizes).map (outContest st.cards)) r₂.sizes)) :
    ∃ st₁ o₁ st₂ o₂, Rounds.step true st r₁ = .ok (st₁, o₁) ∧ Rounds.step true st₁ r₂ = .ok (st₂, o₂) ∧
      st₁.cards = st.cards ∧ PrevOk st.cards st₁.prev ∧
      JunkFree st.cards (Rounds.setSizes st₁.contests r₂.sizes) st₁.prev ∧
      o₁.selected.Sublist o₂.selected ∧
      ∀ (k : Nat) (con : Contest), (Rounds.setSizes st.contests r₁.sizes)[k]? = some con → 1 ≤ con.sampleSize →
        ∃ d d', o₁.dataCards[k]? = some (.ok d) ∧ o₂.dataCards[k]? = some (.ok d') ∧ d <+: d' := by
  obtain ⟨st₁, o₁, e₁, hc₁, hcon₁, hprev₁, hsel₁, hdata₁⟩ := step_eq st r₁ h₁ hp
  have hsel₁' : o₁.selected = selSpec st.cards (Rounds.setSizes st.contests r₁.sizes) [] := by
    rw [hsel₁]
    cases r₁.cont
    · rfl
    · exact selSpec_of_junkFree hj
  have hp₁ : PrevOk st₁.cards st₁.prev := by rw [hc₁, hprev₁, hsel₁']; exact selSpec_ok _ _
  have h₂' : Wf st₁.cards (Rounds.setSizes st₁.contests r₂.sizes) := by rw [hc₁, hcon₁]; exact h₂
  have hj₁ : JunkFree st.cards (Rounds.setSizes st₁.contests r₂.sizes) st₁.prev := by
    rw [hprev₁, hsel₁', hcon₁]; exact junkFree_scratch hle
  obtain ⟨st₂, o₂, e₂, _, _, _, hsel₂, hdata₂⟩ := step_eq st₁ r₂ h₂' hp₁
  have hsel₂' : o₂.selected = selSpec st.cards (Rounds.setSizes st₁.contests r₂.sizes) [] := by
    rw [hsel₂, hc₁]
    cases r₂.cont
    · rfl
    · exact selSpec_of_junkFree hj₁
  refine ⟨st₁, o₁, st₂, o₂, e₁, e₂, hc₁, hc₁ ▸ hp₁, hj₁, ?_, ?_⟩
  · rw [hsel₁', hsel₂', hcon₁]; exact selSpec_sublist hle
  · intro k con hk h1
    have hlt : k < (Rounds.setSizes st₁.contests r₂.sizes).length := by
      rw [hcon₁, ← hle.1]; exact (List.getElem?_eq_some_iff.1 hk).1
    obtain ⟨con', hk'⟩ : ∃ con', (Rounds.setSizes st₁.contests r₂.sizes)[k]? = some con' :=
      ⟨_, List.getElem?_eq_getElem hlt⟩
    have hk'' := hk'
    rw [hcon₁] at hk''
    obtain ⟨hid, hsz⟩ := hle.2 k con con' hk hk''
    refine ⟨(firstCards (sortedPairs st.cards) con.id con.sampleSize).map (·.2),
      (firstCards (sortedPairs st.cards) con'.id con'.sampleSize).map (·.2), ?_, ?_, ?_⟩
    · rw [hdata₁, List.getElem?_map, List.getElem?_map, hk, hsel₁']
      simp only [Option.map_some]
      rw [dataCards_selSpec h₁ [] con (List.mem_iff_getElem?.2 ⟨k, hk⟩) h1]
    · rw [hdata₂, List.getElem?_map, List.getElem?_map, hk', hsel₂', hc₁]
      simp only [Option.map_some]
      rw [dataCards_selSpec (hc₁ ▸ h₂') [] con' (List.mem_iff_getElem?.2 ⟨k, hk'⟩) (by omega)]
    · rw [← hid]
      exact (List.take_prefix_take_left hsz).map _

/-! ### Non-vacuity -/

-- sizes (3,4) after (1,2) on the six-card example of C07
example : SizesLE [⟨"city_council", 1, none, none, 0⟩, ⟨"measure_1", 2, none, none, 0⟩] exContests := by
  refine ⟨rfl, ?_⟩
  intro k con con' h1 h2
  rcases k with _ | _ | k
  · simp [exContests] at h1 h2; subst h1; subst h2; decide
  · simp [exContests] at h1 h2; subst h1; subst h2; decide
  · simp at h1
example : Wf exCards [⟨"city_council", 1, none, none, 0⟩, ⟨"measure_1", 2, none, none, 0⟩] :=
  ⟨by decide, by decide, by decide⟩
example : PrevOk exCards [3, 1] := ⟨by decide, by decide⟩
-- the initial state of an audit (nothing carried over) satisfies the hypotheses of `rounds_extend`
example (cards : List Card) (cons : List Contest) : PrevOk cards [] ∧ JunkFree cards cons [] :=
  ⟨⟨by simp, by simp⟩, fun i hi => by simp at hi⟩
-- a flag that goes up at the second call although the third p-value is above the limit again
example (limit p q : Rat) (hp : p ≤ limit) (hq : ¬ q ≤ limit) :
    provedHistory limit false [q, p, q] = [false, true, true] := by
  simp [provedHistory, provedStep, hp, hq]

end Shangrla.C10
