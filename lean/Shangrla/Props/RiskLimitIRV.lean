/-
  C04 ∘ C14 ∘ C09 ∘ C01 for an instant-runoff (IRV) contest audited by ballot polling with RAIRE assertions.

  If the reported IRV winner is wrong — some possible IRV count of the ballots actually cast ends in another
  candidate — then at least one assertion of every `Sufficient` set (in particular of the set the modelled
  RAIRE search returns, C04) is FALSE on the true ballots (§1, social-choice lemma of `RaireSocial`), the
  audit-side assorter of that assertion (`make_assertions_from_json`, C14) therefore averages at most 1/2 over
  the cards (§2 bridge between the two models of the generator's predicates, §3 null), and by
  `RiskLimit.audit_risk_limit_run` the audit is EVER reported complete (C09) with probability at most the
  contest's risk limit (C01), whatever the other assertions and contests are (§4).
-/
import Shangrla.Props.RiskLimit
import Shangrla.Props.C04
import Shangrla.Props.C14

namespace Shangrla.RiskLimit
open Shangrla Shangrla.Ville Shangrla.Status Shangrla.AuditLoop
open Shangrla.Raire.Spec

set_option linter.unusedSectionVars false

/-! ### 1. a wrong IRV outcome makes some assertion of a sufficient set false on the true ballots -/

section Spec
variable {α : Type} [DecidableEq α] {D : Type}

/-- **Wrong outcome ⇒ false assertion.**  `S` excludes every elimination order of `cands` that ends in a
candidate other than `winner` (`Sufficient`); `mvrs` are the ballots actually cast (`none` = the card lacks the
contest), all well-formed; `π` is a possible IRV count of them (ties broken any way) that ends in a candidate
other than `winner`.  Then some `a ∈ S` is false on the true ballots: the tally it attributes to its winner
does not exceed the tally it attributes to its loser. -/
theorem irv_wrong_outcome_false_assertion (cands : List α) (hcands : cands.Nodup) (winner : α)
    (S : List (Raire.Assertion α D)) (hS : Sufficient cands winner S)
    (mvrs : List (Option (Raire.Ballot α))) (hwf : ∀ b ∈ mvrs.filterMap id, BallotWF b)
    (π : List α) (hπ : Alt cands winner π) (hv : validIRV (mvrs.filterMap id) π) :
    ∃ a ∈ S, (tallies mvrs a.kind a.winner a.loser a.eliminated).1
        ≤ (tallies mvrs a.kind a.winner a.loser a.eliminated).2 := by
  obtain ⟨a, ha, hc⟩ := hS π hπ
  exact ⟨a, ha, Raire.valid_not_contradicted mvrs hwf π (hπ.1.nodup_iff.2 hcands) hv
    a.kind a.winner a.loser a.eliminated hc⟩

/-- the same for the assertions the modelled RAIRE search returns from the REPORTED cvrs `cvrs` (any
difficulty function, any fuel): if the list is non-empty and the TRUE ballots `mvrs` have a possible IRV count
ending in another candidate, some returned assertion is false on the true ballots. -/
theorem raire_wrong_outcome_false_assertion [Raire.DiffOrd D] [Raire.DiffOrd.Lawful D]
    (asn : Nat → Nat → Nat → Nat → D) (C : Raire.Contest α) (cvrs : List (Option (Raire.Ballot α)))
    (winner : α) (hC : C.candidates.Nodup) (hn : 2 ≤ C.candidates.length) (fuel : Nat)
    (as : List (Raire.Assertion α D))
    (h : Raire.computeRaireAssertions asn C cvrs winner fuel = Raire.Res.ok as) (hne : as ≠ [])
    (mvrs : List (Option (Raire.Ballot α))) (hwf : ∀ b ∈ mvrs.filterMap id, BallotWF b)
    (π : List α) (hπ : Alt C.candidates winner π) (hv : validIRV (mvrs.filterMap id) π) :
    ∃ a ∈ as, (tallies mvrs a.kind a.winner a.loser a.eliminated).1
        ≤ (tallies mvrs a.kind a.winner a.loser a.eliminated).2 :=
  irv_wrong_outcome_false_assertion C.candidates hC winner as
    (C04.raire_sufficient asn C cvrs winner hC hn fuel as h hne) mvrs hwf π hπ hv

end Spec

/-! ### 2. the two models of the generator-side predicates agree

`Model/Raire.lean` (`Raire.ranking`, `voteForCand`, `nebVoteW`, `nebVoteL`, `tally`: `Nat`-valued, `Option Nat`
for the rank, `none` for a card without the contest) and `Model/IrvBallot.lean` (`IrvBallot.ranking`,
`voteForCand`, `nebWinner`, `nebLoser`, `nenWinner`, `nenLoser`: `Int`-valued, rank `-1`, the card a dict
`contest ↦ ballot`) model the same functions of raire_utils.py.  Both represent a ballot as the SAME type
`List (α × Nat)` (the dict `{candidate: 0-based index}` in insertion order), so the bridge is an equality for
EVERY such list, not only for `genEnc r`: the card `cvr` of the IrvBallot model corresponds to the entry
`dget cvr cid : Option (Ballot α)` of the Raire model. -/

section Bridge
open Shangrla.IrvBallot
variable {κ α : Type} [DecidableEq κ] [DecidableEq α]

theorem lookup_eq_dget {ν : Type} (b : List (α × ν)) (c : α) : b.lookup c = dget b c := by
  induction b with
  | nil => rfl
  | cons p b ih =>
    obtain ⟨k, v⟩ := p
    by_cases h : k = c
    · subst h; simp [List.lookup, dget]
    · have h' : (c == k) = false := by simp [Ne.symm h]
      simp [List.lookup, dget, h, h', ih]

/-- `ranking`: `none` ↔ `-1` -/
theorem ranking_bridge (c : α) (b : List (α × Nat)) :
    IrvBallot.ranking c b = match Raire.ranking c b with
      | none => -1
      | some k => (k : Int) := by
  unfold IrvBallot.ranking Raire.ranking
  rw [lookup_eq_dget]
  cases dget b c <;> rfl

/-- `vote_for_cand` -/
theorem voteForCand_bridge (c : α) (E : List α) (b : List (α × Nat)) :
    ((Raire.voteForCand c E b : Nat) : Int) = IrvBallot.voteForCand c E b := by
  unfold Raire.voteForCand IrvBallot.voteForCand
  simp only [ranking_bridge]
  by_cases hc : c ∈ E
  · have hE : E.contains c = true := by simpa using hc
    simp only [hE, if_true]
    rfl
  · have hE : E.contains c = false := by simpa using hc
    simp only [hE, Bool.false_eq_true, if_false]
    cases Raire.ranking c b with
    | none => simp
    | some ci =>
      have hne : ((ci : Int) == -1) = false := by
        simp only [beq_eq_false_iff_ne, ne_eq]; omega
      have hany : (b.any fun kv => kv.1 != c && !E.contains kv.1 && decide ((kv.2 : Int) < (ci : Int)))
          = b.any fun p => !(p.1 == c) && !(E.contains p.1) && decide (p.2 < ci) := by
        congr 1
        funext p
        simp [bne]
      simp only [hne, Bool.false_eq_true, if_false, hany]
      split <;> rfl

/-- `NEBAssertion.is_vote_for_winner` -/
theorem nebVoteW_bridge (cid : κ) (w : α) (cvr : GCvr κ α) :
    ((Raire.nebVoteW w (dget cvr cid) : Nat) : Int) = nebWinner cid w cvr := by
  unfold nebWinner
  cases dget cvr cid with
  | none => rfl
  | some b =>
    simp only [Raire.nebVoteW, ranking_bridge]
    cases Raire.ranking w b with
    | none => simp
    | some k =>
      by_cases hk : k = 0
      · subst hk; simp
      · have : ¬ ((k : Int) = 0) := by omega
        simp [hk]

/-- `NEBAssertion.is_vote_for_loser` -/
theorem nebVoteL_bridge (cid : κ) (w l : α) (cvr : GCvr κ α) :
    ((Raire.nebVoteL w l (dget cvr cid) : Nat) : Int) = nebLoser cid w l cvr := by
  unfold nebLoser
  cases dget cvr cid with
  | none => rfl
  | some b =>
    simp only [Raire.nebVoteL, ranking_bridge]
    cases Raire.ranking l b with
    | none => simp
    | some li =>
      have h1 : ¬ ((li : Int) = -1) := by omega
      cases Raire.ranking w b with
      | none => simp [h1]
      | some wi =>
        have h2 : ¬ ((wi : Int) = -1) := by omega
        by_cases hlt : li < wi
        · have : (li : Int) < (wi : Int) := by omega
          simp [h1, h2, hlt, this]
        · have : ¬ ((li : Int) < (wi : Int)) := by omega
          simp [h1, h2, hlt, this]

/-- the NEN verdict of a card, written with the Raire model's `voteForCand` -/
def nenVote (c : α) (E : List α) : Option (Raire.Ballot α) → Nat
  | none => 0
  | some b => Raire.voteForCand c E b

/-- `NENAssertion.is_vote_for_winner` -/
theorem nenVoteW_bridge (cid : κ) (w : α) (E : List α) (cvr : GCvr κ α) :
    ((nenVote w E (dget cvr cid) : Nat) : Int) = nenWinner cid w E cvr := by
  unfold nenWinner
  cases dget cvr cid with
  | none => rfl
  | some b => exact voteForCand_bridge w E b

/-- `NENAssertion.is_vote_for_loser` -/
theorem nenVoteL_bridge (cid : κ) (l : α) (E : List α) (cvr : GCvr κ α) :
    ((nenVote l E (dget cvr cid) : Nat) : Int) = nenLoser cid l E cvr := by
  unfold nenLoser
  cases dget cvr cid with
  | none => rfl
  | some b => exact voteForCand_bridge l E b

/-- the ballots of contest `cid` on the cards, as the Raire model (and `RaireSpec.tallies`) takes them -/
def trueBallots {β : Type} (cid : κ) (ps : List (β × GCvr κ α)) : List (Option (Raire.Ballot α)) :=
  ps.map (fun p => dget p.2 cid)

theorem cast_sum_map {β : Type} (ps : List β) (f : β → Nat) (g : β → Int) (h : ∀ p ∈ ps, (f p : Int) = g p) :
    (((ps.map f).sum : Nat) : Int) = (ps.map g).sum := by
  induction ps with
  | nil => rfl
  | cons p ps ih =>
    simp only [List.map_cons, List.sum_cons, Int.natCast_add]
    rw [h p List.mem_cons_self, ih (fun q hq => h q (List.mem_cons_of_mem _ hq))]

/-- **Bridge, tallies.**  The two tallies `RaireSpec.tallies` recomputes for an NEB / NEN comparison from the
ballots on the cards are the sums of the IrvBallot model's `is_vote_for_winner` / `is_vote_for_loser` verdicts
over the cards. -/
theorem tallies_bridge {β : Type} (cid : κ) (ps : List (β × GCvr κ α)) (w l : α) (E : List α) :
    (((tallies (trueBallots cid ps) .neb w l E).1 : Nat) : Int) = (ps.map (fun p => nebWinner cid w p.2)).sum ∧
    (((tallies (trueBallots cid ps) .neb w l E).2 : Nat) : Int) = (ps.map (fun p => nebLoser cid w l p.2)).sum ∧
    (((tallies (trueBallots cid ps) .nen w l E).1 : Nat) : Int) = (ps.map (fun p => nenWinner cid w E p.2)).sum ∧
    (((tallies (trueBallots cid ps) .nen w l E).2 : Nat) : Int) = (ps.map (fun p => nenLoser cid l E p.2)).sum := by
  have hnen : ∀ c, Raire.tally ((trueBallots cid ps).filterMap id) c E
      = ((trueBallots cid ps).map (nenVote c E)).sum := by
    intro c
    rw [Raire.sum_cvrs_eq _ (nenVote c E) rfl]
    rfl
  refine ⟨?_, ?_, ?_, ?_⟩
  · simp only [tallies, trueBallots, List.map_map]
    exact cast_sum_map ps _ _ (fun p _ => nebVoteW_bridge cid w p.2)
  · simp only [tallies, trueBallots, List.map_map]
    exact cast_sum_map ps _ _ (fun p _ => nebVoteL_bridge cid w l p.2)
  · simp only [tallies, hnen]
    simp only [trueBallots, List.map_map]
    exact cast_sum_map ps _ _ (fun p _ => nenVoteW_bridge cid w E p.2)
  · simp only [tallies, hnen]
    simp only [trueBallots, List.map_map]
    exact cast_sum_map ps _ _ (fun p _ => nenVoteL_bridge cid l E p.2)

theorem map_snd_encFrom (k : Nat) (r : List α) : (encFrom k r).map (·.2) = List.range' k r.length := by
  induction r generalizing k with
  | nil => rfl
  | cons c cs ih => simp [encFrom, ih, List.range'_succ]

/-- the generator-side ballot of an aligned card (C14: the same finite map as `{c ↦ k}` for a duplicate-free
ranking) is well-formed in the sense of `RaireSpec`: no candidate twice, no position twice -/
theorem aligned_wf {cid : κ} {cands : List α} {p : Votes κ α × GCvr κ α} (h : C14.Aligned cid cands p)
    {b : Raire.Ballot α} (hb : dget p.2 cid = some b) : BallotWF b := by
  rcases h with ⟨_, h⟩ | ⟨r, g, hnd, _, _, hg, h1, h2, h3⟩
  · rw [h] at hb; cases hb
  · have hb' : g = b := by rw [hg] at hb; exact Option.some.inj hb
    subst hb'
    refine ⟨h1, ?_⟩
    have hperm : List.Perm g (genEnc r) :=
      (List.perm_ext_iff_of_nodup (C14.nodup_of_keys_nodup h1) (C14.nodup_of_keys_nodup h2)).2 h3
    have : ((genEnc r).map (·.2)).Nodup := by
      unfold genEnc; rw [map_snd_encFrom]; exact List.nodup_range'
    exact (hperm.map (·.2)).nodup_iff.2 this

theorem trueBallots_wf {cid : κ} {cands : List α} {ps : List (Votes κ α × GCvr κ α)}
    (h : ∀ p ∈ ps, C14.Aligned cid cands p) : ∀ b ∈ (trueBallots cid ps).filterMap id, BallotWF b := by
  intro b hb
  simp only [trueBallots, List.mem_filterMap, List.mem_map, id] at hb
  obtain ⟨o, ⟨p, hp, rfl⟩, ho⟩ := hb
  exact aligned_wf (h p hp) ho

end Bridge

/-! ### 3. a failed tally comparison makes the audit-side assorter average at most 1/2 -/

section Null
open Shangrla.IrvBallot
variable {κ α : Type} [DecidableEq κ] [DecidableEq α]

/-- the WINNER_ONLY (NEB) assorter of `make_assertions_from_json` takes values in `[0, 1]` on every card -/
theorem nebAssort_range (votes : Votes κ α) (cid : κ) (w l : α) :
    0 ≤ nebAssort votes cid w l ∧ nebAssort votes cid w l ≤ 1 := by
  have h1 : nebWinnerFunc votes cid w = 0 ∨ nebWinnerFunc votes cid w = 1 := by
    unfold nebWinnerFunc; split
    · exact Or.inr rfl
    · exact Or.inl rfl
  have h2 : nebLoserFunc votes cid w l = 0 ∨ nebLoserFunc votes cid w l = 1 := by
    unfold nebLoserFunc rcvLfuncWo
    simp only
    split
    · exact Or.inr rfl
    · split
      · exact Or.inr rfl
      · exact Or.inl rfl
  unfold nebAssort
  rcases h1 with h1 | h1 <;> rcases h2 with h2 | h2 <;> rw [h1, h2] <;> norm_num

/-- the IRV_ELIMINATION (NEN) assorter takes values in `[0, 1]` on every card, for every `remaining` list -/
theorem nenAssort_range (votes : Votes κ α) (cid : κ) (w l : α) (remn : List α) :
    0 ≤ nenAssort votes cid w l remn ∧ nenAssort votes cid w l remn ≤ 1 := by
  unfold nenAssort
  rcases C14.rcvVoteforCand_zero_or_one votes cid w remn with h1 | h1 <;>
    rcases C14.rcvVoteforCand_zero_or_one votes cid l remn with h2 | h2 <;> rw [h1, h2] <;> norm_num

/-- arithmetic core: values `(w - l + 1)/2` with `Σ w ≤ Σ l` sum to at most `n/2` -/
theorem sum_le_half_of_tally {π : Type} (ps : List π) (assort : π → ℚ) (gw gl : π → Int)
    (h1 : ∀ p ∈ ps, assort p = ((gw p - gl p + 1 : Int) : ℚ) / 2)
    (hfail : (ps.map gw).sum ≤ (ps.map gl).sum) :
    (ps.map assort).sum ≤ (ps.length : ℚ) * (1 / 2) := by
  rw [List.map_congr_left h1, C14.sum_half]
  have : ((ps.map gw).sum : ℚ) ≤ ((ps.map gl).sum : ℚ) := by exact_mod_cast hfail
  push_cast
  linarith

/-- **NEB null.**  Cards aligned as in C14 (the audit reads `{c ↦ k+1}`, the generator side holds the same
ranking as `{c ↦ k}`, or neither has the contest).  If the generator-side comparison of "`w` never eliminated
before `l`" FAILS on the cards (tally of `is_vote_for_winner` ≤ tally of `is_vote_for_loser`), the audit's
assorter values over the cards sum to at most `n/2`. -/
theorem irv_assertion_null_neb (cid : κ) (cands : List α) (w l : α) (ps : List (Votes κ α × GCvr κ α))
    (h : ∀ p ∈ ps, C14.Aligned cid cands p)
    (hfail : (ps.map (fun p => nebWinner cid w p.2)).sum ≤ (ps.map (fun p => nebLoser cid w l p.2)).sum) :
    (ps.map (fun p => nebAssort p.1 cid w l)).sum ≤ (ps.length : ℚ) * (1 / 2) := by
  refine sum_le_half_of_tally ps _ (fun p => nebWinner cid w p.2) (fun p => nebLoser cid w l p.2) ?_ hfail
  intro p hp
  rcases h p hp with ⟨ha, hg⟩ | ⟨r, g, _, _, ha, hg, hs⟩
  · exact (C14.neb_agree_absent ha hg w l).2.2
  · exact (C14.agree_sameMap ha hg hs w l).1

/-- **NEN null.**  Same for "`w` is not eliminated next when exactly `E` are gone (`l` has fewer votes)", with
`remaining = [c for c in cands if c not in E]` as `make_assertions_from_json` computes it, `w`, `l ∈ cands`, any
`E`; the alignment hypothesis includes that every ranked candidate is a listed candidate. -/
theorem irv_assertion_null_nen (cid : κ) (cands E : List α) (w l : α) (hw : w ∈ cands) (hl : l ∈ cands)
    (ps : List (Votes κ α × GCvr κ α)) (h : ∀ p ∈ ps, C14.Aligned cid cands p)
    (hfail : (ps.map (fun p => nenWinner cid w E p.2)).sum ≤ (ps.map (fun p => nenLoser cid l E p.2)).sum) :
    (ps.map (fun p => nenAssort p.1 cid w l (remnOf cands E))).sum ≤ (ps.length : ℚ) * (1 / 2) := by
  refine sum_le_half_of_tally ps _ (fun p => nenWinner cid w E p.2) (fun p => nenLoser cid l E p.2) ?_ hfail
  intro p hp
  rcases h p hp with ⟨ha, hg⟩ | ⟨r, g, _, hr, ha, hg, hs⟩
  · exact (C14.nen_agree_absent ha hg w l E _).2.2
  · exact (C14.agree_sameMap ha hg hs w l).2 cands E hr hw hl

/-- the assorter `make_assertions_from_json` builds for a RAIRE assertion of kind `k`, as a function of the
card (audit-side record, generator-side record); only the audit-side record is read -/
def irvAssort (cid : κ) (cands : List α) (k : Raire.Kind) (w l : α) (E : List α) :
    Votes κ α × GCvr κ α → ℚ :=
  fun p => match k with
    | .neb => nebAssort p.1 cid w l
    | .nen => nenAssort p.1 cid w l (remnOf cands E)

theorem irvAssort_range (cid : κ) (cands : List α) (k : Raire.Kind) (w l : α) (E : List α)
    (p : Votes κ α × GCvr κ α) : 0 ≤ irvAssort cid cands k w l E p ∧ irvAssort cid cands k w l E p ≤ 1 := by
  cases k
  · exact nebAssort_range p.1 cid w l
  · exact nenAssort_range p.1 cid w l _

/-- **IRV null, at the level of `RaireSpec.tallies`** (items 2 and 3 combined): if the comparison of a RAIRE
assertion fails on the ballots of the cards, its audit-side assorter sums to at most `n/2` over the cards. -/
theorem irv_assertion_null (cid : κ) (cands : List α) (k : Raire.Kind) (w l : α) (E : List α)
    (hwl : k = .nen → w ∈ cands ∧ l ∈ cands)
    (ps : List (Votes κ α × GCvr κ α)) (h : ∀ p ∈ ps, C14.Aligned cid cands p)
    (hfail : (tallies (trueBallots cid ps) k w l E).1 ≤ (tallies (trueBallots cid ps) k w l E).2) :
    (ps.map (irvAssort cid cands k w l E)).sum ≤ (ps.length : ℚ) * (1 / 2) := by
  obtain ⟨b1, b2, b3, b4⟩ := tallies_bridge cid ps w l E
  cases k with
  | neb =>
    apply irv_assertion_null_neb cid cands w l ps h
    rw [← b1, ← b2]
    exact_mod_cast hfail
  | nen =>
    obtain ⟨hw, hl⟩ := hwl rfl
    apply irv_assertion_null_nen cid cands E w l hw hl ps h
    rw [← b3, ← b4]
    exact_mod_cast hfail

end Null

/-! ### 4. the risk limit -/

section Risk
open Shangrla.IrvBallot
variable {κ α : Type} [DecidableEq κ] [DecidableEq α]

/-- **Risk limit of a ballot-polling audit of an IRV contest, one false NEB assertion.**  `cards` are the cards
cast, each with the audit's reading `p.1` of the card and the same ranking in the generator's encoding `p.2`
(`C14.Aligned`).  Contest `c` of the audit has an assertion `a` whose data are the WINNER_ONLY assorter of
"`w` NEB `l`" on the drawn card and whose test is a shipped `NonnegMean` test with `N = |cards|`, `t = 1/2`,
`u = 1`, inside its documented range.  If the generator-side tally comparison fails on the cards, the audit
is ever reported complete with probability at most `c.riskLimit`. -/
theorem irv_polling_risk_limit_neb (data : String → String → (Votes κ α × GCvr κ α) → ℚ)
    (T : String → String → SeqTest) (s : State) (c : Contest) (hc : c ∈ s) (a : Assertion)
    (ha : a ∈ c.assertions) (cards : List (Votes κ α × GCvr κ α)) (cid : κ) (cands : List α) (w l : α)
    (hal : ∀ p ∈ cards, C14.Aligned cid cands p)
    (hdata : data c.id a.name = fun p => nebAssort p.1 cid w l)
    (sqrtF : ℚ → ℚ) (cfg : NM.Cfg) (test : NM.Test)
    (hN : cfg.N = some cards.length) (ht : cfg.t = 1 / 2) (hu : cfg.u = 1)
    (hT : T c.id a.name = NM.run sqrtF cfg test)
    (hdoc : C01.DocumentedFinite sqrtF cfg test)
    (hr0 : 0 < c.riskLimit) (hr1 : c.riskLimit < 1)
    (hwrong : (cards.map (fun p => nebWinner cid w p.2)).sum ≤ (cards.map (fun p => nebLoser cid w l p.2)).sum) :
    hitG (auditComplete data T s) cards.length cards [] ≤ c.riskLimit := by
  apply audit_risk_limit_run data T s c hc a ha cards sqrtF cfg test hN hT hdoc hr0 hr1
  · intro x _
    rw [hdata, hu]
    exact nebAssort_range x.1 cid w l
  · rw [hdata, ht]
    exact irv_assertion_null_neb cid cands w l cards hal hwrong

/-- **Risk limit of a ballot-polling audit of an IRV contest, one false NEN assertion**
(`remaining = [c for c in cands if c not in E]`, `w`, `l ∈ cands`, any `E`). -/
theorem irv_polling_risk_limit_nen (data : String → String → (Votes κ α × GCvr κ α) → ℚ)
    (T : String → String → SeqTest) (s : State) (c : Contest) (hc : c ∈ s) (a : Assertion)
    (ha : a ∈ c.assertions) (cards : List (Votes κ α × GCvr κ α)) (cid : κ) (cands E : List α) (w l : α)
    (hw : w ∈ cands) (hl : l ∈ cands)
    (hal : ∀ p ∈ cards, C14.Aligned cid cands p)
    (hdata : data c.id a.name = fun p => nenAssort p.1 cid w l (remnOf cands E))
    (sqrtF : ℚ → ℚ) (cfg : NM.Cfg) (test : NM.Test)
    (hN : cfg.N = some cards.length) (ht : cfg.t = 1 / 2) (hu : cfg.u = 1)
    (hT : T c.id a.name = NM.run sqrtF cfg test)
    (hdoc : C01.DocumentedFinite sqrtF cfg test)
    (hr0 : 0 < c.riskLimit) (hr1 : c.riskLimit < 1)
    (hwrong : (cards.map (fun p => nenWinner cid w E p.2)).sum ≤ (cards.map (fun p => nenLoser cid l E p.2)).sum) :
    hitG (auditComplete data T s) cards.length cards [] ≤ c.riskLimit := by
  apply audit_risk_limit_run data T s c hc a ha cards sqrtF cfg test hN hT hdoc hr0 hr1
  · intro x _
    rw [hdata, hu]
    exact nenAssort_range x.1 cid w l _
  · rw [hdata, ht]
    exact irv_assertion_null_nen cid cands E w l hw hl cards hal hwrong

/-- **one false RAIRE assertion (either kind), comparison stated with `RaireSpec.tallies`** -/
theorem irv_polling_risk_limit (data : String → String → (Votes κ α × GCvr κ α) → ℚ)
    (T : String → String → SeqTest) (s : State) (c : Contest) (hc : c ∈ s) (a : Assertion)
    (ha : a ∈ c.assertions) (cards : List (Votes κ α × GCvr κ α)) (cid : κ) (cands : List α)
    (k : Raire.Kind) (w l : α) (E : List α) (hwl : k = .nen → w ∈ cands ∧ l ∈ cands)
    (hal : ∀ p ∈ cards, C14.Aligned cid cands p)
    (hdata : data c.id a.name = irvAssort cid cands k w l E)
    (sqrtF : ℚ → ℚ) (cfg : NM.Cfg) (test : NM.Test)
    (hN : cfg.N = some cards.length) (ht : cfg.t = 1 / 2) (hu : cfg.u = 1)
    (hT : T c.id a.name = NM.run sqrtF cfg test)
    (hdoc : C01.DocumentedFinite sqrtF cfg test)
    (hr0 : 0 < c.riskLimit) (hr1 : c.riskLimit < 1)
    (hwrong : (tallies (trueBallots cid cards) k w l E).1 ≤ (tallies (trueBallots cid cards) k w l E).2) :
    hitG (auditComplete data T s) cards.length cards [] ≤ c.riskLimit := by
  apply audit_risk_limit_run data T s c hc a ha cards sqrtF cfg test hN hT hdoc hr0 hr1
  · intro x _
    rw [hdata, hu]
    exact irvAssort_range cid cands k w l E x
  · rw [hdata, ht]
    exact irv_assertion_null cid cands k w l E hwl cards hal hwrong

/-- every assertion of the RAIRE set `S` is audited: it is one of contest `c`'s assertions in the audit state,
its data are the assorter `make_assertions_from_json` builds for it, and its test is a shipped `NonnegMean`
test with `N = n`, `t = 1/2`, `u = 1` inside its documented range -/
def Audited {D : Type} (data : String → String → (Votes κ α × GCvr κ α) → ℚ) (T : String → String → SeqTest)
    (c : Contest) (cid : κ) (cands : List α) (n : Nat) (S : List (Raire.Assertion α D)) : Prop :=
  ∀ r ∈ S, ∃ a ∈ c.assertions,
    data c.id a.name = irvAssort cid cands r.kind r.winner r.loser r.eliminated ∧
    ∃ (sqrtF : ℚ → ℚ) (cfg : NM.Cfg) (test : NM.Test),
      cfg.N = some n ∧ cfg.t = 1 / 2 ∧ cfg.u = 1 ∧ T c.id a.name = NM.run sqrtF cfg test ∧
      C01.DocumentedFinite sqrtF cfg test

/-- **Risk limit of a RAIRE ballot-polling audit of an IRV contest.**
* `cands` (duplicate-free) are the contest's candidates, `winner` the reported winner, `S` a set of NEB/NEN
  assertions that excludes every elimination order ending in another candidate (`Sufficient`), the winner and
  loser of every NEN member being candidates;
* `cards` are the cards cast: `p.1` what the audit reads on the card, `p.2` the same ranking in the generator's
  encoding (`C14.Aligned`: a duplicate-free ranking of listed candidates, or the contest absent on both);
* every member of `S` is audited in contest `c` of the audit state `s` (`Audited`), `0 < c.riskLimit < 1`;
* the reported winner is wrong: some possible IRV count `π` of the ballots on the cards (at every round a
  candidate with a smallest tally is eliminated, ties broken any way) ends in a candidate other than `winner`.

Then, whatever the other assertions, contests and tests are and however often the status is looked at while
the cards are drawn in uniformly random order without replacement, the audit is EVER reported complete with
probability at most `c.riskLimit`. -/
theorem irv_wrong_winner_risk_limit {D : Type} (data : String → String → (Votes κ α × GCvr κ α) → ℚ)
    (T : String → String → SeqTest) (s : State) (c : Contest) (hc : c ∈ s)
    (hr0 : 0 < c.riskLimit) (hr1 : c.riskLimit < 1)
    (cid : κ) (cands : List α) (hcands : cands.Nodup) (winner : α)
    (S : List (Raire.Assertion α D)) (hS : Sufficient cands winner S)
    (hSc : ∀ r ∈ S, r.kind = .nen → r.winner ∈ cands ∧ r.loser ∈ cands)
    (cards : List (Votes κ α × GCvr κ α)) (hal : ∀ p ∈ cards, C14.Aligned cid cands p)
    (haud : Audited data T c cid cands cards.length S)
    (π : List α) (hπ : Alt cands winner π) (hv : validIRV ((trueBallots cid cards).filterMap id) π) :
    hitG (auditComplete data T s) cards.length cards [] ≤ c.riskLimit := by
  obtain ⟨r, hr, hfalse⟩ := irv_wrong_outcome_false_assertion cands hcands winner S hS
    (trueBallots cid cards) (trueBallots_wf hal) π hπ hv
  obtain ⟨a, ha, hdata, sqrtF, cfg, test, hN, ht, hu, hT, hdoc⟩ := haud r hr
  exact irv_polling_risk_limit data T s c hc a ha cards cid cands r.kind r.winner r.loser r.eliminated
    (hSc r hr) hal hdata sqrtF cfg test hN ht hu hT hdoc hr0 hr1 hfalse

/-- **The same for the assertions the modelled RAIRE search returns** (`compute_raire_assertions` on the
REPORTED cvrs `cvrs`, any difficulty function with a lawful order, any fuel, result non-empty): if every
returned assertion is audited and the ballots on the cards have a possible IRV count ending in a candidate other
than the reported winner, the audit is ever reported complete with probability at most `c.riskLimit`. -/
theorem raire_wrong_winner_risk_limit {D : Type} [Raire.DiffOrd D] [Raire.DiffOrd.Lawful D]
    (data : String → String → (Votes κ α × GCvr κ α) → ℚ)
    (T : String → String → SeqTest) (s : State) (c : Contest) (hc : c ∈ s)
    (hr0 : 0 < c.riskLimit) (hr1 : c.riskLimit < 1)
    (asn : Nat → Nat → Nat → Nat → D) (C : Raire.Contest α) (cvrs : List (Option (Raire.Ballot α)))
    (winner : α) (hC : C.candidates.Nodup) (hn : 2 ≤ C.candidates.length) (fuel : Nat)
    (as : List (Raire.Assertion α D))
    (h : Raire.computeRaireAssertions asn C cvrs winner fuel = Raire.Res.ok as) (hne : as ≠ [])
    (cid : κ) (cards : List (Votes κ α × GCvr κ α)) (hal : ∀ p ∈ cards, C14.Aligned cid C.candidates p)
    (haud : Audited data T c cid C.candidates cards.length as)
    (π : List α) (hπ : Alt C.candidates winner π) (hv : validIRV ((trueBallots cid cards).filterMap id) π) :
    hitG (auditComplete data T s) cards.length cards [] ≤ c.riskLimit := by
  refine irv_wrong_winner_risk_limit data T s c hc hr0 hr1 cid C.candidates hC winner as
    (C04.raire_sufficient asn C cvrs winner hC hn fuel as h hne) ?_ cards hal haud π hπ hv
  intro r hr _
  obtain ⟨hw, hl, _⟩ := (C04.raire_true asn C cvrs winner hC hn fuel as h r hr).2
  exact ⟨hw, hl⟩

end Risk

/-! ### 5. non-vacuity

The contest of C04's example: candidates 0, 1, 2; REPORTED cvrs 4 x (0,1), 3 x (1,2), 2 x (2,1), reported winner 1,
for which the modelled RAIRE search returns NEB(1, 2) and NEN(1, 0 | 2 eliminated).  The five cards ACTUALLY
cast are 3 x (0,1), (1,2), (2,1): candidate 2 is eliminated first, then 1, and 0 wins — the reported winner is
wrong.  Both returned assertions are false on the true ballots (1 v 1 and 2 v 3). -/

section example_
open Shangrla.IrvBallot Shangrla.NM

/-- a card holding the ranking `r`: what the audit reads, and the generator's encoding of the same ranking -/
def cardI (r : List Nat) : Votes String Nat × GCvr String Nat :=
  (fromVote (auditEnc r) "c", [("c", genEnc r)])

def cardsI : List (Votes String Nat × GCvr String Nat) :=
  [cardI [0, 1], cardI [0, 1], cardI [0, 1], cardI [1, 2], cardI [2, 1]]

theorem aligned_card {κ α : Type} [DecidableEq κ] [DecidableEq α] (cid : κ) (cands r : List α)
    (hnd : r.Nodup) (hsub : ∀ a ∈ r, a ∈ cands) :
    C14.Aligned cid cands (fromVote (auditEnc r) cid, [(cid, genEnc r)]) :=
  Or.inr ⟨r, genEnc r, hnd, hsub, by simp [fromVote, dget], by simp [dget], C14.SameMap.refl_genEnc r hnd⟩

theorem cardsI_aligned : ∀ p ∈ cardsI, C14.Aligned "c" [0, 1, 2] p := by
  intro p hp
  simp only [cardsI, List.mem_cons, List.not_mem_nil, or_false] at hp
  rcases hp with rfl | rfl | rfl | rfl | rfl <;> exact aligned_card _ _ _ (by decide) (by decide)

def cfgI : Cfg := { N := some 5, u := 1, t := 1/2, randomOrder := true, kw := { eta := some (3/4) } }
def dataI : String → String → (Votes String Nat × GCvr String Nat) → ℚ := fun _ name =>
  if name = "neb" then irvAssort "c" [0, 1, 2] .neb 1 2 [] else irvAssort "c" [0, 1, 2] .nen 1 0 [2]
def TI : String → String → SeqTest := fun _ _ => NM.run sqrtRat cfgI (.alpha .fixedAlt)
def sI : State := [{ id := "c", riskLimit := 9/10, assertions := [{ name := "neb" }, { name := "nen" }] }]

theorem cfgI_documented : C01.DocumentedFinite sqrtRat cfgI (.alpha .fixedAlt) :=
  ⟨by norm_num [cfgI], ⟨by norm_num [cfgI, eps], by norm_num [cfgI, eps], by norm_num [cfgI]⟩, trivial⟩

/-- item 3: the hypotheses of `irv_assertion_null_nen` hold for NEN(1, 0 | 2 eliminated) on the five cards
(generator-side tallies 2 v 3), so the assorter values sum to at most 5/2 -/
example : (cardsI.map (fun p => nenAssort p.1 "c" 1 0 (remnOf [0, 1, 2] [2]))).sum ≤ ((5 : Nat) : ℚ) * (1 / 2) :=
  irv_assertion_null_nen "c" [0, 1, 2] [2] 1 0 (by decide) (by decide) cardsI cardsI_aligned (by decide)

/-- ... and NEB(1, 2) (tallies 1 v 1) -/
example : (cardsI.map (fun p => nebAssort p.1 "c" 1 2)).sum ≤ ((5 : Nat) : ℚ) * (1 / 2) :=
  irv_assertion_null_neb "c" [0, 1, 2] 1 2 cardsI cardsI_aligned (by decide)

/-- item 4: the hypotheses of `irv_polling_risk_limit_nen` are satisfiable -/
example : hitG (auditComplete dataI TI sI) 5 cardsI [] ≤ 9/10 :=
  irv_polling_risk_limit_nen dataI TI sI _ (List.mem_singleton.2 rfl) { name := "nen" } (by simp)
    cardsI "c" [0, 1, 2] [2] 1 0 (by decide) (by decide) cardsI_aligned rfl sqrtRat cfgI (.alpha .fixedAlt)
    rfl rfl rfl rfl cfgI_documented (by norm_num) (by norm_num) (by decide)

/-- `[2, 1, 0]` is a possible IRV count of the five true ballots (tallies 1 ≤ 1, 1 ≤ 3; then 2 ≤ 3) -/
theorem validIRV_cardsI : validIRV ((trueBallots "c" cardsI).filterMap id) [2, 1, 0] := by
  intro pre x post h y hy
  rcases pre with _ | ⟨p1, _ | ⟨p2, _ | ⟨p3, pre⟩⟩⟩
  · simp only [List.nil_append, List.cons.injEq] at h
    obtain ⟨rfl, rfl⟩ := h
    simp only [List.mem_cons, List.not_mem_nil, or_false] at hy
    rcases hy with rfl | rfl <;> decide
  · simp only [List.cons_append, List.nil_append, List.cons.injEq] at h
    obtain ⟨rfl, rfl, rfl⟩ := h
    simp only [List.mem_cons, List.not_mem_nil, or_false] at hy
    subst hy
    decide
  · simp only [List.cons_append, List.nil_append, List.cons.injEq] at h
    obtain ⟨rfl, rfl, rfl, rfl⟩ := h
    cases hy
  · simp at h

/-- capstone: every hypothesis of `raire_wrong_winner_risk_limit` is satisfiable — the RAIRE output for the
reported cvrs of C04's example (non-empty), both returned assertions audited, and true ballots whose IRV count
ends in candidate 0 rather than the reported winner 1 -/
example : hitG (auditComplete dataI TI sI) 5 cardsI [] ≤ 9/10 := by
  have hs : C04.summary (Raire.computeRaireAssertions C04.asnEx C04.CEx C04.cvrsEx 1 100) =
      some [(true, 1, 2, [], 3, 2, 9000), (false, 1, 0, [2], 5, 4, 9000)] := by rfl
  cases h : Raire.computeRaireAssertions C04.asnEx C04.CEx C04.cvrsEx 1 100 with
  | fuel => rw [h] at hs; cases hs
  | err e => rw [h] at hs; cases hs
  | ok as =>
    rw [h] at hs
    simp only [C04.summary, Option.some.injEq, List.map_eq_cons_iff, List.map_eq_nil_iff, Prod.mk.injEq] at hs
    obtain ⟨a1, l1, rfl, ⟨k1, w1, lo1, e1, -⟩, a2, l2, rfl, ⟨k2, w2, lo2, e2, -⟩, rfl⟩ := hs
    have hk1 : a1.kind = .neb := by simpa using k1
    have hk2 : a2.kind = .nen := by
      cases hk : a2.kind
      · rw [hk] at k2; cases k2
      · rfl
    refine raire_wrong_winner_risk_limit dataI TI sI _ (List.mem_singleton.2 rfl) (by norm_num [sI])
      (by norm_num [sI]) C04.asnEx C04.CEx C04.cvrsEx 1 (by decide) (by decide) 100 [a1, a2] h (by simp)
      "c" cardsI cardsI_aligned ?_ [2, 1, 0] ⟨by decide, [2, 1], 0, rfl, by decide⟩ validIRV_cardsI
    intro r hr
    simp only [List.mem_cons, List.not_mem_nil, or_false] at hr
    rcases hr with rfl | rfl
    · refine ⟨{ name := "neb" }, by simp, ?_, sqrtRat, cfgI, .alpha .fixedAlt, rfl, rfl, rfl, rfl,
        cfgI_documented⟩
      rw [hk1, w1, lo1]
      rfl
    · refine ⟨{ name := "nen" }, by simp, ?_, sqrtRat, cfgI, .alpha .fixedAlt, rfl, rfl, rfl, rfl,
        cfgI_documented⟩
      rw [hk2, w2, lo2, e2]
      rfl

/-- ... and the bounded event really happens: with this (deliberately lax) risk limit the audit of the wrong
outcome is reported complete with probability 1/4 (kernel-computed over the 120 orders) -/
theorem example_irv_exact : hitG (auditComplete dataI TI sI) 5 cardsI [] = 1/4 := by decide +kernel

end example_

end Shangrla.RiskLimit
