/-
  IRV under a card-level COMPARISON audit: C04 ∘ C14 ∘ C03/C06 ∘ C09 ∘ C01.

  A card is a pair (manual record, CVR): the manual record as the audit reads it together with the same ranking
  in the generator's encoding (`C14.Aligned`), and the CVR's vote dict.  For a RAIRE assertion `r` the data are the
  overstatement-assorter values `ovA v 1 (A_r cvr) (A_r mvr)` with `A_r` the audit-side IRV assorter of `r`,
  `v = 2·mean(A_r cvr) − 1` the reported margin, test bound `2/(2 − v)`.  If the reported winner is not the winner of
  some possible IRV count of the MANUAL records, some assertion of a sufficient set is false on them
  (`irv_wrong_outcome_false_assertion`), its overstatement data average at most 1/2 (`comparison_null`), and the
  audit is ever reported complete with probability at most the risk limit.
-/
import Shangrla.Props.RiskLimitIRV
import Shangrla.Props.RiskLimitComparison

namespace Shangrla.RiskLimit
open Shangrla Shangrla.Ville Shangrla.Status Shangrla.AuditLoop Shangrla.Overstatement
open Shangrla.Raire.Spec Shangrla.IrvBallot Shangrla.C14

variable {κ α : Type} [DecidableEq κ] [DecidableEq α]

/-- a comparison card: (manual record: audit reading and generator encoding), CVR vote dict -/
abbrev CCard (κ α : Type) := (Votes κ α × GCvr κ α) × Votes κ α

/-- the audit-side assorter of an assertion on the CVR of a card (the generator encoding plays no role) -/
def cvrAssortIRV (cid : κ) (cands : List α) (k : Raire.Kind) (w l : α) (E : List α) (x : CCard κ α) : ℚ :=
  irvAssort cid cands k w l E (x.2, ([] : GCvr κ α))

theorem irvAssort_fst (cid : κ) (cands : List α) (k : Raire.Kind) (w l : α) (E : List α)
    (v : Votes κ α) (g g' : GCvr κ α) :
    irvAssort cid cands k w l E (v, g) = irvAssort cid cands k w l E (v, g') := by
  cases k <;> rfl

/-- what `Audited` means for a comparison audit: every member `r` of `S` is an assertion of contest `c` whose data
are the overstatement values of `r`'s assorter (reported margin from the CVRs of the cards, `u = 1`) and whose
test is a shipped one in its documented range with `N = n`, `t = 1/2` and bound `2/(2 − v)` -/
def AuditedComparison {D : Type} (data : String → String → CCard κ α → ℚ) (T : String → String → SeqTest)
    (c : Contest) (cid : κ) (cands : List α) (cards : List (CCard κ α)) (S : List (Raire.Assertion α D)) : Prop :=
  ∀ r ∈ S, ∃ a ∈ c.assertions,
    let ca := cvrAssortIRV cid cands r.kind r.winner r.loser r.eliminated
    let ma := fun x : CCard κ α => irvAssort cid cands r.kind r.winner r.loser r.eliminated x.1
    let v := 2 * ((cards.map ca).sum / cards.length) - 1
    data c.id a.name = (fun x => ovA v 1 (ca x) (ma x)) ∧
    ∃ (sqrtF : ℚ → ℚ) (cfg : NM.Cfg) (test : NM.Test),
      cfg.N = some cards.length ∧ cfg.t = 1 / 2 ∧ cfg.u = 2 / (2 - v / 1) ∧
      T c.id a.name = NM.run sqrtF cfg test ∧ C01.DocumentedFinite sqrtF cfg test

/-- **Risk limit of a RAIRE card-level comparison audit of an IRV contest.**  Hypotheses as in
`irv_wrong_winner_risk_limit`, the possible IRV count `π` being a count of the MANUAL records of the cards. -/
theorem irv_comparison_wrong_winner_risk_limit {D : Type} (data : String → String → CCard κ α → ℚ)
    (T : String → String → SeqTest) (s : State) (c : Contest) (hc : c ∈ s)
    (hr0 : 0 < c.riskLimit) (hr1 : c.riskLimit < 1)
    (cid : κ) (cands : List α) (hcands : cands.Nodup) (winner : α)
    (S : List (Raire.Assertion α D)) (hS : Sufficient cands winner S)
    (hSc : ∀ r ∈ S, r.kind = .nen → r.winner ∈ cands ∧ r.loser ∈ cands)
    (cards : List (CCard κ α)) (hne : cards ≠ [])
    (hal : ∀ x ∈ cards, C14.Aligned cid cands x.1)
    (haud : AuditedComparison data T c cid cands cards S)
    (π : List α) (hπ : Alt cands winner π)
    (hv : validIRV ((trueBallots cid (cards.map (·.1))).filterMap id) π) :
    hitG (auditComplete data T s) cards.length cards [] ≤ c.riskLimit := by
  have hal' : ∀ p ∈ cards.map (·.1), C14.Aligned cid cands p := by
    intro p hp; obtain ⟨x, hx, rfl⟩ := List.mem_map.1 hp; exact hal x hx
  obtain ⟨r, hr, hfalse⟩ := irv_wrong_outcome_false_assertion cands hcands winner S hS
    (trueBallots cid (cards.map (·.1))) (trueBallots_wf hal') π hπ hv
  obtain ⟨a, ha, hdata, sqrtF, cfg, test, hN, ht, hu, hT, hdoc⟩ := haud r hr
  have hnull := irv_assertion_null cid cands r.kind r.winner r.loser r.eliminated (hSc r hr)
    (cards.map (·.1)) hal' hfalse
  rw [List.map_map, List.length_map] at hnull
  exact comparison_risk_limit data T s c hc a ha cards hne
    (cvrAssortIRV cid cands r.kind r.winner r.loser r.eliminated)
    (fun x => irvAssort cid cands r.kind r.winner r.loser r.eliminated x.1) 1 (by norm_num)
    (fun x _ => irvAssort_range cid cands r.kind r.winner r.loser r.eliminated _)
    (fun x _ => irvAssort_range cid cands r.kind r.winner r.loser r.eliminated _)
    hdata sqrtF cfg test hN ht hu hT hdoc hr0 hr1 hnull

/-! ### non-vacuity

Two candidates 0, 1; reported winner 1; `S = [NEB(1, 0)]` excludes the only other outcome.  Three cards: the CVRs say
1, 1, 0 (reported margin of the assertion 1/3, test bound 6/5), the manual records say 0, 0, 1: candidate 0 really
wins. -/

section example_
open Shangrla.NM

def asnC : Raire.Assertion Nat Nat :=
  { kind := .neb, winner := 1, loser := 0, eliminated := [], votesW := 2, votesL := 1, difficulty := 0, rulesOut := [] }

def cardC (m c : List Nat) : CCard String Nat := (cardI m, fromVote (auditEnc c) "c")
def cardsC : List (CCard String Nat) := [cardC [0] [1], cardC [0] [1], cardC [1] [0]]

def cfgC : Cfg := { N := some 3, u := 6/5, t := 1/2, randomOrder := true, kw := { eta := some (3/4) } }
def dataC : String → String → CCard String Nat → ℚ := fun _ _ x =>
  ovA (1/3) 1 (cvrAssortIRV "c" [0, 1] .neb 1 0 [] x) (irvAssort "c" [0, 1] .neb 1 0 [] x.1)
def TC : String → String → SeqTest := fun _ _ => NM.run sqrtRat cfgC (.alpha .fixedAlt)
def sC : State := [{ id := "c", riskLimit := 9/10, assertions := [{ name := "neb" }] }]

theorem sufficient_C : Sufficient [0, 1] 1 [asnC] := by
  intro π ⟨hperm, pre, c, hπ, hc⟩
  refine ⟨asnC, by simp, ?_⟩
  -- the only order ending in a candidate other than 1 is [1, 0]
  have hlen : π.length = 2 := by simpa using hperm.length_eq
  have hc0 : c = 0 := by
    have : c ∈ [0, 1] := hperm.subset (by rw [hπ]; simp)
    simp at this
    rcases this with rfl | rfl
    · rfl
    · exact absurd rfl hc
  subst hc0
  have hpre : pre = [1] := by
    have h1 : (1 : Nat) ∈ π := hperm.symm.subset (by simp)
    rw [hπ] at h1 hlen
    simp at hlen
    match pre, hlen with
    | [a], _ =>
      simp at h1
      rw [h1]
  subst hpre
  subst hπ
  exact ⟨[], [0], rfl, by simp [asnC]⟩

theorem validIRV_C : validIRV ((trueBallots "c" (cardsC.map (·.1))).filterMap id) [1, 0] := by
  intro pre x post h y hy
  rcases pre with _ | ⟨p1, _ | ⟨p2, pre⟩⟩
  · simp only [List.nil_append, List.cons.injEq] at h
    obtain ⟨rfl, rfl⟩ := h
    simp only [List.mem_cons, List.not_mem_nil, or_false] at hy
    subst hy
    decide
  · simp only [List.cons_append, List.nil_append, List.cons.injEq] at h
    obtain ⟨rfl, rfl, rfl⟩ := h
    cases hy
  · simp at h

example : hitG (auditComplete dataC TC sC) 3 cardsC [] ≤ 9/10 := by
  refine irv_comparison_wrong_winner_risk_limit dataC TC sC _ (List.mem_singleton.2 rfl) (by norm_num [sC])
    (by norm_num [sC]) "c" [0, 1] (by decide) 1 [asnC] sufficient_C (by intro r hr hk; simp at hr; subst hr; cases hk)
    cardsC (by simp [cardsC]) ?_ ?_ [1, 0] ⟨by decide, [1], 0, rfl, by decide⟩ validIRV_C
  · intro x hx
    simp only [cardsC, List.mem_cons, List.not_mem_nil, or_false] at hx
    rcases hx with rfl | rfl | rfl <;> exact aligned_card _ _ _ (by decide) (by decide)
  · intro r hr
    simp only [List.mem_singleton] at hr
    subst hr
    refine ⟨{ name := "neb" }, by simp, ?_, sqrtRat, cfgC, .alpha .fixedAlt, rfl, rfl, ?_, rfl,
      ⟨by norm_num [cfgC], ⟨by norm_num [cfgC, eps], by norm_num [cfgC, eps], by norm_num [cfgC]⟩, trivial⟩⟩
    · have hv : (2 : ℚ) * (((cardsC.map (cvrAssortIRV "c" [0, 1] asnC.kind asnC.winner asnC.loser asnC.eliminated)).sum)
          / (cardsC.length : ℚ)) - 1 = 1 / 3 := by decide +kernel
      show dataC "c" "neb" = _
      funext x
      simp only [dataC]
      rw [hv]
      rfl
    · have hv : (2 : ℚ) * (((cardsC.map (cvrAssortIRV "c" [0, 1] asnC.kind asnC.winner asnC.loser asnC.eliminated)).sum)
          / (cardsC.length : ℚ)) - 1 = 1 / 3 := by decide +kernel
      simp only [hv, cfgC]
      norm_num

/-- the bounded event happens: exact probability over the 6 orders -/
theorem example_irv_comparison_exact : hitG (auditComplete dataC TC sC) 3 cardsC [] = 1/3 := by decide +kernel

end example_

end Shangrla.RiskLimit
