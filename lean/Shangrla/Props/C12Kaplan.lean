/-
  C12 (Kaplan tests and the SPRT) — the reported histories equal the published definitions.

  For each of `kaplan_kolmogorov`, `kaplan_markov`, `kaplan_wald`, `wald_sprt` the defining product
  `T_j` is written as an explicit recursion over `Rat` (`Spec.kkT`, `Spec.kmP`, `Spec.kwT`,
  `Spec.sprtT`: `T_0 = 1`, `T_{j+1} = T_j · factor_{j+1}`), and entry `j` (0-based) of the history
  returned by the literal model (`Shangrla.NM.*`, the functions the driver executes) is shown to be
  `min(1, 1/T_{j+1})` (Kaplan-Markov: `min(1, P_{j+1})`) at every index whose null means are regular,
  together with the boundary clauses (`mu < 0 ⇒ 0`, `mu > u ⇒ 1`, vanishing product `⇒ 1`).
  `pOfQ T = if T = 0 then 1 else min 1 (1/T)` is `min(1, 1/T)` with IEEE `1/0 = +inf`.
-/
import Shangrla.Props.C11Kaplan

namespace Shangrla.C12
open Shangrla.XR Shangrla.NM Shangrla.C11

/-! ## Specifications (rationals only) -/
namespace Spec

/-- the observation `x_{i+1}` (0-based index `i`) -/
def obs (x : List Rat) (i : Nat) : Rat := x.getD i 0

/-- `Σ_{k ≤ i} x_k`: the sum of the first `i` observations -/
def S (x : List Rat) (i : Nat) : Rat := (x.take i).sum

/-- Kaplan-Kolmogorov null mean before draw `i+1`: `(N(t+g) − Σ_{k≤i}(x_k+g)) / (N − (i+1) + 1)` -/
def kkMu (N : Nat) (t g : Rat) (x : List Rat) (i : Nat) : Rat :=
  ((N : Rat) * (t + g) - ((x.take i).map (· + g)).sum) / ((N : Rat) - ((i : Rat) + 1) + 1)

/-- Kaplan-Kolmogorov statistic: `T_0 = 1`, `T_{j+1} = T_j · (x_{j+1} + g)/mu_{j+1}` -/
def kkT (N : Nat) (t g : Rat) (x : List Rat) : Nat → Rat
  | 0 => 1
  | j + 1 => kkT N t g x j * ((obs x j + g) / kkMu N t g x j)

/-- Kaplan-Markov p-value product: `P_0 = 1`, `P_{j+1} = P_j · (t+g)/(x_{j+1}+g)` -/
def kmP (t g : Rat) (x : List Rat) : Nat → Rat
  | 0 => 1
  | j + 1 => kmP t g x j * ((t + g) / (obs x j + g))

/-- Kaplan-Wald statistic: `T_0 = 1`, `T_{j+1} = T_j · ((1−g) x_{j+1}/t + g)` -/
def kwT (t g : Rat) (x : List Rat) : Nat → Rat
  | 0 => 1
  | j + 1 => kwT t g x j * ((1 - g) * obs x j / t + g)

/-- SPRT null mean before draw `i+1`: `(N t − S_i)/(N − (i+1) + 1)`, or `t` for an infinite population -/
def sprtMu (N : Option Nat) (t : Rat) (x : List Rat) (i : Nat) : Rat :=
  match N with
  | some n => ((n : Rat) * t - S x i) / ((n : Rat) - ((i : Rat) + 1) + 1)
  | none => t

/-- SPRT alternative mean before draw `i+1`: `min(u, (N eta − S_i)/(N − (i+1) + 1))`, or `eta` -/
def sprtEta (N : Option Nat) (u eta : Rat) (x : List Rat) (i : Nat) : Rat :=
  match N with
  | some n => min u (((n : Rat) * eta - S x i) / ((n : Rat) - ((i : Rat) + 1) + 1))
  | none => eta

/-- SPRT statistic (with the alternative not below the null mean: `max(eta_j, mu_j)`): `T_0 = 1`,
`T_{j+1} = T_j · [x eta/mu + (u−x)(u−eta)/(u−mu)]/u` with `x, eta, mu` those of draw `j+1` -/
def sprtT (N : Option Nat) (u t eta : Rat) (x : List Rat) : Nat → Rat
  | 0 => 1
  | j + 1 => sprtT N u t eta x j *
      ((obs x j * max (sprtEta N u eta x j) (sprtMu N t x j) / sprtMu N t x j
        + (u - obs x j) * (u - max (sprtEta N u eta x j) (sprtMu N t x j)) / (u - sprtMu N t x j)) / u)

/-- `np.isclose(a, b, rtol, atol)` on rationals -/
def close (a b rtol atol : Rat) : Prop := |a - b| ≤ atol + rtol * |b|

end Spec

theorem obs_eq {x : List Rat} {i : Nat} {a : Rat} (h : x[i]? = some a) : Spec.obs x i = a := by
  simp [Spec.obs, List.getD_eq_getElem?_getD, h]

theorem S_eq (x : List Rat) (i : Nat) : Spec.S x i = psum x i := rfl

/-! ## `kaplan_kolmogorov` -/

theorem kkMu_eq (cfg : Cfg) (n : Nat) (x : List Rat) (i : Nat) :
    C11.kkMu cfg n x i = Spec.kkMu n cfg.t (cfg.kw.g.getD 0) x i := by
  unfold C11.kkMu Spec.kkMu
  rw [mu_some, psum, List.map_take]
  push_cast
  rfl

theorem kkT_eq (N : Nat) (t g : Rat) (x : List Rat) (k : Nat) :
    Spec.kkT N t g x k = prodTo (fun i => (Spec.obs x i + g) / Spec.kkMu N t g x i) k := by
  induction k with
  | zero => rfl
  | succ k ih => rw [Spec.kkT, prodTo, ih]

/-- entry `j` of the masked terms is the rational `T_{j+1}` when all null means up to `j` are positive -/
theorem kkMasked_regular (cfg : Cfg) (n : Nat) (x : List Rat) (j : Nat) (hj : j < x.length)
    (hreg : ∀ i ≤ j, 0 < Spec.kkMu n cfg.t (cfg.kw.g.getD 0) x i) :
    (kkMasked cfg n x)[j]? = some (XR.fin (Spec.kkT n cfg.t (cfg.kw.g.getD 0) x (j + 1))) := by
  have hfac : ∀ i ≤ j, (kkFactors cfg n x)[i]? =
      some (XR.fin ((fun i => (Spec.obs x i + cfg.kw.g.getD 0) / Spec.kkMu n cfg.t (cfg.kw.g.getD 0) x i) i)) := by
    intro i hi
    obtain ⟨a, ha⟩ := getElem?_some_of_lt (lt_of_le_of_lt hi hj)
    rw [kkFactors_getElem? cfg n x i a ha, kkMu_eq, fin_div _ _ (ne_of_gt (hreg i hi))]
    simp only [obs_eq ha]
  have hT := cumprodFrom_getElem?_fin (kkFactors cfg n x) 1 _ j hfac
  rw [one_mul, ← kkT_eq] at hT
  rw [kkMasked_getElem? cfg n x j _ hj hT, kkMu_eq, if_neg (not_lt.mpr (le_of_lt (hreg j (le_refl j))))]
  rfl

/-- **C12, Kaplan-Kolmogorov.**  For every finite `N`, sample `x ≥ 0` with `|x| ≤ N`, and index `j`
whose null means `mu_1..mu_{j+1}` are all positive, entry `j` of the history is `min(1, 1/T_{j+1})`
with `T` the published product (no sign condition on `g` or `t`). -/
theorem kk_def (cfg : Cfg) (n : Nat) (x : List Rat) (hN : cfg.N = some n) (hx : ∀ a ∈ x, 0 ≤ a)
    (hlen : x.length ≤ n) (j : Nat) (hj : j < x.length)
    (hreg : ∀ i ≤ j, 0 < Spec.kkMu n cfg.t (cfg.kw.g.getD 0) x i) :
    ∃ p hist, kaplanKolmogorov cfg x = .ok (p, hist) ∧
      hist[j]? = some (XR.fin (pOfQ (Spec.kkT n cfg.t (cfg.kw.g.getD 0) x (j + 1)))) := by
  have hne : x ≠ [] := by intro h; rw [h] at hj; simp at hj
  refine ⟨_, _, kk_eq cfg n x hN hne hx hlen, ?_⟩
  rw [List.getElem?_map, kkMasked_regular cfg n x j hj hreg, Option.map_some, (min_inv_fin _).2.1]

/-- boundary clause: a negative null mean gives the history entry `0` (the null is surely false) -/
theorem kk_def_neg (cfg : Cfg) (n : Nat) (x : List Rat) (hN : cfg.N = some n) (hx : ∀ a ∈ x, 0 ≤ a)
    (hlen : x.length ≤ n) (j : Nat) (hj : j < x.length)
    (hneg : Spec.kkMu n cfg.t (cfg.kw.g.getD 0) x j < 0) :
    ∃ p hist, kaplanKolmogorov cfg x = .ok (p, hist) ∧ hist[j]? = some (XR.fin 0) := by
  have hne : x ≠ [] := by intro h; rw [h] at hj; simp at hj
  refine ⟨_, _, kk_eq cfg n x hN hne hx hlen, ?_⟩
  obtain ⟨T, hT⟩ := getElem?_some_of_lt (l := XR.cumprod (kkFactors cfg n x)) (i := j)
    (by rw [cumprod_length, kkFactors_length]; exact hj)
  rw [List.getElem?_map, kkMasked_getElem? cfg n x j T hj hT, kkMu_eq, if_pos hneg, Option.map_some,
    npmin_inv_one good_pinf]
  rfl

/-- boundary clause: a regular index whose product vanishes (some `x_i + g = 0`) has entry `1` -/
theorem kk_def_zero (cfg : Cfg) (n : Nat) (x : List Rat) (hN : cfg.N = some n) (hx : ∀ a ∈ x, 0 ≤ a)
    (hlen : x.length ≤ n) (j : Nat) (hj : j < x.length)
    (hreg : ∀ i ≤ j, 0 < Spec.kkMu n cfg.t (cfg.kw.g.getD 0) x i)
    (hz : Spec.kkT n cfg.t (cfg.kw.g.getD 0) x (j + 1) = 0) :
    ∃ p hist, kaplanKolmogorov cfg x = .ok (p, hist) ∧ hist[j]? = some (XR.fin 1) := by
  obtain ⟨p, hist, he, hh⟩ := kk_def cfg n x hN hx hlen j hj hreg
  rw [hz, pOfQ_zero] at hh
  exact ⟨p, hist, he, hh⟩

-- non-vacuity: N = 4, t = 1/2, g = 0, x = [1, 1, 0, 1]: mu = 1/2, 1/3, 0, 0; T_2 = 2·3 = 6, entry 1 is 1/6
example : ∀ i ≤ 1, 0 < Spec.kkMu 4 (1/2) 0 [1, 1, 0, 1] i := by
  intro i hi
  rcases Nat.le_one_iff_eq_zero_or_eq_one.mp hi with rfl | rfl <;> norm_num [Spec.kkMu]
example : Spec.kkT 4 (1/2) 0 [1, 1, 0, 1] 2 = 6 ∧ pOfQ 6 = 1/6 := by
  norm_num [Spec.kkT, Spec.kkMu, Spec.obs, pOfQ]
-- x = [1, 1, 1]: the third null mean is (2 − 2)/2 = 0 and with x = [1,1,1,1] the fourth is negative
example : Spec.kkMu 4 (1/2) 0 [1, 1, 1, 1] 3 < 0 := by norm_num [Spec.kkMu]

/-! ## `kaplan_markov` -/

theorem kmP_eq (t g : Rat) (x : List Rat) (k : Nat) :
    Spec.kmP t g x k = prodTo (fun i => (t + g) / (Spec.obs x i + g)) k := by
  induction k with
  | zero => rfl
  | succ k ih => rw [Spec.kmP, prodTo, ih]

/-- **C12, Kaplan-Markov.**  For every sample `x ≥ 0` and index `j` with `x_i + g ≠ 0` for all `i ≤ j`
(non-vanishing denominators), entry `j` of the history is `min(1, P_{j+1})`, `P` the published product. -/
theorem km_def (cfg : Cfg) (x : List Rat) (hx : ∀ a ∈ x, 0 ≤ a) (j : Nat) (hj : j < x.length)
    (hreg : ∀ i ≤ j, Spec.obs x i + cfg.kw.g.getD 0 ≠ 0) :
    ∃ p hist, kaplanMarkov cfg x = .ok (p, hist) ∧
      hist[j]? = some (XR.fin (min 1 (Spec.kmP cfg.t (cfg.kw.g.getD 0) x (j + 1)))) := by
  have hne : x ≠ [] := by intro h; rw [h] at hj; simp at hj
  refine ⟨_, _, km_eq cfg x hne hx, ?_⟩
  have hfac : ∀ i ≤ j, (x.map fun a => (XR.fin (cfg.t + cfg.kw.g.getD 0)) / (XR.fin (a + cfg.kw.g.getD 0)))[i]? =
      some (XR.fin ((fun i => (cfg.t + cfg.kw.g.getD 0) / (Spec.obs x i + cfg.kw.g.getD 0)) i)) := by
    intro i hi
    obtain ⟨a, ha⟩ := getElem?_some_of_lt (lt_of_le_of_lt hi hj)
    have h0 := hreg i hi
    rw [obs_eq ha] at h0
    rw [List.getElem?_map, ha, Option.map_some, fin_div _ _ h0]
    simp only [obs_eq ha]
  have hT := cumprodFrom_getElem?_fin _ 1 _ j hfac
  rw [one_mul, ← kmP_eq] at hT
  unfold kmTerms XR.cumprod
  rw [List.getElem?_map, one_def, hT, Option.map_some, npmin_fin_fin, min_comm]

-- non-vacuity: t = 1/2, g = 1/10, x = [1, 0, 1/2]: P_2 = (6/10)/(11/10) · (6/10)/(1/10) = 36/11 > 1
example : ∀ i ≤ 1, Spec.obs [1, 0, 1/2] i + (1/10 : Rat) ≠ 0 := by
  intro i hi
  rcases Nat.le_one_iff_eq_zero_or_eq_one.mp hi with rfl | rfl <;> norm_num [Spec.obs]
example : Spec.kmP (1/2) (1/10) [1, 0, 1/2] 2 = 36/11 := by norm_num [Spec.kmP, Spec.obs]

/-! ## `kaplan_wald` -/

theorem kwT_eq (t g : Rat) (x : List Rat) (k : Nat) :
    Spec.kwT t g x k = prodTo (fun i => (1 - g) * Spec.obs x i / t + g) k := by
  induction k with
  | zero => rfl
  | succ k ih => rw [Spec.kwT, prodTo, ih]

/-- **C12, Kaplan-Wald.**  For every sample `x ≥ 0`, `0 ≤ g ≤ 1` (both enforced by the code) and `t ≠ 0`,
every entry `j` of the history is `min(1, 1/T_{j+1})`, `T` the published product. -/
theorem kw_def (cfg : Cfg) (x : List Rat) (hx : ∀ a ∈ x, 0 ≤ a) (hg0 : 0 ≤ cfg.kw.g.getD 0)
    (hg1 : cfg.kw.g.getD 0 ≤ 1) (ht : cfg.t ≠ 0) (j : Nat) (hj : j < x.length) :
    ∃ p hist, kaplanWald cfg x = .ok (p, hist) ∧
      hist[j]? = some (XR.fin (pOfQ (Spec.kwT cfg.t (cfg.kw.g.getD 0) x (j + 1)))) := by
  have hne : x ≠ [] := by intro h; rw [h] at hj; simp at hj
  refine ⟨_, _, kw_eq cfg x hne hx hg0 hg1, ?_⟩
  have hfac : ∀ i ≤ j, (x.map fun a =>
      (XR.fin ((1 - cfg.kw.g.getD 0) * a)) / (XR.fin cfg.t) + (XR.fin (cfg.kw.g.getD 0)))[i]? =
      some (XR.fin ((fun i => (1 - cfg.kw.g.getD 0) * Spec.obs x i / cfg.t + cfg.kw.g.getD 0) i)) := by
    intro i hi
    obtain ⟨a, ha⟩ := getElem?_some_of_lt (lt_of_le_of_lt hi hj)
    rw [List.getElem?_map, ha, Option.map_some, fin_div _ _ ht, fin_add]
    simp only [obs_eq ha]
  have hT := cumprodFrom_getElem?_fin _ 1 _ j hfac
  rw [one_mul, ← kwT_eq] at hT
  unfold kwTerms XR.cumprod
  rw [List.getElem?_map, one_def, hT, Option.map_some, ← one_def, (min_inv_fin _).2.1]

/-- boundary clause: a vanishing product (`g = 0` and a zero observation) gives the entry `1` -/
theorem kw_def_zero (cfg : Cfg) (x : List Rat) (hx : ∀ a ∈ x, 0 ≤ a) (hg0 : 0 ≤ cfg.kw.g.getD 0)
    (hg1 : cfg.kw.g.getD 0 ≤ 1) (ht : cfg.t ≠ 0) (j : Nat) (hj : j < x.length)
    (hz : Spec.kwT cfg.t (cfg.kw.g.getD 0) x (j + 1) = 0) :
    ∃ p hist, kaplanWald cfg x = .ok (p, hist) ∧ hist[j]? = some (XR.fin 1) := by
  obtain ⟨p, hist, he, hh⟩ := kw_def cfg x hx hg0 hg1 ht j hj
  rw [hz, pOfQ_zero] at hh
  exact ⟨p, hist, he, hh⟩

-- non-vacuity: t = 1/2, g = 1/10, x = [1, 0, 1/2]: T_1 = 19/10, T_2 = 19/100, T_3 = 19/100
example : Spec.kwT (1/2) (1/10) [1, 0, 1/2] 1 = 19/10 ∧ pOfQ (19/10) = 10/19 ∧
    Spec.kwT (1/2) (1/10) [1, 0, 1/2] 2 = 19/100 ∧ pOfQ (19/100) = 1 := by
  norm_num [Spec.kwT, Spec.obs, pOfQ]
-- g = 0 and a zero observation: the product vanishes, the entry is 1
example : Spec.kwT (1/2) 0 [1, 0, 1/2] 2 = 0 := by norm_num [Spec.kwT, Spec.obs]

/-! ## `wald_sprt` -/

theorem sprtMu_eq (cfg : Cfg) (x : List Rat) (i : Nat) :
    C11.sprtMu cfg x i = Spec.sprtMu cfg.N cfg.t x i := by
  unfold C11.sprtMu Spec.sprtMu
  cases cfg.N with
  | none => rfl
  | some n =>
    simp only [mu_some, S_eq]
    push_cast
    rfl

theorem sprtEt0_eq (cfg : Cfg) (x : List Rat) (i : Nat) :
    C11.sprtEt0 cfg x i = Spec.sprtEta cfg.N cfg.u (C11.sprtEta cfg) x i := by
  unfold C11.sprtEt0 Spec.sprtEta
  cases cfg.N with
  | none => rfl
  | some n =>
    simp only [mu_some, S_eq]
    push_cast
    rfl

theorem sprtEt_eq (cfg : Cfg) (x : List Rat) (i : Nat) :
    C11.sprtEt cfg x i =
      max (Spec.sprtEta cfg.N cfg.u (C11.sprtEta cfg) x i) (Spec.sprtMu cfg.N cfg.t x i) := by
  unfold C11.sprtEt
  rw [sprtEt0_eq, sprtMu_eq]

theorem sprtT_eq (N : Option Nat) (u t eta : Rat) (x : List Rat) (k : Nat) :
    Spec.sprtT N u t eta x k =
      prodTo (fun i => sprtPhi u (Spec.obs x i) (max (Spec.sprtEta N u eta x i) (Spec.sprtMu N t x i))
        (Spec.sprtMu N t x i)) k := by
  induction k with
  | zero => rfl
  | succ k ih => rw [Spec.sprtT, prodTo, ih]; rfl

theorem pAndHist_snd (ro : Bool) (L : List XR) :
    (pAndHist ro L).2 = L.map (fun T => XR.npmin (1 : XR) ((1 : XR) / T)) := rfl

theorem npmin_one_div_one : XR.npmin (1 : XR) ((1 : XR) / (1 : XR)) = XR.fin 1 := by
  have h := (min_inv_fin 1).1
  have h1 : pOfQ 1 = 1 := by norm_num [pOfQ]
  rw [h1] at h
  exact h

/-- the raw cumulative product at `j` is the rational `T_{j+1}` when all null means up to `j` lie
strictly between `0` and `u` -/
theorem sprtTerms_regular (cfg : Cfg) (x : List Rat) (hfit : FitsN cfg.N x.length) (j : Nat)
    (hj : j < x.length)
    (hreg : ∀ i ≤ j, 0 < Spec.sprtMu cfg.N cfg.t x i ∧ Spec.sprtMu cfg.N cfg.t x i < cfg.u) :
    (XR.cumprod (sprtFactors cfg x))[j]? =
      some (XR.fin (Spec.sprtT cfg.N cfg.u cfg.t (C11.sprtEta cfg) x (j + 1))) := by
  have hfac : ∀ i ≤ j, (sprtFactors cfg x)[i]? =
      some (XR.fin ((fun i => sprtPhi cfg.u (Spec.obs x i) (max (Spec.sprtEta cfg.N cfg.u (C11.sprtEta cfg) x i) (Spec.sprtMu cfg.N cfg.t x i))
        (Spec.sprtMu cfg.N cfg.t x i)) i)) := by
    intro i hi
    obtain ⟨a, ha⟩ := getElem?_some_of_lt (lt_of_le_of_lt hi hj)
    obtain ⟨h0, hu⟩ := hreg i hi
    rw [sprtFactors_getElem? cfg x hfit i a ha, sprtMu_eq, sprtEt_eq,
      sprtFactor_fin _ _ _ _ (ne_of_gt h0) (by linarith) (by linarith)]
    simp only [obs_eq ha]
  have hT := cumprodFrom_getElem?_fin (sprtFactors cfg x) 1 _ j hfac
  rw [one_mul, ← sprtT_eq] at hT
  exact hT

/-- **C12, SPRT generalisation.**  For every sample in `[0,u]` (no longer than a finite population,
in random order when the population is finite) and every index `j` such that all null means
`mu_1..mu_{j+1}` lie strictly between `0` and `u`, `mu_{j+1}` is outside the `isclose` bands of the
masks (`isclose(0, mu, atol=2eps)` with numpy's default `rtol=1e-5`; `isclose(u, mu, rtol=1e-6,
atol=2eps)`) and the product is not `isclose` to `0`: entry `j` of the history is `min(1, 1/T_{j+1})`. -/
theorem sprt_def (cfg : Cfg) (x : List Rat) (hx : ∀ a ∈ x, 0 ≤ a ∧ a ≤ cfg.u)
    (hfit : FitsN cfg.N x.length) (hro : cfg.N ≠ none → cfg.randomOrder = true)
    (j : Nat) (hj : j < x.length)
    (hreg : ∀ i ≤ j, 0 < Spec.sprtMu cfg.N cfg.t x i ∧ Spec.sprtMu cfg.N cfg.t x i < cfg.u)
    (hb0 : ¬ Spec.close 0 (Spec.sprtMu cfg.N cfg.t x j) (1 / 100000) (2 * eps))
    (hbu : ¬ Spec.close cfg.u (Spec.sprtMu cfg.N cfg.t x j) (1 / 1000000) (2 * eps))
    (hbT : ¬ Spec.close 0 (Spec.sprtT cfg.N cfg.u cfg.t (C11.sprtEta cfg) x (j + 1)) (1 / 100000) (2 * eps)) :
    ∃ p hist, waldSprt cfg x = .ok (p, hist) ∧
      hist[j]? = some (XR.fin (pOfQ (Spec.sprtT cfg.N cfg.u cfg.t (C11.sprtEta cfg) x (j + 1)))) := by
  have hne : x ≠ [] := by intro h; rw [h] at hj; simp at hj
  refine ⟨_, _, sprt_eq cfg x hne hx hro, ?_⟩
  obtain ⟨h0, hu⟩ := hreg j (le_refl j)
  rw [List.getElem?_map,
    sprtMasked_getElem? cfg x hfit j _ hj (sprtTerms_regular cfg x hfit j hj hreg), sprtMu_eq,
    maskTermX_regular _ _ _ _ _ (not_lt.mpr (le_of_lt hu)) hb0 hbu (not_lt.mpr (le_of_lt h0)),
    zero_def, isclose_fin, if_neg (by simpa [Spec.close] using hbT), Option.map_some, (min_inv_fin _).1]

/-- boundary clause: `mu_{j+1} > u` (the true mean is certainly below the hypothesised one): entry `1` -/
theorem sprt_def_above (cfg : Cfg) (x : List Rat) (hx : ∀ a ∈ x, 0 ≤ a ∧ a ≤ cfg.u)
    (hfit : FitsN cfg.N x.length) (hro : cfg.N ≠ none → cfg.randomOrder = true) (hu0 : 0 ≤ cfg.u)
    (j : Nat) (hj : j < x.length) (habove : cfg.u < Spec.sprtMu cfg.N cfg.t x j) :
    ∃ p hist, waldSprt cfg x = .ok (p, hist) ∧ hist[j]? = some (XR.fin 1) := by
  have hne : x ≠ [] := by intro h; rw [h] at hj; simp at hj
  refine ⟨_, _, sprt_eq cfg x hne hx hro, ?_⟩
  obtain ⟨T, hT⟩ := getElem?_some_of_lt (l := XR.cumprod (sprtFactors cfg x)) (i := j)
    (by rw [cumprod_length, sprtFactors_length]; exact hj)
  rw [List.getElem?_map, sprtMasked_getElem? cfg x hfit j T hj hT, sprtMu_eq,
    maskTermX_above _ _ _ _ _ hu0 (by have := eps_pos; linarith) habove, Option.map_some,
    npmin_one_div_one]

/-- boundary clause: `mu_{j+1} < 0` (the null is surely false): entry `0` -/
theorem sprt_def_neg (cfg : Cfg) (x : List Rat) (hx : ∀ a ∈ x, 0 ≤ a ∧ a ≤ cfg.u)
    (hfit : FitsN cfg.N x.length) (hro : cfg.N ≠ none → cfg.randomOrder = true)
    (j : Nat) (hj : j < x.length) (hneg : Spec.sprtMu cfg.N cfg.t x j < 0) :
    ∃ p hist, waldSprt cfg x = .ok (p, hist) ∧ hist[j]? = some (XR.fin 0) := by
  have hne : x ≠ [] := by intro h; rw [h] at hj; simp at hj
  refine ⟨_, _, sprt_eq cfg x hne hx hro, ?_⟩
  obtain ⟨T, hT⟩ := getElem?_some_of_lt (l := XR.cumprod (sprtFactors cfg x)) (i := j)
    (by rw [cumprod_length, sprtFactors_length]; exact hj)
  rw [List.getElem?_map, sprtMasked_getElem? cfg x hfit j T hj hT, sprtMu_eq,
    maskTermX_neg _ _ _ _ _ hneg, Option.map_some, npmin_one_inv good_pinf]
  rfl

/-- boundary clause: regular null means but a product that is zero, or `isclose` to zero: entry `1` -/
theorem sprt_def_vanish (cfg : Cfg) (x : List Rat) (hx : ∀ a ∈ x, 0 ≤ a ∧ a ≤ cfg.u)
    (hfit : FitsN cfg.N x.length) (hro : cfg.N ≠ none → cfg.randomOrder = true)
    (j : Nat) (hj : j < x.length)
    (hreg : ∀ i ≤ j, 0 < Spec.sprtMu cfg.N cfg.t x i ∧ Spec.sprtMu cfg.N cfg.t x i < cfg.u)
    (hb0 : ¬ Spec.close 0 (Spec.sprtMu cfg.N cfg.t x j) (1 / 100000) (2 * eps))
    (hbu : ¬ Spec.close cfg.u (Spec.sprtMu cfg.N cfg.t x j) (1 / 1000000) (2 * eps))
    (hbT : Spec.close 0 (Spec.sprtT cfg.N cfg.u cfg.t (C11.sprtEta cfg) x (j + 1)) (1 / 100000) (2 * eps)) :
    ∃ p hist, waldSprt cfg x = .ok (p, hist) ∧ hist[j]? = some (XR.fin 1) := by
  have hne : x ≠ [] := by intro h; rw [h] at hj; simp at hj
  refine ⟨_, _, sprt_eq cfg x hne hx hro, ?_⟩
  obtain ⟨h0, hu⟩ := hreg j (le_refl j)
  rw [List.getElem?_map,
    sprtMasked_getElem? cfg x hfit j _ hj (sprtTerms_regular cfg x hfit j hj hreg), sprtMu_eq,
    maskTermX_regular _ _ _ _ _ (not_lt.mpr (le_of_lt hu)) hb0 hbu (not_lt.mpr (le_of_lt h0)),
    zero_def, isclose_fin, if_pos (by simpa [Spec.close] using hbT), Option.map_some,
    npmin_one_div_one]

theorem close_zero_zero (rtol atol : Rat) (h : 0 ≤ atol) : Spec.close 0 0 rtol atol := by
  simp [Spec.close, h]

-- non-vacuity: N = 5, u = 1, t = 1/2, eta = 3/4, x = [1, 0, 1/2, 1]:
-- mu = 1/2, 3/8, 1/2, ...; eta_i = 3/4, 11/16, 11/12 (all < u); T_1 = 3/2, T_2 = 3/2 · 1/2 = 3/4
example : ∀ i ≤ 1, 0 < Spec.sprtMu (some 5) (1/2) [1, 0, 1/2, 1] i ∧
    Spec.sprtMu (some 5) (1/2) [1, 0, 1/2, 1] i < 1 := by
  intro i hi
  rcases Nat.le_one_iff_eq_zero_or_eq_one.mp hi with rfl | rfl <;> norm_num [Spec.sprtMu, Spec.S]
example : Spec.sprtT (some 5) 1 (1/2) (3/4) [1, 0, 1/2, 1] 2 = 3/4 ∧ pOfQ (3/4) = 1 := by
  norm_num [Spec.sprtT, Spec.sprtMu, Spec.sprtEta, Spec.S, Spec.obs, pOfQ]
example : ¬ Spec.close 0 (Spec.sprtMu (some 5) (1/2) [1, 0, 1/2, 1] 1) (1 / 100000) (2 * eps) := by
  norm_num [Spec.close, Spec.sprtMu, Spec.S, eps, abs_of_nonneg, abs_of_neg]
example : ¬ Spec.close 1 (Spec.sprtMu (some 5) (1/2) [1, 0, 1/2, 1] 1) (1 / 1000000) (2 * eps) := by
  norm_num [Spec.close, Spec.sprtMu, Spec.S, eps, abs_of_nonneg, abs_of_neg]
-- mu > u: N = 3, t = 1/2, u = 1, x = [0, 0]: mu_3 would be (3/2)/1 > 1; here index 2 of [0,0,0]
example : (1 : Rat) < Spec.sprtMu (some 3) (1/2) [0, 0, 0] 2 := by norm_num [Spec.sprtMu, Spec.S]

/-! ## The theorems applied to concrete inputs (non-vacuity of the conjunction of all hypotheses) -/

-- Kaplan-Kolmogorov, N = 4, t = 1/2, g = 0, x = [1, 1, 0, 1]: entry 1 of the history is 1/6
example : ∃ p hist, kaplanKolmogorov { N := some 4, u := 1, t := 1/2, randomOrder := true, kw := {} }
    [1, 1, 0, 1] = .ok (p, hist) ∧ hist[1]? = some (XR.fin (1/6)) := by
  have h := kk_def { N := some 4, u := 1, t := 1/2, randomOrder := true, kw := {} } 4 [1, 1, 0, 1] rfl
    (by intro a ha; simp at ha; rcases ha with rfl | rfl | rfl <;> norm_num) (by simp) 1 (by simp)
    (by intro i hi
        rcases Nat.le_one_iff_eq_zero_or_eq_one.mp hi with rfl | rfl <;> norm_num [Spec.kkMu])
  have hT : pOfQ (Spec.kkT 4 (1/2) (Option.getD (none : Option Rat) 0) [1, 1, 0, 1] (1 + 1)) = 1/6 := by
    norm_num [Spec.kkT, Spec.kkMu, Spec.obs, pOfQ]
  obtain ⟨p, hist, he, hh⟩ := h
  exact ⟨p, hist, he, by rw [hh]; exact congrArg _ (congrArg _ hT)⟩

-- Kaplan-Markov, t = 1/2, g = 1/10, x = [1, 0, 1/2]: entry 0 is (6/10)/(11/10) = 6/11
example : ∃ p hist, kaplanMarkov { N := none, u := 1, t := 1/2, randomOrder := true, kw := { g := some (1/10) } }
    [1, 0, 1/2] = .ok (p, hist) ∧ hist[0]? = some (XR.fin (6/11)) := by
  have h := km_def { N := none, u := 1, t := 1/2, randomOrder := true, kw := { g := some (1/10) } } [1, 0, 1/2]
    (by intro a ha; simp at ha; rcases ha with rfl | rfl | rfl <;> norm_num) 0 (by simp)
    (by intro i hi
        have : i = 0 := by omega
        subst this; norm_num [Spec.obs])
  have hT : min 1 (Spec.kmP (1/2) (Option.getD (some (1/10 : Rat)) 0) [1, 0, 1/2] (0 + 1)) = 6/11 := by
    norm_num [Spec.kmP, Spec.obs]
  obtain ⟨p, hist, he, hh⟩ := h
  exact ⟨p, hist, he, by rw [hh]; exact congrArg _ (congrArg _ hT)⟩

-- Kaplan-Wald, t = 1/2, g = 1/10, x = [1, 0, 1/2]: entry 0 is 10/19
example : ∃ p hist, kaplanWald { N := none, u := 1, t := 1/2, randomOrder := true, kw := { g := some (1/10) } }
    [1, 0, 1/2] = .ok (p, hist) ∧ hist[0]? = some (XR.fin (10/19)) := by
  have h := kw_def { N := none, u := 1, t := 1/2, randomOrder := true, kw := { g := some (1/10) } } [1, 0, 1/2]
    (by intro a ha; simp at ha; rcases ha with rfl | rfl | rfl <;> norm_num) (by simp) (by simp; norm_num)
    (by norm_num) 0 (by simp)
  have hT : pOfQ (Spec.kwT (1/2) (Option.getD (some (1/10 : Rat)) 0) [1, 0, 1/2] (0 + 1)) = 10/19 := by
    norm_num [Spec.kwT, Spec.obs, pOfQ]
  obtain ⟨p, hist, he, hh⟩ := h
  exact ⟨p, hist, he, by rw [hh]; exact congrArg _ (congrArg _ hT)⟩

-- SPRT, N = 5, u = 1, t = 1/2, eta = 3/4, x = [1, 0, 1/2, 1]: T_1 = 3/2, entry 0 is 2/3
example : ∃ p hist, waldSprt { N := some 5, u := 1, t := 1/2, randomOrder := true, kw := { eta := some (3/4) } }
    [1, 0, 1/2, 1] = .ok (p, hist) ∧ hist[0]? = some (XR.fin (2/3)) := by
  have hT0 : Spec.sprtT (some 5) 1 (1/2) (3/4) [1, 0, 1/2, 1] (0 + 1) = 3/2 := by
    norm_num [Spec.sprtT, Spec.sprtMu, Spec.sprtEta, Spec.S, Spec.obs]
  have h := sprt_def { N := some 5, u := 1, t := 1/2, randomOrder := true, kw := { eta := some (3/4) } }
    [1, 0, 1/2, 1]
    (by intro a ha; simp at ha; rcases ha with rfl | rfl | rfl | rfl <;> norm_num)
    (by intro n hn; simp at hn; subst hn; simp) (by intro _; rfl) 0 (by simp)
    (by intro i hi
        have : i = 0 := by omega
        subst this; norm_num [Spec.sprtMu, Spec.S])
    (by norm_num [Spec.close, Spec.sprtMu, Spec.S, eps, abs_of_nonneg, abs_of_neg])
    (by norm_num [Spec.close, Spec.sprtMu, Spec.S, eps, abs_of_nonneg, abs_of_neg])
    (by show ¬ Spec.close 0 (Spec.sprtT (some 5) 1 (1/2) (3/4) [1, 0, 1/2, 1] (0 + 1)) (1 / 100000) (2 * eps)
        rw [hT0]; norm_num [Spec.close, eps, abs_of_nonneg, abs_of_neg])
  have hT : pOfQ (Spec.sprtT (some 5) 1 (1/2) (3/4) [1, 0, 1/2, 1] (0 + 1)) = 2/3 := by
    rw [hT0]; norm_num [pOfQ]
  obtain ⟨p, hist, he, hh⟩ := h
  exact ⟨p, hist, he, by rw [hh]; exact congrArg _ (congrArg _ hT)⟩

end Shangrla.C12
