/-
  C16 (continued) — the tail of `Audit.find_sample_size`: `old_sizes`, the per-card sampling probability
  `cvr.p` and the returned total, with style information (L1075-1080, L1124-1140).

  Theorems are about the literal models the driver executes: `Shangrla.SS.oldSize`, `styleRatio`, `pStep`,
  `cardP`, `sumP`, `auditTotalStyle`.  The model works on `XR` because the division
  `con.sample_size / (con.cards - old_sizes[c])` is numpy's (`int / numpy.int64`): a zero divisor gives
  `inf` / `nan`, not an exception.  The documented reading ("the largest of the ratios of the contests on the
  card") is the rational specification `pSpec`; the model equals it whenever every contest listed on an
  unsampled card still has cards left to draw (`Guard`).  Without that guard the full-strength statements of
  order-irrelevance and monotonicity are FALSE for the code (theorems `style_order_matters`,
  `style_not_monotone_unguarded`: `nan` is swallowed by Python's `max`).
-/
import Shangrla.Model.SampleSize
import Shangrla.Props.C16
import Shangrla.Lemmas.XRBasic
import Mathlib.Tactic.Ring
import Mathlib.Tactic.FieldSimp
import Mathlib.Tactic.Linarith
import Mathlib.Tactic.Positivity
import Mathlib.Algebra.Order.Field.Basic
import Mathlib.Algebra.Order.Ring.Rat
import Mathlib.Algebra.BigOperators.Group.List.Basic
import Mathlib.Algebra.Order.BigOperators.Group.List

namespace Shangrla.C16
open Shangrla Shangrla.SS

/-! ### 0. vocabulary -/

/-- `old_c`: the number of already sampled cards that list contest `c` -/
def oldOf (cvrs : List Card) (c : String) : Nat := (cvrs.filter (fun cd => cd.has c && cd.sampled)).length

/-- `cards_c − old_c`: the cards of the contest not yet drawn -/
def denom (cvrs : List Card) (c : SContest) : Int := c.cards - (oldOf cvrs c.id : Int)

/-- the exact ratio `size_c / (cards_c − old_c)` -/
def ratioQ (cvrs : List Card) (c : SContest) : Rat := (c.size : Rat) / ((denom cvrs c : Int) : Rat)

/-- the contests (of those being audited) that the card lists, in dict order -/
def listed (contests : List SContest) (cd : Card) : List SContest := contests.filter (fun c => cd.has c.id)

/-- `max(·, ·)` over a list, starting from 0 -/
def maxQ (l : List Rat) : Rat := l.foldl max 0

/-- the documented `cvr.p`: 1 for a sampled card, otherwise the largest ratio among the contests the card
lists, 0 if it lists none -/
def pSpec (cvrs : List Card) (contests : List SContest) (cd : Card) : Rat :=
  if cd.sampled then 1 else maxQ ((listed contests cd).map (ratioQ cvrs))

/-- every audited contest on the card still has cards left to draw -/
def Guard (cvrs : List Card) (contests : List SContest) (cd : Card) : Prop :=
  ∀ c ∈ contests, cd.has c.id = true → 0 < denom cvrs c

/-- ... and its estimate does not exceed them: `0 ≤ size_c ≤ cards_c − old_c` (`0 ≤ size_c` holds by type) -/
def GuardLe (cvrs : List Card) (contests : List SContest) (cd : Card) : Prop :=
  ∀ c ∈ contests, cd.has c.id = true → 0 < denom cvrs c ∧ (c.size : Int) ≤ denom cvrs c

/-- the guard for every card that enters the total through a ratio (unsampled, not a phantom) -/
def GuardAll (cvrs : List Card) (contests : List SContest) : Prop :=
  ∀ cd ∈ cvrs, cd.phantom = false → cd.sampled = false → Guard cvrs contests cd

def GuardLeAll (cvrs : List Card) (contests : List SContest) : Prop :=
  ∀ cd ∈ cvrs, cd.phantom = false → cd.sampled = false → GuardLe cvrs contests cd

theorem GuardLe.guard {cvrs contests cd} (h : GuardLe cvrs contests cd) : Guard cvrs contests cd :=
  fun c hc hh => (h c hc hh).1

theorem GuardLeAll.guardAll {cvrs contests} (h : GuardLeAll cvrs contests) : GuardAll cvrs contests :=
  fun cd hcd hp hs => (h cd hcd hp hs).guard

/-- the non-phantom cards: those whose `p` is summed -/
def nonPhantom (cvrs : List Card) : List Card := cvrs.filter (fun cd => !cd.phantom)

/-- `Σ p` over the non-phantom cards, exactly -/
def sumSpec (cvrs : List Card) (contests : List SContest) : Rat :=
  ((nonPhantom cvrs).map (pSpec cvrs contests)).sum

/-! ### 1. `old_sizes` -/

/-- `np.sum(np.array([cvr.sampled for cvr in cvrs if cvr.has_contest(c)]))` is the number of sampled cards
that list `c` -/
theorem oldSize_style (cvrs : List Card) (c : String) : oldSize true none cvrs c = oldOf cvrs c := by
  unfold oldSize oldOf
  simp only [if_true]
  induction cvrs with
  | nil => rfl
  | cons cd t ih =>
    by_cases h : cd.has c = true
    · by_cases hs : cd.sampled = true
      · simp [h, hs, ih]
      · have hs' : cd.sampled = false := by simpa using hs
        simp [h, hs', ih]
    · have h' : cd.has c = false := by simpa using h
      simp [h', ih]

/-- without style information: `0` resp. `len(mvr_sample)` -/
theorem oldSize_nostyle (mvrLen : Option Nat) (cvrs : List Card) (c : String) :
    oldSize false mvrLen cvrs c = mvrLen.getD 0 := rfl

example : oldSize true none [⟨["a", "b"], true, false⟩, ⟨["a"], false, false⟩, ⟨["b"], true, true⟩] "a" = 1 ∧
    oldSize true none [⟨["a", "b"], true, false⟩, ⟨["a"], false, false⟩, ⟨["b"], true, true⟩] "b" = 2 := by decide

/-! ### 2. the ratio and `max` on finite values -/

theorem styleRatio_of_pos (cvrs : List Card) (c : SContest) (h : 0 < denom cvrs c) :
    styleRatio cvrs c = .fin (ratioQ cvrs c) := by
  unfold styleRatio ratioQ
  rw [oldSize_style]
  have hne : (((c.cards - (oldOf cvrs c.id : Int) : Int)) : Rat) ≠ 0 := by
    have : c.cards - (oldOf cvrs c.id : Int) ≠ 0 := by unfold denom at h; omega
    exact_mod_cast this
  show XR.fin _ / XR.fin _ = _
  rw [XR.fin_div _ _ hne]
  rfl

theorem ratioQ_nonneg (cvrs : List Card) (c : SContest) (h : 0 < denom cvrs c) : 0 ≤ ratioQ cvrs c := by
  unfold ratioQ
  have : (0 : Rat) < ((denom cvrs c : Int) : Rat) := by exact_mod_cast h
  positivity

theorem ratioQ_le_one (cvrs : List Card) (c : SContest) (h : 0 < denom cvrs c) (hs : (c.size : Int) ≤ denom cvrs c) :
    ratioQ cvrs c ≤ 1 := by
  unfold ratioQ
  have hd : (0 : Rat) < ((denom cvrs c : Int) : Rat) := by exact_mod_cast h
  rw [div_le_one hd]
  have : ((c.size : Int) : Rat) ≤ ((denom cvrs c : Int) : Rat) := by exact_mod_cast hs
  simpa using this

/-- Python's `max(r, p)` on finite values is the larger one -/
theorem pymax_fin (r p : Rat) : XR.pymax (.fin r) (.fin p) = .fin (max p r) := by
  unfold XR.pymax
  by_cases h : r < p
  · simp [h, max_eq_left (le_of_lt h)]
  · simp [h, max_eq_right (not_lt.mp h)]

theorem foldl_max_spec (l : List Rat) (a : Rat) :
    a ≤ l.foldl max a ∧ (∀ x ∈ l, x ≤ l.foldl max a) ∧ (l.foldl max a = a ∨ l.foldl max a ∈ l) := by
  induction l generalizing a with
  | nil => simp
  | cons x t ih =>
    obtain ⟨h1, h2, h3⟩ := ih (max a x)
    refine ⟨le_trans (le_max_left _ _) h1, ?_, ?_⟩
    · intro y hy
      rcases List.mem_cons.mp hy with rfl | hy
      · exact le_trans (le_max_right _ _) h1
      · exact h2 y hy
    · rcases h3 with h3 | h3
      · rcases max_choice a x with hm | hm
        · left; simp only [List.foldl_cons]; rw [h3, hm]
        · right; simp only [List.foldl_cons]; rw [h3, hm]; exact List.mem_cons_self
      · right; exact List.mem_cons_of_mem _ h3

theorem foldl_max_mono (l : List Rat) {a b : Rat} (h : a ≤ b) : l.foldl max a ≤ l.foldl max b := by
  induction l generalizing a b with
  | nil => simpa
  | cons x t ih => exact ih (max_le_max h (le_refl x))

/-- `maxQ l` is the maximum of `l ∪ {0}` -/
theorem maxQ_spec (l : List Rat) :
    0 ≤ maxQ l ∧ (∀ x ∈ l, x ≤ maxQ l) ∧ (maxQ l = 0 ∨ maxQ l ∈ l) := foldl_max_spec l 0

/-! ### 3. (a) `cvr.p` -/

/-- the loop over the contests from a finite `p`, under the guard: the running maximum -/
theorem foldl_pStep_fin (cvrs : List Card) (cd : Card) (hs : cd.sampled = false) (contests : List SContest)
    (hg : Guard cvrs contests cd) (p : Rat) :
    contests.foldl (pStep cvrs cd) (.fin p) = .fin (((listed contests cd).map (ratioQ cvrs)).foldl max p) := by
  induction contests generalizing p with
  | nil => rfl
  | cons c t ih =>
    have hgt : Guard cvrs t cd := fun c' hc' hh => hg c' (List.mem_cons_of_mem _ hc') hh
    by_cases hh : cd.has c.id = true
    · have hpos := hg c List.mem_cons_self hh
      have : pStep cvrs cd (.fin p) c = .fin (max p (ratioQ cvrs c)) := by
        unfold pStep
        simp only [hh, hs, Bool.not_false, Bool.and_self, if_true]
        rw [styleRatio_of_pos _ _ hpos, pymax_fin]
      simp only [List.foldl_cons, this, ih hgt, listed, List.filter_cons, hh, if_true, List.map_cons]
    · have hh' : cd.has c.id = false := by simpa using hh
      have : pStep cvrs cd (.fin p) c = .fin p := by
        unfold pStep
        simp [hh']
      simp only [List.foldl_cons, this, ih hgt, listed, List.filter_cons, hh', Bool.false_eq_true, if_false]

/-- (a1) a card that is already in the sample has `p = 1` (L1126), whatever the contests are -/
theorem style_p_sampled (cvrs : List Card) (contests : List SContest) (cd : Card) (h : cd.sampled = true) :
    cardP cvrs contests cd = 1 := by
  unfold cardP; simp [h]

/-- the model computes the documented `p` whenever the guard holds for the card (sampled cards need no guard) -/
theorem style_p_eq_spec (cvrs : List Card) (contests : List SContest) (cd : Card)
    (hg : cd.sampled = false → Guard cvrs contests cd) :
    cardP cvrs contests cd = .fin (pSpec cvrs contests cd) := by
  unfold cardP pSpec
  by_cases hs : cd.sampled = true
  · simp [hs]
  · have hs' : cd.sampled = false := by simpa using hs
    simp only [hs', Bool.false_eq_true, if_false, XR.zero_def]
    exact foldl_pStep_fin cvrs cd hs' contests (hg hs') 0

/-- (a2) for a card not yet sampled, under the guard `cards_c − old_c > 0` for the contests it lists:
`p` is a finite number, at least every ratio `size_c / (cards_c − old_c)` of a contest it lists, and it is one
of those ratios or 0 — i.e. the maximum of the ratios (all are `≥ 0`), and 0 when it lists none -/
theorem style_p_unsampled (cvrs : List Card) (contests : List SContest) (cd : Card) (h : cd.sampled = false)
    (hg : Guard cvrs contests cd) :
    ∃ p : Rat, cardP cvrs contests cd = .fin p ∧ 0 ≤ p ∧
      (∀ c ∈ contests, cd.has c.id = true → ratioQ cvrs c ≤ p) ∧
      ((p = 0 ∧ ∀ c ∈ contests, cd.has c.id = true → ratioQ cvrs c = 0) ∨
        ∃ c ∈ contests, cd.has c.id = true ∧ p = ratioQ cvrs c) := by
  refine ⟨pSpec cvrs contests cd, style_p_eq_spec cvrs contests cd (fun _ => hg), ?_⟩
  unfold pSpec
  simp only [h, Bool.false_eq_true, if_false]
  obtain ⟨h0, h1, h2⟩ := maxQ_spec ((listed contests cd).map (ratioQ cvrs))
  have hle : ∀ c ∈ contests, cd.has c.id = true → ratioQ cvrs c ≤ maxQ ((listed contests cd).map (ratioQ cvrs)) := by
    intro c hc hh
    exact h1 _ (List.mem_map.mpr ⟨c, List.mem_filter.mpr ⟨hc, hh⟩, rfl⟩)
  refine ⟨h0, hle, ?_⟩
  rcases h2 with h2 | h2
  · left
    refine ⟨h2, fun c hc hh => le_antisymm ?_ (ratioQ_nonneg cvrs c (hg c hc hh))⟩
    rw [← h2]; exact hle c hc hh
  · right
    obtain ⟨c, hc, he⟩ := List.mem_map.mp h2
    obtain ⟨hc1, hc2⟩ := List.mem_filter.mp hc
    exact ⟨c, hc1, hc2, he.symm⟩

/-- (a3) an unsampled card that lists none of the audited contests has `p = 0` (no guard needed) -/
theorem style_p_none (cvrs : List Card) (contests : List SContest) (cd : Card) (h : cd.sampled = false)
    (hn : ∀ c ∈ contests, cd.has c.id = false) : cardP cvrs contests cd = 0 := by
  rw [style_p_eq_spec cvrs contests cd (fun _ c hc hh => by rw [hn c hc] at hh; cases hh)]
  unfold pSpec listed
  have : contests.filter (fun c => cd.has c.id) = [] := by
    rw [List.filter_eq_nil_iff]; intro c hc; simp [hn c hc]
  simp [h, this, maxQ]

/-- (b) `0 ≤ p ≤ 1` for every card when `0 ≤ size_c ≤ cards_c − old_c` (and `cards_c − old_c > 0`) for every
contest the card lists -/
theorem style_p_range (cvrs : List Card) (contests : List SContest) (cd : Card)
    (hg : cd.sampled = false → GuardLe cvrs contests cd) :
    cardP cvrs contests cd = .fin (pSpec cvrs contests cd) ∧
      0 ≤ pSpec cvrs contests cd ∧ pSpec cvrs contests cd ≤ 1 := by
  refine ⟨style_p_eq_spec cvrs contests cd (fun h => (hg h).guard), ?_⟩
  unfold pSpec
  by_cases hs : cd.sampled = true
  · simp [hs]
  · have hs' : cd.sampled = false := by simpa using hs
    simp only [hs', Bool.false_eq_true, if_false]
    obtain ⟨h0, _, h2⟩ := maxQ_spec ((listed contests cd).map (ratioQ cvrs))
    refine ⟨h0, ?_⟩
    rcases h2 with h2 | h2
    · rw [h2]; norm_num
    · obtain ⟨c, hc, he⟩ := List.mem_map.mp h2
      obtain ⟨hc1, hc2⟩ := List.mem_filter.mp hc
      rw [← he]
      exact ratioQ_le_one cvrs c (hg hs' c hc1 hc2).1 (hg hs' c hc1 hc2).2

/-- lower half of (b) under the weaker guard -/
theorem pSpec_nonneg (cvrs : List Card) (contests : List SContest) (cd : Card) : 0 ≤ pSpec cvrs contests cd := by
  unfold pSpec
  split
  · norm_num
  · exact (maxQ_spec _).1

/-! ### 4. (c) the total -/

theorem foldl_add_fin (l : List Rat) (a : Rat) : (l.map XR.fin).foldl XR.add (.fin a) = .fin (a + l.sum) := by
  induction l generalizing a with
  | nil => simp
  | cons x t ih =>
    simp only [List.map_cons, List.foldl_cons, List.sum_cons]
    show List.foldl XR.add (XR.fin a + XR.fin x) _ = _
    rw [XR.fin_add, ih, add_assoc]

/-- under the guard the float sum is the exact sum of the documented `p` -/
theorem sumP_eq_spec (cvrs : List Card) (contests : List SContest) (hg : GuardAll cvrs contests) :
    sumP cvrs contests = .fin (sumSpec cvrs contests) := by
  unfold sumP sumSpec nonPhantom
  have : (cvrs.filter (fun cd => !cd.phantom)).map (cardP cvrs contests) =
      ((cvrs.filter (fun cd => !cd.phantom)).map (pSpec cvrs contests)).map XR.fin := by
    rw [List.map_map]
    apply List.map_congr_left
    intro cd hcd
    obtain ⟨h1, h2⟩ := List.mem_filter.mp hcd
    exact style_p_eq_spec cvrs contests cd (fun hs => hg cd h1 (by simpa using h2) hs)
  rw [this, XR.zero_def, foldl_add_fin, zero_add]

/-- (c1) the returned total is `⌈Σ p over the non-phantom cards⌉` -/
theorem style_total_eq_ceil (cvrs : List Card) (contests : List SContest) (hg : GuardAll cvrs contests) :
    auditTotalStyle cvrs contests = .ok (sumSpec cvrs contests).ceil := by
  unfold auditTotalStyle
  rw [sumP_eq_spec cvrs contests hg]
  rfl

/-- number of non-phantom cards that are already in the sample -/
def sampledCount (cvrs : List Card) : Nat := ((nonPhantom cvrs).filter (fun cd => cd.sampled)).length

theorem sum_ge_count (f : Card → Rat) (l : List Card) (h0 : ∀ cd ∈ l, 0 ≤ f cd)
    (h1 : ∀ cd ∈ l, cd.sampled = true → f cd = 1) :
    (((l.filter (fun cd => cd.sampled)).length : Nat) : Rat) ≤ (l.map f).sum := by
  induction l with
  | nil => simp
  | cons x t ih =>
    have iht := ih (fun cd h => h0 cd (List.mem_cons_of_mem _ h)) (fun cd h => h1 cd (List.mem_cons_of_mem _ h))
    by_cases hs : x.sampled = true
    · have := h1 x List.mem_cons_self hs
      simp only [List.filter_cons, hs, if_true, List.length_cons, List.map_cons, List.sum_cons, this]
      push_cast
      linarith
    · have hs' : x.sampled = false := by simpa using hs
      have := h0 x List.mem_cons_self
      simp only [List.filter_cons, hs', Bool.false_eq_true, if_false, List.map_cons, List.sum_cons]
      linarith

theorem sum_le_length (f : Card → Rat) (l : List Card) (h1 : ∀ cd ∈ l, f cd ≤ 1) :
    (l.map f).sum ≤ ((l.length : Nat) : Rat) := by
  induction l with
  | nil => simp
  | cons x t ih =>
    have iht := ih (fun cd h => h1 cd (List.mem_cons_of_mem _ h))
    have := h1 x List.mem_cons_self
    simp only [List.map_cons, List.sum_cons, List.length_cons]
    push_cast
    linarith

theorem pSpec_sampled (cvrs : List Card) (contests : List SContest) (cd : Card) (h : cd.sampled = true) :
    pSpec cvrs contests cd = 1 := by unfold pSpec; simp [h]

/-- (c2) the total is at least the number of non-phantom cards already sampled (guard: cards left to draw) -/
theorem style_total_ge_sampled (cvrs : List Card) (contests : List SContest) (hg : GuardAll cvrs contests) :
    ∃ t : Int, auditTotalStyle cvrs contests = .ok t ∧ (sampledCount cvrs : Int) ≤ t := by
  refine ⟨_, style_total_eq_ceil cvrs contests hg, ?_⟩
  have h := sum_ge_count (pSpec cvrs contests) (nonPhantom cvrs) (fun cd _ => pSpec_nonneg cvrs contests cd)
    (fun cd _ hs => pSpec_sampled cvrs contests cd hs)
  have h2 : (((sampledCount cvrs : Nat) : Int) : Rat) ≤ (((sumSpec cvrs contests).ceil : Int) : Rat) := by
    refine le_trans ?_ Rat.le_ceil
    unfold sampledCount sumSpec
    exact_mod_cast h
  exact_mod_cast h2

/-- (c3) under the guard of (b) the total is at most the number of non-phantom cards (and at least the number
already sampled) -/
theorem style_total_bounds (cvrs : List Card) (contests : List SContest) (hg : GuardLeAll cvrs contests) :
    ∃ t : Int, auditTotalStyle cvrs contests = .ok t ∧ t = (sumSpec cvrs contests).ceil ∧
      (sampledCount cvrs : Int) ≤ t ∧ t ≤ ((nonPhantom cvrs).length : Int) := by
  obtain ⟨t, ht, hlo⟩ := style_total_ge_sampled cvrs contests hg.guardAll
  have he := style_total_eq_ceil cvrs contests hg.guardAll
  rw [ht] at he
  have hte : t = (sumSpec cvrs contests).ceil := by injection he
  refine ⟨t, ht, hte, hlo, ?_⟩
  rw [hte, Rat.ceil_le_iff]
  have h := sum_le_length (pSpec cvrs contests) (nonPhantom cvrs) (fun cd hcd => by
    obtain ⟨h1, h2⟩ := List.mem_filter.mp hcd
    exact (style_p_range cvrs contests cd (fun hs => hg cd h1 (by simpa using h2) hs)).2.2)
  unfold sumSpec
  exact_mod_cast h

/-! ### 5. (d) monotone in the contests' sample sizes -/

/-- `cs'` is `cs` with some (or one) of the `sample_size`s raised: same ids, same `cards`, same dict order -/
def Raised (cs cs' : List SContest) : Prop :=
  List.Forall₂ (fun c c' => c'.id = c.id ∧ c'.cards = c.cards ∧ c.size ≤ c'.size) cs cs'

theorem Raised.guard {cvrs cs cs' cd} (hr : Raised cs cs') (hg : Guard cvrs cs cd) : Guard cvrs cs' cd := by
  induction hr with
  | nil => intro c hc; cases hc
  | @cons c c' t t' h _ ih =>
    intro x hx hh
    rcases List.mem_cons.mp hx with rfl | hx
    · have := hg c List.mem_cons_self (by rw [← h.1]; exact hh)
      unfold denom at *
      rw [h.1, h.2.1]; exact this
    · exact ih (fun y hy => hg y (List.mem_cons_of_mem _ hy)) x hx hh

theorem listed_foldl (cvrs : List Card) (cd : Card) (cs : List SContest) (a : Rat) :
    ((listed cs cd).map (ratioQ cvrs)).foldl max a =
      cs.foldl (fun p c => if cd.has c.id = true then max p (ratioQ cvrs c) else p) a := by
  induction cs generalizing a with
  | nil => rfl
  | cons c t ih =>
    by_cases hh : cd.has c.id = true
    · simp only [listed, List.filter_cons, hh, if_true, List.map_cons, List.foldl_cons]
      exact ih _
    · have hh' : cd.has c.id = false := by simpa using hh
      simp only [listed, List.filter_cons, hh', Bool.false_eq_true, if_false, List.foldl_cons]
      exact ih _

theorem ratioQ_mono (cvrs : List Card) (c c' : SContest) (hid : c'.id = c.id) (hcards : c'.cards = c.cards)
    (hs : c.size ≤ c'.size) (hpos : 0 < denom cvrs c) : ratioQ cvrs c ≤ ratioQ cvrs c' := by
  have hd : denom cvrs c' = denom cvrs c := by unfold denom; rw [hid, hcards]
  unfold ratioQ
  rw [hd]
  have hd0 : (0 : Rat) < ((denom cvrs c : Int) : Rat) := by exact_mod_cast hpos
  have : (c.size : Rat) ≤ (c'.size : Rat) := by exact_mod_cast hs
  exact div_le_div_of_nonneg_right this (le_of_lt hd0)

/-- (d1) raising sample sizes never lowers any card's `p` -/
theorem style_p_mono (cvrs : List Card) (cs cs' : List SContest) (cd : Card) (hr : Raised cs cs')
    (hg : cd.sampled = false → Guard cvrs cs cd) :
    cardP cvrs cs cd = .fin (pSpec cvrs cs cd) ∧ cardP cvrs cs' cd = .fin (pSpec cvrs cs' cd) ∧
      pSpec cvrs cs cd ≤ pSpec cvrs cs' cd := by
  refine ⟨style_p_eq_spec cvrs cs cd hg, style_p_eq_spec cvrs cs' cd (fun h => hr.guard (hg h)), ?_⟩
  unfold pSpec
  by_cases hs : cd.sampled = true
  · simp [hs]
  · have hs' : cd.sampled = false := by simpa using hs
    simp only [hs', Bool.false_eq_true, if_false, maxQ]
    rw [listed_foldl, listed_foldl]
    have key : ∀ (a b : Rat), a ≤ b → Guard cvrs cs cd →
        cs.foldl (fun p c => if cd.has c.id = true then max p (ratioQ cvrs c) else p) a ≤
        cs'.foldl (fun p c => if cd.has c.id = true then max p (ratioQ cvrs c) else p) b := by
      induction hr with
      | nil => intro a b hab _; simpa
      | @cons c c' t t' h _ ih =>
        intro a b hab hg'
        simp only [List.foldl_cons]
        apply ih (fun hh => fun y hy => hg hh y (List.mem_cons_of_mem _ hy))
        · rw [h.1]
          by_cases hh : cd.has c.id = true
          · simp only [hh, if_true]
            exact max_le_max hab (ratioQ_mono cvrs c c' h.1 h.2.1 h.2.2 (hg' c List.mem_cons_self hh))
          · simp only [hh]; exact hab
        · exact fun y hy => hg' y (List.mem_cons_of_mem _ hy)
    exact key 0 0 (le_refl _) (hg hs')

theorem Raised.guardAll {cvrs cs cs'} (hr : Raised cs cs') (hg : GuardAll cvrs cs) : GuardAll cvrs cs' :=
  fun cd hcd hp hs => hr.guard (hg cd hcd hp hs)

theorem rat_ceil_mono {a b : Rat} (h : a ≤ b) : a.ceil ≤ b.ceil := by
  rw [Rat.ceil_le_iff]; exact le_trans h Rat.le_ceil

/-- (d2) ... nor the total -/
theorem style_total_mono (cvrs : List Card) (cs cs' : List SContest) (hr : Raised cs cs')
    (hg : GuardAll cvrs cs) :
    ∃ t t' : Int, auditTotalStyle cvrs cs = .ok t ∧ auditTotalStyle cvrs cs' = .ok t' ∧ t ≤ t' := by
  refine ⟨_, _, style_total_eq_ceil cvrs cs hg, style_total_eq_ceil cvrs cs' (hr.guardAll hg), ?_⟩
  apply rat_ceil_mono
  unfold sumSpec
  apply List.sum_le_sum
  intro cd hcd
  obtain ⟨h1, h2⟩ := List.mem_filter.mp hcd
  exact (style_p_mono cvrs cs cs' cd hr (fun hs => hg cd h1 (by simpa using h2) hs)).2.2

/-- "raising one contest's `sample_size`" is an instance of `Raised` -/
theorem raised_set (cs : List SContest) (i : Nat) (hi : i < cs.length) (s : Nat) (hs : cs[i].size ≤ s) :
    Raised cs (cs.set i { cs[i] with size := s }) := by
  induction cs generalizing i with
  | nil => simp at hi
  | cons c t ih =>
    have hrefl : ∀ l : List SContest, Raised l l := by
      intro l
      induction l with
      | nil => exact List.Forall₂.nil
      | cons x t ih => exact List.Forall₂.cons ⟨rfl, rfl, le_refl _⟩ ih
    cases i with
    | zero => exact List.Forall₂.cons ⟨rfl, rfl, hs⟩ (hrefl t)
    | succ j =>
      simp only [List.set_cons_succ, List.getElem_cons_succ]
      exact List.Forall₂.cons ⟨rfl, rfl, le_refl _⟩ (ih j (by simpa using hi) hs)

/-! ### 6. (e) the order of the contests (dict order) -/

/-- no ratio of a contest on the card is `0/0` -/
def NoNan (cvrs : List Card) (contests : List SContest) (cd : Card) : Prop :=
  ∀ c ∈ contests, cd.has c.id = true → ¬ (c.size = 0 ∧ denom cvrs c = 0)

theorem Guard.noNan {cvrs contests cd} (h : Guard cvrs contests cd) : NoNan cvrs contests cd :=
  fun c hc hh hz => by have := h c hc hh; omega

theorem styleRatio_ne_nan (cvrs : List Card) (c : SContest) (h : ¬ (c.size = 0 ∧ denom cvrs c = 0)) :
    styleRatio cvrs c ≠ .nan := by
  unfold styleRatio
  rw [oldSize_style]
  show XR.div (XR.fin _) (XR.fin _) ≠ _
  unfold XR.div
  simp only
  split_ifs with h1 h2 h3
  · exfalso; apply h
    refine ⟨by exact_mod_cast h2, ?_⟩
    unfold denom; exact_mod_cast h1
  · simp
  · simp
  · simp

theorem xr_lt_nan_right (a : XR) : XR.lt a .nan = false := by cases a <;> rfl
theorem xr_lt_irrefl (a : XR) : XR.lt a a = false := by cases a <;> simp [XR.lt]
theorem xr_lt_tri (a b : XR) (ha : a ≠ .nan) (hb : b ≠ .nan) : XR.lt a b = true ∨ a = b ∨ XR.lt b a = true := by
  cases a <;> cases b <;> simp_all [XR.lt]
  exact lt_trichotomy _ _
theorem xr_lt_asymm (a b : XR) (h : XR.lt a b = true) : XR.lt b a = false := by
  cases a <;> cases b <;> simp_all [XR.lt]
  exact le_of_lt h
theorem xr_lt_trans (a b c : XR) (h1 : XR.lt a b = true) (h2 : XR.lt b c = true) : XR.lt a c = true := by
  cases a <;> cases b <;> cases c <;> simp_all [XR.lt]
  exact lt_trans h1 h2

/-- Python's `max` is right-commutative on the running value as long as the two new values are not `nan`
(the running value may be) -/
theorem pymax_right_comm (x y z : XR) (hx : x ≠ .nan) (hy : y ≠ .nan) :
    XR.pymax y (XR.pymax x z) = XR.pymax x (XR.pymax y z) := by
  unfold XR.pymax
  by_cases hxz : XR.lt x z = true
  · have hz : z ≠ .nan := by rintro rfl; rw [xr_lt_nan_right] at hxz; cases hxz
    by_cases hyz : XR.lt y z = true
    · simp [hxz, hyz]
    · have hxy : XR.lt x y = true := by
        rcases xr_lt_tri y z hy hz with h | h | h
        · exact absurd h hyz
        · rw [h]; exact hxz
        · exact xr_lt_trans _ _ _ hxz h
      simp [hxz, hyz, hxy]
  · by_cases hyz : XR.lt y z = true
    · have hz : z ≠ .nan := by rintro rfl; rw [xr_lt_nan_right] at hyz; cases hyz
      have hyx : XR.lt y x = true := by
        rcases xr_lt_tri x z hx hz with h | h | h
        · exact absurd h hxz
        · rw [h]; exact hyz
        · exact xr_lt_trans _ _ _ hyz h
      simp [hxz, hyz, hyx]
    · simp only [hxz, hyz, Bool.false_eq_true, if_false]
      rcases xr_lt_tri x y hx hy with h | h | h
      · simp [h, xr_lt_asymm _ _ h]
      · subst h; simp
      · simp [h, xr_lt_asymm _ _ h]

/-- (e1) permuting the contests does not change `p` when no ratio on the card is `0/0` -/
theorem style_p_perm (cvrs : List Card) (cs cs' : List SContest) (cd : Card) (hp : cs.Perm cs')
    (hn : cd.sampled = false → NoNan cvrs cs cd) : cardP cvrs cs cd = cardP cvrs cs' cd := by
  unfold cardP
  by_cases hs : cd.sampled = true
  · simp [hs]
  · have hs' : cd.sampled = false := by simpa using hs
    simp only [hs', Bool.false_eq_true, if_false]
    apply List.Perm.foldl_eq' hp
    intro x hx y hy z
    unfold pStep
    by_cases h1 : cd.has x.id = true <;> by_cases h2 : cd.has y.id = true <;> simp [h1, h2, hs']
    exact pymax_right_comm _ _ _ (styleRatio_ne_nan cvrs x (hn hs' x hx h1)) (styleRatio_ne_nan cvrs y (hn hs' y hy h2))

/-- (e2) ... nor the total (value or exception) -/
theorem style_total_perm (cvrs : List Card) (cs cs' : List SContest) (hp : cs.Perm cs')
    (hn : ∀ cd ∈ cvrs, cd.phantom = false → cd.sampled = false → NoNan cvrs cs cd) :
    auditTotalStyle cvrs cs = auditTotalStyle cvrs cs' := by
  unfold auditTotalStyle sumP
  congr 2
  apply List.map_congr_left
  intro cd hcd
  obtain ⟨h1, h2⟩ := List.mem_filter.mp hcd
  exact style_p_perm cvrs cs cs' cd hp (fun hs => hn cd h1 (by simpa using h2) hs)

/-- (e) in the guarded form used elsewhere in this file -/
theorem style_order_irrelevant (cvrs : List Card) (cs cs' : List SContest) (hp : cs.Perm cs')
    (hg : GuardAll cvrs cs) :
    (∀ cd ∈ cvrs, cd.phantom = false → cardP cvrs cs cd = cardP cvrs cs' cd) ∧
      auditTotalStyle cvrs cs = auditTotalStyle cvrs cs' :=
  ⟨fun cd hcd hph => style_p_perm cvrs cs cs' cd hp (fun hs => (hg cd hcd hph hs).noNan),
   style_total_perm cvrs cs cs' hp (fun cd hcd hph hs => (hg cd hcd hph hs).noNan)⟩

/-- the unguarded statement is FALSE for the code.  Contest `a`: every assertion confirmed (`sample_size = 0`)
and `cards` equal to the number of its cards already sampled, but one more card lists it; contest `b` is an
ordinary one.  In dict order `a, b` the `nan` of `0/0` is replaced by `b`'s ratio (`max(r, nan)` is `r`) and the
call returns 1; in dict order `b, a` `max(nan, r)` is `nan` and `math.ceil` raises ValueError. -/
def exOrderCards : List Card := [⟨["a", "b"], true, false⟩, ⟨["a", "b"], false, false⟩]
def exOrderA : SContest := ⟨"a", 0, 1⟩
def exOrderB : SContest := ⟨"b", 1, 3⟩

theorem style_order_matters :
    [exOrderA, exOrderB].Perm [exOrderB, exOrderA] ∧
    auditTotalStyle exOrderCards [exOrderA, exOrderB] = .ok 2 ∧
    auditTotalStyle exOrderCards [exOrderB, exOrderA] = .error (.nm .value) := by
  refine ⟨List.Perm.swap _ _ _, ?_, ?_⟩ <;> decide +kernel

/-- monotonicity is also FALSE without the guard: after a `nan` (contest `a` as above) a contest with
`cards < old` (negative ratio) becomes the card's `p`, and raising its `sample_size` lowers `p` and the total -/
def exMonoCards : List Card :=
  [⟨["a", "b"], true, false⟩, ⟨["a", "b"], true, false⟩, ⟨["a", "b"], false, true⟩, ⟨["a", "b"], false, false⟩,
   ⟨["a", "b"], false, false⟩]

theorem style_not_monotone_unguarded :
    Raised [⟨"a", 0, 2⟩, ⟨"b", 2, 1⟩] [⟨"a", 0, 2⟩, ⟨"b", 4, 1⟩] ∧
    cardP exMonoCards [⟨"a", 0, 2⟩, ⟨"b", 2, 1⟩] ⟨["a", "b"], false, false⟩ = .fin (-2) ∧
    cardP exMonoCards [⟨"a", 0, 2⟩, ⟨"b", 4, 1⟩] ⟨["a", "b"], false, false⟩ = .fin (-4) ∧
    auditTotalStyle exMonoCards [⟨"a", 0, 2⟩, ⟨"b", 2, 1⟩] = .ok (-2) ∧
    auditTotalStyle exMonoCards [⟨"a", 0, 2⟩, ⟨"b", 4, 1⟩] = .ok (-6) := by
  refine ⟨?_, ?_, ?_, ?_, ?_⟩
  · exact List.Forall₂.cons ⟨rfl, rfl, le_refl _⟩ (List.Forall₂.cons ⟨rfl, rfl, by decide⟩ List.Forall₂.nil)
  all_goals decide +kernel

/-! ### 7. (f) one contest on every card -/

theorem sum_const (f : Card → Rat) (l : List Card) (v : Rat) (h : ∀ cd ∈ l, f cd = v) :
    (l.map f).sum = (l.length : Rat) * v := by
  induction l with
  | nil => simp
  | cons x t ih =>
    simp only [List.map_cons, List.sum_cons, List.length_cons, h x List.mem_cons_self,
      ih (fun cd hcd => h cd (List.mem_cons_of_mem _ hcd))]
    push_cast; ring

theorem oldOf_zero (cvrs : List Card) (c : String) (h : ∀ cd ∈ cvrs, cd.sampled = false) : oldOf cvrs c = 0 := by
  unfold oldOf
  rw [List.length_eq_zero_iff, List.filter_eq_nil_iff]
  intro cd hcd; simp [h cd hcd]

/-- (f) a single contest that is on every non-phantom card, nothing sampled yet, `cards` = the number of
non-phantom cards listing it, `sample_size ≤ cards`: the total is that contest's sample size -/
theorem style_single (cvrs : List Card) (c : SContest)
    (hall : ∀ cd ∈ cvrs, cd.phantom = false → cd.has c.id = true)
    (hns : ∀ cd ∈ cvrs, cd.sampled = false)
    (hcards : c.cards = (((cvrs.filter (fun cd => !cd.phantom && cd.has c.id)).length : Nat) : Int))
    (hsz : (c.size : Int) ≤ c.cards) :
    auditTotalStyle cvrs [c] = .ok (c.size : Int) := by
  have hfil : cvrs.filter (fun cd => !cd.phantom && cd.has c.id) = nonPhantom cvrs := by
    unfold nonPhantom
    apply List.filter_congr
    intro cd hcd
    by_cases hp : cd.phantom = true
    · simp [hp]
    · have hp' : cd.phantom = false := by simpa using hp
      simp [hp', hall cd hcd hp']
  rw [hfil] at hcards
  have hden : denom cvrs c = ((nonPhantom cvrs).length : Int) := by
    unfold denom; rw [oldOf_zero cvrs c.id hns, hcards]; simp
  by_cases hn : (nonPhantom cvrs).length = 0
  · -- no card is summed
    have hg : GuardAll cvrs [c] := by
      intro cd hcd hp _
      have : cd ∈ nonPhantom cvrs := List.mem_filter.mpr ⟨hcd, by simp [hp]⟩
      rw [List.length_eq_zero_iff] at hn
      rw [hn] at this; cases this
    rw [style_total_eq_ceil cvrs [c] hg]
    have hs0 : c.size = 0 := by rw [hcards, hn] at hsz; omega
    unfold sumSpec
    rw [List.length_eq_zero_iff] at hn
    rw [hn, hs0]
    rfl
  · have hpos : 0 < denom cvrs c := by rw [hden]; omega
    have hg : GuardAll cvrs [c] := by
      intro cd _ _ _ x hx _
      rw [List.mem_singleton] at hx; subst hx; exact hpos
    rw [style_total_eq_ceil cvrs [c] hg]
    have hp : ∀ cd ∈ nonPhantom cvrs, pSpec cvrs [c] cd = ratioQ cvrs c := by
      intro cd hcd
      obtain ⟨h1, h2⟩ := List.mem_filter.mp hcd
      have hh := hall cd h1 (by simpa using h2)
      unfold pSpec listed maxQ
      simp only [hns cd h1, Bool.false_eq_true, if_false, List.filter_cons, hh, if_true, List.filter_nil,
        List.map_cons, List.map_nil, List.foldl_cons, List.foldl_nil]
      exact max_eq_right (ratioQ_nonneg cvrs c hpos)
    unfold sumSpec
    rw [sum_const _ _ _ hp]
    unfold ratioQ
    rw [hden]
    have hne : (((nonPhantom cvrs).length : Int) : Rat) ≠ 0 := by exact_mod_cast hn
    have : (((nonPhantom cvrs).length : Nat) : Rat) * ((c.size : Rat) / ((((nonPhantom cvrs).length : Nat) : Int) : Rat)) =
        (((c.size : Nat) : Int) : Rat) := by
      push_cast at hne ⊢
      field_simp
    push_cast at this ⊢
    rw [this]
    exact congrArg Except.ok (by exact_mod_cast Rat.ceil_intCast (c.size : Int))

/-! ### 8. the two branches of the returned value -/

theorem auditTotal_style (cvrs : List Card) (contests : List SContest) :
    auditTotal true cvrs contests = auditTotalStyle cvrs contests := rfl

/-- without style information (L1136-1139): the largest `sample_size` (existing theorem `auditTotalNoStyle_spec`) -/
theorem auditTotal_nostyle (cvrs : List Card) (contests : List SContest) (h : contests ≠ []) :
    auditTotal false cvrs contests = .ok ((maxOf (contests.map (·.size)) : Nat) : Int) := by
  unfold auditTotal
  simp only [Bool.false_eq_true, if_false]
  rw [auditTotalNoStyle_spec _ (by simpa using h)]
  rfl

/-! ### 9. non-vacuity: concrete inputs that satisfy the hypotheses, with the values the driver computes -/

/-- five cards: one already sampled, one phantom, one that lists only `a`, one that lists nothing -/
def exCards : List Card :=
  [⟨["a", "b"], true, false⟩, ⟨["a", "b"], false, false⟩, ⟨["a"], false, false⟩, ⟨["b"], false, true⟩, ⟨[], false, false⟩]
def exCs : List SContest := [⟨"a", 1, 5⟩, ⟨"b", 2, 4⟩]

theorem exCs_guard : GuardLeAll exCards exCs := by
  intro cd hcd _ _ c hc _
  have hc' : c = ⟨"a", 1, 5⟩ ∨ c = ⟨"b", 2, 4⟩ := by simpa [exCs] using hc
  rcases hc' with rfl | rfl <;> decide

example : cardP exCards exCs ⟨["a", "b"], true, false⟩ = 1 := style_p_sampled _ _ _ rfl
example : cardP exCards exCs ⟨["a", "b"], false, false⟩ = .fin (2/3) ∧ cardP exCards exCs ⟨["a"], false, false⟩ = .fin (1/4) ∧
    cardP exCards exCs ⟨[], false, false⟩ = 0 := by decide +kernel
example : auditTotalStyle exCards exCs = .ok 2 := by decide +kernel
example : ∃ t : Int, auditTotalStyle exCards exCs = .ok t ∧ (1 : Int) ≤ t ∧ t ≤ 4 := by
  obtain ⟨t, h1, _, h3, h4⟩ := style_total_bounds exCards exCs exCs_guard
  exact ⟨t, h1, h3, h4⟩
example : Raised exCs (exCs.set 0 { exCs[0] with size := 3 }) := raised_set exCs 0 (by decide) 3 (by decide)
example : auditTotalStyle exCards [⟨"a", 3, 5⟩, ⟨"b", 2, 4⟩] = .ok 3 := by decide +kernel
example : auditTotalStyle exCards exCs.reverse = auditTotalStyle exCards exCs :=
  (style_order_irrelevant exCards exCs exCs.reverse (List.reverse_perm exCs).symm exCs_guard.guardAll).2.symm
/-- boundary `cards − old = 0` with a positive size: `inf`, OverflowError -/
example : auditTotalStyle exCards [⟨"a", 1, 1⟩] = .error (.nm .overflow) := by decide +kernel
/-- a contest whose cards have all been sampled (`cards − old = 0`) and that no unsampled card lists is harmless -/
example : auditTotalStyle [⟨["a", "b"], true, false⟩, ⟨["b"], false, false⟩] [⟨"a", 0, 1⟩, ⟨"b", 1, 3⟩] = .ok 2 := by
  decide +kernel
example : auditTotalStyle [⟨["a"], false, false⟩, ⟨["a"], false, false⟩, ⟨["a"], false, false⟩, ⟨["a", "z"], false, true⟩]
    [⟨"a", 2, 3⟩] = .ok 2 :=
  style_single _ ⟨"a", 2, 3⟩ (by decide) (by decide) (by decide) (by decide)
example : auditTotal false [] exCs = .ok 2 ∧ auditTotal false [] [] = .error (.nm .value) := by decide +kernel

end Shangrla.C16
