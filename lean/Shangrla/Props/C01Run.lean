/-
  C01 — capstone: the single entry point `run sqrtF cfg test x` (= `NonnegMean.test(x)`).

  `C01.lean`, `C01IID.lean`, `C01Shipped.lean`, `C01Kaplan.lean` and `C01Any.lean` prove sequential validity
  test by test (`alphaMart`, `bettingMart`, `kaplanKolmogorov`, …), generically in a predictable
  estimator / bet and for the shipped instances.  This file

  1. supplies the "overall p-value or ANY history entry" versions that were missing for shipped
     estimators / bets (shrink-truncate, optimal comparison, aGRAPA; fixed alternative and fixed bet for
     independent draws);
  2. defines the event for an arbitrary test function (`reportedAnyOf`) and for the dispatcher
     (`reportedAnyRun`), definitionally equal to `reportedAny`, `reportedAnyB`, `reportedAnyKK`, … of
     `C01Any.lean`;
  3. states the documented parameter ranges of every test / estimator / bet (`DocumentedFinite`,
     `DocumentedIID`, `Documented`), each hypothesis exactly the one the instance theorem uses;
  4. proves the two capstones `C01_finite_run` (sampling without replacement from every null population)
     and `C01_iid_run` (independent draws from every finitely supported null law): for EVERY `test` the
     dispatcher accepts, the exact probability that after some number of draws the overall p-value or any
     entry of the reported history is `≤ alpha` does not exceed `alpha`.

  Kaplan-Markov and Kaplan-Wald are documented (and proved) for sampling with replacement only, and
  Kaplan-Kolmogorov needs a finite population (the code raises `OverflowError` on `N = np.inf`):
  `DocumentedFinite` is `False` for `.km` / `.kw` and `DocumentedIID` is `False` for `.kk`.
-/
import Shangrla.Props.C01Any
import Shangrla.Props.C01Shipped

namespace Shangrla.C01
open Shangrla Shangrla.NM XR Shangrla.C12 Shangrla.Ville Shangrla.C11 Shangrla.C05

/-! ### 1. the missing "any reported value" instances -/

/-- **ALPHA with shrink-truncate, without replacement: overall p-value or any history entry** -/
theorem C01_finite_alpha_shrink_any (sqrtF : ℚ → ℚ) (hs : ∀ q, 0 < q → 0 < sqrtF q) (cfg : Cfg) (n : Nat)
    (hN : cfg.N = some n) (hd : 0 < cfg.dV) (hf : 0 ≤ cfg.fV) (hmin : 0 < cfg.minsdV)
    (hu : 0 ≤ cfg.u) (hat : 0 ≤ cfg.atol) (hat2 : cfg.atol < 1 / 2) (hrt : 0 ≤ cfg.rtol)
    (alpha : ℚ) (ha0 : 0 < alpha) (ha1 : alpha < 1)
    (pop : List ℚ) (hlen : pop.length = n) (hrange : ∀ a ∈ pop, 0 ≤ a ∧ a ≤ cfg.u)
    (hnull : pop.sum ≤ (n : ℚ) * cfg.t) :
    hitEv (reportedAny cfg (shrinkTrunc sqrtF cfg) alpha) pop.length pop [] ≤ alpha :=
  C01_finite_alpha_any cfg n hN (gOf (shrinkTrunc sqrtF cfg) (ValidLen cfg.N)) (shrinkTrunc sqrtF cfg)
    (fun h hne hl => shrink_predictable sqrtF hs cfg hd hf hmin h
      ⟨hne, by intro k hk; rw [hN] at hk; cases hk; exact hl⟩)
    hu hat hat2 hrt alpha ha0 ha1 pop hlen hrange hnull

/-- **ALPHA with shrink-truncate, independent draws: overall p-value or any history entry** -/
theorem C01_iid_alpha_shrink_any (sqrtF : ℚ → ℚ) (hs : ∀ q, 0 < q → 0 < sqrtF q) (cfg : Cfg)
    (hN : cfg.N = none) (hd : 0 < cfg.dV) (hf : 0 ≤ cfg.fV) (hmin : 0 < cfg.minsdV)
    (ht0 : 0 < cfg.t) (htu : cfg.t < cfg.u)
    (hat : 0 ≤ cfg.atol) (hat2 : cfg.atol < 1 / 2) (hrt : 0 ≤ cfg.rtol)
    (alpha : ℚ) (ha0 : 0 < alpha) (ha1 : alpha < 1)
    (L : List (ℚ × ℚ)) (hL : IsLaw cfg.u L) (hmean : lawMean L ≤ cfg.t) (k : Nat) :
    hitIID L (reportedAny cfg (shrinkTrunc sqrtF cfg) alpha) k [] ≤ alpha :=
  C01_iid_alpha_any cfg hN (gOf (shrinkTrunc sqrtF cfg) (ValidLen cfg.N)) (shrinkTrunc sqrtF cfg)
    (fun h hne => shrink_predictable sqrtF hs cfg hd hf hmin h
      ⟨hne, by intro k hk; rw [hN] at hk; cases hk⟩)
    ht0 htu hat hat2 hrt alpha ha0 ha1 L hL hmean k

/-- the constant the (repaired) `optimal_comparison` returns for every draw: `min(u, max(0, eta))` -/
def gOptimal (cfg : Cfg) : ℚ :=
  let p2 := cfg.kw.rateError2.getD (1 / 10000)
  let eta := (1 - cfg.u * (1 - p2)) / (2 - 2 * cfg.u) + cfg.u * (1 - p2) - 1 / 2
  let e1 := if 0 < eta then eta else 0
  if e1 < cfg.u then e1 else cfg.u

/-- **optimal comparison in predictable form** (`u ≠ 1`; for `u = 1` the code raises `ZeroDivisionError`) -/
theorem optimal_predictable (cfg : Cfg) (hu1 : 2 - 2 * cfg.u ≠ 0) (h : List ℚ) :
    optimalComparison cfg h = .ok ((params (fun _ => gOptimal cfg) h).map XR.fin) := by
  unfold optimalComparison
  simp only [hu1, ↓reduceIte]
  congr 1
  exact map_const_params (gOptimal cfg) h h rfl

/-- **ALPHA with optimal comparison, without replacement: overall p-value or any history entry** -/
theorem C01_finite_alpha_optimal_any (cfg : Cfg) (n : Nat) (hN : cfg.N = some n) (hu1 : 2 - 2 * cfg.u ≠ 0)
    (hu : 0 ≤ cfg.u) (hat : 0 ≤ cfg.atol) (hat2 : cfg.atol < 1 / 2) (hrt : 0 ≤ cfg.rtol)
    (alpha : ℚ) (ha0 : 0 < alpha) (ha1 : alpha < 1)
    (pop : List ℚ) (hlen : pop.length = n) (hrange : ∀ a ∈ pop, 0 ≤ a ∧ a ≤ cfg.u)
    (hnull : pop.sum ≤ (n : ℚ) * cfg.t) :
    hitEv (reportedAny cfg (optimalComparison cfg) alpha) pop.length pop [] ≤ alpha :=
  C01_finite_alpha_any cfg n hN (fun _ => gOptimal cfg) (optimalComparison cfg)
    (fun h _ _ => optimal_predictable cfg hu1 h) hu hat hat2 hrt alpha ha0 ha1 pop hlen hrange hnull

/-- **ALPHA with optimal comparison, independent draws**, last history entry of every prefix -/
theorem C01_iid_alpha_optimal (cfg : Cfg) (hN : cfg.N = none) (hu1 : 2 - 2 * cfg.u ≠ 0)
    (ht0 : 0 < cfg.t) (htu : cfg.t < cfg.u)
    (hat : 0 ≤ cfg.atol) (hat2 : cfg.atol < 1 / 2) (hrt : 0 ≤ cfg.rtol)
    (alpha : ℚ) (ha0 : 0 < alpha) (ha1 : alpha < 1)
    (L : List (ℚ × ℚ)) (hL : IsLaw cfg.u L) (hmean : lawMean L ≤ cfg.t) (k : Nat) :
    hitIID L (reportedLast cfg (optimalComparison cfg) alpha) k [] ≤ alpha :=
  C01_iid_alpha cfg hN (fun _ => gOptimal cfg) (optimalComparison cfg)
    (fun h _ => optimal_predictable cfg hu1 h) ht0 htu hat hat2 hrt alpha ha0 ha1 L hL hmean k

/-- **ALPHA with optimal comparison, independent draws: overall p-value or any history entry** -/
theorem C01_iid_alpha_optimal_any (cfg : Cfg) (hN : cfg.N = none) (hu1 : 2 - 2 * cfg.u ≠ 0)
    (ht0 : 0 < cfg.t) (htu : cfg.t < cfg.u)
    (hat : 0 ≤ cfg.atol) (hat2 : cfg.atol < 1 / 2) (hrt : 0 ≤ cfg.rtol)
    (alpha : ℚ) (ha0 : 0 < alpha) (ha1 : alpha < 1)
    (L : List (ℚ × ℚ)) (hL : IsLaw cfg.u L) (hmean : lawMean L ≤ cfg.t) (k : Nat) :
    hitIID L (reportedAny cfg (optimalComparison cfg) alpha) k [] ≤ alpha :=
  C01_iid_alpha_any cfg hN (fun _ => gOptimal cfg) (optimalComparison cfg)
    (fun h _ => optimal_predictable cfg hu1 h) ht0 htu hat hat2 hrt alpha ha0 ha1 L hL hmean k

/-- **betting martingale with aGRAPA, without replacement: overall p-value or any history entry**
(`0 < c_grapa_0 ≤ c_grapa_max ≤ 1`, `c_grapa_grow ≥ 0`) -/
theorem C01_finite_betting_agrapa_any (sqrtF : ℚ → ℚ) (hs : C13.SqrtOK sqrtF) (cfg : Cfg) (n : Nat)
    (hN : cfg.N = some n)
    (h0 : 0 < cfg.c0V) (h0m : cfg.c0V ≤ cfg.cmV) (hm1 : cfg.cmV ≤ 1) (hg : 0 ≤ cfg.cgV)
    (hu : 0 ≤ cfg.u) (hat : 0 ≤ cfg.atol) (hat2 : cfg.atol < 1 / 2) (hrt : 0 ≤ cfg.rtol)
    (alpha : ℚ) (ha0 : 0 < alpha) (ha1 : alpha < 1)
    (pop : List ℚ) (hlen : pop.length = n) (hrange : ∀ a ∈ pop, 0 ≤ a ∧ a ≤ cfg.u)
    (hnull : pop.sum ≤ (n : ℚ) * cfg.t) :
    hitEv (reportedAnyB cfg (agrapa sqrtF cfg) alpha) pop.length pop [] ≤ alpha := by
  refine C01_finite_betting_any cfg n hN (gAgrapa sqrtF cfg) (agrapa sqrtF cfg) ?_
    (gAgrapa_nonneg sqrtF hs cfg h0 h0m hg) ?_ hu hat hat2 hrt alpha ha0 ha1 pop hlen hrange hnull
  · intro h hne hl
    exact agrapa_predictable sqrtF hs cfg h0 h0m hg h ⟨hne, by intro k hk; rw [hN] at hk; cases hk; exact hl⟩
  · intro h hm0 _
    have := gAgrapa_le sqrtF hs cfg h0 h0m hm1 hg h (by rw [hN]; exact hm0)
    rwa [hN] at this

/-- **betting martingale with aGRAPA, independent draws: overall p-value or any history entry** -/
theorem C01_iid_betting_agrapa_any (sqrtF : ℚ → ℚ) (hs : C13.SqrtOK sqrtF) (cfg : Cfg) (hN : cfg.N = none)
    (h0 : 0 < cfg.c0V) (h0m : cfg.c0V ≤ cfg.cmV) (hm1 : cfg.cmV ≤ 1) (hg : 0 ≤ cfg.cgV)
    (ht0 : 0 < cfg.t) (htu : cfg.t < cfg.u)
    (hat : 0 ≤ cfg.atol) (hat2 : cfg.atol < 1 / 2) (hrt : 0 ≤ cfg.rtol)
    (alpha : ℚ) (ha0 : 0 < alpha) (ha1 : alpha < 1)
    (L : List (ℚ × ℚ)) (hL : IsLaw cfg.u L) (hmean : lawMean L ≤ cfg.t) (k : Nat) :
    hitIID L (reportedAnyB cfg (agrapa sqrtF cfg) alpha) k [] ≤ alpha := by
  refine C01_iid_betting_any cfg hN (gAgrapa sqrtF cfg) (agrapa sqrtF cfg) ?_
    (gAgrapa_nonneg sqrtF hs cfg h0 h0m hg) ?_ ht0 htu hat hat2 hrt alpha ha0 ha1 L hL hmean k
  · intro h hne
    exact agrapa_predictable sqrtF hs cfg h0 h0m hg h ⟨hne, by intro k hk; rw [hN] at hk; cases hk⟩
  · intro h
    have := gAgrapa_le sqrtF hs cfg h0 h0m hm1 hg h (by rw [hN]; exact ht0)
    rwa [hN] at this

/-- the fixed alternative in predictable form when `N = np.inf` -/
theorem fixedAlt_predictable_iid (cfg : Cfg) (hN : cfg.N = none) (h : List ℚ) (hne : h ≠ []) :
    fixedAlternativeMean cfg h = .ok ((params (gFixedAlt cfg) h).map XR.fin) := by
  unfold fixedAlternativeMean
  have hs := sjm_ok cfg.N (cfg.kw.eta.getD (cfg.u * (1 - eps))) h hne
    (by intro k hk; rw [hN] at hk; cases hk)
  simp only [hs, bind, Except.bind, pure, Except.pure]
  rw [nullMeans_params]
  unfold params gFixedAlt
  simp only [List.map_map]
  rfl

/-- **ALPHA with the fixed alternative, independent draws: overall p-value or any history entry** -/
theorem C01_iid_alpha_fixed_any (cfg : Cfg) (hN : cfg.N = none)
    (ht0 : 0 < cfg.t) (htu : cfg.t < cfg.u)
    (hat : 0 ≤ cfg.atol) (hat2 : cfg.atol < 1 / 2) (hrt : 0 ≤ cfg.rtol)
    (alpha : ℚ) (ha0 : 0 < alpha) (ha1 : alpha < 1)
    (L : List (ℚ × ℚ)) (hL : IsLaw cfg.u L) (hmean : lawMean L ≤ cfg.t) (k : Nat) :
    hitIID L (reportedAny cfg (fixedAlternativeMean cfg) alpha) k [] ≤ alpha :=
  C01_iid_alpha_any cfg hN (gFixedAlt cfg) (fixedAlternativeMean cfg)
    (fun h hne => fixedAlt_predictable_iid cfg hN h hne) ht0 htu hat hat2 hrt alpha ha0 ha1 L hL hmean k

/-- **betting martingale with a fixed bet `0 ≤ lam ≤ 1/u`, independent draws: overall p-value or any
history entry** -/
theorem C01_iid_betting_fixed_any (cfg : Cfg) (hN : cfg.N = none) (lam : ℚ)
    (hlam : cfg.kw.lam = some lam) (hl0 : 0 ≤ lam) (hl1 : lam * cfg.u ≤ 1)
    (ht0 : 0 < cfg.t) (htu : cfg.t < cfg.u)
    (hat : 0 ≤ cfg.atol) (hat2 : cfg.atol < 1 / 2) (hrt : 0 ≤ cfg.rtol)
    (alpha : ℚ) (ha0 : 0 < alpha) (ha1 : alpha < 1)
    (L : List (ℚ × ℚ)) (hL : IsLaw cfg.u L) (hmean : lawMean L ≤ cfg.t) (k : Nat) :
    hitIID L (reportedAnyB cfg (fixedBet cfg) alpha) k [] ≤ alpha := by
  refine C01_iid_betting_any cfg hN (fun _ => lam) (fixedBet cfg) ?_ (fun _ => hl0) (fun _ => by nlinarith)
    ht0 htu hat hat2 hrt alpha ha0 ha1 L hL hmean k
  intro h _
  unfold fixedBet
  rw [hlam]
  simp only
  congr 1
  exact map_const_params lam h h rfl

/-! ### 2. the event for an arbitrary test and for the dispatcher -/

/-- "the overall p-value that the test `T` reports on the draws `h`, or some entry of the history it
reports, is `≤ alpha`" (`false` when `T` raises) -/
def reportedAnyOf (T : List ℚ → Except Err (XR × List XR)) (alpha : ℚ) (h : List ℚ) : Bool :=
  anyLe alpha (T h)

/-- the event for `self.test(x)` -/
def reportedAnyRun (sqrtF : ℚ → ℚ) (cfg : Cfg) (test : Test) (alpha : ℚ) : List ℚ → Bool :=
  reportedAnyOf (run sqrtF cfg test) alpha

theorem reportedAnyOf_alphaMart (cfg : Cfg) (e : List ℚ → Except Err (List XR)) (alpha : ℚ) :
    reportedAnyOf (alphaMart cfg e) alpha = reportedAny cfg e alpha := rfl
theorem reportedAnyOf_bettingMart (cfg : Cfg) (b : List ℚ → Except Err (List XR)) (alpha : ℚ) :
    reportedAnyOf (bettingMart cfg b) alpha = reportedAnyB cfg b alpha := rfl
theorem reportedAnyOf_kk (cfg : Cfg) (alpha : ℚ) :
    reportedAnyOf (kaplanKolmogorov cfg) alpha = reportedAnyKK cfg alpha := rfl
theorem reportedAnyOf_km (cfg : Cfg) (alpha : ℚ) :
    reportedAnyOf (kaplanMarkov cfg) alpha = reportedAnyKM cfg alpha := rfl
theorem reportedAnyOf_kw (cfg : Cfg) (alpha : ℚ) :
    reportedAnyOf (kaplanWald cfg) alpha = reportedAnyKW cfg alpha := rfl
theorem reportedAnyOf_sprt (cfg : Cfg) (alpha : ℚ) :
    reportedAnyOf (waldSprt cfg) alpha = reportedAnySprt cfg alpha := rfl

theorem reportedAnyRun_alpha (sqrtF : ℚ → ℚ) (cfg : Cfg) (e : Estim) (alpha : ℚ) :
    reportedAnyRun sqrtF cfg (.alpha e) alpha = reportedAny cfg (estim sqrtF cfg e) alpha := rfl
theorem reportedAnyRun_betting (sqrtF : ℚ → ℚ) (cfg : Cfg) (b : Bet) (alpha : ℚ) :
    reportedAnyRun sqrtF cfg (.betting b) alpha = reportedAnyB cfg (bet sqrtF cfg b) alpha := rfl
theorem reportedAnyRun_kk (sqrtF : ℚ → ℚ) (cfg : Cfg) (alpha : ℚ) :
    reportedAnyRun sqrtF cfg .kk alpha = reportedAnyKK cfg alpha := rfl
theorem reportedAnyRun_km (sqrtF : ℚ → ℚ) (cfg : Cfg) (alpha : ℚ) :
    reportedAnyRun sqrtF cfg .km alpha = reportedAnyKM cfg alpha := rfl
theorem reportedAnyRun_kw (sqrtF : ℚ → ℚ) (cfg : Cfg) (alpha : ℚ) :
    reportedAnyRun sqrtF cfg .kw alpha = reportedAnyKW cfg alpha := rfl
theorem reportedAnyRun_sprt (sqrtF : ℚ → ℚ) (cfg : Cfg) (alpha : ℚ) :
    reportedAnyRun sqrtF cfg .sprt alpha = reportedAnySprt cfg alpha := rfl

/-- the event is literally about the value `run` returns -/
theorem reportedAnyRun_iff (sqrtF : ℚ → ℚ) (cfg : Cfg) (test : Test) (alpha : ℚ) (h : List ℚ) :
    reportedAnyRun sqrtF cfg test alpha h = true ↔
      ∃ p hist, run sqrtF cfg test h = .ok (p, hist) ∧
        (XR.le p (.fin alpha) = true ∨ ∃ q ∈ hist, XR.le q (.fin alpha) = true) := by
  unfold reportedAnyRun reportedAnyOf anyLe
  cases hr : run sqrtF cfg test h with
  | error e => simp
  | ok r =>
    obtain ⟨p, hist⟩ := r
    simp only [Bool.or_eq_true, List.any_eq_true, Except.ok.injEq, Prod.mk.injEq]
    constructor
    · intro h1; exact ⟨p, hist, ⟨rfl, rfl⟩, h1⟩
    · rintro ⟨p', hist', ⟨rfl, rfl⟩, h1⟩; exact h1

/-! ### 3. the documented parameter ranges -/

/-- the tolerances of the boundary conventions (`atol`, `rtol` of `np.isclose`): defaults `2 eps`, `1e-6` -/
structure TolOK (cfg : Cfg) : Prop where
  atol_nonneg : 0 ≤ cfg.atol
  atol_lt_half : cfg.atol < 1 / 2
  rtol_nonneg : 0 ≤ cfg.rtol

/-- `shrink_trunc`: `d > 0`, `f ≥ 0`, `minsd > 0` (defaults `100`, `0`, `1e-6`; `eta` and `c` are free: the
estimate is clipped to `[mu_j, u]` by `alpha_mart`), and a square root that is positive on positives -/
structure ShrinkOK (sqrtF : ℚ → ℚ) (cfg : Cfg) : Prop where
  sqrt_pos : ∀ q, 0 < q → 0 < sqrtF q
  d_pos : 0 < cfg.dV
  f_nonneg : 0 ≤ cfg.fV
  minsd_pos : 0 < cfg.minsdV

/-- `agrapa`: `0 < c_grapa_0 ≤ c_grapa_max ≤ 1`, `c_grapa_grow ≥ 0` (defaults `1-eps`, `1-eps`, `0`; the
initial bet `lam` is free: it is clipped), and a non-negative square root that is positive on positives -/
structure AgrapaOK (sqrtF : ℚ → ℚ) (cfg : Cfg) : Prop where
  sqrt_ok : C13.SqrtOK sqrtF
  c0_pos : 0 < cfg.c0V
  c0_le_cmax : cfg.c0V ≤ cfg.cmV
  cmax_le_one : cfg.cmV ≤ 1
  grow_nonneg : 0 ≤ cfg.cgV

/-- what each estimator of ALPHA needs: nothing for the fixed alternative (`eta` is clipped by the code),
`ShrinkOK` for shrink-truncate, `u ≠ 1` for the optimal comparison (`ZeroDivisionError` otherwise) -/
def EstimOK (sqrtF : ℚ → ℚ) (cfg : Cfg) : Estim → Prop
  | .fixedAlt => True
  | .shrinkTrunc => ShrinkOK sqrtF cfg
  | .optimalComparison => 2 - 2 * cfg.u ≠ 0

/-- what each bet needs: a fixed bet `0 ≤ lam ≤ 1/u` must be set; `AgrapaOK` for aGRAPA -/
def BetOK (sqrtF : ℚ → ℚ) (cfg : Cfg) : Bet → Prop
  | .fixed => ∃ l, cfg.kw.lam = some l ∧ 0 ≤ l ∧ l * cfg.u ≤ 1
  | .agrapa => AgrapaOK sqrtF cfg

/-- `wald_sprt`: `0 < t < u` and an alternative `t ≤ eta ≤ u` (default `u (1 - eps)`) -/
structure SprtOK (cfg : Cfg) : Prop where
  t_pos : 0 < cfg.t
  t_lt_u : cfg.t < cfg.u
  t_le_eta : cfg.t ≤ C11.sprtEta cfg
  eta_le_u : C11.sprtEta cfg ≤ cfg.u

/-- **documented use, finite population** (`N` finite, sampling without replacement).
Kaplan-Markov and Kaplan-Wald are documented for sampling with replacement only (they ignore `N`):
excluded here. -/
def DocumentedFinite (sqrtF : ℚ → ℚ) (cfg : Cfg) : Test → Prop
  | .alpha e => 0 ≤ cfg.u ∧ TolOK cfg ∧ EstimOK sqrtF cfg e
  | .betting b => 0 ≤ cfg.u ∧ TolOK cfg ∧ BetOK sqrtF cfg b
  | .kk => 0 ≤ cfg.kw.g.getD 0
  | .sprt => cfg.randomOrder = true ∧ SprtOK cfg          -- the code raises unless `random_order`
  | .km => False
  | .kw => False

/-- **documented use, sampling with replacement** (`N = np.inf`).  Kaplan-Kolmogorov needs a finite
population (`int(np.inf)` raises): excluded here. -/
def DocumentedIID (sqrtF : ℚ → ℚ) (cfg : Cfg) : Test → Prop
  | .alpha e => 0 < cfg.t ∧ cfg.t < cfg.u ∧ TolOK cfg ∧ EstimOK sqrtF cfg e
  | .betting b => 0 < cfg.t ∧ cfg.t < cfg.u ∧ TolOK cfg ∧ BetOK sqrtF cfg b
  | .sprt => SprtOK cfg
  | .km => 0 ≤ cfg.kw.g.getD 0 ∧ 0 < cfg.t + cfg.kw.g.getD 0
  | .kw => 0 < cfg.t ∧ 0 ≤ cfg.kw.g.getD 0 ∧ cfg.kw.g.getD 0 ≤ 1
  | .kk => False

/-- **documented use** of `NonnegMean(test=…, estim=…, bet=…, N=…, u=…, t=…, **kwargs)` -/
def Documented (sqrtF : ℚ → ℚ) (cfg : Cfg) (test : Test) : Prop :=
  match cfg.N with
  | some _ => DocumentedFinite sqrtF cfg test
  | none => DocumentedIID sqrtF cfg test

theorem documented_finite (sqrtF : ℚ → ℚ) (cfg : Cfg) (test : Test) (n : Nat) (hN : cfg.N = some n) :
    Documented sqrtF cfg test ↔ DocumentedFinite sqrtF cfg test := by
  unfold Documented; rw [hN]

theorem documented_iid (sqrtF : ℚ → ℚ) (cfg : Cfg) (test : Test) (hN : cfg.N = none) :
    Documented sqrtF cfg test ↔ DocumentedIID sqrtF cfg test := by
  unfold Documented; rw [hN]

/-! ### 4. the capstones -/

/-- **C01 for `NonnegMean.test`, sampling without replacement.**  For every test the dispatcher offers
(ALPHA with each of its three estimators, the betting martingale with each of its two bets,
Kaplan-Kolmogorov, the SPRT) used within its documented parameter ranges, every population `pop` of `N`
values in `[0,u]` with mean at most `t`, and every `alpha` in `(0,1)`: the exact probability, over the
uniformly random order in which the items are drawn, that after some number of draws the overall p-value
returned by `self.test(x)` or ANY entry of the p-value history it returns is at most `alpha`, is at most
`alpha`. -/
theorem C01_finite_run (sqrtF : ℚ → ℚ) (cfg : Cfg) (n : Nat) (hN : cfg.N = some n) (test : Test)
    (hdoc : DocumentedFinite sqrtF cfg test)
    (alpha : ℚ) (ha0 : 0 < alpha) (ha1 : alpha < 1)
    (pop : List ℚ) (hlen : pop.length = n) (hrange : ∀ a ∈ pop, 0 ≤ a ∧ a ≤ cfg.u)
    (hnull : pop.sum ≤ (n : ℚ) * cfg.t) :
    hitEv (reportedAnyRun sqrtF cfg test alpha) pop.length pop [] ≤ alpha := by
  cases test with
  | alpha e =>
    obtain ⟨hu, htol, he⟩ := hdoc
    rw [reportedAnyRun_alpha]
    cases e with
    | fixedAlt =>
      exact C01_finite_alpha_fixed_any cfg n hN hu htol.atol_nonneg htol.atol_lt_half htol.rtol_nonneg
        alpha ha0 ha1 pop hlen hrange hnull
    | shrinkTrunc =>
      exact C01_finite_alpha_shrink_any sqrtF he.sqrt_pos cfg n hN he.d_pos he.f_nonneg he.minsd_pos
        hu htol.atol_nonneg htol.atol_lt_half htol.rtol_nonneg alpha ha0 ha1 pop hlen hrange hnull
    | optimalComparison =>
      exact C01_finite_alpha_optimal_any cfg n hN he hu htol.atol_nonneg htol.atol_lt_half htol.rtol_nonneg
        alpha ha0 ha1 pop hlen hrange hnull
  | betting b =>
    obtain ⟨hu, htol, hb⟩ := hdoc
    rw [reportedAnyRun_betting]
    cases b with
    | fixed =>
      obtain ⟨l, hl, hl0, hl1⟩ := hb
      exact C01_finite_betting_fixed_any cfg n hN l hl hl0 hl1 hu htol.atol_nonneg htol.atol_lt_half
        htol.rtol_nonneg alpha ha0 ha1 pop hlen hrange hnull
    | agrapa =>
      exact C01_finite_betting_agrapa_any sqrtF hb.sqrt_ok cfg n hN hb.c0_pos hb.c0_le_cmax hb.cmax_le_one
        hb.grow_nonneg hu htol.atol_nonneg htol.atol_lt_half htol.rtol_nonneg alpha ha0 ha1 pop hlen hrange hnull
  | kk =>
    rw [reportedAnyRun_kk]
    exact C01_finite_kk_any cfg n hN hdoc alpha ha0 ha1 pop hlen (fun a ha => (hrange a ha).1) hnull
  | sprt =>
    obtain ⟨hro, hs⟩ := hdoc
    rw [reportedAnyRun_sprt]
    exact C01_finite_sprt_any cfg n hN hro hs.t_pos hs.t_lt_u hs.t_le_eta hs.eta_le_u alpha ha0 ha1
      pop hlen hrange hnull
  | km => exact absurd hdoc id
  | kw => exact absurd hdoc id

/-- **C01 for `NonnegMean.test`, independent draws (`N = np.inf`).**  For every test the dispatcher offers
for sampling with replacement (ALPHA with each estimator, the betting martingale with each bet, the SPRT,
Kaplan-Markov, Kaplan-Wald) used within its documented parameter ranges, every finitely supported law `L`
on `[0,u]` with rational weights and mean at most `t`, every `alpha` in `(0,1)` and every horizon `k`: the
exact probability that after some number `≤ k` of independent draws from `L` the overall p-value returned
by `self.test(x)` or ANY entry of the history it returns is at most `alpha`, is at most `alpha`. -/
theorem C01_iid_run (sqrtF : ℚ → ℚ) (cfg : Cfg) (hN : cfg.N = none) (test : Test)
    (hdoc : DocumentedIID sqrtF cfg test)
    (alpha : ℚ) (ha0 : 0 < alpha) (ha1 : alpha < 1)
    (L : List (ℚ × ℚ)) (hL : IsLaw cfg.u L) (hmean : lawMean L ≤ cfg.t) (k : Nat) :
    hitIID L (reportedAnyRun sqrtF cfg test alpha) k [] ≤ alpha := by
  cases test with
  | alpha e =>
    obtain ⟨ht0, htu, htol, he⟩ := hdoc
    rw [reportedAnyRun_alpha]
    cases e with
    | fixedAlt =>
      exact C01_iid_alpha_fixed_any cfg hN ht0 htu htol.atol_nonneg htol.atol_lt_half htol.rtol_nonneg
        alpha ha0 ha1 L hL hmean k
    | shrinkTrunc =>
      exact C01_iid_alpha_shrink_any sqrtF he.sqrt_pos cfg hN he.d_pos he.f_nonneg he.minsd_pos
        ht0 htu htol.atol_nonneg htol.atol_lt_half htol.rtol_nonneg alpha ha0 ha1 L hL hmean k
    | optimalComparison =>
      exact C01_iid_alpha_optimal_any cfg hN he ht0 htu htol.atol_nonneg htol.atol_lt_half htol.rtol_nonneg
        alpha ha0 ha1 L hL hmean k
  | betting b =>
    obtain ⟨ht0, htu, htol, hb⟩ := hdoc
    rw [reportedAnyRun_betting]
    cases b with
    | fixed =>
      obtain ⟨l, hl, hl0, hl1⟩ := hb
      exact C01_iid_betting_fixed_any cfg hN l hl hl0 hl1 ht0 htu htol.atol_nonneg htol.atol_lt_half
        htol.rtol_nonneg alpha ha0 ha1 L hL hmean k
    | agrapa =>
      exact C01_iid_betting_agrapa_any sqrtF hb.sqrt_ok cfg hN hb.c0_pos hb.c0_le_cmax hb.cmax_le_one
        hb.grow_nonneg ht0 htu htol.atol_nonneg htol.atol_lt_half htol.rtol_nonneg alpha ha0 ha1 L hL hmean k
  | sprt =>
    rw [reportedAnyRun_sprt]
    exact C01_iid_sprt_any cfg hN hdoc.t_pos hdoc.t_lt_u hdoc.t_le_eta hdoc.eta_le_u alpha ha0 ha1 L hL hmean k
  | km =>
    rw [reportedAnyRun_km]
    exact C01_iid_km_any cfg hdoc.1 hdoc.2 alpha ha0 ha1 L hL hmean k
  | kw =>
    rw [reportedAnyRun_kw]
    exact C01_iid_kw_any cfg hdoc.1 hdoc.2.1 hdoc.2.2 alpha ha0 ha1 L hL hmean k
  | kk => exact absurd hdoc id

/-- **C01 for `NonnegMean.test`**, both sampling designs in one statement, in terms of `Documented`:
when `N` is finite, for every null population of `N` items; when `N = np.inf`, for every finitely
supported null law and every horizon. -/
theorem C01_run (sqrtF : ℚ → ℚ) (cfg : Cfg) (test : Test) (hdoc : Documented sqrtF cfg test)
    (alpha : ℚ) (ha0 : 0 < alpha) (ha1 : alpha < 1) :
    (∀ n, cfg.N = some n → ∀ pop : List ℚ, pop.length = n → (∀ a ∈ pop, 0 ≤ a ∧ a ≤ cfg.u) →
        pop.sum ≤ (n : ℚ) * cfg.t → hitEv (reportedAnyRun sqrtF cfg test alpha) pop.length pop [] ≤ alpha) ∧
    (cfg.N = none → ∀ L : List (ℚ × ℚ), IsLaw cfg.u L → lawMean L ≤ cfg.t → ∀ k : Nat,
        hitIID L (reportedAnyRun sqrtF cfg test alpha) k [] ≤ alpha) :=
  ⟨fun n hN pop hlen hrange hnull =>
      C01_finite_run sqrtF cfg n hN test ((documented_finite sqrtF cfg test n hN).1 hdoc) alpha ha0 ha1
        pop hlen hrange hnull,
   fun hN L hL hmean k =>
      C01_iid_run sqrtF cfg hN test ((documented_iid sqrtF cfg test hN).1 hdoc) alpha ha0 ha1 L hL hmean k⟩

/-! ### 5. non-vacuity: concrete configurations satisfy every hypothesis -/

section NonVacuity

private theorem tol_default (N : Option Nat) (u t : ℚ) (ro : Bool) (kw : Kw) :
    TolOK { N := N, u := u, t := t, randomOrder := ro, kw := kw } :=
  ⟨by norm_num [eps], by norm_num [eps], by norm_num⟩

private theorem pop4_range : ∀ a ∈ ([1, 0, 1/2, 0] : List ℚ), 0 ≤ a ∧ a ≤ (1 : ℚ) := by
  intro a ha; simp at ha; rcases ha with rfl | rfl | rfl | rfl <;> norm_num

private theorem law3 : IsLaw 1 [(0, 1/2), (1/2, 1/4), (1, 1/4)] :=
  ⟨by intro p hp; simp at hp; rcases hp with rfl | rfl | rfl <;> norm_num,
   by norm_num,
   by intro p hp; simp at hp; rcases hp with rfl | rfl | rfl <;> norm_num⟩

private theorem law3_mean : lawMean [(0, 1/2), (1/2, 1/4), (1, 1/4)] ≤ 1/2 := by
  norm_num [lawMean, expL]

/-- ALPHA + shrink-truncate with `eta`, `c`, `d`, `f > 0` set; `N = 4`, `u = 1`, `t = 1/2`, the driver's
square root, the null population `1, 0, 1/2, 0` -/
example : hitEv (reportedAnyRun sqrtRat
    { N := some 4, u := 1, t := 1/2, randomOrder := true,
      kw := { eta := some (3/4), c := some (1/2), d := some 10, f := some (1/10) } }
    (.alpha .shrinkTrunc) (1/20)) 4 [1, 0, 1/2, 0] [] ≤ 1/20 :=
  C01_finite_run sqrtRat _ 4 rfl (.alpha .shrinkTrunc)
    ⟨by norm_num, tol_default _ _ _ _ _,
      ⟨C13.sqrtRat_ok.pos, by norm_num [Cfg.dV], by norm_num [Cfg.fV], by norm_num [Cfg.minsdV]⟩⟩
    (1/20) (by norm_num) (by norm_num) [1, 0, 1/2, 0] rfl pop4_range (by norm_num)

/-- ALPHA + optimal comparison, `u = 1 + 2^-40 ≠ 1` -/
example : hitEv (reportedAnyRun sqrtRat
    { N := some 4, u := 1 + 1 / 1099511627776, t := 1/2, randomOrder := true, kw := {} }
    (.alpha .optimalComparison) (1/20)) 4 [1, 0, 1/2, 0] [] ≤ 1/20 :=
  C01_finite_run sqrtRat _ 4 rfl (.alpha .optimalComparison)
    ⟨by norm_num, tol_default _ _ _ _ _, by show (2 : ℚ) - 2 * (1 + 1 / 1099511627776) ≠ 0; norm_num⟩
    (1/20) (by norm_num) (by norm_num) [1, 0, 1/2, 0] rfl
    (by intro a ha; simp at ha; rcases ha with rfl | rfl | rfl | rfl <;> norm_num) (by norm_num)

/-- betting + aGRAPA with `c_grapa_0 = 1/2`, `c_grapa_max = 9/10`, `c_grapa_grow = 1` -/
example : hitEv (reportedAnyRun sqrtRat
    { N := some 4, u := 1, t := 1/2, randomOrder := false,
      kw := { lam := some (1/2), cG0 := some (1/2), cGmax := some (9/10), cGgrow := some 1 } }
    (.betting .agrapa) (1/20)) 4 [1, 0, 1/2, 0] [] ≤ 1/20 :=
  C01_finite_run sqrtRat _ 4 rfl (.betting .agrapa)
    ⟨by norm_num, tol_default _ _ _ _ _,
      ⟨C13.sqrtRat_ok, by norm_num [Cfg.c0V], by norm_num [Cfg.c0V, Cfg.cmV], by norm_num [Cfg.cmV],
        by norm_num [Cfg.cgV]⟩⟩
    (1/20) (by norm_num) (by norm_num) [1, 0, 1/2, 0] rfl pop4_range (by norm_num)

/-- betting + fixed bet `3/4` -/
example : hitEv (reportedAnyRun sqrtRat
    { N := some 4, u := 1, t := 1/2, randomOrder := false, kw := { lam := some (3/4) } }
    (.betting .fixed) (1/20)) 4 [1, 0, 1/2, 0] [] ≤ 1/20 :=
  C01_finite_run sqrtRat _ 4 rfl (.betting .fixed)
    ⟨by norm_num, tol_default _ _ _ _ _, 3/4, rfl, by norm_num, by norm_num⟩
    (1/20) (by norm_num) (by norm_num) [1, 0, 1/2, 0] rfl pop4_range (by norm_num)

/-- Kaplan-Kolmogorov with `g = 1/10` -/
example : hitEv (reportedAnyRun sqrtRat
    { N := some 4, u := 1, t := 1/2, randomOrder := true, kw := { g := some (1/10) } }
    .kk (1/20)) 4 [1, 0, 1/2, 0] [] ≤ 1/20 :=
  C01_finite_run sqrtRat _ 4 rfl .kk (by show (0 : ℚ) ≤ (some (1/10 : ℚ)).getD 0; norm_num)
    (1/20) (by norm_num) (by norm_num) [1, 0, 1/2, 0] rfl pop4_range (by norm_num)

/-- the SPRT with alternative `3/4`, finite population -/
example : hitEv (reportedAnyRun sqrtRat
    { N := some 4, u := 1, t := 1/2, randomOrder := true, kw := { eta := some (3/4) } }
    .sprt (1/20)) 4 [1, 0, 1/2, 0] [] ≤ 1/20 :=
  C01_finite_run sqrtRat _ 4 rfl .sprt
    ⟨rfl, by norm_num, by norm_num, by simp [C11.sprtEta]; norm_num, by simp [C11.sprtEta]; norm_num⟩
    (1/20) (by norm_num) (by norm_num) [1, 0, 1/2, 0] rfl pop4_range (by norm_num)

/-- Kaplan-Markov, independent draws from the law `P(0) = 1/2, P(1/2) = 1/4, P(1) = 1/4` (mean `3/8`),
all defaults, horizon 5 -/
example : hitIID [(0, 1/2), (1/2, 1/4), (1, 1/4)]
    (reportedAnyRun sqrtRat { N := none, u := 1, t := 1/2, randomOrder := true, kw := {} } .km (1/20)) 5 []
      ≤ 1/20 :=
  C01_iid_run sqrtRat _ rfl .km
    ⟨by show (0 : ℚ) ≤ (none : Option ℚ).getD 0; norm_num,
     by show (0 : ℚ) < 1/2 + (none : Option ℚ).getD 0; norm_num⟩
    (1/20) (by norm_num) (by norm_num) _ law3 law3_mean 5

/-- Kaplan-Wald with `g = 1/10`, independent draws -/
example : hitIID [(0, 1/2), (1/2, 1/4), (1, 1/4)]
    (reportedAnyRun sqrtRat { N := none, u := 1, t := 1/2, randomOrder := false, kw := { g := some (1/10) } }
      .kw (1/20)) 5 [] ≤ 1/20 :=
  C01_iid_run sqrtRat _ rfl .kw
    ⟨by norm_num, by show (0 : ℚ) ≤ (some (1/10 : ℚ)).getD 0; norm_num,
     by show (some (1/10 : ℚ)).getD 0 ≤ (1 : ℚ); norm_num⟩
    (1/20) (by norm_num) (by norm_num) _ law3 law3_mean 5

/-- ALPHA + shrink-truncate (all defaults except `f = 1/10`) and betting + aGRAPA (all defaults),
independent draws -/
example : hitIID [(0, 1/2), (1/2, 1/4), (1, 1/4)]
    (reportedAnyRun sqrtRat { N := none, u := 1, t := 1/2, randomOrder := true, kw := { f := some (1/10) } }
      (.alpha .shrinkTrunc) (1/20)) 5 [] ≤ 1/20 :=
  C01_iid_run sqrtRat _ rfl (.alpha .shrinkTrunc)
    ⟨by norm_num, by norm_num, tol_default _ _ _ _ _,
      ⟨C13.sqrtRat_ok.pos, by norm_num [Cfg.dV], by norm_num [Cfg.fV], by norm_num [Cfg.minsdV]⟩⟩
    (1/20) (by norm_num) (by norm_num) _ law3 law3_mean 5

example : hitIID [(0, 1/2), (1/2, 1/4), (1, 1/4)]
    (reportedAnyRun sqrtRat { N := none, u := 1, t := 1/2, randomOrder := true, kw := {} }
      (.betting .agrapa) (1/20)) 5 [] ≤ 1/20 :=
  C01_iid_run sqrtRat _ rfl (.betting .agrapa)
    ⟨by norm_num, by norm_num, tol_default _ _ _ _ _,
      ⟨C13.sqrtRat_ok, by norm_num [Cfg.c0V, eps], by norm_num [Cfg.c0V, Cfg.cmV], by norm_num [Cfg.cmV, eps],
        by norm_num [Cfg.cgV]⟩⟩
    (1/20) (by norm_num) (by norm_num) _ law3 law3_mean 5

/-- the SPRT, independent draws, default alternative `u (1 - eps)` -/
example : hitIID [(0, 1/2), (1/2, 1/4), (1, 1/4)]
    (reportedAnyRun sqrtRat { N := none, u := 1, t := 1/2, randomOrder := false, kw := {} } .sprt (1/20)) 5 []
      ≤ 1/20 :=
  C01_iid_run sqrtRat _ rfl .sprt
    ⟨by norm_num, by norm_num, by simp [C11.sprtEta]; norm_num [eps], by simp [C11.sprtEta]; norm_num [eps]⟩
    (1/20) (by norm_num) (by norm_num) _ law3 law3_mean 5

/-- the unified statement: the configuration of the first example is `Documented` -/
example : Documented sqrtRat
    { N := some 4, u := 1, t := 1/2, randomOrder := true,
      kw := { eta := some (3/4), c := some (1/2), d := some 10, f := some (1/10) } } (.alpha .shrinkTrunc) :=
  (documented_finite _ _ _ 4 rfl).2
    ⟨by norm_num, tol_default _ _ _ _ _,
      ⟨C13.sqrtRat_ok.pos, by norm_num [Cfg.dV], by norm_num [Cfg.fV], by norm_num [Cfg.minsdV]⟩⟩

end NonVacuity

end Shangrla.C01
