/-
  C01, independent draws (`N = np.inf`), for laws with REAL probabilities.

  `C01IID.lean`, `C01Kaplan.lean`, `C01Any.lean`, `C01Run.lean` prove the risk limit for finitely supported
  laws with RATIONAL weights.  The observations handed to the library are IEEE doubles: every finite
  double is a rational number and the doubles in `[0,u]` are finitely many, so EVERY probability law on
  the library's input space is finitely supported on rational values; what the rational-weight
  statement leaves out is only IRRATIONAL probabilities.  This file closes that gap.

  The weights live in an arbitrary linearly ordered field `K` (`IsLawK`, `lawMeanK`, `hitIIDK` of
  `Lemmas/VilleIIDK.lean`); `K = ℝ` gives real probabilities, `K = ℚ` gives back the old statements
  (`C01_iid_run_of_K`).  The proofs reuse, unchanged, every per-history (weight-free, rational) fact of
  the rational-weight development — the statistic is a product of factors that are non-negative and
  affine in the new observation, "p-value ≤ alpha ⇒ statistic ≥ 1/alpha", the reduction of "overall
  p-value or any history entry" to "last entry of a prefix" — and redo in `K` the only step in which
  weights occur: the expectation of the next factor is at most 1 when the mean of the law is at most `t`.

  Capstones: `C01_iid_run_K` (every shipped test / estimator / bet, exactly the cases and hypotheses of
  `C01_iid_run`), `C01_iid_run_real` (`K = ℝ`), `C01_iid_run_real_pmf` / `C01_iid_run_real_finset` (a real
  probability mass function on a finite list / `Finset` of rational values), and a non-vacuity example
  with the irrational weights `2 - √2`, `√2 - 1`.
-/
import Shangrla.Props.C01Run
import Shangrla.Lemmas.VilleIIDK
import Mathlib.Data.Real.Basic
import Mathlib.Analysis.Real.Sqrt
import Mathlib.NumberTheory.Real.Irrational
import Mathlib.Algebra.BigOperators.Group.Finset.Defs

namespace Shangrla.C01
open Shangrla Shangrla.NM XR Shangrla.C12 Shangrla.Ville Shangrla.C11 Shangrla.C05

section OrderedField

variable {K : Type} [Field K] [LinearOrder K] [IsStrictOrderedRing K]

/-- a finitely supported law on `[0,u]`: (rational value, weight in `K`) pairs, weights `≥ 0` summing
to 1 -/
structure IsLawK (u : ℚ) (L : List (ℚ × K)) : Prop where
  w_nonneg : ∀ p ∈ L, 0 ≤ p.2
  w_sum : (L.map Prod.snd).sum = 1
  range : ∀ p ∈ L, 0 ≤ p.1 ∧ p.1 ≤ u

/-- the mean of the law, an element of `K` -/
def lawMeanK (L : List (ℚ × K)) : K := expLK L (fun v => (v : K))

/-- the old notions are the instance `K = ℚ` -/
theorem isLawK_rat (u : ℚ) (L : List (ℚ × ℚ)) : IsLawK (K := ℚ) u L ↔ IsLaw u L :=
  ⟨fun h => ⟨h.w_nonneg, h.w_sum, h.range⟩, fun h => ⟨h.w_nonneg, h.w_sum, h.range⟩⟩

theorem lawMeanK_rat (L : List (ℚ × ℚ)) : lawMeanK (K := ℚ) L = lawMean L := by
  unfold lawMeanK lawMean
  rw [expLK_rat]
  rfl

/-- a rational-weight law read in `K` is a law in `K`, with the cast mean (and, `hitIIDK_cast`, the cast
hitting probabilities) -/
theorem isLawK_castLaw (u : ℚ) (L : List (ℚ × ℚ)) (hL : IsLaw u L) : IsLawK u (castLaw K L) := by
  refine ⟨?_, ?_, ?_⟩
  · intro q hq
    obtain ⟨p, hp, rfl⟩ := List.mem_map.1 hq
    show (0 : K) ≤ ((p.2 : ℚ) : K)
    exact_mod_cast hL.w_nonneg p hp
  · have h : ∀ L : List (ℚ × ℚ), ((castLaw K L).map Prod.snd).sum = (((L.map Prod.snd).sum : ℚ) : K) := by
      intro L
      induction L with
      | nil => simp [castLaw]
      | cons a L ih =>
        simp only [castLaw, List.map_cons, List.sum_cons, List.map_map] at ih ⊢
        rw [ih]; push_cast; rfl
    rw [h, hL.w_sum, Rat.cast_one]
  · intro q hq
    obtain ⟨p, hp, rfl⟩ := List.mem_map.1 hq
    exact hL.range p hp

theorem lawMeanK_castLaw (L : List (ℚ × ℚ)) : lawMeanK (castLaw K L) = ((lawMean L : ℚ) : K) :=
  expLK_cast L (fun v => v)

omit [IsStrictOrderedRing K] in
theorem range_step_K (u : ℚ) (L : List (ℚ × K)) (hL : IsLawK u L) (h : List ℚ)
    (hr : ∀ b ∈ h, 0 ≤ b ∧ b ≤ u) (p : ℚ × K) (hp : p ∈ L) : ∀ b ∈ h ++ [p.1], 0 ≤ b ∧ b ≤ u := by
  intro b hb
  simp only [List.mem_append, List.mem_singleton] at hb
  rcases hb with hb | rfl
  · exact hr b hb
  · exact hL.range p hp

/-! ### the probabilistic steps, weights in `K` -/

/-- **Ville's inequality for the test statistic under independent draws, weights in `K`**: the
statistic, the factors, the threshold and the link `hev` are the rational objects of
`process_ville_iid`; only the expectation of the next factor is taken in `K` -/
theorem process_ville_iid_K (facQ : ℚ → ℚ → ℚ → ℚ) (u t : ℚ) (g : List ℚ → ℚ)
    (L : List (ℚ × K)) (hL : IsLawK u L)
    (hfacnn : ∀ (h : List ℚ) (a : ℚ), (∀ b ∈ h, 0 ≤ b ∧ b ≤ u) → 0 ≤ a → a ≤ u → 0 ≤ facQ t a (g h))
    (hfacsuper : ∀ h : List ℚ, (∀ b ∈ h, 0 ≤ b ∧ b ≤ u) →
      expLK L (fun v => ((facQ t v (g h) : ℚ) : K)) ≤ 1)
    (ev : List ℚ → Bool) (c : ℚ) (hc : 0 < c)
    (hev : ∀ h, (∀ b ∈ h, 0 ≤ b ∧ b ≤ u) → ev h = true → c ≤ Tq facQ none t g h)
    (n : Nat) : hitIIDK L ev n [] ≤ 1 / (c : K) := by
  have hcK : (0 : K) < (c : K) := by exact_mod_cast hc
  have key := hitIIDK_le L hL.w_nonneg ev (fun h => ((Tq facQ none t g h : ℚ) : K)) (c : K) hcK
    (fun h => ∀ b ∈ h, 0 ≤ b ∧ b ≤ u)
    (fun h hI he => by exact_mod_cast hev h hI he)
    (fun h hI => by exact_mod_cast Tq_none_nonneg facQ u t g hfacnn h hI) ?_ ?_ n [] (by simp)
  · simp only [Tq_nil, Rat.cast_one] at key
    exact key
  · intro h hI p hp
    exact range_step_K u L hL h hI p hp
  · intro h hI
    have : (fun v => ((Tq facQ none t g (h ++ [v]) : ℚ) : K))
        = (fun v => ((Tq facQ none t g h : ℚ) : K) * ((facQ t v (g h) : ℚ) : K)) := by
      funext v; rw [(Tq_snoc facQ none t g h v).1, muAfter_none]; push_cast; rfl
    simp only [this]
    rw [expLK_mul_left]
    have hT : (0 : K) ≤ ((Tq facQ none t g h : ℚ) : K) := by
      exact_mod_cast Tq_none_nonneg facQ u t g hfacnn h hI
    calc ((Tq facQ none t g h : ℚ) : K) * expLK L (fun v => ((facQ t v (g h) : ℚ) : K))
        ≤ ((Tq facQ none t g h : ℚ) : K) * 1 := mul_le_mul_of_nonneg_left (hfacsuper h hI) hT
      _ = ((Tq facQ none t g h : ℚ) : K) := mul_one _

/-- **domination, independent draws, weights in `K`** (the analogue of `hitIID_mono_prefix`) -/
theorem hitIIDK_mono_prefix (L : List (ℚ × K)) (hw : ∀ p ∈ L, 0 ≤ p.2) (hs : (L.map Prod.snd).sum = 1)
    (ev₁ ev₂ : List ℚ → Bool) (InvP : List ℚ → Prop)
    (hstep : ∀ h, InvP h → ∀ p ∈ L, InvP (h ++ [p.1]))
    (himp : ∀ h, InvP h → ev₁ h = true → ∃ k, 0 < k ∧ k ≤ h.length ∧ ev₂ (h.take k) = true) :
    ∀ n h, InvP h → NoProperPrefix ev₂ h → hitIIDK L ev₁ n h ≤ hitIIDK L ev₂ n h := by
  intro n
  induction n with
  | zero =>
    intro h hI hno
    unfold hitIIDK
    by_cases h1 : ev₁ h = true
    · rw [if_pos h1, if_pos (ev_of_prefix ev₁ ev₂ h (himp h hI) hno h1)]
    · rw [if_neg h1]; split <;> norm_num
  | succ n ih =>
    intro h hI hno
    unfold hitIIDK
    by_cases h1 : ev₁ h = true
    · rw [if_pos h1, if_pos (ev_of_prefix ev₁ ev₂ h (himp h hI) hno h1)]
    · rw [if_neg h1]
      by_cases h2 : ev₂ h = true
      · rw [if_pos h2]
        have := expLK_le L hw (fun v => hitIIDK L ev₁ n (h ++ [v])) (fun _ => 1)
          (fun p _ => hitIIDK_le_one L hw hs ev₁ _ _)
        rwa [expLK_const L hs] at this
      · rw [if_neg h2]
        apply expLK_le L hw
        intro p hp
        exact ih _ (hstep h hI p hp) (noProperPrefix_snoc ev₂ h _ hno (by simpa using h2))

/-- **the whole probabilistic argument in one statement.**  Given, for a product statistic `Tq facQ`
with non-negative factors whose expectation under `L` is at most 1, (a) the weight-free link "last
reported p-value `≤ alpha` ⇒ statistic `≥ 1/alpha`" and (b) the weight-free reduction "overall p-value or
any history entry `≤ alpha` ⇒ the last entry on some non-empty prefix is", the probability of ever
seeing the enlarged event is at most `alpha` -/
theorem ville_any_K (facQ : ℚ → ℚ → ℚ → ℚ) (u t : ℚ) (g : List ℚ → ℚ)
    (L : List (ℚ × K)) (hL : IsLawK u L)
    (hfacnn : ∀ (h : List ℚ) (a : ℚ), (∀ b ∈ h, 0 ≤ b ∧ b ≤ u) → 0 ≤ a → a ≤ u → 0 ≤ facQ t a (g h))
    (hfacsuper : ∀ h : List ℚ, (∀ b ∈ h, 0 ≤ b ∧ b ≤ u) →
      expLK L (fun v => ((facQ t v (g h) : ℚ) : K)) ≤ 1)
    (evAny evLast : List ℚ → Bool) (alpha : ℚ) (ha0 : 0 < alpha)
    (hev : ∀ h, (∀ b ∈ h, 0 ≤ b ∧ b ≤ u) → evLast h = true → 1 / alpha ≤ Tq facQ none t g h)
    (himp : ∀ h, (∀ b ∈ h, 0 ≤ b ∧ b ≤ u) → evAny h = true →
      ∃ k, 0 < k ∧ k ≤ h.length ∧ evLast (h.take k) = true)
    (n : Nat) : hitIIDK L evAny n [] ≤ (alpha : K) := by
  have h1 := hitIIDK_mono_prefix L hL.w_nonneg hL.w_sum evAny evLast (fun h => ∀ b ∈ h, 0 ≤ b ∧ b ≤ u)
    (range_step_K u L hL) himp n [] (by simp) (noProperPrefix_nil _)
  have h2 := process_ville_iid_K facQ u t g L hL hfacnn hfacsuper evLast (1 / alpha) (by positivity) hev n
  have h3 : (1 : K) / ((1 / alpha : ℚ) : K) = (alpha : K) := by
    push_cast
    rw [one_div_one_div]
  rw [h3] at h2
  exact le_trans h1 h2

/-! ### the expectation of each factor (the only place where weights occur) -/

/-- the ALPHA factor is a supermartingale factor under any law with mean at most `t` -/
theorem alphaQ_super_iid_K (u t q : ℚ) (ht0 : 0 < t) (htu : t < u) (L : List (ℚ × K)) (hL : IsLawK u L)
    (hmean : lawMeanK L ≤ (t : K)) : expLK L (fun v => ((alphaQ u t v q : ℚ) : K)) ≤ 1 := by
  have : (fun v => ((alphaQ u t v q : ℚ) : K)) = (fun v => ((1 + lamOf u t q * (v - t) : ℚ) : K)) := by
    funext v; rw [alphaQ_affine u t v q ht0 htu]
  rw [this]
  exact expLK_affine_cast_le_one L hL.w_sum _ _ (lamOf_nonneg u t q ht0 htu) hmean

/-- the betting factor is a supermartingale factor under any law with mean at most `t` -/
theorem betQ_super_iid_K (t l : ℚ) (hl0 : 0 ≤ l) (L : List (ℚ × K)) {u : ℚ} (hL : IsLawK u L)
    (hmean : lawMeanK L ≤ (t : K)) : expLK L (fun v => ((betQ t v l : ℚ) : K)) ≤ 1 := by
  unfold betQ
  exact expLK_affine_cast_le_one L hL.w_sum _ _ hl0 hmean

/-- the Kaplan-Markov factor `(x + g)/(t + g)` is a supermartingale factor under any law with mean at
most `t` -/
theorem kmQ_super_iid_K (t g : ℚ) (htg : 0 < t + g) (L : List (ℚ × K)) {u : ℚ} (hL : IsLawK u L)
    (hmean : lawMeanK L ≤ (t : K)) : expLK L (fun v => ((kmQ (t + g) g t v 0 : ℚ) : K)) ≤ 1 := by
  have hfun : (fun v => ((kmQ (t + g) g t v 0 : ℚ) : K))
      = (fun v => ((1 + (1 / (t + g)) * (v - t) : ℚ) : K)) := by
    funext v
    congr 1
    unfold kmQ
    field_simp
    ring
  rw [hfun]
  exact expLK_affine_cast_le_one L hL.w_sum _ _ (by positivity) hmean

/-! ### ALPHA and betting, generic in the predictable estimator / bet -/

/-- **C01, ALPHA, independent draws, weights in `K`**: last history entry of every prefix -/
theorem C01_iid_alpha_K (cfg : Cfg) (hN : cfg.N = none) (g : List ℚ → ℚ)
    (estim : List ℚ → Except Err (List XR))
    (hest : ∀ h : List ℚ, h ≠ [] → estim h = .ok ((params g h).map XR.fin))
    (ht0 : 0 < cfg.t) (htu : cfg.t < cfg.u)
    (hat : 0 ≤ cfg.atol) (hat2 : cfg.atol < 1 / 2) (hrt : 0 ≤ cfg.rtol)
    (alpha : ℚ) (ha0 : 0 < alpha) (ha1 : alpha < 1)
    (L : List (ℚ × K)) (hL : IsLawK cfg.u L) (hmean : lawMeanK L ≤ (cfg.t : K)) (n : Nat) :
    hitIIDK L (reportedLast cfg estim alpha) n [] ≤ (alpha : K) := by
  have h := process_ville_iid_K (alphaQ cfg.u) cfg.u cfg.t g L hL
    (fun _ _ _ ha0' hau' => alphaQ_nonneg cfg.u _ _ _ ht0 htu ha0' hau')
    (fun h' _ => alphaQ_super_iid_K cfg.u cfg.t (g h') ht0 htu L hL hmean)
    (reportedLast cfg estim alpha) (1 / alpha) (by positivity)
    (reported_implies_value_iid cfg hN g estim hest ht0 htu hat hat2 hrt alpha ha0 ha1) n
  have h3 : (1 : K) / ((1 / alpha : ℚ) : K) = (alpha : K) := by
    push_cast
    rw [one_div_one_div]
  rwa [h3] at h

/-- **C01, ALPHA, independent draws, weights in `K`: overall p-value or any history entry** -/
theorem C01_iid_alpha_any_K (cfg : Cfg) (hN : cfg.N = none) (g : List ℚ → ℚ)
    (estim : List ℚ → Except Err (List XR))
    (hest : ∀ h : List ℚ, h ≠ [] → estim h = .ok ((params g h).map XR.fin))
    (ht0 : 0 < cfg.t) (htu : cfg.t < cfg.u)
    (hat : 0 ≤ cfg.atol) (hat2 : cfg.atol < 1 / 2) (hrt : 0 ≤ cfg.rtol)
    (alpha : ℚ) (ha0 : 0 < alpha) (ha1 : alpha < 1)
    (L : List (ℚ × K)) (hL : IsLawK cfg.u L) (hmean : lawMeanK L ≤ (cfg.t : K)) (n : Nat) :
    hitIIDK L (reportedAny cfg estim alpha) n [] ≤ (alpha : K) :=
  ville_any_K (alphaQ cfg.u) cfg.u cfg.t g L hL
    (fun _ _ _ ha0' hau' => alphaQ_nonneg cfg.u _ _ _ ht0 htu ha0' hau')
    (fun h' _ => alphaQ_super_iid_K cfg.u cfg.t (g h') ht0 htu L hL hmean)
    (reportedAny cfg estim alpha) (reportedLast cfg estim alpha) alpha ha0
    (reported_implies_value_iid cfg hN g estim hest ht0 htu hat hat2 hrt alpha ha0 ha1)
    (fun h hr hany => any_prefix (prefixOK_alpha cfg g estim (fun h hne _ => hest h hne) hat hrt) alpha h
      (vNull_of_range cfg hN h hr) hany) n

/-- **C01, betting martingale, independent draws, weights in `K`**: last history entry of every prefix -/
theorem C01_iid_betting_K (cfg : Cfg) (hN : cfg.N = none) (g : List ℚ → ℚ)
    (bet : List ℚ → Except Err (List XR))
    (hest : ∀ h : List ℚ, h ≠ [] → bet h = .ok ((params g h).map XR.fin))
    (hg0 : ∀ h : List ℚ, 0 ≤ g h) (hg1 : ∀ h : List ℚ, g h * cfg.t ≤ 1)
    (ht0 : 0 < cfg.t) (htu : cfg.t < cfg.u)
    (hat : 0 ≤ cfg.atol) (hat2 : cfg.atol < 1 / 2) (hrt : 0 ≤ cfg.rtol)
    (alpha : ℚ) (ha0 : 0 < alpha) (ha1 : alpha < 1)
    (L : List (ℚ × K)) (hL : IsLawK cfg.u L) (hmean : lawMeanK L ≤ (cfg.t : K)) (n : Nat) :
    hitIIDK L (reportedLastB cfg bet alpha) n [] ≤ (alpha : K) := by
  have h := process_ville_iid_K betQ cfg.u cfg.t g L hL
    (fun h' _ _ ha0' _ => betQ_nonneg _ _ _ ht0 ha0' (hg0 h') (hg1 h'))
    (fun h' _ => betQ_super_iid_K cfg.t (g h') (hg0 h') L hL hmean)
    (reportedLastB cfg bet alpha) (1 / alpha) (by positivity)
    (reported_implies_value_iid_betting cfg hN g bet hest hg0 hg1 ht0 htu hat hat2 hrt alpha ha0 ha1) n
  have h3 : (1 : K) / ((1 / alpha : ℚ) : K) = (alpha : K) := by
    push_cast
    rw [one_div_one_div]
  rwa [h3] at h

/-- **C01, betting martingale, independent draws, weights in `K`: overall p-value or any history entry** -/
theorem C01_iid_betting_any_K (cfg : Cfg) (hN : cfg.N = none) (g : List ℚ → ℚ)
    (bet : List ℚ → Except Err (List XR))
    (hest : ∀ h : List ℚ, h ≠ [] → bet h = .ok ((params g h).map XR.fin))
    (hg0 : ∀ h : List ℚ, 0 ≤ g h) (hg1 : ∀ h : List ℚ, g h * cfg.t ≤ 1)
    (ht0 : 0 < cfg.t) (htu : cfg.t < cfg.u)
    (hat : 0 ≤ cfg.atol) (hat2 : cfg.atol < 1 / 2) (hrt : 0 ≤ cfg.rtol)
    (alpha : ℚ) (ha0 : 0 < alpha) (ha1 : alpha < 1)
    (L : List (ℚ × K)) (hL : IsLawK cfg.u L) (hmean : lawMeanK L ≤ (cfg.t : K)) (n : Nat) :
    hitIIDK L (reportedAnyB cfg bet alpha) n [] ≤ (alpha : K) :=
  ville_any_K betQ cfg.u cfg.t g L hL
    (fun h' _ _ ha0' _ => betQ_nonneg _ _ _ ht0 ha0' (hg0 h') (hg1 h'))
    (fun h' _ => betQ_super_iid_K cfg.t (g h') (hg0 h') L hL hmean)
    (reportedAnyB cfg bet alpha) (reportedLastB cfg bet alpha) alpha ha0
    (reported_implies_value_iid_betting cfg hN g bet hest hg0 hg1 ht0 htu hat hat2 hrt alpha ha0 ha1)
    (fun h hr hany => any_prefix
      (prefixOK_betting cfg g bet (fun h hne _ => hest h hne) hg0
        (by intro h' _ _; rw [hN]; exact hg1 h') hat hrt) alpha h
      (vNull_of_range cfg hN h hr) hany) n

/-! ### the shipped estimators and bets -/

/-- **ALPHA with the fixed alternative** -/
theorem C01_iid_alpha_fixed_any_K (cfg : Cfg) (hN : cfg.N = none)
    (ht0 : 0 < cfg.t) (htu : cfg.t < cfg.u)
    (hat : 0 ≤ cfg.atol) (hat2 : cfg.atol < 1 / 2) (hrt : 0 ≤ cfg.rtol)
    (alpha : ℚ) (ha0 : 0 < alpha) (ha1 : alpha < 1)
    (L : List (ℚ × K)) (hL : IsLawK cfg.u L) (hmean : lawMeanK L ≤ (cfg.t : K)) (k : Nat) :
    hitIIDK L (reportedAny cfg (fixedAlternativeMean cfg) alpha) k [] ≤ (alpha : K) :=
  C01_iid_alpha_any_K cfg hN (gFixedAlt cfg) (fixedAlternativeMean cfg)
    (fun h hne => fixedAlt_predictable_iid cfg hN h hne) ht0 htu hat hat2 hrt alpha ha0 ha1 L hL hmean k

/-- **ALPHA with shrink-truncate** -/
theorem C01_iid_alpha_shrink_any_K (sqrtF : ℚ → ℚ) (hs : ∀ q, 0 < q → 0 < sqrtF q) (cfg : Cfg)
    (hN : cfg.N = none) (hd : 0 < cfg.dV) (hf : 0 ≤ cfg.fV) (hmin : 0 < cfg.minsdV)
    (ht0 : 0 < cfg.t) (htu : cfg.t < cfg.u)
    (hat : 0 ≤ cfg.atol) (hat2 : cfg.atol < 1 / 2) (hrt : 0 ≤ cfg.rtol)
    (alpha : ℚ) (ha0 : 0 < alpha) (ha1 : alpha < 1)
    (L : List (ℚ × K)) (hL : IsLawK cfg.u L) (hmean : lawMeanK L ≤ (cfg.t : K)) (k : Nat) :
    hitIIDK L (reportedAny cfg (shrinkTrunc sqrtF cfg) alpha) k [] ≤ (alpha : K) :=
  C01_iid_alpha_any_K cfg hN (gOf (shrinkTrunc sqrtF cfg) (ValidLen cfg.N)) (shrinkTrunc sqrtF cfg)
    (fun h hne => shrink_predictable sqrtF hs cfg hd hf hmin h
      ⟨hne, by intro k hk; rw [hN] at hk; cases hk⟩)
    ht0 htu hat hat2 hrt alpha ha0 ha1 L hL hmean k

/-- **ALPHA with optimal comparison** -/
theorem C01_iid_alpha_optimal_any_K (cfg : Cfg) (hN : cfg.N = none) (hu1 : 2 - 2 * cfg.u ≠ 0)
    (ht0 : 0 < cfg.t) (htu : cfg.t < cfg.u)
    (hat : 0 ≤ cfg.atol) (hat2 : cfg.atol < 1 / 2) (hrt : 0 ≤ cfg.rtol)
    (alpha : ℚ) (ha0 : 0 < alpha) (ha1 : alpha < 1)
    (L : List (ℚ × K)) (hL : IsLawK cfg.u L) (hmean : lawMeanK L ≤ (cfg.t : K)) (k : Nat) :
    hitIIDK L (reportedAny cfg (optimalComparison cfg) alpha) k [] ≤ (alpha : K) :=
  C01_iid_alpha_any_K cfg hN (fun _ => gOptimal cfg) (optimalComparison cfg)
    (fun h _ => optimal_predictable cfg hu1 h) ht0 htu hat hat2 hrt alpha ha0 ha1 L hL hmean k

/-- **betting martingale with a fixed bet `0 ≤ lam ≤ 1/u`** -/
theorem C01_iid_betting_fixed_any_K (cfg : Cfg) (hN : cfg.N = none) (lam : ℚ)
    (hlam : cfg.kw.lam = some lam) (hl0 : 0 ≤ lam) (hl1 : lam * cfg.u ≤ 1)
    (ht0 : 0 < cfg.t) (htu : cfg.t < cfg.u)
    (hat : 0 ≤ cfg.atol) (hat2 : cfg.atol < 1 / 2) (hrt : 0 ≤ cfg.rtol)
    (alpha : ℚ) (ha0 : 0 < alpha) (ha1 : alpha < 1)
    (L : List (ℚ × K)) (hL : IsLawK cfg.u L) (hmean : lawMeanK L ≤ (cfg.t : K)) (k : Nat) :
    hitIIDK L (reportedAnyB cfg (fixedBet cfg) alpha) k [] ≤ (alpha : K) := by
  refine C01_iid_betting_any_K cfg hN (fun _ => lam) (fixedBet cfg) ?_ (fun _ => hl0) (fun _ => by nlinarith)
    ht0 htu hat hat2 hrt alpha ha0 ha1 L hL hmean k
  intro h _
  unfold fixedBet
  rw [hlam]
  simp only
  congr 1
  exact map_const_params lam h h rfl

/-- **betting martingale with aGRAPA** -/
theorem C01_iid_betting_agrapa_any_K (sqrtF : ℚ → ℚ) (hs : C13.SqrtOK sqrtF) (cfg : Cfg) (hN : cfg.N = none)
    (h0 : 0 < cfg.c0V) (h0m : cfg.c0V ≤ cfg.cmV) (hm1 : cfg.cmV ≤ 1) (hg : 0 ≤ cfg.cgV)
    (ht0 : 0 < cfg.t) (htu : cfg.t < cfg.u)
    (hat : 0 ≤ cfg.atol) (hat2 : cfg.atol < 1 / 2) (hrt : 0 ≤ cfg.rtol)
    (alpha : ℚ) (ha0 : 0 < alpha) (ha1 : alpha < 1)
    (L : List (ℚ × K)) (hL : IsLawK cfg.u L) (hmean : lawMeanK L ≤ (cfg.t : K)) (k : Nat) :
    hitIIDK L (reportedAnyB cfg (agrapa sqrtF cfg) alpha) k [] ≤ (alpha : K) := by
  refine C01_iid_betting_any_K cfg hN (gAgrapa sqrtF cfg) (agrapa sqrtF cfg) ?_
    (gAgrapa_nonneg sqrtF hs cfg h0 h0m hg) ?_ ht0 htu hat hat2 hrt alpha ha0 ha1 L hL hmean k
  · intro h hne
    exact agrapa_predictable sqrtF hs cfg h0 h0m hg h ⟨hne, by intro k hk; rw [hN] at hk; cases hk⟩
  · intro h
    have := gAgrapa_le sqrtF hs cfg h0 h0m hm1 hg h (by rw [hN]; exact ht0)
    rwa [hN] at this

/-! ### the SPRT, Kaplan-Wald, Kaplan-Markov -/

/-- the weight-free link for the SPRT with `N = np.inf` (the per-history part of `C01_iid_sprt`) -/
theorem sprt_reported_implies_value_iid (cfg : Cfg) (hN : cfg.N = none)
    (ht0 : 0 < cfg.t) (htu : cfg.t < cfg.u) (hte : cfg.t ≤ C11.sprtEta cfg) (heu : C11.sprtEta cfg ≤ cfg.u)
    (alpha : ℚ) (ha0 : 0 < alpha) (ha1 : alpha < 1) :
    ∀ h, (∀ b ∈ h, 0 ≤ b ∧ b ≤ cfg.u) → reportedLastSprt cfg alpha h = true →
      1 / alpha ≤ Tq (alphaQ cfg.u) none cfg.t (sprtG cfg) h := by
  intro h hr hev
  have hro : cfg.N ≠ none → cfg.randomOrder = true := fun hne => absurd hN hne
  cases h using List.reverseRecOn with
  | nil => rw [reportedLastSprt_nil cfg hro] at hev; cases hev
  | append_singleton l a _ =>
    have G : SprtGuard cfg (l ++ [a]) :=
      { ne := by simp
        range := hr
        fits := by intro k hk; rw [hN] at hk; cases hk
        t_pos := ht0, t_lt_u := htu, t_le_eta := hte, eta_le_u := heu
        ro := hro }
    have hmu : C11.sprtMu cfg (l ++ [a]) ((l ++ [a]).length - 1) = cfg.t := by
      unfold C11.sprtMu; rw [hN]; rfl
    obtain ⟨_, _, hge⟩ := sprt_reported_implies_value cfg (l ++ [a]) G
      (by rw [hmu]; exact ht0.le) alpha ha0 ha1 hev
    rw [hN] at hge
    exact hge

/-- **C01, SPRT, independent draws, weights in `K`: overall p-value or any history entry** -/
theorem C01_iid_sprt_any_K (cfg : Cfg) (hN : cfg.N = none)
    (ht0 : 0 < cfg.t) (htu : cfg.t < cfg.u) (hte : cfg.t ≤ C11.sprtEta cfg) (heu : C11.sprtEta cfg ≤ cfg.u)
    (alpha : ℚ) (ha0 : 0 < alpha) (ha1 : alpha < 1)
    (L : List (ℚ × K)) (hL : IsLawK cfg.u L) (hmean : lawMeanK L ≤ (cfg.t : K)) (n : Nat) :
    hitIIDK L (reportedAnySprt cfg alpha) n [] ≤ (alpha : K) :=
  ville_any_K (alphaQ cfg.u) cfg.u cfg.t (sprtG cfg) L hL
    (fun _ _ _ ha0' hau' => alphaQ_nonneg cfg.u _ _ _ ht0 htu ha0' hau')
    (fun h' _ => alphaQ_super_iid_K cfg.u cfg.t (sprtG cfg h') ht0 htu L hL hmean)
    (reportedAnySprt cfg alpha) (reportedLastSprt cfg alpha) alpha ha0
    (sprt_reported_implies_value_iid cfg hN ht0 htu hte heu alpha ha0 ha1)
    (fun h hr hany => any_prefix (prefixOK_sprt cfg (fun hne => absurd hN hne) ht0 htu hte heu) alpha h
      ⟨hr, fun k hk => by rw [hN] at hk; cases hk⟩ hany) n

/-- **C01, Kaplan-Wald, independent draws, weights in `K`: overall p-value or any history entry** -/
theorem C01_iid_kw_any_K (cfg : Cfg) (ht : 0 < cfg.t) (hg0 : 0 ≤ cfg.kw.g.getD 0) (hg1 : cfg.kw.g.getD 0 ≤ 1)
    (alpha : ℚ) (ha0 : 0 < alpha) (ha1 : alpha < 1)
    {u : ℚ} (L : List (ℚ × K)) (hL : IsLawK u L) (hmean : lawMeanK L ≤ (cfg.t : K)) (n : Nat) :
    hitIIDK L (reportedAnyKW cfg alpha) n [] ≤ (alpha : K) := by
  have hl0 : 0 ≤ (1 - cfg.kw.g.getD 0) / cfg.t := div_nonneg (by linarith) ht.le
  have hl1 : (1 - cfg.kw.g.getD 0) / cfg.t * cfg.t ≤ 1 := by
    rw [div_mul_cancel₀ _ (ne_of_gt ht)]; linarith
  exact ville_any_K betQ u cfg.t (fun _ => (1 - cfg.kw.g.getD 0) / cfg.t) L hL
    (fun _ _ _ ha0' _ => betQ_nonneg _ _ _ ht ha0' hl0 hl1)
    (fun _ _ => betQ_super_iid_K cfg.t _ hl0 L hL hmean)
    (reportedAnyKW cfg alpha) (reportedLastKW cfg alpha) alpha ha0
    (fun h hr hev => kw_reported_implies_value cfg ht hg0 hg1 h (fun a ha => (hr a ha).1) alpha ha0 ha1 hev)
    (fun h hr hany => any_prefix (prefixOK_kw cfg ht hg0 hg1) alpha h (fun a ha => (hr a ha).1) hany) n

/-- **C01, Kaplan-Markov, independent draws, weights in `K`: overall p-value or any history entry** -/
theorem C01_iid_km_any_K (cfg : Cfg) (hg : 0 ≤ cfg.kw.g.getD 0) (htg : 0 < cfg.t + cfg.kw.g.getD 0)
    (alpha : ℚ) (ha0 : 0 < alpha) (ha1 : alpha < 1)
    {u : ℚ} (L : List (ℚ × K)) (hL : IsLawK u L) (hmean : lawMeanK L ≤ (cfg.t : K)) (n : Nat) :
    hitIIDK L (reportedAnyKM cfg alpha) n [] ≤ (alpha : K) :=
  ville_any_K (kmQ (cfg.t + cfg.kw.g.getD 0) (cfg.kw.g.getD 0)) u cfg.t (fun _ => 0) L hL
    (fun _ _ _ ha0' _ => div_nonneg (add_nonneg ha0' hg) htg.le)
    (fun _ _ => kmQ_super_iid_K cfg.t (cfg.kw.g.getD 0) htg L hL hmean)
    (reportedAnyKM cfg alpha) (reportedLastKM cfg alpha) alpha ha0
    (fun h hr hev => km_reported_implies_value cfg hg htg h (fun a ha => (hr a ha).1) alpha ha0 ha1 hev)
    (fun h hr hany => any_prefix (prefixOK_km cfg hg htg) alpha h (fun a ha => (hr a ha).1) hany) n

/-! ### the capstone -/

/-- **C01 for `NonnegMean.test`, independent draws (`N = np.inf`), probabilities in any ordered field.**
For every test the dispatcher offers for sampling with replacement (ALPHA with each of its three
estimators, the betting martingale with each of its two bets, the SPRT, Kaplan-Markov, Kaplan-Wald)
used within its documented parameter ranges — exactly the cases and hypotheses of `C01_iid_run` —, every
finitely supported law `L` on `[0,u]` whose weights are non-negative elements of the linearly ordered
field `K` summing to 1, with mean at most `t`, every `alpha` in `(0,1)` and every horizon `k`: the exact
probability (an element of `K`) that after some number `≤ k` of independent draws from `L` the overall
p-value returned by `self.test(x)` or ANY entry of the history it returns is at most `alpha`, is at most
`alpha`. -/
theorem C01_iid_run_K (sqrtF : ℚ → ℚ) (cfg : Cfg) (hN : cfg.N = none) (test : Test)
    (hdoc : DocumentedIID sqrtF cfg test)
    (alpha : ℚ) (ha0 : 0 < alpha) (ha1 : alpha < 1)
    (L : List (ℚ × K)) (hL : IsLawK cfg.u L) (hmean : lawMeanK L ≤ (cfg.t : K)) (k : Nat) :
    hitIIDK L (reportedAnyRun sqrtF cfg test alpha) k [] ≤ (alpha : K) := by
  cases test with
  | alpha e =>
    obtain ⟨ht0, htu, htol, he⟩ := hdoc
    rw [reportedAnyRun_alpha]
    cases e with
    | fixedAlt =>
      exact C01_iid_alpha_fixed_any_K cfg hN ht0 htu htol.atol_nonneg htol.atol_lt_half htol.rtol_nonneg
        alpha ha0 ha1 L hL hmean k
    | shrinkTrunc =>
      exact C01_iid_alpha_shrink_any_K sqrtF he.sqrt_pos cfg hN he.d_pos he.f_nonneg he.minsd_pos
        ht0 htu htol.atol_nonneg htol.atol_lt_half htol.rtol_nonneg alpha ha0 ha1 L hL hmean k
    | optimalComparison =>
      exact C01_iid_alpha_optimal_any_K cfg hN he ht0 htu htol.atol_nonneg htol.atol_lt_half htol.rtol_nonneg
        alpha ha0 ha1 L hL hmean k
  | betting b =>
    obtain ⟨ht0, htu, htol, hb⟩ := hdoc
    rw [reportedAnyRun_betting]
    cases b with
    | fixed =>
      obtain ⟨l, hl, hl0, hl1⟩ := hb
      exact C01_iid_betting_fixed_any_K cfg hN l hl hl0 hl1 ht0 htu htol.atol_nonneg htol.atol_lt_half
        htol.rtol_nonneg alpha ha0 ha1 L hL hmean k
    | agrapa =>
      exact C01_iid_betting_agrapa_any_K sqrtF hb.sqrt_ok cfg hN hb.c0_pos hb.c0_le_cmax hb.cmax_le_one
        hb.grow_nonneg ht0 htu htol.atol_nonneg htol.atol_lt_half htol.rtol_nonneg alpha ha0 ha1 L hL hmean k
  | sprt =>
    rw [reportedAnyRun_sprt]
    exact C01_iid_sprt_any_K cfg hN hdoc.t_pos hdoc.t_lt_u hdoc.t_le_eta hdoc.eta_le_u alpha ha0 ha1 L hL hmean k
  | km =>
    rw [reportedAnyRun_km]
    exact C01_iid_km_any_K cfg hdoc.1 hdoc.2 alpha ha0 ha1 L hL hmean k
  | kw =>
    rw [reportedAnyRun_kw]
    exact C01_iid_kw_any_K cfg hdoc.1 hdoc.2.1 hdoc.2.2 alpha ha0 ha1 L hL hmean k
  | kk => exact absurd hdoc id

end OrderedField

/-- the rational-weight capstone `C01_iid_run` is the instance `K = ℚ` of `C01_iid_run_K` (same statement,
re-derived from the new theorem through the bridges `isLawK_rat`, `lawMeanK_rat`, `hitIIDK_rat`) -/
theorem C01_iid_run_of_K (sqrtF : ℚ → ℚ) (cfg : Cfg) (hN : cfg.N = none) (test : Test)
    (hdoc : DocumentedIID sqrtF cfg test)
    (alpha : ℚ) (ha0 : 0 < alpha) (ha1 : alpha < 1)
    (L : List (ℚ × ℚ)) (hL : IsLaw cfg.u L) (hmean : lawMean L ≤ cfg.t) (k : Nat) :
    hitIID L (reportedAnyRun sqrtF cfg test alpha) k [] ≤ alpha := by
  have h := C01_iid_run_K (K := ℚ) sqrtF cfg hN test hdoc alpha ha0 ha1 L ((isLawK_rat cfg.u L).2 hL)
    (by rw [lawMeanK_rat]; simpa using hmean) k
  rw [hitIIDK_rat] at h
  simpa using h

/-! ### real probabilities -/

/-- **C01 for `NonnegMean.test`, independent draws (`N = np.inf`), REAL probabilities.**  For every test
the dispatcher offers for sampling with replacement, used within its documented parameter ranges
(exactly the cases and hypotheses of `C01_iid_run`), every law `L` on finitely many rational values in
`[0,u]` whose probabilities are arbitrary non-negative REAL numbers summing to 1, with mean at most `t`,
every `alpha` in `(0,1)` and every horizon `k`: the exact (real) probability that after some number `≤ k`
of independent draws from `L` the overall p-value returned by `self.test(x)` or ANY entry of the history
it returns is at most `alpha`, is at most `alpha`.

The observations handed to the library are IEEE doubles; every finite double is a rational number and
the doubles in `[0,u]` are finitely many: every probability law on the library's input space is such an
`L`.  -/
theorem C01_iid_run_real (sqrtF : ℚ → ℚ) (cfg : Cfg) (hN : cfg.N = none) (test : Test)
    (hdoc : DocumentedIID sqrtF cfg test)
    (alpha : ℚ) (ha0 : 0 < alpha) (ha1 : alpha < 1)
    (L : List (ℚ × ℝ)) (hL : IsLawK cfg.u L) (hmean : lawMeanK L ≤ (cfg.t : ℝ)) (k : Nat) :
    hitIIDK L (reportedAnyRun sqrtF cfg test alpha) k [] ≤ (alpha : ℝ) :=
  C01_iid_run_K sqrtF cfg hN test hdoc alpha ha0 ha1 L hL hmean k

section Pmf

variable {K : Type} [Field K] [LinearOrder K] [IsStrictOrderedRing K]

/-- the law that puts the mass `p v` on each entry `v` of `vals` (if `vals` has no duplicates, `p v` is
the probability of `v`; with duplicates the masses add up) -/
def pmfLaw (vals : List ℚ) (p : ℚ → K) : List (ℚ × K) := vals.map (fun v => (v, p v))

omit [IsStrictOrderedRing K] in
theorem pmfLaw_isLaw (u : ℚ) (vals : List ℚ) (p : ℚ → K) (hrange : ∀ v ∈ vals, 0 ≤ v ∧ v ≤ u)
    (hp0 : ∀ v ∈ vals, 0 ≤ p v) (hp1 : (vals.map p).sum = 1) : IsLawK u (pmfLaw vals p) := by
  refine ⟨?_, ?_, ?_⟩
  · intro q hq
    obtain ⟨v, hv, rfl⟩ := List.mem_map.1 hq
    exact hp0 v hv
  · unfold pmfLaw
    rw [List.map_map]
    exact hp1
  · intro q hq
    obtain ⟨v, hv, rfl⟩ := List.mem_map.1 hq
    exact hrange v hv

omit [LinearOrder K] [IsStrictOrderedRing K] in
theorem pmfLaw_mean (vals : List ℚ) (p : ℚ → K) :
    lawMeanK (pmfLaw vals p) = (vals.map (fun v => p v * (v : K))).sum := by
  unfold lawMeanK expLK pmfLaw
  rw [List.map_map]
  rfl

end Pmf

/-- **C01, every real probability mass function on a finite list of rational values.**  `vals` lists
finitely many rational values in `[0,u]` (for instance: all IEEE doubles in `[0,u]`), `p v ≥ 0` is the
real probability of `v`, `Σ_v p v = 1`, and the mean `Σ_v p v · v` is at most `t`.  Then for every shipped
test within its documented ranges, every `alpha` in `(0,1)` and every horizon `k`, the probability that
the overall p-value or any history entry reported after some number `≤ k` of independent draws is at
most `alpha`, is at most `alpha`. -/
theorem C01_iid_run_real_pmf (sqrtF : ℚ → ℚ) (cfg : Cfg) (hN : cfg.N = none) (test : Test)
    (hdoc : DocumentedIID sqrtF cfg test)
    (alpha : ℚ) (ha0 : 0 < alpha) (ha1 : alpha < 1)
    (vals : List ℚ) (p : ℚ → ℝ) (hrange : ∀ v ∈ vals, 0 ≤ v ∧ v ≤ cfg.u)
    (hp0 : ∀ v ∈ vals, 0 ≤ p v) (hp1 : (vals.map p).sum = 1)
    (hmean : (vals.map (fun v => p v * (v : ℝ))).sum ≤ (cfg.t : ℝ)) (k : Nat) :
    hitIIDK (pmfLaw vals p) (reportedAnyRun sqrtF cfg test alpha) k [] ≤ (alpha : ℝ) :=
  C01_iid_run_real sqrtF cfg hN test hdoc alpha ha0 ha1 (pmfLaw vals p)
    (pmfLaw_isLaw cfg.u vals p hrange hp0 hp1) (by rw [pmfLaw_mean]; exact hmean) k

/-- **the same for a `Finset` of values**, in the usual notation: `S` a finite set of rationals in `[0,u]`
(for instance the set of IEEE doubles in `[0,u]`), `p : ℚ → ℝ` with `p ≥ 0` on `S`, `∑ v ∈ S, p v = 1` and
`∑ v ∈ S, p v * v ≤ t` -/
theorem C01_iid_run_real_finset (sqrtF : ℚ → ℚ) (cfg : Cfg) (hN : cfg.N = none) (test : Test)
    (hdoc : DocumentedIID sqrtF cfg test)
    (alpha : ℚ) (ha0 : 0 < alpha) (ha1 : alpha < 1)
    (S : Finset ℚ) (p : ℚ → ℝ) (hrange : ∀ v ∈ S, 0 ≤ v ∧ v ≤ cfg.u)
    (hp0 : ∀ v ∈ S, 0 ≤ p v) (hp1 : ∑ v ∈ S, p v = 1)
    (hmean : ∑ v ∈ S, p v * (v : ℝ) ≤ (cfg.t : ℝ)) (k : Nat) :
    hitIIDK (pmfLaw S.toList p) (reportedAnyRun sqrtF cfg test alpha) k [] ≤ (alpha : ℝ) :=
  C01_iid_run_real_pmf sqrtF cfg hN test hdoc alpha ha0 ha1 S.toList p
    (fun v hv => hrange v (Finset.mem_toList.1 hv)) (fun v hv => hp0 v (Finset.mem_toList.1 hv))
    (by rw [Finset.sum_map_toList]; exact hp1) (by rw [Finset.sum_map_toList]; exact hmean) k

/-! ### non-vacuity: a law with irrational probabilities -/

section NonVacuity

/-- `P(0) = 2 - √2 ≈ 0.586`, `P(1) = √2 - 1 ≈ 0.414`: mean `√2 - 1 < 1/2` -/
noncomputable def lawSqrt2 : List (ℚ × ℝ) := [(0, 2 - Real.sqrt 2), (1, Real.sqrt 2 - 1)]

private theorem sqrt2_bounds : 1 ≤ Real.sqrt 2 ∧ Real.sqrt 2 ≤ 3 / 2 := by
  have h0 := Real.sqrt_nonneg 2
  have h2 : Real.sqrt 2 ^ 2 = 2 := Real.sq_sqrt (by norm_num)
  constructor <;> nlinarith

theorem lawSqrt2_isLaw : IsLawK 1 lawSqrt2 := by
  obtain ⟨h1, h2⟩ := sqrt2_bounds
  refine ⟨?_, ?_, ?_⟩
  · intro p hp
    simp only [lawSqrt2, List.mem_cons, List.not_mem_nil, or_false] at hp
    rcases hp with rfl | rfl <;> simp only <;> linarith
  · simp only [lawSqrt2, List.map_cons, List.map_nil, List.sum_cons, List.sum_nil]
    ring
  · intro p hp
    simp only [lawSqrt2, List.mem_cons, List.not_mem_nil, or_false] at hp
    rcases hp with rfl | rfl <;> norm_num

theorem lawSqrt2_mean : lawMeanK lawSqrt2 ≤ ((1 / 2 : ℚ) : ℝ) := by
  obtain ⟨_, h2⟩ := sqrt2_bounds
  simp only [lawMeanK, expLK, lawSqrt2, List.map_cons, List.map_nil, List.sum_cons, List.sum_nil]
  push_cast
  linarith

/-- the probability of the value `1` is irrational … -/
theorem lawSqrt2_weight_irrational : Irrational (Real.sqrt 2 - 1) := by
  have := irrational_sqrt_two.sub_ratCast (q := 1)
  simpa using this

/-- … hence `lawSqrt2` is not (the cast of) any law with rational weights: the rational-weight theorem
`C01_iid_run` says nothing about it -/
theorem lawSqrt2_not_rational : ¬ ∃ L : List (ℚ × ℚ), castLaw ℝ L = lawSqrt2 := by
  rintro ⟨L, hL⟩
  have hmem : ((1 : ℚ), Real.sqrt 2 - 1) ∈ castLaw ℝ L := by rw [hL]; simp [lawSqrt2]
  obtain ⟨q, _, hq⟩ := List.mem_map.1 hmem
  have h2 : ((q.2 : ℚ) : ℝ) = Real.sqrt 2 - 1 := congrArg Prod.snd hq
  exact lawSqrt2_weight_irrational.ne_rat q.2 h2.symm

private theorem tol_default' (N : Option Nat) (u t : ℚ) (ro : Bool) (kw : Kw) :
    TolOK { N := N, u := u, t := t, randomOrder := ro, kw := kw } :=
  ⟨by norm_num [eps], by norm_num [eps], by norm_num⟩

/-- ALPHA + shrink-truncate (all defaults except `f = 1/10`), `u = 1`, `t = 1/2`, the driver's square root,
independent draws from `lawSqrt2`, horizon 5 -/
example : hitIIDK lawSqrt2
    (reportedAnyRun sqrtRat { N := none, u := 1, t := 1/2, randomOrder := true, kw := { f := some (1/10) } }
      (.alpha .shrinkTrunc) (1/20)) 5 [] ≤ ((1/20 : ℚ) : ℝ) :=
  C01_iid_run_real sqrtRat _ rfl (.alpha .shrinkTrunc)
    ⟨by norm_num, by norm_num, tol_default' _ _ _ _ _,
      ⟨C13.sqrtRat_ok.pos, by norm_num [Cfg.dV], by norm_num [Cfg.fV], by norm_num [Cfg.minsdV]⟩⟩
    (1/20) (by norm_num) (by norm_num) _ lawSqrt2_isLaw lawSqrt2_mean 5

/-- betting + aGRAPA, all defaults -/
example : hitIIDK lawSqrt2
    (reportedAnyRun sqrtRat { N := none, u := 1, t := 1/2, randomOrder := true, kw := {} }
      (.betting .agrapa) (1/20)) 5 [] ≤ ((1/20 : ℚ) : ℝ) :=
  C01_iid_run_real sqrtRat _ rfl (.betting .agrapa)
    ⟨by norm_num, by norm_num, tol_default' _ _ _ _ _,
      ⟨C13.sqrtRat_ok, by norm_num [Cfg.c0V, eps], by norm_num [Cfg.c0V, Cfg.cmV], by norm_num [Cfg.cmV, eps],
        by norm_num [Cfg.cgV]⟩⟩
    (1/20) (by norm_num) (by norm_num) _ lawSqrt2_isLaw lawSqrt2_mean 5

/-- the SPRT, default alternative `u (1 - eps)` -/
example : hitIIDK lawSqrt2
    (reportedAnyRun sqrtRat { N := none, u := 1, t := 1/2, randomOrder := false, kw := {} } .sprt (1/20)) 5 []
      ≤ ((1/20 : ℚ) : ℝ) :=
  C01_iid_run_real sqrtRat _ rfl .sprt
    ⟨by norm_num, by norm_num, by simp [C11.sprtEta]; norm_num [eps], by simp [C11.sprtEta]; norm_num [eps]⟩
    (1/20) (by norm_num) (by norm_num) _ lawSqrt2_isLaw lawSqrt2_mean 5

/-- Kaplan-Markov, all defaults -/
example : hitIIDK lawSqrt2
    (reportedAnyRun sqrtRat { N := none, u := 1, t := 1/2, randomOrder := true, kw := {} } .km (1/20)) 5 []
      ≤ ((1/20 : ℚ) : ℝ) :=
  C01_iid_run_real sqrtRat _ rfl .km
    ⟨by show (0 : ℚ) ≤ (none : Option ℚ).getD 0; norm_num,
     by show (0 : ℚ) < 1/2 + (none : Option ℚ).getD 0; norm_num⟩
    (1/20) (by norm_num) (by norm_num) _ lawSqrt2_isLaw lawSqrt2_mean 5

/-- Kaplan-Wald with `g = 1/10` -/
example : hitIIDK lawSqrt2
    (reportedAnyRun sqrtRat { N := none, u := 1, t := 1/2, randomOrder := false, kw := { g := some (1/10) } }
      .kw (1/20)) 5 [] ≤ ((1/20 : ℚ) : ℝ) :=
  C01_iid_run_real sqrtRat _ rfl .kw
    ⟨by norm_num, by show (0 : ℚ) ≤ (some (1/10 : ℚ)).getD 0; norm_num,
     by show (some (1/10 : ℚ)).getD 0 ≤ (1 : ℚ); norm_num⟩
    (1/20) (by norm_num) (by norm_num) _ lawSqrt2_isLaw lawSqrt2_mean 5

/-- the same law as a probability mass function on the finite set `{0, 1}` -/
example : hitIIDK (pmfLaw ({0, 1} : Finset ℚ).toList (fun v => if v = 0 then 2 - Real.sqrt 2 else Real.sqrt 2 - 1))
    (reportedAnyRun sqrtRat { N := none, u := 1, t := 1/2, randomOrder := true, kw := {} } .km (1/20)) 5 []
      ≤ ((1/20 : ℚ) : ℝ) := by
  obtain ⟨h1, h2⟩ := sqrt2_bounds
  refine C01_iid_run_real_finset sqrtRat _ rfl .km
    ⟨by show (0 : ℚ) ≤ (none : Option ℚ).getD 0; norm_num,
     by show (0 : ℚ) < 1/2 + (none : Option ℚ).getD 0; norm_num⟩
    (1/20) (by norm_num) (by norm_num) _ _ ?_ ?_ ?_ ?_ 5
  · intro v hv
    simp only [Finset.mem_insert, Finset.mem_singleton] at hv
    rcases hv with rfl | rfl <;> norm_num
  · intro v hv
    simp only [Finset.mem_insert, Finset.mem_singleton] at hv
    rcases hv with rfl | rfl
    · simp only [if_true]; linarith
    · simp only [one_ne_zero, if_false]; linarith
  · rw [Finset.sum_pair (by norm_num)]
    simp only [if_true, one_ne_zero, if_false]
    ring
  · rw [Finset.sum_pair (by norm_num)]
    simp only [if_true, one_ne_zero, if_false]
    push_cast
    linarith

end NonVacuity

end Shangrla.C01
