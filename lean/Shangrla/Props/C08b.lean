/-
  C08, second sentence — "In any comparison, replacing a manual record by a phantom (a card that cannot be found)
  never increases the overstatement assorter, and a phantom CVR is scored as a non-vote (1/2)."

  Theorems are about `Shangrla.Overstatement.overstatementAssorter` / `cvrAssort` (Model/Overstatement.lean), the
  literal model of `Assertion.overstatement_assorter` / `Assorter.overstatement` that the driver executes.
  (The first sentence of C08 — phantom creation — belongs to another package.)
-/
import Shangrla.Lemmas.Overstatement

namespace Shangrla.C08
open Shangrla Shangrla.Overstatement

/-- **C08, phantom MVR is the worst case.**  For every assorter with values `≥ 0`, every CVR (pooled or not,
phantom or not) whose score is a number, style on or off, every margin with `2 − v/u > 0`: replacing the manual
record `m` by a phantom (any record `m'` with `m'.phantom`) never increases the overstatement assorter; and the
call with the phantom raises only if the call with `m` does. -/
theorem phantom_mvr_worst (v u : Rat) (useStyle : Bool) (means : Option Means) (m m' : Mvr) (c : Cvr) (ca : Rat)
    (hu : 0 < u) (hD : 0 < 2 - v / u) (hm : 0 ≤ m.a) (hph : m'.phantom = true)
    (hs : (useStyle && !c.hasContest) = false)
    (hc : cvrAssort means c = .ok (XR.fin ca)) :
    ∃ x y : Rat,
      overstatementAssorter (XR.fin v) u useStyle means m c = .ok (XR.fin x) ∧
      overstatementAssorter (XR.fin v) u useStyle means m' c = .ok (XR.fin y) ∧
      y ≤ x := by
  have hune : u ≠ 0 := ne_of_gt hu
  refine ⟨_, _, overstatementAssorter_fin hune (ne_of_gt hD) hs hc,
    overstatementAssorter_fin hune (ne_of_gt hD) hs hc, ?_⟩
  have h0 : mvrAssort useStyle m' = 0 := by simp [mvrAssort, hph]
  have h1 : 0 ≤ mvrAssort useStyle m := by
    unfold mvrAssort
    split
    · exact le_refl _
    · exact hm
  rw [h0]
  unfold ovA
  apply div_le_div_of_nonneg_right _ (le_of_lt hD)
  have : (ca - 0) / u - (ca - mvrAssort useStyle m) / u = mvrAssort useStyle m / u := by
    field_simp; ring
  have h2 : 0 ≤ mvrAssort useStyle m / u := div_nonneg h1 (le_of_lt hu)
  linarith

/-- the error cases are the same for `m` and for the phantom: the result with the phantom is an error exactly
when the result with `m` is (the MVR plays no part in `ValueError` / `KeyError`) -/
theorem phantom_mvr_same_errors (margin : XR) (u : Rat) (useStyle : Bool) (means : Option Means) (m m' : Mvr)
    (c : Cvr) (e : Err) :
    overstatementAssorter margin u useStyle means m c = .error e ↔
    overstatementAssorter margin u useStyle means m' c = .error e := by
  unfold overstatementAssorter overstatement
  cases hs : (useStyle && !c.hasContest)
  · cases hc : cvrAssort means c <;> simp [bind, Except.bind, pure, Except.pure]
  · simp [bind, Except.bind]

/-- **C08, phantom CVR scored as a non-vote.**  A phantom CVR whose score is not read from a pool mean (it is
not pooled, or no pool means are installed) is scored exactly 1/2, whatever the assorter says about the record. -/
theorem phantom_cvr_half (means : Option Means) (c : Cvr) (hph : c.phantom = true)
    (hup : usesPool means c = false) :
    cvrAssort means c = .ok (XR.fin (1 / 2)) := by
  rw [cvrAssort_own means c hup]
  simp [ownScore, hph]

/-- A POOLED phantom CVR (pool means installed) is scored by its pool's mean — like every other card of the pool,
`phantom` is not looked at ... -/
theorem phantom_cvr_pooled (d : Means) (c : Cvr) (_hph : c.phantom = true) (hpool : c.pool = true) (x : XR)
    (hx : d.lookup c.tallyPool = some x) :
    cvrAssort (some d) c = .ok x :=
  cvrAssort_pool d c hpool x hx

/-- ... and that mean, as computed by `set_tally_pool_means`, is `tot/n` over the pooled cards of the pool that
pass the style filter, to which the phantom contributes its own assorter value `A(cvr)` (`c.a`): the code calls
`self.assort(c)` for it like for any other card (L2512-2513).  It is 1/2 — so the pooled phantom counts as a
non-vote inside its pool — exactly when the assorter returns 1/2 for the phantom record, as every shipped
assorter does for a record without votes. -/
theorem phantom_cvr_pool_mean {useStyle : Bool} {cvrs : List Cvr} {keys : Option (List PoolKey)} {d : Means}
    (h : poolMeans useStyle cvrs keys = .ok d) (c : Cvr) (hc : c ∈ cvrs) (_hph : c.phantom = true)
    (hpass : passes useStyle c = true) (hpool : c.pool = true) :
    let L := (pooledAud useStyle cvrs).filter (fun c' => decide (c'.tallyPool = c.tallyPool))
    c ∈ L ∧
    cvrAssort (some d) c = .ok (XR.fin ((L.map (fun c' => c'.a)).sum / (L.length : Rat))) := by
  obtain ⟨_, hl⟩ := poolMeans_lookup h c hc hpass hpool
  refine ⟨?_, cvrAssort_pool d c hpool _ hl⟩
  apply List.mem_filter.mpr
  refine ⟨?_, by simp⟩
  unfold pooledAud
  exact List.mem_filter.mpr ⟨hc, by simp [hpass, hpool]⟩

/-! ### Non-vacuity -/

-- CVR for the winner (A = 1), MVR for the winner: B = 1/(2 - v); with the card unfindable: B = 0
example :
    let c : Cvr := { hasContest := true, phantom := false, pool := false, tallyPool := none, a := 1, sampleNum := 1 }
    let m : Mvr := { hasContest := true, phantom := false, a := 1 }
    let m' : Mvr := { hasContest := true, phantom := true, a := 1 }
    overstatementAssorter (XR.fin (1 / 5)) 1 true none m c = .ok (XR.fin (5 / 9)) ∧
    overstatementAssorter (XR.fin (1 / 5)) 1 true none m' c = .ok (XR.fin 0) ∧
    cvrAssort none c = .ok (XR.fin 1) := by decide +kernel
-- an unpooled phantom CVR that (wrongly) carries a vote is still scored 1/2
example :
    let c : Cvr := { hasContest := true, phantom := true, pool := false, tallyPool := none, a := 1, sampleNum := 1 }
    usesPool (some []) c = false ∧ cvrAssort (some []) c = .ok (XR.fin (1 / 2)) := by decide +kernel
-- a pooled phantom is scored by its pool's mean, which contains its own value 1/2: (1 + 1/2)/2
example :
    let c1 : Cvr := { hasContest := true, phantom := false, pool := true, tallyPool := some "b", a := 1, sampleNum := 1 }
    let c2 : Cvr := { hasContest := true, phantom := true, pool := true, tallyPool := some "b", a := 1 / 2, sampleNum := 2 }
    poolMeans true [c1, c2] none = .ok [(some "b", XR.fin (3 / 4))] ∧
    cvrAssort (some [(some "b", XR.fin (3 / 4))]) c2 = .ok (XR.fin (3 / 4)) := by decide +kernel

end Shangrla.C08
