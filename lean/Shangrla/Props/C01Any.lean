/-
  C01 — "the reported overall p-value, or ANY entry of the reported sample-by-sample history".

  The theorems of `C01.lean`, `C01IID.lean`, `C01Kaplan.lean` bound the probability that the LAST entry
  of the history reported after some number of draws is `≤ alpha`.  Here the event is enlarged to
  "after some number of draws the overall p-value is `≤ alpha`, or some entry of the whole reported
  history is" (`anyLe`), for all six tests.  Two ingredients:

  * `any_prefix` (deterministic, from non-anticipation C05 and well-formedness C11): under the null
    invariant (so that the final-sample clamp never fires) the history reported on a prefix of the
    sample is the prefix of the history reported on the sample, and the overall p-value is one of the
    history entries; hence `anyLe` on `h` implies `lastLe` on some non-empty prefix of `h`;
  * `hitEv_mono_prefix` / `hitIID_mono_prefix` (probabilistic): if `ev₁ h` implies `ev₂` on some
    non-empty prefix of `h`, the probability of ever seeing `ev₁` is at most that of ever seeing `ev₂`.
-/
import Shangrla.Props.C01Kaplan
import Shangrla.Props.C05
import Shangrla.Props.C11Shipped

namespace Shangrla.C01
open Shangrla Shangrla.NM XR Shangrla.C12 Shangrla.Ville Shangrla.C11 Shangrla.C05

/-! ### the enlarged event and its reduction to prefixes (deterministic) -/

/-- "the reported overall p-value, or some entry of the reported history, is `≤ alpha`"
(`false` when the test raised) -/
def anyLe (alpha : ℚ) (r : Except Err (XR × List XR)) : Bool :=
  match r with
  | .ok r => XR.le r.1 (.fin alpha) || r.2.any (fun p => XR.le p (.fin alpha))
  | .error _ => false

/-- what is needed of a test `T` on the valid samples `V`: it raises on the empty sample; validity is
inherited by non-empty prefixes; on a valid non-empty sample it returns one history entry per
observation and an overall p-value that is `≤ alpha` only if some history entry is; the history on a
prefix is the prefix of the history -/
structure PrefixOK (V : List ℚ → Prop) (T : List ℚ → Except Err (XR × List XR)) : Prop where
  nil : ∀ r, T [] ≠ .ok r
  pre : ∀ h k, V h → 0 < k → k ≤ h.length → V (h.take k)
  ok : ∀ h, V h → h ≠ [] → ∃ r, T h = .ok r ∧ r.2.length = h.length ∧
      ∀ alpha : ℚ, XR.le r.1 (.fin alpha) = true → ∃ p ∈ r.2, XR.le p (.fin alpha) = true
  trunc : ∀ h k r0 r1, V h → 0 < k → k ≤ h.length → T (h.take k) = .ok r0 → T h = .ok r1 →
      r0.2 = r1.2.take k

/-- **reduction to prefixes**: if the overall p-value or any history entry reported on the valid sample
`h` is `≤ alpha`, then the last entry of the history reported on some non-empty prefix of `h` is -/
theorem any_prefix {V : List ℚ → Prop} {T : List ℚ → Except Err (XR × List XR)} (P : PrefixOK V T)
    (alpha : ℚ) (h : List ℚ) (hV : V h) (hany : anyLe alpha (T h) = true) :
    ∃ k, 0 < k ∧ k ≤ h.length ∧ lastLe alpha (T (h.take k)) = true := by
  by_cases hne : h = []
  · subst hne
    cases hT : T [] with
    | error e => rw [hT] at hany; cases hany
    | ok r => exact absurd hT (P.nil r)
  · obtain ⟨r, hr, hlen, hp⟩ := P.ok h hV hne
    rw [hr] at hany
    simp only [anyLe, Bool.or_eq_true, List.any_eq_true] at hany
    obtain ⟨p, hpm, hple⟩ : ∃ p ∈ r.2, XR.le p (.fin alpha) = true := by
      rcases hany with h1 | ⟨p, hp1, hp2⟩
      · exact hp alpha h1
      · exact ⟨p, hp1, hp2⟩
    obtain ⟨i, hi, hpi⟩ := List.getElem_of_mem hpm
    have hk : i + 1 ≤ h.length := by rw [← hlen]; omega
    have hV' := P.pre h (i + 1) hV (by omega) hk
    have hlt : (h.take (i + 1)).length = i + 1 := by rw [List.length_take]; omega
    have hne' : h.take (i + 1) ≠ [] := by
      intro h0; rw [h0] at hlt; simp at hlt
    obtain ⟨r0, hr0, hlen0, _⟩ := P.ok (h.take (i + 1)) hV' hne'
    have ht := P.trunc h (i + 1) r0 r hV (by omega) hk hr0 hr
    refine ⟨i + 1, by omega, hk, ?_⟩
    rw [hr0]
    have hlast : r0.2.getLast? = some p := by
      rw [List.getLast?_eq_getElem?, hlen0, hlt, ht, List.getElem?_take]
      simp only [Nat.add_sub_cancel, Nat.lt_succ_self, ↓reduceIte]
      rw [List.getElem?_eq_getElem hi, hpi]
    simp only [lastLe, hlast]
    exact hple

/-! ### domination of hitting probabilities (probabilistic) -/

theorem hitEv_nonneg (ev : List ℚ → Bool) : ∀ fuel R h, 0 ≤ hitEv ev fuel R h := by
  intro fuel
  induction fuel with
  | zero => intro R h; unfold hitEv; split <;> norm_num
  | succ fuel ih =>
    intro R h
    unfold hitEv
    split
    · norm_num
    · split
      · exact le_refl _
      · rename_i hR
        have hpos : 0 < R.length := List.length_pos_iff.mpr hR
        have := avgIdx_le hpos (fun _ => 0) (fun i => hitEv ev fuel (R.eraseIdx i) (h ++ [R.getD i 0]))
          (fun i _ => ih _ _)
        rwa [avgIdx_const _ hpos] at this

theorem hitEv_le_one (ev : List ℚ → Bool) : ∀ fuel R h, hitEv ev fuel R h ≤ 1 := by
  intro fuel
  induction fuel with
  | zero => intro R h; unfold hitEv; split <;> norm_num
  | succ fuel ih =>
    intro R h
    unfold hitEv
    split
    · exact le_refl _
    · split
      · norm_num
      · rename_i hR
        have hpos : 0 < R.length := List.length_pos_iff.mpr hR
        have := avgIdx_le hpos (fun i => hitEv ev fuel (R.eraseIdx i) (h ++ [R.getD i 0])) (fun _ => 1)
          (fun i _ => ih _ _)
        rwa [avgIdx_const _ hpos] at this

/-- no proper non-empty prefix of `h` satisfies `ev` -/
def NoProperPrefix (ev : List ℚ → Bool) (h : List ℚ) : Prop :=
  ∀ k, 0 < k → k < h.length → ev (h.take k) = false

theorem noProperPrefix_nil (ev : List ℚ → Bool) : NoProperPrefix ev [] := by
  intro k _ hk; simp at hk

theorem noProperPrefix_snoc (ev : List ℚ → Bool) (h : List ℚ) (a : ℚ) (hno : NoProperPrefix ev h)
    (hh : ev h = false) : NoProperPrefix ev (h ++ [a]) := by
  intro k hk0 hk
  simp only [List.length_append, List.length_cons, List.length_nil] at hk
  rw [List.take_append_of_le_length (by omega)]
  by_cases hlt : k < h.length
  · exact hno k hk0 hlt
  · have : k = h.length := by omega
    rw [this, List.take_length]; exact hh

/-- if `ev₁ h` implies `ev₂` on a non-empty prefix, and no proper prefix satisfied `ev₂`, then `ev₂ h` -/
theorem ev_of_prefix (ev₁ ev₂ : List ℚ → Bool) (h : List ℚ)
    (himp : ev₁ h = true → ∃ k, 0 < k ∧ k ≤ h.length ∧ ev₂ (h.take k) = true)
    (hno : NoProperPrefix ev₂ h) (h1 : ev₁ h = true) : ev₂ h = true := by
  obtain ⟨k, hk0, hk, he⟩ := himp h1
  by_cases hlt : k < h.length
  · rw [hno k hk0 hlt] at he; cases he
  · have : k = h.length := by omega
    rwa [this, List.take_length] at he

/-- **domination, sampling without replacement**: if (on the states of an invariant preserved by
drawing) `ev₁ h` implies `ev₂` on some non-empty prefix of `h`, then the probability that `ev₁` ever
happens is at most the probability that `ev₂` ever happens -/
theorem hitEv_mono_prefix (ev₁ ev₂ : List ℚ → Bool) (InvP : List ℚ → List ℚ → Prop)
    (hstep : ∀ R h, InvP R h → ∀ i < R.length, InvP (R.eraseIdx i) (h ++ [R.getD i 0]))
    (himp : ∀ R h, InvP R h → ev₁ h = true → ∃ k, 0 < k ∧ k ≤ h.length ∧ ev₂ (h.take k) = true) :
    ∀ fuel R h, InvP R h → NoProperPrefix ev₂ h → hitEv ev₁ fuel R h ≤ hitEv ev₂ fuel R h := by
  intro fuel
  induction fuel with
  | zero =>
    intro R h hI hno
    unfold hitEv
    by_cases h1 : ev₁ h = true
    · rw [if_pos h1, if_pos (ev_of_prefix ev₁ ev₂ h (himp R h hI) hno h1)]
    · rw [if_neg h1]; split <;> norm_num
  | succ fuel ih =>
    intro R h hI hno
    unfold hitEv
    by_cases h1 : ev₁ h = true
    · rw [if_pos h1, if_pos (ev_of_prefix ev₁ ev₂ h (himp R h hI) hno h1)]
    · rw [if_neg h1]
      by_cases h2 : ev₂ h = true
      · rw [if_pos h2]
        split
        · norm_num
        · rename_i hR
          have hpos : 0 < R.length := List.length_pos_iff.mpr hR
          have := avgIdx_le hpos (fun i => hitEv ev₁ fuel (R.eraseIdx i) (h ++ [R.getD i 0])) (fun _ => 1)
            (fun i _ => hitEv_le_one ev₁ _ _ _)
          rwa [avgIdx_const _ hpos] at this
      · rw [if_neg h2]
        by_cases hR : R = []
        · rw [if_pos hR, if_pos hR]
        · rw [if_neg hR, if_neg hR]
          apply avgIdx_le (List.length_pos_iff.mpr hR)
          intro i hi
          exact ih _ _ (hstep R h hI i hi)
            (noProperPrefix_snoc ev₂ h _ hno (by simpa using h2))

theorem hitIID_nonneg (L : List (ℚ × ℚ)) (hw : ∀ p ∈ L, 0 ≤ p.2) (hs : (L.map Prod.snd).sum = 1)
    (ev : List ℚ → Bool) : ∀ n h, 0 ≤ hitIID L ev n h := by
  intro n
  induction n with
  | zero => intro h; unfold hitIID; split <;> norm_num
  | succ n ih =>
    intro h
    unfold hitIID
    split
    · norm_num
    · have := expL_le L hw (fun _ => 0) (fun v => hitIID L ev n (h ++ [v])) (fun p _ => ih _)
      rwa [expL_const L hs] at this

theorem hitIID_le_one (L : List (ℚ × ℚ)) (hw : ∀ p ∈ L, 0 ≤ p.2) (hs : (L.map Prod.snd).sum = 1)
    (ev : List ℚ → Bool) : ∀ n h, hitIID L ev n h ≤ 1 := by
  intro n
  induction n with
  | zero => intro h; unfold hitIID; split <;> norm_num
  | succ n ih =>
    intro h
    unfold hitIID
    split
    · exact le_refl _
    · have := expL_le L hw (fun v => hitIID L ev n (h ++ [v])) (fun _ => 1) (fun p _ => ih _)
      rwa [expL_const L hs] at this

/-- **domination, independent draws** -/
theorem hitIID_mono_prefix (L : List (ℚ × ℚ)) (hw : ∀ p ∈ L, 0 ≤ p.2) (hs : (L.map Prod.snd).sum = 1)
    (ev₁ ev₂ : List ℚ → Bool) (InvP : List ℚ → Prop)
    (hstep : ∀ h, InvP h → ∀ p ∈ L, InvP (h ++ [p.1]))
    (himp : ∀ h, InvP h → ev₁ h = true → ∃ k, 0 < k ∧ k ≤ h.length ∧ ev₂ (h.take k) = true) :
    ∀ n h, InvP h → NoProperPrefix ev₂ h → hitIID L ev₁ n h ≤ hitIID L ev₂ n h := by
  intro n
  induction n with
  | zero =>
    intro h hI hno
    unfold hitIID
    by_cases h1 : ev₁ h = true
    · rw [if_pos h1, if_pos (ev_of_prefix ev₁ ev₂ h (himp h hI) hno h1)]
    · rw [if_neg h1]; split <;> norm_num
  | succ n ih =>
    intro h hI hno
    unfold hitIID
    by_cases h1 : ev₁ h = true
    · rw [if_pos h1, if_pos (ev_of_prefix ev₁ ev₂ h (himp h hI) hno h1)]
    · rw [if_neg h1]
      by_cases h2 : ev₂ h = true
      · rw [if_pos h2]
        have := expL_le L hw (fun v => hitIID L ev₁ n (h ++ [v])) (fun _ => 1)
          (fun p _ => hitIID_le_one L hw hs ev₁ _ _)
        rwa [expL_const L hs] at this
      · rw [if_neg h2]
        apply expL_le L hw
        intro p hp
        exact ih _ (hstep h hI p hp) (noProperPrefix_snoc ev₂ h _ hno (by simpa using h2))

/-! ### the martingale tests: `PrefixOK` from predictability -/

/-- the valid samples under the null: values in `[0,u]`, and for a finite population no more draws
than items and a total of at most `N t` (so that the final-sample clamp does not fire) -/
def VNull (cfg : Cfg) (h : List ℚ) : Prop :=
  (∀ a ∈ h, 0 ≤ a ∧ a ≤ cfg.u) ∧ ∀ n, cfg.N = some n → h.length ≤ n ∧ h.sum ≤ (n : ℚ) * cfg.t

theorem vNull_take (cfg : Cfg) (h : List ℚ) (k : Nat) (hV : VNull cfg h) : VNull cfg (h.take k) := by
  refine ⟨fun a ha => hV.1 a (List.mem_of_mem_take ha), fun n hn => ?_⟩
  obtain ⟨h1, h2⟩ := hV.2 n hn
  refine ⟨by rw [List.length_take]; omega, ?_⟩
  have := psum_le_sum (x := h) (fun a ha => (hV.1 a ha).1) k
  unfold psum at this
  linarith

theorem vNull_not_clamped (cfg : Cfg) (h : List ℚ) (hV : VNull cfg h) : ¬ Clamped cfg h := by
  rintro ⟨n, hn, hlt⟩
  rw [xsum_eq] at hlt
  have := (hV.2 n hn).2
  linarith

theorem vNull_of_inv (cfg : Cfg) (n : Nat) (hN : cfg.N = some n) (R h : List ℚ)
    (hI : Inv cfg.u n cfg.t R h) : VNull cfg h := by
  obtain ⟨h1, h2, h3, h4⟩ := hI
  refine ⟨h3, fun k hk => ?_⟩
  rw [hN] at hk; cases hk
  have hR : 0 ≤ R.sum := List.sum_nonneg (fun x hx => (h2 x hx).1)
  exact ⟨by omega, by linarith⟩

/-- the predictable estimator / bet `x ↦ [g [], g [x₁], …]` as a total function -/
def estimP (g : List ℚ → ℚ) : List ℚ → Except Err (List XR) := fun x => .ok ((params g x).map XR.fin)

theorem strictlyCausal_params (g : List ℚ → ℚ) :
    StrictlyCausal (fun x : List ℚ => (params g x).map XR.fin) := by
  apply strictlyCausal_of_fun (fun x => (List.range (x.length + 1)).map (fun i => XR.fin (g (x.take i))))
  intro x a y
  unfold params
  rw [List.map_map, ← List.map_take, List.take_range]
  have hmin : min (x.length + 1) (x ++ a :: y).length = x.length + 1 := by
    simp only [List.length_append, List.length_cons]; omega
  rw [hmin]
  apply List.map_congr_left
  intro i hi
  rw [List.mem_range] at hi
  simp only [Function.comp]
  rw [List.take_append_of_le_length (by omega)]

theorem scE_estimP (g : List ℚ → ℚ) : StrictlyCausalE (estimP g) :=
  scE_of_pure (fp := fun x => (params g x).map XR.fin)
    (fun x l h => by unfold estimP at h; injection h with h; exact h.symm) (strictlyCausal_params g)

theorem lpE_estimP (g : List ℚ → ℚ) : LenPresE (estimP g) := by
  intro x l h
  unfold estimP at h
  injection h with h
  rw [← h, List.length_map, params_length]

theorem alphaMart_congr (cfg : Cfg) (e1 e2 : List ℚ → Except Err (List XR)) (x : List ℚ)
    (h : e1 x = e2 x) : alphaMart cfg e1 x = alphaMart cfg e2 x := by
  unfold alphaMart alphaTerms
  rw [h]

theorem bettingMart_congr (cfg : Cfg) (e1 e2 : List ℚ → Except Err (List XR)) (x : List ℚ)
    (h : e1 x = e2 x) : bettingMart cfg e1 x = bettingMart cfg e2 x := by
  unfold bettingMart bettingTerms
  rw [h]

theorem alphaMart_nil (cfg : Cfg) (estim : List ℚ → Except Err (List XR)) :
    ∀ r, alphaMart cfg estim [] ≠ .ok r := by
  intro r hr
  unfold alphaMart alphaTerms sjm at hr
  simp [bind, Except.bind] at hr

theorem bettingMart_nil (cfg : Cfg) (bet : List ℚ → Except Err (List XR)) :
    ∀ r, bettingMart cfg bet [] ≠ .ok r := by
  intro r hr
  unfold bettingMart bettingTerms sjm at hr
  simp [bind, Except.bind] at hr

/-- truncation of a martingale test with a predictable parameter function, when the clamp does not fire -/
theorem mart_trunc_predictable (cfg : Cfg)
    (mk : (List ℚ → Except Err (List XR)) → List ℚ → Except Err (XR × List XR))
    (hcongr : ∀ e1 e2 x, e1 x = e2 x → mk e1 x = mk e2 x)
    (htr : ∀ par, StrictlyCausalE par → LenPresE par → ∀ x y p0 p1 h0 h1,
      mk par x = .ok (p0, h0) → mk par (x ++ y) = .ok (p1, h1) → ¬ Clamped cfg x → h0 = h1.take x.length)
    (par : List ℚ → Except Err (List XR)) (g : List ℚ → ℚ) (h : List ℚ) (k : Nat) (hk : k ≤ h.length)
    (hp1 : par h = estimP g h) (hp0 : par (h.take k) = estimP g (h.take k))
    (hncl : ¬ Clamped cfg (h.take k)) (r0 r1 : XR × List XR)
    (H0 : mk par (h.take k) = .ok r0) (H1 : mk par h = .ok r1) : r0.2 = r1.2.take k := by
  rw [hcongr par (estimP g) _ hp0] at H0
  rw [hcongr par (estimP g) _ hp1, ← List.take_append_drop k h] at H1
  have := htr (estimP g) (scE_estimP g) (lpE_estimP g) (h.take k) (h.drop k) r0.1 r1.1 r0.2 r1.2 H0 H1 hncl
  rw [List.length_take, min_eq_left hk] at this
  exact this

theorem wf_overall_in_hist {ro : Bool} {n : Nat} {r : XR × List XR} (W : C11.WellFormed ro n r)
    (alpha : ℚ) (h : XR.le r.1 (.fin alpha) = true) : ∃ p ∈ r.2, XR.le p (.fin alpha) = true := by
  obtain ⟨_, _, _, h4, h5⟩ := W
  cases ro with
  | true => exact ⟨r.1, (h4 rfl).1, h⟩
  | false => exact ⟨r.1, List.mem_of_getLast? (h5 rfl), h⟩

/-- `alpha_mart` with a predictable finite estimator satisfies `PrefixOK` on the null samples -/
theorem prefixOK_alpha (cfg : Cfg) (g : List ℚ → ℚ) (estim : List ℚ → Except Err (List XR))
    (hest : ∀ h : List ℚ, h ≠ [] → (∀ n, cfg.N = some n → h.length ≤ n) →
      estim h = .ok ((params g h).map XR.fin))
    (hat : 0 ≤ cfg.atol) (hrt : 0 ≤ cfg.rtol) : PrefixOK (VNull cfg) (alphaMart cfg estim) where
  nil := alphaMart_nil cfg estim
  pre := fun h k hV _ _ => vNull_take cfg h k hV
  ok := by
    intro h hV hne
    have hN : ∀ n, cfg.N = some n → h.length ≤ n := fun n hn => (hV.2 n hn).1
    obtain ⟨r, hr, W⟩ := wellformed_alpha cfg estim h _ hne hN hV.1 hat hrt (hest h hne hN)
      (by rw [List.length_map, params_length]) (by intro e he; obtain ⟨q, _, rfl⟩ := List.mem_map.1 he; exact ⟨q, rfl⟩)
    exact ⟨r, hr, W.1, wf_overall_in_hist W⟩
  trunc := by
    intro h k r0 r1 hV hk0 hk H0 H1
    have hV' := vNull_take cfg h k hV
    have hne : h ≠ [] := by intro h0; rw [h0] at hk; simp at hk; omega
    have hne' : h.take k ≠ [] := by
      intro h0
      have := congrArg List.length h0
      rw [List.length_take, Nat.min_eq_left hk, List.length_nil] at this; omega
    exact mart_trunc_predictable cfg (alphaMart cfg) (alphaMart_congr cfg)
      (fun par hsc hl x y p0 p1 h0 h1 A B hn =>
        (hist_truncate_alpha_partial cfg par hsc hl x y p0 p1 h0 h1 A B).2.1 hn)
      estim g h k hk (hest h hne (fun n hn => (hV.2 n hn).1))
      (hest _ hne' (fun n hn => (hV'.2 n hn).1)) (vNull_not_clamped cfg _ hV') r0 r1 H0 H1

theorem params_getElem? (f : List ℚ → ℚ) (x : List ℚ) (i : Nat) (m : ℚ)
    (h : (params f x)[i]? = some m) : i < x.length ∧ m = f (x.take i) := by
  unfold params at h
  rw [List.getElem?_map] at h
  cases hr : (List.range x.length)[i]? with
  | none => rw [hr] at h; cases h
  | some j =>
    rw [hr] at h
    obtain ⟨hi, hj⟩ := List.getElem?_eq_some_iff.1 hr
    simp only [List.length_range] at hi
    simp only [List.getElem_range] at hj
    subst hj
    simp only [Option.map_some, Option.some.injEq] at h
    exact ⟨hi, h.symm⟩

/-- `betting_mart` with a predictable bet in `[0, 1/mu_j]` wherever `0 < mu_j < u` satisfies `PrefixOK`
on the null samples -/
theorem prefixOK_betting (cfg : Cfg) (g : List ℚ → ℚ) (bet : List ℚ → Except Err (List XR))
    (hest : ∀ h : List ℚ, h ≠ [] → (∀ n, cfg.N = some n → h.length ≤ n) →
      bet h = .ok ((params g h).map XR.fin))
    (hg0 : ∀ h : List ℚ, 0 ≤ g h)
    (hg1 : ∀ h : List ℚ, 0 < muAfter cfg.N cfg.t h → muAfter cfg.N cfg.t h < cfg.u →
      g h * muAfter cfg.N cfg.t h ≤ 1)
    (hat : 0 ≤ cfg.atol) (hrt : 0 ≤ cfg.rtol) : PrefixOK (VNull cfg) (bettingMart cfg bet) where
  nil := bettingMart_nil cfg bet
  pre := fun h k hV _ _ => vNull_take cfg h k hV
  ok := by
    intro h hV hne
    have hN : ∀ n, cfg.N = some n → h.length ≤ n := fun n hn => (hV.2 n hn).1
    have hlen : ((params g h).map XR.fin).length = h.length := by rw [List.length_map, params_length]
    obtain ⟨r, hr, W⟩ := wellformed_betting_in cfg bet h _ hne hN hat hrt (hest h hne hN) hlen
      (okWalk_of_entries (okBetIn cfg.u) cfg.u cfg.N cfg.t h _ 0 1 hlen hV.1 (by
        intro i m hm
        rw [nullMeans_params] at hm
        obtain ⟨hi, rfl⟩ := params_getElem? _ _ _ _ hm
        refine ⟨XR.fin (g (h.take i)), ?_, ?_⟩
        · rw [List.getElem?_map]
          unfold params
          rw [List.getElem?_map, List.getElem?_range hi]
          rfl
        · intro _ hm0 hmu
          exact ⟨_, rfl, hg0 _, hg1 _ hm0 hmu⟩))
    exact ⟨r, hr, W.1, wf_overall_in_hist W⟩
  trunc := by
    intro h k r0 r1 hV hk0 hk H0 H1
    have hV' := vNull_take cfg h k hV
    have hne : h ≠ [] := by intro h0; rw [h0] at hk; simp at hk; omega
    have hne' : h.take k ≠ [] := by
      intro h0
      have := congrArg List.length h0
      rw [List.length_take, Nat.min_eq_left hk, List.length_nil] at this; omega
    exact mart_trunc_predictable cfg (bettingMart cfg) (bettingMart_congr cfg)
      (fun par hsc hl x y p0 p1 h0 h1 A B hn =>
        (hist_truncate_betting_partial cfg par hsc hl x y p0 p1 h0 h1 A B).2.1 hn)
      bet g h k hk (hest h hne (fun n hn => (hV.2 n hn).1))
      (hest _ hne' (fun n hn => (hV'.2 n hn).1)) (vNull_not_clamped cfg _ hV') r0 r1 H0 H1

/-! ### ALPHA and betting: the enlarged event -/

/-- the overall p-value of `alpha_mart` on the draws `h`, or some entry of its history, is `≤ alpha` -/
def reportedAny (cfg : Cfg) (estim : List ℚ → Except Err (List XR)) (alpha : ℚ) (h : List ℚ) : Bool :=
  anyLe alpha (alphaMart cfg estim h)

/-- the same for `betting_mart` -/
def reportedAnyB (cfg : Cfg) (bet : List ℚ → Except Err (List XR)) (alpha : ℚ) (h : List ℚ) : Bool :=
  anyLe alpha (bettingMart cfg bet h)

/-- **the enlarged event reduces to the last-entry event on a prefix** (ALPHA, finite population,
under the null invariant) -/
theorem reportedAny_prefix (cfg : Cfg) (n : Nat) (hN : cfg.N = some n) (g : List ℚ → ℚ)
    (estim : List ℚ → Except Err (List XR))
    (hest : ∀ h : List ℚ, h ≠ [] → h.length ≤ n → estim h = .ok ((params g h).map XR.fin))
    (hat : 0 ≤ cfg.atol) (hrt : 0 ≤ cfg.rtol) (alpha : ℚ) (R h : List ℚ)
    (hI : Inv cfg.u n cfg.t R h) (hany : reportedAny cfg estim alpha h = true) :
    ∃ k, 0 < k ∧ k ≤ h.length ∧ reportedLast cfg estim alpha (h.take k) = true :=
  any_prefix (prefixOK_alpha cfg g estim (fun h hne hl => hest h hne (hl n hN)) hat hrt) alpha h
    (vNull_of_inv cfg n hN R h hI) hany

theorem inv_step (u : ℚ) (n : Nat) (t : ℚ) (R h : List ℚ) (hI : Inv u n t R h) (i : Nat) (hi : i < R.length) :
    Inv u n t (R.eraseIdx i) (h ++ [R.getD i 0]) := by
  obtain ⟨h1, h2, h3, h4⟩ := hI
  refine ⟨?_, ?_, ?_, ?_⟩
  · rw [List.length_eraseIdx, if_pos hi]
    simp only [List.length_append, List.length_cons, List.length_nil]; omega
  · intro a ha; exact h2 a (mem_eraseIdx_of ha)
  · intro a ha
    simp only [List.mem_append, List.mem_singleton] at ha
    rcases ha with ha | rfl
    · exact h3 a ha
    · exact h2 _ (getD_mem hi)
  · rw [sum_eraseIdx R i hi]
    simp only [List.sum_append, List.sum_cons, List.sum_nil, add_zero]
    linarith

/-- **C01, ALPHA, sampling without replacement, overall p-value or any history entry.**  Same
hypotheses as `C01_finite_alpha`: the exact probability that, after some number of draws, the overall
p-value reported by `alpha_mart` or ANY entry of the history it reports is at most `alpha` does not
exceed `alpha`. -/
theorem C01_finite_alpha_any (cfg : Cfg) (n : Nat) (hN : cfg.N = some n) (g : List ℚ → ℚ)
    (estim : List ℚ → Except Err (List XR))
    (hest : ∀ h : List ℚ, h ≠ [] → h.length ≤ n → estim h = .ok ((params g h).map XR.fin))
    (hu : 0 ≤ cfg.u) (hat : 0 ≤ cfg.atol) (hat2 : cfg.atol < 1 / 2) (hrt : 0 ≤ cfg.rtol)
    (alpha : ℚ) (ha0 : 0 < alpha) (ha1 : alpha < 1)
    (pop : List ℚ) (hlen : pop.length = n) (hrange : ∀ a ∈ pop, 0 ≤ a ∧ a ≤ cfg.u)
    (hnull : pop.sum ≤ (n : ℚ) * cfg.t) :
    hitEv (reportedAny cfg estim alpha) pop.length pop [] ≤ alpha :=
  le_trans
    (hitEv_mono_prefix (reportedAny cfg estim alpha) (reportedLast cfg estim alpha) (Inv cfg.u n cfg.t)
      (inv_step cfg.u n cfg.t)
      (fun R h hI => reportedAny_prefix cfg n hN g estim hest hat hrt alpha R h hI)
      pop.length pop [] ⟨by simp [hlen], hrange, by simp, by simpa using hnull⟩ (noProperPrefix_nil _))
    (C01_finite_alpha cfg n hN g estim hest hu hat hat2 hrt alpha ha0 ha1 pop hlen hrange hnull)

/-- **C01, betting martingale, sampling without replacement, overall p-value or any history entry** -/
theorem C01_finite_betting_any (cfg : Cfg) (n : Nat) (hN : cfg.N = some n) (g : List ℚ → ℚ)
    (bet : List ℚ → Except Err (List XR))
    (hest : ∀ h : List ℚ, h ≠ [] → h.length ≤ n → bet h = .ok ((params g h).map XR.fin))
    (hg0 : ∀ h : List ℚ, 0 ≤ g h)
    (hg1 : ∀ h : List ℚ, 0 < muAfter (some n) cfg.t h → muAfter (some n) cfg.t h < cfg.u →
      g h * muAfter (some n) cfg.t h ≤ 1)
    (hu : 0 ≤ cfg.u) (hat : 0 ≤ cfg.atol) (hat2 : cfg.atol < 1 / 2) (hrt : 0 ≤ cfg.rtol)
    (alpha : ℚ) (ha0 : 0 < alpha) (ha1 : alpha < 1)
    (pop : List ℚ) (hlen : pop.length = n) (hrange : ∀ a ∈ pop, 0 ≤ a ∧ a ≤ cfg.u)
    (hnull : pop.sum ≤ (n : ℚ) * cfg.t) :
    hitEv (reportedAnyB cfg bet alpha) pop.length pop [] ≤ alpha :=
  le_trans
    (hitEv_mono_prefix (reportedAnyB cfg bet alpha) (reportedLastB cfg bet alpha) (Inv cfg.u n cfg.t)
      (inv_step cfg.u n cfg.t)
      (fun R h hI hany => any_prefix
        (prefixOK_betting cfg g bet (fun h hne hl => hest h hne (hl n hN)) hg0 (by rw [hN]; exact hg1) hat hrt)
        alpha h (vNull_of_inv cfg n hN R h hI) hany)
      pop.length pop [] ⟨by simp [hlen], hrange, by simp, by simpa using hnull⟩ (noProperPrefix_nil _))
    (C01_finite_betting cfg n hN g bet hest hg0 hg1 hu hat hat2 hrt alpha ha0 ha1 pop hlen hrange hnull)

theorem vNull_of_range (cfg : Cfg) (hN : cfg.N = none) (h : List ℚ) (hr : ∀ b ∈ h, 0 ≤ b ∧ b ≤ cfg.u) :
    VNull cfg h := ⟨hr, fun n hn => by rw [hN] at hn; cases hn⟩

theorem range_step (u : ℚ) (L : List (ℚ × ℚ)) (hL : IsLaw u L) (h : List ℚ)
    (hr : ∀ b ∈ h, 0 ≤ b ∧ b ≤ u) (p : ℚ × ℚ) (hp : p ∈ L) : ∀ b ∈ h ++ [p.1], 0 ≤ b ∧ b ≤ u := by
  intro b hb
  simp only [List.mem_append, List.mem_singleton] at hb
  rcases hb with hb | rfl
  · exact hr b hb
  · exact hL.range p hp

/-- **C01, ALPHA, independent draws, overall p-value or any history entry** -/
theorem C01_iid_alpha_any (cfg : Cfg) (hN : cfg.N = none) (g : List ℚ → ℚ)
    (estim : List ℚ → Except Err (List XR))
    (hest : ∀ h : List ℚ, h ≠ [] → estim h = .ok ((params g h).map XR.fin))
    (ht0 : 0 < cfg.t) (htu : cfg.t < cfg.u)
    (hat : 0 ≤ cfg.atol) (hat2 : cfg.atol < 1 / 2) (hrt : 0 ≤ cfg.rtol)
    (alpha : ℚ) (ha0 : 0 < alpha) (ha1 : alpha < 1)
    (L : List (ℚ × ℚ)) (hL : IsLaw cfg.u L) (hmean : lawMean L ≤ cfg.t) (n : Nat) :
    hitIID L (reportedAny cfg estim alpha) n [] ≤ alpha :=
  le_trans
    (hitIID_mono_prefix L hL.w_nonneg hL.w_sum (reportedAny cfg estim alpha) (reportedLast cfg estim alpha)
      (fun h => ∀ b ∈ h, 0 ≤ b ∧ b ≤ cfg.u) (range_step cfg.u L hL)
      (fun h hr hany => any_prefix (prefixOK_alpha cfg g estim (fun h hne _ => hest h hne) hat hrt) alpha h
        (vNull_of_range cfg hN h hr) hany)
      n [] (by simp) (noProperPrefix_nil _))
    (C01_iid_alpha cfg hN g estim hest ht0 htu hat hat2 hrt alpha ha0 ha1 L hL hmean n)

/-- **C01, betting martingale, independent draws, overall p-value or any history entry** -/
theorem C01_iid_betting_any (cfg : Cfg) (hN : cfg.N = none) (g : List ℚ → ℚ)
    (bet : List ℚ → Except Err (List XR))
    (hest : ∀ h : List ℚ, h ≠ [] → bet h = .ok ((params g h).map XR.fin))
    (hg0 : ∀ h : List ℚ, 0 ≤ g h) (hg1 : ∀ h : List ℚ, g h * cfg.t ≤ 1)
    (ht0 : 0 < cfg.t) (htu : cfg.t < cfg.u)
    (hat : 0 ≤ cfg.atol) (hat2 : cfg.atol < 1 / 2) (hrt : 0 ≤ cfg.rtol)
    (alpha : ℚ) (ha0 : 0 < alpha) (ha1 : alpha < 1)
    (L : List (ℚ × ℚ)) (hL : IsLaw cfg.u L) (hmean : lawMean L ≤ cfg.t) (n : Nat) :
    hitIID L (reportedAnyB cfg bet alpha) n [] ≤ alpha :=
  le_trans
    (hitIID_mono_prefix L hL.w_nonneg hL.w_sum (reportedAnyB cfg bet alpha) (reportedLastB cfg bet alpha)
      (fun h => ∀ b ∈ h, 0 ≤ b ∧ b ≤ cfg.u) (range_step cfg.u L hL)
      (fun h hr hany => any_prefix
        (prefixOK_betting cfg g bet (fun h hne _ => hest h hne) hg0
          (by intro h' _ _; rw [hN]; exact hg1 h') hat hrt) alpha h
        (vNull_of_range cfg hN h hr) hany)
      n [] (by simp) (noProperPrefix_nil _))
    (C01_iid_betting cfg hN g bet hest hg0 hg1 ht0 htu hat hat2 hrt alpha ha0 ha1 L hL hmean n)

/-! ### shipped instances and non-vacuity for ALPHA / betting -/

/-- ALPHA with the default (fixed-alternative) estimator, without replacement: overall p-value or any
history entry -/
theorem C01_finite_alpha_fixed_any (cfg : Cfg) (n : Nat) (hN : cfg.N = some n)
    (hu : 0 ≤ cfg.u) (hat : 0 ≤ cfg.atol) (hat2 : cfg.atol < 1 / 2) (hrt : 0 ≤ cfg.rtol)
    (alpha : ℚ) (ha0 : 0 < alpha) (ha1 : alpha < 1)
    (pop : List ℚ) (hlen : pop.length = n) (hrange : ∀ a ∈ pop, 0 ≤ a ∧ a ≤ cfg.u)
    (hnull : pop.sum ≤ (n : ℚ) * cfg.t) :
    hitEv (reportedAny cfg (fixedAlternativeMean cfg) alpha) pop.length pop [] ≤ alpha :=
  C01_finite_alpha_any cfg n hN (gFixedAlt cfg) (fixedAlternativeMean cfg)
    (fun h hne hl => fixedAlt_predictable cfg n hN h hne hl) hu hat hat2 hrt alpha ha0 ha1 pop hlen hrange hnull

/-- the betting martingale with a fixed bet `0 ≤ lam ≤ 1/u`, without replacement: overall p-value or any
history entry -/
theorem C01_finite_betting_fixed_any (cfg : Cfg) (n : Nat) (hN : cfg.N = some n) (lam : ℚ)
    (hlam : cfg.kw.lam = some lam) (hl0 : 0 ≤ lam) (hl1 : lam * cfg.u ≤ 1)
    (hu : 0 ≤ cfg.u) (hat : 0 ≤ cfg.atol) (hat2 : cfg.atol < 1 / 2) (hrt : 0 ≤ cfg.rtol)
    (alpha : ℚ) (ha0 : 0 < alpha) (ha1 : alpha < 1)
    (pop : List ℚ) (hlen : pop.length = n) (hrange : ∀ a ∈ pop, 0 ≤ a ∧ a ≤ cfg.u)
    (hnull : pop.sum ≤ (n : ℚ) * cfg.t) :
    hitEv (reportedAnyB cfg (fixedBet cfg) alpha) pop.length pop [] ≤ alpha := by
  refine C01_finite_betting_any cfg n hN (fun _ => lam) (fixedBet cfg) ?_ (fun _ => hl0) ?_ hu hat hat2 hrt
    alpha ha0 ha1 pop hlen hrange hnull
  · intro h _ _
    unfold fixedBet
    rw [hlam]
    simp only
    congr 1
    exact map_const_params lam h h rfl
  · intro h hm0 hmu
    nlinarith

-- non-vacuity: N = 4, u = 1, t = 1/2, eta = 3/4, random order, the null population 1, 0, 1/2, 0
example : hitEv (reportedAny { N := some 4, u := 1, t := 1/2, randomOrder := true, kw := { eta := some (3/4) } }
    (fixedAlternativeMean { N := some 4, u := 1, t := 1/2, randomOrder := true, kw := { eta := some (3/4) } })
    (1/20)) 4 [1, 0, 1/2, 0] [] ≤ 1/20 :=
  C01_finite_alpha_fixed_any _ 4 rfl (by norm_num) (by norm_num [eps]) (by norm_num [eps]) (by norm_num)
    (1/20) (by norm_num) (by norm_num) [1, 0, 1/2, 0] rfl
    (by intro a ha; simp at ha; rcases ha with rfl | rfl | rfl | rfl <;> norm_num) (by norm_num)

example : hitEv (reportedAnyB { N := some 4, u := 1, t := 1/2, randomOrder := false, kw := { lam := some (3/4) } }
    (fixedBet { N := some 4, u := 1, t := 1/2, randomOrder := false, kw := { lam := some (3/4) } })
    (1/20)) 4 [1, 0, 1/2, 0] [] ≤ 1/20 :=
  C01_finite_betting_fixed_any _ 4 rfl (3/4) rfl (by norm_num) (by norm_num) (by norm_num) (by norm_num [eps])
    (by norm_num [eps]) (by norm_num) (1/20) (by norm_num) (by norm_num) [1, 0, 1/2, 0] rfl
    (by intro a ha; simp at ha; rcases ha with rfl | rfl | rfl | rfl <;> norm_num) (by norm_num)

/-! ### the Kaplan tests and the SPRT: `PrefixOK` from C11 (well-formed) and C05 (truncation) -/

theorem prefixOK_of_wf (V : List ℚ → Prop) (T : List ℚ → Except Err (XR × List XR)) (ro : Bool)
    (nil : ∀ r, T [] ≠ .ok r)
    (pre : ∀ h k, V h → 0 < k → k ≤ h.length → V (h.take k))
    (wf : ∀ h, V h → h ≠ [] → ∃ p hist, T h = .ok (p, hist) ∧ NM.WellFormed h.length ro p hist)
    (tr : ∀ x y p0 p1 h0 h1, T x = .ok (p0, h0) → T (x ++ y) = .ok (p1, h1) → h0 = h1.take x.length) :
    PrefixOK V T where
  nil := nil
  pre := pre
  ok := by
    intro h hV hne
    obtain ⟨p, hist, he, hl, hP, _, h4, h5⟩ := wf h hV hne
    refine ⟨(p, hist), he, hl, ?_⟩
    intro alpha hle
    have hhne : hist ≠ [] := by
      intro h0; rw [h0] at hl
      exact hne (List.length_eq_zero_iff.1 hl.symm)
    cases ro with
    | true =>
      have : p = XR.minList hist := h4 rfl
      exact ⟨p, by rw [this]; exact (minList_is_smallest hhne hP).2.1, hle⟩
    | false => exact ⟨p, List.mem_of_getLast? (h5 rfl), hle⟩
  trunc := by
    intro h k r0 r1 _ _ hk H0 H1
    rw [← List.take_append_drop k h] at H1
    have := tr (h.take k) (h.drop k) r0.1 r1.1 r0.2 r1.2 H0 H1
    rwa [List.length_take, min_eq_left hk] at this

/-- overall p-value of `kaplan_kolmogorov` on the draws `h`, or some entry of its history, `≤ alpha` -/
def reportedAnyKK (cfg : Cfg) (alpha : ℚ) (h : List ℚ) : Bool := anyLe alpha (kaplanKolmogorov cfg h)
def reportedAnySprt (cfg : Cfg) (alpha : ℚ) (h : List ℚ) : Bool := anyLe alpha (waldSprt cfg h)
def reportedAnyKW (cfg : Cfg) (alpha : ℚ) (h : List ℚ) : Bool := anyLe alpha (kaplanWald cfg h)
def reportedAnyKM (cfg : Cfg) (alpha : ℚ) (h : List ℚ) : Bool := anyLe alpha (kaplanMarkov cfg h)

theorem nonneg_take {h : List ℚ} (k : Nat) (hx : ∀ a ∈ h, 0 ≤ a) : ∀ a ∈ h.take k, 0 ≤ a :=
  fun a ha => hx a (List.mem_of_mem_take ha)

theorem prefixOK_kk (cfg : Cfg) (n : Nat) (hN : cfg.N = some n) (hg : 0 ≤ cfg.kw.g.getD 0) :
    PrefixOK (fun h => (∀ a ∈ h, 0 ≤ a) ∧ h.length ≤ n) (kaplanKolmogorov cfg) :=
  prefixOK_of_wf _ _ cfg.randomOrder
    (by
      intro r hr
      by_cases h0 : n = 0
      · subst h0; rw [kk_err_N0 cfg [] hN] at hr; cases hr
      · rw [kk_err_empty cfg n hN h0] at hr; cases hr)
    (fun h k hV _ _ => ⟨nonneg_take k hV.1, by rw [List.length_take]; omega⟩)
    (fun h hV hne => kk_wf cfg n h hN hne hV.1 hV.2 hg)
    (hist_truncate_kk cfg)

/-- **C01, Kaplan-Kolmogorov, without replacement, overall p-value or any history entry** -/
theorem C01_finite_kk_any (cfg : Cfg) (n : Nat) (hN : cfg.N = some n) (hg : 0 ≤ cfg.kw.g.getD 0)
    (alpha : ℚ) (ha0 : 0 < alpha) (ha1 : alpha < 1)
    (pop : List ℚ) (hlen : pop.length = n) (hrange : ∀ a ∈ pop, 0 ≤ a)
    (hnull : pop.sum ≤ (n : ℚ) * cfg.t) :
    hitEv (reportedAnyKK cfg alpha) pop.length pop [] ≤ alpha :=
  le_trans
    (hitEv_mono_prefix (reportedAnyKK cfg alpha) (reportedLastKK cfg alpha) (InvNN n cfg.t)
      (invNN_step n cfg.t)
      (fun R h hI hany => any_prefix (prefixOK_kk cfg n hN hg) alpha h
        ⟨hI.2.2.1, by have := hI.1; omega⟩ hany)
      pop.length pop [] ⟨by simp [hlen], hrange, by simp, by simpa using hnull⟩ (noProperPrefix_nil _))
    (C01_finite_kk cfg n hN hg alpha ha0 ha1 pop hlen hrange hnull)

theorem prefixOK_sprt (cfg : Cfg) (hro : cfg.N ≠ none → cfg.randomOrder = true)
    (ht0 : 0 < cfg.t) (htu : cfg.t < cfg.u) (hte : cfg.t ≤ C11.sprtEta cfg) (heu : C11.sprtEta cfg ≤ cfg.u) :
    PrefixOK (fun h => (∀ a ∈ h, 0 ≤ a ∧ a ≤ cfg.u) ∧ FitsN cfg.N h.length) (waldSprt cfg) :=
  prefixOK_of_wf _ _ cfg.randomOrder
    (by intro r hr; rw [sprt_err_empty cfg hro] at hr; cases hr)
    (fun h k hV _ _ => ⟨fun a ha => hV.1 a (List.mem_of_mem_take ha),
      fun n hn => by have := hV.2 n hn; rw [List.length_take]; omega⟩)
    (fun h hV hne => sprt_wf cfg h
      { ne := hne, range := hV.1, fits := hV.2, t_pos := ht0, t_lt_u := htu, t_le_eta := hte,
        eta_le_u := heu, ro := hro })
    (hist_truncate_sprt cfg)

/-- **C01, SPRT, without replacement, overall p-value or any history entry** -/
theorem C01_finite_sprt_any (cfg : Cfg) (n : Nat) (hN : cfg.N = some n) (hro : cfg.randomOrder = true)
    (ht0 : 0 < cfg.t) (htu : cfg.t < cfg.u) (hte : cfg.t ≤ C11.sprtEta cfg) (heu : C11.sprtEta cfg ≤ cfg.u)
    (alpha : ℚ) (ha0 : 0 < alpha) (ha1 : alpha < 1)
    (pop : List ℚ) (hlen : pop.length = n) (hrange : ∀ a ∈ pop, 0 ≤ a ∧ a ≤ cfg.u)
    (hnull : pop.sum ≤ (n : ℚ) * cfg.t) :
    hitEv (reportedAnySprt cfg alpha) pop.length pop [] ≤ alpha :=
  le_trans
    (hitEv_mono_prefix (reportedAnySprt cfg alpha) (reportedLastSprt cfg alpha) (Inv cfg.u n cfg.t)
      (inv_step cfg.u n cfg.t)
      (fun R h hI hany => any_prefix (prefixOK_sprt cfg (fun _ => hro) ht0 htu hte heu) alpha h
        ⟨hI.2.2.1, fun k hk => by rw [hN] at hk; cases hk; have := hI.1; omega⟩ hany)
      pop.length pop [] ⟨by simp [hlen], hrange, by simp, by simpa using hnull⟩ (noProperPrefix_nil _))
    (C01_finite_sprt cfg n hN hro ht0 htu hte heu alpha ha0 ha1 pop hlen hrange hnull)

/-- **C01, SPRT, independent draws, overall p-value or any history entry** -/
theorem C01_iid_sprt_any (cfg : Cfg) (hN : cfg.N = none)
    (ht0 : 0 < cfg.t) (htu : cfg.t < cfg.u) (hte : cfg.t ≤ C11.sprtEta cfg) (heu : C11.sprtEta cfg ≤ cfg.u)
    (alpha : ℚ) (ha0 : 0 < alpha) (ha1 : alpha < 1)
    (L : List (ℚ × ℚ)) (hL : IsLaw cfg.u L) (hmean : lawMean L ≤ cfg.t) (n : Nat) :
    hitIID L (reportedAnySprt cfg alpha) n [] ≤ alpha :=
  le_trans
    (hitIID_mono_prefix L hL.w_nonneg hL.w_sum (reportedAnySprt cfg alpha) (reportedLastSprt cfg alpha)
      (fun h => ∀ b ∈ h, 0 ≤ b ∧ b ≤ cfg.u) (range_step cfg.u L hL)
      (fun h hr hany => any_prefix (prefixOK_sprt cfg (fun hne => absurd hN hne) ht0 htu hte heu) alpha h
        ⟨hr, fun k hk => by rw [hN] at hk; cases hk⟩ hany)
      n [] (by simp) (noProperPrefix_nil _))
    (C01_iid_sprt cfg hN ht0 htu hte heu alpha ha0 ha1 L hL hmean n)

theorem prefixOK_kw (cfg : Cfg) (ht : 0 < cfg.t) (hg0 : 0 ≤ cfg.kw.g.getD 0) (hg1 : cfg.kw.g.getD 0 ≤ 1) :
    PrefixOK (fun h => ∀ a ∈ h, 0 ≤ a) (kaplanWald cfg) :=
  prefixOK_of_wf _ _ cfg.randomOrder
    (by intro r hr; rw [kw_err_empty cfg hg0 hg1] at hr; cases hr)
    (fun h k hV _ _ => nonneg_take k hV)
    (fun h hV hne => kw_wf cfg h hne hV ht hg0 hg1)
    (hist_truncate_kw cfg)

/-- **C01, Kaplan-Wald, independent draws, overall p-value or any history entry** -/
theorem C01_iid_kw_any (cfg : Cfg) (ht : 0 < cfg.t) (hg0 : 0 ≤ cfg.kw.g.getD 0) (hg1 : cfg.kw.g.getD 0 ≤ 1)
    (alpha : ℚ) (ha0 : 0 < alpha) (ha1 : alpha < 1)
    {u : ℚ} (L : List (ℚ × ℚ)) (hL : IsLaw u L) (hmean : lawMean L ≤ cfg.t) (n : Nat) :
    hitIID L (reportedAnyKW cfg alpha) n [] ≤ alpha :=
  le_trans
    (hitIID_mono_prefix L hL.w_nonneg hL.w_sum (reportedAnyKW cfg alpha) (reportedLastKW cfg alpha)
      (fun h => ∀ b ∈ h, 0 ≤ b ∧ b ≤ u) (range_step u L hL)
      (fun h hr hany => any_prefix (prefixOK_kw cfg ht hg0 hg1) alpha h (fun a ha => (hr a ha).1) hany)
      n [] (by simp) (noProperPrefix_nil _))
    (C01_iid_kw cfg ht hg0 hg1 alpha ha0 ha1 L hL hmean n)

theorem prefixOK_km (cfg : Cfg) (hg : 0 ≤ cfg.kw.g.getD 0) (htg : 0 < cfg.t + cfg.kw.g.getD 0) :
    PrefixOK (fun h => ∀ a ∈ h, 0 ≤ a) (kaplanMarkov cfg) :=
  prefixOK_of_wf _ _ cfg.randomOrder
    (by intro r hr; rw [km_err_empty cfg] at hr; cases hr)
    (fun h k hV _ _ => nonneg_take k hV)
    (fun h hV hne => km_wf cfg h hne hV hg htg)
    (hist_truncate_km cfg)

/-- **C01, Kaplan-Markov, independent draws, overall p-value or any history entry** -/
theorem C01_iid_km_any (cfg : Cfg) (hg : 0 ≤ cfg.kw.g.getD 0) (htg : 0 < cfg.t + cfg.kw.g.getD 0)
    (alpha : ℚ) (ha0 : 0 < alpha) (ha1 : alpha < 1)
    {u : ℚ} (L : List (ℚ × ℚ)) (hL : IsLaw u L) (hmean : lawMean L ≤ cfg.t) (n : Nat) :
    hitIID L (reportedAnyKM cfg alpha) n [] ≤ alpha :=
  le_trans
    (hitIID_mono_prefix L hL.w_nonneg hL.w_sum (reportedAnyKM cfg alpha) (reportedLastKM cfg alpha)
      (fun h => ∀ b ∈ h, 0 ≤ b ∧ b ≤ u) (range_step u L hL)
      (fun h hr hany => any_prefix (prefixOK_km cfg hg htg) alpha h (fun a ha => (hr a ha).1) hany)
      n [] (by simp) (noProperPrefix_nil _))
    (C01_iid_km cfg hg htg alpha ha0 ha1 L hL hmean n)

-- non-vacuity (same inputs as in C01Kaplan.lean)
example : hitEv (reportedAnyKK { N := some 4, u := 1, t := 1/2, randomOrder := true, kw := { g := some (1/10) } }
    (1/20)) 4 [1, 0, 1/2, 0] [] ≤ 1/20 :=
  C01_finite_kk_any _ 4 rfl (by simp) (1/20) (by norm_num) (by norm_num) [1, 0, 1/2, 0] rfl
    (by intro a ha; simp at ha; rcases ha with rfl | rfl | rfl | rfl <;> norm_num) (by norm_num)

example : hitEv (reportedAnySprt { N := some 4, u := 1, t := 1/2, randomOrder := true, kw := { eta := some (3/4) } }
    (1/20)) 4 [1, 0, 1/2, 0] [] ≤ 1/20 :=
  C01_finite_sprt_any _ 4 rfl rfl (by norm_num) (by norm_num) (by simp [C11.sprtEta]; norm_num)
    (by simp [C11.sprtEta]; norm_num) (1/20) (by norm_num) (by norm_num) [1, 0, 1/2, 0] rfl
    (by intro a ha; simp at ha; rcases ha with rfl | rfl | rfl | rfl <;> norm_num) (by norm_num)

example : hitIID [(0, 1/2), (1/2, 1/4), (1, 1/4)]
    (reportedAnyKM { N := none, u := 1, t := 1/2, randomOrder := true, kw := {} } (1/20)) 5 [] ≤ 1/20 :=
  C01_iid_km_any _ (by simp) (by simp) (1/20) (by norm_num) (by norm_num) (u := 1) _
    ⟨by intro p hp; simp at hp; rcases hp with rfl | rfl | rfl <;> norm_num,
     by norm_num,
     by intro p hp; simp at hp; rcases hp with rfl | rfl | rfl <;> norm_num⟩
    (by norm_num [lawMean, expL]) 5

end Shangrla.C01
