/-
  C20 — the pruned elimination tree shows an unpruned leaf iff the assertions are insufficient;
  every pruned node is tagged with exactly the assertions that contradict it.

  Theorems are about `Shangrla.ElimTree.build`, the literal model of
  `IRVVisualisationUtils.buildRemainingTreeAsLists` that the driver executes.
-/
import Shangrla.Model.ElimTree

namespace Shangrla.C20
open Shangrla.ElimTree

variable {α : Type} [DecidableEq α]

/-! ### Specification: elimination orders and contradiction

An elimination order `π` lists the candidates, first eliminated first; its last element is the winner.
* A not-eliminated-before triple `(l, w, _)` ("`w` is never eliminated before `l`") contradicts `π`
  iff `w` occurs before `l` in `π`.
* An IRV triple `(x, E, _)` ("`x` is not eliminated next when exactly `E` are gone") contradicts `π`
  iff the candidates before `x` in `π` are exactly `E`.
-/

def nebContra (π : List α) (t : α × α × Bool) : Prop :=
  ∃ pre post, π = pre ++ t.1 :: post ∧ t.2.1 ∈ pre

def irvContra (π : List α) (t : α × List α × Bool) : Prop :=
  ∃ pre post, π = pre ++ t.1 :: post ∧ (∀ y, y ∈ t.2.1 ↔ y ∈ pre)

def Contra (wo : List (α × α × Bool)) (irv : List (α × List α × Bool)) (π : List α) : Prop :=
  (∃ t ∈ wo, nebContra π t) ∨ (∃ t ∈ irv, irvContra π t)

/-! ### helper lemmas -/

theorem setEq_iff (a b : List α) : setEq a b = true ↔ ∀ y, y ∈ a ↔ y ∈ b := by
  unfold setEq
  simp only [Bool.and_eq_true, List.all_eq_true, List.contains_iff_mem]
  constructor
  · rintro ⟨h1, h2⟩ y; exact ⟨h1 y, h2 y⟩
  · intro h; exact ⟨fun y hy => (h y).1 hy, fun y hy => (h y).2 hy⟩

theorem pruned_iff (wo : List (α × α × Bool)) (irv : List (α × List α × Bool)) (c : α) (S : List α) :
    pruned wo irv c S = true ↔
      (∃ t ∈ wo, c = t.1 ∧ t.2.1 ∈ S) ∨ (∃ t ∈ irv, c = t.1 ∧ ∀ y, y ∈ t.2.1 ↔ y ∈ S) := by
  unfold pruned nebTags irvTags
  simp only [Bool.or_eq_true, Bool.not_eq_true', List.isEmpty_eq_false_iff_exists_mem,
    List.mem_map, List.mem_filter, Bool.and_eq_true, decide_eq_true_eq, List.contains_iff_mem,
    setEq_iff]
  constructor
  · rintro (⟨_, t, ⟨ht, h1, h2⟩, _⟩ | ⟨_, t, ⟨ht, h1, h2⟩, _⟩)
    · exact Or.inl ⟨t, ht, h1, h2⟩
    · exact Or.inr ⟨t, ht, h1, h2⟩
  · rintro (⟨t, ht, h1, h2⟩ | ⟨t, ht, h1, h2⟩)
    · exact Or.inl ⟨_, t, ⟨ht, h1, h2⟩, rfl⟩
    · exact Or.inr ⟨_, t, ⟨ht, h1, h2⟩, rfl⟩

theorem pruned_congr (wo : List (α × α × Bool)) (irv : List (α × List α × Bool)) (c : α)
    {S T : List α} (h : ∀ y, y ∈ S ↔ y ∈ T) : pruned wo irv c S = pruned wo irv c T := by
  rw [Bool.eq_iff_iff, pruned_iff, pruned_iff]
  simp only [h]

/-- every position of `σ ++ [c]` passes the prune test with the set of candidates before it -/
def Good (wo : List (α × α × Bool)) (irv : List (α × List α × Bool)) (σ : List α) (c : α) : Prop :=
  ∀ pre x post, σ ++ [c] = pre ++ x :: post → pruned wo irv x pre = false

theorem good_iff_not_contra (wo : List (α × α × Bool)) (irv : List (α × List α × Bool))
    (σ : List α) (c : α) : Good wo irv σ c ↔ ¬ Contra wo irv (σ ++ [c]) := by
  unfold Good Contra nebContra irvContra
  constructor
  · intro h hc
    rcases hc with ⟨t, ht, pre, post, he, hm⟩ | ⟨t, ht, pre, post, he, hm⟩
    · have := h pre t.1 post he
      rw [Bool.eq_false_iff] at this
      exact this ((pruned_iff ..).2 (Or.inl ⟨t, ht, rfl, hm⟩))
    · have := h pre t.1 post he
      rw [Bool.eq_false_iff] at this
      exact this ((pruned_iff ..).2 (Or.inr ⟨t, ht, rfl, hm⟩))
  · intro h pre x post he
    rw [Bool.eq_false_iff]
    intro hp
    apply h
    rcases (pruned_iff ..).1 hp with ⟨t, ht, h1, h2⟩ | ⟨t, ht, h1, h2⟩
    · exact Or.inl ⟨t, ht, pre, post, h1 ▸ he, h2⟩
    · exact Or.inr ⟨t, ht, pre, post, h1 ▸ he, h2⟩

omit [DecidableEq α] in
theorem hasUnprunedL_iff (l : List (Tree α)) : hasUnprunedL l = true ↔ ∃ t ∈ l, hasUnpruned t = true := by
  induction l with
  | nil => simp [hasUnprunedL]
  | cons a l ih => simp [hasUnprunedL, ih]

theorem build_pruned (wo : List (α × α × Bool)) (irv : List (α × List α × Bool)) (fuel : Nat) (c : α)
    (S : List α) (h : pruned wo irv c S = true) :
    build wo irv fuel c S = Tree.leaf c (nebTags wo c S) (irvTags irv c S) := by
  unfold pruned at h
  unfold build
  simp [h]

theorem build_leaf (wo : List (α × α × Bool)) (irv : List (α × List α × Bool)) (fuel : Nat) (c : α)
    (h : pruned wo irv c [] = false) : build wo irv fuel c [] = Tree.leaf c [] [] := by
  unfold pruned at h
  unfold build
  simp [h]

theorem build_node (wo : List (α × α × Bool)) (irv : List (α × List α × Bool)) (fuel : Nat) (c : α)
    (S : List α) (h : pruned wo irv c S = false) (hS : S ≠ []) :
    build wo irv (fuel + 1) c S
      = Tree.node c (S.map (fun c2 => build wo irv fuel c2 (S.erase c2))) := by
  unfold pruned at h
  rw [build]
  simp [h, hS]

theorem pruned_hasUnpruned (wo : List (α × α × Bool)) (irv : List (α × List α × Bool)) (c : α)
    (S : List α) (h : pruned wo irv c S = true) :
    hasUnpruned (Tree.leaf c (nebTags wo c S) (irvTags irv c S)) = false := by
  unfold pruned at h
  unfold hasUnpruned
  cases h1 : (nebTags wo c S).isEmpty <;> cases h2 : (irvTags irv c S).isEmpty <;> simp_all

theorem good_last (wo : List (α × α × Bool)) (irv : List (α × List α × Bool)) (σ : List α) (c : α)
    (h : Good wo irv σ c) : pruned wo irv c σ = false :=
  h σ c [] rfl

theorem build_unpruned_iff (wo : List (α × α × Bool)) (irv : List (α × List α × Bool)) :
    ∀ (fuel : Nat) (c : α) (S : List α), S.Nodup → S.length ≤ fuel →
      (hasUnpruned (build wo irv fuel c S) = true ↔ ∃ σ, σ.Perm S ∧ Good wo irv σ c) := by
  intro fuel
  induction fuel with
  | zero =>
    intro c S _ hlen
    have hS : S = [] := List.length_eq_zero_iff.mp (Nat.le_zero.mp hlen)
    subst hS
    cases hp : pruned wo irv c []
    · rw [build_leaf wo irv 0 c hp]
      simp only [hasUnpruned, List.isEmpty_nil, Bool.and_self, true_iff]
      refine ⟨[], List.Perm.refl _, ?_⟩
      intro pre x post he
      have : pre = [] ∧ x = c := by
        cases pre with
        | nil => simp at he; exact ⟨rfl, he.1.symm⟩
        | cons a l => simp at he
      rw [this.1, this.2]; exact hp
    · rw [build_pruned wo irv 0 c [] hp, pruned_hasUnpruned wo irv c [] hp]
      simp only [Bool.false_eq_true, false_iff, not_exists, not_and]
      intro σ hσ hg
      have := good_last wo irv σ c hg
      rw [List.Perm.eq_nil hσ] at this
      rw [this] at hp; cases hp
  | succ fuel ih =>
    intro c S hnd hlen
    cases hp : pruned wo irv c S
    · by_cases hS : S = []
      · subst hS
        rw [build_leaf wo irv _ c hp]
        simp only [hasUnpruned, List.isEmpty_nil, Bool.and_self, true_iff]
        refine ⟨[], List.Perm.refl _, ?_⟩
        intro pre x post he
        have : pre = [] ∧ x = c := by
          cases pre with
          | nil => simp at he; exact ⟨rfl, he.1.symm⟩
          | cons a l => simp at he
        rw [this.1, this.2]; exact hp
      · rw [build_node wo irv fuel c S hp hS]
        simp only [hasUnpruned]
        rw [hasUnprunedL_iff]
        constructor
        · rintro ⟨t, ht, hu⟩
          rw [List.mem_map] at ht
          obtain ⟨c2, hc2, rfl⟩ := ht
          have hnd' : (S.erase c2).Nodup := hnd.erase c2
          have hlen' : (S.erase c2).length ≤ fuel := by
            rw [List.length_erase_of_mem hc2]; omega
          obtain ⟨σ', hσ', hg'⟩ := (ih c2 (S.erase c2) hnd' hlen').1 hu
          refine ⟨σ' ++ [c2], ?_, ?_⟩
          · exact (List.perm_append_comm.trans (List.Perm.cons c2 hσ')).trans (List.perm_cons_erase hc2).symm
          · intro pre x post he
            cases post with
            | nil =>
              have h1 : (σ' ++ [c2]) ++ [c] = pre ++ [x] := he
              have := List.append_inj' h1 rfl
              obtain ⟨hpre, hx⟩ := this
              have hx' : c = x := by simpa using hx
              rw [← hx', ← hpre]
              rw [pruned_congr wo irv c (S := σ' ++ [c2]) (T := S)]
              · exact hp
              · intro y
                have hperm : (σ' ++ [c2]).Perm S :=
                  (List.perm_append_comm.trans (List.Perm.cons c2 hσ')).trans (List.perm_cons_erase hc2).symm
                exact hperm.mem_iff
            | cons z post' =>
              -- x lies in σ' ++ [c2]
              have h1 : (σ' ++ [c2]) ++ [c] = (pre ++ x :: (z :: post').dropLast) ++ [(z :: post').getLast (by simp)] := by
                rw [he]
                simp only [List.append_assoc, List.cons_append]
                congr 2
                exact (List.dropLast_concat_getLast (by simp)).symm
              have h2 := (List.append_inj' h1 rfl).1
              exact hg' pre x _ h2
        · rintro ⟨σ, hσ, hg⟩
          have hσne : σ ≠ [] := fun h => hS (by rw [h] at hσ; exact (List.Perm.nil_eq hσ).symm)
          obtain ⟨σ', c2, rfl⟩ : ∃ σ' c2, σ = σ' ++ [c2] :=
            ⟨σ.dropLast, σ.getLast hσne, (List.dropLast_concat_getLast hσne).symm⟩
          have hc2 : c2 ∈ S := hσ.mem_iff.1 (by simp)
          refine ⟨build wo irv fuel c2 (S.erase c2), List.mem_map.2 ⟨c2, hc2, rfl⟩, ?_⟩
          have hnd' : (S.erase c2).Nodup := hnd.erase c2
          have hlen' : (S.erase c2).length ≤ fuel := by
            rw [List.length_erase_of_mem hc2]; omega
          rw [ih c2 (S.erase c2) hnd' hlen']
          refine ⟨σ', ?_, ?_⟩
          · have h1 : (c2 :: σ').Perm S := List.perm_append_comm.symm.trans hσ |>.symm |>.symm
            have h2 : (c2 :: σ').Perm (c2 :: S.erase c2) := h1.trans (List.perm_cons_erase hc2)
            exact (List.Perm.cons_inv h2)
          · intro pre x post he
            apply hg pre x (post ++ [c])
            rw [List.append_assoc σ' [c2] [c]]
            have : σ' ++ ([c2] ++ [c]) = (σ' ++ [c2]) ++ [c] := by simp
            rw [this, he]; simp
    · rw [build_pruned wo irv _ c S hp, pruned_hasUnpruned wo irv c S hp]
      simp only [Bool.false_eq_true, false_iff, not_exists, not_and]
      intro σ hσ hg
      have := good_last wo irv σ c hg
      rw [pruned_congr wo irv c (S := σ) (T := S) (fun y => hσ.mem_iff)] at this
      rw [this] at hp; cases hp

/-- **C20, first half.** The tree built for alternative winner `c` over the other candidates `S`
contains an unpruned leaf exactly when some complete elimination order ending in `c` is contradicted
by none of the assertions. -/
theorem unpruned_iff (wo : List (α × α × Bool)) (irv : List (α × List α × Bool)) (c : α) (S : List α)
    (hS : S.Nodup) :
    hasUnpruned (build wo irv S.length c S) = true ↔
      ∃ σ, σ.Perm S ∧ ¬ Contra wo irv (σ ++ [c]) := by
  rw [build_unpruned_iff wo irv S.length c S hS (Nat.le_refl _)]
  constructor
  · rintro ⟨σ, h1, h2⟩; exact ⟨σ, h1, (good_iff_not_contra ..).1 h2⟩
  · rintro ⟨σ, h1, h2⟩; exact ⟨σ, h1, (good_iff_not_contra ..).2 h2⟩

/-! ### Tags -/

/-- **C20, second half (NEB tags).** Node `(c, S)` (candidate `c`, earlier-eliminated set `S`) is
tagged with exactly the not-eliminated-before triples that contradict every order through it —
those `(c, w, ·)` with `w ∈ S` — each reported by the index of its first occurrence. -/
theorem tags_exact_neb (wo : List (α × α × Bool)) (c : α) (S : List α) (i : Nat) (p : Bool) :
    (i, p) ∈ nebTags wo c S ↔ ∃ t ∈ wo, t.1 = c ∧ t.2.1 ∈ S ∧ i = wo.idxOf t ∧ p = t.2.2 := by
  unfold nebTags
  simp only [List.mem_map, List.mem_filter, Bool.and_eq_true, decide_eq_true_eq,
    List.contains_iff_mem, Prod.mk.injEq]
  constructor
  · rintro ⟨t, ⟨ht, h1, h2⟩, h3, h4⟩; exact ⟨t, ht, h1.symm, h2, h3.symm, h4.symm⟩
  · rintro ⟨t, ht, h1, h2, h3, h4⟩; exact ⟨t, ⟨ht, h1.symm, h2⟩, h3.symm, h4.symm⟩

/-- **C20, second half (IRV tags).** Node `(c, S)` is tagged with exactly the IRV triples `(c, E, ·)`
whose eliminated set `E` equals `S` as a set, each reported by the index of its first `==` occurrence. -/
theorem tags_exact_irv (irv : List (α × List α × Bool)) (c : α) (S : List α) (i : Nat) (p : Bool) :
    (i, p) ∈ irvTags irv c S ↔
      ∃ t ∈ irv, t.1 = c ∧ (∀ y, y ∈ t.2.1 ↔ y ∈ S) ∧ i = irv.findIdx (fun t' => irvEq t' t) ∧ p = t.2.2 := by
  unfold irvTags
  simp only [List.mem_map, List.mem_filter, Bool.and_eq_true, decide_eq_true_eq, setEq_iff,
    Prod.mk.injEq]
  constructor
  · rintro ⟨t, ⟨ht, h1, h2⟩, h3, h4⟩; exact ⟨t, ht, h1.symm, h2, h3.symm, h4.symm⟩
  · rintro ⟨t, ht, h1, h2, h3, h4⟩; exact ⟨t, ⟨ht, h1.symm, h2⟩, h3.symm, h4.symm⟩

def Tree.root : Tree α → α
  | Tree.leaf c _ _ => c
  | Tree.node c _ => c

mutual
/-- the leaves of a tree, each with its candidate, the set of candidates eliminated earlier
(the tree's set minus the candidates on the path from the root), and its two tag lists -/
def leavesCtx : Tree α → List α → List (α × List α × List (Nat × Bool) × List (Nat × Bool))
  | Tree.leaf c nt it, S => [(c, S, nt, it)]
  | Tree.node _ kids, S => leavesCtxL kids S
def leavesCtxL : List (Tree α) → List α → List (α × List α × List (Nat × Bool) × List (Nat × Bool))
  | [], _ => []
  | t :: ts, S => leavesCtx t (S.erase (Tree.root t)) ++ leavesCtxL ts S
end

theorem root_build (wo : List (α × α × Bool)) (irv : List (α × List α × Bool)) (fuel : Nat) (c : α)
    (S : List α) : Tree.root (build wo irv fuel c S) = c := by
  unfold build
  simp only
  split
  · rfl
  · split
    · rfl
    · cases fuel <;> rfl

theorem leavesCtxL_map (f : α → List α → Tree α) (hf : ∀ c S, Tree.root (f c S) = c)
    (P : α × List α × List (Nat × Bool) × List (Nat × Bool) → Prop) (S : List α) :
    ∀ L : List α, (∀ c2 ∈ L, ∀ e ∈ leavesCtx (f c2 (S.erase c2)) (S.erase c2), P e) →
      ∀ e ∈ leavesCtxL (L.map (fun c2 => f c2 (S.erase c2))) S, P e := by
  intro L
  induction L with
  | nil => intro _ e he; simp [leavesCtxL] at he
  | cons a L ih =>
    intro h e he
    simp only [List.map_cons, leavesCtxL, List.mem_append, hf] at he
    rcases he with he | he
    · exact h a (by simp) e he
    · exact ih (fun c2 hc2 => h c2 (by simp [hc2])) e he

/-- **C20, second half (every leaf).** Every leaf of the built tree — pruned or not — carries exactly
the tag lists of its own position `(candidate, earlier-eliminated set)`. -/
theorem leaves_tagged (wo : List (α × α × Bool)) (irv : List (α × List α × Bool)) :
    ∀ (fuel : Nat) (c : α) (S : List α), S.length ≤ fuel →
      ∀ e ∈ leavesCtx (build wo irv fuel c S) S,
        e.2.2.1 = nebTags wo e.1 e.2.1 ∧ e.2.2.2 = irvTags irv e.1 e.2.1 := by
  intro fuel
  induction fuel with
  | zero =>
    intro c S hlen e he
    have hS : S = [] := List.length_eq_zero_iff.mp (Nat.le_zero.mp hlen)
    subst hS
    cases hp : pruned wo irv c []
    · rw [build_leaf wo irv 0 c hp] at he
      simp only [leavesCtx, List.mem_singleton] at he
      subst he
      unfold pruned at hp
      simp only [Bool.or_eq_false_iff, Bool.not_eq_false', List.isEmpty_iff] at hp
      simp [hp.1, hp.2]
    · rw [build_pruned wo irv 0 c [] hp] at he
      simp only [leavesCtx, List.mem_singleton] at he
      subst he; exact ⟨rfl, rfl⟩
  | succ fuel ih =>
    intro c S hlen e he
    cases hp : pruned wo irv c S
    · by_cases hS : S = []
      · subst hS
        rw [build_leaf wo irv _ c hp] at he
        simp only [leavesCtx, List.mem_singleton] at he
        subst he
        unfold pruned at hp
        simp only [Bool.or_eq_false_iff, Bool.not_eq_false', List.isEmpty_iff] at hp
        simp [hp.1, hp.2]
      · rw [build_node wo irv fuel c S hp hS] at he
        simp only [leavesCtx] at he
        refine leavesCtxL_map (fun c2 S' => build wo irv fuel c2 S') (root_build wo irv fuel)
          (fun e => e.2.2.1 = nebTags wo e.1 e.2.1 ∧ e.2.2.2 = irvTags irv e.1 e.2.1) S S ?_ e he
        intro c2 hc2 e' he'
        apply ih c2 (S.erase c2) _ e' he'
        rw [List.length_erase_of_mem hc2]; omega
    · rw [build_pruned wo irv _ c S hp] at he
      simp only [leavesCtx, List.mem_singleton] at he
      subst he; exact ⟨rfl, rfl⟩

/-! ### Reading `Contra` on duplicate-free orders: "`w` occurs before `l`" -/

theorem nebContra_iff_idx (π : List α) (hπ : π.Nodup) (t : α × α × Bool) :
    nebContra π t ↔ t.1 ∈ π ∧ t.2.1 ∈ π ∧ π.idxOf t.2.1 < π.idxOf t.1 := by
  unfold nebContra
  constructor
  · rintro ⟨pre, post, rfl, hm⟩
    have hl : t.1 ∉ pre := fun h => by
      have := (List.nodup_append.1 hπ).2.2 _ h _ (List.mem_cons_self)
      exact this rfl
    refine ⟨by simp, by simp [hm], ?_⟩
    rw [List.idxOf_append, List.idxOf_append, if_pos hm, if_neg hl]
    have := List.idxOf_lt_length_of_mem hm
    omega
  · rintro ⟨hl, hw, hlt⟩
    obtain ⟨pre, post, he⟩ := List.append_of_mem hl
    subst he
    refine ⟨pre, post, rfl, ?_⟩
    have hl' : t.1 ∉ pre := fun h => by
      have := (List.nodup_append.1 hπ).2.2 _ h _ (List.mem_cons_self)
      exact this rfl
    by_cases hw' : t.2.1 ∈ pre
    · exact hw'
    · exfalso
      rw [List.idxOf_append, List.idxOf_append, if_neg hw', if_neg hl'] at hlt
      simp only [List.idxOf_cons_self] at hlt
      omega

/-! ### Non-vacuity: concrete instances (these are tests of the statements, not the theorems) -/

-- three candidates, winner A; alternative winner B; "A never eliminated before B" prunes the root
example : hasUnpruned (build [("B", "A", true)] ([] : List (String × List String × Bool)) 2 "B" ["A", "C"]) = false := by
  decide
-- an insufficient set: order C, A, B (B wins) is not contradicted by "C is not eliminated next when A is gone"
example : hasUnpruned (build ([] : List (String × String × Bool)) [("C", ["A"], false)] 2 "B" ["A", "C"]) = true := by
  decide
example : ¬ Contra ([] : List (String × String × Bool)) [("C", ["A"], false)] (["C", "A"] ++ ["B"]) := by
  unfold Contra nebContra irvContra
  simp only [List.not_mem_nil, false_and, exists_false, false_or, List.mem_singleton, exists_eq_left, not_exists, not_and]
  intro pre post he h
  have h1 : "A" ∈ pre := (h "A").1 (by simp)
  cases pre with
  | nil => simp at h1
  | cons a l => simp at he; obtain ⟨rfl, he⟩ := he; cases l with
    | nil => simp at h1
    | cons b l' => simp at he; obtain ⟨rfl, he⟩ := he; cases l' <;> simp at he

end Shangrla.C20
