/-
  C04 — RAIRE assertions, if any, are true of the CVRs and exclude every other winner.

  Theorems are about `Shangrla.Raire.computeRaireAssertions`, the literal model of
  `shangrla/raire/raire.py::compute_raire_assertions` (agap = 0) that the driver executes — and, in the
  section "positive allowed gap", about `computeRaireAssertionsG gap` for every `agap` test — for every
  difficulty function `asn` into a type with a lawful total preorder (`DiffOrd.Lawful`), every ballot
  profile, every duplicate-free candidate list of length ≥ 2, every reported winner, every diving hint
  and every fuel; `raire_terminates` shows that `raireFuel` iterations always suffice and that no
  exception exit is reached.  Specification vocabulary: `Lemmas/RaireSpec.lean`.
-/
import Shangrla.Lemmas.RaireMain
import Shangrla.Lemmas.RaireSocial

namespace Shangrla.C04
open Shangrla.Raire Shangrla.Raire.Spec

set_option linter.unusedSectionVars false

variable {α : Type} [DecidableEq α] {D : Type} [DiffOrd D] [DiffOrd.Lawful D]

/-! ### single-node lemmas (Appendix F) -/

/-- **FBA-sound** (see `Shangrla.Raire.fba_sound`) -/
theorem fba_sound (asn : Nat → Nat → Nat → Nat → D) (C : Contest α) (hC : C.candidates.Nodup)
    (cvrs : List (Option (Ballot α))) (tail : List α) (hnd : tail.Nodup)
    (hsub : ∀ y ∈ tail, y ∈ C.candidates) (a : Assertion α D)
    (h : (findBestAudit asn C (cvrs.filterMap id) (nebTable asn C cvrs) tail).1 = some a) :
    Fam asn C cvrs a ∧
    (findBestAudit asn C (cvrs.filterMap id) (nebTable asn C cvrs) tail).2 = Diff.fin a.difficulty ∧
    (∀ π, π.Perm C.candidates → tail <:+ π → contradicts a π) :=
  let ⟨h1, h2, h3, _⟩ := Raire.fba_sound asn C hC cvrs tail hnd hsub a h
  ⟨h1, h2, h3⟩

/-- **FBA-min**: the estimate is `inf` iff no examined assertion exists, otherwise it is below the
difficulty of every examined assertion -/
theorem fba_min (asn : Nat → Nat → Nat → Nat → D) (C : Contest α) (ballots : List (Ballot α))
    (nebs : NebTable α D) (tail : List α) :
    ((findBestAudit asn C ballots nebs tail).2 = Diff.inf ↔ ∀ x ∈ candAt asn C ballots nebs tail, x = none) ∧
    (∀ b, some b ∈ candAt asn C ballots nebs tail →
      Diff.le (findBestAudit asn C ballots nebs tail).2 (Diff.fin b.difficulty) = true) := by
  refine ⟨?_, fun b hb => fba_estimate_le asn C ballots nebs tail b hb⟩
  rw [← fba_none_iff, fba_estimate]
  cases (findBestAudit asn C ballots nebs tail).1 <;> simp

/-- **Social-choice lemma**: a possible IRV count of well-formed ballots is contradicted by no true
assertion; hence no set of true assertions can exclude a candidate who can win the count -/
theorem valid_order_not_excluded (asn : Nat → Nat → Nat → Nat → D) (C : Contest α)
    (cvrs : List (Option (Ballot α))) (hwf : ∀ b ∈ cvrs.filterMap id, BallotWF b) (π : List α)
    (hnd : π.Nodup) (hv : validIRV (cvrs.filterMap id) π) (a : Assertion α D) (ha : Fam asn C cvrs a) :
    ¬ contradicts a π :=
  valid_not_contradicted_fam asn C cvrs hwf π hnd hv a ha

/-! ### the result of the generator -/

/-- **C04, truth.** Every returned assertion holds on the CVRs with exactly the tallies it reports, winner
strictly larger (it is a member of the family of true assertions, with the difficulty `asn` assigns). -/
theorem raire_true (asn : Nat → Nat → Nat → Nat → D) (C : Contest α) (cvrs : List (Option (Ballot α)))
    (winner : α) (hC : C.candidates.Nodup) (hn : 2 ≤ C.candidates.length) (fuel : Nat)
    (as : List (Assertion α D)) (h : computeRaireAssertions asn C cvrs winner fuel = Res.ok as) :
    ∀ a ∈ as, holds cvrs a ∧ Fam asn C cvrs a := by
  intro a ha
  have hne : as ≠ [] := fun h0 => by rw [h0] at ha; cases ha
  have := ((compute_spec asn C cvrs winner hC hn h).2 hne).1 a ha
  exact ⟨this.2.2.2.2.1, this⟩

/-- **C04, sufficiency.** If the result is non-empty, every complete elimination order that ends in a
candidate other than the reported winner is contradicted by at least one returned assertion. -/
theorem raire_sufficient (asn : Nat → Nat → Nat → Nat → D) (C : Contest α) (cvrs : List (Option (Ballot α)))
    (winner : α) (hC : C.candidates.Nodup) (hn : 2 ≤ C.candidates.length) (fuel : Nat)
    (as : List (Assertion α D)) (h : computeRaireAssertions asn C cvrs winner fuel = Res.ok as)
    (hne : as ≠ []) : ∀ π, Alt C.candidates winner π → ∃ a ∈ as, contradicts a π :=
  ((compute_spec asn C cvrs winner hC hn h).2 hne).2.1

/-- **C04, "empty exactly when".** The result is the empty list exactly when no set of true NEB/NEN
assertions (all ordered pairs, all eliminated sets) excludes every alternative winner. -/
theorem raire_empty_iff (asn : Nat → Nat → Nat → Nat → D) (C : Contest α) (cvrs : List (Option (Ballot α)))
    (winner : α) (hC : C.candidates.Nodup) (hn : 2 ≤ C.candidates.length) (fuel : Nat)
    (as : List (Assertion α D)) (h : computeRaireAssertions asn C cvrs winner fuel = Res.ok as) :
    as = [] ↔ ¬ ∃ S : List (Assertion α D), (∀ a ∈ S, Fam asn C cvrs a) ∧ Sufficient C.candidates winner S := by
  obtain ⟨h1, h2⟩ := compute_spec asn C cvrs winner hC hn h
  constructor
  · intro h0 ⟨S, hS1, hS2⟩
    obtain ⟨π, hπ, hbad⟩ := h1 h0
    obtain ⟨a, ha, hc⟩ := hS2 π hπ
    exact hbad a (hS1 a ha) hc
  · intro himp
    apply Classical.byContradiction
    intro hne
    obtain ⟨g1, g2, _⟩ := h2 hne
    exact himp ⟨as, g1, g2⟩

/-- the witness behind an empty result: a complete alternative order that no true assertion contradicts -/
theorem raire_empty_witness (asn : Nat → Nat → Nat → Nat → D) (C : Contest α) (cvrs : List (Option (Ballot α)))
    (winner : α) (hC : C.candidates.Nodup) (hn : 2 ≤ C.candidates.length) (fuel : Nat)
    (h : computeRaireAssertions asn C cvrs winner fuel = Res.ok []) :
    ∃ π, Alt C.candidates winner π ∧ ∀ a : Assertion α D, Fam asn C cvrs a → ¬ contradicts a π :=
  (compute_spec asn C cvrs winner hC hn h).1 rfl

/-- **C04, "in particular".** If the reported winner is not the unique possible IRV winner — some possible
IRV count of the (well-formed) ballots ends in another candidate — the generator returns the empty list. -/
theorem wrong_winner_empty (asn : Nat → Nat → Nat → Nat → D) (C : Contest α) (cvrs : List (Option (Ballot α)))
    (winner : α) (hC : C.candidates.Nodup) (hn : 2 ≤ C.candidates.length) (fuel : Nat)
    (as : List (Assertion α D)) (h : computeRaireAssertions asn C cvrs winner fuel = Res.ok as)
    (hwf : ∀ b ∈ cvrs.filterMap id, BallotWF b) (π : List α) (hπ : Alt C.candidates winner π)
    (hv : validIRV (cvrs.filterMap id) π) : as = [] := by
  apply Classical.byContradiction
  intro hne
  obtain ⟨h1, h2, _⟩ := (compute_spec asn C cvrs winner hC hn h).2 hne
  obtain ⟨a, ha, hc⟩ := h2 π hπ
  exact valid_not_contradicted_fam asn C cvrs hwf π (hπ.1.nodup_iff.2 hC) hv a (h1 a ha) hc

/-- the generator raises none of the exceptions the model represents: the frontier is never empty at
`max(...)` / `frontier.nodes[0]`, every dive finds a remaining candidate, and at the end every frontier node
carries an assertion; only termination (fuel) is left open -/
theorem raire_no_exception (asn : Nat → Nat → Nat → Nat → D) (C : Contest α) (cvrs : List (Option (Ballot α)))
    (winner : α) (hC : C.candidates.Nodup) (hn : 2 ≤ C.candidates.length) (fuel : Nat) (e : Err) :
    computeRaireAssertions asn C cvrs winner fuel ≠ Res.err e :=
  compute_no_err asn C cvrs winner hC hn fuel e

/-- **Termination and no exception.** The search terminates: with `raireFuel C winner` (or more)
iterations of the main loop allowed, the model returns a list — it neither runs out of fuel nor reaches
one of its exception exits. (`raireFuel` is the initial value of a measure that strictly decreases in every
iteration; it is astronomically larger than what is needed in practice.) -/
theorem raire_terminates (asn : Nat → Nat → Nat → Nat → D) (C : Contest α) (cvrs : List (Option (Ballot α)))
    (winner : α) (hC : C.candidates.Nodup) (hn : 2 ≤ C.candidates.length) (fuel : Nat)
    (hfuel : raireFuel C winner ≤ fuel) : ∃ as, computeRaireAssertions asn C cvrs winner fuel = Res.ok as :=
  compute_terminates asn C cvrs winner hC hn fuel hfuel

/-- **C04 in one statement** (total correctness): for enough fuel the generator returns a list `as`; every
member is a true assertion with exactly the tallies it reports; if `as` is non-empty it excludes every
alternative winner; and `as` is empty exactly when no set of true assertions does. -/
theorem raire_correct (asn : Nat → Nat → Nat → Nat → D) (C : Contest α) (cvrs : List (Option (Ballot α)))
    (winner : α) (hC : C.candidates.Nodup) (hn : 2 ≤ C.candidates.length) (fuel : Nat)
    (hfuel : raireFuel C winner ≤ fuel) :
    ∃ as, computeRaireAssertions asn C cvrs winner fuel = Res.ok as ∧
      (∀ a ∈ as, holds cvrs a) ∧
      (as ≠ [] → ∀ π, Alt C.candidates winner π → ∃ a ∈ as, contradicts a π) ∧
      (as = [] ↔ ¬ ∃ S : List (Assertion α D), (∀ a ∈ S, Fam asn C cvrs a) ∧ Sufficient C.candidates winner S) := by
  obtain ⟨as, h⟩ := raire_terminates asn C cvrs winner hC hn fuel hfuel
  exact ⟨as, h, fun a ha => (raire_true asn C cvrs winner hC hn fuel as h a ha).1,
    raire_sufficient asn C cvrs winner hC hn fuel as h,
    raire_empty_iff asn C cvrs winner hC hn fuel as h⟩

/-! ### the generator with a positive allowed gap (`agap > 0`, raire.py L158-163)

`computeRaireAssertionsG gap` is the generator whose main loop starts with the test
`agap > 0 and lowerbound > 0 and max_on_frontier - lowerbound <= agap` (the float test being the parameter `gap`,
see Model/Raire.lean).  `GapOK gap`: the test is false when the largest estimate on the frontier is `inf`
(`inf - lowerbound` is `inf` or `nan`; true of the Python test for every finite `agap`).  Soundness, sufficiency,
"empty exactly when", absence of exceptions and termination hold for EVERY such test — whenever the early exit
fires.  (Optimality, C15, is stated for `agap = 0` only.) -/

/-- **C04, truth, for every `agap`.** -/
theorem raire_true_gap (gap : Diff D → Diff D → Bool) (hgap : GapOK gap)
    (asn : Nat → Nat → Nat → Nat → D) (C : Contest α) (cvrs : List (Option (Ballot α)))
    (winner : α) (hC : C.candidates.Nodup) (hn : 2 ≤ C.candidates.length) (fuel : Nat)
    (as : List (Assertion α D)) (h : computeRaireAssertionsG gap asn C cvrs winner fuel = Res.ok as) :
    ∀ a ∈ as, holds cvrs a ∧ Fam asn C cvrs a := by
  intro a ha
  have hne : as ≠ [] := fun h0 => by rw [h0] at ha; cases ha
  have := ((computeG_spec asn C cvrs winner hgap hC hn h).2 hne).1 a ha
  exact ⟨this.2.2.2.2.1, this⟩

/-- **C04, sufficiency, for every `agap`.** -/
theorem raire_sufficient_gap (gap : Diff D → Diff D → Bool) (hgap : GapOK gap)
    (asn : Nat → Nat → Nat → Nat → D) (C : Contest α) (cvrs : List (Option (Ballot α)))
    (winner : α) (hC : C.candidates.Nodup) (hn : 2 ≤ C.candidates.length) (fuel : Nat)
    (as : List (Assertion α D)) (h : computeRaireAssertionsG gap asn C cvrs winner fuel = Res.ok as)
    (hne : as ≠ []) : ∀ π, Alt C.candidates winner π → ∃ a ∈ as, contradicts a π :=
  ((computeG_spec asn C cvrs winner hgap hC hn h).2 hne).2

/-- **C04, "empty exactly when", for every `agap`.** -/
theorem raire_empty_iff_gap (gap : Diff D → Diff D → Bool) (hgap : GapOK gap)
    (asn : Nat → Nat → Nat → Nat → D) (C : Contest α) (cvrs : List (Option (Ballot α)))
    (winner : α) (hC : C.candidates.Nodup) (hn : 2 ≤ C.candidates.length) (fuel : Nat)
    (as : List (Assertion α D)) (h : computeRaireAssertionsG gap asn C cvrs winner fuel = Res.ok as) :
    as = [] ↔ ¬ ∃ S : List (Assertion α D), (∀ a ∈ S, Fam asn C cvrs a) ∧ Sufficient C.candidates winner S := by
  obtain ⟨h1, h2⟩ := computeG_spec asn C cvrs winner hgap hC hn h
  constructor
  · intro h0 ⟨S, hS1, hS2⟩
    obtain ⟨π, hπ, hbad⟩ := h1 h0
    obtain ⟨a, ha, hc⟩ := hS2 π hπ
    exact hbad a (hS1 a ha) hc
  · intro himp
    apply Classical.byContradiction
    intro hne
    obtain ⟨g1, g2⟩ := h2 hne
    exact himp ⟨as, g1, g2⟩

/-- **C04, "in particular", for every `agap`:** a reported winner who is not the unique possible IRV winner
gets the empty list. -/
theorem wrong_winner_empty_gap (gap : Diff D → Diff D → Bool) (hgap : GapOK gap)
    (asn : Nat → Nat → Nat → Nat → D) (C : Contest α) (cvrs : List (Option (Ballot α)))
    (winner : α) (hC : C.candidates.Nodup) (hn : 2 ≤ C.candidates.length) (fuel : Nat)
    (as : List (Assertion α D)) (h : computeRaireAssertionsG gap asn C cvrs winner fuel = Res.ok as)
    (hwf : ∀ b ∈ cvrs.filterMap id, BallotWF b) (π : List α) (hπ : Alt C.candidates winner π)
    (hv : validIRV (cvrs.filterMap id) π) : as = [] := by
  apply Classical.byContradiction
  intro hne
  obtain ⟨h1, h2⟩ := (computeG_spec asn C cvrs winner hgap hC hn h).2 hne
  obtain ⟨a, ha, hc⟩ := h2 π hπ
  exact valid_not_contradicted_fam asn C cvrs hwf π (hπ.1.nodup_iff.2 hC) hv a (h1 a ha) hc

/-- no exception exit is reached, for every `agap` -/
theorem raire_no_exception_gap (gap : Diff D → Diff D → Bool) (hgap : GapOK gap)
    (asn : Nat → Nat → Nat → Nat → D) (C : Contest α) (cvrs : List (Option (Ballot α)))
    (winner : α) (hC : C.candidates.Nodup) (hn : 2 ≤ C.candidates.length) (fuel : Nat) (e : Err) :
    computeRaireAssertionsG gap asn C cvrs winner fuel ≠ Res.err e :=
  computeG_no_err asn C cvrs winner hgap hC hn fuel e

/-- termination within `raireFuel` iterations, for every `agap` -/
theorem raire_terminates_gap (gap : Diff D → Diff D → Bool) (hgap : GapOK gap)
    (asn : Nat → Nat → Nat → Nat → D) (C : Contest α) (cvrs : List (Option (Ballot α)))
    (winner : α) (hC : C.candidates.Nodup) (hn : 2 ≤ C.candidates.length) (fuel : Nat)
    (hfuel : raireFuel C winner ≤ fuel) :
    ∃ as, computeRaireAssertionsG gap asn C cvrs winner fuel = Res.ok as :=
  computeG_terminates asn C cvrs winner hgap hC hn fuel hfuel

/-- **C04 in one statement, for every `agap`** (total correctness) -/
theorem raire_correct_gap (gap : Diff D → Diff D → Bool) (hgap : GapOK gap)
    (asn : Nat → Nat → Nat → Nat → D) (C : Contest α) (cvrs : List (Option (Ballot α)))
    (winner : α) (hC : C.candidates.Nodup) (hn : 2 ≤ C.candidates.length) (fuel : Nat)
    (hfuel : raireFuel C winner ≤ fuel) :
    ∃ as, computeRaireAssertionsG gap asn C cvrs winner fuel = Res.ok as ∧
      (∀ a ∈ as, holds cvrs a) ∧
      (as ≠ [] → ∀ π, Alt C.candidates winner π → ∃ a ∈ as, contradicts a π) ∧
      (as = [] ↔ ¬ ∃ S : List (Assertion α D), (∀ a ∈ S, Fam asn C cvrs a) ∧ Sufficient C.candidates winner S) := by
  obtain ⟨as, h⟩ := raire_terminates_gap gap hgap asn C cvrs winner hC hn fuel hfuel
  exact ⟨as, h, fun a ha => (raire_true_gap gap hgap asn C cvrs winner hC hn fuel as h a ha).1,
    raire_sufficient_gap gap hgap asn C cvrs winner hC hn fuel as h,
    raire_empty_iff_gap gap hgap asn C cvrs winner hC hn fuel as h⟩

/-- the default `agap = 0` is the instance `noGap` (the definitions agree by unfolding) -/
theorem noGap_is_default (asn : Nat → Nat → Nat → Nat → D) (C : Contest α) (cvrs : List (Option (Ballot α)))
    (winner : α) (fuel : Nat) :
    computeRaireAssertions asn C cvrs winner fuel = computeRaireAssertionsG noGap asn C cvrs winner fuel := rfl

/-- the subsumption tests are sound (each of the four NEB branches and the NEN suffix test): an
assertion that subsumes `o` contradicts every order ending in a tail `o` was recorded to rule out -/
theorem subsumes_sound (cands : List α) (f o : Assertion α D) (hg : Good cands f)
    (hfro : ∀ r ∈ f.rulesOut, CoversTail cands f r) (horo : ∀ r ∈ o.rulesOut, CoversTail cands o r)
    (h : subsumes f o = true) : o.kind = .nen ∧ ∀ t ∈ o.rulesOut, CoversTail cands f t :=
  Raire.subsumes_sound hg hfro horo h

/-! ### Non-vacuity: a concrete contest (tests of the statements' hypotheses, not of the theorems)

Three candidates 0, 1, 2; ballots 4 x (0,1), 3 x (1,2), 2 x (2,1): candidate 2 is eliminated first and
1 beats 0 by 5 to 4. Difficulty `total * 1000 / margin` into `Nat` (a lawful order). -/

def asnEx (w l _o t : Nat) : Nat := t * 1000 / (w - l)
def balEx (l : List Nat) : Option (Ballot Nat) := some l.zipIdx
def cvrsEx : List (Option (Ballot Nat)) :=
  List.replicate 4 (balEx [0, 1]) ++ List.replicate 3 (balEx [1, 2]) ++ List.replicate 2 (balEx [2, 1])
def CEx : Contest Nat := { candidates := [0, 1, 2], totBallots := 9, outcome := [] }
/-- (is NEB, winner, loser, eliminated, tallies, difficulty) of each returned assertion -/
def summary (r : Res (List (Assertion Nat Nat))) :
    Option (List (Bool × Nat × Nat × List Nat × Nat × Nat × Nat)) :=
  match r with
  | Res.ok as => some (as.map fun a =>
      (a.kind == .neb, a.winner, a.loser, a.eliminated, a.votesW, a.votesL, a.difficulty))
  | _ => none

-- reported winner 1 (correct): NEB(1,2) with 3 > 2 and NEN(1,0 | 2 eliminated) with 5 > 4
example : summary (computeRaireAssertions asnEx CEx cvrsEx 1 100) =
    some [(true, 1, 2, [], 3, 2, 9000), (false, 1, 0, [2], 5, 4, 9000)] := by rfl
-- reported winner 0 (wrong): no audit possible
example : summary (computeRaireAssertions asnEx CEx cvrsEx 0 100) = some [] := by rfl
-- the hypotheses of `raire_sufficient` are satisfiable: it applies to the first run
example : ∃ as, computeRaireAssertions asnEx CEx cvrsEx 1 100 = Res.ok as ∧ as ≠ [] ∧
    ∀ π, Alt CEx.candidates 1 π → ∃ a ∈ as, contradicts a π := by
  cases h : computeRaireAssertions asnEx CEx cvrsEx 1 100 with
  | ok as =>
    have hs : summary (computeRaireAssertions asnEx CEx cvrsEx 1 100) =
        some [(true, 1, 2, [], 3, 2, 9000), (false, 1, 0, [2], 5, 4, 9000)] := by rfl
    have hne : as ≠ [] := by
      intro h0; rw [h, h0] at hs; simp [summary] at hs
    exact ⟨as, rfl, hne, raire_sufficient asnEx CEx cvrsEx 1 (by decide) (by decide) 100 as h hne⟩
  | fuel =>
    have hs : summary (computeRaireAssertions asnEx CEx cvrsEx 1 100) ≠ none := by
      intro h0; cases h0
    rw [h] at hs; exact absurd rfl hs
  | err e =>
    have hs : summary (computeRaireAssertions asnEx CEx cvrsEx 1 100) ≠ none := by
      intro h0; cases h0
    rw [h] at hs; exact absurd rfl hs
-- the fuel bound of `raire_terminates` for this contest
example : raireFuel CEx 1 = 113 := by rfl
-- a gap test on this `Nat`-valued example: `mx - lb <= 5000` on finite values, false otherwise (`GapOK`)
def gapEx : Diff Nat → Diff Nat → Bool
  | Diff.fin m, Diff.fin l => decide (m - l ≤ 5000)
  | _, _ => false
example : GapOK gapEx := fun l => by cases l <;> rfl
-- four candidates, 30 ballots, reported winner 2: the gap exit fires before the search is finished and the
-- result is a different, costlier (largest difficulty 10000 instead of 7500) but still sufficient set
def cvrsEx4 : List (Option (Ballot Nat)) :=
  List.replicate 12 (balEx [0, 1, 2, 3]) ++ List.replicate 6 (balEx [1, 2, 0]) ++ List.replicate 5 (balEx [2, 3, 1]) ++
  List.replicate 4 (balEx [3, 2, 1, 0]) ++ List.replicate 3 (balEx [2, 0])
def CEx4 : Contest Nat := { candidates := [0, 1, 2, 3], totBallots := 30, outcome := [] }
example : summary (computeRaireAssertions asnEx CEx4 cvrsEx4 2 100000) =
    some [(true, 2, 3, [], 8, 4, 7500), (false, 2, 0, [1, 3], 18, 12, 5000), (false, 2, 1, [3], 12, 6, 5000),
      (false, 0, 1, [3], 12, 6, 5000), (false, 0, 3, [], 12, 4, 3750)] := by rfl
example : summary (computeRaireAssertionsG gapEx asnEx CEx4 cvrsEx4 2 100000) =
    some [(true, 0, 3, [], 12, 9, 10000), (true, 2, 3, [], 8, 4, 7500), (false, 2, 0, [1, 3], 18, 12, 5000),
      (false, 2, 1, [3], 12, 6, 5000), (false, 0, 1, [3], 12, 6, 5000)] := by rfl
example : ∃ as, computeRaireAssertionsG gapEx asnEx CEx4 cvrsEx4 2 100000 = Res.ok as ∧ as ≠ [] ∧
    ∀ π, Alt CEx4.candidates 2 π → ∃ a ∈ as, contradicts a π := by
  have hs : summary (computeRaireAssertionsG gapEx asnEx CEx4 cvrsEx4 2 100000) =
    some [(true, 0, 3, [], 12, 9, 10000), (true, 2, 3, [], 8, 4, 7500), (false, 2, 0, [1, 3], 18, 12, 5000),
      (false, 2, 1, [3], 12, 6, 5000), (false, 0, 1, [3], 12, 6, 5000)] := by rfl
  cases h : computeRaireAssertionsG gapEx asnEx CEx4 cvrsEx4 2 100000 with
  | ok as =>
    have hne : as ≠ [] := by
      intro h0; rw [h, h0] at hs; simp [summary] at hs
    exact ⟨as, rfl, hne, raire_sufficient_gap gapEx (fun l => by cases l <;> rfl) asnEx CEx4 cvrsEx4 2
      (by decide) (by decide) 100000 as h hne⟩
  | fuel => rw [h] at hs; simp [summary] at hs
  | err e => rw [h] at hs; simp [summary] at hs
-- an alternative order exists and a possible IRV count exists (hypotheses of `wrong_winner_empty`)
example : Alt CEx.candidates 0 [2, 0, 1] := ⟨by decide, [2, 0], 1, rfl, by decide⟩


end Shangrla.C04
