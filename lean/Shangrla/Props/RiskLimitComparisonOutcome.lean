/-
  C02 ∘ C03 ∘ C06 ∘ C09 ∘ C01: the last step for COMPARISON audits of plurality / super-majority contests —
  "the reported outcome is wrong on the manual records ⇒ the comparison (or ONEAudit) audit is EVER reported
  complete with probability at most the risk limit".

  `comparison_full_risk_limit` (RiskLimitComparisonFull.lean) is stated on the literal overstatement model
  (`Model/Overstatement.lean`), whose manual records `Mvr` carry the assorter value `a = A(mvr)` as a PARAMETER, and
  its hypothesis is "the assorter mean over the manual records is at most 1/2".  C02 (`Model/Assorter.lean`,
  `Model/Vote.lean`) is about the assorter applied to a ballot `b : Vote.CVR` (votes, phantom flag) and relates
  its sum to counts of marks.  This file joins the two models:

  * `mvrOf A contest b` — the `Mvr` the overstatement model reads off a manual record `b`;
  * `plurality_comparison_null(_iff)` / `supermajority_comparison_null(_iff)` — what "the assertion is false on the
    manual records" (`(C03.mvrA …).sum ≤ length / 2`) means in terms of marks on the true ballots
    (`marks_foundBallots`, `valid_foundBallots`, `wvalid_foundBallots`: counted over the cards that could be found);
  * `comparison_full_risk_limit_cards` — `comparison_full_risk_limit` for cards of ANY type `α` (a card gives a
    manual record `mv x` and a CVR `cv x`; the OTHER assertions may read anything else off the card);
  * `plurality_comparison_risk_limit`, `supermajority_comparison_risk_limit` — the capstones (and their `_zip` forms
    for a list of true ballots zipped with a list of CVRs).
-/
import Shangrla.Props.RiskLimitComparisonFull
import Shangrla.Props.C02

namespace Shangrla.RiskLimit
open Shangrla Shangrla.Ville Shangrla.Status Shangrla.AuditLoop Shangrla.Overstatement Shangrla.Vote

/-! ### the bridge between the two models -/

/-- **The overstatement model's manual record of a ballot.**  `Assorter.overstatement(mvr, cvr, use_style)`
(Audit.py L2578-2585) reads exactly three things off the manual record `mvr` (a `CVR` object):

* `hasContest` = `mvr.has_contest(self.contest.id)` — `Vote.CVR.hasContest b contest` (L207-208);
* `phantom`    = `mvr.phantom`                       — `Vote.CVR.phantom b`;
* `a`          = `self.assort(mvr)`                  — the assertion's assorter applied to the ballot, here
  `assort b` with `assort = Assorter.plurality contest w l` or `Assorter.supermajority contest w cands f`
  (the lambdas of `make_plurality_assertions` / `make_supermajority_assertion`). -/
def mvrOf (assort : CVR → ℚ) (contest : String) (b : CVR) : Mvr :=
  { hasContest := b.hasContest contest, phantom := b.phantom, a := assort b }

/-- The CVR side, when the machine record is itself given as a `Vote.CVR`: `has_contest`, `phantom` and
`self.assort(cvr)` are read off the record; `pool`, `tally_pool` and `sample_num` are attributes the `Vote` model
does not carry.  (The capstones below do NOT use this: they hold for ANY `Cvr`s with `a ∈ [0,u]` — an audit must
work whatever the machine reported.  It is used in the example, to let the CVRs "say" who won.) -/
def cvrOf (assort : CVR → ℚ) (contest : String) (pool : Bool) (tallyPool : PoolKey) (sampleNum : Nat)
    (r : CVR) : Cvr :=
  { hasContest := r.hasContest contest, phantom := r.phantom, pool := pool, tallyPool := tallyPool,
    a := assort r, sampleNum := sampleNum }

/-- the manual record is scored 0 instead of `A(mvr)` (`mvr_assort`, L2578-2585): the card could not be found
(`mvr.phantom`) or, under style-based sampling, its manual record does not list the contest -/
def zeroed (useStyle : Bool) (contest : String) (b : CVR) : Bool :=
  b.phantom || (useStyle && !b.hasContest contest)

theorem mvrAssort_mvrOf (useStyle : Bool) (assort : CVR → ℚ) (contest : String) (b : CVR) :
    mvrAssort useStyle (mvrOf assort contest b) = if zeroed useStyle contest b then 0 else assort b := rfl

/-- the manual records (true ballots) of the cards under audit: those whose CVR passes the style filter -/
def audBallots {α : Type} (useStyle : Bool) (ballot : α → CVR) (cv : α → Cvr) (cards : List α) : List CVR :=
  (cards.filter (fun x => passes useStyle (cv x))).map ballot

/-- the FOUND ballots of the cards under audit: the card was found and (under style) its manual record lists the
contest — the cards whose manual record enters the overstatement with its own assorter value -/
def foundBallots {α : Type} (useStyle : Bool) (contest : String) (ballot : α → CVR) (cv : α → Cvr)
    (cards : List α) : List CVR :=
  (audBallots useStyle ballot cv cards).filter (fun b => !zeroed useStyle contest b)

/-- the number of cards under audit whose manual record is scored 0 (unfindable, or under style lacking the
contest) -/
def lostCount {α : Type} (useStyle : Bool) (contest : String) (ballot : α → CVR) (cv : α → Cvr)
    (cards : List α) : Nat :=
  (audBallots useStyle ballot cv cards).countP (zeroed useStyle contest)

/-! ### `C03.mvrA` / `C03.aud` on a population of cards -/

theorem mvrA_cards {α : Type} (useStyle : Bool) (mv : α → Mvr) (cv : α → Cvr) (cards : List α) :
    C03.mvrA useStyle (cards.map mv) (cards.map cv)
      = (cards.filter (fun x => passes useStyle (cv x))).map (fun x => mvrAssort useStyle (mv x)) := by
  unfold C03.mvrA C03.audPairs
  rw [List.zip_map', List.filter_map, List.map_map]
  rfl

theorem aud_cards {α : Type} (useStyle : Bool) (cv : α → Cvr) (cards : List α) :
    C03.aud useStyle (cards.map cv) = (cards.filter (fun x => passes useStyle (cv x))).map cv := by
  unfold C03.aud
  rw [List.filter_map]
  rfl

/-- `C03.mvrA` of the records `mvrOf` makes from the true ballots: over the cards under audit, 0 for a record
scored 0, the assorter of the ballot otherwise -/
theorem mvrA_ballots {α : Type} (useStyle : Bool) (assort : CVR → ℚ) (contest : String) (ballot : α → CVR)
    (cv : α → Cvr) (cards : List α) :
    C03.mvrA useStyle (cards.map (fun x => mvrOf assort contest (ballot x))) (cards.map cv)
      = (audBallots useStyle ballot cv cards).map (fun b => if zeroed useStyle contest b then 0 else assort b) := by
  rw [mvrA_cards]
  unfold audBallots
  rw [List.map_map]
  rfl

theorem sum_zeroed {β : Type} (z : β → Bool) (A : β → ℚ) : ∀ L : List β,
    (L.map (fun b => if z b then 0 else A b)).sum = ((L.filter (fun b => !z b)).map A).sum
  | [] => rfl
  | b :: L => by
    have ih := sum_zeroed z A L
    cases hb : z b <;> simp [hb, ih]

theorem length_zeroed {β : Type} (z : β → Bool) : ∀ L : List β,
    L.length = (L.filter (fun b => !z b)).length + L.countP z
  | [] => rfl
  | b :: L => by
    have ih := length_zeroed z L
    cases hb : z b <;> simp [hb] <;> omega

/-- the manual assorter values of the cards under audit add up to the assorter's sum over the FOUND ballots -/
theorem sum_mvrA_ballots {α : Type} (useStyle : Bool) (assort : CVR → ℚ) (contest : String) (ballot : α → CVR)
    (cv : α → Cvr) (cards : List α) :
    (C03.mvrA useStyle (cards.map (fun x => mvrOf assort contest (ballot x))) (cards.map cv)).sum
      = ((foundBallots useStyle contest ballot cv cards).map assort).sum := by
  rw [mvrA_ballots, sum_zeroed]
  rfl

/-- the cards under audit are the found ones and the ones scored 0 -/
theorem length_mvrA_ballots {α : Type} (useStyle : Bool) (assort : CVR → ℚ) (contest : String) (ballot : α → CVR)
    (cv : α → Cvr) (cards : List α) :
    (C03.mvrA useStyle (cards.map (fun x => mvrOf assort contest (ballot x))) (cards.map cv)).length
      = (foundBallots useStyle contest ballot cv cards).length + lostCount useStyle contest ballot cv cards := by
  rw [mvrA_ballots, List.length_map, length_zeroed (zeroed useStyle contest)]
  rfl

/-! ### a wrong outcome makes the assertion false on the manual records

DIRECTION (conservative).  A record scored 0 is scored like a vote for the loser alone (`plurality = 0`), which is
worse for the reported winner than the non-vote 1/2 an absent record "really" is.  So the assertion "`w` beat `l`" is
false on the manual records — `Σ mvrAssort ≤ n/2` — EXACTLY when, over the found ballots, `w` has at most as many
marks as `l` PLUS the number of records scored 0 (`plurality_comparison_null_iff`).  The plain hypothesis "on the
found ballots `l` has at least as many marks as `w`" (`marks w F ≤ marks l F`) is stronger than needed, and is what
"the reported outcome is wrong on the cards that could be examined" gives; whatever marks an unfindable card or (under
style) a record lacking the contest may carry are irrelevant: the code does not look at them. -/

/-- **exactly when** is the plurality assertion false on the manual records -/
theorem plurality_comparison_null_iff {α : Type} (useStyle : Bool) (contest w l : String) (ballot : α → CVR)
    (cv : α → Cvr) (cards : List α) :
    (C03.mvrA useStyle (cards.map (fun x => mvrOf (Assorter.plurality contest w l) contest (ballot x)))
        (cards.map cv)).sum
      ≤ ((C03.mvrA useStyle (cards.map (fun x => mvrOf (Assorter.plurality contest w l) contest (ballot x)))
        (cards.map cv)).length : ℚ) / 2
    ↔ C02.marks contest w (foundBallots useStyle contest ballot cv cards)
        ≤ C02.marks contest l (foundBallots useStyle contest ballot cv cards)
          + lostCount useStyle contest ballot cv cards := by
  rw [sum_mvrA_ballots, length_mvrA_ballots, C02.sum_plurality]
  push_cast
  constructor
  · intro h
    have : (C02.marks contest w (foundBallots useStyle contest ballot cv cards) : ℚ)
        ≤ (C02.marks contest l (foundBallots useStyle contest ballot cv cards) : ℚ)
          + (lostCount useStyle contest ballot cv cards : ℚ) := by linarith
    exact_mod_cast this
  · intro h
    have : (C02.marks contest w (foundBallots useStyle contest ballot cv cards) : ℚ)
        ≤ (C02.marks contest l (foundBallots useStyle contest ballot cv cards) : ℚ)
          + (lostCount useStyle contest ballot cv cards : ℚ) := by exact_mod_cast h
    linarith

/-- **a reported winner that did not beat a reported loser on the manual records makes their assertion false on
the manual records**: if over the found ballots of the cards under audit `w` has at most as many marks as `l`, every
unfindable card and (under style) every record lacking the contest being counted as one more mark for `l`, then the
assorter mean over the manual records (as the overstatement scores them) is at most 1/2 -/
theorem plurality_comparison_null {α : Type} (useStyle : Bool) (contest w l : String) (ballot : α → CVR)
    (cv : α → Cvr) (cards : List α)
    (hwrong : C02.marks contest w (foundBallots useStyle contest ballot cv cards)
        ≤ C02.marks contest l (foundBallots useStyle contest ballot cv cards)
          + lostCount useStyle contest ballot cv cards) :
    (C03.mvrA useStyle (cards.map (fun x => mvrOf (Assorter.plurality contest w l) contest (ballot x)))
        (cards.map cv)).sum
      ≤ ((C03.mvrA useStyle (cards.map (fun x => mvrOf (Assorter.plurality contest w l) contest (ballot x)))
        (cards.map cv)).length : ℚ) / 2 :=
  (plurality_comparison_null_iff useStyle contest w l ballot cv cards).2 hwrong

/-- **exactly when** is the super-majority assertion false on the manual records (`f > 0`): the winner's valid
votes on the found ballots are at most the share `f` of the valid votes, every record scored 0 counting as one more
valid vote (for someone else) -/
theorem supermajority_comparison_null_iff {α : Type} (useStyle : Bool) (contest w : String) (cands : List String)
    (f : ℚ) (hf0 : 0 < f) (ballot : α → CVR) (cv : α → Cvr) (cards : List α) :
    (C03.mvrA useStyle (cards.map (fun x => mvrOf (Assorter.supermajority contest w cands f) contest (ballot x)))
        (cards.map cv)).sum
      ≤ ((C03.mvrA useStyle (cards.map (fun x => mvrOf (Assorter.supermajority contest w cands f) contest (ballot x)))
        (cards.map cv)).length : ℚ) / 2
    ↔ (C02.wvalid contest cands w (foundBallots useStyle contest ballot cv cards) : ℚ)
        ≤ f * ((C02.valid contest cands (foundBallots useStyle contest ballot cv cards) : ℚ)
          + (lostCount useStyle contest ballot cv cards : ℚ)) := by
  rw [sum_mvrA_ballots, length_mvrA_ballots, C02.sum_supermajority]
  push_cast
  have h2f : 0 < 2 * f := by linarith
  set W : ℚ := (C02.wvalid contest cands w (foundBallots useStyle contest ballot cv cards) : ℚ)
  set V : ℚ := (C02.valid contest cands (foundBallots useStyle contest ballot cv cards) : ℚ)
  set n : ℚ := ((foundBallots useStyle contest ballot cv cards).length : ℚ)
  set z : ℚ := (lostCount useStyle contest ballot cv cards : ℚ)
  have key : W / (2 * f) ≤ (V + z) / 2 ↔ W ≤ f * (V + z) := by
    rw [div_le_iff₀ h2f]
    constructor <;> intro h <;> linarith
  rw [← key]
  constructor <;> intro h <;> linarith

theorem supermajority_comparison_null {α : Type} (useStyle : Bool) (contest w : String) (cands : List String)
    (f : ℚ) (hf0 : 0 < f) (ballot : α → CVR) (cv : α → Cvr) (cards : List α)
    (hwrong : (C02.wvalid contest cands w (foundBallots useStyle contest ballot cv cards) : ℚ)
        ≤ f * ((C02.valid contest cands (foundBallots useStyle contest ballot cv cards) : ℚ)
          + (lostCount useStyle contest ballot cv cards : ℚ))) :
    (C03.mvrA useStyle (cards.map (fun x => mvrOf (Assorter.supermajority contest w cands f) contest (ballot x)))
        (cards.map cv)).sum
      ≤ ((C03.mvrA useStyle (cards.map (fun x => mvrOf (Assorter.supermajority contest w cands f) contest (ballot x)))
        (cards.map cv)).length : ℚ) / 2 :=
  (supermajority_comparison_null_iff useStyle contest w cands f hf0 ballot cv cards).2 hwrong

/-! ### the marks on the found ballots are the marks on the cards that could be examined

A manual record that does not list the contest shows no mark and is no valid vote, so the counts over the found
ballots are the counts over ALL the cards under audit that could be found (`phantom = false`), style or not: the
hypothesis `hwrong` of the capstones can be read on either list. -/

theorem foundBallots_eq {α : Type} (useStyle : Bool) (contest : String) (ballot : α → CVR) (cv : α → Cvr)
    (cards : List α) :
    foundBallots useStyle contest ballot cv cards
      = if useStyle then
          ((audBallots useStyle ballot cv cards).filter (fun b => !b.phantom)).filter (fun b => b.hasContest contest)
        else (audBallots useStyle ballot cv cards).filter (fun b => !b.phantom) := by
  unfold foundBallots zeroed
  cases useStyle
  · simp
  · simp only [if_true, List.filter_filter]
    apply List.filter_congr
    intro b _
    cases b.phantom <;> cases b.hasContest contest <;> rfl

theorem marks_foundBallots {α : Type} (useStyle : Bool) (contest x : String) (ballot : α → CVR) (cv : α → Cvr)
    (cards : List α) :
    C02.marks contest x (foundBallots useStyle contest ballot cv cards)
      = C02.marks contest x ((audBallots useStyle ballot cv cards).filter (fun b => !b.phantom)) := by
  rw [foundBallots_eq]
  cases useStyle
  · rfl
  · exact C02.marks_filter_hasContest contest x _

theorem valid_foundBallots {α : Type} (useStyle : Bool) (contest : String) (cands : List String) (ballot : α → CVR)
    (cv : α → Cvr) (cards : List α) :
    C02.valid contest cands (foundBallots useStyle contest ballot cv cards)
      = C02.valid contest cands ((audBallots useStyle ballot cv cards).filter (fun b => !b.phantom)) := by
  rw [foundBallots_eq]
  cases useStyle
  · rfl
  · exact C02.valid_filter_hasContest contest cands _

theorem wvalid_foundBallots {α : Type} (useStyle : Bool) (contest : String) (cands : List String) (w : String)
    (ballot : α → CVR) (cv : α → Cvr) (cards : List α) :
    C02.wvalid contest cands w (foundBallots useStyle contest ballot cv cards)
      = C02.wvalid contest cands w ((audBallots useStyle ballot cv cards).filter (fun b => !b.phantom)) := by
  rw [foundBallots_eq]
  cases useStyle
  · rfl
  · exact C02.wvalid_filter_hasContest contest cands w _

/-! ### `comparison_full_risk_limit` for cards of any type -/

/-- what `comparison_full_risk_limit` establishes about the data of the population (the three hypotheses of
`audit_risk_limit_style_run`), as a statement of its own: under C03's / C06's hypotheses, the data
`cardDatum` of the cards `mvrs.zip cvrs` lie in `[0, U]`, there is one per card under audit, and if the assertion
is false on the manual records they sum to at most half their number. -/
theorem comparison_full_data (ty : AuditType) (hty : ty = .cardComparison ∨ ty = .oneaudit)
    (useStyle : Bool) (u : ℚ) (cvrs : List Cvr) (mvrs : List Mvr) (means : Option Means)
    (hm : MeansFrom useStyle cvrs means) (hlen : mvrs.length = cvrs.length) (hu : 0 < u)
    (hcv : ∀ c ∈ cvrs, 0 ≤ c.a ∧ c.a ≤ u) (hmv : ∀ m ∈ mvrs, 0 ≤ m.a ∧ m.a ≤ u)
    (hne : C03.aud useStyle cvrs ≠ [])
    (hph : ∀ c ∈ C03.aud useStyle cvrs, c.phantom = true → usesPool means c = false → c.a = 1 / 2)
    (margin U : XR) (hmargin : setMarginFromCvrs 1 useStyle ty u cvrs = .ok (margin, U))
    (cu : ℚ) (hcu : XR.fin cu = U) :
    (∀ x ∈ (mvrs.zip cvrs).filterMap (cardDatum ty useStyle margin u means), 0 ≤ x ∧ x ≤ cu) ∧
    ((mvrs.zip cvrs).filterMap (cardDatum ty useStyle margin u means)).length = (C03.aud useStyle cvrs).length ∧
    ((C03.mvrA useStyle mvrs cvrs).sum ≤ ((C03.mvrA useStyle mvrs cvrs).length : ℚ) / 2 →
      ((mvrs.zip cvrs).filterMap (cardDatum ty useStyle margin u means)).sum
        ≤ (((mvrs.zip cvrs).filterMap (cardDatum ty useStyle margin u means)).length : ℚ) * (1 / 2)) := by
  obtain ⟨v, B, h1, h2, hBlen, hMlen, h2uv, hid⟩ :=
    C03.overstatement_identity ty hty useStyle u cvrs mvrs means none hm hlen hu (fun c h => (hcv c h).2) hne hph
  rw [h1] at hmargin
  simp only [Except.ok.injEq, Prod.mk.injEq] at hmargin
  obtain ⟨rfl, rfl⟩ := hmargin
  have hcfgu : cu = 2 / (2 - v / u) := XR.fin.inj hcu
  have hune : u ≠ 0 := ne_of_gt hu
  have hden : 2 - v / u ≠ 0 := by
    have : 2 - v / u = (2 * u - v) / u := by field_simp
    rw [this]
    exact ne_of_gt (div_pos h2uv hu)
  set cards := mvrs.zip cvrs with hcards
  have hsub : ∀ p ∈ cards, p.2 ∈ cvrs := fun p hp => (List.of_mem_zip hp).2
  have hfm : cards.filterMap (cardDatum ty useStyle (XR.fin v) u means)
      = cards.filterMap (datumFormula useStyle v u cvrs means) := by
    apply List.filterMap_congr
    intro p hp
    exact cardDatum_eq ty hty useStyle v u cvrs means hm hune hden p (hsub p hp)
  have hB : B = cards.filterMap (datumFormula useStyle v u cvrs means) := by
    have h3 := sample_data_formula ty hty useStyle true none v u cvrs means hm hune hden cards hsub
      (fun p _ => C03.contributes_all useStyle none p.2)
    rw [hcards, List.map_fst_zip (by omega), List.map_snd_zip (by omega), h2] at h3
    simp only [Except.ok.injEq, Prod.mk.injEq, and_true] at h3
    exact (List.map_injective_iff.mpr (fun _ _ h => XR.fin.inj h)) h3
  have hnA : 0 < (C03.aud useStyle cvrs).length := List.length_pos_iff.mpr hne
  refine ⟨?_, ?_, ?_⟩
  · intro x hx
    rw [hfm] at hx
    obtain ⟨p, hp, hpx⟩ := List.mem_filterMap.mp hx
    unfold datumFormula at hpx
    split at hpx
    · rename_i hpass
      cases hpx
      rw [hcfgu]
      have hpA : p.2 ∈ C03.aud useStyle cvrs := List.mem_filter.mpr ⟨hsub p hp, hpass⟩
      exact C06.ovA_range hu (by linarith) (score_range hm hcv hph p.2 hpA)
        (C06.mvrAssort_range useStyle p.1 u hu (hmv p.1 (List.of_mem_zip hp).1))
    · cases hpx
  · rw [hfm, ← hB, hBlen]
  · intro hfalse
    rw [hfm, ← hB]
    have hn : (0 : ℚ) < (B.length : ℚ) := by rw [hBlen]; exact_mod_cast hnA
    have hMn : (0 : ℚ) < ((C03.mvrA useStyle mvrs cvrs).length : ℚ) := by rw [hMlen]; exact_mod_cast hnA
    have hmean : (C03.mvrA useStyle mvrs cvrs).sum / ((C03.mvrA useStyle mvrs cvrs).length : ℚ) ≤ 1 / 2 := by
      rw [div_le_iff₀ hMn]; linarith
    have hrhs : (2 * ((C03.mvrA useStyle mvrs cvrs).sum / ((C03.mvrA useStyle mvrs cvrs).length : ℚ)) - 1)
        / (2 * (2 * u - v)) ≤ 0 :=
      div_nonpos_of_nonpos_of_nonneg (by linarith) (by linarith)
    have hBmean : B.sum / (B.length : ℚ) ≤ 1 / 2 := by linarith
    rw [div_le_iff₀ hn] at hBmean
    linarith

/-- **`comparison_full_risk_limit` for cards of any type `α`.**  A card `x` gives the manual record `mv x` and the
CVR `cv x` this assertion's overstatement reads; the population is any list `cards : List α`, and the assertion's
datum for a card is `cardDatum … (mv x, cv x)`.  The data functions of all the OTHER assertions and contests are
arbitrary functions of the card — they may read anything a card carries, not only this assertion's `Mvr × Cvr`.
Hypotheses: those of `comparison_full_risk_limit` for `mvrs = cards.map mv`, `cvrs = cards.map cv` (the two lists
have the same length by construction). -/
theorem comparison_full_risk_limit_cards {α : Type} (mv : α → Mvr) (cv : α → Cvr) (cards : List α)
    (ty : AuditType) (hty : ty = .cardComparison ∨ ty = .oneaudit)
    (useStyle : Bool) (u : ℚ) (means : Option Means)
    (hm : MeansFrom useStyle (cards.map cv) means) (hu : 0 < u)
    (hcv : ∀ c ∈ cards.map cv, 0 ≤ c.a ∧ c.a ≤ u) (hmv : ∀ m ∈ cards.map mv, 0 ≤ m.a ∧ m.a ≤ u)
    (hne : C03.aud useStyle (cards.map cv) ≠ [])
    (hph : ∀ c ∈ C03.aud useStyle (cards.map cv), c.phantom = true → usesPool means c = false → c.a = 1 / 2)
    (margin U : XR) (hmargin : setMarginFromCvrs 1 useStyle ty u (cards.map cv) = .ok (margin, U))
    (data : String → String → α → Option ℚ) (T : String → String → SeqTest) (s : State)
    (c : Contest) (hc : c ∈ s) (a : Assertion) (ha : a ∈ c.assertions)
    (hdata : data c.id a.name = fun x => cardDatum ty useStyle margin u means (mv x, cv x))
    (sqrtF : ℚ → ℚ) (cfg : NM.Cfg) (test : NM.Test)
    (hN : cfg.N = some (C03.aud useStyle (cards.map cv)).length) (ht : cfg.t = 1 / 2) (hcu : XR.fin cfg.u = U)
    (hT : T c.id a.name = NM.run sqrtF cfg test)
    (hdoc : C01.DocumentedFinite sqrtF cfg test)
    (hr0 : 0 < c.riskLimit) (hr1 : c.riskLimit < 1)
    (hfalse : (C03.mvrA useStyle (cards.map mv) (cards.map cv)).sum
      ≤ ((C03.mvrA useStyle (cards.map mv) (cards.map cv)).length : ℚ) / 2) :
    hitG (auditCompleteOpt data T s) cards.length cards [] ≤ c.riskLimit := by
  have hD : cards.filterMap (data c.id a.name)
      = ((cards.map mv).zip (cards.map cv)).filterMap (cardDatum ty useStyle margin u means) := by
    rw [hdata, List.zip_map', List.filterMap_map]
    rfl
  obtain ⟨hr, hl, hn⟩ := comparison_full_data ty hty useStyle u (cards.map cv) (cards.map mv) means hm (by simp) hu
    hcv hmv hne hph margin U hmargin cfg.u hcu
  apply audit_risk_limit_style_run data T s c hc a ha cards sqrtF cfg test _ hT hdoc hr0 hr1
  · rw [hD]; exact hr
  · rw [hD, ht]; exact hn hfalse
  · rw [hD, hl]; exact hN

/-! ### the capstones -/

/-- **Risk limit of a comparison / ONEAudit audit of a plurality contest: a wrong reported outcome.**

* `cards : List α` — the population; a card `x` carries its manual record `ballot x : Vote.CVR` (what a full hand
  count would see: votes, phantom flag = the card could not be found) and the CVR `cv x` as the overstatement model
  reads it — ANY `Cvr`s: phantoms, pooled or not, any pool labelling, any reported assorter values in `[0,1]`
  (`hcv`), whatever they say about who won.
* assertion `a` of contest `c` is "`w` beat `l`" in `contest`: its datum for a card is what `mvrs_to_data` returns
  for the manual record `mvrOf (plurality contest w l) contest (ballot x)` and the CVR `cv x` (`hdata`), assorter
  upper bound 1; `ty`, `useStyle`, `means`, `hm`, `hne`, `hph`, `margin`, `U`, `hmargin`, the test (`N` = number of
  cards under audit, `t = 1/2`, `u = U`, any shipped `NonnegMean` test in its documented range) are as in
  `comparison_full_risk_limit`.
* `hwrong`: on the manual records the reported outcome is wrong (or a tie): over the FOUND ballots of the cards under
  audit `w` has at most as many marks as `l`, an unfindable card and (under style) a record lacking the contest
  counting as one more mark for `l`.  In particular `marks w F ≤ marks l F` suffices
  (`plurality_comparison_risk_limit_found`); the marks over the found ballots are the marks over all the cards under
  audit that could be found (`marks_foundBallots`: a record lacking the contest shows no mark).

Then the probability, over all orders in which the cards are drawn, that the audit is EVER reported complete is at
most the contest's risk limit — whatever the CVRs say, whatever the other assertions, contests and tests are. -/
theorem plurality_comparison_risk_limit {α : Type} (ballot : α → CVR) (cv : α → Cvr) (cards : List α)
    (contest w l : String)
    (ty : AuditType) (hty : ty = .cardComparison ∨ ty = .oneaudit)
    (useStyle : Bool) (means : Option Means)
    (hm : MeansFrom useStyle (cards.map cv) means)
    (hcv : ∀ c ∈ cards.map cv, 0 ≤ c.a ∧ c.a ≤ 1)
    (hne : C03.aud useStyle (cards.map cv) ≠ [])
    (hph : ∀ c ∈ C03.aud useStyle (cards.map cv), c.phantom = true → usesPool means c = false → c.a = 1 / 2)
    (margin U : XR) (hmargin : setMarginFromCvrs 1 useStyle ty 1 (cards.map cv) = .ok (margin, U))
    (data : String → String → α → Option ℚ) (T : String → String → SeqTest) (s : State)
    (c : Contest) (hc : c ∈ s) (a : Assertion) (ha : a ∈ c.assertions)
    (hdata : data c.id a.name = fun x =>
      cardDatum ty useStyle margin 1 means (mvrOf (Assorter.plurality contest w l) contest (ballot x), cv x))
    (sqrtF : ℚ → ℚ) (cfg : NM.Cfg) (test : NM.Test)
    (hN : cfg.N = some (C03.aud useStyle (cards.map cv)).length) (ht : cfg.t = 1 / 2) (hcu : XR.fin cfg.u = U)
    (hT : T c.id a.name = NM.run sqrtF cfg test)
    (hdoc : C01.DocumentedFinite sqrtF cfg test)
    (hr0 : 0 < c.riskLimit) (hr1 : c.riskLimit < 1)
    (hwrong : C02.marks contest w (foundBallots useStyle contest ballot cv cards)
        ≤ C02.marks contest l (foundBallots useStyle contest ballot cv cards)
          + lostCount useStyle contest ballot cv cards) :
    hitG (auditCompleteOpt data T s) cards.length cards [] ≤ c.riskLimit :=
  comparison_full_risk_limit_cards (fun x => mvrOf (Assorter.plurality contest w l) contest (ballot x)) cv cards
    ty hty useStyle 1 means hm one_pos hcv
    (by
      intro m hmm
      obtain ⟨x, _, rfl⟩ := List.mem_map.mp hmm
      exact ⟨(C02.assort_range_plur contest w l (ballot x)).1, (C02.assort_range_plur contest w l (ballot x)).2.1⟩)
    hne hph margin U hmargin data T s c hc a ha hdata sqrtF cfg test hN ht hcu hT hdoc hr0 hr1
    (plurality_comparison_null useStyle contest w l ballot cv cards hwrong)

/-- the same with the plain hypothesis: on the found ballots of the cards under audit the reported loser `l` has at
least as many marks as the reported winner `w` -/
theorem plurality_comparison_risk_limit_found {α : Type} (ballot : α → CVR) (cv : α → Cvr) (cards : List α)
    (contest w l : String)
    (ty : AuditType) (hty : ty = .cardComparison ∨ ty = .oneaudit)
    (useStyle : Bool) (means : Option Means)
    (hm : MeansFrom useStyle (cards.map cv) means)
    (hcv : ∀ c ∈ cards.map cv, 0 ≤ c.a ∧ c.a ≤ 1)
    (hne : C03.aud useStyle (cards.map cv) ≠ [])
    (hph : ∀ c ∈ C03.aud useStyle (cards.map cv), c.phantom = true → usesPool means c = false → c.a = 1 / 2)
    (margin U : XR) (hmargin : setMarginFromCvrs 1 useStyle ty 1 (cards.map cv) = .ok (margin, U))
    (data : String → String → α → Option ℚ) (T : String → String → SeqTest) (s : State)
    (c : Contest) (hc : c ∈ s) (a : Assertion) (ha : a ∈ c.assertions)
    (hdata : data c.id a.name = fun x =>
      cardDatum ty useStyle margin 1 means (mvrOf (Assorter.plurality contest w l) contest (ballot x), cv x))
    (sqrtF : ℚ → ℚ) (cfg : NM.Cfg) (test : NM.Test)
    (hN : cfg.N = some (C03.aud useStyle (cards.map cv)).length) (ht : cfg.t = 1 / 2) (hcu : XR.fin cfg.u = U)
    (hT : T c.id a.name = NM.run sqrtF cfg test)
    (hdoc : C01.DocumentedFinite sqrtF cfg test)
    (hr0 : 0 < c.riskLimit) (hr1 : c.riskLimit < 1)
    (hwrong : C02.marks contest w (foundBallots useStyle contest ballot cv cards)
        ≤ C02.marks contest l (foundBallots useStyle contest ballot cv cards)) :
    hitG (auditCompleteOpt data T s) cards.length cards [] ≤ c.riskLimit :=
  plurality_comparison_risk_limit ballot cv cards contest w l ty hty useStyle means hm hcv hne hph margin U hmargin
    data T s c hc a ha hdata sqrtF cfg test hN ht hcu hT hdoc hr0 hr1 (Nat.le_add_right_of_le hwrong)

/-- **Risk limit of a comparison / ONEAudit audit of a super-majority contest** (`0 < f < 1`, assorter upper bound
`superUpper f = 1/(2f)`): as `plurality_comparison_risk_limit`, with `hwrong`: over the found ballots of the cards
under audit the reported winner's valid votes are at most the share `f` of the valid votes, an unfindable card and
(under style) a record lacking the contest counting as one more valid vote for someone else.  In particular
`wvalid F ≤ f · valid F` suffices (`supermajority_comparison_risk_limit_found`). -/
theorem supermajority_comparison_risk_limit {α : Type} (ballot : α → CVR) (cv : α → Cvr) (cards : List α)
    (contest w : String) (cands : List String) (f : ℚ) (hf0 : 0 < f) (hf1 : f < 1)
    (ty : AuditType) (hty : ty = .cardComparison ∨ ty = .oneaudit)
    (useStyle : Bool) (means : Option Means)
    (hm : MeansFrom useStyle (cards.map cv) means)
    (hcv : ∀ c ∈ cards.map cv, 0 ≤ c.a ∧ c.a ≤ Assorter.superUpper f)
    (hne : C03.aud useStyle (cards.map cv) ≠ [])
    (hph : ∀ c ∈ C03.aud useStyle (cards.map cv), c.phantom = true → usesPool means c = false → c.a = 1 / 2)
    (margin U : XR)
    (hmargin : setMarginFromCvrs 1 useStyle ty (Assorter.superUpper f) (cards.map cv) = .ok (margin, U))
    (data : String → String → α → Option ℚ) (T : String → String → SeqTest) (s : State)
    (c : Contest) (hc : c ∈ s) (a : Assertion) (ha : a ∈ c.assertions)
    (hdata : data c.id a.name = fun x =>
      cardDatum ty useStyle margin (Assorter.superUpper f) means
        (mvrOf (Assorter.supermajority contest w cands f) contest (ballot x), cv x))
    (sqrtF : ℚ → ℚ) (cfg : NM.Cfg) (test : NM.Test)
    (hN : cfg.N = some (C03.aud useStyle (cards.map cv)).length) (ht : cfg.t = 1 / 2) (hcu : XR.fin cfg.u = U)
    (hT : T c.id a.name = NM.run sqrtF cfg test)
    (hdoc : C01.DocumentedFinite sqrtF cfg test)
    (hr0 : 0 < c.riskLimit) (hr1 : c.riskLimit < 1)
    (hwrong : (C02.wvalid contest cands w (foundBallots useStyle contest ballot cv cards) : ℚ)
        ≤ f * ((C02.valid contest cands (foundBallots useStyle contest ballot cv cards) : ℚ)
          + (lostCount useStyle contest ballot cv cards : ℚ))) :
    hitG (auditCompleteOpt data T s) cards.length cards [] ≤ c.riskLimit :=
  comparison_full_risk_limit_cards (fun x => mvrOf (Assorter.supermajority contest w cands f) contest (ballot x))
    cv cards ty hty useStyle (Assorter.superUpper f) means hm
    (by unfold Assorter.superUpper; positivity) hcv
    (by
      intro m hmm
      obtain ⟨x, _, rfl⟩ := List.mem_map.mp hmm
      exact C02.assort_range_super contest w cands f hf0 hf1 (ballot x))
    hne hph margin U hmargin data T s c hc a ha hdata sqrtF cfg test hN ht hcu hT hdoc hr0 hr1
    (supermajority_comparison_null useStyle contest w cands f hf0 ballot cv cards hwrong)

/-- the same with the plain hypothesis `wvalid ≤ f · valid` on the found ballots of the cards under audit -/
theorem supermajority_comparison_risk_limit_found {α : Type} (ballot : α → CVR) (cv : α → Cvr) (cards : List α)
    (contest w : String) (cands : List String) (f : ℚ) (hf0 : 0 < f) (hf1 : f < 1)
    (ty : AuditType) (hty : ty = .cardComparison ∨ ty = .oneaudit)
    (useStyle : Bool) (means : Option Means)
    (hm : MeansFrom useStyle (cards.map cv) means)
    (hcv : ∀ c ∈ cards.map cv, 0 ≤ c.a ∧ c.a ≤ Assorter.superUpper f)
    (hne : C03.aud useStyle (cards.map cv) ≠ [])
    (hph : ∀ c ∈ C03.aud useStyle (cards.map cv), c.phantom = true → usesPool means c = false → c.a = 1 / 2)
    (margin U : XR)
    (hmargin : setMarginFromCvrs 1 useStyle ty (Assorter.superUpper f) (cards.map cv) = .ok (margin, U))
    (data : String → String → α → Option ℚ) (T : String → String → SeqTest) (s : State)
    (c : Contest) (hc : c ∈ s) (a : Assertion) (ha : a ∈ c.assertions)
    (hdata : data c.id a.name = fun x =>
      cardDatum ty useStyle margin (Assorter.superUpper f) means
        (mvrOf (Assorter.supermajority contest w cands f) contest (ballot x), cv x))
    (sqrtF : ℚ → ℚ) (cfg : NM.Cfg) (test : NM.Test)
    (hN : cfg.N = some (C03.aud useStyle (cards.map cv)).length) (ht : cfg.t = 1 / 2) (hcu : XR.fin cfg.u = U)
    (hT : T c.id a.name = NM.run sqrtF cfg test)
    (hdoc : C01.DocumentedFinite sqrtF cfg test)
    (hr0 : 0 < c.riskLimit) (hr1 : c.riskLimit < 1)
    (hwrong : (C02.wvalid contest cands w (foundBallots useStyle contest ballot cv cards) : ℚ)
        ≤ f * (C02.valid contest cands (foundBallots useStyle contest ballot cv cards) : ℚ)) :
    hitG (auditCompleteOpt data T s) cards.length cards [] ≤ c.riskLimit := by
  apply supermajority_comparison_risk_limit ballot cv cards contest w cands f hf0 hf1 ty hty useStyle means hm hcv
    hne hph margin U hmargin data T s c hc a ha hdata sqrtF cfg test hN ht hcu hT hdoc hr0 hr1
  have hz : (0 : ℚ) ≤ (lostCount useStyle contest ballot cv cards : ℚ) := Nat.cast_nonneg _
  have : 0 ≤ f * (lostCount useStyle contest ballot cv cards : ℚ) := mul_nonneg (le_of_lt hf0) hz
  rw [mul_add]
  linarith

/-! ### the literal form: a list of true ballots and a list of CVRs

The population of `comparison_full_risk_limit` — `mvrs.zip cvrs : List MCard` — with `mvrs` obtained by `mvrOf` from
the list of true ballots; the data function is `cardDatum` itself. -/

theorem zip_ballots (assort : CVR → ℚ) (contest : String) (ballots : List CVR) (cvrs : List Cvr)
    (hlen : ballots.length = cvrs.length) :
    (ballots.zip cvrs).map (fun x => mvrOf assort contest x.1) = ballots.map (mvrOf assort contest) ∧
    (ballots.zip cvrs).map Prod.snd = cvrs := by
  constructor
  · have : (fun x : CVR × Cvr => mvrOf assort contest x.1) = mvrOf assort contest ∘ Prod.fst := rfl
    rw [this, ← List.map_map, List.map_fst_zip (by omega)]
  · exact List.map_snd_zip (by omega)

/-- `plurality_comparison_risk_limit` on the population `(ballots.map (mvrOf …)).zip cvrs` of
`comparison_full_risk_limit` -/
theorem plurality_comparison_risk_limit_zip (ballots : List CVR) (cvrs : List Cvr)
    (hlen : ballots.length = cvrs.length) (contest w l : String)
    (ty : AuditType) (hty : ty = .cardComparison ∨ ty = .oneaudit)
    (useStyle : Bool) (means : Option Means)
    (hm : MeansFrom useStyle cvrs means)
    (hcv : ∀ c ∈ cvrs, 0 ≤ c.a ∧ c.a ≤ 1)
    (hne : C03.aud useStyle cvrs ≠ [])
    (hph : ∀ c ∈ C03.aud useStyle cvrs, c.phantom = true → usesPool means c = false → c.a = 1 / 2)
    (margin U : XR) (hmargin : setMarginFromCvrs 1 useStyle ty 1 cvrs = .ok (margin, U))
    (data : String → String → MCard → Option ℚ) (T : String → String → SeqTest) (s : State)
    (c : Contest) (hc : c ∈ s) (a : Assertion) (ha : a ∈ c.assertions)
    (hdata : data c.id a.name = cardDatum ty useStyle margin 1 means)
    (sqrtF : ℚ → ℚ) (cfg : NM.Cfg) (test : NM.Test)
    (hN : cfg.N = some (C03.aud useStyle cvrs).length) (ht : cfg.t = 1 / 2) (hcu : XR.fin cfg.u = U)
    (hT : T c.id a.name = NM.run sqrtF cfg test)
    (hdoc : C01.DocumentedFinite sqrtF cfg test)
    (hr0 : 0 < c.riskLimit) (hr1 : c.riskLimit < 1)
    (hwrong : C02.marks contest w (foundBallots useStyle contest Prod.fst Prod.snd (ballots.zip cvrs))
        ≤ C02.marks contest l (foundBallots useStyle contest Prod.fst Prod.snd (ballots.zip cvrs))
          + lostCount useStyle contest Prod.fst Prod.snd (ballots.zip cvrs)) :
    hitG (auditCompleteOpt data T s) ((ballots.map (mvrOf (Assorter.plurality contest w l) contest)).zip cvrs).length
      ((ballots.map (mvrOf (Assorter.plurality contest w l) contest)).zip cvrs) [] ≤ c.riskLimit := by
  obtain ⟨h1, h2⟩ := zip_ballots (Assorter.plurality contest w l) contest ballots cvrs hlen
  have hfalse := plurality_comparison_null useStyle contest w l Prod.fst Prod.snd (ballots.zip cvrs) hwrong
  rw [h1, h2] at hfalse
  exact comparison_full_risk_limit ty hty useStyle 1 cvrs _ means hm (by simpa using hlen) one_pos hcv
    (by
      intro m hmm
      obtain ⟨x, _, rfl⟩ := List.mem_map.mp hmm
      exact ⟨(C02.assort_range_plur contest w l x).1, (C02.assort_range_plur contest w l x).2.1⟩)
    hne hph margin U hmargin data T s c hc a ha hdata sqrtF cfg test hN ht hcu hT hdoc hr0 hr1 hfalse

/-- `supermajority_comparison_risk_limit` on the population `(ballots.map (mvrOf …)).zip cvrs` -/
theorem supermajority_comparison_risk_limit_zip (ballots : List CVR) (cvrs : List Cvr)
    (hlen : ballots.length = cvrs.length) (contest w : String) (cands : List String) (f : ℚ)
    (hf0 : 0 < f) (hf1 : f < 1)
    (ty : AuditType) (hty : ty = .cardComparison ∨ ty = .oneaudit)
    (useStyle : Bool) (means : Option Means)
    (hm : MeansFrom useStyle cvrs means)
    (hcv : ∀ c ∈ cvrs, 0 ≤ c.a ∧ c.a ≤ Assorter.superUpper f)
    (hne : C03.aud useStyle cvrs ≠ [])
    (hph : ∀ c ∈ C03.aud useStyle cvrs, c.phantom = true → usesPool means c = false → c.a = 1 / 2)
    (margin U : XR) (hmargin : setMarginFromCvrs 1 useStyle ty (Assorter.superUpper f) cvrs = .ok (margin, U))
    (data : String → String → MCard → Option ℚ) (T : String → String → SeqTest) (s : State)
    (c : Contest) (hc : c ∈ s) (a : Assertion) (ha : a ∈ c.assertions)
    (hdata : data c.id a.name = cardDatum ty useStyle margin (Assorter.superUpper f) means)
    (sqrtF : ℚ → ℚ) (cfg : NM.Cfg) (test : NM.Test)
    (hN : cfg.N = some (C03.aud useStyle cvrs).length) (ht : cfg.t = 1 / 2) (hcu : XR.fin cfg.u = U)
    (hT : T c.id a.name = NM.run sqrtF cfg test)
    (hdoc : C01.DocumentedFinite sqrtF cfg test)
    (hr0 : 0 < c.riskLimit) (hr1 : c.riskLimit < 1)
    (hwrong : (C02.wvalid contest cands w (foundBallots useStyle contest Prod.fst Prod.snd (ballots.zip cvrs)) : ℚ)
        ≤ f * ((C02.valid contest cands (foundBallots useStyle contest Prod.fst Prod.snd (ballots.zip cvrs)) : ℚ)
          + (lostCount useStyle contest Prod.fst Prod.snd (ballots.zip cvrs) : ℚ))) :
    hitG (auditCompleteOpt data T s)
      ((ballots.map (mvrOf (Assorter.supermajority contest w cands f) contest)).zip cvrs).length
      ((ballots.map (mvrOf (Assorter.supermajority contest w cands f) contest)).zip cvrs) [] ≤ c.riskLimit := by
  obtain ⟨h1, h2⟩ := zip_ballots (Assorter.supermajority contest w cands f) contest ballots cvrs hlen
  have hfalse := supermajority_comparison_null useStyle contest w cands f hf0 Prod.fst Prod.snd (ballots.zip cvrs)
    hwrong
  rw [h1, h2] at hfalse
  exact comparison_full_risk_limit ty hty useStyle (Assorter.superUpper f) cvrs _ means hm (by simpa using hlen)
    (by unfold Assorter.superUpper; positivity) hcv
    (by
      intro m hmm
      obtain ⟨x, _, rfl⟩ := List.mem_map.mp hmm
      exact C02.assort_range_super contest w cands f hf0 hf1 x)
    hne hph margin U hmargin data T s c hc a ha hdata sqrtF cfg test hN ht hcu hT hdoc hr0 hr1 hfalse

/-! ### non-vacuity

Contest "AvB", reported winner `a`, reported loser `b`; card comparison under style-based sampling, five cards.
The machine reported `a, a, a, b` and one phantom CVR (`make_phantoms`: the contest listed, no votes): `a` wins 3 to 1,
reported assorter mean 7/10, reported margin 2/5 > 0, test bound 2/(2 − 2/5) = 5/4.
The manual records: `a`; `b` (the CVR said `a`); a record that does not list the contest (the CVR said `a`); `b`; the
phantom's card cannot be found.  On the three found ballots `a` has 1 mark and `b` has 2; two records are scored 0.
The overstatement-assorter values are 5/8, 0, 0, 5/8, 5/16 (mean 5/16 ≤ 1/2). -/

section example_
open Shangrla.NM

def exBallot (id : String) (m : Marks) : CVR := { id := id, votes := [("AvB", m)] }

/-- what the machine reported -/
def exReported : List CVR :=
  [exBallot "1" [("a", .b true)], exBallot "2" [("a", .b true)], exBallot "3" [("a", .b true)],
   exBallot "4" [("b", .b true)], { id := "5", votes := [("AvB", [])], phantom := true }]

/-- what the auditors see -/
def exManual : List CVR :=
  [exBallot "1" [("a", .b true)], exBallot "2" [("b", .b true)],
   { id := "3", votes := [("other", [("x", .b true)])] }, exBallot "4" [("b", .b true)],
   { id := "5", phantom := true }]

/-- the CVRs as the overstatement model reads them (no pools) -/
def exCvrsO : List Cvr := exReported.map (cvrOf (Assorter.plurality "AvB" "a" "b") "AvB" false none 0)

/-- a card: its true ballot and its CVR -/
def cardsO : List (CVR × Cvr) := exManual.zip exCvrsO

def cfgO : Cfg := { N := some 5, u := 5/4, t := 1/2, randomOrder := true, kw := { eta := some 1 } }
def dataO : String → String → CVR × Cvr → Option ℚ :=
  fun _ _ x => cardDatum .cardComparison true (XR.fin (2/5)) 1 none
    (mvrOf (Assorter.plurality "AvB" "a" "b") "AvB" x.1, x.2)
def TO : String → String → SeqTest := fun _ _ => NM.run sqrtRat cfgO (.alpha .fixedAlt)
def sO : State := [{ id := "c", riskLimit := 9/10, assertions := [{ name := "a" }] }]

/-- the CVRs say `a` won comfortably: 3 marks to 1, reported margin 2/5, test bound 5/4 -/
example : C02.marks "AvB" "a" exReported = 3 ∧ C02.marks "AvB" "b" exReported = 1 ∧
    setMarginFromCvrs 1 true .cardComparison 1 (cardsO.map Prod.snd) = .ok (XR.fin (2/5), XR.fin (5/4)) := by
  decide +kernel

/-- the manual records say otherwise: on the found ballots `a` has 1 mark, `b` has 2, and two records are scored 0
(one unfindable card, one record lacking the contest) -/
example : C02.marks "AvB" "a" (foundBallots true "AvB" Prod.fst Prod.snd cardsO) = 1 ∧
    C02.marks "AvB" "b" (foundBallots true "AvB" Prod.fst Prod.snd cardsO) = 2 ∧
    lostCount true "AvB" Prod.fst Prod.snd cardsO = 2 := by
  decide +kernel

/-- the data are read off the two models: `mvrOf` of the true ballot, then `mvrs_to_data` -/
example : cardsO.map (dataO "c" "a") = [some (5 / 8), some 0, some 0, some (5 / 8), some (5 / 16)] := by
  decide +kernel

/-- every hypothesis of `plurality_comparison_risk_limit_found` is satisfied by this population ... -/
example : hitG (auditCompleteOpt dataO TO sO) 5 cardsO [] ≤ 9/10 :=
  plurality_comparison_risk_limit_found Prod.fst Prod.snd cardsO "AvB" "a" "b" .cardComparison (Or.inl rfl) true none
    MeansFrom.unset (by decide +kernel) (by decide +kernel) (by decide +kernel)
    (XR.fin (2/5)) (XR.fin (5/4)) (by decide +kernel)
    dataO TO sO _ (List.mem_singleton.2 rfl) { name := "a" } (by simp) rfl
    sqrtRat cfgO (.alpha .fixedAlt) (by decide +kernel) rfl rfl rfl
    ⟨by norm_num [cfgO], ⟨by norm_num [cfgO, eps], by norm_num [cfgO, eps], by norm_num [cfgO]⟩, trivial⟩
    (by norm_num) (by norm_num) (by decide +kernel)

/-- ... and the bounded event really happens: although on the manual records `b` beat `a`, over the 120 orders of
the five cards the audit is reported complete with probability 2/5 (kernel-computed) — below the bound 9/10 -/
theorem example_comparison_outcome_exact : hitG (auditCompleteOpt dataO TO sO) 5 cardsO [] = 2/5 := by
  decide +kernel

/-! the same five cards for the super-majority assertion "`a` has more than 2/3 of the valid votes" (assorter bound
`1/(2f) = 3/4`): the CVRs say 3 of 4 valid votes (reported assorter mean 11/20, margin 1/10, test bound 15/14); on
the found ballots `a` has 1 of 3 valid votes. -/

def exCvrsS : List Cvr :=
  exReported.map (cvrOf (Assorter.supermajority "AvB" "a" ["b", "a"] (2/3)) "AvB" false none 0)
def cardsS2 : List (CVR × Cvr) := exManual.zip exCvrsS
def cfgS2 : Cfg := { N := some 5, u := 15/14, t := 1/2, randomOrder := true, kw := { eta := some (3/4) } }
def dataS2 : String → String → CVR × Cvr → Option ℚ :=
  fun _ _ x => cardDatum .cardComparison true (XR.fin (1/10)) (Assorter.superUpper (2/3)) none
    (mvrOf (Assorter.supermajority "AvB" "a" ["b", "a"] (2/3)) "AvB" x.1, x.2)
def TS2 : String → String → SeqTest := fun _ _ => NM.run sqrtRat cfgS2 (.alpha .fixedAlt)

example : C02.wvalid "AvB" ["b", "a"] "a" exReported = 3 ∧ C02.valid "AvB" ["b", "a"] exReported = 4 ∧
    C02.wvalid "AvB" ["b", "a"] "a" (foundBallots true "AvB" Prod.fst Prod.snd cardsS2) = 1 ∧
    C02.valid "AvB" ["b", "a"] (foundBallots true "AvB" Prod.fst Prod.snd cardsS2) = 3 := by
  decide +kernel

/-- every hypothesis of `supermajority_comparison_risk_limit_found` is satisfied -/
example : hitG (auditCompleteOpt dataS2 TS2 sO) 5 cardsS2 [] ≤ 9/10 :=
  supermajority_comparison_risk_limit_found Prod.fst Prod.snd cardsS2 "AvB" "a" ["b", "a"] (2/3)
    (by norm_num) (by norm_num) .cardComparison (Or.inl rfl) true none
    MeansFrom.unset (by decide +kernel) (by decide +kernel) (by decide +kernel)
    (XR.fin (1/10)) (XR.fin (15/14)) (by decide +kernel)
    dataS2 TS2 sO _ (List.mem_singleton.2 rfl) { name := "a" } (by simp) rfl
    sqrtRat cfgS2 (.alpha .fixedAlt) (by decide +kernel) rfl rfl rfl
    ⟨by norm_num [cfgS2], ⟨by norm_num [cfgS2, eps], by norm_num [cfgS2, eps], by norm_num [cfgS2]⟩, trivial⟩
    (by norm_num) (by norm_num) (by decide +kernel)

end example_

end Shangrla.RiskLimit
