/-
  C08, first sentence — phantom records account for every possible card.
  (The overstatement theorems of C08, `phantom_mvr_worst` and `phantom_cvr_half`, live in the package of
  C03/C06 and are registered together with these in harness/propdefs/C08.py.)

  Theorems are about the literal model `Shangrla.Phantoms.makePhantoms` of `CVR.make_phantoms` that the driver
  executes.  A record is (id, the contests it lists, phantom flag); votes are not an argument of the model.
  Helper lemmas: `Shangrla/Lemmas/Phantoms.lean`.
-/
import Shangrla.Lemmas.Phantoms

namespace Shangrla.C08
open Shangrla.Sampling (ContestId Contest)
open Shangrla.Phantoms

/-- the contest's card bound after the call: the user's bound when style information is used and a bound was
given, the stratum's `max_cards` otherwise -/
def bound (useStyle : Bool) (maxCards : Nat) (con : Contest) : Nat :=
  if con.cards.isNone || !useStyle then maxCards else con.cards.getD 0

/-- number of records of a list that list contest `c` -/
def listing (recs : List Rec) (c : ContestId) : Nat := (recs.filter (fun r => r.has c)).length

/-- the largest shortfall `cards_c − cvrs_c` over the contests (0 if there is no contest) -/
def maxShortfall (useStyle : Bool) (maxCards : Nat) (cvrs : List Rec) (contests : List Contest) : Nat :=
  contests.foldl (fun m con => max m (bound useStyle maxCards con - countCvrs cvrs con.id)) 0

theorem setParams_eq (useStyle : Bool) (maxCards : Nat) (cvrs : List Rec) (contests : List Contest) :
    setParams useStyle maxCards cvrs contests =
      contests.map (fun con => { con with cvrs := countCvrs cvrs con.id, cards := some (bound useStyle maxCards con) }) := by
  unfold setParams
  apply List.map_congr_left
  intro con _
  unfold bound
  cases hc : con.cards with
  | none => simp
  | some k => cases useStyle <;> simp

theorem needed_setParams (useStyle : Bool) (maxCards : Nat) (cvrs : List Rec) (con : Contest) :
    needed { con with cvrs := countCvrs cvrs con.id, cards := some (bound useStyle maxCards con) }
      = bound useStyle maxCards con - countCvrs cvrs con.id := rfl

theorem maxNeeded_setParams (useStyle : Bool) (maxCards : Nat) (cvrs : List Rec) (contests : List Contest) :
    maxNeeded (setParams useStyle maxCards cvrs contests) = maxShortfall useStyle maxCards cvrs contests := by
  rw [setParams_eq]
  unfold maxNeeded maxShortfall
  rw [List.foldl_map]
  rfl

/-- **C08, style information used.** For contests with distinct ids:
* the result is the original list followed by the phantoms (originals unchanged and first); every phantom is
  flagged and lists only audited contests;
* the number of phantoms (also the reported count) is the largest shortfall `max_c (cards_c − cvrs_c)`, 0 without
  contests — never more;
* every contest gets `cvrs` = the number of non-phantom records listing it and `cards` = its bound
  (`max_cards` when unspecified);
* for every contest the records listing it are the original ones listing it plus exactly `cards_c − cvrs_c`
  phantoms; hence, when the bound is at least the count and no phantom record was passed in that lists the contest,
  exactly `cards_c` records (real plus phantom) list it. -/
theorem phantoms_style (maxCards : Nat) (pfx : String) (contests : List Contest) (cvrs : List Rec)
    (hid : (contests.map (·.id)).Nodup) :
    ∃ ph : List Rec,
      (makePhantoms true maxCards pfx contests cvrs).1 = cvrs ++ ph ∧
      (∀ r ∈ ph, r.phantom = true ∧ ∀ c ∈ r.styles, c ∈ contests.map (·.id)) ∧
      (makePhantoms true maxCards pfx contests cvrs).2.1 = (ph.length : Int) ∧
      ph.length = maxShortfall true maxCards cvrs contests ∧
      (makePhantoms true maxCards pfx contests cvrs).2.2 =
        contests.map (fun con => { con with cvrs := countCvrs cvrs con.id, cards := some (bound true maxCards con) }) ∧
      ∀ con ∈ contests,
        listing ph con.id = bound true maxCards con - countCvrs cvrs con.id ∧
        listing (cvrs ++ ph) con.id = listing cvrs con.id + (bound true maxCards con - countCvrs cvrs con.id) ∧
        (countCvrs cvrs con.id ≤ bound true maxCards con →
          (∀ r ∈ cvrs, r.phantom = true → r.has con.id = false) →
          listing (cvrs ++ ph) con.id = bound true maxCards con) := by
  have hid' : ((setParams true maxCards cvrs contests).map (·.id)).Nodup := by
    rw [setParams_eq, List.map_map]; exact hid
  refine ⟨closed pfx (setParams true maxCards cvrs contests), ?_, ?_, ?_, ?_, ?_, ?_⟩
  · simp [makePhantoms, style_phantoms pfx _ hid']
  · intro r hr
    have := closed_styles pfx _ r hr
    refine ⟨this.1, ?_⟩
    intro c hc
    have h2 := this.2 c hc
    rw [setParams_eq, List.map_map] at h2
    exact h2
  · simp [makePhantoms, style_phantoms pfx _ hid']
  · simp [closed, maxNeeded_setParams]
  · simp [makePhantoms, setParams_eq]
  · intro con hm
    have hm' : ({ con with cvrs := countCvrs cvrs con.id, cards := some (bound true maxCards con) } : Contest)
        ∈ setParams true maxCards cvrs contests := by
      rw [setParams_eq]; exact List.mem_map.2 ⟨con, hm, rfl⟩
    have hc := count_closed pfx _ hid' _ hm'
    rw [needed_setParams] at hc
    have hph : listing (closed pfx (setParams true maxCards cvrs contests)) con.id
        = bound true maxCards con - countCvrs cvrs con.id := hc
    have happ : listing (cvrs ++ closed pfx (setParams true maxCards cvrs contests)) con.id
        = listing cvrs con.id + (bound true maxCards con - countCvrs cvrs con.id) := by
      unfold listing at hph ⊢
      rw [List.filter_append, List.length_append, hph]
    refine ⟨hph, happ, ?_⟩
    intro hle hnoph
    rw [happ]
    have : listing cvrs con.id = countCvrs cvrs con.id := by
      unfold listing countCvrs
      congr 1
      apply List.filter_congr
      intro r hr
      cases hp : r.phantom with
      | false => simp
      | true => simp [hnoph r hr hp]
    rw [this]; omega

/-- **C08, style information not used.** When the stratum's bound is at least the number of records, the result
is the original list followed by `max_cards − #records` phantoms that list nothing, so the total number of records
equals the stratum's card bound; the reported count is that number; and every contest's `cards` is `max_cards`. -/
theorem phantoms_nostyle (maxCards : Nat) (pfx : String) (contests : List Contest) (cvrs : List Rec) :
    ∃ ph : List Rec,
      (makePhantoms false maxCards pfx contests cvrs).1 = cvrs ++ ph ∧
      (∀ r ∈ ph, r.phantom = true ∧ r.styles = []) ∧
      ph.length = maxCards - cvrs.length ∧
      (makePhantoms false maxCards pfx contests cvrs).2.1 = (maxCards : Int) - (cvrs.length : Int) ∧
      (cvrs.length ≤ maxCards → (makePhantoms false maxCards pfx contests cvrs).1.length = maxCards) ∧
      (∀ con ∈ (makePhantoms false maxCards pfx contests cvrs).2.2, con.cards = some maxCards) ∧
      (makePhantoms false maxCards pfx contests cvrs).2.2 =
        contests.map (fun con => { con with cvrs := countCvrs cvrs con.id, cards := some maxCards }) := by
  refine ⟨(List.range (maxCards - cvrs.length)).map (mkPhantom pfx), ?_, ?_, ?_, ?_, ?_, ?_, ?_⟩
  · simp [makePhantoms]
  · intro r hr
    rw [List.mem_map] at hr
    obtain ⟨k, _, rfl⟩ := hr
    exact ⟨rfl, rfl⟩
  · simp
  · simp [makePhantoms]
  · intro h; simp [makePhantoms]; omega
  · intro con hm
    simp only [makePhantoms, Bool.not_false, if_true] at hm
    rw [setParams_eq, List.mem_map] at hm
    obtain ⟨c, _, rfl⟩ := hm
    simp [bound]
  · simp [makePhantoms, setParams_eq, bound]

/-- **C08, phantom identifiers.** In both branches the `k`-th phantom created has identifier
`prefix ++ str(k+1)`, and these identifiers are pairwise distinct. -/
theorem phantom_ids_distinct (useStyle : Bool) (maxCards : Nat) (pfx : String) (contests : List Contest)
    (cvrs : List Rec) (hid : (contests.map (·.id)).Nodup) :
    ∃ ph : List Rec,
      (makePhantoms useStyle maxCards pfx contests cvrs).1 = cvrs ++ ph ∧
      (∀ (k : Nat) (r : Rec), ph[k]? = some r → r.id = pfx ++ toString (k + 1)) ∧
      (ph.map (·.id)).Nodup := by
  cases useStyle with
  | false =>
    refine ⟨(List.range' 0 (maxCards - cvrs.length)).map (mkPhantom pfx), ?_, ?_, ?_⟩
    · simp [makePhantoms, List.range_eq_range']
    · intro k r hk
      rw [List.getElem?_map] at hk
      cases h : (List.range' 0 (maxCards - cvrs.length))[k]? with
      | none => rw [h] at hk; simp at hk
      | some j =>
        rw [h] at hk
        simp only [Option.map_some, Option.some.injEq] at hk
        have hj := (List.getElem?_eq_some_iff.1 h)
        obtain ⟨hlt, hj⟩ := hj
        rw [List.getElem_range'] at hj
        subst hk
        simp only [mkPhantom]
        rw [← hj]; simp
    · exact ids_nodup pfx (mkPhantom pfx) (fun k => rfl) 0 _
  | true =>
    have hid' : ((setParams true maxCards cvrs contests).map (·.id)).Nodup := by
      rw [setParams_eq, List.map_map]; exact hid
    refine ⟨closed pfx (setParams true maxCards cvrs contests), ?_, ?_, ?_⟩
    · simp [makePhantoms, style_phantoms pfx _ hid']
    · intro k r hk
      unfold closed at hk
      rw [List.getElem?_map] at hk
      cases h : (List.range' 0 (maxNeeded (setParams true maxCards cvrs contests)))[k]? with
      | none => rw [h] at hk; simp at hk
      | some j =>
        rw [h] at hk
        simp only [Option.map_some, Option.some.injEq] at hk
        obtain ⟨hlt, hj⟩ := List.getElem?_eq_some_iff.1 h
        rw [List.getElem_range'] at hj
        subst hk
        simp only [phantomAt]
        rw [← hj]; simp
    · exact ids_nodup pfx (phantomAt pfx _) (fun k => rfl) 0 _

/-! ### Non-vacuity: the suite's `test_make_phantoms` configuration (6 CVRs, 2 contests, bound 8) -/

def exCvrs : List Rec :=
  [⟨"1", ["city_council", "measure_1"], false⟩, ⟨"2", ["city_council", "measure_1"], false⟩,
   ⟨"3", ["city_council", "measure_1"], false⟩, ⟨"4", ["city_council"], false⟩, ⟨"5", ["city_council"], false⟩,
   ⟨"6", ["measure_1"], false⟩]
def exContests : List Contest := [⟨"city_council", 0, none, none, 0⟩, ⟨"measure_1", 0, none, some 5, 0⟩]

example : (exContests.map (·.id)).Nodup := by decide
example : ∀ con ∈ exContests, countCvrs exCvrs con.id ≤ bound true 8 con := by decide
example : ∀ con ∈ exContests, ∀ r ∈ exCvrs, r.phantom = true → r.has con.id = false := by decide
example : maxShortfall true 8 exCvrs exContests = 3 := by decide
example : exCvrs.length ≤ 8 := by decide
-- an empty list of records is inside the quantifier as well (repair F22)
example : ∀ con ∈ exContests, countCvrs [] con.id ≤ bound true 8 con := by decide

end Shangrla.C08
