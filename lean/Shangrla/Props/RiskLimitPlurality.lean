/-
  C02 ∘ C09 ∘ C01 for a plurality contest audited by ballot polling.

  If, on the cards actually cast, some reported loser `l` has at least as many marks as some reported winner `w`
  (the reported outcome is wrong, or a tie), then the data of the assertion "`w` v `l`" — the plurality assorter
  applied to each drawn card — average at most 1/2 (C02), so by `RiskLimit.audit_risk_limit_run` the audit
  is EVER reported complete (C09) with probability at most the contest's risk limit (C01), whatever the
  other assertions and contests are.
-/
import Shangrla.Props.RiskLimit
import Shangrla.Props.C02

namespace Shangrla.RiskLimit
open Shangrla Shangrla.Ville Shangrla.Status Shangrla.AuditLoop Shangrla.Vote Shangrla.Assorter

/-- a reported winner that did not beat a reported loser makes their assertion's data average at most 1/2 -/
theorem plurality_null (contest w l : String) (B : List CVR)
    (hwrong : C02.marks contest w B ≤ C02.marks contest l B) :
    (B.map (plurality contest w l)).sum ≤ (B.length : ℚ) * (1 / 2) := by
  rw [C02.sum_plurality]
  have : (C02.marks contest w B : ℚ) ≤ (C02.marks contest l B : ℚ) := by exact_mod_cast hwrong
  linarith

/-- **Risk limit of a ballot-polling audit of a plurality contest.**  `B` are the cards cast (what a full
hand count would see).  Contest `c` of the audit has an assertion `a` whose data are the plurality assorter
"`w` v `l`" of the drawn card (`hdata`) and whose test is a shipped `NonnegMean` test with `N = |B|`, `t = 1/2`,
`u = 1`, inside its documented range.  If `l` really has at least as many marks as `w`, the audit is ever
reported complete with probability at most `c.riskLimit`. -/
theorem plurality_polling_risk_limit (data : String → String → CVR → ℚ)
    (T : String → String → SeqTest) (s : State) (c : Contest) (hc : c ∈ s) (a : Assertion)
    (ha : a ∈ c.assertions) (B : List CVR) (contest w l : String)
    (hdata : data c.id a.name = plurality contest w l)
    (sqrtF : ℚ → ℚ) (cfg : NM.Cfg) (test : NM.Test)
    (hN : cfg.N = some B.length) (ht : cfg.t = 1 / 2) (hu : cfg.u = 1)
    (hT : T c.id a.name = NM.run sqrtF cfg test)
    (hdoc : C01.DocumentedFinite sqrtF cfg test)
    (hr0 : 0 < c.riskLimit) (hr1 : c.riskLimit < 1)
    (hwrong : C02.marks contest w B ≤ C02.marks contest l B) :
    hitG (auditComplete data T s) B.length B [] ≤ c.riskLimit := by
  apply audit_risk_limit_run data T s c hc a ha B sqrtF cfg test hN hT hdoc hr0 hr1
  · intro x _
    rw [hdata, hu]
    exact ⟨(C02.assort_range_plur contest w l x).1, (C02.assort_range_plur contest w l x).2.1⟩
  · rw [hdata, ht]
    exact plurality_null contest w l B hwrong

/-! ### super-majority -/

/-- a reported winner whose valid votes do not exceed the share `f` of the valid votes makes the
super-majority assertion's data average at most 1/2 -/
theorem supermajority_null (contest w : String) (cands : List String) (f : ℚ) (hf0 : 0 < f) (B : List CVR)
    (hwrong : (C02.wvalid contest cands w B : ℚ) ≤ f * (C02.valid contest cands B : ℚ)) :
    (B.map (supermajority contest w cands f)).sum ≤ (B.length : ℚ) * (1 / 2) := by
  rw [C02.sum_supermajority]
  have h2f : 0 < 2 * f := by linarith
  have : (C02.wvalid contest cands w B : ℚ) / (2 * f) ≤ (C02.valid contest cands B : ℚ) / 2 := by
    rw [div_le_iff₀ h2f]
    linarith
  linarith

/-- **Risk limit of a ballot-polling audit of a super-majority contest** (`0 < f < 1`, test bound
`u = 1/(2f)`): if the reported winner's valid votes are at most the share `f` of the valid votes, the audit is
ever reported complete with probability at most the contest's risk limit. -/
theorem supermajority_polling_risk_limit (data : String → String → CVR → ℚ)
    (T : String → String → SeqTest) (s : State) (c : Contest) (hc : c ∈ s) (a : Assertion)
    (ha : a ∈ c.assertions) (B : List CVR) (contest w : String) (cands : List String) (f : ℚ)
    (hf0 : 0 < f) (hf1 : f < 1)
    (hdata : data c.id a.name = supermajority contest w cands f)
    (sqrtF : ℚ → ℚ) (cfg : NM.Cfg) (test : NM.Test)
    (hN : cfg.N = some B.length) (ht : cfg.t = 1 / 2) (hu : cfg.u = superUpper f)
    (hT : T c.id a.name = NM.run sqrtF cfg test)
    (hdoc : C01.DocumentedFinite sqrtF cfg test)
    (hr0 : 0 < c.riskLimit) (hr1 : c.riskLimit < 1)
    (hwrong : (C02.wvalid contest cands w B : ℚ) ≤ f * (C02.valid contest cands B : ℚ)) :
    hitG (auditComplete data T s) B.length B [] ≤ c.riskLimit := by
  apply audit_risk_limit_run data T s c hc a ha B sqrtF cfg test hN hT hdoc hr0 hr1
  · intro x _
    rw [hdata, hu]
    exact C02.assort_range_super contest w cands f hf0 hf1 x
  · rw [hdata, ht]
    exact supermajority_null contest w cands f hf0 B hwrong

end Shangrla.RiskLimit
