/-
  C10 — escalation only ever extends the evidence, the risk part: "the measured risk never increases
  when the sample is extended".

  For every test of the literal model `Shangrla.NM.run sqrtF cfg test` declared to be in random order
  (`cfg.randomOrder = true`: the overall p-value is the least entry of the p-value history) and samples
  `x`, `x ++ y` on which the test returns, the overall p-value on `x ++ y` is `XR.le` the overall
  p-value on `x`.

  * `risk_mono_kk / km / kw / sprt`: the history on `x` is the first `|x|` entries of the history on
    `x ++ y` (`C05.hist_truncate_*`), the overall value is `np.min` of the history (C11), so the
    minimum over the longer history is the smaller one.
  * `risk_mono_alpha_wf / risk_mono_betting_wf / risk_mono_alpha / risk_mono_betting /
    risk_mono_alpha_run / risk_mono_betting_run`: the martingale tests overwrite the LAST term by
    `+inf` (p-value `0`) when the sample total exceeds `N t` (final-sample clamp), so the history on
    `x` need not be a prefix of the history on `x ++ y`; but when the clamp fires on `x` and `y ≥ 0` it
    fires on `x ++ y` too, hence both overall values are `0`.
  * `risk_mono_run`: every test, under the guard `RiskGuard` (the hypotheses of the C11 theorems) on
    both samples.

  The guards are those of the C11 theorems (they make every history entry a rational in `[0,1]`;
  without them entries can be NaN and `np.min` propagates NaN, see `C05.hist_truncate_alpha_full_false`).
-/
import Shangrla.Props.C05
import Shangrla.Props.C11Kaplan
import Shangrla.Props.C11Mart
import Shangrla.Props.C11Shipped

namespace Shangrla.C10
open Shangrla Shangrla.NM Shangrla.XR

/-! ### the minimum over a longer history is the smaller one -/

/-- if `h0` consists of the first `k` entries of `h1` (and is not empty) and every entry of `h1` is a
p-value, then `np.min h1 ≤ np.min h0` -/
theorem minList_take_le {h0 h1 : List XR} {k : Nat} (e : h0 = h1.take k) (hne : h0 ≠ [])
    (hP : ∀ h ∈ h1, IsP h) : XR.le (XR.minList h1) (XR.minList h0) = true := by
  subst e
  have hP0 : ∀ h ∈ h1.take k, IsP h := fun h hh => hP h (List.mem_of_mem_take hh)
  have h1ne : h1 ≠ [] := by
    rintro rfl
    exact hne (by simp)
  obtain ⟨_, hm, _⟩ := C11.minList_is_smallest hne hP0
  obtain ⟨_, _, hs⟩ := C11.minList_is_smallest h1ne hP
  exact hs _ (List.mem_of_mem_take hm)

/-- shape shared by the four tests without a final-sample clamp: truncation of the history (C05) and
well-formed results (C11) on both samples give monotonicity of the overall value -/
theorem risk_mono_of_truncate {T : List Rat → Except Err (XR × List XR)} {x y : List Rat}
    (htr : ∀ p0 p1 h0 h1, T x = .ok (p0, h0) → T (x ++ y) = .ok (p1, h1) → h0 = h1.take x.length)
    (hne : x ≠ [])
    (W0 : ∃ p hist, T x = .ok (p, hist) ∧ NM.WellFormed x.length true p hist)
    (W1 : ∃ p hist, T (x ++ y) = .ok (p, hist) ∧ NM.WellFormed (x ++ y).length true p hist)
    {p0 p1 : XR} {h0 h1 : List XR} (H0 : T x = .ok (p0, h0)) (H1 : T (x ++ y) = .ok (p1, h1)) :
    XR.le p1 p0 = true := by
  obtain ⟨p0', h0', E0, hl0, -, -, hm0, -⟩ := W0
  obtain ⟨p1', h1', E1, -, hP1, -, hm1, -⟩ := W1
  rw [H0] at E0
  rw [H1] at E1
  cases E0
  cases E1
  rw [hm0 rfl, hm1 rfl]
  refine minList_take_le (htr _ _ _ _ H0 H1) ?_ hP1
  intro h
  rw [h] at hl0
  exact hne (List.length_eq_zero_iff.mp hl0.symm)

/-! ### `kaplan_kolmogorov` -/

/-- **C10, risk, `kaplan_kolmogorov`.**  Guard (that of `C11.wellformed_kk` for `x ++ y`, which implies it
for `x`): random order, finite `N`, `x` non-empty, `|x ++ y| ≤ N`, observations `≥ 0`, `g ≥ 0`. -/
theorem risk_mono_kk (cfg : Cfg) (n : Nat) (x y : List Rat) (hro : cfg.randomOrder = true)
    (hN : cfg.N = some n) (hne : x ≠ []) (hxy : ∀ a ∈ x ++ y, 0 ≤ a) (hlen : (x ++ y).length ≤ n)
    (hg : 0 ≤ cfg.kw.g.getD 0) (p0 p1 : XR) (h0 h1 : List XR)
    (H0 : kaplanKolmogorov cfg x = .ok (p0, h0)) (H1 : kaplanKolmogorov cfg (x ++ y) = .ok (p1, h1)) :
    XR.le p1 p0 = true := by
  have hx : ∀ a ∈ x, 0 ≤ a := fun a ha => hxy a (List.mem_append_left _ ha)
  have hlx : x.length ≤ n := by
    rw [List.length_append] at hlen
    omega
  have W0 := C11.kk_wf cfg n x hN hne hx hlx hg
  have W1 := C11.kk_wf cfg n (x ++ y) hN (by simp [hne]) hxy hlen hg
  rw [hro] at W0 W1
  exact risk_mono_of_truncate (fun p0 p1 h0 h1 => C05.hist_truncate_kk cfg x y p0 p1 h0 h1) hne W0 W1 H0 H1

/-! ### `kaplan_markov` -/

/-- **C10, risk, `kaplan_markov`.**  Guard: random order, `x` non-empty, observations `≥ 0`, `g ≥ 0`,
`t + g > 0`. -/
theorem risk_mono_km (cfg : Cfg) (x y : List Rat) (hro : cfg.randomOrder = true) (hne : x ≠ [])
    (hxy : ∀ a ∈ x ++ y, 0 ≤ a) (hg : 0 ≤ cfg.kw.g.getD 0) (htg : 0 < cfg.t + cfg.kw.g.getD 0)
    (p0 p1 : XR) (h0 h1 : List XR)
    (H0 : kaplanMarkov cfg x = .ok (p0, h0)) (H1 : kaplanMarkov cfg (x ++ y) = .ok (p1, h1)) :
    XR.le p1 p0 = true := by
  have hx : ∀ a ∈ x, 0 ≤ a := fun a ha => hxy a (List.mem_append_left _ ha)
  have W0 := C11.km_wf cfg x hne hx hg htg
  have W1 := C11.km_wf cfg (x ++ y) (by simp [hne]) hxy hg htg
  rw [hro] at W0 W1
  exact risk_mono_of_truncate (fun p0 p1 h0 h1 => C05.hist_truncate_km cfg x y p0 p1 h0 h1) hne W0 W1 H0 H1

/-! ### `kaplan_wald` -/

/-- **C10, risk, `kaplan_wald`.**  Guard: random order, `x` non-empty, observations `≥ 0`, `t > 0`,
`0 ≤ g ≤ 1`. -/
theorem risk_mono_kw (cfg : Cfg) (x y : List Rat) (hro : cfg.randomOrder = true) (hne : x ≠ [])
    (hxy : ∀ a ∈ x ++ y, 0 ≤ a) (ht : 0 < cfg.t) (hg0 : 0 ≤ cfg.kw.g.getD 0) (hg1 : cfg.kw.g.getD 0 ≤ 1)
    (p0 p1 : XR) (h0 h1 : List XR)
    (H0 : kaplanWald cfg x = .ok (p0, h0)) (H1 : kaplanWald cfg (x ++ y) = .ok (p1, h1)) :
    XR.le p1 p0 = true := by
  have hx : ∀ a ∈ x, 0 ≤ a := fun a ha => hxy a (List.mem_append_left _ ha)
  have W0 := C11.kw_wf cfg x hne hx ht hg0 hg1
  have W1 := C11.kw_wf cfg (x ++ y) (by simp [hne]) hxy ht hg0 hg1
  rw [hro] at W0 W1
  exact risk_mono_of_truncate (fun p0 p1 h0 h1 => C05.hist_truncate_kw cfg x y p0 p1 h0 h1) hne W0 W1 H0 H1

/-! ### `wald_sprt` -/

/-- the SPRT guard on the longer sample implies it on the head -/
theorem sprtGuard_head {cfg : Cfg} {x y : List Rat} (hne : x ≠ []) (G : C11.SprtGuard cfg (x ++ y)) :
    C11.SprtGuard cfg x where
  ne := hne
  range := fun a ha => G.range a (List.mem_append_left _ ha)
  fits := by
    intro n hn
    have := G.fits n hn
    rw [List.length_append] at this
    omega
  t_pos := G.t_pos
  t_lt_u := G.t_lt_u
  t_le_eta := G.t_le_eta
  eta_le_u := G.eta_le_u
  ro := G.ro

/-- **C10, risk, `wald_sprt`.**  Guard: random order, `x` non-empty, and `C11.SprtGuard` for `x ++ y`
(observations in `[0,u]`, `|x ++ y| ≤ N` for finite `N`, `0 < t < u`, `t ≤ eta ≤ u`). -/
theorem risk_mono_sprt (cfg : Cfg) (x y : List Rat) (hro : cfg.randomOrder = true) (hne : x ≠ [])
    (G : C11.SprtGuard cfg (x ++ y)) (p0 p1 : XR) (h0 h1 : List XR)
    (H0 : waldSprt cfg x = .ok (p0, h0)) (H1 : waldSprt cfg (x ++ y) = .ok (p1, h1)) :
    XR.le p1 p0 = true := by
  have W0 := C11.sprt_wf cfg x (sprtGuard_head hne G)
  have W1 := C11.sprt_wf cfg (x ++ y) G
  rw [hro] at W0 W1
  exact risk_mono_of_truncate (fun p0 p1 h0 h1 => C05.hist_truncate_sprt cfg x y p0 p1 h0 h1) hne W0 W1 H0 H1

/-! ### the martingale tests: the final-sample clamp -/

theorem xsumFrom_ge (y : List Rat) (hy : ∀ a ∈ y, 0 ≤ a) : ∀ S : Rat, S ≤ xsumFrom S y := by
  induction y with
  | nil => intro S; exact le_refl _
  | cons a y ih =>
    intro S
    have h1 := ih (fun b hb => hy b (List.mem_cons_of_mem _ hb)) (S + a)
    have h2 := hy a (List.mem_cons_self)
    show S ≤ xsumFrom (S + a) y
    linarith

/-- non-negative further observations do not lower the sample total -/
theorem xsum_le_append (x y : List Rat) (hy : ∀ a ∈ y, 0 ≤ a) : xsum x ≤ xsum (x ++ y) := by
  unfold xsum
  rw [xsumFrom_append]
  exact xsumFrom_ge y hy _

/-- if the final-sample clamp fires on `x` (`N t < Σx`) it fires on every extension by non-negative
observations -/
theorem clamped_append {cfg : Cfg} {x y : List Rat} (hc : C05.Clamped cfg x) (hy : ∀ a ∈ y, 0 ≤ a) :
    C05.Clamped cfg (x ++ y) := by
  obtain ⟨n, hN, hlt⟩ := hc
  exact ⟨n, hN, lt_of_lt_of_le hlt (xsum_le_append x y hy)⟩

section mart
variable {cfg : Cfg} {par : List Rat → Except Err (List XR)}
  {M : List Rat → List Rat → List XR → List XR} {T : List Rat → Except Err (XR × List XR)}

/-- when the clamp fires the history ends in `min(1, 1/inf) = 0` -/
theorem mart_clamped_zero_mem (hT : C05.MartSpec cfg par M T) {x : List Rat} {p : XR} {h : List XR}
    (H : T x = .ok (p, h)) (hc : C05.Clamped cfg x) : XR.fin 0 ∈ h := by
  obtain ⟨-, e, -, rfl⟩ := hT _ _ _ H
  obtain ⟨n, hN, hlt⟩ := hc
  rw [C05.clampLast_of hN hlt, C05.histOf_append, C05.histOf_pinf]
  simp

/-- a lower bound of the history on `x ++ y` (`y ≥ 0`) is a lower bound of the history on `x`: each
entry of the shorter history is an entry of the longer one, or it is the clamp's `0` and then the
longer history ends in `0` too -/
theorem mart_lower_bound (hT : C05.MartSpec cfg par M T) (hMt : C05.TakeComm3 M) (hMl : C05.Len3 M)
    (hsc : C05.StrictlyCausalE par) (hl : C05.LenPresE par) {x y : List Rat} (hy : ∀ a ∈ y, 0 ≤ a)
    {p0 p1 : XR} {h0 h1 : List XR} (H0 : T x = .ok (p0, h0)) (H1 : T (x ++ y) = .ok (p1, h1))
    (q : XR) (hq : ∀ b ∈ h1, XR.le q b = true) : ∀ a ∈ h0, XR.le q a = true := by
  intro a ha
  obtain ⟨t1, -, t3, -⟩ := C05.mart_truncate hT hMt hMl hsc hl H0 H1
  have hlen0 : h0.length = x.length := C05.mart_length hT hMl hl H0
  obtain ⟨i, hi, hia⟩ := List.getElem_of_mem ha
  have hia' : h0[i]? = some a := by rw [List.getElem?_eq_getElem hi, hia]
  by_cases hlast : i < x.length - 1
  · -- an entry before the last: unchanged
    have := congrArg (fun l => l[i]?) t1
    simp only [List.getElem?_take, hlast, if_true] at this
    rw [hia'] at this
    exact hq a (List.mem_of_getElem? this.symm)
  · have hi' : i = x.length - 1 := by omega
    subst hi'
    rcases t3 with e | ⟨hcl, e⟩
    · rw [hia'] at e
      exact hq a (List.mem_of_getElem? e.symm)
    · rw [hia'] at e
      cases e
      exact hq _ (mart_clamped_zero_mem hT H1 (clamped_append hcl hy))

/-- generic form for a test of the `MartSpec` shape (`alpha_mart`, `betting_mart`) -/
theorem risk_mono_mart_wf (hT : C05.MartSpec cfg par M T) (hMt : C05.TakeComm3 M) (hMl : C05.Len3 M)
    (hsc : C05.StrictlyCausalE par) (hl : C05.LenPresE par) (x y : List Rat) (hy : ∀ a ∈ y, 0 ≤ a)
    (r0 r1 : XR × List XR) (H0 : T x = .ok r0) (H1 : T (x ++ y) = .ok r1)
    (W0 : C11.WellFormed true x.length r0) (W1 : C11.WellFormed true (x ++ y).length r1) :
    XR.le r1.1 r0.1 = true := by
  obtain ⟨p0, h0⟩ := r0
  obtain ⟨p1, h1⟩ := r1
  exact mart_lower_bound hT hMt hMl hsc hl hy H0 H1 p1 (W1.2.2.2.1 rfl).2 p0 (W0.2.2.2.1 rfl).1

end mart

/-! ### `alpha_mart` -/

/-- **C10, risk, `alpha_mart`, generic form.**  For every predictable estimator that returns one value per
observation: if the further observations `y` are non-negative and both results are well-formed in the
sense of C11 for a random-order test (the overall value is a history entry and is `≤` every history
entry), the overall p-value on `x ++ y` is `≤` the overall p-value on `x`. -/
theorem risk_mono_alpha_wf (cfg : Cfg) (estim : List Rat → Except Err (List XR))
    (hsc : C05.StrictlyCausalE estim) (hl : C05.LenPresE estim) (x y : List Rat) (hy : ∀ a ∈ y, 0 ≤ a)
    (r0 r1 : XR × List XR) (H0 : alphaMart cfg estim x = .ok r0) (H1 : alphaMart cfg estim (x ++ y) = .ok r1)
    (W0 : C11.WellFormed true x.length r0) (W1 : C11.WellFormed true (x ++ y).length r1) :
    XR.le r1.1 r0.1 = true :=
  risk_mono_mart_wf (C05.alphaMart_spec cfg estim) (C05.alphaMasked_take cfg) (C05.length_alphaMasked cfg)
    hsc hl x y hy r0 r1 H0 H1 W0 W1

/-- **C10, risk, `alpha_mart`.**  Guard (that of `C11.wellformed_alpha` on both samples): random order,
`x` non-empty, `|x ++ y| ≤ N` for finite `N`, observations in `[0,u]`, `atol, rtol ≥ 0`, the estimator
(predictable, one value per observation) returns finite values on `x` and on `x ++ y`. -/
theorem risk_mono_alpha (cfg : Cfg) (estim : List Rat → Except Err (List XR))
    (hsc : C05.StrictlyCausalE estim) (hl : C05.LenPresE estim) (hro : cfg.randomOrder = true)
    (x y : List Rat) (eta0 eta1 : List XR) (hne : x ≠ [])
    (hN : ∀ n, cfg.N = some n → (x ++ y).length ≤ n) (hxy : ∀ a ∈ x ++ y, 0 ≤ a ∧ a ≤ cfg.u)
    (hat : 0 ≤ cfg.atol) (hrt : 0 ≤ cfg.rtol)
    (hest0 : estim x = .ok eta0) (hfin0 : ∀ e ∈ eta0, ∃ q : Rat, e = .fin q)
    (hest1 : estim (x ++ y) = .ok eta1) (hfin1 : ∀ e ∈ eta1, ∃ q : Rat, e = .fin q)
    (r0 r1 : XR × List XR) (H0 : alphaMart cfg estim x = .ok r0) (H1 : alphaMart cfg estim (x ++ y) = .ok r1) :
    XR.le r1.1 r0.1 = true := by
  have hx : ∀ a ∈ x, 0 ≤ a ∧ a ≤ cfg.u := fun a ha => hxy a (List.mem_append_left _ ha)
  have hy : ∀ a ∈ y, 0 ≤ a := fun a ha => (hxy a (List.mem_append_right _ ha)).1
  have hNx : ∀ n, cfg.N = some n → x.length ≤ n := by
    intro n hn
    have := hN n hn
    rw [List.length_append] at this
    omega
  obtain ⟨r0', E0, W0⟩ := C11.wellformed_alpha cfg estim x eta0 hne hNx hx hat hrt hest0 (hl _ _ hest0) hfin0
  obtain ⟨r1', E1, W1⟩ := C11.wellformed_alpha cfg estim (x ++ y) eta1 (by simp [hne]) hN hxy hat hrt hest1
    (hl _ _ hest1) hfin1
  rw [H0] at E0
  rw [H1] at E1
  cases E0
  cases E1
  rw [hro] at W0 W1
  exact risk_mono_alpha_wf cfg estim hsc hl x y hy r0 r1 H0 H1 W0 W1

/-- **C10, risk, ALPHA with a shipped estimator, through `run`.** -/
theorem risk_mono_alpha_run (sqrtF : Rat → Rat) (cfg : Cfg) (e : Estim) (hro : cfg.randomOrder = true)
    (x y : List Rat) (eta0 eta1 : List XR) (hne : x ≠ [])
    (hN : ∀ n, cfg.N = some n → (x ++ y).length ≤ n) (hxy : ∀ a ∈ x ++ y, 0 ≤ a ∧ a ≤ cfg.u)
    (hat : 0 ≤ cfg.atol) (hrt : 0 ≤ cfg.rtol)
    (hest0 : estim sqrtF cfg e x = .ok eta0) (hfin0 : ∀ v ∈ eta0, ∃ q : Rat, v = .fin q)
    (hest1 : estim sqrtF cfg e (x ++ y) = .ok eta1) (hfin1 : ∀ v ∈ eta1, ∃ q : Rat, v = .fin q)
    (r0 r1 : XR × List XR) (H0 : run sqrtF cfg (.alpha e) x = .ok r0)
    (H1 : run sqrtF cfg (.alpha e) (x ++ y) = .ok r1) : XR.le r1.1 r0.1 = true :=
  risk_mono_alpha cfg (estim sqrtF cfg e) (C05.scE_estim sqrtF cfg e) (C05.lpE_estim sqrtF cfg e) hro x y
    eta0 eta1 hne hN hxy hat hrt hest0 hfin0 hest1 hfin1 r0 r1 H0 H1

/-! ### `betting_mart` -/

/-- **C10, risk, `betting_mart`, generic form.** -/
theorem risk_mono_betting_wf (cfg : Cfg) (bet : List Rat → Except Err (List XR))
    (hsc : C05.StrictlyCausalE bet) (hl : C05.LenPresE bet) (x y : List Rat) (hy : ∀ a ∈ y, 0 ≤ a)
    (r0 r1 : XR × List XR) (H0 : bettingMart cfg bet x = .ok r0) (H1 : bettingMart cfg bet (x ++ y) = .ok r1)
    (W0 : C11.WellFormed true x.length r0) (W1 : C11.WellFormed true (x ++ y).length r1) :
    XR.le r1.1 r0.1 = true :=
  risk_mono_mart_wf (C05.bettingMart_spec cfg bet) (C05.bettingMasked_take cfg) (C05.length_bettingMasked cfg)
    hsc hl x y hy r0 r1 H0 H1 W0 W1

/-- `OkWalk` records that every observation is non-negative -/
theorem okWalk_nonneg (ok : Rat → Rat → XR → Prop) (u : Rat) (N : Option Nat) (t : Rat) :
    ∀ (l : List (Rat × XR)) (S : Rat) (j : Nat), OkWalk ok u N t S j l → ∀ p ∈ l, 0 ≤ p.1 := by
  intro l
  induction l with
  | nil => intro S j _ p hp; cases hp
  | cons c rest ih =>
    intro S j h p hp
    obtain ⟨a, e⟩ := c
    obtain ⟨-, h0, -, hrest⟩ := h
    rcases List.mem_cons.1 hp with rfl | hp'
    · exact h0
    · exact ih _ _ hrest p hp'

theorem mem_zip_of_mem_left {α β} {l1 : List α} {l2 : List β} (hlen : l2.length = l1.length) {a : α}
    (ha : a ∈ l1) : ∃ b, (a, b) ∈ l1.zip l2 := by
  obtain ⟨i, hi, rfl⟩ := List.getElem_of_mem ha
  have hi2 : i < l2.length := by omega
  have hz : i < (l1.zip l2).length := by rw [List.length_zip]; omega
  refine ⟨l2[i], ?_⟩
  have := List.getElem_mem hz
  rwa [List.getElem_zip] at this

/-- **C10, risk, `betting_mart`.**  Guard (that of `C11.wellformed_betting` on both samples): random order,
`x` non-empty, `|x ++ y| ≤ N` for finite `N`, `atol, rtol ≥ 0`, the bet function (predictable, one value
per observation) returns on `x` and on `x ++ y` finite bets in `[0, 1/m_j]` wherever the null mean `m_j`
is positive, the observations lie in `[0,u]` (`OkWalk okBet`). -/
theorem risk_mono_betting (cfg : Cfg) (bet : List Rat → Except Err (List XR))
    (hsc : C05.StrictlyCausalE bet) (hl : C05.LenPresE bet) (hro : cfg.randomOrder = true)
    (x y : List Rat) (lam0 lam1 : List XR) (hne : x ≠ [])
    (hN : ∀ n, cfg.N = some n → (x ++ y).length ≤ n) (hat : 0 ≤ cfg.atol) (hrt : 0 ≤ cfg.rtol)
    (hbet0 : bet x = .ok lam0) (hok0 : OkWalk okBet cfg.u cfg.N cfg.t 0 1 (x.zip lam0))
    (hbet1 : bet (x ++ y) = .ok lam1) (hok1 : OkWalk okBet cfg.u cfg.N cfg.t 0 1 ((x ++ y).zip lam1))
    (r0 r1 : XR × List XR) (H0 : bettingMart cfg bet x = .ok r0) (H1 : bettingMart cfg bet (x ++ y) = .ok r1) :
    XR.le r1.1 r0.1 = true := by
  have hy : ∀ a ∈ y, 0 ≤ a := by
    intro a ha
    obtain ⟨b, hb⟩ := mem_zip_of_mem_left (hl _ _ hbet1) (List.mem_append_right x ha)
    exact okWalk_nonneg _ _ _ _ _ _ _ hok1 _ hb
  have hNx : ∀ n, cfg.N = some n → x.length ≤ n := by
    intro n hn
    have := hN n hn
    rw [List.length_append] at this
    omega
  obtain ⟨r0', E0, W0⟩ := C11.wellformed_betting cfg bet x lam0 hne hNx hat hrt hbet0 (hl _ _ hbet0) hok0
  obtain ⟨r1', E1, W1⟩ := C11.wellformed_betting cfg bet (x ++ y) lam1 (by simp [hne]) hN hat hrt hbet1
    (hl _ _ hbet1) hok1
  rw [H0] at E0
  rw [H1] at E1
  cases E0
  cases E1
  rw [hro] at W0 W1
  exact risk_mono_betting_wf cfg bet hsc hl x y hy r0 r1 H0 H1 W0 W1

/-- **C10, risk, betting martingale with a shipped bet, through `run`.** -/
theorem risk_mono_betting_run (sqrtF : Rat → Rat) (cfg : Cfg) (b : Bet) (hro : cfg.randomOrder = true)
    (x y : List Rat) (lam0 lam1 : List XR) (hne : x ≠ [])
    (hN : ∀ n, cfg.N = some n → (x ++ y).length ≤ n) (hat : 0 ≤ cfg.atol) (hrt : 0 ≤ cfg.rtol)
    (hbet0 : bet sqrtF cfg b x = .ok lam0) (hok0 : OkWalk okBet cfg.u cfg.N cfg.t 0 1 (x.zip lam0))
    (hbet1 : bet sqrtF cfg b (x ++ y) = .ok lam1)
    (hok1 : OkWalk okBet cfg.u cfg.N cfg.t 0 1 ((x ++ y).zip lam1))
    (r0 r1 : XR × List XR) (H0 : run sqrtF cfg (.betting b) x = .ok r0)
    (H1 : run sqrtF cfg (.betting b) (x ++ y) = .ok r1) : XR.le r1.1 r0.1 = true :=
  risk_mono_betting cfg (bet sqrtF cfg b) (C05.scE_bet sqrtF cfg b) (C05.lpE_bet sqrtF cfg b) hro x y
    lam0 lam1 hne hN hat hrt hbet0 hok0 hbet1 hok1 r0 r1 H0 H1

/-! ### every test, through `run` -/

/-- the guard of the C11 theorems for the test `test` on the sample `x` -/
def RiskGuard (sqrtF : Rat → Rat) (cfg : Cfg) : Test → List Rat → Prop
  | .alpha e, x => (∀ n, cfg.N = some n → x.length ≤ n) ∧ (∀ a ∈ x, 0 ≤ a ∧ a ≤ cfg.u) ∧
      0 ≤ cfg.atol ∧ 0 ≤ cfg.rtol ∧
      ∃ eta, estim sqrtF cfg e x = .ok eta ∧ ∀ v ∈ eta, ∃ q : Rat, v = .fin q
  | .betting b, x => (∀ n, cfg.N = some n → x.length ≤ n) ∧ 0 ≤ cfg.atol ∧ 0 ≤ cfg.rtol ∧
      ∃ lam, bet sqrtF cfg b x = .ok lam ∧ OkWalk okBet cfg.u cfg.N cfg.t 0 1 (x.zip lam)
  | .kk, x => (∃ n, cfg.N = some n ∧ x.length ≤ n) ∧ (∀ a ∈ x, 0 ≤ a) ∧ 0 ≤ cfg.kw.g.getD 0
  | .km, x => (∀ a ∈ x, 0 ≤ a) ∧ 0 ≤ cfg.kw.g.getD 0 ∧ 0 < cfg.t + cfg.kw.g.getD 0
  | .kw, x => (∀ a ∈ x, 0 ≤ a) ∧ 0 < cfg.t ∧ 0 ≤ cfg.kw.g.getD 0 ∧ cfg.kw.g.getD 0 ≤ 1
  | .sprt, x => C11.SprtGuard cfg x

/-- **C10, risk, every test.**  For a random-order test, a non-empty sample `x` and an extension
`x ++ y`, both inside the guard of the C11 theorems and on both of which the test returns: the overall
p-value on `x ++ y` is `≤` the overall p-value on `x`.  (The guard on `x ++ y` implies the guard on `x`
except for what the estimator / bet function returns on `x`, hence both are asked.) -/
theorem risk_mono_run (sqrtF : Rat → Rat) (cfg : Cfg) (test : Test) (hro : cfg.randomOrder = true)
    (x y : List Rat) (hne : x ≠ []) (G0 : RiskGuard sqrtF cfg test x) (G1 : RiskGuard sqrtF cfg test (x ++ y))
    (r0 r1 : XR × List XR) (H0 : run sqrtF cfg test x = .ok r0) (H1 : run sqrtF cfg test (x ++ y) = .ok r1) :
    XR.le r1.1 r0.1 = true := by
  obtain ⟨p0, h0⟩ := r0
  obtain ⟨p1, h1⟩ := r1
  cases test with
  | alpha e =>
    obtain ⟨-, -, -, -, eta0, hest0, hfin0⟩ := G0
    obtain ⟨hN, hxy, hat, hrt, eta1, hest1, hfin1⟩ := G1
    exact risk_mono_alpha_run sqrtF cfg e hro x y eta0 eta1 hne hN hxy hat hrt hest0 hfin0 hest1 hfin1 _ _ H0 H1
  | betting b =>
    obtain ⟨-, -, -, lam0, hbet0, hok0⟩ := G0
    obtain ⟨hN, hat, hrt, lam1, hbet1, hok1⟩ := G1
    exact risk_mono_betting_run sqrtF cfg b hro x y lam0 lam1 hne hN hat hrt hbet0 hok0 hbet1 hok1 _ _ H0 H1
  | kk =>
    obtain ⟨⟨n, hN, hlen⟩, hxy, hg⟩ := G1
    exact risk_mono_kk cfg n x y hro hN hne hxy hlen hg p0 p1 h0 h1 H0 H1
  | km =>
    obtain ⟨hxy, hg, htg⟩ := G1
    exact risk_mono_km cfg x y hro hne hxy hg htg p0 p1 h0 h1 H0 H1
  | kw =>
    obtain ⟨hxy, ht, hg0, hg1⟩ := G1
    exact risk_mono_kw cfg x y hro hne hxy ht hg0 hg1 p0 p1 h0 h1 H0 H1
  | sprt => exact risk_mono_sprt cfg x y hro hne G1 p0 p1 h0 h1 H0 H1

/-! ### non-vacuity: every hypothesis of every theorem above is met by a concrete configuration
(`C05.cfgEx`: `N = 5`, `u = 1`, `t = 1/2`, random order, `eta = 3/4`, `lam = 1/2`, `d = 10`, `g = 1/10`;
`C05.sqrtEx`).  The results of the runs are written out; they are checked by kernel evaluation. -/

section examples
open Shangrla.C05 (cfgEx sqrtEx)

-- kaplan_kolmogorov: the p-value drops from 6/11 to 1197/2662
example : XR.le (XR.fin (1197 / 2662)) (XR.fin (6 / 11)) = true :=
  risk_mono_kk cfgEx 5 [1, 0] [1, 1] rfl rfl (by simp) (by decide +kernel) (by decide) (by decide +kernel)
    _ _ [XR.fin (6 / 11), 1] [XR.fin (6 / 11), 1, 1, XR.fin (1197 / 2662)]
    (by decide +kernel) (by decide +kernel)

-- kaplan_markov: the last running product 1296/1331 is above the minimum, the p-value stays 6/11
example : XR.le (XR.fin (6 / 11)) (XR.fin (6 / 11)) = true :=
  risk_mono_km cfgEx [1, 0] [1, 1] rfl (by simp) (by decide +kernel) (by decide +kernel) (by decide +kernel)
    _ _ [XR.fin (6 / 11), 1] [XR.fin (6 / 11), 1, 1, XR.fin (1296 / 1331)]
    (by decide +kernel) (by decide +kernel)

-- kaplan_wald
example : XR.le (XR.fin (10 / 19)) (XR.fin (10 / 19)) = true :=
  risk_mono_kw cfgEx [1, 0] [1, 1] rfl (by simp) (by decide +kernel) (by decide +kernel) (by decide +kernel)
    (by decide +kernel) _ _ [XR.fin (10 / 19), 1] [XR.fin (10 / 19), 1, 1, 1]
    (by decide +kernel) (by decide +kernel)

theorem sprtGuard_ex : C11.SprtGuard cfgEx ([1, 0] ++ [1, 1]) where
  ne := by simp
  range := by decide +kernel
  fits := by intro n hn; simp [cfgEx] at hn; subst hn; simp
  t_pos := by decide +kernel
  t_lt_u := by decide +kernel
  t_le_eta := by decide +kernel
  eta_le_u := by decide +kernel
  ro := fun _ => rfl

-- wald_sprt: the p-value drops from 2/3 to 16/77
example : XR.le (XR.fin (16 / 77)) (XR.fin (2 / 3)) = true :=
  risk_mono_sprt cfgEx [1, 0] [1, 1] rfl (by simp) sprtGuard_ex
    _ _ [XR.fin (2 / 3), 1] [XR.fin (2 / 3), 1, XR.fin (8 / 11), XR.fin (16 / 77)]
    (by decide +kernel) (by decide +kernel)

theorem fitsEx (x : List Rat) (h : x.length ≤ 5) : ∀ n, cfgEx.N = some n → x.length ≤ n := by
  intro n hn
  simp [cfgEx] at hn
  subst hn
  exact h

theorem allFin_of (l : List Rat) : ∀ v ∈ l.map XR.fin, ∃ q : Rat, v = .fin q := by
  intro v hv
  obtain ⟨q, -, rfl⟩ := List.mem_map.1 hv
  exact ⟨q, rfl⟩

-- ALPHA with shrink_trunc, the clamp does not fire on x = [1,1]: the p-value drops from 11/34 to 0
-- (this instantiates `risk_mono_alpha` and `risk_mono_alpha_wf` as well)
example : XR.le (XR.fin 0) (XR.fin (11 / 34)) = true :=
  risk_mono_alpha_run sqrtEx cfgEx .shrinkTrunc rfl [1, 1] [0, 1]
    ([3 / 4, 17 / 22].map XR.fin) ([3 / 4, 17 / 22, 19 / 24, 19 / 26].map XR.fin) (by simp)
    (fitsEx _ (by decide)) (by decide +kernel) (by decide +kernel) (by decide +kernel)
    (by decide +kernel) (allFin_of _) (by decide +kernel) (allFin_of _)
    (XR.fin (11 / 34), [XR.fin (2 / 3), XR.fin (11 / 34)])
    (XR.fin 0, [XR.fin (2 / 3), XR.fin (11 / 34), 1, 0]) (by decide +kernel) (by decide +kernel)

-- ALPHA with shrink_trunc, the clamp fires on x = [1,1,1] (Σx = 3 > 5/2 = N t): entry 2 of the history is 0
-- on x and 22/323 on x ++ [0], the history on x is NOT a prefix of the longer one; both p-values are 0
example : XR.le (XR.fin 0) (XR.fin 0) = true :=
  risk_mono_alpha_run sqrtEx cfgEx .shrinkTrunc rfl [1, 1, 1] [0]
    ([3 / 4, 17 / 22, 19 / 24].map XR.fin) ([3 / 4, 17 / 22, 19 / 24, 21 / 26].map XR.fin) (by simp)
    (fitsEx _ (by decide)) (by decide +kernel) (by decide +kernel) (by decide +kernel)
    (by decide +kernel) (allFin_of _) (by decide +kernel) (allFin_of _)
    (XR.fin 0, [XR.fin (2 / 3), XR.fin (11 / 34), 0])
    (XR.fin 0, [XR.fin (2 / 3), XR.fin (11 / 34), XR.fin (22 / 323), 0]) (by decide +kernel) (by decide +kernel)

theorem okWalk_ex3 : OkWalk okBet cfgEx.u cfgEx.N cfgEx.t 0 1
    (([1, 1, 1] : List Rat).zip ([1 / 2, 1 / 2, 1 / 2].map XR.fin)) := by
  simp [OkWalk, okBet, mu, cfgEx]
  norm_num

theorem okWalk_ex4 : OkWalk okBet cfgEx.u cfgEx.N cfgEx.t 0 1
    ((([1, 1, 1] : List Rat) ++ [0]).zip ([1 / 2, 1 / 2, 1 / 2, 1 / 2].map XR.fin)) := by
  simp [OkWalk, okBet, mu, cfgEx]
  norm_num

-- betting martingale with the fixed bet 1/2, the clamp fires on x = [1,1,1]
-- (this instantiates `risk_mono_betting` and `risk_mono_betting_wf` as well)
example : XR.le (XR.fin 0) (XR.fin 0) = true :=
  risk_mono_betting_run sqrtEx cfgEx .fixed rfl [1, 1, 1] [0]
    ([1 / 2, 1 / 2, 1 / 2].map XR.fin) ([1 / 2, 1 / 2, 1 / 2, 1 / 2].map XR.fin) (by simp)
    (fitsEx _ (by decide)) (by decide +kernel) (by decide +kernel)
    (by decide +kernel) okWalk_ex3 (by decide +kernel) okWalk_ex4
    (XR.fin 0, [XR.fin (4 / 5), XR.fin (64 / 105), 0])
    (XR.fin 0, [XR.fin (4 / 5), XR.fin (64 / 105), XR.fin (256 / 595), 0])
    (by decide +kernel) (by decide +kernel)

-- every test through `run`: the guard is inhabited (here `wald_sprt`)
example : XR.le (XR.fin (16 / 77)) (XR.fin (2 / 3)) = true :=
  risk_mono_run sqrtEx cfgEx .sprt rfl [1, 0] [1, 1] (by simp) (sprtGuard_head (by simp) sprtGuard_ex)
    sprtGuard_ex (XR.fin (2 / 3), [XR.fin (2 / 3), 1])
    (XR.fin (16 / 77), [XR.fin (2 / 3), 1, XR.fin (8 / 11), XR.fin (16 / 77)])
    (by decide +kernel) (by decide +kernel)

end examples

/-! ### the guards cannot be dropped -/

/-- THE STATEMENT WITHOUT ANY GUARD: "for every random-order test, whenever both runs return, the overall
p-value on `x ++ y` is `≤` that on `x`".  It is FALSE of the model, and of the code
(`NonnegMean.py`, checked with `/venv/bin/python`: same four values), for parameters outside the guards:
* an illegitimate (negative) bet: `betting_mart`, `fixed_bet` with `lam = -3`, `N = 5`, `t = 1/2`, `u = 1`:
  on `[1]` the running product is `-1/2` and the "p-value" `min(1, 1/T)` is `-2`; on `[1, 1]` the product is
  `7/16` and the p-value is `1`;
* NaN: `kaplan_markov` with `t = g = 0` on `[0]` and `[0, 1]`: the first factor is `0/0`, both overall
  values are NaN and `nan ≤ nan` is false.
`risk_mono_run` (under `RiskGuard`) is the true version. -/
def risk_mono_run_unguarded : Prop :=
  ∀ (sqrtF : Rat → Rat) (cfg : Cfg) (test : Test) (x y : List Rat) (r0 r1 : XR × List XR),
    cfg.randomOrder = true → x ≠ [] → run sqrtF cfg test x = .ok r0 → run sqrtF cfg test (x ++ y) = .ok r1 →
    XR.le r1.1 r0.1 = true

theorem risk_mono_run_unguarded_false : ¬ risk_mono_run_unguarded := by
  intro H
  have e0 : run C05.sqrtEx C05.cfgNegBet (.betting .fixed) [1] = .ok (XR.fin (-2), [XR.fin (-2)]) := by
    decide +kernel
  have e1 : run C05.sqrtEx C05.cfgNegBet (.betting .fixed) ([1] ++ [1]) = .ok (1, [XR.fin (-2), 1]) := by
    decide +kernel
  have := H _ _ _ _ _ _ _ rfl (by simp) e0 e1
  revert this
  decide +kernel

/-- the NaN counterexample -/
theorem risk_mono_run_unguarded_false_nan : ¬ risk_mono_run_unguarded := by
  intro H
  have e0 : run C05.sqrtEx { C05.cfgEx with t := 0, kw := {} } .km [0] = .ok (XR.nan, [XR.nan]) := by
    decide +kernel
  have e1 : run C05.sqrtEx { C05.cfgEx with t := 0, kw := {} } .km ([0] ++ [1]) = .ok (XR.nan, [XR.nan, XR.nan]) := by
    decide +kernel
  have := H _ _ _ _ _ _ _ rfl (by simp) e0 e1
  cases this

/-! ### ALPHA and betting with the shipped estimators / bets, under guards on the configuration only
(`C11.wellformed_run_alpha`, `C11.wellformed_run_betting`) -/

theorem fits_head {N : Option Nat} {x y : List Rat} (hN : ∀ n, N = some n → (x ++ y).length ≤ n) :
    ∀ n, N = some n → x.length ≤ n := by
  intro n hn
  have := hN n hn
  rw [List.length_append] at this
  omega

/-- **C10, risk, ALPHA with every shipped estimator.**  Random order, `x` non-empty, `|x ++ y| ≤ N` for
finite `N`, observations in `[0,u]`, `atol, rtol ≥ 0`, and the parameter guards `C11.AlphaRunGuard`
(`d > 0`, `f ≥ 0`, `minsd > 0` for `shrink_trunc`; `u ≠ 1` for `optimal_comparison`). -/
theorem risk_mono_alpha_shipped (sqrtF : Rat → Rat) (hs : C13.SqrtOK sqrtF) (cfg : Cfg) (e : Estim)
    (hro : cfg.randomOrder = true) (x y : List Rat) (hne : x ≠ [])
    (hN : ∀ n, cfg.N = some n → (x ++ y).length ≤ n) (hxy : ∀ a ∈ x ++ y, 0 ≤ a ∧ a ≤ cfg.u)
    (hat : 0 ≤ cfg.atol) (hrt : 0 ≤ cfg.rtol) (hg : C11.AlphaRunGuard cfg e)
    (r0 r1 : XR × List XR) (H0 : run sqrtF cfg (.alpha e) x = .ok r0)
    (H1 : run sqrtF cfg (.alpha e) (x ++ y) = .ok r1) : XR.le r1.1 r0.1 = true := by
  have hx : ∀ a ∈ x, 0 ≤ a ∧ a ≤ cfg.u := fun a ha => hxy a (List.mem_append_left _ ha)
  have hy : ∀ a ∈ y, 0 ≤ a := fun a ha => (hxy a (List.mem_append_right _ ha)).1
  obtain ⟨r0', E0, W0⟩ := C11.wellformed_run_alpha sqrtF hs cfg e x hne (fits_head hN) hx hat hrt hg
  obtain ⟨r1', E1, W1⟩ := C11.wellformed_run_alpha sqrtF hs cfg e (x ++ y) (by simp [hne]) hN hxy hat hrt hg
  rw [H0] at E0
  rw [H1] at E1
  cases E0
  cases E1
  rw [hro] at W0 W1
  exact risk_mono_alpha_wf cfg (estim sqrtF cfg e) (C05.scE_estim sqrtF cfg e) (C05.lpE_estim sqrtF cfg e)
    x y hy r0 r1 H0 H1 W0 W1

/-- **C10, risk, betting martingale with every shipped bet.**  Random order, `x` non-empty,
`|x ++ y| ≤ N`, observations in `[0,u]`, `atol, rtol ≥ 0`, the documented parameter ranges `C13.BetGuard`
and, for `fixed_bet`, the attribute `lam` being set. -/
theorem risk_mono_betting_shipped (sqrtF : Rat → Rat) (hs : C13.SqrtOK sqrtF) (cfg : Cfg) (b : Bet)
    (hro : cfg.randomOrder = true) (x y : List Rat) (hne : x ≠ [])
    (hN : ∀ n, cfg.N = some n → (x ++ y).length ≤ n) (hxy : ∀ a ∈ x ++ y, 0 ≤ a ∧ a ≤ cfg.u)
    (hat : 0 ≤ cfg.atol) (hrt : 0 ≤ cfg.rtol) (hg : C13.BetGuard cfg)
    (hlam : b = .fixed → cfg.kw.lam ≠ none)
    (r0 r1 : XR × List XR) (H0 : run sqrtF cfg (.betting b) x = .ok r0)
    (H1 : run sqrtF cfg (.betting b) (x ++ y) = .ok r1) : XR.le r1.1 r0.1 = true := by
  have hx : ∀ a ∈ x, 0 ≤ a ∧ a ≤ cfg.u := fun a ha => hxy a (List.mem_append_left _ ha)
  have hy : ∀ a ∈ y, 0 ≤ a := fun a ha => (hxy a (List.mem_append_right _ ha)).1
  obtain ⟨r0', E0, W0⟩ := C11.wellformed_run_betting sqrtF hs cfg b x hne (fits_head hN) hx hat hrt hg hlam
  obtain ⟨r1', E1, W1⟩ := C11.wellformed_run_betting sqrtF hs cfg b (x ++ y) (by simp [hne]) hN hxy hat hrt
    hg hlam
  rw [H0] at E0
  rw [H1] at E1
  cases E0
  cases E1
  rw [hro] at W0 W1
  exact risk_mono_betting_wf cfg (bet sqrtF cfg b) (C05.scE_bet sqrtF cfg b) (C05.lpE_bet sqrtF cfg b)
    x y hy r0 r1 H0 H1 W0 W1

-- non-vacuity: the constructor's defaults `C13.cfgF` (`N = 5`, `u = 1`, `t = 1/2`, random order), both bets,
-- `x = [0, 0]`, `y = [1, 1/2]`
example (b : Bet) (r0 r1 : XR × List XR) (H0 : run sqrtRat C13.cfgF (.betting b) [0, 0] = .ok r0)
    (H1 : run sqrtRat C13.cfgF (.betting b) ([0, 0] ++ [1, 1 / 2]) = .ok r1) : XR.le r1.1 r0.1 = true :=
  risk_mono_betting_shipped sqrtRat C13.sqrtRat_ok C13.cfgF b rfl [0, 0] [1, 1 / 2] (by simp)
    (by intro n h; cases h; decide)
    (by intro a ha; simp at ha; rcases ha with rfl | rfl | rfl <;> norm_num [C13.cfgF, Cfg.init])
    (by norm_num [C13.cfgF, Cfg.init, eps]) (by norm_num [C13.cfgF, Cfg.init]) C11.betGuard_F
    (by intro _ h; cases h) r0 r1 H0 H1

-- ... and both runs do return (so `H0`, `H1` are satisfiable)
example (b : Bet) : (∃ r0, run sqrtRat C13.cfgF (.betting b) [0, 0] = .ok r0) ∧
    ∃ r1, run sqrtRat C13.cfgF (.betting b) ([0, 0] ++ [1, 1 / 2]) = .ok r1 := by
  constructor
  · obtain ⟨r, hr, _⟩ := C11.wellformed_run_betting sqrtRat C13.sqrtRat_ok C13.cfgF b [0, 0] (by simp)
      (by intro n h; cases h; decide)
      (by intro a ha; simp at ha; subst ha; norm_num [C13.cfgF, Cfg.init])
      (by norm_num [C13.cfgF, Cfg.init, eps]) (by norm_num [C13.cfgF, Cfg.init]) C11.betGuard_F
      (by intro _ h; cases h)
    exact ⟨r, hr⟩
  · obtain ⟨r, hr, _⟩ := C11.wellformed_run_betting sqrtRat C13.sqrtRat_ok C13.cfgF b ([0, 0] ++ [1, 1 / 2])
      (by simp) (by intro n h; cases h; decide)
      (by intro a ha; simp at ha; rcases ha with rfl | rfl | rfl <;> norm_num [C13.cfgF, Cfg.init])
      (by norm_num [C13.cfgF, Cfg.init, eps]) (by norm_num [C13.cfgF, Cfg.init]) C11.betGuard_F
      (by intro _ h; cases h)
    exact ⟨r, hr⟩

-- ALPHA, with replacement (`C13.cfgB`), every estimator
example (e : Estim) (r0 r1 : XR × List XR) (H0 : run sqrtRat C13.cfgB (.alpha e) [0, 0] = .ok r0)
    (H1 : run sqrtRat C13.cfgB (.alpha e) ([0, 0] ++ [1, 1 / 2]) = .ok r1) : XR.le r1.1 r0.1 = true :=
  risk_mono_alpha_shipped sqrtRat C13.sqrtRat_ok C13.cfgB e rfl [0, 0] [1, 1 / 2] (by simp)
    (C13.lenB _)
    (by intro a ha; simp at ha; rcases ha with rfl | rfl | rfl <;> norm_num [C13.cfgB])
    (by norm_num [C13.cfgB, eps]) (by norm_num [C13.cfgB]) (C11.alphaRunGuard_B e) r0 r1 H0 H1

end Shangrla.C10
