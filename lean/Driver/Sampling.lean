import Driver.Util
import Shangrla.Model.Sampling
open Lean Shangrla Shangrla.Drv Shangrla.Sampling

namespace Shangrla.Drv.SamplingH

/-- sample numbers are 256-bit: accept a JSON number or a decimal string -/
def asBigNat (j : Json) : R Nat :=
  match j with
  | Json.str s => match s.toNat? with
      | some n => pure n
      | none => throw s!"bad natural {s}"
  | _ => asNat j

def cardOf (j : Json) : R Card := do
  let styles ← strsF j "styles"
  let num ← asBigNat (← fld j "num")
  let ph ← boolF j "phantom"
  pure { styles := styles, sampleNum := num, phantom := ph }

def contestOf (j : Json) : R Contest := do
  let id ← strF j "id"
  let size ← natF j "size"
  let thr ← optF j "thr" asBigNat
  pure { id := id, sampleSize := size, sampleThreshold := thr }

def jBig (n : Nat) : Json := Json.str (toString n)
def jThr (t : Option Nat) : Json := match t with | some n => jBig n | none => Json.null

def jExc (f : α → Json) : Except Err α → Json
  | .ok v => Json.mkObj [("st", Json.str "ok"), ("v", f v)]
  | .error e => jErr e.toStr

def tyOf (s : String) : AuditType :=
  if s = "comparison" then .comparison else if s = "polling" then .polling else .other

def handle (op : String) (a : Json) : R Json := do
  match op with
  | "cs" =>
      let cards ← (← arrF a "cards").mapM cardOf
      let contests ← (← arrF a "contests").mapM contestOf
      let prev ← optF a "prev" (fun j => do (← asArr j).mapM asNat)
      match consistentSampling cards contests prev with
      | .error e => pure (jErr e.toStr)
      | .ok (sel, cons, flags) =>
        pure (jOk [("sel", jNats sel), ("thr", jArr (cons.map (fun c => jThr c.sampleThreshold))),
                   ("flags", jArr (flags.map Json.bool)), ("sorted", jNats (sortedIndices cards))])
  | "assign" =>
      let n ← natF a "n"
      let nums ← (← arrF a "nums").mapM asBigNat
      let cards : List Card := List.replicate n { styles := [], sampleNum := 0 }
      let out := assignSampleNums (fun k => nums.getD k 0) cards
      pure (jOk [("nums", jArr (out.map (fun c => jBig c.sampleNum)))])
  | "prep" =>
      let m ← strsF a "mvr"
      let c ← strsF a "cvr"
      let order ← (← arrF a "order").mapM fun t => do
        match (← asArr t) with
        | [x, y] => pure ((← asStr x), (← asNat y))
        | _ => throw "bad order pair"
      match prepComparisonSample m c order with
      | .error e => pure (jErr e.toStr)
      | .ok (m', c') => pure (jOk [("mvr", jStrs m'), ("cvr", jStrs c')])
  | "data" =>
      let ty := tyOf (← strF a "ty")
      let us ← boolF a "use_style"
      let ua ← boolF a "use_all"
      let con ← contestOf (← fld a "contest")
      let sample ← (← arrF a "sample").mapM cardOf
      match dataIndices ty us ua con sample with
      | .error e => pure (jErr e.toStr)
      | .ok ps => pure (jOk [("pos", jNats ps)])
  | "rounds" =>
      let us ← boolF a "use_style"
      let cards ← (← arrF a "cards").mapM cardOf
      let contests ← (← arrF a "contests").mapM contestOf
      let rounds ← (← arrF a "rounds").mapM fun r => do
        pure ({ sizes := (← natsF r "sizes"), cont := (← boolF r "cont") } : Rounds.Round)
      let st : Rounds.State := { cards := cards, contests := contests, sampled := cards.map (fun _ => false) }
      let outs := Rounds.run us st rounds
      pure (jOk [("rounds", jArr (outs.map fun o => match o with
        | .error e => jErr e.toStr
        | .ok o => jOk [("sel", jNats o.selected), ("thr", jArr (o.thresholds.map jThr)),
                        ("data", jArr (o.data.map (jExc jNats))),
                        ("cards", jArr (o.dataCards.map (jExc jNats)))]))])
  | "proved" =>
      let limit ← ratF a "limit"
      let ps ← ratsF a "ps"
      let init ← boolF a "init"
      pure (jOk [("proved", jArr ((provedHistory limit init ps).map Json.bool))])
  | _ => throw s!"sampling: unknown op {op}"

end Shangrla.Drv.SamplingH
