import Driver.Util
import Shangrla.Model.Merge
open Lean Shangrla Shangrla.Drv Shangrla.Merge

namespace Shangrla.Drv.MergeH

/-- a dict travels as an array of `[key, value]` pairs in insertion order (JSON objects are unordered) -/
def pairsOf {β} (j : Json) (f : Json → R β) : R (List (String × β)) := do
  (← asArr j).mapM fun p => do
    match (← asArr p) with
    | [k, v] => pure ((← asStr k), (← f v))
    | _ => throw "bad pair"

def jPairs {β} (d : List (String × β)) (f : β → Json) : Json :=
  jArr (d.map fun kv => jArr [Json.str kv.1, f kv.2])

def recOf (j : Json) : R (Rec Json) := do
  let id ← strF j "id"
  let votes ← pairsOf (← fld j "votes") (fun v => pairsOf v pure)
  let phantom ← boolF j "phantom"
  let pool ← boolF j "pool"
  let tp ← optF j "tally_pool" asStr
  pure { id := id, votes := votes, phantom := phantom, pool := pool, tallyPool := tp }

def jRec {ν} (f : ν → Json) (r : Rec ν) : Json :=
  Json.mkObj [("id", Json.str r.id),
    ("votes", jPairs r.votes (fun d => jPairs d f)),
    ("phantom", Json.bool r.phantom), ("pool", Json.bool r.pool),
    ("tally_pool", match r.tallyPool with | none => Json.null | some s => Json.str s)]

def handle (op : String) (a : Json) : R Json := do
  match op with
  | "merge" =>
      let recs ← (← arrF a "recs").mapM recOf
      match mergeCvrs recs with
      | .ok rs => pure (jOk [("recs", jArr (rs.map (jRec id)))])
      | .error e => pure (jErr e.toString)
  | "from_raire" =>
      let rows ← (← arrF a "rows").mapM fun r => do (← asArr r).mapM asStr
      let ph ← boolF a "phantom"
      match fromRaire rows ph with
      | .ok (rs, n) => pure (jOk [("recs", jArr (rs.map (jRec jNat))), ("n", jInt n)])
      | .error e => pure (jErr e.toString)
  | _ => throw s!"merge: unknown op {op}"

end Shangrla.Drv.MergeH
