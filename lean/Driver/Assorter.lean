import Driver.Util
import Shangrla.Model.Assorter
open Lean Shangrla Shangrla.Drv Shangrla.Vote Shangrla.Assorter

namespace Shangrla.Drv.AssorterH

/-- a vote value: JSON `true/false` ↦ `Val.b`, integer ↦ `Val.i`, string ↦ `Val.s` -/
def asVal (j : Json) : R Val :=
  match j with
  | Json.bool b => pure (Val.b b)
  | Json.str s => pure (Val.s s)
  | _ => match j.getInt? with
    | .ok n => pure (Val.i n)
    | .error _ => throw s!"expected vote value, got {j.compress}"

/-- dicts travel as arrays of `[key, value]` pairs (insertion order is part of the data) -/
def asPair (j : Json) : R (String × Json) := do
  match (← asArr j) with
  | [k, v] => pure ((← asStr k), v)
  | _ => throw s!"expected [key, value], got {j.compress}"

def asMarks (j : Json) : R Marks := do
  (← asArr j).mapM fun p => do
    let (k, v) ← asPair p
    pure (k, (← asVal v))

def asCVR (j : Json) : R CVR := do
  let id ← strF j "id"
  let votes ← (← arrF j "votes").mapM fun p => do
    let (k, v) ← asPair p
    pure (k, (← asMarks v))
  let ph ← match fld? j "phantom" with
    | some b => asBool b
    | none => pure false
  pure { id := id, votes := votes, phantom := ph }

def scfOf (s : String) : R Scf :=
  match s with
  | "PLURALITY" => pure Scf.plurality
  | "APPROVAL" => pure Scf.approval
  | "SUPERMAJORITY" => pure Scf.supermajority
  | "IRV" => pure Scf.irv
  | _ => throw s!"unknown social choice function {s}"

def jTally (t : Tally) : Json := jArr (t.map fun p => jArr [Json.str p.1, jNat p.2])

def jExc (r : Except Err XR) : Json :=
  match r with
  | .ok v => jOk [("v", jXR v)]
  | .error e => jErr e.toStr

def jExcRat (r : Except Err Rat) : Json :=
  match r with
  | .ok v => jRat v
  | .error e => Json.str e.toStr

/-- everything the harness compares for one assertion of a tallied contest -/
def assertionJson (scf : Scf) (contest w l : String) (candidates : List String) (share : Rat)
    (upper : Rat) (assort : CVR → Rat) (B : List CVR) (tE tN : Tally) : Json :=
  Json.mkObj [
    ("key", Json.str (w ++ " v " ++ l)), ("winner", Json.str w), ("loser", Json.str l),
    ("upper", jRat upper),
    ("vals", jArr (B.map fun c => jRat (assort c))),
    ("mean_style", jXR (mean true contest assort B)),
    ("mean_nostyle", jXR (mean false contest assort B)),
    ("sum_style", jRat (Assorter.sum true contest assort B)),
    ("sum_nostyle", jRat (Assorter.sum false contest assort B)),
    ("margin_style", jXR (margin true contest assort B)),
    ("margin_nostyle", jXR (margin false contest assort B)),
    ("tally_margin_enforce", jExc (findMarginFromTally scf w l candidates share B.length tE)),
    ("tally_margin_noenforce", jExc (findMarginFromTally scf w l candidates share B.length tN))]

def handle (op : String) (a : Json) : R Json := do
  match op with
  | "contest" =>
      let scf ← scfOf (← strF a "scf")
      let contest ← strF a "contest"
      let candidates ← strsF a "candidates"
      let winners ← strsF a "winners"
      let nW ← natF a "n_winners"
      let share ← match fld? a "share" with
        | some s => asRat s
        | none => pure (1 / 2 : Rat)
      let B ← (← arrF a "cvrs").mapM asCVR
      let tE := tally true nW contest B
      let tN := tally false nW contest B
      let ls := losers candidates winners
      let asns ← match scf with
        | Scf.plurality | Scf.approval =>
            match pluralityPairs winners ls with
            | .error e => return jErr e.toStr
            | .ok ps => pure (ps.map fun (_, w, l) =>
                assertionJson scf contest w l candidates share 1 (plurality contest w l) B tE tN)
        | Scf.supermajority =>
            match winners with
            | [] => throw "supermajority: no winner"
            | w :: _ =>
              pure [assertionJson scf contest w ALL_OTHERS candidates share (superUpper share)
                      (supermajority contest w (superCands ls w) share) B tE tN]
        | Scf.irv => throw "contest: IRV handled by op irv"
      pure (jOk [("assertions", jArr asns), ("tally_enforce", jTally tE), ("tally_noenforce", jTally tN),
                 ("has_contest", jArr (B.map fun c => Json.bool (c.hasContest contest))),
                 ("has_one_vote", jArr (B.map fun c => Json.bool (c.hasOneVote contest candidates)))])
  | "margin" =>
      let scf ← scfOf (← strF a "scf")
      let w ← strF a "winner"
      let l ← strF a "loser"
      let candidates ← strsF a "candidates"
      let share ← ratF a "share"
      let cards ← natF a "cards"
      let t ← (← arrF a "tally").mapM fun p => do
        let (k, v) ← asPair p
        pure (k, (← asNat v))
      pure (jOk [("margin", jExc (findMarginFromTally scf w l candidates share cards t))])
  | "irv" =>
      let contest ← strF a "contest"
      let candidates ← strsF a "candidates"
      let B ← (← arrF a "cvrs").mapM asCVR
      let asns ← (← arrF a "assertions").mapM fun j => do
        let w ← strF j "winner"
        let l ← strF j "loser"
        let ty ← strF j "assertion_type"
        match ty with
        | "WINNER_ONLY" =>
            pure (Json.mkObj [("key", Json.str (w ++ " v " ++ l)), ("upper", jRat 1),
              ("vals", jArr (B.map fun c => jExcRat (neb contest w l c)))])
        | "IRV_ELIMINATION" =>
            let elim ← strsF j "already_eliminated"
            let remn := remaining candidates elim
            pure (Json.mkObj [("key", Json.str (w ++ " v " ++ l ++ " elim " ++ " ".intercalate elim)),
              ("upper", jRat 1),
              ("vals", jArr (B.map fun c => jExcRat (nen contest w l remn c)))])
        | _ => throw s!"irv: unknown assertion type {ty}"
      pure (jOk [("assertions", jArr asns)])
  | _ => throw s!"assorter: unknown op {op}"

end Shangrla.Drv.AssorterH
