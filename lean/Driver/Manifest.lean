import Driver.Util
import Shangrla.Model.Manifest
open Lean Shangrla Shangrla.Drv Shangrla.Manifest

namespace Shangrla.Drv.ManifestH

def vendorF (a : Json) : R Vendor := do
  match (← strF a "vendor") with
  | "dominion" => pure Vendor.dominion
  | "hart" => pure Vendor.hart
  | v => throw s!"manifest: unknown vendor {v}"

def rowsF (a : Json) : R (List Row) := do
  (← arrF a "rows").mapM fun r => do
    pure { tab := (← strF r "tab"), batch := (← strF r "batch"), size := (← natF r "size"),
           extra := (← strsF r "extra") }

def cvrsF (a : Json) : R (List Cvr) := do
  (← arrF a "cvrs").mapM fun c => do
    pure { id := (← strF c "id"), cardInBatch := (← optF c "cib" asNat), phantom := (← boolF c "phantom") }

def rowJson (r : Row) : Json :=
  Json.mkObj [("tab", Json.str r.tab), ("batch", Json.str r.batch), ("size", jNat r.size), ("extra", jStrs r.extra)]

def orderJson (so : List (String × Order)) : Json :=
  jArr (so.map fun p => jArr [Json.str p.1, jNat p.2.selectionOrder, jNat p.2.serial])

def errJson (e : Err) : Json := jErr e.name

def prepJson (p : List Row × Nat × Nat) : Json :=
  jOk [("rows", jArr (p.1.map rowJson)), ("cum", jNats (cumCards (p.1.map (·.size)))),
       ("manifest_cards", jNat p.2.1), ("phantoms", jNat p.2.2)]

/-- Dominion card: cart, tray, tab, batch, card_in_batch, card_id, s; Hart: container, tab, batch, card_in_batch, card_id -/
def cardJson (v : Vendor) (e : Entry) : Json :=
  let base := e.extra.map Json.str ++ [Json.str e.tab, Json.str e.batch, jInt e.cardInBatch, Json.str e.cardId]
  match v with
  | .dominion => jArr (base ++ [jNat e.s])
  | .hart => jArr base

def cvrJson (c : Cvr) : Json :=
  Json.mkObj [("id", Json.str c.id), ("cib", match c.cardInBatch with | none => Json.null | some n => jNat n),
              ("phantom", Json.bool c.phantom)]

def handle (op : String) (a : Json) : R Json := do
  match op with
  | "prep_sizes" =>
      -- prep_manifest on the size column alone
      let sizes ← natsF a "sizes"
      match prepManifest sizes (← natF a "max_cards") (← natF a "n_cvrs") with
      | .error e => pure (errJson e)
      | .ok (sz, mc, ph) => pure (jOk [("sizes", jNats sz), ("manifest_cards", jNat mc), ("phantoms", jNat ph)])
  | "manifest" =>
      -- prep_manifest, then sample_from_manifest on (a) every number of `all` one by one, (b) `sample`
      let v ← vendorF a
      let rows ← rowsF a
      match prepRows v rows (← natF a "max_cards") (← natF a "n_cvrs") with
      | .error e => pure (jOk [("prep", errJson e)])
      | .ok p =>
        let all ← natsF a "all"
        let sample ← natsF a "sample"
        let one (s : Nat) : Json :=
          match entry v p.1 s with
          | .error e => errJson e
          | .ok en => jOk [("tab", Json.str en.tab), ("batch", Json.str en.batch), ("pos", jInt en.cardInBatch),
                            ("id", Json.str en.cardId)]
        let smp : Json :=
          match sampleFromManifest v p.1 sample with
          | .error e => errJson e
          | .ok (cards, so, ph) =>
            jOk [("cards", jArr (cards.map (cardJson v))), ("order", orderJson so), ("phantoms", jStrs ph)]
        pure (jOk [("prep", prepJson p), ("lookup", jArr (all.map one)), ("sample", smp)])
  | "cvrs" =>
      let v ← vendorF a
      let rows ← rowsF a
      let cvrs ← cvrsF a
      match prepRows v rows (← natF a "max_cards") (← natF a "n_cvrs") with
      | .error e => pure (jOk [("prep", errJson e)])
      | .ok p =>
        let sample ← natsF a "sample"
        let smp : Json :=
          match sampleFromCvrs v cvrs p.1 sample with
          | .error e => errJson e
          | .ok (cards, so, cs, ph) =>
            jOk [("cards", jArr (cards.map fun c => jStrs c.cells)), ("order", orderJson so),
                 ("cvr_sample", jArr (cs.map cvrJson)), ("phantoms", jStrs ph)]
        pure (jOk [("prep", prepJson p), ("sample", smp)])
  | _ => throw s!"manifest: unknown op {op}"

end Shangrla.Drv.ManifestH
