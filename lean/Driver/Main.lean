/-
  `drv`: executes the literal models (`Shangrla.Model.*`, the definitions the theorems are about)
  on requests read from stdin, one JSON object per line, and prints one JSON reply per line.
-/
import Driver.Util
import Driver.ElimTree
import Driver.NonnegMean
import Driver.Merge
import Driver.Assorter
import Driver.Status
import Driver.IrvBallot
import Driver.Dominion
import Driver.Manifest
import Driver.Sampling
import Driver.Phantoms
import Driver.Overstatement
import Driver.SampleSize
import Driver.Raire
import Driver.SimpAssertions
import Driver.AuditLoop
open Lean Shangrla Shangrla.Drv

def dispatch (g op : String) (a : Json) : R Json :=
  match g with
  | "elimtree" => ElimTreeH.handle op a
  | "nm" => NMH.handle op a
  | "merge" => MergeH.handle op a
  | "assorter" => AssorterH.handle op a
  | "status" => StatusH.handle op a
  | "irvballot" => IrvBallotH.handle op a
  | "dominion" => DominionH.handle op a
  | "manifest" => ManifestH.handle op a
  | "sampling" => SamplingH.handle op a
  | "phantoms" => PhantomsH.handle op a
  | "overstatement" => OverstatementH.handle op a
  | "samplesize" => SSH.handle op a
  | "raire" => RaireH.handle op a
  | "simp" => SimpH.handle op a
  | "auditloop" => AuditLoopH.handle op a
  | _ => throw s!"unknown group {g}"

def handleLine (line : String) : String :=
  match Json.parse line with
  | .error e => (Json.mkObj [("st", Json.str "bad"), ("msg", Json.str e)]).compress
  | .ok j =>
    let r : R Json := do
      let g ← strF j "g"
      let op ← strF j "op"
      let a ← fld j "a"
      dispatch g op a
    match r with
    | .ok v => v.compress
    | .error e => (Json.mkObj [("st", Json.str "bad"), ("msg", Json.str e)]).compress

partial def loop (h : IO.FS.Stream) (out : IO.FS.Stream) : IO Unit := do
  let line ← h.getLine
  if line.isEmpty then return ()
  let l := line.trimAscii.toString
  if l.isEmpty then loop h out else
  out.putStrLn (handleLine l)
  out.flush
  loop h out

def main : IO Unit := do
  loop (← IO.getStdin) (← IO.getStdout)
