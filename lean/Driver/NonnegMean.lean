import Driver.Util
import Shangrla.Model.NonnegMean
open Lean Shangrla Shangrla.Drv Shangrla.NM

namespace Shangrla.Drv.NMH

def optRat (j : Json) (k : String) : R (Option Rat) := optF j k asRat

def parseKw (j : Json) : R Kw := do
  pure { eta := ← optRat j "eta", lam := ← optRat j "lam", g := ← optRat j "g", c := ← optRat j "c",
         d := ← optRat j "d", f := ← optRat j "f", minsd := ← optRat j "minsd",
         cG0 := ← optRat j "c_grapa_0", cGmax := ← optRat j "c_grapa_max", cGgrow := ← optRat j "c_grapa_grow",
         rateError2 := ← optRat j "rate_error_2" }

def parseEstim (s : String) : R Estim :=
  match s with
  | "fixed_alternative_mean" => pure .fixedAlt
  | "shrink_trunc" => pure .shrinkTrunc
  | "optimal_comparison" => pure .optimalComparison
  | _ => throw s!"unknown estimator {s}"

def parseBet (s : String) : R Bet :=
  match s with
  | "fixed_bet" => pure .fixed
  | "agrapa" => pure .agrapa
  | _ => throw s!"unknown bet {s}"

/-- `init`: {"test": name|null, "estim": name|null, "bet": name|null, "u","N"(nat|null),"t","ro","kw":{..},
            "u_now": rat|null}  -- `u_now` models a later `test.u = u` -/
def parseInit (j : Json) : R (Cfg × Test × Estim × Bet) := do
  let estimS ← optF j "estim" asStr
  let betS ← optF j "bet" asStr
  let testS ← optF j "test" asStr
  let u ← ratF j "u"
  let N ← optF j "N" asNat
  let t ← ratF j "t"
  let ro ← boolF j "ro"
  let kw ← parseKw (← fld j "kw")
  let cfg0 := Cfg.init estimS.isSome betS.isSome u N t ro kw
  let uNow ← optF j "u_now" asRat
  let cfg1 := match uNow with
    | some v => { cfg0 with u := v }
    | none => cfg0
  -- call-time keywords `atol`, `rtol` of alpha_mart / betting_mart (absent = the defaults 2 eps, 1e-6)
  let cfg2 := match (← optF j "atol" asRat) with
    | some v => { cfg1 with atol := v }
    | none => cfg1
  let cfg := match (← optF j "rtol" asRat) with
    | some v => { cfg2 with rtol := v }
    | none => cfg2
  let e ← parseEstim (estimS.getD "fixed_alternative_mean")
  let b ← parseBet (betS.getD "fixed_bet")
  let test ← match testS.getD "alpha_mart" with
    | "alpha_mart" => pure (Test.alpha e)
    | "betting_mart" => pure (Test.betting b)
    | "kaplan_kolmogorov" => pure Test.kk
    | "kaplan_markov" => pure Test.km
    | "kaplan_wald" => pure Test.kw
    | "wald_sprt" => pure Test.sprt
    | s => throw s!"unknown test {s}"
  pure (cfg, test, e, b)

def jXRs (l : List XR) : Json := jArr (l.map jXR)

def errJ (e : Err) : Json := jErr e.toStr

/-- all distinct arrangements of a list, in lexicographic order when the input is sorted -/
partial def arrangements (l : List Rat) : List (List Rat) :=
  match l with
  | [] => [[]]
  | _ =>
    let ds := l.eraseDups
    ds.flatMap (fun a => (arrangements (l.erase a)).map (fun r => a :: r))

def minHist (p : XR) (hist : List XR) : XR := hist.foldl XR.npmin p

def handle (op : String) (a : Json) : R Json := do
  let (cfg, test, e, b) ← parseInit (← fld a "init")
  match op with
  | "test" =>
      let x ← ratsF a "x"
      let mDiag : List Rat := match sjm cfg.N cfg.t x with
        | .ok (_, _, m) => m
        | .error _ => []
      let raw : List XR := match test with
        | .alpha e' => (match alphaTerms cfg (estim sqrtRat cfg e') x with | .ok (_, _, T) => T | .error _ => [])
        | .betting b' => (match bettingTerms cfg (bet sqrtRat cfg b') x with | .ok (_, _, T) => T | .error _ => [])
        | _ => []
      match run sqrtRat cfg test x with
      | .ok (p, hist) => pure (jOk [("p", jXR p), ("hist", jXRs hist), ("m", jArr (mDiag.map jRat)), ("raw", jXRs raw)])
      | .error er => pure (errJ er)
  | "risk" =>
      -- for every distinct arrangement of the population (all equally likely under a uniformly random
      -- order): the least reported p-value (history and overall) of the test run on the whole arrangement
      let pop ← ratsF a "pop"
      let arrs := arrangements pop
      let res := arrs.map fun r =>
        match run sqrtRat cfg test r with
        | .ok (p, hist) => jXR (minHist p hist)
        | .error er => Json.str ("err:" ++ er.toStr)
      pure (jOk [("mins", jArr res), ("n", jNat arrs.length)])
  | "risk_iid" =>
      -- every sequence of length n over the support `vals` (IID draws): least reported p-value
      let vals ← ratsF a "vals"
      let n ← natF a "n"
      let seqs := (List.range n).foldl (fun acc _ => acc.flatMap (fun s => vals.map (fun v => s ++ [v]))) [[]]
      let res := seqs.map fun r =>
        match run sqrtRat cfg test r with
        | .ok (p, hist) => jXR (minHist p hist)
        | .error er => Json.str ("err:" ++ er.toStr)
      pure (jOk [("mins", jArr res), ("n", jNat seqs.length)])
  | "estim" =>
      let x ← ratsF a "x"
      match estim sqrtRat cfg e x with
      | .ok l => pure (jOk [("v", jXRs l)])
      | .error er => pure (errJ er)
  | "bet" =>
      let x ← ratsF a "x"
      match bet sqrtRat cfg b x with
      | .ok l => pure (jOk [("v", jXRs l)])
      | .error er => pure (errJ er)
  | "sjm" =>
      let x ← ratsF a "x"
      let t ← ratF a "t"
      match sjm cfg.N t x with
      | .ok (S, Stot, m) => pure (jOk [("S", jArr (S.map jRat)), ("Stot", jRat Stot), ("m", jArr (m.map jRat))])
      | .error er => pure (errJ er)
  | "conv" =>
      let lam ← (← arrF a "lam").mapM asXR
      let mu ← (← arrF a "mu").mapM asXR
      let etas := (lam.zip mu).map fun (l, m) => lamToEta cfg.u l m
      let back := (etas.zip mu).map fun (e', m) => etaToLam cfg.u e' m
      pure (jOk [("eta", jXRs etas), ("lam_back", jXRs back)])
  | "sample_size" =>
      let x ← ratsF a "x"
      let alpha ← ratF a "alpha"
      let pfx ← boolF a "prefix"
      let q ← ratF a "quantile"
      let reps ← optF a "tails" (fun j => do (← asArr j).mapM (fun r => do (← asArr r).mapM asRat))
      match sampleSize sqrtRat cfg test x alpha reps pfx q with
      | .ok n => pure (jOk [("n", jNat n)])
      | .error er => pure (errJ er)
  | _ => throw s!"nm: unknown op {op}"

end Shangrla.Drv.NMH
