import Driver.Util
import Driver.NonnegMean
import Shangrla.Model.SampleSize
open Lean Shangrla Shangrla.Drv Shangrla.NM Shangrla.SS

namespace Shangrla.Drv.SSH

def errJ (e : SS.Err) : Json := jErr e.toStr

def optRat (j : Json) (k : String) : R (Option Rat) := optF j k asRat

/-- the random tails travel as lists of *indices* into the population `x` the estimate samples from
(`prng.choice(x, size)` = `x[idx]` with the index stream of the same generator): the model is then run
on exactly the values of its own population -/
def parseTails (j : Json) (k : String) : R (Option (List (List Nat))) :=
  optF j k (fun t => do (← asArr t).mapM (fun r => do (← asArr r).mapM asNat))

def resolve (x : List Rat) (idx : Option (List (List Nat))) : Option (List (List Rat)) :=
  idx.map (fun ts => ts.map (fun t => t.map (fun i => x.getD i 0)))

def parseAuditType (s : String) : AuditType :=
  match s with
  | "POLLING" => .polling
  | "CARD_COMPARISON" => .cardComparison
  | "ONEAUDIT" => .oneaudit
  | _ => .other

/-- {"audit_type","irv","tally": null|[[name,int],..],"winner","loser","upper_bound","margin": rat|null,
     "risk_limit","init": {NonnegMean constructor call}} -/
def parseAssertion (j : Json) : R Assertion := do
  let (cfg, test, _, _) ← NMH.parseInit (← fld j "init")
  let tally ← optF j "tally" (fun t => do
    (← asArr t).mapM (fun p => do
      match (← asArr p) with
      | [k, v] => pure ((← asStr k), (← asInt v))
      | _ => throw "tally entry must be [name, int]"))
  pure { auditType := parseAuditType (← strF j "audit_type"), irv := ← boolF j "irv", tally := tally,
         winner := ← strF j "winner", loser := ← strF j "loser", upperBound := ← ratF j "upper_bound",
         margin := ← optRat j "margin", riskLimit := ← ratF j "risk_limit", cfg := cfg, test := test }

structure RawItem where
  a : Assertion
  proved : Bool
  mvr : List Rat
  cvr : List Rat
  tailsIdx : Option (List (List Nat))

def parseItem (j : Json) : R RawItem := do
  let a ← parseAssertion (← fld j "a")
  let proved := (← optF j "proved" asBool).getD false
  let mvr := (← optF j "mvr_data" (fun t => do (← asArr t).mapM asRat)).getD []
  let cvr := (← optF j "cvr_data" (fun t => do (← asArr t).mapM asRat)).getD []
  pure { a := a, proved := proved, mvr := mvr, cvr := cvr, tailsIdx := ← parseTails j "tails" }

def absR (q : Rat) : Rat := if q < 0 then -q else q

/-- is `q` a binary fraction (then a float holds it exactly, and sums of a few such values are exact)? -/
def isDyadic (q : Rat) : Bool := q.den.log2 ≤ 40 && q.den == 2 ^ q.den.log2

/-- some factor of the running product is tiny but not zero (`< 1e-6`): in floats it is the result of a
catastrophic cancellation (`u - eta_j` with `eta_j` within ulps of `u`, `1 - lam_j mu_j` with the bet at its
cap `c/mu_j`, `c = 1 - eps`), its relative error can reach 50%, and every later entry inherits it -/
def tinyFactor (cfg : Cfg) (test : Test) (pop : List Rat) (limit : Nat) : Bool :=
  let raw0 : List XR := match test with
    | .alpha e => (match alphaTerms cfg (estim sqrtRat cfg e) pop with | .ok (_, _, T) => T | .error _ => [])
    | .betting b => (match bettingTerms cfg (bet sqrtRat cfg b) pop with | .ok (_, _, T) => T | .error _ => [])
    | _ => []
  let raw := raw0.take limit
  ((XR.fin 1 :: raw).zip raw).any fun (a, b) =>
    match a, b with
    | .fin p, .fin q => p ≠ 0 && q ≠ 0 && absR q < absR p / 1000000
    | _, _ => false

/-- diagnostic for the harness (`fragile`): does a branch decision of the float code sit within relative
distance `tol` of its threshold on some population the estimate runs the test on?  Checked: a history
entry against `alpha` (`p <= alpha`), a null mean against 0 and against the `isclose(u, m)` edge, the
sample total against `N t`. -/
def nearEdge (cfg : Cfg) (test : Test) (x : List Rat) (alpha : Rat) (reps : Option (List (List Rat)))
    (pfx : Bool) (tol : Rat) (exactOk : Bool := true) : Bool :=
  match cfg.N with
  | none => false
  | some n =>
    let pops : List (List Rat) := match reps with
      | none => [tileTo x n]
      | some tails => tails.map (fun t => (if pfx then x else []) ++ t)
    pops.any fun pop =>
      -- only the entries up to the model's first crossing can change the estimate (an earlier float crossing
      -- needs an entry near the risk limit among them)
      let histOpt := match run sqrtRat cfg test pop with | .ok (_, hist) => some hist | .error _ => none
      let limit : Nat := match histOpt with
        | some hist => (match hist.findIdx? (fun p => XR.le p (.fin alpha)) with | some i => i + 1 | none => hist.length)
        | none => pop.length
      let full := limit ≥ pop.length
      let histNear := match histOpt with
        | none => false
        | some hist => (hist.take limit).any fun h =>
            match h with
            | .fin p => absR (p - alpha) ≤ tol * absR alpha   -- incl. p = alpha: the float may land on either side
            | _ => false
      let g := cfg.kw.g.getD 0
      let (t', pop') := match test with
        | .kk => (cfg.t + g, pop.map (· + g))
        | _ => (cfg.t, pop)
      let mNear := match sjm cfg.N t' pop' with
        | .error _ => false
        | .ok (_, Stot, m) =>
          -- equalities that hold exactly may fail in floats unless every value is a binary fraction
          let exact := exactOk && pop'.all isDyadic && isDyadic t'
          let exactU := exact && isDyadic cfg.u
          ((m.take limit).any fun mj =>
            (absR mj ≤ tol && (mj ≠ 0 || !exact))
            || absR (absR (cfg.u - mj) - (cfg.atol + cfg.rtol * absR mj)) ≤ tol * (if absR mj < 1 then 1 else absR mj)
            || (absR (cfg.u - mj) ≤ tol && (mj ≠ cfg.u || !exactU)))
          || (full && absR (Stot - (n : Rat) * t') ≤ tol && (Stot ≠ (n : Rat) * t' || !exact))
      histNear || mNear || tinyFactor cfg test pop limit

def jRats (l : List Rat) : Json := jArr (l.map jRat)

/-- the population handed to `NonnegMean.sample_size` by `Assertion.find_sample_size` -/
def popOf (asn : Assertion) (data : Option (List Rat)) (r1 r2 : Option Rat) : Option (List Rat) :=
  match data with
  | some d => some d
  | none => match asn.margin with
    | some m => (match assumedPopulation asn m r1 r2 with | .ok x => some x | .error _ => none)
    | none => none

/-- the style tail of `Audit.find_sample_size`: `"style": {"ids": [contest ids, dict order], "cards": [con.cards],
"cvrs": [{"contests": [ids on the card], "sampled": bool, "phantom": bool}]}` (absent without style information).
Returns the fields to add to the reply and, if `math.ceil` raises, the exception -/
def styleTail (a : Json) (sizes : List Nat) : R (List (String × Json) × Option SS.Err) := do
  match fld? a "style" with
  | none => pure ([], none)
  | some Json.null => pure ([], none)
  | some st =>
    let ids ← strsF st "ids"
    let ncards ← (← arrF st "cards").mapM asInt
    let cvrs ← (← arrF st "cvrs").mapM (fun c => do
      pure ({ contests := ← strsF c "contests", sampled := ← boolF c "sampled", phantom := ← boolF c "phantom" } : Card))
    let contests : List SContest := (ids.zip (sizes.zip ncards)).map fun (i, s, n) => { id := i, size := s, cards := n }
    let ps := cvrs.map (cardP cvrs contests)
    let olds := contests.map (fun c => oldSize true none cvrs c.id)
    let base := [("p", jArr (ps.map jXR)), ("sum", jXR (sumP cvrs contests)), ("old", jNats olds)]
    match auditTotalStyle cvrs contests with
    | .ok t => pure (base ++ [("total", jInt t)], none)
    | .error e => pure (base, some e)

def handle (op : String) (a : Json) : R Json := do
  let tol := (← optRat a "tol").getD (1 / 1000000000)
  -- `exact_ok = false`: the harness knows that the float population is not exactly the model's (its values come
  -- from inexact float operations), so exact equalities of the model need not hold in the code
  let exactOk := (← optF a "exact_ok" asBool).getD true
  match op with
  | "interleave" =>
      match interleaveValues (← intF a "n_small") (← intF a "n_med") (← intF a "n_big")
              (← ratF a "small") (← ratF a "med") (← ratF a "big") with
      | .ok x => pure (jOk [("x", jRats x)])
      | .error e => pure (errJ e)
  | "overstatement" =>
      match makeOverstatement (← ratF a "upper_bound") (← ratF a "margin") (← ratF a "overs") with
      | .ok v => pure (jOk [("v", jRat v)])
      | .error e => pure (errJ e)
  | "find" =>
      let asn ← parseAssertion (← fld a "assertion")
      let data ← optF a "data" (fun t => do (← asArr t).mapM asRat)
      let pfx ← boolF a "prefix"
      let r1 ← optRat a "rate_1"
      let r2 ← optRat a "rate_2"
      let q ← ratF a "quantile"
      let pop := popOf asn data r1 r2
      let tails := resolve (pop.getD []) (← parseTails a "tails")
      let near := match pop with
        | some x => nearEdge asn.cfg asn.test x asn.riskLimit tails pfx tol exactOk
        | none => false
      match assertionFindSampleSize sqrtRat asn data pfx r1 r2 tails q with
      | .ok n => pure (jOk [("n", jNat n), ("pop", jRats (pop.getD [])), ("near", Json.bool near)])
      | .error e => pure (errJ e)
  | "nm" =>
      let (cfg, test, _, _) ← NMH.parseInit (← fld a "init")
      let x ← ratsF a "x"
      let alpha ← ratF a "alpha"
      let pfx ← boolF a "prefix"
      let q ← ratF a "quantile"
      let tails := resolve x (← parseTails a "tails")
      let near := nearEdge cfg test x alpha tails pfx tol exactOk
      match sampleSize sqrtRat cfg test x alpha tails pfx q with
      | .ok n => pure (jOk [("n", jNat n), ("near", Json.bool near)])
      | .error e => pure (jErr e.toStr)
  | "contest" | "audit_contest" =>
      let ctype := parseAuditType (← strF a "audit_type")
      let hasMvr ← boolF a "has_mvr"
      let raw ← (← arrF a "items").mapM parseItem
      let r1 ← optRat a "rate_1"
      let r2 ← optRat a "rate_2"
      let q ← ratF a "quantile"
      -- arguments of the per-assertion call, as the model function chooses them
      let callOf (it : RawItem) : Option (List Rat) × Bool × Option Rat × Option Rat :=
        let data := if hasMvr then some it.mvr else if ctype == .oneaudit then some it.cvr else none
        if op = "audit_contest" && hasMvr then (data, true, none, none) else (data, false, r1, r2)
      let items : List Item := raw.map fun it =>
        let (data, _, q1, q2) := callOf it
        let pop := (popOf it.a data q1 q2).getD []
        { a := it.a, proved := it.proved, mvrData := it.mvr, cvrData := it.cvr, tails := resolve pop it.tailsIdx }
      let each : List Json := (raw.zip items).map fun (r, it) =>
        let (data, pf, q1, q2) := callOf r
        match assertionFindSampleSize sqrtRat it.a data pf q1 q2 it.tails q with
        | .ok n => jNat n
        | .error e => Json.str e.toStr
      let near := (raw.zip items).any fun (r, it) =>
        let (data, pf, q1, q2) := callOf r
        match popOf it.a data q1 q2 with
        | some x => nearEdge it.a.cfg it.a.test x it.a.riskLimit it.tails pf tol exactOk
        | none => false
      let f := if op = "contest" then contestFindSampleSize else auditContestNewSize
      match f sqrtRat ctype hasMvr items r1 r2 q with
      | .ok n =>
          let (extra, terr) ← styleTail a [n]
          match terr with
          | none => pure (jOk ([("n", jNat n), ("each", jArr each), ("near", Json.bool near)] ++ extra))
          | some e => pure (Json.mkObj ([("st", Json.str "err"), ("err", Json.str e.toStr), ("n", jNat n), ("where", Json.str "total")] ++ extra))
      | .error e => pure (errJ e)
  | "audit" =>
      -- Audit.find_sample_size over several contests: {"has_mvr", "contests": [{"audit_type", "items": [..]}], rates, quantile}
      let hasMvr ← boolF a "has_mvr"
      let r1 ← optRat a "rate_1"
      let r2 ← optRat a "rate_2"
      let q ← ratF a "quantile"
      let rawCs ← (← arrF a "contests").mapM (fun c => do
        pure (parseAuditType (← strF c "audit_type"), ← (← arrF c "items").mapM parseItem))
      -- the population each per-assertion call hands to NonnegMean.sample_size, with its call arguments
      let callOf (ctype : AuditType) (it : RawItem) : Option (List Rat) × Bool :=
        if hasMvr then (some it.mvr, true)
        else if ctype == .oneaudit then
          ((match oneauditInject it.cvr r1 r2 it.a.upperBound it.a.margin with | .ok d => some d | .error _ => none), false)
        else (popOf it.a none r1 r2, false)
      let contests : List AContest := rawCs.map fun (ctype, raw) =>
        { ctype := ctype, items := raw.map fun it =>
            let (pop, _) := callOf ctype it
            { a := it.a, proved := it.proved, mvrData := it.mvr, cvrData := it.cvr,
              tails := resolve (pop.getD []) it.tailsIdx } }
      let near := (rawCs.zip contests).any fun ((ctype, raw), c) =>
        (raw.zip c.items).any fun (r, it) =>
          if it.proved then false else
          let (pop, pf) := callOf ctype r
          match pop with
          | some x => nearEdge it.a.cfg it.a.test x it.a.riskLimit it.tails pf tol exactOk
          | none => false
      let each : List Json := contests.map fun c =>
        match auditContestNewSizeInj sqrtRat c.ctype hasMvr c.items r1 r2 q with
        | .ok n => jNat n
        | .error e => Json.str e.toStr
      match auditFindSampleSizes sqrtRat hasMvr contests r1 r2 q with
      | .ok sizes =>
          let total : Json := match auditTotalNoStyle sizes with | .ok t => jNat t | .error e => Json.str e.toStr
          let (extra, terr) ← styleTail a sizes
          match terr with
          | none => pure (jOk ([("sizes", jNats sizes), ("total_nostyle", total), ("near", Json.bool near)] ++ extra))
          | some e => pure (Json.mkObj ([("st", Json.str "err"), ("err", Json.str e.toStr), ("sizes", jNats sizes),
                                         ("where", Json.str "total")] ++ extra))
      | .error e => pure (Json.mkObj [("st", Json.str "err"), ("err", Json.str e.toStr), ("each", jArr each)])
  | "raire" =>
      let mean ← ratF a "mean"
      let n ← natF a "N"
      let ub ← ratF a "upper_bound"
      let polling ← boolF a "polling"
      let r1 ← optRat a "erate1"
      let r2 ← optRat a "erate2"
      let rlimit ← ratF a "rlimit"
      let tw ← intF a "tw"
      let tl ← intF a "tl"
      let to ← intF a "to"
      let setup := raireSetup mean tw tl to r1 r2 n ub polling
      let pop := match setup with | .ok (_, _, x) => x | .error _ => []
      let tails := resolve pop (← parseTails a "tails")
      let near := match setup with
        | .ok (cfg, test, x) => nearEdge cfg test x rlimit tails false tol exactOk
        | .error _ => false
      match raireSampleSize sqrtRat mean tw tl to r1 r2 rlimit tails n ub polling with
      | .ok k => pure (jOk [("n", jNat k), ("pop", jRats pop), ("near", Json.bool near)])
      | .error e => pure (errJ e)
  | _ => throw s!"samplesize: unknown op {op}"

end Shangrla.Drv.SSH
