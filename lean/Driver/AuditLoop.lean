import Driver.Util
import Driver.NonnegMean
import Shangrla.Model.AuditLoop
open Lean Shangrla Shangrla.Drv Shangrla.NM Shangrla.Status Shangrla.AuditLoop

namespace Shangrla.Drv.AuditLoopH

structure Asn where
  name : String
  cfg : Cfg
  test : NM.Test
  vals : List (Option Rat)      -- value of this assertion's data for card i (none: the card is not used)

structure Con where
  id : String
  limit : Rat
  asns : List Asn

def parseAsn (j : Json) : R Asn := do
  let (cfg, test, _, _) ← NMH.parseInit (← fld j "init")
  pure { name := ← strF j "name", cfg := cfg, test := test, vals := ← (← arrF j "vals").mapM (fun v => if v.isNull then pure none else do pure (some (← asRat v))) }

def parseCon (j : Json) : R Con := do
  pure { id := ← strF j "id", limit := ← ratF j "limit", asns := ← (← arrF j "assertions").mapM parseAsn }

def findAsn (cons : List Con) (cid name : String) : Option Asn :=
  match cons.find? (fun c => c.id == cid) with
  | some c => c.asns.find? (fun a => a.name == name)
  | none => none

/-- `first`: for every order (list of card indices) the number of draws after which
`set_p_values` + `summarize_status` first report the audit complete (null: never) -/
def handle (op : String) (a : Json) : R Json := do
  match op with
  | "first" =>
      let cons ← (← arrF a "contests").mapM parseCon
      let orders ← (← arrF a "orders").mapM (fun o => do (← asArr o).mapM asNat)
      let data : String → String → Nat → Option Rat := fun cid name i =>
        match findAsn cons cid name with
        | some x => x.vals.getD i none
        | none => none
      let T : String → String → SeqTest := fun cid name =>
        match findAsn cons cid name with
        | some x => run sqrtRat x.cfg x.test
        | none => fun _ => .error .type
      let s : State := cons.map fun c =>
        { id := c.id, riskLimit := c.limit, assertions := c.asns.map (fun x => { name := x.name }) }
      let res := orders.map fun o =>
        match firstCompleteOpt data T s o with
        | some k => jNat k
        | none => Json.null
      pure (jOk [("first", jArr res)])
  | _ => throw s!"auditloop: unknown op {op}"

end Shangrla.Drv.AuditLoopH
