import Driver.Util
import Shangrla.Model.Phantoms
open Lean Shangrla Shangrla.Drv Shangrla.Phantoms

namespace Shangrla.Drv.PhantomsH

def recOf (j : Json) : R Rec := do
  pure { id := (← strF j "id"), styles := (← strsF j "styles"), phantom := (← boolF j "phantom") }

def contestOf (j : Json) : R Sampling.Contest := do
  let id ← strF j "id"
  let cards ← optF j "cards" asNat
  pure { id := id, sampleSize := 0, cards := cards }

def jRec (r : Rec) : Json :=
  Json.mkObj [("id", Json.str r.id), ("styles", jStrs r.styles), ("phantom", Json.bool r.phantom)]

def handle (op : String) (a : Json) : R Json := do
  match op with
  | "make" =>
      let us ← boolF a "use_style"
      let mx ← natF a "max_cards"
      let pfx ← strF a "prefix"
      let contests ← (← arrF a "contests").mapM contestOf
      let cvrs ← (← arrF a "cvrs").mapM recOf
      let (recs, n, cons) := makePhantoms us mx pfx contests cvrs
      pure (jOk [("recs", jArr (recs.map jRec)), ("n", jInt n),
                 ("contests", jArr (cons.map fun c =>
                    Json.mkObj [("id", Json.str c.id),
                                ("cards", match c.cards with | some k => jNat k | none => Json.null),
                                ("cvrs", jNat c.cvrs)]))])
  | _ => throw s!"phantoms: unknown op {op}"

end Shangrla.Drv.PhantomsH
