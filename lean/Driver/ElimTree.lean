import Driver.Util
import Shangrla.Model.ElimTree
open Lean Shangrla Shangrla.Drv Shangrla.ElimTree

namespace Shangrla.Drv.ElimTreeH

partial def treeJson : Tree String → Json
  | Tree.leaf c neb irv =>
      Json.mkObj [("leaf", Json.str c),
        ("neb", jArr (neb.map fun p => jArr [jNat p.1, Json.bool p.2])),
        ("irv", jArr (irv.map fun p => jArr [jNat p.1, Json.bool p.2]))]
  | Tree.node c kids =>
      Json.mkObj [("node", Json.str c), ("kids", jArr (kids.map treeJson))]

def handle (op : String) (a : Json) : R Json := do
  match op with
  | "build" =>
      let c ← strF a "c"
      let S ← strsF a "S"
      let wo ← (← arrF a "wo").mapM fun t => do
        let l ← asArr t
        match l with
        | [x, y, z] => pure ((← asStr x), (← asStr y), (← asBool z))
        | _ => throw "bad wo triple"
      let irv ← (← arrF a "irv").mapM fun t => do
        let l ← asArr t
        match l with
        | [x, y, z] => pure ((← asStr x), (← (← asArr y).mapM asStr), (← asBool z))
        | _ => throw "bad irv triple"
      let t := build wo irv S.length c S
      pure (jOk [("tree", treeJson t), ("unpruned", Json.bool (hasUnpruned t))])
  | _ => throw s!"elimtree: unknown op {op}"

end Shangrla.Drv.ElimTreeH
