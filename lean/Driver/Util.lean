/-
  Line-protocol helpers for the model driver.  One JSON request per line:
     {"g": "<group>", "op": "<op>", "a": {...}}
  one JSON reply per line.  Rationals travel as "p/q" strings; IEEE specials as "inf", "-inf", "nan".
-/
import Lean.Data.Json
import Shangrla.Num.XR
open Lean

namespace Shangrla.Drv

abbrev R := Except String

def parseRat (s : String) : Option Rat :=
  match s.splitOn "/" with
  | [a] => a.toInt?.map (fun (i : Int) => (i : Rat))
  | [a, b] => do
      let i ← a.toInt?
      let n ← b.toNat?
      if n = 0 then none else some ((i : Rat) / (n : Rat))
  | _ => none

def parseXR (s : String) : Option XR :=
  if s = "inf" then some XR.pinf
  else if s = "-inf" then some XR.ninf
  else if s = "nan" then some XR.nan
  else (parseRat s).map XR.fin

def fld (j : Json) (k : String) : R Json :=
  match j.getObjVal? k with
  | .ok v => pure v
  | .error _ => throw s!"missing field {k}"

def fld? (j : Json) (k : String) : Option Json :=
  match j.getObjVal? k with
  | .ok Json.null => none
  | .ok v => some v
  | .error _ => none

def asStr (j : Json) : R String :=
  match j with
  | Json.str s => pure s
  | _ => throw s!"expected string, got {j.compress}"

def asNat (j : Json) : R Nat :=
  match j.getNat? with
  | .ok n => pure n
  | .error _ => throw s!"expected nat, got {j.compress}"

def asInt (j : Json) : R Int :=
  match j.getInt? with
  | .ok n => pure n
  | .error _ => throw s!"expected int, got {j.compress}"

def asBool (j : Json) : R Bool :=
  match j with
  | Json.bool b => pure b
  | _ => throw s!"expected bool, got {j.compress}"

def asArr (j : Json) : R (List Json) :=
  match j with
  | Json.arr a => pure a.toList
  | _ => throw s!"expected array, got {j.compress}"

def asRat (j : Json) : R Rat := do
  match j with
  | Json.str s => match parseRat s with
      | some q => pure q
      | none => throw s!"bad rational {s}"
  | _ => match j.getInt? with
      | .ok n => pure (n : Rat)
      | .error _ => throw s!"expected rational string, got {j.compress}"

def asXR (j : Json) : R XR := do
  match j with
  | Json.str s => match parseXR s with
      | some q => pure q
      | none => throw s!"bad number {s}"
  | _ => match j.getInt? with
      | .ok n => pure (XR.fin (n : Rat))
      | .error _ => throw s!"expected number string, got {j.compress}"

def strF (j : Json) (k : String) : R String := do asStr (← fld j k)
def natF (j : Json) (k : String) : R Nat := do asNat (← fld j k)
def intF (j : Json) (k : String) : R Int := do asInt (← fld j k)
def boolF (j : Json) (k : String) : R Bool := do asBool (← fld j k)
def ratF (j : Json) (k : String) : R Rat := do asRat (← fld j k)
def arrF (j : Json) (k : String) : R (List Json) := do asArr (← fld j k)
def ratsF (j : Json) (k : String) : R (List Rat) := do (← arrF j k).mapM asRat
def strsF (j : Json) (k : String) : R (List String) := do (← arrF j k).mapM asStr
def natsF (j : Json) (k : String) : R (List Nat) := do (← arrF j k).mapM asNat

def optF {β} (j : Json) (k : String) (f : Json → R β) : R (Option β) :=
  match fld? j k with
  | none => pure none
  | some v => do pure (some (← f v))

def jRat (q : Rat) : Json := Json.str (ratToStr q)
def jXR (x : XR) : Json := Json.str x.toStr
def jStrs (l : List String) : Json := Json.arr (l.map Json.str).toArray
def jNats (l : List Nat) : Json := Json.arr (l.map (fun (n : Nat) => Json.num (Int.ofNat n))).toArray
def jArr (l : List Json) : Json := Json.arr l.toArray
def jNat (n : Nat) : Json := Json.num (Int.ofNat n)
def jInt (n : Int) : Json := Json.num n
def jOk (fields : List (String × Json)) : Json := Json.mkObj (("st", Json.str "ok") :: fields)
def jErr (kind : String) : Json := Json.mkObj [("st", Json.str "err"), ("err", Json.str kind)]

end Shangrla.Drv
