import Driver.Util
import Shangrla.Model.Status
open Lean Shangrla Shangrla.Drv Shangrla.Status

/-
  group "status": ONE request carries the initial state and the whole operation history

    {"error_rate_1": q, "error_rate_2": q,
     "contests": [{"id", "risk_limit", "choice_function", "n_winners", "candidates"|null, "winner"|null,
                   "assertion_file"|null, "max_p"|null, "p_values"|null, "proved"|null,
                   "assertions": [{"name", "p_value", "p_history", "proved"}]}],
     "ops": [{"op": "set", "mvr_len": n, "cvr_len": n|null,
              "results": [{"contest": id, "assertion": name, "p": x, "hist": [x]}]}   -- the table of the `test` parameter
             | {"op": "reset"} | {"op": "summarize"} | {"op": "check"}]}

  the reply carries, for every step, the returned value (or the error) and the observable state after it.
-/
namespace Shangrla.Drv.StatusH

def xrsJ (l : List XR) : Json := jArr (l.map jXR)

def parseAssertion (j : Json) : R Assertion := do
  let name ← strF j "name"
  let p ← asXR (← fld j "p_value")
  let h ← (← arrF j "p_history").mapM asXR
  let pr ← boolF j "proved"
  pure { name := name, pValue := p, pHistory := h, proved := pr }

def parsePairs {β} (f : Json → R β) (j : Json) : R (List (String × β)) := do
  (← asArr j).mapM fun e => do
    match (← asArr e) with
    | [k, v] => pure ((← asStr k), (← f v))
    | _ => throw "bad pair"

def parseContest (j : Json) : R Contest := do
  let id ← strF j "id"
  let rl ← ratF j "risk_limit"
  let asns ← (← arrF j "assertions").mapM parseAssertion
  let maxP ← optF j "max_p" asXR
  let pv ← optF j "p_values" (parsePairs asXR)
  let pr ← optF j "proved" (parsePairs asBool)
  let cf ← strF j "choice_function"
  let nw ← intF j "n_winners"
  let cands ← optF j "candidates" (fun v => do (← asArr v).mapM asStr)
  let win ← optF j "winner" (fun v => do (← asArr v).mapM asStr)
  let af ← optF j "assertion_file" asStr
  pure { id := id, riskLimit := rl, assertions := asns, maxP := maxP, pValues := pv, provedD := pr,
         choiceFunction := cf, nWinners := nw, candidates := cands, winner := win, assertionFile := af }

def optJ {β} (f : β → Json) : Option β → Json
  | none => Json.null
  | some v => f v

def stateJson (s : State) : Json :=
  jArr (s.map fun c => Json.mkObj [
    ("id", Json.str c.id),
    ("max_p", optJ jXR c.maxP),
    ("p_values", optJ (fun l => jArr (l.map fun e => jArr [Json.str e.1, jXR e.2])) c.pValues),
    ("proved", optJ (fun l => jArr (l.map fun e => jArr [Json.str e.1, Json.bool e.2])) c.provedD),
    ("assertions", jArr (c.assertions.map fun a => Json.mkObj [
        ("name", Json.str a.name), ("p_value", jXR a.pValue), ("p_history", xrsJ a.pHistory),
        ("proved", Json.bool a.proved)]))])

def errJson : Err → List (String × Json)
  | Err.AssertionError tag cid => [("err", Json.str "AssertionError"), ("tag", Json.str tag), ("contest", Json.str cid)]
  | Err.TypeError => [("err", Json.str "TypeError")]

/-- the `test` parameter as a finite table; a pair that is not in the table is a harness bug -/
def tableTest (tbl : List ((String × String) × (XR × List XR))) : Test := fun cid name =>
  match tbl.find? (fun e => e.1.1 == cid && e.1.2 == name) with
  | some e => e.2
  | none => (XR.nan, [XR.nan, XR.nan, XR.nan])

def step (e1 e2 : Rat) (s : State) (j : Json) : R (Json × State) := do
  let op ← strF j "op"
  match op with
  | "set" =>
      let mvrLen ← natF j "mvr_len"
      let cvrLen ← optF j "cvr_len" asNat
      let tbl ← (← arrF j "results").mapM fun e => do
        let c ← strF e "contest"
        let a ← strF e "assertion"
        let p ← asXR (← fld e "p")
        let h ← (← arrF e "hist").mapM asXR
        pure ((c, a), (p, h))
      match setPValuesChecked (tableTest tbl) mvrLen cvrLen s with
      | .ok (pmax, s') => pure (Json.mkObj [("op", Json.str op), ("st", Json.str "ok"), ("ret", jXR pmax), ("state", stateJson s')], s')
      | .error e => pure (Json.mkObj ([("op", Json.str op), ("st", Json.str "err")] ++ errJson e ++ [("state", stateJson s)]), s)
  | "reset" =>
      let (r, s') := resetPValues s
      pure (Json.mkObj [("op", Json.str op), ("st", Json.str "ok"), ("ret", Json.bool r), ("state", stateJson s')], s')
  | "summarize" =>
      pure (Json.mkObj [("op", Json.str op), ("st", Json.str "ok"), ("ret", Json.bool (summarizeStatus s)), ("state", stateJson s)], s)
  | "check" =>
      match checkAuditParameters e1 e2 s with
      | .ok () => pure (Json.mkObj [("op", Json.str op), ("st", Json.str "ok"), ("ret", Json.null), ("state", stateJson s)], s)
      | .error e => pure (Json.mkObj ([("op", Json.str op), ("st", Json.str "err")] ++ errJson e ++ [("state", stateJson s)]), s)
  | _ => throw s!"status: unknown step {op}"

def handle (op : String) (a : Json) : R Json := do
  match op with
  | "run" =>
      let e1 ← ratF a "error_rate_1"
      let e2 ← ratF a "error_rate_2"
      let s0 ← (← arrF a "contests").mapM parseContest
      let ops ← arrF a "ops"
      let mut s := s0
      let mut out : List Json := []
      for j in ops do
        let (r, s') ← step e1 e2 s j
        out := out ++ [r]
        s := s'
      pure (jOk [("steps", jArr out)])
  | _ => throw s!"status: unknown op {op}"

end Shangrla.Drv.StatusH
