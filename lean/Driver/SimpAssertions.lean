import Driver.Util
import Driver.Raire
import Shangrla.Model.SimpAssertions
open Lean Shangrla Shangrla.Drv Shangrla.Raire Shangrla.Simp

namespace Shangrla.Drv.SimpH

def kindStr : Kind → String
  | .neb => "NEB"
  | .nen => "NEN"

/-- the shape of `RaireH.asJson` without difficulty and `rules_out` (never set by simple_IRV_assertions) -/
def asJson (a : Assertion String Unit) : Json :=
  Json.mkObj [("t", Json.str (kindStr a.kind)), ("w", Json.str a.winner), ("l", Json.str a.loser),
    ("e", jStrs a.eliminated), ("vw", jNat a.votesW), ("vl", jNat a.votesL)]

/-- `[kind, winner, loser, eliminated]` -/
def failJson (f : Failure String) : Json :=
  jArr [Json.str (kindStr f.kind), Json.str f.winner, Json.str f.loser, jStrs f.eliminated]

def errStr : Err → String
  | .ValueError => "ValueError" | .AttributeError => "AttributeError" | .IndexError => "IndexError"

/-- the ballot list: spelled out ("cvrs") or as weighted signatures ("sigs"), as for `raire`/"compute" -/
def readCvrs (a : Json) : R (List (Option (Ballot String))) :=
  match fld? a "sigs" with
  | some j => do
      let l ← asArr j
      let parts ← l.mapM fun p => do
        match (← asArr p) with
        | [b, n] => pure (List.replicate (← asNat n) (← RaireH.parseBallot b))
        | _ => throw "bad weighted signature"
      pure parts.flatten
  | none => do (← arrF a "cvrs").mapM RaireH.parseBallot

def simJson (r : Res (String × String)) : Json :=
  match r with
  | Res.ok (w, ru) => jOk [("winner", Json.str w), ("runner_up", Json.str ru)]
  | Res.fuel => Json.mkObj [("st", Json.str "fuel")]
  | Res.err e => jErr (errStr e)

def simpleJson (r : List (Assertion String Unit) × List (Failure String)) : Json :=
  jOk [("as", jArr (r.1.map asJson)), ("failed", jArr (r.2.map failJson))]

def handle (op : String) (a : Json) : R Json := do
  let cands ← strsF a "cands"
  let cvrs ← readCvrs a
  let tot ← natF a "tot"
  let C : Contest String := { candidates := cands, totBallots := tot, outcome := [] }
  match op with
  | "sim_irv" => pure (simJson (simIrv C cvrs))
  | "simple" =>
      let winner ← strF a "winner"
      let ru ← strF a "runner_up"
      pure (simpleJson (simpleIrvAssertions C cvrs winner ru))
  -- both functions on one profile: sim_irv, and simple_IRV_assertions on the pair given ("winner", "runner_up") or,
  -- when none is given, on the pair sim_irv returned (how the script uses them; nothing if sim_irv raised)
  | "both" =>
      let sim := simIrv C cvrs
      let pair : Option (String × String) ← match fld? a "winner" with
        | some w => do pure (some ((← asStr w), (← strF a "runner_up")))
        | none => pure (match sim with | Res.ok p => some p | _ => none)
      let simple := match pair with
        | some (w, ru) => simpleJson (simpleIrvAssertions C cvrs w ru)
        | none => Json.null
      pure (jOk [("sim", simJson sim), ("simple", simple)])
  | _ => throw s!"simp: unknown op {op}"

end Shangrla.Drv.SimpH
