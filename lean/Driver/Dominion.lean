import Driver.Util
import Shangrla.Model.Dominion
open Lean Shangrla Shangrla.Drv Shangrla.Dominion

/-
  group "dominion"
    op "read": a = {"opts": {"use_current","enforce_rules","include_groups":[atom],"pool_groups":[atom]},
                    "sessions": [session]}
    op "dir" : a = {"opts": .., "files": [[session]]}          (files in sorted-name order)
  session = {"tab":atom,"batch":atom,"rec":atom,"group":atom,"mask":str,
             "blocks":[[key, {"flat":[contest]} | {"cards":[[contest]]}]]}   (file order)
  contest = {"id":atom,"marks":[[cand atom, rank int, isVote bool]]}
  atom    = JSON integer | JSON string
  reply   = {"st":"ok","recs":[{"id","tally_pool","pool","votes":[[contest,[[cand,rank]]]]}]}
-/
namespace Shangrla.Drv.DominionH

def asAtom (j : Json) : R Atom :=
  match j with
  | Json.str s => pure (Atom.str s)
  | _ => match j.getInt? with
    | .ok n => pure (Atom.int n)
    | .error _ => throw s!"expected atom, got {j.compress}"

def asMark (j : Json) : R Mark := do
  match (← asArr j) with
  | [c, r, v] => pure { cand := (← asAtom c), rank := (← asInt r), isVote := (← asBool v) }
  | _ => throw "bad mark"

def asContest (j : Json) : R Contest := do
  pure { id := (← asAtom (← fld j "id")), marks := (← (← arrF j "marks").mapM asMark) }

def asBlock (j : Json) : R Block := do
  match fld? j "cards" with
  | some cs => pure (Block.cards (← (← asArr cs).mapM fun c => do (← asArr c).mapM asContest))
  | none => pure (Block.flat (← (← arrF j "flat").mapM asContest))

def asSession (j : Json) : R Session := do
  let blocks ← (← arrF j "blocks").mapM fun b => do
    match (← asArr b) with
    | [k, v] => pure ((← asStr k), (← asBlock v))
    | _ => throw "bad block entry"
  pure { tabulatorId := (← asAtom (← fld j "tab")), batchId := (← asAtom (← fld j "batch")),
         recordId := (← asAtom (← fld j "rec")), countingGroupId := (← asAtom (← fld j "group")),
         imageMask := (← strF j "mask"), blocks := blocks }

def asOpts (j : Json) : R Opts := do
  pure { useCurrent := (← boolF j "use_current"), enforceRules := (← boolF j "enforce_rules"),
         includeGroups := (← (← arrF j "include_groups").mapM asAtom),
         poolGroups := (← (← arrF j "pool_groups").mapM asAtom) }

def recJson (r : Rec) : Json :=
  Json.mkObj [("id", Json.str r.id), ("tally_pool", Json.str r.tallyPool), ("pool", Json.bool r.pool),
    ("votes", jArr (r.votes.map fun (k, cv) =>
        jArr [Json.str k, jArr (cv.map fun (c, v) => jArr [Json.str c, jInt v])]))]

def reply (r : Except Err (List Rec)) : Json :=
  match r with
  | .ok recs => jOk [("recs", jArr (recs.map recJson))]
  | .error Err.ValueError => jErr "ValueError"

def handle (op : String) (a : Json) : R Json := do
  match op with
  | "read" =>
      let o ← asOpts (← fld a "opts")
      let ss ← (← arrF a "sessions").mapM asSession
      pure (reply (readCvrs o ss))
  | "dir" =>
      let o ← asOpts (← fld a "opts")
      let fs ← (← arrF a "files").mapM fun f => do (← asArr f).mapM asSession
      pure (reply (readCvrsDirectory o fs))
  | _ => throw s!"dominion: unknown op {op}"

end Shangrla.Drv.DominionH
