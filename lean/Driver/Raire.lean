import Driver.Util
import Shangrla.Model.Raire
open Lean Shangrla Shangrla.Drv Shangrla.Raire

namespace Shangrla.Drv.RaireH

/-- Python float comparison on IEEE doubles -/
instance : DiffOrd Float := ⟨fun a b => decide (a < b), fun a b => decide (a ≤ b)⟩

/-- sample_estimator.py cp_estimate L57-60, same operation order on IEEE doubles -/
def cpEstimate (winner _loser other total : Nat) : Float :=
  let amargin := 2.0 * ((Float.ofNat winner + 0.5 * Float.ofNat other) / Float.ofNat total) - 1.0
  1.0 / amargin

/-- sample_estimator.py bp_estimate L48-54 -/
def bpEstimate (winner loser _other total : Nat) : Float :=
  let p := Float.ofNat (winner + loser) / Float.ofNat total
  let q := Float.ofNat (winner - loser) / Float.ofNat (winner + loser)
  let margin := p * (q * q)
  1.0 / margin

/-- a difficulty value as the float Python holds (`np.inf` for `inf`) -/
def toF : Diff Float → Float
  | Diff.fin d => d
  | Diff.inf => 1.0 / 0.0

/-- raire.py L160 `agap > 0 and lowerbound > 0 and max_on_frontier-lowerbound <= agap` on IEEE doubles
(`lowerbound` here is never the sentinel -10: `gapExit` handles that case) -/
def gapTest (agap : Float) (mx lb : Diff Float) : Bool :=
  decide (agap > 0) && decide (toF lb > 0) && decide (toF mx - toF lb ≤ agap)

/-- a caller's own difficulty function with non-positive values: `-(w - l) / t` (Python: an int negated and divided by
an int = the correctly rounded quotient, as here) -/
def negMargin (winner loser _other total : Nat) : Float :=
  -(Float.ofNat (winner - loser)) / Float.ofNat total

def ltStrs : List String → List String → Bool
  | [], [] => false
  | [], _ :: _ => true
  | _ :: _, [] => false
  | a :: as, b :: bs => if a < b then true else if b < a then false else ltStrs as bs

def insStrs (x : List String) : List (List String) → List (List String)
  | [] => [x]
  | y :: ys => if ltStrs x y then x :: y :: ys else y :: insStrs x ys

def sortRO (l : List (List String)) : List (List String) := l.foldl (fun acc x => insStrs x acc) []

def asJson (a : Assertion String Float) : Json :=
  Json.mkObj [("t", Json.str (match a.kind with | .neb => "NEB" | .nen => "NEN")),
    ("w", Json.str a.winner), ("l", Json.str a.loser), ("e", jStrs a.eliminated),
    ("vw", jNat a.votesW), ("vl", jNat a.votesL), ("d", jNat a.difficulty.toBits.toNat),
    ("ro", jArr ((sortRO a.rulesOut).map jStrs))]

def parseBallot (j : Json) : R (Option (Ballot String)) :=
  match j with
  | Json.null => pure none
  | _ => do
    let l ← asArr j
    let b ← l.mapM fun p => do
      match (← asArr p) with
      | [c, i] => pure ((← asStr c), (← asNat i))
      | _ => throw "bad ballot entry"
    pure (some b)

def handle (op : String) (a : Json) : R Json := do
  match op with
  | "compute" =>
      let cands ← strsF a "cands"
      -- the ballot list the model runs on: either spelled out ("cvrs") or as weighted signatures
      -- ("sigs": [[ballot, n], ...] = n consecutive copies of each ballot, in the order given; large contests)
      let cvrs ← match fld? a "sigs" with
        | some j => do
            let l ← asArr j
            let parts ← l.mapM fun p => do
              match (← asArr p) with
              | [b, n] => pure (List.replicate (← asNat n) (← parseBallot b))
              | _ => throw "bad weighted signature"
            pure parts.flatten
        | none => (← arrF a "cvrs").mapM parseBallot
      let winner ← strF a "winner"
      let tot ← natF a "tot"
      let outcome ← strsF a "outcome"
      let fuel ← natF a "fuel"
      let asn ← match (← strF a "asn") with
        | "cp" => pure cpEstimate
        | "bp" => pure bpEstimate
        | "nm" => pure negMargin
        | s => throw s!"unknown asn {s}"
      let C : Contest String := { candidates := cands, totBallots := tot, outcome := outcome }
      -- "agap": the bits of the float64 handed to the real code (absent = the default 0)
      let agap : Float ← match fld? a "agap" with
        | some j => do pure (Float.ofBits (← asNat j).toUInt64)
        | none => pure 0.0
      match computeRaireAssertionsG (gapTest agap) asn C cvrs winner fuel with
      | Res.ok l => pure (jOk [("as", jArr (l.map asJson))])
      | Res.fuel => pure (Json.mkObj [("st", Json.str "fuel")])
      | Res.err e => pure (jErr (match e with
          | .ValueError => "ValueError" | .AttributeError => "AttributeError" | .IndexError => "IndexError"))
  | _ => throw s!"raire: unknown op {op}"

end Shangrla.Drv.RaireH
