import Driver.Util
import Shangrla.Model.Overstatement
open Lean Shangrla Shangrla.Drv Shangrla.Overstatement

namespace Shangrla.Drv.OverstatementH

def asKey (j : Json) : R PoolKey :=
  match j with
  | Json.null => pure none
  | Json.str s => pure (some s)
  | _ => throw s!"expected pool label (string or null), got {j.compress}"

def jKey : PoolKey → Json
  | none => Json.null
  | some s => Json.str s

def asCvr (j : Json) : R Cvr := do
  let tp ← match j.getObjVal? "tp" with
    | .ok v => asKey v
    | .error _ => pure none
  pure { hasContest := ← boolF j "hc", phantom := ← boolF j "ph", pool := ← boolF j "pool",
         tallyPool := tp, a := ← ratF j "a", sampleNum := ← natF j "sn" }

def asMvr (j : Json) : R Mvr := do
  pure { hasContest := ← boolF j "hc", phantom := ← boolF j "ph", a := ← ratF j "a" }

def asTy (s : String) : AuditType :=
  if s = "POLLING" then .polling
  else if s = "CARD_COMPARISON" then .cardComparison
  else if s = "ONEAUDIT" then .oneaudit
  else .other

def jExc {β} (r : Except Err β) (f : β → List (String × Json)) : Json :=
  match r with
  | .ok v => jOk (f v)
  | .error e => jErr e.toStr

def jMeans (d : Means) : Json := jArr (d.map fun e => jArr [jKey e.1, jXR e.2])

def asMeans (j : Json) : R Means := do
  (← asArr j).mapM fun e => do
    match (← asArr e) with
    | [k, v] => pure ((← asKey k), (← asXR v))
    | _ => throw "bad means entry"

def pick {β} [Inhabited β] (l : List β) (idx : List Nat) : R (List β) :=
  idx.mapM fun i => match l[i]? with
    | some x => pure x
    | none => throw s!"sample index {i} out of range"

/-- one whole scenario: pool means, margin, per-pair overstatements, data for the test, installed u -/
def scenario (a : Json) : R Json := do
  let useStyle ← boolF a "useStyle"
  let ty := asTy (← strF a "ty")
  let upper ← ratF a "upper"
  let nStrata ← natF a "nStrata"
  let cvrs ← (← arrF a "cvrs").mapM asCvr
  let mvrs ← (← arrF a "mvrs").mapM asMvr
  let setMeans ← boolF a "setMeans"
  let keys ← optF a "keys" (fun j => do (← asArr j).mapM asKey)
  let meansOv ← optF a "meansOverride" asMeans
  let marginOv ← optF a "marginOverride" asXR
  let threshold ← optF a "threshold" asNat
  let sample ← natsF a "sample"
  let mvrLen ← optF a "mvrSampleLen" asNat
  -- 1. set_tally_pool_means (the attribute stays None on KeyError / when not called)
  let pm : Except Err Means := if setMeans then poolMeans useStyle cvrs keys else .error Err.ValueError
  let means : Option Means := match meansOv with
    | some d => some d
    | none => if setMeans then (match pm with | .ok d => some d | .error _ => none) else none
  -- 2. set_margin_from_cvrs
  let mg := setMarginFromCvrs nStrata useStyle ty upper cvrs
  let mgAll := setAllMarginsFromCvrs nStrata useStyle ty upper cvrs
  let margin : XR := match marginOv with
    | some v => v
    | none => marginFromCvrs useStyle cvrs
  -- 3. per pair
  let pairs := (mvrs.zip cvrs).map fun p =>
    Json.mkObj [("o", jExc (overstatement useStyle means p.1 p.2) fun v => [("v", jXR v)]),
                ("b", jExc (overstatementAssorter margin upper useStyle means p.1 p.2) fun v => [("v", jXR v)]),
                ("bph", jExc (overstatementAssorter margin upper useStyle means { p.1 with phantom := true } p.2)
                          fun v => [("v", jXR v)])]
  -- 4. mvrs_to_data on the sample and on the whole population
  let sc0 ← pick cvrs sample
  let cvrLen ← optF a "cvrSampleLen" asNat
  let sc := match cvrLen with | some n => sc0.take n | none => sc0
  let sm0 ← pick mvrs sample
  let sm := match mvrLen with | some n => sm0.take n | none => sm0
  let jD (r : Except Err (List XR × XR)) : Json := jExc r fun v => [("d", jArr (v.1.map jXR)), ("u", jXR v.2)]
  let dat := mvrsToData ty useStyle false threshold margin upper means sm sc
  let datAll := mvrsToData ty useStyle true threshold margin upper means sm sc
  let popAll := mvrsToData ty useStyle true threshold margin upper means mvrs cvrs
  let inst := setPValuesU ty useStyle threshold margin upper means sm sc
  pure (jOk [("pm", if setMeans then jExc pm fun d => [("means", jMeans d)] else Json.null),
             ("mg", jExc mg fun v => [("margin", jXR v.1), ("u", jXR v.2)]),
             ("mgAll", jExc mgAll fun v => [("margin", jXR v.1), ("u", jXR v.2.1), ("min", jXR v.2.2)]),
             ("margin", jXR margin),
             ("pairs", jArr pairs),
             ("dat", jD dat), ("datAll", jD datAll), ("popAll", jD popAll),
             ("inst", jExc inst fun u => [("u", jXR u)])])

def handle (op : String) (a : Json) : R Json := do
  match op with
  | "scenario" => scenario a
  | _ => throw s!"overstatement: unknown op {op}"

end Shangrla.Drv.OverstatementH
