import Driver.Util
import Shangrla.Model.IrvBallot
open Lean Shangrla Shangrla.Drv Shangrla.IrvBallot

namespace Shangrla.Drv.IrvBallotH

def pairsF (j : Json) (k : String) : R (List (String × Int)) := do
  (← arrF j k).mapM fun t => do
    match (← asArr t) with
    | [x, y] => pure ((← asStr x), (← asInt y))
    | _ => throw "bad pair"

def natPairsF (j : Json) (k : String) : R (List (String × Nat)) := do
  (← arrF j k).mapM fun t => do
    match (← asArr t) with
    | [x, y] => pure ((← asStr x), (← asNat y))
    | _ => throw "bad pair"

def jVotes (v : Votes String String) : Json :=
  jArr (v.map fun (cid, b) => jArr [Json.str cid, jArr (b.map fun (c, n) => jArr [Json.str c, jInt n])])

def jGCvr (v : GCvr String String) : Json :=
  jArr (v.map fun (cid, b) => jArr [Json.str cid, jArr (b.map fun (c, n) => jArr [Json.str c, jNat n])])

def jOptInt : Option Int → Json
  | none => Json.null
  | some n => jInt n

/-- one assertion spec `[type, winner, loser, eliminated]` -/
def specOf (t : Json) : R (String × String × String × List String) := do
  match (← asArr t) with
  | [ty, w, l, e] => pure ((← asStr ty), (← asStr w), (← asStr l), (← (← asArr e).mapM asStr))
  | _ => throw "bad assertion spec"

def tableRow (cid : String) (cands : List String) (acvrs : List (Votes String String))
    (gcvrs : List (String × GCvr String String)) (spec : String × String × String × List String) : R Json := do
  let (ty, w, l, e) := spec
  let assort : Votes String String → Rat ←
    if ty = "NEB" then pure (fun v => nebAssort v cid w l)
    else if ty = "NEN" then pure (fun v => nenAssort v cid w l (remnOf cands e))
    else throw s!"bad assertion type {ty}"
  let vals := (acvrs.filter (fun c => hasContest c cid)).map assort
  let mean := assorterMean assort cid acvrs true
  let asn : Assn String String := if ty = "NEB" then Assn.neb cid w l 0 0 else Assn.nen cid w l e 0 0
  let W := (gcvrs.map (fun r => asn.isVoteForWinner r.2)).sum
  let L := (gcvrs.map (fun r => asn.isVoteForLoser r.2)).sum
  let made := if ty = "NEB" then mkNeb cid w l gcvrs else mkNen cid w l e (ballotsOf cid gcvrs)
  pure (Json.mkObj [("sum", jRat vals.sum), ("n", jNat vals.length),
    ("mean", match mean with | none => Json.null | some m => jRat m),
    ("W", jInt W), ("L", jInt L),
    ("vW", jOptInt (made.map (·.votesForWinner))), ("vL", jOptInt (made.map (·.votesForLoser)))])

def handle (op : String) (a : Json) : R Json := do
  match op with
  | "ballot" =>
      let cid ← strF a "cid"
      let cands ← strsF a "cands"
      let w ← strF a "w"
      let l ← strF a "l"
      let e ← strsF a "E"
      let ab ← pairsF a "a"
      let gb ← natPairsF a "g"
      let votes : Votes String String := fromVote ab cid
      let gcvr : GCvr String String := [(cid, gb)]
      let remn := remnOf cands e
      pure (jOk [
        ("aw", jInt (nebWinnerFunc votes cid w)), ("al", jInt (nebLoserFunc votes cid w l)),
        ("neb", jRat (nebAssort votes cid w l)),
        ("remn", jStrs remn),
        ("rw", jInt (rcvVoteforCand votes cid w remn)), ("rl", jInt (rcvVoteforCand votes cid l remn)),
        ("nen", jRat (nenAssort votes cid w l remn)),
        ("gw", jInt (nebWinner cid w gcvr)), ("gl", jInt (nebLoser cid w l gcvr)),
        ("nw", jInt (nenWinner cid w e gcvr)), ("nl", jInt (nenLoser cid l e gcvr)),
        ("aorder", jStrs (auditOrder ab)), ("gorder", jStrs (genOrder gb))])
  | "raire" =>
      let n ← natF a "n"
      let rows ← (← arrF a "rows").mapM fun r => do (← asArr r).mapM asStr
      let ar := fromRaire n rows
      let gr := loadContestsFromRaire n rows
      let aj := match ar with
        | .error e => jErr e.toStr
        | .ok cvrs => jOk [
            ("cvrs", jArr (cvrs.map fun (id, v) => jArr [Json.str id, jVotes v])),
            ("orders", jArr (cvrs.map fun (id, v) => jArr [Json.str id,
              jArr (v.map fun (cid, b) => jArr [Json.str cid, jStrs (auditOrder b)])]))]
      let gj := match gr with
        | .error e => jErr e.toStr
        | .ok (contests, cvrs) => jOk [
            ("contests", jArr (contests.map fun (cid, cands, winner) => jArr [Json.str cid, jStrs cands, Json.str winner])),
            ("cvrs", jArr (cvrs.map fun (id, v) => jArr [Json.str id, jGCvr v])),
            ("orders", jArr (cvrs.map fun (id, v) => jArr [Json.str id,
              jArr (v.map fun (cid, b) => jArr [Json.str cid, jStrs (genOrder b)])]))]
      let tables ← match ar, gr with
        | .ok acvrs, .ok (_, gcvrs) => do
            let specs ← arrF a "asserts"
            let ts ← specs.mapM fun s => do
              match (← asArr s) with
              | [cidJ, candsJ, listJ] => do
                  let cid ← asStr cidJ
                  let cands ← (← asArr candsJ).mapM asStr
                  let rowsJ ← (← asArr listJ).mapM fun t => do
                    tableRow cid cands (acvrs.map (·.2)) gcvrs (← specOf t)
                  pure (jArr [Json.str cid, jArr rowsJ])
              | _ => throw "bad asserts entry"
            pure (jArr ts)
        | _, _ => pure Json.null
      pure (jOk [("audit", aj), ("gen", gj), ("tables", tables)])
  | _ => throw s!"irvballot: unknown op {op}"

end Shangrla.Drv.IrvBallotH
