import Shangrla.Num.XR
