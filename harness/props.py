"""
Registry: property -> Lean modules / theorems (the proof obligations), correspondence groups with
(quick, thorough) budgets, and notes.  Theorem names are fully qualified.
"""
import json, os

_here = os.path.dirname(os.path.dirname(os.path.abspath(__file__)))
_stmts = {}
for _l in open(os.path.join(_here, "properties.jsonl")):
    _p = json.loads(_l)
    _stmts[_p["id"]] = _p["statement"]

TRUSTED_BASE = [
    "Lean 4.33.0 kernel; axioms allowed: propext, Classical.choice, Quot.sound (audited by #print axioms every run)",
    "Mathlib v4.33.0 modules imported one at a time in Lemmas/ and Props/ only",
    "Lean compiler/runtime for the driver `drv`, which executes the same Model.* definitions the theorems are about",
    "the correspondence check itself: harness/*.py (generators, canonicalisation, tolerances), CPython 3.12, numpy, pandas in /venv",
    "modelled, not verified: every anchored Python function; the tie is the per-run correspondence",
    "not modelled: floating-point rounding, overflow/underflow, signed zero; PRNGs; json/csv/pandas internals",
]

PROPS = {}


def _reg(pid, modules, theorems, groups, **kw):
    PROPS[pid] = dict(modules=modules, theorems=theorems, groups=groups, statement=_stmts[pid], **kw)


_reg("C20",
     modules=["Shangrla.Props.C20"],
     theorems=["Shangrla.C20.unpruned_iff", "Shangrla.C20.leaves_tagged", "Shangrla.C20.tags_exact_neb",
               "Shangrla.C20.tags_exact_irv", "Shangrla.C20.nebContra_iff_idx"],
     groups={"elimtree": (1500, 30000)})
