"""
Registry: property -> Lean modules / theorems (the proof obligations), correspondence groups with
(quick, thorough) budgets, and notes.  Theorem names are fully qualified.
"""
import json, os

_here = os.path.dirname(os.path.dirname(os.path.abspath(__file__)))
_stmts = {}
for _l in open(os.path.join(_here, "properties.jsonl")):
    _p = json.loads(_l)
    _stmts[_p["id"]] = _p["statement"]

TRUSTED_BASE = [
    "Lean 4.33.0 kernel; axioms allowed: propext, Classical.choice, Quot.sound (audited by #print axioms every run)",
    "Mathlib v4.33.0 modules imported one at a time in Lemmas/ and Props/ only",
    "Lean compiler/runtime for the driver `drv`, which executes the same Model.* definitions the theorems are about",
    "the correspondence check itself: harness/*.py (generators, canonicalisation, tolerances), CPython 3.12, numpy, pandas in /venv",
    "modelled, not verified: every anchored Python function; the tie is the per-run correspondence",
    "not modelled: floating-point rounding, overflow/underflow, signed zero; PRNGs; json/csv/pandas internals",
]

PROPS = {}


def _reg(pid, modules, theorems, groups, **kw):
    PROPS[pid] = dict(modules=modules, theorems=theorems, groups=groups, statement=_stmts[pid], **kw)


# every property is registered by its own file harness/propdefs/Cnn.py (a dict named PROP)
import importlib, pkgutil
from . import propdefs as _pd
for _m in sorted(pkgutil.iter_modules(_pd.__path__), key=lambda m: m.name):
    _mod = importlib.import_module(f"harness.propdefs.{_m.name}")
    _d = dict(_mod.PROP)
    _reg(_m.name, _d.pop("modules"), _d.pop("theorems"), _d.pop("groups"), **_d)
