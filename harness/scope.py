"""
Which generated cases lie OUTSIDE the quantifier of every property that uses a correspondence group.

The generators deliberately include such inputs (negative observations, padding g outside [0,1), an empty pilot
sample, ...) to exercise the model's error branches.  No property claims anything about them, so a change of the
code that only affects WHETHER or HOW such an input is rejected (a stricter validation, another exception type)
leaves every property intact.  For these cases a difference in status (ok / raised) or in the kind of exception
between code and model is therefore not a disagreement: it is excluded from the verdict and counted in the
evidence (`out_of_scope_excluded`).  Numeric results of out-of-scope cases that BOTH sides compute are still
compared, and the oracles never look at these cases anyway.
"""
from fractions import Fraction as F


def _nm_out(case):
    if case.get("stream") == "malformed":
        return True
    init = case.get("init")
    if not isinstance(init, dict) or "x" not in case:
        return False
    try:
        u = F(init["u_now"] if init.get("u_now") is not None else init["u"])
        t = F(init["t"])
        x = [F(v) for v in case["x"]]
        kw = {k: F(v) for k, v in (init.get("kw") or {}).items() if v is not None}
    except Exception:
        return True
    if not x or not (0 < t < u) or any(v < 0 or v > u for v in x):
        return True
    if init.get("N") is not None and len(x) > init["N"]:
        return True
    if "g" in kw and not (0 <= kw["g"] < 1):
        return True
    return False


def _ss_out(case):
    """C16: pilot data non-constant and shorter than N, repetitions >= 1"""
    x = case.get("x") if "x" in case else case.get("data")
    if isinstance(x, list):
        try:
            vals = [F(v) for v in x]
        except Exception:
            return True
        if len(vals) < 2 or len(set(vals)) < 2:
            return True
    reps = case.get("reps")
    if isinstance(reps, int) and reps < 1:
        return True
    return False


OUT_OF_SCOPE = {"nm": _nm_out, "samplesize": _ss_out}


def status_only_difference(ir, mr):
    """the two sides differ in ok / raised, or both raised different kinds of exception"""
    a, b = ir.get("st"), mr.get("st")
    if a != b:
        return True
    return a == "err" and ir.get("err") != mr.get("err")


def excluded(group, case, ir, mr):
    f = OUT_OF_SCOPE.get(group)
    if f is None:
        return False
    try:
        return bool(f(case)) and status_only_difference(ir, mr)
    except Exception:
        return False
