"""
Worker for the interpreter-mode slice of the correspondence check (DESIGN.md 13, round 8).

`python -O -m harness.oworker <group>` reads a pickled list of cases from stdin, calls the group's `impl` (the REAL
code, exactly as the in-process check does) on each and writes the pickled list of results to stdout.  The parent
(harness/run.py) starts it with `-O`, so that `assert` statements and `if __debug__:` blocks of the library are
compiled away: a property must not depend on the interpreter's optimisation flag.
"""
import pickle, sys


def main():
    from .run import load_group
    from .core import impl_call
    G = load_group(sys.argv[1])
    cases = pickle.load(sys.stdin.buffer)
    out = [impl_call(G.impl, {k: v for k, v in c.items() if k != "_pyopt"}) for c in cases]
    sys.stdout.buffer.write(pickle.dumps({"debug": __debug__, "results": out}))
    sys.stdout.buffer.flush()


if __name__ == "__main__":
    main()
