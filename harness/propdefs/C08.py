PROP = dict(
    modules=["Shangrla.Props.C08a"],
    theorems=[],
    groups={"phantoms": (2000, 40000)},
    design_ref="DESIGN.md section 5, C08",
)
