# C08 has two parts: phantom creation (Props/C08a, group `phantoms`) and worst-case scoring of phantoms in the
# overstatement assorter (Props/C08b, group `overstatement`).  The statement's accounting clause ("the total number of
# records equals the stratum's card bound ... no more phantoms than the largest shortfall") and its anchors also cover
# the phantom batch / phantom manual records of the two format modules (Dominion.py, Hart.py): group `manifest`
# (model Shangrla.Manifest, theorems registered under C17) with its own C08 oracle.
PROP = dict(
    modules=["Shangrla.Props.C08a", "Shangrla.Props.C08b"],
    theorems=["Shangrla.C08.phantoms_style", "Shangrla.C08.phantoms_nostyle", "Shangrla.C08.phantom_ids_distinct",
              "Shangrla.Phantoms.style_phantoms", "Shangrla.Phantoms.count_closed",
              "Shangrla.C08.phantom_mvr_worst", "Shangrla.C08.phantom_mvr_same_errors", "Shangrla.C08.phantom_cvr_half",
              "Shangrla.C08.phantom_cvr_pooled", "Shangrla.C08.phantom_cvr_pool_mean"],
    groups={"phantoms": (6000, 40000), "overstatement": (1500, 20000), "manifest": (1200, 10000)},
    design_ref="DESIGN.md section 5, C08",
    assumptions=[
        "phantom_mvr_worst: assorter values >= 0, 2 - v/u > 0, u > 0, the CVR's score is a number (not a nan pool mean)",
        "phantom_cvr_half: an unpooled phantom CVR is scored exactly 1/2; a pooled one by its pool's mean, to which it contributes its own assorter value (1/2 for every shipped assorter on a record without votes)",
        "contests are a dict keyed by contest id: one contest per id",
        "unstratified audits (exactly one stratum); more than one raises NotImplementedError",
        "'records listing the contest = cards_c' is claimed for inputs that contain no phantom record listing the "
        "contest (phantoms passed in are not counted in cvrs_c by the code); the general count is in phantoms_style",
    ],
)
