# C08 has two parts.  This file registers the first sentence (phantom creation, package `sampling`);
# the overstatement theorems of package c0306 (phantom_mvr_worst, phantom_cvr_half, group `overstatement`) will be merged in here.
PROP = dict(
    modules=["Shangrla.Props.C08a"],
    theorems=["Shangrla.C08.phantoms_style", "Shangrla.C08.phantoms_nostyle", "Shangrla.C08.phantom_ids_distinct",
              "Shangrla.Phantoms.style_phantoms", "Shangrla.Phantoms.count_closed"],
    groups={"phantoms": (6000, 40000)},
    design_ref="DESIGN.md section 5, C08",
    assumptions=[
        "contests are a dict keyed by contest id: one contest per id",
        "unstratified audits (exactly one stratum); more than one raises NotImplementedError",
        "'records listing the contest = cards_c' is claimed for inputs that contain no phantom record listing the "
        "contest (phantoms passed in are not counted in cvrs_c by the code); the general count is in phantoms_style",
    ],
)
