PROP = dict(
    modules=["Shangrla.Props.C12Mart"],
    theorems=["Shangrla.C12.factor_alpha_eq_betting", "Shangrla.C12.eta_lam_inverse", "Shangrla.C12.lam_eta_inverse",
              "Shangrla.C12.alpha_terms_def", "Shangrla.C12.betting_terms_def", "Shangrla.C12.alpha_eq_betting_products",
              "Shangrla.C12.alphaQ_lamToEta", "Shangrla.C12.hist_regular", "Shangrla.C12.hist_vanished",
              "Shangrla.C12.hist_above_u", "Shangrla.C12.hist_below_zero", "Shangrla.C12.clamp_total_exceeds"],
    groups={"nm": (1500, 30000)},
    design_ref="DESIGN.md section 5, C12",
)
