PROP = dict(
    modules=["Shangrla.Model.NonnegMean"],
    theorems=[],
    groups={"nm": (1500, 30000)},
    design_ref="DESIGN.md section 5, C12",
)
