PROP = dict(
    modules=["Shangrla.Props.C14"],
    theorems=["Shangrla.C14.neb_agree", "Shangrla.C14.nen_agree", "Shangrla.C14.mean_gt_half_iff_tally",
              "Shangrla.C14.readers_agree", "Shangrla.C14.reapply_tallies",
              "Shangrla.C14.mean_gt_half_iff_tally_nen", "Shangrla.C14.row_agree", "Shangrla.C14.nen_disagree_unlisted"],
    groups={"irvballot": (6500, 62000)},
    design_ref="DESIGN.md section 5, C14",
)
