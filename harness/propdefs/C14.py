PROP = dict(
    modules=["Shangrla.Props.C14"],
    theorems=["Shangrla.C14.neb_agree", "Shangrla.C14.nen_agree", "Shangrla.C14.mean_gt_half_iff_tally",
              "Shangrla.C14.readers_agree", "Shangrla.C14.reapply_tallies",
              # beyond the inventory of DESIGN.md Appendix C
              "Shangrla.C14.mean_gt_half_iff_tally_nen", "Shangrla.C14.row_agree", "Shangrla.C14.nen_disagree_unlisted",
              "Shangrla.C14.file_readers", "Shangrla.C14.file_orders_agree",
              "Shangrla.C14.file_mean_gt_half_iff_tally"],
    groups={"irvballot": (12100, 73200)},
    boost=2.0,   # quick-tier budget factor when the anchored sources changed (default 5): keeps the boosted run near 2 min
    assumptions=[
        "nen_agree / mean_gt_half_iff_tally_nen / file_*: every ranked candidate belongs to the contest's candidate list "
        "(the property's quantifier: rankings over the candidate set). Outside it the two sides differ "
        "(theorem nen_disagree_unlisted: candidates [A,B], ballot X>A, nobody eliminated: audit counts it for A, "
        "generator does not); load_contests_from_raire never produces such a ballot, CVR.from_raire does.",
        "readers: rows are handed to the models as token lists; csv quoting / str.strip of tokens and the "
        "`informal` / `order` tokens of a contest line are not modelled.",
        "Assorter.mean of an empty list is numpy's nan; the model returns none and the theorems state that the tally "
        "comparison then fails.",
    ],
    design_ref="DESIGN.md section 5, C14",
)
