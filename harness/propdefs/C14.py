PROP = dict(
    modules=["Shangrla.Props.C14", "Shangrla.Props.RiskLimitIRVComparisonFull"],
    theorems=["Shangrla.C14.neb_agree", "Shangrla.C14.nen_agree", "Shangrla.C14.mean_gt_half_iff_tally",
              "Shangrla.C14.readers_agree", "Shangrla.C14.reapply_tallies",
              # beyond the inventory of DESIGN.md Appendix C
              "Shangrla.C14.mean_gt_half_iff_tally_nen", "Shangrla.C14.row_agree", "Shangrla.C14.nen_disagree_unlisted",
              "Shangrla.C14.file_readers", "Shangrla.C14.file_orders_agree",
              "Shangrla.C14.file_mean_gt_half_iff_tally",
              # C14's audit-side IRV assorters as the assorter parameter of the literal overstatement model (C04 o C14 o
              # C03 o C06 o C09 o C01; also registered under C09): pools, phantom CVRs, unfindable cards, style filter
              "Shangrla.RiskLimit.irvAssort_sum", "Shangrla.RiskLimit.irv_comparison_null_iff",
              "Shangrla.RiskLimit.irv_comparison_null", "Shangrla.RiskLimit.irv_comparison_false_assertion",
              "Shangrla.RiskLimit.irv_comparison_full_risk_limit",
              "Shangrla.RiskLimit.irv_comparison_full_wrong_winner_risk_limit",
              "Shangrla.RiskLimit.irv_comparison_full_wrong_winner_risk_limit_found",
              "Shangrla.RiskLimit.raire_comparison_full_wrong_winner_risk_limit",
              "Shangrla.RiskLimit.example_irv_comparison_full_exact"],
    groups={"irvballot": (12100, 73200)},
    boost=2.0,   # quick-tier budget factor when the anchored sources changed (default 5): keeps the boosted run near 2 min
    assumptions=[
        "nen_agree / mean_gt_half_iff_tally_nen / file_*: every ranked candidate belongs to the contest's candidate list "
        "(the property's quantifier: rankings over the candidate set). Outside it the two sides differ "
        "(theorem nen_disagree_unlisted: candidates [A,B], ballot X>A, nobody eliminated: audit counts it for A, "
        "generator does not); load_contests_from_raire never produces such a ballot, CVR.from_raire does.",
        "readers: rows are handed to the models as token lists; csv quoting / str.strip of tokens and the "
        "`informal` / `order` tokens of a contest line are not modelled.",
        "Assorter.mean of an empty list is numpy's nan; the model returns none and the theorems state that the tally "
        "comparison then fails.",
        "irv_comparison_full_* (RiskLimitIRVComparisonFull): the FOUND manual records of the cards under audit are aligned "
        "(C14's hypothesis: a duplicate-free ranking of listed candidates read as {c: k+1} by the audit and {c: k} by the "
        "generator side, or the contest absent on both); nothing is assumed of the records the overstatement scores 0 "
        "(unfindable card; under style a record lacking the contest) nor of the cards whose CVR does not pass the style "
        "filter (they are never used for the contest). The CVR side is arbitrary: any flags / pool labels, reported "
        "assorter values in [0,1], an unpooled phantom CVR under audit has the value 1/2 (C03's hph; true of both IRV "
        "assorters on a make_phantoms phantom, checked on the real library by tools/example_irv_comparison_full.py).",
    ],
    design_ref="DESIGN.md section 5, C14",
)
