PROP = dict(
    modules=["Shangrla.Props.C03"],
    theorems=["Shangrla.C03.cvr_assort_sum", "Shangrla.C03.overstatement_identity", "Shangrla.C03.reject_equiv",
              "Shangrla.C03.cvrAssort_score", "Shangrla.Overstatement.poolMeans_lookup",
              "Shangrla.Overstatement.group_sum", "Shangrla.Overstatement.compData_eq_mapM"],
    groups={"overstatement": (1500, 20000)},
    design_ref="DESIGN.md section 5, C03",
    assumptions=[
        "the raw assorter is a parameter: a record carries a = A(record); the theorems hold for every assignment of values "
        "with A(cvr) <= u (the concrete assorters and their range are another package's)",
        "hypothesis hph of overstatement_identity: a phantom CVR that is not scored through a pool mean has A = 1/2 "
        "(true of every phantom made by make_phantoms / the readers under every shipped assorter; a hand-made phantom "
        "record carrying votes outside a pool breaks the identity, see the counterexample in Props/C03.lean); a pooled "
        "phantom needs no hypothesis (its own A value enters the pool mean and the margin alike)",
        "the margin, the pool means and the data are computed under one style flag (stratum.use_style = "
        "contest.use_style = the use_style passed to set_tally_pool_means)",
    ],
)
